package main

// C20 — polynomial values are invariant under every change of representation.
// Runs the real iop / polynomial packages (7 scalar fields) on op lines that carry every constant the Lean
// model needs (modulus, generator of order 2^L, coset shift); the executor re-checks them against the package.
// Per-curve adapters: c20_curves.go (written from c20_curves.tmpl by c20_curves.sh, no go:generate).

import (
	"bufio"
	"bytes"
	"fmt"
	"math/big"
	"strconv"
	"strings"
	"sync"
)

type c20curve interface {
	Name() string
	Q() *big.Int
	NBytes() int
	Gen(m uint64) *big.Int
	MulGen() *big.Int
	Script(form, coeffs, script string) string
	Expr(resform, rmode string, eid, k int, rest []string) string
	DivX(m0, m1 int, form, coeffs, script string) string
	DivXS(m0, m1 int, shift, form, coeffs, script string, shapeOnly bool) string
	RatioS(resform, beta, xs string, k int, rest []string) string
	RatioC(resform, beta, gamma, perms, xs string, k int, rest []string) string
	Read(data []byte) string
	Poly(op string, a []string) string
}

var c20mu sync.Mutex
var c20curves = map[string]c20curve{}
var c20order []string

func c20register(c c20curve) { c20curves[c.Name()] = c; c20order = append(c20order, c.Name()) }

const c20L = 7

// signed integers travel as `-<hex>` or `<hex>`
func c20int(v int64) string {
	if v < 0 {
		return "-" + strconv.FormatInt(-v, 16)
	}
	return strconv.FormatInt(v, 16)
}
func c20parseInt(s string) int64 {
	neg := strings.HasPrefix(s, "-")
	if neg {
		s = s[1:]
	}
	v, _ := strconv.ParseInt(s, 16, 64)
	if neg {
		return -v
	}
	return v
}

func c20hdr(c c20curve) string {
	return fmt.Sprintf("%s %s %x %s %s", c.Name(), hexBig(c.Q()), c20L, hexBig(c.Gen(1<<c20L)), hexBig(c.MulGen()))
}

// checks `<curve> <q> <L> <wL> <g>` against the package
func c20check(a []string) (c20curve, bool) {
	if len(a) < 5 {
		return nil, false
	}
	c, ok := c20curves[a[0]]
	if !ok {
		return nil, false
	}
	L, err := strconv.ParseInt(a[2], 16, 32)
	if err != nil || L < 0 || L > 20 {
		return nil, false
	}
	if a[1] != hexBig(c.Q()) || a[3] != hexBig(c.Gen(uint64(1)<<L)) || a[4] != hexBig(c.MulGen()) {
		return nil, false
	}
	return c, true
}

func init() {
	executors["C20"] = c20exec
	generators["C20"] = c20gen
}

// c20exec answers one op line. Two wrappers turn a line into a call HISTORY inside one process (the model is pure, so it
// answers every call of a history independently):
//
//	rep <k> <op …>            the same op executed k times, all k answers reported
//	hist <op …> / <op …> / …  several ops (any curve, any kind) executed in this order, all answers reported
func c20exec(a []string) string {
	if len(a) >= 1 && a[0] == "rep" {
		if len(a) < 2 {
			return "bad-op"
		}
		k, err := strconv.ParseUint(a[1], 16, 32)
		if err != nil || k < 1 || k > 16 {
			return "bad-op"
		}
		res := make([]string, k)
		for i := range res {
			res[i] = c20execSafe(a[2:])
		}
		return strings.Join(res, " | ")
	}
	if len(a) >= 1 && a[0] == "hist" {
		var res []string
		seg := []string{}
		for _, w := range a[1:] {
			if w == "/" {
				res = append(res, c20execSafe(seg))
				seg = []string{}
			} else {
				seg = append(seg, w)
			}
		}
		res = append(res, c20execSafe(seg))
		return strings.Join(res, " | ")
	}
	return c20exec1(a)
}

func c20execSafe(a []string) (res string) {
	defer func() {
		if r := recover(); r != nil {
			res = "panic"
		}
	}()
	return c20exec1(a)
}

func c20exec1(a []string) string {
	if len(a) < 2 {
		return "bad-op"
	}
	kind := a[0]
	switch kind {
	case "conv", "shift", "evalpt", "getcoeff", "clone", "ser", "cosetnew", "obj":
		if len(a) != 10 {
			return "bad-op"
		}
		c, ok := c20check(a[1:])
		if !ok || a[6] != strconv.FormatInt(int64(c.NBytes()), 16) {
			return "bad-op"
		}
		return c.Script(a[7], a[8], a[9])
	case "expr":
		if len(a) < 10 {
			return "bad-op"
		}
		c, ok := c20check(a[1:])
		if !ok {
			return "bad-op"
		}
		eid, e1 := strconv.ParseInt(a[8], 16, 32)
		k, e2 := strconv.ParseInt(a[9], 16, 32)
		if e1 != nil || e2 != nil {
			return "bad-op"
		}
		return c.Expr(a[6], a[7], int(eid), int(k), a[10:])
	case "divx":
		if len(a) != 11 {
			return "bad-op"
		}
		c, ok := c20check(a[1:])
		if !ok {
			return "bad-op"
		}
		m0, e1 := strconv.ParseInt(a[6], 16, 32)
		m1, e2 := strconv.ParseInt(a[7], 16, 32)
		L, _ := strconv.ParseInt(a[3], 16, 32)
		if e1 != nil || e2 != nil || m0 < 0 || m0 > m1 || m1 > L {
			return "bad-op"
		}
		return c.DivX(int(m0), int(m1), a[8], a[9], a[10])
	case "divxs", "divxu":
		// divx on domains with the coset shift a[8]; divxs: shift^|big| != 1 (the division is defined everywhere on the
		// coset), full answer; divxu: shift^|big| = 1 (x^n - 1 vanishes somewhere on the coset), only the shape is reported
		if len(a) != 12 {
			return "bad-op"
		}
		c, ok := c20check(a[1:])
		if !ok {
			return "bad-op"
		}
		m0, e1 := strconv.ParseInt(a[6], 16, 32)
		m1, e2 := strconv.ParseInt(a[7], 16, 32)
		L, _ := strconv.ParseInt(a[3], 16, 32)
		if e1 != nil || e2 != nil || m0 < 0 || m0 > m1 || m1 > L {
			return "bad-op"
		}
		sh := parseBig(a[8])
		if sh.Sign() == 0 || sh.Cmp(c.Q()) >= 0 {
			return "bad-op"
		}
		one := new(big.Int).Exp(sh, big.NewInt(int64(1)<<m1), c.Q()).Cmp(big.NewInt(1)) == 0
		if one != (kind == "divxu") {
			return "bad-op" // the line claims the wrong side of the definedness condition
		}
		return c.DivXS(int(m0), int(m1), a[8], a[9], a[10], a[11], kind == "divxu")
	case "ratios":
		if len(a) < 10 {
			return "bad-op"
		}
		c, ok := c20check(a[1:])
		if !ok {
			return "bad-op"
		}
		k, err := strconv.ParseInt(a[9], 16, 32)
		if err != nil {
			return "bad-op"
		}
		return c.RatioS(a[6], a[7], a[8], int(k), a[10:])
	case "ratioc":
		if len(a) < 12 {
			return "bad-op"
		}
		c, ok := c20check(a[1:])
		if !ok {
			return "bad-op"
		}
		k, err := strconv.ParseInt(a[11], 16, 32)
		if err != nil {
			return "bad-op"
		}
		return c.RatioC(a[6], a[7], a[8], a[9], a[10], int(k), a[12:])
	case "read":
		if len(a) != 5 {
			return "bad-op"
		}
		c, ok := c20curves[a[1]]
		if !ok || a[2] != hexBig(c.Q()) || a[3] != strconv.FormatInt(int64(c.NBytes()), 16) {
			return "bad-op"
		}
		return c.Read(parseBytes(a[4]))
	case "peval", "interp", "padd", "psub", "pscale", "pconst", "mlfold", "mleval", "mleq", "evaleq", "mlsum":
		if len(a) < 3 {
			return "bad-op"
		}
		c, ok := c20curves[a[1]]
		if !ok || a[2] != hexBig(c.Q()) {
			return "bad-op"
		}
		want := map[string]int{"peval": 2, "interp": 1, "padd": 4, "psub": 4, "pscale": 3, "pconst": 3, "mlfold": 2,
			"mleval": 3, "mleq": 2, "evaleq": 2, "mlsum": 1}[kind]
		if len(a)-3 != want {
			return "bad-op"
		}
		return c.Poly(kind, a[3:])
	}
	return "bad-op"
}

// ------------------------------------------------------------------------------------------ generation

type c20g struct {
	*gen
	c   c20curve
	hdr string
	q   *big.Int
}

func (g *c20g) el() *big.Int {
	switch g.rng.intn(12) {
	case 0:
		return big.NewInt(0)
	case 1:
		return big.NewInt(1)
	case 2:
		return new(big.Int).Sub(g.q, big.NewInt(1))
	case 3:
		return big.NewInt(int64(g.rng.intn(16)))
	}
	return g.rng.bigBelow(g.q)
}
func (g *c20g) rnd() *big.Int { // a random point that is (whp) neither in the domain nor in the coset
	return g.rng.bigBelow(g.q)
}
func (g *c20g) vecBig(n int) []*big.Int {
	v := make([]*big.Int, n)
	for i := range v {
		v[i] = g.el()
	}
	return v
}
func c20showBig(v []*big.Int) string {
	if len(v) == 0 {
		return "-"
	}
	w := make([]string, len(v))
	for i := range v {
		w[i] = hexBig(v[i])
	}
	return strings.Join(w, ",")
}
func (g *c20g) vec(n int) string { return c20showBig(g.vecBig(n)) }

func (g *c20g) script(kind, form, coeffs string, toks []string) {
	s := "-"
	if len(toks) > 0 {
		s = strings.Join(toks, ",")
	}
	g.emit("C20 %s %s %x %s %s %s", kind, g.hdr, g.c.NBytes(), form, coeffs, s)
}

var c20forms = []string{"cr", "cb", "lr", "lb", "kr", "kb"}

func c20seqs(depth int) [][]string {
	ops := []string{"L", "C", "K", "R", "B"}
	res := [][]string{{}}
	for d := 0; d < depth; d++ {
		var nxt [][]string
		for _, s := range res {
			for _, o := range ops {
				t := append(append([]string{}, s...), o)
				nxt = append(nxt, t)
			}
		}
		res = nxt
	}
	return res
}

// ω^i and g·ω^i for the domain of size 2^m
func (g *c20g) omegaPow(m, i int) *big.Int {
	w := g.c.Gen(uint64(1) << m)
	return new(big.Int).Exp(w, big.NewInt(int64(i)), g.q)
}
func (g *c20g) cosetPt(m, i int) *big.Int {
	r := g.omegaPow(m, i)
	return r.Mul(r, g.c.MulGen()).Mod(r, g.q)
}

func c20shifts(size int) []int64 {
	s := int64(size)
	return []int64{0, 1, 2, 3, 4, 5, 6, 7, -1, -2, -6, s, s + 1, s - 1, -s, 3*s + 2, 1000}
}

func c20gen(gg *gen) {
	var prev []string
	for ci, name := range c20order {
		c := c20curves[name]
		g := &c20g{gen: gg, c: c, hdr: c20hdr(c), q: c.Q()}
		// the lines of this curve are captured, so that a sample of them can be wrapped into rep / hist lines
		realOut := gg.out
		var buf bytes.Buffer
		gg.out = bufio.NewWriterSize(&buf, 1<<20)
		g.conv(ci)
		g.shift()
		g.evalpt()
		g.getcoeff()
		g.cloneser()
		g.expr()
		g.divx()
		g.ratios()
		g.derived(ci)
		g.polypkg()
		g.serx(ci)
		g.obj(ci)
		g.histories()
		gg.out.Flush()
		gg.out = realOut
		gg.out.Write(buf.Bytes())
		prev = g.wrapSample(strings.Split(strings.TrimRight(buf.String(), "\n"), "\n"), prev)
	}
	// malformed lines
	c := c20curves[c20order[0]]
	hdr := c20hdr(c)
	gg.emit("C20")
	gg.emit("C20 conv")
	gg.emit("C20 conv %s %x cr 1,2", hdr, c.NBytes())
	gg.emit("C20 conv %s %x zz 1,2 F", hdr, c.NBytes())
	gg.emit("C20 conv %s %x cr 1,2 X3", hdr, c.NBytes())
	gg.emit("C20 conv nocurve 11 7 3 5 20 cr 1,2 F")
	gg.emit("C20 nokind %s %x cr 1,2 F", hdr, c.NBytes())
	gg.emit("C20 peval %s %s 1,2", c.Name(), hexBig(c.Q()))
	gg.emit("C20 expr %s", hdr)
}

// all conversion sequences of length `depth`, from every form; evaluation after every step, full dump at the end
func (g *c20g) conv(ci int) {
	depth := g.budget(3, 4)
	seqs := c20seqs(depth)
	for fi, form := range c20forms {
		for si, seq := range seqs {
			ms := []int{(si + ci + fi) % 7}
			if g.thorough() {
				ms = []int{0, 1, 2, 3, 4 + (si+ci+fi)%3}
			}
			for _, m := range ms {
				n := 1 << m
				M := m
				ln := n
				first := seq[0]
				if form == "cr" && (first == "L" || first == "C" || first == "K") {
					switch g.rng.intn(4) {
					case 0:
						ln = 1 + g.rng.intn(n)
					case 1:
						if m < 6 {
							M = m + 1
						}
					}
				}
				x := hexBig(g.rnd())
				var toks []string
				if form[0] == 'k' && M > 0 {
					toks = append(toks, fmt.Sprintf("K%x", M))
				}
				if si%4 == 1 {
					toks = append(toks, "S"+c20int([]int64{1, 2, 5}[(si/4)%3]))
				}
				hasK0 := false
				for k, o := range seq {
					switch o {
					case "L", "C":
						t := fmt.Sprintf("%s%x", o, M)
						if (si+k)%5 == 0 {
							t += fmt.Sprintf("/%x", []int{1, 2, 3, 8}[(si+k)/5%4])
						}
						toks = append(toks, t)
					case "K":
						if M == 0 {
							hasK0 = true
						}
						toks = append(toks, fmt.Sprintf("K%x", M))
					default:
						toks = append(toks, o)
					}
					toks = append(toks, "E"+x)
				}
				toks = append(toks, "F", "E"+hexBig(g.rnd()))
				kind := "conv"
				if hasK0 {
					kind = "cosetnew" // ToLagrangeCoset on a domain of size 1
				}
				g.script(kind, form, g.vec(ln), toks)
			}
		}
	}
}

func (g *c20g) shift() {
	maxm := g.budget(3, 6)
	for _, form := range c20forms {
		for m := 0; m <= maxm; m++ {
			n := 1 << m
			for _, s := range c20shifts(n) {
				pre := []string{}
				if form[0] == 'k' && m > 0 {
					pre = append(pre, fmt.Sprintf("K%x", m))
				}
				xs := []*big.Int{g.rnd()}
				if form[0] == 'c' {
					xs = append(xs, big.NewInt(1), g.omegaPow(m, 1))
				}
				for _, x := range xs {
					g.script("shift", form, g.vec(n), append(append([]string{}, pre...), "S"+c20int(s), "E"+hexBig(x)))
				}
				// shift, then convert, then evaluate
				conv := []string{"L", "C", "K"}[g.rng.intn(3)]
				if m > 0 {
					g.script("shift", form, g.vec(n), append(append([]string{}, pre...), "S"+c20int(s), fmt.Sprintf("%s%x", conv, m), "E"+hexBig(g.rnd())))
				}
				// smaller declared size: the generator of the smaller subgroup is used
				if m >= 2 && form[0] == 'c' {
					g.script("shift", form, g.vec(n), []string{fmt.Sprintf("Z%x", n/2), "S" + c20int(s), "E" + hexBig(g.rnd())})
				}
			}
		}
	}
}

func (g *c20g) evalpt() {
	maxm := g.budget(3, 5)
	for _, form := range c20forms {
		for m := 0; m <= maxm; m++ {
			n := 1 << m
			pts := []*big.Int{big.NewInt(0), big.NewInt(1), new(big.Int).Sub(g.q, big.NewInt(1)), g.rnd(), g.c.MulGen()}
			for i := 0; i < n; i++ {
				if n <= 8 || i < 3 || i >= n-2 || g.rng.intn(8) == 0 {
					pts = append(pts, g.omegaPow(m, i), g.cosetPt(m, i))
				}
			}
			coeffs := g.vec(n)
			for _, x := range pts {
				for _, s := range []int64{0, 1} {
					toks := []string{}
					if form[0] == 'k' && m > 0 {
						toks = append(toks, fmt.Sprintf("K%x", m))
					}
					if s != 0 {
						toks = append(toks, "S"+c20int(s))
					}
					toks = append(toks, "E"+hexBig(x))
					g.script("evalpt", form, coeffs, toks)
				}
			}
		}
	}
	// objects created directly in LagrangeCoset form (coset shift never set)
	for _, form := range []string{"kr", "kb"} {
		g.script("cosetnew", form, g.vec(4), []string{"E" + hexBig(g.rnd())})
	}
}

func (g *c20g) getcoeff() {
	maxm := g.budget(3, 5)
	for _, form := range c20forms {
		for m := 0; m <= maxm; m++ {
			n := 1 << m
			for _, sz := range []int{n, n / 2, n / 4} {
				if sz == 0 {
					continue
				}
				for _, s := range c20shifts(sz) {
					g.script("getcoeff", form, g.vec(n), []string{fmt.Sprintf("Z%x", sz), "S" + c20int(s), "G",
						fmt.Sprintf("g%x", n+1), fmt.Sprintf("g%x", 2*n)})
				}
			}
		}
	}
}

func (g *c20g) cloneser() {
	maxm := g.budget(3, 5)
	for _, form := range c20forms {
		for m := 0; m <= maxm; m++ {
			n := 1 << m
			pre := []string{}
			if form[0] == 'k' && m > 0 {
				pre = append(pre, fmt.Sprintf("K%x", m))
			}
			add := func(kind string, t ...string) {
				g.script(kind, form, g.vec(n), append(append([]string{}, pre...), t...))
			}
			x := "E" + hexBig(g.rnd())
			cv := fmt.Sprintf("%s%x", []string{"L", "C", "K"}[g.rng.intn(3)], m)
			if m == 0 {
				cv = "L0"
			}
			add("clone", "c", "F", x, cv, "F", x)
			add("clone", fmt.Sprintf("c%x", 2*n+3), cv, "B", "F", x)
			add("clone", "h", "F", x, "S2", x)
			add("clone", "S1", fmt.Sprintf("Z%x", (n+1)/2), "c", "F", "G")
			add("clone", "c", "R", "c", "B", "h", cv, "c", "F", x)
			for _, s := range []int64{0, 1, 5, 7, -1, -6, int64(n), (1 << 31) - 1, -(1 << 31)} {
				add("ser", "S"+c20int(s), fmt.Sprintf("Z%x", n), "W")
				add("ser", "S"+c20int(s), "w", "F")
			}
			add("ser", "w", "F", x, cv, x, "W")
			add("ser", cv, "w", x, "w", "B", "F")
		}
	}
	// ReadFrom on valid / truncated / out-of-range / odd streams
	nb := g.c.NBytes()
	enc := func(coeffs []*big.Int, basis, layout, shift, size uint32, coset *big.Int) []byte {
		var b []byte
		u32 := func(v uint32) { b = append(b, byte(v>>24), byte(v>>16), byte(v>>8), byte(v)) }
		elt := func(v *big.Int) { b = append(b, v.FillBytes(make([]byte, nb))...) }
		u32(uint32(len(coeffs)))
		for _, c := range coeffs {
			elt(c)
		}
		u32(basis)
		u32(layout)
		u32(shift)
		u32(size)
		elt(coset)
		return b
	}
	rd := func(b []byte) { g.emit("C20 read %s %s %x %s", g.c.Name(), hexBig(g.q), nb, hexBytes(b)) }
	for _, n := range []int{0, 1, 2, 4} {
		v := g.vecBig(n)
		full := enc(v, 1<<uint(g.rng.intn(3)), 8<<uint(g.rng.intn(2)), uint32(g.rng.intn(8)), uint32(n), g.c.MulGen())
		rd(full)
		rd(append(append([]byte{}, full...), 0xaa, 0xbb))
		for _, cut := range []int{0, 1, 3, 4, 5, 4 + nb - 1, 4 + n*nb, 4 + n*nb + 3, 4 + n*nb + 15, 4 + n*nb + 16, len(full) - 1} {
			if cut >= 0 && cut < len(full) {
				rd(full[:cut])
			}
		}
		rd(enc(v, 3, 5, 0xffffffff, 0, big.NewInt(0)))
		rd(enc(v, 0, 0, 0x80000000, 0xffffffff, new(big.Int).Sub(g.q, big.NewInt(1))))
		rd(enc(v, 1, 8, 0, uint32(n), g.q)) // coset = q: not reduced
		if n > 0 {
			w := append([]*big.Int{}, v...)
			w[n-1] = g.q
			rd(enc(w, 1, 8, 0, uint32(n), big.NewInt(1)))
			w[n-1] = new(big.Int).Lsh(big.NewInt(1), uint(8*nb)-1)
			rd(enc(w, 1, 8, 0, uint32(n), big.NewInt(1)))
		}
	}
}

func (g *c20g) polyArgs(form string, n int, shift int64, size int) string {
	return fmt.Sprintf("%s %s %s %x", form, g.vec(n), c20int(shift), size)
}

func (g *c20g) expr() {
	reps := g.budget(2, 8)
	for m := 0; m <= g.budget(3, 5); m++ {
		n := 1 << m
		for _, resform := range c20forms {
			for k := 1; k <= 3; k++ {
				for r := 0; r < reps; r++ {
					args := []string{}
					for j := 0; j < k; j++ {
						sz := n
						if g.rng.intn(4) == 0 && n > 1 {
							sz = n / 2
						}
						sh := int64(g.rng.intn(4))
						if g.rng.intn(3) > 0 {
							sh = 0
						}
						args = append(args, g.polyArgs(c20forms[g.rng.intn(6)], n, sh, sz))
					}
					rmode := "nil"
					if g.rng.intn(3) == 0 {
						rmode = fmt.Sprintf("%x", n)
					}
					g.emit("C20 expr %s %s %s %x %x %s", g.hdr, resform, rmode, g.rng.intn(4), k, strings.Join(args, " "))
				}
			}
		}
		// negative shift in one operand (GetCoeff index arithmetic)
		g.emit("C20 expr %s lr nil 0 2 %s %s", g.hdr, g.polyArgs("lr", n, -1, n), g.polyArgs("lb", n, 0, n))
		// errors
		g.emit("C20 expr %s lr %x 0 1 %s", g.hdr, n+1, g.polyArgs("lr", n, 0, n))
		g.emit("C20 expr %s lr nil 0 2 %s %s", g.hdr, g.polyArgs("lr", n, 0, n), g.polyArgs("lr", 2*n, 0, n))
	}
	g.emit("C20 expr %s lr nil 0 0", g.hdr)
}

func (g *c20g) divx() {
	reps := g.budget(1, 4)
	for m1 := 1; m1 <= g.budget(4, 6); m1++ {
		for m0 := 0; m0 < m1; m0++ {
			N0, N1 := 1<<m0, 1<<m1
			for r := 0; r < reps; r++ {
				// f = h·(X^N0 − 1), deg h < N1 − N0
				h := g.vecBig(N1 - N0)
				f := make([]*big.Int, N1)
				for i := range f {
					f[i] = new(big.Int)
				}
				for i, hv := range h {
					f[i+N0].Add(f[i+N0], hv)
					f[i].Sub(f[i], hv)
				}
				for i := range f {
					f[i].Mod(f[i], g.q)
				}
				for vi, tail := range [][]string{{}, {"R"}, {"B"}, {"S1"}} {
					toks := append([]string{fmt.Sprintf("K%x", m1), fmt.Sprintf("Z%x", N0)}, tail...)
					coeffs := c20showBig(f)
					if vi == 3 {
						coeffs = g.vec(N1) // not a multiple: still a pointwise division followed by interpolation
					}
					g.emit("C20 divx %s %x %x cr %s %s", g.hdr, m0, m1, coeffs, strings.Join(toks, ","))
				}
			}
		}
		g.emit("C20 divx %s %x %x lr %s -", g.hdr, 0, m1, g.vec(1<<m1))
		g.emit("C20 divx %s %x %x cb %s -", g.hdr, 0, m1, g.vec(1<<m1))
	}
}

func (g *c20g) ratios() {
	reps := g.budget(1, 3)
	for m := 1; m <= g.budget(3, 5); m++ {
		n := 1 << m
		for _, resform := range c20forms {
			for k := 2; k <= 3; k++ {
				for r := 0; r < reps; r++ {
					xs := "-"
					if resform[0] != 'k' && g.rng.intn(2) == 0 {
						xs = hexBig(g.rnd())
					}
					// shuffled vectors: denominators = a permutation of the numerators' values (or unrelated values)
					nums := make([][]*big.Int, k)
					all := []*big.Int{}
					for j := range nums {
						nums[j] = g.vecBig(n)
						all = append(all, nums[j]...)
					}
					if g.rng.intn(3) > 0 {
						for i := len(all) - 1; i > 0; i-- {
							j := g.rng.intn(i + 1)
							all[i], all[j] = all[j], all[i]
						}
					} else {
						all = g.vecBig(k * n)
					}
					args := []string{}
					for j := 0; j < k; j++ {
						args = append(args, fmt.Sprintf("%s %s 0 %x", []string{"lr", "lb"}[g.rng.intn(2)], c20showBig(nums[j]), n))
					}
					for j := 0; j < k; j++ {
						args = append(args, fmt.Sprintf("%s %s 0 %x", []string{"lr", "lb"}[g.rng.intn(2)], c20showBig(all[j*n:(j+1)*n]), n))
					}
					g.emit("C20 ratios %s %s %s %s %x %s", g.hdr, resform, hexBig(g.rnd()), xs, k, strings.Join(args, " "))
					// any input form (converted to Lagrange by the builder)
					args = args[:0]
					for j := 0; j < 2*k; j++ {
						args = append(args, g.polyArgs(c20forms[g.rng.intn(4)], n, 0, n))
					}
					g.emit("C20 ratios %s %s %s %s %x %s", g.hdr, resform, hexBig(g.rnd()), xs, k, strings.Join(args, " "))
					// copy constraint
					perm := make([]string, k*n)
					p := make([]int, k*n)
					for i := range p {
						p[i] = i
					}
					for i := len(p) - 1; i > 0; i-- {
						j := g.rng.intn(i + 1)
						p[i], p[j] = p[j], p[i]
					}
					for i := range p {
						perm[i] = fmt.Sprintf("%x", p[i])
					}
					args = args[:0]
					for j := 0; j < k; j++ {
						args = append(args, g.polyArgs(c20forms[g.rng.intn(4)], n, 0, n))
					}
					g.emit("C20 ratioc %s %s %s %s %s %s %x %s", g.hdr, resform, hexBig(g.rnd()), hexBig(g.rnd()), strings.Join(perm, ","), xs, k, strings.Join(args, " "))
				}
			}
		}
		// a single pair of polynomials; a single entry
		g.emit("C20 ratios %s lr %s - 1 %s %s", g.hdr, hexBig(g.rnd()), g.polyArgs("lr", n, 0, n), g.polyArgs("lr", n, 0, n))
		idp := make([]string, n)
		for i := range idp {
			idp[i] = fmt.Sprintf("%x", (i+1)%n)
		}
		g.emit("C20 ratioc %s lr %s %s %s - 1 %s", g.hdr, hexBig(g.rnd()), hexBig(g.rnd()), strings.Join(idp, ","), g.polyArgs("lr", n, 0, n))
		// result in LagrangeCoset form, evaluated
		for _, rf := range []string{"kr", "kb"} {
			g.emit("C20 ratios %s %s %s %s 2 %s %s %s %s", g.hdr, rf, hexBig(g.rnd()), hexBig(g.rnd()),
				g.polyArgs("lr", n, 0, n), g.polyArgs("lr", n, 0, n), g.polyArgs("lr", n, 0, n), g.polyArgs("lr", n, 0, n))
		}
	}
	// sizes
	g.emit("C20 ratios %s lr 5 - 2 %s %s %s %s", g.hdr, g.polyArgs("lr", 3, 0, 3), g.polyArgs("lr", 3, 0, 3), g.polyArgs("lr", 3, 0, 3), g.polyArgs("lr", 3, 0, 3))
	g.emit("C20 ratios %s lr 5 - 2 %s %s %s %s", g.hdr, g.polyArgs("lr", 4, 0, 4), g.polyArgs("lr", 2, 0, 2), g.polyArgs("lr", 4, 0, 4), g.polyArgs("lr", 4, 0, 4))
}

func (g *c20g) polypkg() {
	p := func(kind string, a ...string) {
		g.emit("C20 %s %s %s %s", kind, g.c.Name(), hexBig(g.q), strings.Join(a, " "))
	}
	maxlen := g.budget(12, 40)
	for n := 0; n <= maxlen; n++ {
		for _, x := range []*big.Int{big.NewInt(0), big.NewInt(1), g.rnd(), g.el()} {
			p("peval", g.vec(n), hexBig(x))
		}
		p("interp", g.vec(n))
		p("mlsum", g.vec(n))
		for _, op := range []string{"add", "sub", "scale"} {
			p("pconst", op, hexBig(g.el()), g.vec(n))
		}
		for _, mode := range []string{"nil", "same", "alias"} {
			p("pscale", mode, hexBig(g.el()), g.vec(n))
		}
	}
	if g.thorough() && g.c.Name() == c20order[0] {
		p("interp", g.vec(255))
	}
	p("interp", g.vec(256))
	for la := 0; la <= 5; la++ {
		for lb := 0; lb <= 5; lb++ {
			a, b := g.vec(la), g.vec(lb)
			for lp := 0; lp <= 5; lp += 1 + g.rng.intn(2) {
				p("padd", "fresh", g.vec(lp), a, b)
				p("psub", "fresh", g.vec(lp), a, b)
			}
			p("padd", "a1", a, a, b)
			p("padd", "a2", b, a, b)
			p("psub", "a1", a, a, b)
			p("psub", "a2", b, a, b)
		}
		a := g.vec(la)
		p("padd", "a12", a, a, a)
		p("psub", "a12", a, a, a)
	}
	// multilinear
	for n := 0; n <= g.budget(5, 7); n++ {
		sz := 1 << n
		for r := 0; r < g.budget(2, 6); r++ {
			p("mlfold", g.vec(sz), hexBig(g.el()))
			m := g.vec(sz)
			p("mleval", fmt.Sprintf("%d", r%2), m, g.vec(n))
			// a boolean point: the table entry itself
			bits := make([]*big.Int, n)
			for i := range bits {
				bits[i] = big.NewInt(int64(g.rng.intn(2)))
			}
			p("mleval", fmt.Sprintf("%d", r%2), m, c20showBig(bits))
			if n > 0 {
				p("mleval", "0", m, g.vec(n-1)) // fewer coordinates: entry 0 of the partially folded table
			}
			p("mleval", "0", m, g.vec(n+1)) // one too many
			qv := g.vec(n)
			p("mleq", g.vec(sz), qv)
			hv := g.vec(n)
			p("evaleq", qv, hv)
			p("evaleq", qv, g.vec(n+1))
			// Eq table evaluated at h equals EvalEq(q, h): three lines share q, h
			one := make([]*big.Int, sz)
			for i := range one {
				one[i] = big.NewInt(int64(1 + i))
			}
			p("mleq", c20showBig(one), qv)
		}
		if n > 0 {
			p("mleq", g.vec(sz), g.vec(n-1))
			p("evaleq", g.vec(n), g.vec(n-1))
		}
	}
	for _, sz := range []int{3, 5, 6, 7} {
		p("mlfold", g.vec(sz), hexBig(g.el()))
	}
}
