package main

import "math/big"

// C09: the same C01 op lines are answered by every build/run configuration (default asm, ADX off, purego);
// this generator stresses what has several implementations: mul/square/add/sub/double/neg/butterfly/small multiples
// on the boundary lattice and vector routines of every length 0..4·blocksize+tail with sub-slice alignments.
func init() { generators["C09"] = genC09 }

func genC09(g *gen) {
	for _, name := range fieldNames {
		f := fields[name]
		q := f.Q()
		lat := fieldLattice(f, g.rng, g.budget(4, 30))
		pick := func() *big.Int {
			if g.rng.intn(3) == 0 {
				return lat[g.rng.intn(len(lat))]
			}
			return g.rng.bigBelow(q)
		}
		for _, op := range []string{"square", "neg", "double", "halve", "mulby3", "mulby5", "mulby13"} {
			for _, x := range lat {
				g.emit("C01 %s %s %s", name, op, hexBig(x))
			}
		}
		k := 0
		stride := g.budget(4, 1)
		for _, op := range []string{"mul", "add", "sub", "butterfly"} {
			for i, x := range lat {
				for j, y := range lat {
					k++
					if i != j && k%stride != 0 {
						continue
					}
					g.emit("C01 %s %s %s %s", name, op, hexBig(x), hexBig(y))
				}
			}
			for i := 0; i < g.budget(100, 3000); i++ {
				g.emit("C01 %s %s %s %s", name, op, hexBig(pick()), hexBig(pick()))
			}
		}
		maxLen := g.budget(4*16+5, 8*16+7)
		for l := 0; l <= maxLen; l++ {
			mk := func() []*big.Int {
				v := make([]*big.Int, l)
				for i := range v {
					v[i] = pick()
				}
				return v
			}
			a, b := mk(), mk()
			g.emit("C01 %s vadd %s %s", name, hexList(a), hexList(b))
			g.emit("C01 %s vsub %s %s", name, hexList(a), hexList(b))
			g.emit("C01 %s vmul %s %s", name, hexList(a), hexList(b))
			g.emit("C01 %s vscalarmul %s %s", name, hexList(a), hexBig(pick()))
			g.emit("C01 %s vsum %s", name, hexList(a))
			g.emit("C01 %s vinner %s %s", name, hexList(a), hexList(b))
			if l%5 == 1 {
				for _, off := range []int{1, 3} {
					g.emit("C01 %s valign %x vadd %s %s", name, off, hexList(a), hexList(b))
					g.emit("C01 %s valign %x vmul %s %s", name, off, hexList(a), hexList(b))
				}
			}
		}
		// operand lengths that differ: every path must panic (documented), whatever the kernel/generic dispatch
		for _, ll := range [][2]int{{0, 1}, {1, 0}, {3, 4}, {16, 17}, {17, 16}, {0, 16}, {32, 0}} {
			mkl := func(l int) []*big.Int {
				v := make([]*big.Int, l)
				for i := range v {
					v[i] = pick()
				}
				return v
			}
			a, b := mkl(ll[0]), mkl(ll[1])
			for _, op := range []string{"vadd", "vsub", "vmul", "vinner"} {
				g.emit("C01 %s %s %s %s", name, op, hexList(a), hexList(b))
			}
		}
		for _, l := range []int{112, 113, 127, 128, 129, 255, 256, 257, 1024 + 3} { // around the minimum sizes that switch implementation
			v := make([]*big.Int, l)
			w := make([]*big.Int, l)
			for i := range v {
				v[i], w[i] = pick(), pick()
			}
			g.emit("C01 %s vsum %s", name, hexList(v))
			g.emit("C01 %s vinner %s %s", name, hexList(v), hexList(w))
			g.emit("C01 %s vmul %s %s", name, hexList(v), hexList(w))
		}
	}
	genC09Paths(g) // op classes of C09 itself (c09_paths.go): long structured vectors, sub-slice FFT, Poseidon2 constructors, SIS
}
