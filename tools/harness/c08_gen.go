// static list: the BigEndian / LittleEndian byte orders of the 23 field packages (unexported types, reached by reflection in c08.go)
package main

import (
	bls12_377_fp "github.com/consensys/gnark-crypto/ecc/bls12-377/fp"
	bls12_377_fr "github.com/consensys/gnark-crypto/ecc/bls12-377/fr"
	bls12_381_fp "github.com/consensys/gnark-crypto/ecc/bls12-381/fp"
	bls12_381_fr "github.com/consensys/gnark-crypto/ecc/bls12-381/fr"
	bls24_315_fp "github.com/consensys/gnark-crypto/ecc/bls24-315/fp"
	bls24_315_fr "github.com/consensys/gnark-crypto/ecc/bls24-315/fr"
	bls24_317_fp "github.com/consensys/gnark-crypto/ecc/bls24-317/fp"
	bls24_317_fr "github.com/consensys/gnark-crypto/ecc/bls24-317/fr"
	bn254_fp "github.com/consensys/gnark-crypto/ecc/bn254/fp"
	bn254_fr "github.com/consensys/gnark-crypto/ecc/bn254/fr"
	bw6_633_fp "github.com/consensys/gnark-crypto/ecc/bw6-633/fp"
	bw6_633_fr "github.com/consensys/gnark-crypto/ecc/bw6-633/fr"
	bw6_761_fp "github.com/consensys/gnark-crypto/ecc/bw6-761/fp"
	bw6_761_fr "github.com/consensys/gnark-crypto/ecc/bw6-761/fr"
	grumpkin_fp "github.com/consensys/gnark-crypto/ecc/grumpkin/fp"
	grumpkin_fr "github.com/consensys/gnark-crypto/ecc/grumpkin/fr"
	secp256k1_fp "github.com/consensys/gnark-crypto/ecc/secp256k1/fp"
	secp256k1_fr "github.com/consensys/gnark-crypto/ecc/secp256k1/fr"
	stark_curve_fp "github.com/consensys/gnark-crypto/ecc/stark-curve/fp"
	stark_curve_fr "github.com/consensys/gnark-crypto/ecc/stark-curve/fr"
	babybear "github.com/consensys/gnark-crypto/field/babybear"
	goldilocks "github.com/consensys/gnark-crypto/field/goldilocks"
	koalabear "github.com/consensys/gnark-crypto/field/koalabear"
)

func init() {
	c08Orders["bls12_377_fp"] = [2]any{bls12_377_fp.BigEndian, bls12_377_fp.LittleEndian}
	c08Orders["bls12_377_fr"] = [2]any{bls12_377_fr.BigEndian, bls12_377_fr.LittleEndian}
	c08Orders["bls12_381_fp"] = [2]any{bls12_381_fp.BigEndian, bls12_381_fp.LittleEndian}
	c08Orders["bls12_381_fr"] = [2]any{bls12_381_fr.BigEndian, bls12_381_fr.LittleEndian}
	c08Orders["bls24_315_fp"] = [2]any{bls24_315_fp.BigEndian, bls24_315_fp.LittleEndian}
	c08Orders["bls24_315_fr"] = [2]any{bls24_315_fr.BigEndian, bls24_315_fr.LittleEndian}
	c08Orders["bls24_317_fp"] = [2]any{bls24_317_fp.BigEndian, bls24_317_fp.LittleEndian}
	c08Orders["bls24_317_fr"] = [2]any{bls24_317_fr.BigEndian, bls24_317_fr.LittleEndian}
	c08Orders["bn254_fp"] = [2]any{bn254_fp.BigEndian, bn254_fp.LittleEndian}
	c08Orders["bn254_fr"] = [2]any{bn254_fr.BigEndian, bn254_fr.LittleEndian}
	c08Orders["bw6_633_fp"] = [2]any{bw6_633_fp.BigEndian, bw6_633_fp.LittleEndian}
	c08Orders["bw6_633_fr"] = [2]any{bw6_633_fr.BigEndian, bw6_633_fr.LittleEndian}
	c08Orders["bw6_761_fp"] = [2]any{bw6_761_fp.BigEndian, bw6_761_fp.LittleEndian}
	c08Orders["bw6_761_fr"] = [2]any{bw6_761_fr.BigEndian, bw6_761_fr.LittleEndian}
	c08Orders["grumpkin_fp"] = [2]any{grumpkin_fp.BigEndian, grumpkin_fp.LittleEndian}
	c08Orders["grumpkin_fr"] = [2]any{grumpkin_fr.BigEndian, grumpkin_fr.LittleEndian}
	c08Orders["secp256k1_fp"] = [2]any{secp256k1_fp.BigEndian, secp256k1_fp.LittleEndian}
	c08Orders["secp256k1_fr"] = [2]any{secp256k1_fr.BigEndian, secp256k1_fr.LittleEndian}
	c08Orders["stark_curve_fp"] = [2]any{stark_curve_fp.BigEndian, stark_curve_fp.LittleEndian}
	c08Orders["stark_curve_fr"] = [2]any{stark_curve_fr.BigEndian, stark_curve_fr.LittleEndian}
	c08Orders["babybear"] = [2]any{babybear.BigEndian, babybear.LittleEndian}
	c08Orders["goldilocks"] = [2]any{goldilocks.BigEndian, goldilocks.LittleEndian}
	c08Orders["koalabear"] = [2]any{koalabear.BigEndian, koalabear.LittleEndian}
}
