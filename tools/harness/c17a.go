package main

// C17 (pairing-based half): Pedersen, SHPLONK, fflonk, permutation, plookup, mpcsetup.
// Op lines:  C17 <scheme> <curve> [kind] k=v ...   (all integers lower-case hex; lists a,b,c ; list of lists with ';' ;
// packs with '|' ; '-' empty list ; '_' empty list of lists).  Every group element is given by its discrete logarithm
// (the harness multiplies the generators), every honest proof is produced by the real prover of the library, the
// mutation named by mut= is applied to the real proof object and the real verifier answers 1 / 0 / err / panic.
// Fiat-Shamir challenges travel in the op line (gp,zp: prover; gv,zv: verifier after the mutation): the generator
// derives them by re-running the transcript on the real objects (the exec side never reads them, except for the
// trapdoor forgeries that need the verifier's challenge to compute the forged group element).

import (
	"math/big"
	"reflect"
	"strconv"
	"strings"
	"unsafe"
)

// pointer to an unexported field of a library struct (the proof objects of permutation / plookup keep their
// components private; the mutations need write access)
func c17Field[T any](structPtr any, name string) *T {
	v := reflect.ValueOf(structPtr).Elem().FieldByName(name)
	return (*T)(unsafe.Pointer(v.UnsafeAddr()))
}

type kvs map[string]string

func parseKvs(a []string) kvs {
	m := kvs{}
	for _, t := range a {
		if i := strings.IndexByte(t, '='); i > 0 {
			m[t[:i]] = t[i+1:]
		}
	}
	return m
}
func (m kvs) big(k string) *big.Int { return parseBig(m[k]) }
func (m kvs) int(k string) int {
	v, _ := strconv.ParseUint(m[k], 16, 32)
	return int(v)
}
func bigL(s string) []*big.Int {
	if s == "-" || s == "" || s == "_" {
		return nil
	}
	var r []*big.Int
	for _, t := range strings.Split(s, ",") {
		r = append(r, parseBig(t))
	}
	return r
}
func bigLL(s string) [][]*big.Int {
	if s == "_" || s == "" {
		return nil
	}
	var r [][]*big.Int
	for _, t := range strings.Split(s, ";") {
		r = append(r, bigL(t))
	}
	return r
}
func bigLLL(s string) [][][]*big.Int {
	if s == "_" || s == "" {
		return nil
	}
	var r [][][]*big.Int
	for _, t := range strings.Split(s, "|") {
		r = append(r, bigLL(t))
	}
	return r
}
func showL(l []*big.Int) string {
	if len(l) == 0 {
		return "-"
	}
	s := make([]string, len(l))
	for i := range l {
		s[i] = hexBig(l[i])
	}
	return strings.Join(s, ",")
}
func showLL(l [][]*big.Int) string {
	if len(l) == 0 {
		return "_"
	}
	s := make([]string, len(l))
	for i := range l {
		s[i] = showL(l[i])
	}
	return strings.Join(s, ";")
}
func showLLL(l [][][]*big.Int) string {
	if len(l) == 0 {
		return "_"
	}
	s := make([]string, len(l))
	for i := range l {
		s[i] = showLL(l[i])
	}
	return strings.Join(s, "|")
}

// one implementation per curve (generated from c17a_bn254.go by sed, see c17a_gen.sh)
type c17Curve interface {
	modulus() *big.Int
	frGen() *big.Int // fft.GeneratorFullMultiplicativeGroup
	hasNoSubG1() bool
	pedSingle(a kvs) string
	pedBatch(a kvs) string
	shplonk(a kvs, derive bool) string
	fflonk(a kvs, derive bool) string
	permutation(a kvs, derive bool) string
	plookup(a kvs, derive bool) string
	mpcsetup(a kvs) string
}

var c17Curves = map[string]c17Curve{}
var c17CurveNames = []string{"bn254", "bls12-377", "bls12-381", "bls24-315", "bls24-317", "bw6-633", "bw6-761"}

var c17aSchemes = map[string]bool{"pedersen": true, "shplonk": true, "fflonk": true, "permutation": true, "plookup": true, "mpcsetup": true}

// the tag C17 is shared with the hash-based half (FRI, Vortex): chain instead of overwrite
func init() {
	prevE, prevG := executors["C17"], generators["C17"]
	executors["C17"] = func(a []string) string {
		if len(a) > 0 && !c17aSchemes[a[0]] && prevE != nil {
			return prevE(a)
		}
		return execC17a(a)
	}
	generators["C17"] = func(g *gen) {
		if prevG != nil {
			prevG(g)
		}
		genC17a(g)
	}
	generators["C17a"] = genC17a
}

func execC17a(a []string) string {
	if len(a) < 2 {
		return "bad-op"
	}
	c, ok := c17Curves[a[1]]
	if !ok {
		return "bad-op"
	}
	switch a[0] {
	case "pedersen":
		if len(a) < 3 {
			return "bad-op"
		}
		if a[2] == "single" {
			return c.pedSingle(parseKvs(a[3:]))
		}
		if a[2] == "batch" {
			return c.pedBatch(parseKvs(a[3:]))
		}
	case "shplonk":
		return c.shplonk(parseKvs(a[2:]), false)
	case "fflonk":
		return c.fflonk(parseKvs(a[2:]), false)
	case "permutation":
		return c.permutation(parseKvs(a[2:]), false)
	case "plookup":
		return c.plookup(parseKvs(a[2:]), false)
	case "mpcsetup":
		return c.mpcsetup(parseKvs(a[2:]))
	}
	return "bad-op"
}

// ---------------------------------------------------------------------------------------------- generation

func (g *gen) scalar(r *big.Int) *big.Int { return g.rng.bigBelow(r) }
func (g *gen) nzScalar(r *big.Int) *big.Int {
	for {
		v := g.rng.bigBelow(r)
		if v.Sign() != 0 {
			return v
		}
	}
}
func (g *gen) scalars(r *big.Int, n int) []*big.Int {
	l := make([]*big.Int, n)
	for i := range l {
		l[i] = g.scalar(r)
	}
	return l
}

// a scalar from the boundary lattice {0,1,2,r-1,r-2,random}
func (g *gen) latticeScalar(r *big.Int) *big.Int {
	switch g.rng.intn(8) {
	case 0:
		return big.NewInt(0)
	case 1:
		return big.NewInt(1)
	case 2:
		return new(big.Int).Sub(r, big.NewInt(1))
	case 3:
		return big.NewInt(2)
	}
	return g.scalar(r)
}

// quick tier: every curve gets every honest case; the substitution lists run in full on bn254 and as a rotating third on
// the six other curves (each mutation is still exercised on two or three curves); thorough: everything everywhere
func (g *gen) keep(cn string, j int) bool {
	if g.thorough() || cn == "bn254" {
		return true
	}
	ci := 0
	for i, n := range c17CurveNames {
		if n == cn {
			ci = i
		}
	}
	return (j+ci)%3 == 0
}

func genC17a(g *gen) {
	for _, cn := range c17CurveNames {
		c := c17Curves[cn]
		if c == nil {
			continue
		}
		genPedersen(g, cn, c)
		genShplonk(g, cn, c)
		genFflonk(g, cn, c)
		genPermutation(g, cn, c)
		genPlookup(g, cn, c)
		genMpcsetup(g, cn, c)
	}
}

func genPedersen(g *gen, cn string, c c17Curve) {
	r := c.modulus()
	singleMuts := []string{"none", "Cset", "Cadd", "Czero", "Pset", "Padd", "Pzero", "Cother", "Pother", "both", "swap", "scale", "Pkey", "vkG", "vkS"}
	if c.hasNoSubG1() {
		singleMuts = append(singleMuts, "Cnosub", "Pnosub")
	}
	sizes := []int{0, 1, 2, 3, 5}
	if g.thorough() {
		sizes = append(sizes, 8, 17, 40)
	}
	for _, n := range sizes {
		for rep := 0; rep < g.budget(1, 3); rep++ {
			gg, s := g.nzScalar(r), g.nzScalar(r)
			b, v, v2 := g.scalars(r, n), g.scalars(r, n), g.scalars(r, n)
			if rep == 1 && n > 0 { // zero entries in basis / values
				b[0] = big.NewInt(0)
				v[n-1] = big.NewInt(0)
			}
			for j, mut := range singleMuts {
				if !g.keep(cn, j+n) {
					continue
				}
				m := g.nzScalar(r)
				g.emit("C17 pedersen %s single g=%s s=%s b=%s v=%s v2=%s mut=%s m=%s", cn, hexBig(gg), hexBig(s), showL(b), showL(v), showL(v2), mut, hexBig(m))
			}
			// neutral substitutions (shift by 0, scale by 1 / 0) and degenerate keys: the verdict is the relation's
			for _, mm := range [][2]string{{"Cadd", "0"}, {"Padd", "0"}, {"scale", "1"}, {"scale", "0"}, {"Pkey", hexBig(s)}, {"vkG", hexBig(gg)}} {
				g.emit("C17 pedersen %s single g=%s s=%s b=%s v=%s v2=%s mut=%s m=%s", cn, hexBig(gg), hexBig(s), showL(b), showL(v), showL(v2), mm[0], mm[1])
			}
		}
	}
	// PARTIAL VANISHING, every curve: one operand of e(C, [−σg]G₂)·e(pok, [g]G₂) is the identity while the relation is false
	// (C = O / pok = O with the partner kept; vk.G = O / vk.GSigmaNeg = O / σ = 0 with a non-trivial partner), and the contrast
	// cases where the vanishing operand's partner vanishes as well (accepted)
	for rep := 0; rep < g.budget(1, 3); rep++ {
		n := 1 + g.rng.intn(4)
		gg, s := g.nzScalar(r), g.nzScalar(r)
		b, v, v2 := g.scalars(r, n), g.scalars(r, n), g.scalars(r, n)
		line := func(gg, s *big.Int, v []*big.Int, mut string, m *big.Int) {
			g.emit("C17 pedersen %s single g=%s s=%s b=%s v=%s v2=%s mut=%s m=%s", cn, hexBig(gg), hexBig(s), showL(b), showL(v), showL(v2), mut, hexBig(m))
		}
		zero := big.NewInt(0)
		zeros := make([]*big.Int, n)
		for i := range zeros {
			zeros[i] = zero
		}
		line(gg, s, v, "Czero", zero)             // C = O, pok ≠ O
		line(gg, s, v, "Pzero", zero)             // pok = O, C ≠ O
		line(gg, s, v, "vkG", zero)               // [g]G₂ = O, C ≠ O
		line(gg, s, v, "vkS", zero)               // [−σg]G₂ = O, pok ≠ O
		line(gg, zero, v, "Pset", g.nzScalar(r))  // σ = 0: GSigmaNeg = O, pok ≠ O
		line(gg, zero, v, "Cset", g.nzScalar(r))  // σ = 0: GSigmaNeg = O, honest pok = O: any C is accepted
		line(zero, s, v, "Pset", g.nzScalar(r))   // g = 0: both G2 operands O: accepted
		line(gg, s, zeros, "none", zero)          // C = pok = O: accepted
		line(gg, s, zeros, "Pset", g.nzScalar(r)) // C = O, pok ≠ O
		line(gg, s, zeros, "Cset", g.nzScalar(r)) // pok = O, C ≠ O
		if c.hasNoSubG1() {                       // subgroup membership of each G1 argument: honest element + a point of cofactor order
			line(gg, s, v, "Ctor", g.nzScalar(r))
			line(gg, s, v, "Ptor", g.nzScalar(r))
		}
	}
	// value-length mismatch
	g.emit("C17 pedersen %s single g=1 s=2 b=3,4 v=5 v2=- mut=none m=0", cn)
	// degenerate keys σ=0 / g=0 (not produced by Setup; the exponent relation still decides)
	g.emit("C17 pedersen %s single g=1 s=0 b=3,4 v=5,6 v2=7,8 mut=none m=0", cn)
	g.emit("C17 pedersen %s single g=1 s=0 b=3,4 v=5,6 v2=7,8 mut=Cset m=9", cn)
	g.emit("C17 pedersen %s single g=0 s=5 b=3,4 v=5,6 v2=7,8 mut=Pset m=9", cn)

	// Ccancel / Pcancel: errors e, −e in two commitments / proofs of knowledge (cancel iff their two coefficients are equal: the
	// coefficient r is on the line, r = 1 and r = 0 included; the model computes with it)
	batchMuts := []string{"none", "Cset", "Cadd", "Czero", "Pset", "Padd", "Pzero", "Cswap", "rv", "vkG", "vkS", "dropP", "dropC", "scale", "Pcomp", "Ccancel", "Pcancel"}
	for _, mode := range []string{"multi", "folded"} {
		for k := 0; k <= g.budget(4, 7); k++ {
			gg := g.nzScalar(r)
			ss := make([]*big.Int, k)
			bs := make([][]*big.Int, k)
			vs := make([][]*big.Int, k)
			for i := 0; i < k; i++ {
				ss[i] = g.nzScalar(r)
				n := g.rng.intn(4)
				if i == 0 && k > 1 {
					n = 1 + g.rng.intn(3)
				}
				bs[i], vs[i] = g.scalars(r, n), g.scalars(r, n)
			}
			if mode == "folded" {
				for i := range ss {
					ss[i] = ss[0]
				}
			}
			for j, mut := range batchMuts {
				if mut != "none" && !g.keep(cn, j+k) {
					continue
				}
				if k == 0 && mut != "none" {
					continue
				}
				if (mut == "Pcomp" || mut == "Pcancel") && (mode != "multi" || k < 2) {
					continue
				}
				if mut == "Ccancel" && k < 2 {
					continue
				}
				idxs := []int{0}
				if k > 1 {
					idxs = append(idxs, k-1)
				}
				if mut == "none" || mut == "rv" || mut == "dropP" || mut == "dropC" || mut == "scale" || mut == "Pcomp" {
					idxs = []int{0}
				}
				if mut == "Ccancel" || mut == "Pcancel" {
					idxs = []int{0, k - 1} // partner (i+1) mod k
				}
				for _, i := range idxs {
					if (mut == "Pset" || mut == "Padd" || mut == "Pzero") && mode == "folded" && i > 0 {
						continue
					}
					g.emit("C17 pedersen %s batch g=%s s=%s b=%s v=%s r=%s mode=%s mut=%s i=%x m=%s", cn, hexBig(gg), showL(ss), showLL(bs), showLL(vs),
						hexBig(g.latticeScalar(r)), mode, mut, i, hexBig(g.nzScalar(r)))
				}
			}
			if k == 0 {
				continue
			}
			// every curve: all G1 operands of the σ-pairs / of the G-pair the identity (partial vanishing), and subgroup
			// membership of EVERY commitment and EVERY proof of knowledge (honest element + a point of cofactor order)
			batchLine := func(mut string, i int) {
				g.emit("C17 pedersen %s batch g=%s s=%s b=%s v=%s r=%s mode=%s mut=%s i=%x m=%s", cn, hexBig(gg), showL(ss), showLL(bs), showLL(vs),
					hexBig(g.nzScalar(r)), mode, mut, i, hexBig(g.nzScalar(r)))
			}
			batchLine("CzeroAll", 0)
			batchLine("PzeroAll", 0)
			if c.hasNoSubG1() {
				for i := 0; i < k; i++ {
					batchLine("Ctor", i)
					if mode == "multi" || i == 0 {
						batchLine("Ptor", i)
					}
				}
			}
		}
	}
}

// random polynomial / point-set shapes for the batch-opening schemes
func (g *gen) shShape(r *big.Int, maxPolys, maxDeg, maxPts int) (polys, pts [][]*big.Int) {
	np := 1 + g.rng.intn(maxPolys)
	shared := g.scalars(r, maxPts+1)
	for i := 0; i < np; i++ {
		polys = append(polys, g.scalars(r, 1+g.rng.intn(maxDeg)))
		k := 1 + g.rng.intn(maxPts)
		var s []*big.Int
		switch g.rng.intn(3) {
		case 0: // same set as everybody
			s = append(s, shared[:k]...)
		case 1: // distinct fresh points
			s = g.scalars(r, k)
		default: // partially shared
			s = g.scalars(r, k)
			s[0] = shared[0]
		}
		pts = append(pts, s)
	}
	return
}

var shMuts = []string{"none", "cvSet", "cvAdd", "cvZero", "cvOther", "Wset", "Wadd", "Wzero", "Wother", "WPset", "WPadd", "WPzero", "WPother", "Wswap",
	"digSet", "digAdd", "digZero", "digOther", "ptSet", "ptAdd", "vkG1", "vkH0", "vkH1", "forge"}

func genShplonk(g *gen, cn string, c c17Curve) {
	r := c.modulus()
	emit := func(polys, polys2, pts [][]*big.Int, n int, mut string, i, j int, m *big.Int) {
		tau := g.nzScalar(r)
		base := "tau=" + hexBig(tau) + " n=" + strconv.FormatInt(int64(n), 16) + " p=" + showLL(polys) + " pts=" + showLL(pts) + " p2=" + showLL(polys2) +
			" mut=" + mut + " i=" + strconv.FormatInt(int64(i), 16) + " j=" + strconv.FormatInt(int64(j), 16) + " m=" + hexBig(m)
		ch := c.shplonk(parseKvs(strings.Fields(base)), true)
		g.emit("C17 shplonk %s %s %s", cn, base, ch)
	}
	srsFor := func(polys, pts [][]*big.Int) int {
		mx, np := 0, 0
		for i := range polys {
			if len(polys[i]) > mx {
				mx = len(polys[i])
			}
			if len(pts[i])+1 > mx {
				mx = len(pts[i]) + 1
			}
			np += len(pts[i])
		}
		return mx + np + 1
	}
	other := func(polys [][]*big.Int) [][]*big.Int {
		o := make([][]*big.Int, len(polys))
		for i := range polys {
			o[i] = g.scalars(r, len(polys[i]))
		}
		return o
	}
	// honest proofs over a lattice of shapes (minimal sizes included)
	shapes := [][2][][]int{}
	_ = shapes
	for rep := 0; rep < g.budget(4, 40); rep++ {
		polys, pts := g.shShape(r, 4, 6, 3)
		if rep == 0 { // minimal: one constant polynomial, one point
			polys, pts = [][]*big.Int{{g.scalar(r)}}, [][]*big.Int{{g.scalar(r)}}
		}
		if rep == 1 { // zero polynomial, the point 0, a root
			polys = [][]*big.Int{{big.NewInt(0), big.NewInt(0)}, {big.NewInt(0), big.NewInt(1)}}
			pts = [][]*big.Int{{big.NewInt(0), big.NewInt(1)}, {big.NewInt(0)}}
		}
		emit(polys, nil, pts, srsFor(polys, pts), "none", 0, 0, big.NewInt(0))
	}
	// SRS exactly as long as the longest polynomial: the prover needs more (w' is committed with totalSize-1 coefficients)
	{
		polys, pts := g.shShape(r, 2, 5, 2)
		emit(polys, nil, pts, srsFor(polys, pts)-3, "none", 0, 0, big.NewInt(0))
	}
	// every single-component substitution
	for rep := 0; rep < g.budget(1, 10); rep++ {
		polys, pts := g.shShape(r, 3, 5, 3)
		polys2 := other(polys)
		n := srsFor(polys, pts)
		for j, mut := range shMuts[1:] {
			if !g.keep(cn, j) {
				continue
			}
			i := g.rng.intn(len(polys))
			j := g.rng.intn(len(pts[i]))
			emit(polys, polys2, pts, n, mut, i, j, g.nzScalar(r))
		}
		// partial vanishing (every curve, every repetition): W' := −F/z makes the first pairing operand the identity
		for q := 0; q < g.budget(2, 4); q++ {
			i := g.rng.intn(len(polys))
			emit(polys, polys2, pts, n, "vanish", i, g.rng.intn(len(pts[i])), g.nzScalar(r))
		}
		// malformed proof objects: wrong number of components
		if rep == 0 {
			for _, mut := range []string{"cvDrop", "cvExtra", "cvDropSet", "digDrop", "ptsDrop"} {
				emit(polys, polys2, pts, n, mut, len(polys)-1, 0, g.nzScalar(r))
			}
		}
		// no-trapdoor forgery when a point belongs to two opening sets (needs γ before the claimed values are fixed): the
		// point x is shared by exactly two sets, in every position pattern (first / last / only element), 2..4 polynomials
		for k := 0; k < 3; k++ {
			np := 2 + g.rng.intn(3)
			op := make([][]*big.Int, np)
			opts := make([][]*big.Int, np)
			for q := range op {
				op[q] = g.scalars(r, 1+g.rng.intn(5))
				opts[q] = g.scalars(r, 1+g.rng.intn(3)) // fresh random points: distinct with overwhelming probability
			}
			a, b := g.rng.intn(np), g.rng.intn(np-1)
			if b >= a {
				b++
			}
			ja, jb := g.rng.intn(len(opts[a])), g.rng.intn(len(opts[b]))
			if k == 0 { // the PLONK shape: S_a = {x, x'} and S_b = {x}
				opts[a], opts[b] = g.scalars(r, 2), g.scalars(r, 1)
				ja, jb = 0, 0
			}
			opts[b][jb] = opts[a][ja]
			emit(op, nil, opts, srsFor(op, opts), "overlap", a, ja, g.nzScalar(r))
			if k == 0 {
				emit(op, nil, opts, srsFor(op, opts), "overlap", a, ja, big.NewInt(0)) // d = 0: the honest proof
			}
		}
		// neutral substitutions: accepted
		emit(polys, polys2, pts, n, "cvAdd", 0, 0, big.NewInt(0))
		emit(polys, polys2, pts, n, "vkG1", 0, 0, big.NewInt(1))
	}
}

func genFflonk(g *gen, cn string, c c17Curve) {
	r := c.modulus()
	emit := func(packs, packs2 [][][]*big.Int, pts [][]*big.Int, n int, mut string, i, j, k int, m *big.Int) {
		tau := g.nzScalar(r)
		base := "tau=" + hexBig(tau) + " n=" + strconv.FormatInt(int64(n), 16) + " p=" + showLLL(packs) + " pts=" + showLL(pts) + " p2=" + showLLL(packs2) +
			" mut=" + mut + " i=" + strconv.FormatInt(int64(i), 16) + " j=" + strconv.FormatInt(int64(j), 16) + " k=" + strconv.FormatInt(int64(k), 16) + " m=" + hexBig(m)
		ch := c.fflonk(parseKvs(strings.Fields(base)), true)
		g.emit("C17 fflonk %s %s %s", cn, base, ch)
	}
	shape := func(maxPacks, maxPolys, maxDeg, maxPts int) (packs [][][]*big.Int, pts [][]*big.Int) {
		np := 1 + g.rng.intn(maxPacks)
		for i := 0; i < np; i++ {
			nq := 1 + g.rng.intn(maxPolys)
			var pk [][]*big.Int
			for q := 0; q < nq; q++ {
				pk = append(pk, g.scalars(r, 1+g.rng.intn(maxDeg)))
			}
			packs = append(packs, pk)
			pts = append(pts, g.scalars(r, 1+g.rng.intn(maxPts)))
		}
		return
	}
	other := func(packs [][][]*big.Int) [][][]*big.Int {
		o := make([][][]*big.Int, len(packs))
		for i := range packs {
			o[i] = make([][]*big.Int, len(packs[i]))
			for j := range packs[i] {
				o[i][j] = g.scalars(r, len(packs[i][j]))
			}
		}
		return o
	}
	const srs = 0x40
	for rep := 0; rep < g.budget(2, 24); rep++ {
		packs, pts := shape(3, 4, 4, 2)
		if rep == 0 {
			packs, pts = [][][]*big.Int{{{g.scalar(r)}}}, [][]*big.Int{{g.scalar(r)}}
		}
		emit(packs, nil, pts, srs, "none", 0, 0, 0, big.NewInt(0))
	}
	ffMuts := []string{"ocvSet", "ocvAdd", "ocvZero", "ocvOther", "ocvPair", "optSet", "optAdd",
		"cvSet", "cvAdd", "cvZero", "cvOther", "Wset", "Wadd", "Wzero", "Wother", "WPset", "WPadd", "WPzero", "WPother", "Wswap",
		"digSet", "digAdd", "digZero", "digOther", "vkG1", "vkH0", "vkH1"}
	for rep := 0; rep < g.budget(1, 6); rep++ {
		packs, pts := shape(2, 3, 3, 2)
		packs2 := other(packs)
		for jj, mut := range ffMuts {
			if !g.keep(cn, jj) {
				continue
			}
			i := g.rng.intn(len(packs))
			j := g.rng.intn(len(packs[i]))
			k := g.rng.intn(len(pts[i]))
			if mut[0] != 'o' { // inner mutation: j indexes the folded claimed values / unused
				j = g.rng.intn(len(pts[i]))
			}
			if mut == "optSet" || mut == "optAdd" {
				j = k
			}
			emit(packs, packs2, pts, srs, mut, i, j, k, g.nzScalar(r))
		}
		// partial vanishing through the inner SHPLONK proof (every curve): outer and inner values move together, W' := −F/z
		for q := 0; q < g.budget(2, 4); q++ {
			i := g.rng.intn(len(packs))
			emit(packs, packs2, pts, srs, "vanish", i, g.rng.intn(len(packs[i])), g.rng.intn(len(pts[i])), g.nzScalar(r))
		}
		emit(packs, packs2, pts, srs, "ocvAdd", 0, 0, 0, big.NewInt(0))
	}
}

func hexInt(i int) string { return strconv.FormatInt(int64(i), 16) }

// a random permutation of l
func (g *gen) shuffled(l []*big.Int) []*big.Int {
	r := append([]*big.Int{}, l...)
	for i := len(r) - 1; i > 0; i-- {
		j := g.rng.intn(i + 1)
		r[i], r[j] = r[j], r[i]
	}
	return r
}

var permMuts = []string{"t1Set", "t2Set", "zSet", "qSet", "t1Other", "t2Other", "zOther", "qOther", "swapT", "hSet", "hOther", "hsSet", "hsOther",
	"cvSet", "cvAdd", "cvOther", "svSet", "svAdd", "svOther", "sizeDouble", "sizeHalf", "sizeZero", "gSet", "gNeg", "gSq", "idPair"}

func genPermutation(g *gen, cn string, c c17Curve) {
	r := c.modulus()
	emit := func(t1, t2, t1b, t2b []*big.Int, mut string, i int, m *big.Int) {
		base := "tau=" + hexBig(g.nzScalar(r)) + " n=" + hexInt(len(t1)+4) + " t1=" + showL(t1) + " t2=" + showL(t2) + " t1b=" + showL(t1b) + " t2b=" + showL(t2b) +
			" mut=" + mut + " i=" + hexInt(i) + " m=" + hexBig(m)
		g.emit("C17 permutation %s %s %s", cn, base, c.permutation(parseKvs(strings.Fields(base)), true))
	}
	sizes := []int{2, 4, 8}
	if g.thorough() {
		sizes = append(sizes, 16, 32, 64)
	}
	for _, n := range sizes {
		for rep := 0; rep < g.budget(1, 3); rep++ {
			t1 := g.scalars(r, n)
			if rep == 1 { // repeated entries
				t1[0] = t1[n-1]
			}
			emit(t1, g.shuffled(t1), nil, nil, "none", 0, big.NewInt(0))
			emit(t1, t1, nil, nil, "none", 0, big.NewInt(0)) // identity permutation
			// false statement: the prover runs, the verifier must reject
			bad := g.shuffled(t1)
			bad[g.rng.intn(n)] = g.scalar(r)
			emit(t1, bad, nil, nil, "none", 0, big.NewInt(0))
		}
	}
	// sizes that are not a power of two / size 1: the prover refuses
	emit(g.scalars(r, 3), g.scalars(r, 3), nil, nil, "none", 0, big.NewInt(0))
	emit(g.scalars(r, 1), g.scalars(r, 1), nil, nil, "none", 0, big.NewInt(0))
	genPermConsist(g, cn, c)
	for rep := 0; rep < g.budget(1, 4); rep++ {
		n := []int{4, 8, 16}[g.rng.intn(g.budget(2, 3))]
		t1, t1b := g.scalars(r, n), g.scalars(r, n)
		t2, t2b := g.shuffled(t1), g.shuffled(t1b)
		for j, mut := range permMuts {
			if !g.keep(cn, j) {
				continue
			}
			if strings.HasSuffix(mut, "Other") {
				emit(t1, t2, t1b, t2b, mut, g.rng.intn(4), g.nzScalar(r))
			} else {
				emit(t1, t2, nil, nil, mut, g.rng.intn(4), g.nzScalar(r))
			}
		}
	}
}

// CONSISTENT FORGERIES UNDER A DEGENERATE PROVER-SUPPLIED PARAMETER (size, g are fields of the proof): for every size m in
// {2, 4, 8, the first even m ≥ 6 that is not a power of two and divides r − 1} (+ 1, 3, 12 on bn254; thorough: more, everywhere) and every g in
// {primitive m-th roots w, w³ (accepted contrast), 1, −1, w² (order m/2), w^(m/2) ..., a primitive 2m-th root, 0, a non-root}
// a COMPLETE proof in which every other component is derived honestly for that (m, g) (mut=consist, built by permForge):
// only the check of the parameter can reject it. Vectors: a true statement (t2 a permutation of t1 that is compatible with
// the orbit structure of g) and a false one (t2 differs from t1 outside the orbit of 1 / anywhere when g ∉ H).
func genPermConsist(g *gen, cn string, c c17Curve) {
	r := c.modulus()
	rm1 := new(big.Int).Sub(r, big.NewInt(1))
	divides := func(m int) bool { return new(big.Int).Mod(rm1, big.NewInt(int64(m))).Sign() == 0 }
	root := func(m int) *big.Int {
		return new(big.Int).Exp(c.frGen(), new(big.Int).Div(rm1, big.NewInt(int64(m))), r)
	}
	pow := func(b *big.Int, e int) *big.Int { return new(big.Int).Exp(b, big.NewInt(int64(e)), r) }
	sizes := []int{2, 4, 8}
	for m := 6; m < 40; m += 2 {
		if m&(m-1) != 0 && divides(m) {
			sizes = append(sizes, m)
			break
		}
	}
	if g.thorough() || cn == "bn254" { // quick tier: the sizes 1, 3, 12 on bn254 only
		sizes = append(sizes, 1, 3, 12)
	}
	if g.thorough() {
		sizes = append(sizes, 5, 7, 9, 10, 16, 24, 32)
	}
	emit := func(m int, fg *big.Int, t1, t2 []*big.Int) {
		base := "tau=" + hexBig(g.nzScalar(r)) + " n=" + hexInt(2*m+4) + " t1=" + showL(t1) + " t2=" + showL(t2) + " t1b=- t2b=- mut=consist i=0 m=" +
			hexBig(g.nzScalar(r)) + " fm=" + hexInt(m) + " pw2=" + c17bs(m&(m-1) == 0) + " fg=" + hexBig(fg)
		g.emit("C17 permutation %s %s %s", cn, base, c.permutation(parseKvs(strings.Fields(base)), true))
	}
	for _, m := range sizes {
		if !divides(m) {
			continue
		}
		w := root(m)
		type cand struct {
			fg *big.Int
			k  int // fg = w^k, −1: not an m-th root of unity
		}
		cands := []cand{{w, 1 % m}, {big.NewInt(1), 0}, {big.NewInt(0), -1}, {g.nzScalar(r), -1}, {new(big.Int).Sub(r, big.NewInt(1)), -2}}
		if m > 2 {
			cands = append(cands, cand{pow(w, 2), 2 % m}, cand{pow(w, m-1), m - 1})
		}
		if m > 4 {
			cands = append(cands, cand{pow(w, 3), 3}, cand{pow(w, m/2+1), m/2 + 1})
			if m%4 == 0 {
				cands = append(cands, cand{pow(w, m/4), m / 4})
			}
		}
		if divides(2 * m) {
			cands = append(cands, cand{root(2 * m), -1})
		}
		for _, cd := range cands {
			k := cd.k
			if k == -2 { // −1 = w^(m/2) when m is even
				k = -1
				if m%2 == 0 {
					k = m / 2
				}
			}
			t1 := g.scalars(r, m)
			// the orbit of 1 under x ↦ g·x (indices into H); everything when g ∉ H
			onOrbit := make([]bool, m)
			var orbit []int
			if k >= 0 {
				for idx := 0; !onOrbit[idx]; idx = (idx + k) % m {
					onOrbit[idx] = true
					orbit = append(orbit, idx)
				}
			}
			// true statement: the entries on the orbit of 1 are permuted among themselves, the others stay
			tt := append([]*big.Int{}, t1...)
			for i := len(orbit) - 1; i > 0; i-- {
				j := g.rng.intn(i + 1)
				tt[orbit[i]], tt[orbit[j]] = tt[orbit[j]], tt[orbit[i]]
			}
			emit(m, cd.fg, t1, tt)
			// false statement: in addition one entry (two when possible) off the orbit of 1 is replaced
			tf := append([]*big.Int{}, tt...)
			changed := 0
			for i := m - 1; i >= 0 && changed < 2; i-- {
				if !onOrbit[i] {
					tf[i] = g.scalar(r)
					changed++
				}
			}
			if changed > 0 {
				emit(m, cd.fg, t1, tf)
			}
		}
	}
}

var plkMuts = []string{"h1Set", "h2Set", "tSet", "zSet", "fSet", "hSet", "h1Other", "h2Other", "tOther", "zOther", "fOther", "hOther",
	"bHSet", "bHOther", "sHSet", "sHOther", "cvSet", "cvAdd", "cvOther", "scvSet", "scvAdd", "scvOther", "sizeDouble", "sizeHalf", "gSet", "gNeg", "gSq", "idPair"}

// CONSISTENT FORGERIES of plookup VECTOR proofs under a degenerate prover-supplied (size, g) (plkForge): same lattice as
// genPermConsist. f, t are value vectors on the m-th roots of unity. g ∈ H: the entries of f on the orbit of 1 are drawn from
// the entries of t on that orbit; off the orbit f ⊂ t (true statement) or random (false statement). g ∉ H: any f, t.
func genPlkConsist(g *gen, cn string, c c17Curve) {
	r := c.modulus()
	rm1 := new(big.Int).Sub(r, big.NewInt(1))
	divides := func(m int) bool { return new(big.Int).Mod(rm1, big.NewInt(int64(m))).Sign() == 0 }
	root := func(m int) *big.Int {
		return new(big.Int).Exp(c.frGen(), new(big.Int).Div(rm1, big.NewInt(int64(m))), r)
	}
	pow := func(b *big.Int, e int) *big.Int { return new(big.Int).Exp(b, big.NewInt(int64(e)), r) }
	sizes := []int{2, 4, 8}
	for m := 6; m < 40; m += 2 {
		if m&(m-1) != 0 && divides(m) {
			sizes = append(sizes, m)
			break
		}
	}
	if g.thorough() {
		sizes = append(sizes, 3, 12, 16)
	}
	emit := func(m int, fg *big.Int, f, t []*big.Int) {
		base := "kind=vector tau=" + hexBig(g.nzScalar(r)) + " n=" + hexInt(4*m+8) + " f=" + showL(f) + " t=" + showL(t) + " fb=- tb=- mut=consist i=0 m=" +
			hexBig(g.nzScalar(r)) + " fm=" + hexInt(m) + " pw2=" + c17bs(m&(m-1) == 0) + " fg=" + hexBig(fg)
		g.emit("C17 plookup %s %s %s", cn, base, c.plookup(parseKvs(strings.Fields(base)), true))
	}
	for _, m := range sizes {
		if !divides(m) {
			continue
		}
		w := root(m)
		type cand struct {
			fg *big.Int
			k  int // fg = w^k; −1: not an m-th root of unity
		}
		cands := []cand{{w, 1 % m}, {big.NewInt(1), 0}, {big.NewInt(0), -1}, {g.nzScalar(r), -1}}
		if m > 2 {
			cands = append(cands, cand{pow(w, m/2), m / 2}, cand{pow(w, m-1), m - 1})
		}
		if m > 4 {
			cands = append(cands, cand{pow(w, 2), 2}, cand{pow(w, 3), 3})
		}
		if divides(2 * m) {
			cands = append(cands, cand{root(2 * m), -1})
		}
		for _, cd := range cands {
			if m == 2 && cd.k < 0 && cd.fg.Sign() != 0 {
				continue // g ∉ H, m = 2: g^(m−1) = g·1, the closure z(g^(m−1)) = 1 would need A(1) = B(1)
			}
			t := g.scalars(r, m)
			onOrbit := make([]bool, m)
			var orbit []int
			if cd.k >= 0 {
				for idx := 0; !onOrbit[idx]; idx = (idx + cd.k) % m {
					onOrbit[idx] = true
					orbit = append(orbit, idx)
				}
			}
			f := make([]*big.Int, m)
			for i := range f {
				f[i] = t[g.rng.intn(m)]
				if onOrbit[i] {
					f[i] = t[orbit[g.rng.intn(len(orbit))]]
				}
			}
			if cd.fg.Sign() == 0 {
				f[0] = t[0]
			}
			emit(m, cd.fg, f, t)
			ff := append([]*big.Int{}, f...)
			changed := 0
			for i := m - 2; i >= 1 && changed < 2; i-- { // not the position of g^(m−1) for a primitive g, not position 0
				if !onOrbit[i] {
					ff[i] = g.scalar(r)
					changed++
				}
			}
			if changed > 0 {
				emit(m, cd.fg, ff, t)
			}
		}
	}
}

func genPlookup(g *gen, cn string, c c17Curve) {
	r := c.modulus()
	genPlkConsist(g, cn, c)
	emit := func(f, t, fb, tb []*big.Int, mut string, i int, m *big.Int) {
		n := len(f) + 1
		if len(t) > n {
			n = len(t)
		}
		srs := 8
		for srs < 2*n+4 {
			srs *= 2
		}
		base := "kind=vector tau=" + hexBig(g.nzScalar(r)) + " n=" + hexInt(2*srs+4) + " f=" + showL(f) + " t=" + showL(t) + " fb=" + showL(fb) + " tb=" + showL(tb) +
			" mut=" + mut + " i=" + hexInt(i) + " m=" + hexBig(m)
		g.emit("C17 plookup %s %s %s", cn, base, c.plookup(parseKvs(strings.Fields(base)), true))
	}
	pick := func(t []*big.Int, n int) []*big.Int {
		f := make([]*big.Int, n)
		for i := range f {
			f[i] = t[g.rng.intn(len(t))]
		}
		return f
	}
	shapes := [][2]int{{1, 2}, {3, 4}, {5, 3}, {7, 8}, {2, 7}}
	if g.thorough() {
		shapes = append(shapes, [2]int{15, 16}, [2]int{20, 9}, [2]int{31, 32}, [2]int{1, 1})
	}
	for _, sh := range shapes {
		t := g.scalars(r, sh[1])
		emit(pick(t, sh[0]), t, nil, nil, "none", 0, big.NewInt(0))
		// false statement: one looked-up value is not in the table
		f := pick(t, sh[0])
		f[g.rng.intn(len(f))] = g.scalar(r)
		emit(f, t, nil, nil, "none", 0, big.NewInt(0))
	}
	for rep := 0; rep < g.budget(1, 3); rep++ {
		t, tb := g.scalars(r, 4), g.scalars(r, 4)
		f, fb := pick(t, 3), pick(tb, 3)
		for j, mut := range plkMuts {
			if !g.keep(cn, j) {
				continue
			}
			i := g.rng.intn(6)
			if mut[0] == 's' && mut[1] == 'c' {
				i = g.rng.intn(4)
			}
			if strings.HasSuffix(mut, "Other") {
				emit(f, t, fb, tb, mut, i, g.nzScalar(r))
			} else {
				emit(f, t, nil, nil, mut, i, g.nzScalar(r))
			}
		}
	}
	// lookup tables
	emitT := func(f, t, fb, tb [][]*big.Int, mut string, i int, flags string) {
		base := "kind=table tau=" + hexBig(g.nzScalar(r)) + " n=40 f=" + showLL(f) + " t=" + showLL(t) + " fb=" + showLL(fb) + " tb=" + showLL(tb) +
			" pa=" + showL(g.scalars(r, 4)) + " mut=" + mut + " i=" + hexInt(i) + " m=" + hexBig(g.nzScalar(r)) + " " + flags
		g.emit("C17 plookup %s %s", cn, base)
	}
	table := func(rows, cols, nf int) (f, t [][]*big.Int) {
		t = make([][]*big.Int, rows)
		for i := range t {
			t[i] = g.scalars(r, cols)
		}
		f = make([][]*big.Int, rows)
		for k := 0; k < nf; k++ {
			j := g.rng.intn(cols)
			for i := range f {
				f[i] = append(f[i], t[i][j])
			}
		}
		return
	}
	for _, rows := range []int{1, 2, 3}[:g.budget(2, 3)] {
		f, t := table(rows, 4, 3)
		fb, tb := table(rows, 4, 3)
		emitT(f, t, nil, nil, "none", 0, "cf=1 perm=1 bind=1 vec=1")
		emitT(f, t, nil, nil, "fsSet", rows-1, "cf=0 perm=1 bind=1 vec=1")
		emitT(f, t, fb, tb, "fsOther", 0, "cf=0 perm=1 bind=1 vec=1")
		emitT(f, t, nil, nil, "tsSet", rows-1, "cf="+c17bs(rows == 1)+" perm=1 bind=0 vec=1")
		emitT(f, t, fb, tb, "tsOther", 0, "cf="+c17bs(rows == 1)+" perm=1 bind=0 vec=1")
		emitT(f, t, fb, tb, "permOther", 0, "cf=1 perm=1 bind=0 vec=1")
		emitT(f, t, nil, nil, "permFresh", 0, "cf=1 perm=1 bind=0 vec=1")
		emitT(f, t, fb, tb, "foldedOther", 0, "cf=0 perm=1 bind=0 vec=1")
		emitT(f, t, fb, tb, "innerOther", 0, "cf=0 perm=1 bind=0 vec=1")
		emitT(f, t, fb, tb, "tableSwap", 0, "cf="+c17bs(rows == 1)+" perm=1 bind=0 vec=1")
	}
}

func c17bs(b bool) string {
	if b {
		return "1"
	}
	return "0"
}

func genMpcsetup(g *gen, cn string, c c17Curve) {
	r := c.modulus()
	for _, n := range []int{2, 3, 5, g.budget(8, 33)} {
		g.emit("C17 mpcsetup %s kind=chain n=%x k=%x", cn, n, g.budget(2, 4))
	}
	stepMuts := []string{"none", "g1Set", "g1Add", "g1Zero", "g1Other", "g1Swap", "g2Set", "srsOther", "comSet", "comZero", "pokSet", "pokOther", "proofOther", "chal", "sizeUp", "sizeDown"}
	for _, n := range []int{2, 3, g.budget(6, 17)} {
		for rep := 0; rep < g.budget(1, 3); rep++ {
			t0 := g.nzScalar(r)
			if rep == 0 {
				t0 = big.NewInt(1) // the initial setup
			}
			for j, mut := range stepMuts {
				if mut != "none" && !g.keep(cn, j+n) {
					continue
				}
				if (mut == "g1Swap" && n < 3) || (mut == "sizeDown" && n < 3) {
					continue
				}
				idxs := []int{1}
				if n > 2 && (mut == "g1Set" || mut == "g1Add" || mut == "g1Zero") {
					idxs = append(idxs, n-1, 1+g.rng.intn(n-1))
				}
				for _, i := range idxs {
					g.emit("C17 mpcsetup %s kind=step n=%x t0=%s x=%s mut=%s i=%x m=%s", cn, n, hexBig(t0), hexBig(g.nzScalar(r)), mut, i, hexBig(g.nzScalar(r)))
				}
			}
		}
	}
	// SUBGROUP MEMBERSHIP of EVERY element of a contribution, every curve: exactly one element (each power [x^i]₁, i = 1..n−1,
	// first and last included; [x]₂; the update proof's commitment and proof of knowledge) carries a component of cofactor
	// order, built in memory; then two elements at once; then none (the in-memory honest contribution: accepted).
	// G1 positions only on curves whose G1 has a cofactor (bn254: G2 positions only).
	{
		sizes := []int{2, 3, g.budget(6, 9), g.budget(19, 40)} // 19 / 40 powers: several powers per worker chunk of Verify
		hasG1 := c.hasNoSubG1()
		for _, n := range sizes {
			t0 := g.nzScalar(r)
			if n == 3 {
				t0 = big.NewInt(1) // the initial setup
			}
			line := func(bad map[int]bool) {
				sub1 := make([]*big.Int, n-1)
				for k := range sub1 {
					sub1[k] = big.NewInt(1)
					if bad[k] {
						sub1[k] = big.NewInt(0)
					}
				}
				g.emit("C17 mpcsetup %s kind=step n=%x t0=%s x=%s mut=nosub sub1=%s sub2=%s subc=%s subp=%s m=%s", cn, n, hexBig(t0), hexBig(g.nzScalar(r)),
					showL(sub1), c17bs(!bad[n-1]), c17bs(!bad[n]), c17bs(!bad[n+1]), hexBig(g.nzScalar(r)))
			}
			isG1 := func(p int) bool { return p < n-1 || p == n }
			line(map[int]bool{})
			for p := 0; p < n+2; p++ {
				if isG1(p) && !hasG1 {
					continue
				}
				line(map[int]bool{p: true})
			}
			for q := 0; q < 2; q++ {
				a, b := g.rng.intn(n+2), g.rng.intn(n+2)
				if !hasG1 && (isG1(a) || isG1(b)) {
					a, b = n-1, n+1
				}
				line(map[int]bool{a: true, b: true})
			}
		}
		// UpdateProof.Verify on explicit representations: the proof's own two elements
		as, bs := g.scalars(r, 2), g.scalars(r, 1)
		for _, f := range [][2]bool{{true, true}, {false, true}, {true, false}, {false, false}} {
			if !f[0] && !hasG1 {
				continue
			}
			g.emit("C17 mpcsetup %s kind=update a=%s b=%s c=%x x=%s mut=nosub i=0 subc=%s subp=%s m=%s", cn, showL(as), showL(bs), g.rng.intn(1000), hexBig(g.nzScalar(r)),
				c17bs(f[0]), c17bs(f[1]), hexBig(g.nzScalar(r)))
		}
	}
	// n1Cancel / n2Cancel: errors e, −e at positions i, i+1 (cancel in the random linear combination if two coefficients are equal)
	updMuts := []string{"none", "n1Set", "n1Scale", "n2Set", "n2Scale", "allScale", "n1Swap", "chal", "dst", "proofOther", "n1Cancel", "n2Cancel"}
	// shapes (#G1 values, #G2 values): every combination around max = 2 (the random-coefficient vector of the batched
	// same-ratio check has a special case there), one larger. The element-wise substitutions run at EVERY index of a
	// small group (first / last / one random index of the large one): a check that ignores one position is seen whatever
	// the position.
	for _, sh := range [][2]int{{1, 1}, {3, 2}, {0, 2}, {4, 0}, {2, 2}, {2, 1}, {1, 2}, {2, 0}, {0, 1}, {g.budget(6, 20), 1}} {
		as, bs := g.scalars(r, sh[0]), g.scalars(r, sh[1])
		for _, mut := range updMuts {
			if mut[1] == '1' && sh[0] == 0 || mut[1] == '2' && sh[1] == 0 {
				continue
			}
			if mut == "n1Cancel" && sh[0] < 2 || mut == "n2Cancel" && sh[1] < 2 {
				continue
			}
			idxs := []int{0}
			if size := map[byte]int{'1': sh[0], '2': sh[1]}[mut[1]]; size > 0 && mut != "n1Swap" {
				idxs = idxs[:0]
				for i := 0; i < size; i++ {
					if size <= 4 || i == 0 || i == size-1 {
						idxs = append(idxs, i)
					}
				}
				if size > 4 {
					idxs = append(idxs, 1+g.rng.intn(size-2))
				}
			}
			for _, i := range idxs {
				g.emit("C17 mpcsetup %s kind=update a=%s b=%s c=%x x=%s mut=%s i=%x m=%s", cn, showL(as), showL(bs), g.rng.intn(1000), hexBig(g.nzScalar(r)), mut, i, hexBig(g.nzScalar(r)))
			}
		}
	}
	// SameRatioMany: geometric sequences with a common ratio, then one element / one ratio perturbed
	geo := func(a0, q *big.Int, n int) []*big.Int {
		l := make([]*big.Int, n)
		acc := new(big.Int).Set(a0)
		for i := range l {
			l[i] = acc
			acc = new(big.Int).Mul(acc, q)
			acc.Mod(acc, r)
		}
		return l
	}
	for rep := 0; rep < g.budget(2, 6); rep++ {
		q := g.nzScalar(r)
		g1 := [][]*big.Int{geo(g.nzScalar(r), q, 2+g.rng.intn(4)), geo(g.nzScalar(r), q, 2+g.rng.intn(3))}
		g2 := [][]*big.Int{geo(g.nzScalar(r), q, 2), geo(g.nzScalar(r), q, 2+g.rng.intn(3))}
		g.emit("C17 mpcsetup %s kind=ratio g1=%s g2=%s", cn, showLL(g1), showLL(g2))
		g.emit("C17 mpcsetup %s kind=ratio g1=%s g2=%s", cn, showLL(g1[:1]), showLL(g2[:1]))
		b1 := [][]*big.Int{geo(g.nzScalar(r), q, 3), geo(g.nzScalar(r), g.nzScalar(r), 3)} // second slice: other ratio
		g.emit("C17 mpcsetup %s kind=ratio g1=%s g2=%s", cn, showLL(b1), showLL(g2))
		b2 := [][]*big.Int{geo(g.nzScalar(r), q, 4)}
		b2[0][3] = g.scalar(r) // last element off
		g.emit("C17 mpcsetup %s kind=ratio g1=%s g2=%s", cn, showLL(b2), showLL(g2))
		b3 := [][]*big.Int{geo(g.nzScalar(r), g.nzScalar(r), 2)}
		g.emit("C17 mpcsetup %s kind=ratio g1=%s g2=%s", cn, showLL(g1), showLL(b3))
		z := [][]*big.Int{geo(big.NewInt(0), q, 3)} // all-zero G1 slice: no nonzero representative
		g.emit("C17 mpcsetup %s kind=ratio g1=%s g2=%s", cn, showLL(z), showLL(g2))
	}
	// CORRELATED FORGERIES for the randomised batch check (SameRatioMany draws two INDEPENDENT random sequences, one per group,
	// each made of the powers of one random value continuing across the slices of the group): FALSE statements that a check
	// with DEPENDENT coefficients (one sequence shared by both groups, all coefficients equal, the sequence restarted for every
	// slice, a coefficient that is constant) would accept. The model's verdict is the exact statement (geomPair on all pairs).
	{
		mulmod := func(a, b *big.Int) *big.Int { t := new(big.Int).Mul(a, b); return t.Mod(t, r) }
		addmod := func(a, b *big.Int) *big.Int { t := new(big.Int).Add(a, b); return t.Mod(t, r) }
		scaleL := func(l []*big.Int, k *big.Int) []*big.Int {
			o := make([]*big.Int, len(l))
			for i := range l {
				o[i] = mulmod(l[i], k)
			}
			return o
		}
		ratio := func(g1, g2 [][]*big.Int) {
			g.emit("C17 mpcsetup %s kind=ratio g1=%s g2=%s", cn, showLL(g1), showLL(g2))
		}
		for rep := 0; rep < g.budget(2, 8); rep++ {
			q, k := g.nzScalar(r), g.nzScalar(r)
			// (a) mirrored / proportional non-geometric sequences, same slice layout in both groups
			a, b := g.scalars(r, 3+g.rng.intn(3)), g.scalars(r, 3+g.rng.intn(3))
			ratio([][]*big.Int{a}, [][]*big.Int{a})
			ratio([][]*big.Int{a, b}, [][]*big.Int{a, b})
			ratio([][]*big.Int{a}, [][]*big.Int{scaleL(a, k)})
			ratio([][]*big.Int{a, b}, [][]*big.Int{scaleL(a, k), scaleL(b, k)})
			ratio([][]*big.Int{a, geo(g.nzScalar(r), q, 3)}, [][]*big.Int{scaleL(a, k), geo(g.nzScalar(r), q, 3)}) // one mirrored pair among honest slices
			// (b) cancellation under EQUAL coefficients: Σ shifted = q·Σ truncated although the slice is not geometric
			for side := 0; side < 2; side++ {
				n := 3 + g.rng.intn(3)
				c := g.scalars(r, n)
				st, ss := big.NewInt(0), big.NewInt(0)
				for i := 0; i < n-1; i++ {
					st = addmod(st, c[i])
					if i > 0 {
						ss = addmod(ss, c[i])
					}
				}
				c[n-1] = addmod(mulmod(q, st), new(big.Int).Sub(r, ss))
				h := [][]*big.Int{geo(g.nzScalar(r), q, 2+g.rng.intn(3))}
				if side == 0 {
					ratio([][]*big.Int{c}, h)
				} else {
					ratio(h, [][]*big.Int{c})
				}
			}
			// (c) errors e, −e at the same position of two slices of one group (cancel when the coefficients restart per slice)
			for side := 0; side < 2; side++ {
				n := 3 + g.rng.intn(3)
				A, B := geo(g.nzScalar(r), q, n), geo(g.nzScalar(r), q, n)
				j, e := g.rng.intn(n), g.nzScalar(r)
				A[j], B[j] = addmod(A[j], e), addmod(B[j], new(big.Int).Sub(r, e))
				h := [][]*big.Int{geo(g.nzScalar(r), q, 2+g.rng.intn(3)), geo(g.nzScalar(r), q, 2)}
				if side == 0 {
					ratio([][]*big.Int{A, B}, h)
				} else {
					ratio(h, [][]*big.Int{A, B})
				}
			}
			// (d) an error at ONE position only, every position of a slice (position 0 carries the constant coefficient 1), both groups
			if rep == 0 {
				n := 4
				for j := 0; j < n; j++ {
					A := geo(g.nzScalar(r), q, n)
					A[j] = addmod(A[j], g.nzScalar(r))
					h := [][]*big.Int{geo(g.nzScalar(r), q, 3)}
					ratio([][]*big.Int{geo(g.nzScalar(r), q, 2), A}, h)
					ratio(h, [][]*big.Int{geo(g.nzScalar(r), q, 2), A})
				}
			}
		}
	}
	g.emit("C17 mpcsetup %s kind=ratio g1=%s g2=%s", cn, "1", "1,2")     // slice shorter than 2
	g.emit("C17 mpcsetup %s kind=ratio g1=%s g2=%s", cn, "1,2;2,4", "_") // no G2 slice
}

func c17Verdict(err error) string {
	if err == nil {
		return "1"
	}
	if strings.Contains(err.Error(), "length mismatch") || strings.Contains(err.Error(), "number of") || strings.Contains(err.Error(), "does not contain all") {
		return "err"
	}
	return "0"
}
