package main

// C04 — (10) the special cases of the batch-affine chunk processor, for EVERY group and EVERY window that has one.
//
// processChunkG{1,2}BatchAffine keeps, per bucket, an affine point (added to in batches of B independent additions), an
// extended-Jacobian overflow bucket, a set "bucket is in the current batch" and a queue of the points that hit a bucket
// of the current batch. A point reaches a bucket through one of three routes - directly (closure add), popped from the
// queue after a batch was executed (addFromQueue), flushed from the queue to the overflow bucket (flushQueue, when the
// queue is full and at the end of the chunk) - and each route special-cases "bucket at infinity", "the same point
// (doubling)" and "the opposite point (cancellation)", for an added and for a subtracted point (negative digit).
// Random or pairwise distinct points never take these branches, and the public MultiExp selects such a window only from
// thousands of points on (c = 16: a million). The lines below are MSMX lines with the entry point `inner`
// (_innerMsmG1 / _innerMsmG2 run with the window of the line, verif-tagged overlay shim): a few hundred scripted points
// per line, every branch of the three routes, on every group, for every window c >= 10 of its implementedCs.
//
// The scripts are built against c04Sim, a symbolic copy of the scheduler (points are pairs (α, β) standing for
// [α·a0 + β·d]G): the builder asks it which buckets are in the current batch, when a batch is executed, when the queue
// is flushed, and which branch every point took; a script that does not take the branches it is meant to take aborts the
// generator. c04Sim only chooses inputs: the expected answer is the model's (exact sum, Model/MSM.lean).

import (
	"fmt"
	"runtime"
	"sort"
	"strings"
)

type c04SP struct{ a, b int64 }

func (p c04SP) neg() c04SP        { return c04SP{-p.a, -p.b} }
func (p c04SP) add(q c04SP) c04SP { return c04SP{p.a + q.a, p.b + q.b} }
func (p c04SP) zero() bool        { return p.a == 0 && p.b == 0 }

type c04SOp struct {
	id int
	p  c04SP
}

type c04Sim struct {
	B      int
	bk, je map[int]c04SP
	in     map[int]bool
	batch  []c04SOp
	queue  []c04SOp
	arms   map[string]int
	execs  int
}

func c04NewSim(B int) *c04Sim {
	return &c04Sim{B: B, bk: map[int]c04SP{}, je: map[int]c04SP{}, in: map[int]bool{}, arms: map[string]int{}}
}

// g{1,2}JacExtended.addMixed / subMixed / add on the overflow bucket
func (s *c04Sim) jeAdd(id int, p c04SP) {
	j := s.je[id]
	switch {
	case j.zero():
		s.arms["je.inf"]++
	case j == p:
		s.arms["je.dbl"]++
	case j == p.neg():
		s.arms["je.opp"]++
	default:
		s.arms["je.add"]++
	}
	s.je[id] = j.add(p)
}

func sgn(isAdd bool) string {
	if isAdd {
		return "+"
	}
	return "-"
}

func (s *c04Sim) add(id int, p c04SP, isAdd bool) {
	bk := s.bk[id]
	switch {
	case bk.zero():
		s.arms["add.inf"+sgn(isAdd)]++
		if isAdd {
			s.bk[id] = p
		} else {
			s.bk[id] = p.neg()
		}
	case bk == p:
		s.arms["add.eq"+sgn(isAdd)]++
		if isAdd {
			s.jeAdd(id, p)
		} else {
			s.bk[id] = c04SP{}
		}
	case bk == p.neg():
		s.arms["add.opp"+sgn(isAdd)]++
		if isAdd {
			s.bk[id] = c04SP{}
		} else {
			s.jeAdd(id, p.neg())
		}
	default:
		s.arms["add.gen"+sgn(isAdd)]++
		s.in[id] = true
		if !isAdd {
			p = p.neg()
		}
		s.batch = append(s.batch, c04SOp{id, p})
	}
}

func (s *c04Sim) exec() {
	for _, op := range s.batch {
		bk := s.bk[op.id]
		if bk.zero() || bk == op.p || bk == op.p.neg() {
			panic("c04Sim: degenerate addition inside a batch")
		}
		s.bk[op.id] = bk.add(op.p)
	}
	s.batch, s.in = nil, map[int]bool{}
	s.execs++
}

func (s *c04Sim) flush(why string) {
	if len(s.queue) > 0 {
		s.arms["flush."+why]++
	}
	for _, op := range s.queue {
		s.jeAdd(op.id, op.p)
	}
	s.queue = nil
}

func (s *c04Sim) processTop() {
	for i := len(s.queue) - 1; i >= 0; i-- {
		op := s.queue[i]
		if s.in[op.id] {
			s.arms["pop.stop"]++
			for _, old := range s.queue[:i] {
				if !s.in[old.id] {
					s.arms["pop.stop.behind"]++ // an older entry whose bucket is free stays queued as well
					break
				}
			}
			return
		}
		bk := s.bk[op.id]
		switch {
		case bk.zero():
			s.arms["pop.inf"]++
			s.bk[op.id] = op.p
		case bk == op.p:
			s.arms["pop.eq"]++
			s.jeAdd(op.id, op.p)
		case bk == op.p.neg():
			s.arms["pop.opp"]++
			s.bk[op.id] = c04SP{}
		default:
			s.arms["pop.gen"]++
			s.in[op.id] = true
			s.batch = append(s.batch, op)
		}
		s.queue = s.queue[:i]
	}
}

func (s *c04Sim) step(id int, p c04SP, isAdd bool) {
	if p.zero() {
		return
	}
	if s.in[id] {
		s.arms["q"+sgn(isAdd)]++
		if !isAdd {
			p = p.neg()
		}
		s.queue = append(s.queue, c04SOp{id, p})
		if len(s.queue) == s.B-1 {
			s.flush("full")
		}
		return
	}
	s.add(id, p, isAdd)
	if len(s.batch) == s.B {
		s.exec()
		s.processTop()
	}
}

// end of the chunk: the last batch, the queue, then the reduction (top bucket first)
func (s *c04Sim) finish() {
	s.exec()
	s.flush("end")
	top := 0
	for id, p := range s.bk {
		if !p.zero() && id > top {
			top = id
		}
	}
	for id, j := range s.je {
		bk := s.bk[id]
		if j.zero() || bk.zero() {
			continue
		}
		suffix := ""
		if id == top {
			suffix = ".top" // the running sum is the affine bucket alone when the overflow bucket is added
		}
		switch {
		case bk == j:
			s.arms["red.eq"+suffix]++
		case bk == j.neg():
			s.arms["red.opp"+suffix]++
		}
	}
}

// ---------------------------------------------------------------- script builder

type c04QEnt struct {
	w    int
	neg  bool
	hasM bool
	m    int
}

type c04QB struct {
	sim  *c04Sim
	B    int
	ents []c04QEnt
	f    int // last filler bucket used
	mark map[string]int
	rnd  func(int) int
}

func (b *c04QB) ent(w int, neg bool, hasM bool, m int) {
	p := c04SP{1, int64(len(b.ents))}
	if hasM {
		p = c04SP{int64(m), 0}
	}
	b.ents = append(b.ents, c04QEnt{w, neg, hasM, m})
	b.sim.step(w, p, !neg)
}

func (b *c04QB) at(w, m int)    { b.ent(w, false, true, m) }  // [m·a0]G added to bucket w
func (b *c04QB) atNeg(w, m int) { b.ent(w, true, true, m) }   // [m·a0]G subtracted from bucket w
func (b *c04QB) gen(w int)      { b.ent(w, false, false, 0) } // a fresh point added to bucket w
func (b *c04QB) genNeg(w int)   { b.ent(w, true, false, 0) }

// either "+[m·a0]G" or "−[−m·a0]G": the same group element through the other sign of the digit
func (b *c04QB) pm(w, m int) {
	if b.rnd(2) == 0 {
		b.at(w, m)
	} else {
		b.atNeg(w, -m)
	}
}

// k additions of fresh points on filler buckets (1..2B, non-empty after the prologue) that are not in the current batch
func (b *c04QB) fill(k int) {
	for ; k > 0; k-- {
		for {
			b.f = b.f%(2*b.B) + 1
			if !b.sim.in[b.f] {
				break
			}
		}
		b.gen(b.f)
	}
}

func (b *c04QB) untilExec() {
	for e := b.sim.execs; b.sim.execs == e; {
		b.fill(1)
	}
}

// at least k free places in the current batch (the next k regular additions do not execute it)
func (b *c04QB) room(k int) {
	if len(b.sim.batch) > b.B-1-k {
		b.untilExec()
	}
}

func (b *c04QB) start() {
	b.mark = map[string]int{}
	for k, v := range b.sim.arms {
		b.mark[k] = v
	}
}

// every named branch was taken since start()
func (b *c04QB) want(what string, arms ...string) {
	for _, a := range arms {
		if b.sim.arms[a] <= b.mark[a] {
			panic(fmt.Sprintf("c04Queue: scenario %s (B=%d) does not reach the branch %s", what, b.B, a))
		}
	}
}

func (b *c04QB) prog(j int) string {
	var items []string
	suffix := func(e c04QEnt) string {
		s := ""
		if e.neg {
			s += "~"
		}
		if j >= 0 {
			s += fmt.Sprintf("#%x", j)
		}
		if e.hasM {
			s += "@" + c04HexInt(e.m)
		}
		return s
	}
	for i := 0; i < len(b.ents); {
		e := b.ents[i]
		k := i + 1
		if !e.hasM {
			for k < len(b.ents) && !b.ents[k].hasM && b.ents[k].neg == e.neg && b.ents[k].w == b.ents[k-1].w+1 {
				k++
			}
		}
		if k-i >= 2 {
			items = append(items, fmt.Sprintf("%x:%x%s", e.w, b.ents[k-1].w, suffix(e)))
		} else {
			items = append(items, fmt.Sprintf("%x%s", e.w, suffix(e)))
		}
		i = k
	}
	return strings.Join(items, ",")
}

// two multipliers x ≠ y, both positive: bucket contents x, then x + y
func (b *c04QB) xy() (int, int) {
	x := 1 + b.rnd(7)
	return x, x + 1 + b.rnd(5)
}

// the scenarios; T and T+1 are buckets that nothing else touches (empty so far)
var c04QScen = map[string]func(b *c04QB, T int){
	// the bucket holds A, B enters the batch, C is queued, the batch is executed, C is popped and is −(A+B)
	"pop-opp": func(b *c04QB, T int) {
		x, y := b.xy()
		b.at(T, x)
		b.at(T, y)
		b.pm(T, -(x + y))
		b.untilExec()
		b.want("pop-opp", "pop.opp")
	},
	// … and is A+B: doubling, goes to the overflow bucket
	"pop-eq": func(b *c04QB, T int) {
		x, y := b.xy()
		b.at(T, x)
		b.at(T, y)
		b.pm(T, x+y)
		b.untilExec()
		b.want("pop-eq", "pop.eq")
	},
	// five points queued behind A+B; popped newest first: doubling, cancellation, bucket at infinity, a regular addition
	// (the bucket enters the next batch), and the oldest one stays queued behind it; after the next batch it cancels the bucket
	"pop-chain": func(b *c04QB, T int) {
		x, y := b.xy()
		u, v := 2+b.rnd(9), 1+b.rnd(9)
		if u == v {
			u++
		}
		b.at(T, x)
		b.at(T, y)
		b.pm(T, -(u + v))
		b.pm(T, v)
		b.pm(T, u)
		b.pm(T, -(x + y))
		b.pm(T, x+y)
		b.untilExec()
		b.want("pop-chain/1", "pop.eq", "pop.opp", "pop.inf", "pop.gen", "pop.stop")
		b.start()
		b.untilExec()
		b.want("pop-chain/2", "pop.opp")
	},
	// the newest entry is popped into the next batch, the one below it hits the same bucket and stays queued - and so must
	// the older entry below that one, although its bucket (T+1) is free
	"pop-stop": func(b *c04QB, T int) {
		x, y := b.xy()
		b.at(T+1, y)
		b.at(T+1, x)
		b.gen(T + 1)
		b.at(T, x)
		b.at(T, y)
		b.gen(T)
		b.genNeg(T)
		b.untilExec()
		b.want("pop-stop", "pop.gen", "pop.stop", "pop.stop.behind")
	},
	// the direct route: every special case of `add`, for an added and for a subtracted point
	"direct": func(b *c04QB, T int) {
		x, y := b.xy()
		b.at(T, x)     // bucket at infinity, added
		b.atNeg(T, x)  // the same point subtracted: infinity
		b.atNeg(T, y)  // bucket at infinity, subtracted: −y
		b.at(T, y)     // the opposite point added: infinity
		b.at(T, x)     //
		b.at(T, x)     // the same point added: overflow bucket = x (was at infinity)
		b.atNeg(T, -x) // the opposite point subtracted: overflow bucket doubled
		b.atNeg(T, -x) // … a regular addition in the overflow bucket (2x + x)
		b.at(T, x)
		b.at(T, x)
		b.at(T, x) // overflow bucket 5x
		b.atNeg(T, -x)
		b.genNeg(T) // a regular subtraction: the bucket enters the batch
		b.want("direct", "add.inf+", "add.eq-", "add.inf-", "add.opp+", "add.eq+", "add.opp-", "add.gen-", "je.inf", "je.dbl", "je.add")
	},
	// the queue is filled up to its capacity behind one pending addition: the whole queue goes to the overflow bucket,
	// oldest first: bucket at infinity, doubling, cancellation, infinity again, regular additions
	"flush-full": func(b *c04QB, T int) {
		x, y := b.xy()
		u := 2 + b.rnd(9)
		b.at(T, x)
		b.at(T, y)
		b.pm(T, u)
		b.pm(T, u)
		b.pm(T, -2*u)
		b.pm(T, u+1)
		b.atNeg(T, u+3)
		for f := b.sim.arms["flush.full"]; b.sim.arms["flush.full"] == f; {
			if b.rnd(3) == 0 {
				b.genNeg(T)
			} else {
				b.gen(T)
			}
		}
		b.want("flush-full", "q+", "q-", "je.inf", "je.dbl", "je.opp", "je.add", "flush.full")
		// the queue is used again after the flush (more entries than its capacity went through it)
		b.gen(T)
		b.gen(T)
		b.gen(T)
		b.untilExec()
	},
}

// scenarios of the end of the chunk (the last batch is executed, the queue is flushed, the buckets are reduced); T is
// the highest bucket of the script, T−1 the second highest
var c04QEnd = map[string]func(b *c04QB, T int){
	// affine bucket and overflow bucket cancel in the reduction (top bucket: the running sum is the bucket alone)
	"end-opp": func(b *c04QB, T int) {
		x, y := b.xy()
		b.at(T, x)
		b.at(T, y)
		b.pm(T, -(x + y))
		b.at(T-1, y)
		b.at(T-1, x)
		b.pm(T-1, x+y)
	},
	"end-eq": func(b *c04QB, T int) {
		x, y := b.xy()
		b.at(T, x)
		b.at(T, y)
		b.pm(T, x+y)
		b.at(T-1, y)
		b.at(T-1, x)
		b.pm(T-1, -(x + y))
	},
}

var c04QArmsAll = []string{"add.inf+", "add.inf-", "add.eq+", "add.eq-", "add.opp+", "add.opp-", "add.gen+", "add.gen-", "q+", "q-",
	"pop.inf", "pop.eq", "pop.opp", "pop.gen", "pop.stop", "pop.stop.behind", "flush.full", "flush.end", "je.inf", "je.dbl", "je.opp", "je.add",
	"red.eq.top", "red.opp.top", "red.eq", "red.opp"}

// one script: prologue (2B buckets filled: the chunk statistics select the batch-affine processor), the scenarios in the
// order given on fresh buckets above 2B, one end scenario on the two highest buckets
func (g *gen) c04QScript(B int, scen []string, end string) *c04QB {
	b := &c04QB{sim: c04NewSim(B), B: B, rnd: g.rng.intn}
	for w := 1; w <= 2*B; w++ {
		b.gen(w)
	}
	if len(b.sim.batch) != 0 {
		panic("c04Queue: prologue")
	}
	// a first batch of regular additions, so that the scenarios do not start on an empty batch
	b.fill(b.rnd(B))
	T := 2*B + 2
	for _, sc := range scen {
		b.room(3)
		b.start()
		c04QScen[sc](b, T)
		T += 2
		if b.rnd(2) == 0 {
			b.fill(b.rnd(B / 2))
		}
	}
	if end != "" {
		b.room(5)
		b.start()
		c04QEnd[end](b, T+2)
	}
	b.sim.finish()
	if end != "" {
		b.want(end, "flush.end", map[string]string{"end-opp": "red.opp.top", "end-eq": "red.eq.top"}[end],
			map[string]string{"end-opp": "red.eq", "end-eq": "red.opp"}[end])
	}
	return b
}

// the lines of one group and one window. level 0 (quick): two scripts that together take every branch; level 1
// (thorough): also every scenario alone, both placements (one window, all windows) of every script.
func (g *gen) c04Queue(grp *c04Group, gi, c, level int) {
	B, ok := c04Batch[c]
	if !ok {
		return
	}
	ncpu := runtime.NumCPU()
	bits := grp.r.BitLen()
	nb := c04NbChunks(bits, c)
	pick := func(l []int) int { return l[g.rng.intn(len(l))] }
	type script struct {
		scen []string
		end  string
	}
	shuffle := func(l []string) []string {
		l = append([]string(nil), l...)
		for i := len(l) - 1; i > 0; i-- {
			k := g.rng.intn(i + 1)
			l[i], l[k] = l[k], l[i]
		}
		return l
	}
	scripts := []script{
		{shuffle([]string{"pop-opp", "pop-eq", "pop-chain", "pop-stop"}), "end-opp"},
		{shuffle([]string{"direct", "flush-full", "pop-chain", "pop-opp"}), "end-eq"},
	}
	if level >= 1 {
		var names []string
		for k := range c04QScen {
			names = append(names, k)
		}
		sort.Strings(names)
		for i, k := range names {
			scripts = append(scripts, script{[]string{k}, []string{"", "end-opp", "end-eq"}[i%3]})
		}
		scripts = append(scripts, script{shuffle(names), ""})
	}
	seen := map[string]bool{}
	for si, sc := range scripts {
		b := g.c04QScript(B, sc.scen, sc.end)
		for a, v := range b.sim.arms {
			if v > 0 {
				seen[a] = true
			}
		}
		L := len(b.ents)
		// placement: one window j (that chunk is overweight and split in two halves: the script lies in the first half),
		// or every window below the last one (no chunk is overweight: nb ≥ 9)
		modes := []int{(gi + c + si) % 3}
		if level >= 1 {
			modes = []int{0, 1}
		}
		for _, mode := range modes {
			t := pick([]int{1, 2, 3, ncpu - 1, ncpu, 2 * ncpu})
			if mode == 0 && nb >= 9 && (c <= 13 || level >= 1) {
				g.c04EmitX(grp, "inner", L+g.rng.intn(8), c, t, 0, 0, 0, nb-1, b.prog(-1))
			} else {
				j := pick([]int{0, 1, nb / 2, nb - 3, nb - 2})
				g.c04EmitX(grp, "inner", 2*L+g.rng.intn(8), c, t, 0, 0, 0, nb-1, b.prog(j))
			}
		}
	}
	for _, a := range c04QArmsAll {
		if !seen[a] {
			panic(fmt.Sprintf("c04Queue: the scripts of window %d do not reach the branch %s", c, a))
		}
	}
}

func genC04Q(g *gen) {
	if len(c04InnerFns) == 0 {
		return // no overlay shim
	}
	level := 0
	if g.thorough() {
		level = 1
	}
	for gi, key := range c04Order {
		grp := c04Groups[key]
		for _, c := range grp.cs {
			g.c04Queue(grp, gi, c, level)
		}
	}
}
