#!/usr/bin/env python3
# writes c03_groups_gen.go: per-curve adapters of the C03 harness (run once by hand: python3 c03_gen.py)
CURVES = [  # dir, has G2, G2 coordinate kind, template flavour
    ("bn254", "e2"), ("bls12-377", "e2"), ("bls12-381", "e2"), ("bls24-315", "e4"), ("bls24-317", "e4"),
    ("bw6-633", "fp"), ("bw6-761", "fp"), ("secp256k1", None), ("stark-curve", None), ("grumpkin", None)]
TES = ["bn254", "bls12-377", "bls12-381", "bls24-315", "bls24-317", "bw6-633", "bw6-761"]
ROOT = "github.com/consensys/gnark-crypto/ecc/"

def ident(d): return d.replace("-", "_")

COORD = {
 "fp": (["{c}"], ),
 "e2": (["{c}.A0", "{c}.A1"], ),
 "e4": (["{c}.B0.A0", "{c}.B0.A1", "{c}.B1.A0", "{c}.B1.A1"], ),
}
def cout(kind, c):
    return ' + "," + '.join(f"{f.format(c=c)}.Text(16)" for f in COORD[kind][0])
def cset(kind, c, arr):
    return "; ".join(f"{f.format(c=c)}.SetBigInt(parseBig({arr}[{i}]))" for i, f in enumerate(COORD[kind][0]))
def zeros(kind): return ",".join(["0"] * len(COORD[kind][0]))

JOINT = '''	joint := func(variant, P, Q string, s1, s2 *big.Int) string {
		p := in(P)
		q := in(Q)
		var rj Jac
		switch variant {
		case "gen":
			{jointgen}
		case "base":
			rj.JointScalarMultiplicationBase(&q, s1, s2)
		default:
			return "bad-op"
		}
		var res Aff
		res.FromJacobian(&rj)
		return out(&res)
	}
'''

JOINTA_GEN = '''	// aliasing patterns (c03.go, op `alias`): operands are affine, the receiver is Jacobian: the receiver cannot BE an
	// operand; `rp` / `rq` / `rpq` degrade to "the receiver holds the operand's value before the call"
	jointA := func(variant, al string, st bool, P, Q string, s1, s2 *big.Int) string {
		p := in(P)
		q := in(Q)
		p0, q0 := p, q
		c1, c2 := new(big.Int).Set(s1), new(big.Int).Set(s2)
		pp, qq := &p, &q
		if al == "pq" || al == "rpq" {
			qq = pp
		}
		if st {
			s2 = s1
		}
		var rj Jac
		switch al {
		case "d", "pq":
		case "dirty":
			rj = d3
		case "rp", "rpq":
			rj.FromAffine(&p)
		case "rq":
			rj.FromAffine(&q)
		default:
			return "bad-op"
		}
		switch variant {
		case "gen":
			rj.JointScalarMultiplication(pp, qq, s1, s2)
		case "base":
			rj.JointScalarMultiplicationBase(qq, s1, s2)
		default:
			return "bad-op"
		}
		if p != p0 || q != q0 {
			return "mutated:point-operand"
		}
		if s1.Cmp(c1) != 0 || s2.Cmp(c2) != 0 {
			return "mutated:scalar"
		}
		var res Aff
		res.FromJacobian(&rj)
		return out(&res)
	}
'''

JOINTA_STARK = '''	// aliasing patterns (c03.go, op `alias`): JointScalarMultiplication takes Jacobian operands here: every partition of
	// {receiver, p1, p2} is expressible
	jointA := func(variant, al string, st bool, P, Q string, s1, s2 *big.Int) string {
		p := in(P)
		q := in(Q)
		c1, c2 := new(big.Int).Set(s1), new(big.Int).Set(s2)
		if st {
			s2 = s1
		}
		var rj, pj, qj Jac
		pj.FromAffine(&p)
		qj.FromAffine(&q)
		pj0, qj0, q0 := pj, qj, q
		r, pp, qq := &rj, &pj, &qj
		switch al {
		case "d":
		case "dirty":
			rj = d3
		case "rp":
			r = pp
		case "rq":
			r = qq
		case "pq":
			qq = pp
		case "rpq":
			r, qq = pp, pp
		default:
			return "bad-op"
		}
		switch variant {
		case "gen":
			r.JointScalarMultiplication(pp, qq, s1, s2)
			if (r != pp && pj != pj0) || (r != &qj && qj != qj0) {
				return "mutated:point-operand"
			}
		case "base":
			if al != "d" && al != "dirty" {
				return "bad-op"
			}
			r.JointScalarMultiplicationBase(&q, s1, s2)
			if q != q0 {
				return "mutated:point-operand"
			}
		default:
			return "bad-op"
		}
		if s1.Cmp(c1) != 0 || s2.Cmp(c2) != 0 {
			return "mutated:scalar"
		}
		var res Aff
		res.FromJacobian(r)
		return out(&res)
	}
'''

SMA = '''	// [3]G: what a "dirty" receiver holds before the call
	var d3 Jac
	d3.Double(&gJac).AddAssign(&gJac)
	smA := func(variant, al, P string, s *big.Int) string {
		p := in(P)
		p0 := p
		c := new(big.Int).Set(s)
		var res Aff
		var j, rj Jac
		switch variant + "/" + al {
		case "aff/d":
			res.ScalarMultiplication(&p, s)
		case "aff/dirty":
			res.FromJacobian(&d3)
			res.ScalarMultiplication(&p, s)
		case "aff/rp":
			p.ScalarMultiplication(&p, s)
			res, p = p, p0
		case "jac/d", "jac/dirty", "jac/rp":
			j.FromAffine(&p)
			j0 := j
			if al == "dirty" {
				rj = d3
			}
			if al == "rp" {
				j.ScalarMultiplication(&j, s)
				rj, j = j, j0
			} else {
				rj.ScalarMultiplication(&j, s)
			}
			if j != j0 {
				return "mutated:point-operand"
			}
			res.FromJacobian(&rj)
		case "base/d":
			res.ScalarMultiplicationBase(s)
		case "base/dirty":
			res.FromJacobian(&d3)
			res.ScalarMultiplicationBase(s)
		case "basejac/d", "basejac/dirty":
			if al == "dirty" {
				rj = d3
			}
			{basejac}
		default:
			return "bad-op"
		}
		if p != p0 {
			return "mutated:point-operand"
		}
		if s.Cmp(c) != 0 {
			return "mutated:scalar"
		}
		return out(&res)
	}
'''

def group(d, n, kind):
    I = ident(d); C = "c_" + I; FR = "fr_" + I; FP = "fp_" + I
    stark = d == "stark-curve"
    has_g2 = any(x == d and k for x, k in CURVES)
    if n == 1:
        gens = f"gJac, _, gAff, _ := {C}.Generators()" if has_g2 else f"gJac, gAff := {C}.Generators()"
    else:
        gens = f"_, gJac, _, gAff := {C}.Generators()"
    nc = len(COORD[kind][0])
    if kind == "fp":
        field = f'"fp:" + hexBig({FP}.Modulus())'
    elif kind == "e2":
        field = f'func() string {{ var t Aff; t.X.A1.SetOne(); t.Y.Square(&t.X); if !t.Y.A1.IsZero() {{ panic("tower") }}; return "fp2:" + hexBig({FP}.Modulus()) + ":" + t.Y.A0.Text(16) }}()'
    else:
        field = (f'func() string {{ var t, u Aff; t.X.B1.A0.SetOne(); t.Y.Square(&t.X); u.X.B0.A1.SetOne(); u.Y.Square(&u.X); '
                 f'if !t.Y.B1.IsZero() || !u.Y.B0.A1.IsZero() || !u.Y.B1.IsZero() {{ panic("tower") }}; '
                 f'return "fp4:" + hexBig({FP}.Modulus()) + ":" + u.Y.B0.A0.Text(16) + ":" + t.Y.B0.A0.Text(16) + "," + t.Y.B0.A1.Text(16) }}()')
    if n == 1:
        acoef = f"aC, bC := {C}.CurveCoefficients()\n\taTok := aC.Text(16)\n\tvar ax Aff\n\tax.X.Mul(&aC, &gAff.X)\n\tbt.X.Sub(&bt.X, &ax.X)\n\tif !bt.X.Equal(&bC) {{ panic(\"b\") }}"
    else:
        acoef = f'aTok := "{zeros(kind)}"'
    basejac = 'return "bad-op"' if stark else 'rj.ScalarMultiplicationBase(s)\n\t\t\tres.FromJacobian(&rj)'
    if stark:
        jointgen = "var pj, qj Jac\n\t\t\tpj.FromAffine(&p)\n\t\t\tqj.FromAffine(&q)\n\t\t\trj.JointScalarMultiplication(&pj, &qj, s1, s2)"
        batch = "nil"
    else:
        jointgen = "rj.JointScalarMultiplication(&p, &q, s1, s2)"
        batch = f"""func(P string, ss []*big.Int) string {{
		p := in(P)
		sc := make([]{FR}.Element, len(ss))
		for i := range ss {{
			sc[i].SetBigInt(ss[i])
		}}
		res := {C}.BatchScalarMultiplicationG{n}(&p, sc)
		if len(res) == 0 {{
			return "-"
		}}
		var o []string
		for i := range res {{
			o = append(o, out(&res[i]))
		}}
		return join(o)
	}}"""
    jointblock = JOINT.replace("{jointgen}", jointgen) if n == 1 else "\tvar joint func(variant, P, Q string, s1, s2 *big.Int) string\n"
    if n == 1:
        jointblock += JOINTA_STARK if stark else JOINTA_GEN
    else:
        jointblock += "\tvar jointA func(variant, al string, st bool, P, Q string, s1, s2 *big.Int) string\n"
    smablock = SMA.replace("{basejac}", basejac.replace("\n\t\t\t", "\n\t\t\t\t") if not stark else 'return "bad-op"')
    return f"""
// ---- {d} G{n}
func init() {{
	type Aff = {C}.G{n}Affine
	type Jac = {C}.G{n}Jac
	{gens}
	xout := func(p *Aff) string {{ return {cout(kind, "p.X")} }}
	out := func(p *Aff) string {{
		if p.IsInfinity() {{
			return "inf"
		}}
		return {cout(kind, "p.X")} + ";" + {cout(kind, "p.Y")}
	}}
	in := func(s string) Aff {{
		var p Aff
		xy := strings.Split(s, ";")
		if len(xy) != 2 {{
			return p
		}}
		xs := strings.Split(xy[0], ",")
		ys := strings.Split(xy[1], ",")
		if len(xs) != {nc} || len(ys) != {nc} {{
			return p
		}}
		{cset(kind, "p.X", "xs")}
		{cset(kind, "p.Y", "ys")}
		return p
	}}
	// b = y² − x³ − a·x from the generator
	var bt, x3 Aff
	bt.X.Square(&gAff.Y)
	x3.X.Square(&gAff.X)
	x3.X.Mul(&x3.X, &gAff.X)
	bt.X.Sub(&bt.X, &x3.X)
	{acoef}
	naive := func(e *big.Int) string {{
		var inf Aff
		var acc Jac
		acc.FromAffine(&inf)
		for i := e.BitLen() - 1; i >= 0; i-- {{
			acc.DoubleAssign()
			if e.Bit(i) == 1 {{
				acc.AddAssign(&gJac)
			}}
		}}
		var r Aff
		r.FromJacobian(&acc)
		return out(&r)
	}}
	sm := func(variant, P string, s *big.Int) string {{
		p := in(P)
		var res Aff
		var j, rj Jac
		switch variant {{
		case "aff":
			res.ScalarMultiplication(&p, s)
		case "jac":
			j.FromAffine(&p)
			rj.ScalarMultiplication(&j, s)
			res.FromJacobian(&rj)
		case "jacalias":
			j.FromAffine(&p)
			j.ScalarMultiplication(&j, s)
			res.FromJacobian(&j)
		case "base":
			res.ScalarMultiplicationBase(s)
		case "basejac":
			{basejac}
		default:
			return "bad-op"
		}}
		return out(&res)
	}}
{smablock}{jointblock}	_ = p0
	c03Register(&c03Group{{curve: "{d}", grp: "g{n}", field: {field}, a: aTok, b: xout(&bt), g: out(&gAff),
		p: {FP}.Modulus(), r: {FR}.Modulus(), limbs: {FR}.Limbs, noBaseJac: {'true' if stark else 'false'}, naive: naive, sm: sm, joint: joint, smA: smA, jointA: jointA,
		batch: {batch}}})
}}
"""

def te(d, sub, name):
    I = ident(name); T = "te_" + I; FR = "fr_" + ident(d)
    return f"""
// ---- twisted Edwards {name}
func init() {{
	type Aff = {T}.PointAffine
	type Proj = {T}.PointProj
	type Ext = {T}.PointExtended
	cp := {T}.GetEdwardsCurve()
	out := func(p *Aff) string {{ return p.X.Text(16) + ";" + p.Y.Text(16) }}
	in := func(s string) Aff {{
		var p Aff
		p.Y.SetOne()
		xy := strings.Split(s, ";")
		if len(xy) != 2 {{
			return p
		}}
		p.X.SetBigInt(parseBig(xy[0]))
		p.Y.SetBigInt(parseBig(xy[1]))
		return p
	}}
	naive := func(e *big.Int) string {{
		var acc Aff
		acc.Y.SetOne()
		for i := e.BitLen() - 1; i >= 0; i-- {{
			acc.Double(&acc)
			if e.Bit(i) == 1 {{
				acc.Add(&acc, &cp.Base)
			}}
		}}
		return out(&acc)
	}}
	sm := func(variant, P string, s *big.Int) string {{
		p := in(P)
		var res Aff
		switch variant {{
		case "aff":
			res.ScalarMultiplication(&p, s)
		case "proj":
			var a, b Proj
			a.FromAffine(&p)
			b.ScalarMultiplication(&a, s)
			res.FromProj(&b)
		case "ext":
			var a, b Ext
			a.FromAffine(&p)
			b.ScalarMultiplication(&a, s)
			res.FromExtended(&b)
		default:
			return "bad-op"
		}}
		return out(&res)
	}}
	// aliasing patterns (c03.go, op `alias`): d / dirty receiver (holds [2]Base) / receiver = operand
	smA := func(variant, al, P string, s *big.Int) string {{
		if al != "d" && al != "dirty" && al != "rp" {{
			return "bad-op"
		}}
		p := in(P)
		c := new(big.Int).Set(s)
		var res, d2 Aff
		d2.Double(&cp.Base)
		switch variant {{
		case "aff":
			a, a0 := p, p
			b := &res
			if al == "dirty" {{
				res = d2
			}}
			if al == "rp" {{
				b = &a
			}}
			b.ScalarMultiplication(&a, s)
			if al != "rp" && a != a0 {{
				return "mutated:point-operand"
			}}
			res = *b
		case "proj":
			var a, r Proj
			a.FromAffine(&p)
			a0 := a
			b := &r
			if al == "dirty" {{
				r.FromAffine(&d2)
			}}
			if al == "rp" {{
				b = &a
			}}
			b.ScalarMultiplication(&a, s)
			if al != "rp" && a != a0 {{
				return "mutated:point-operand"
			}}
			res.FromProj(b)
		case "ext":
			var a, r Ext
			a.FromAffine(&p)
			a0 := a
			b := &r
			if al == "dirty" {{
				r.FromAffine(&d2)
			}}
			if al == "rp" {{
				b = &a
			}}
			b.ScalarMultiplication(&a, s)
			if al != "rp" && a != a0 {{
				return "mutated:point-operand"
			}}
			res.FromExtended(b)
		default:
			return "bad-op"
		}}
		if s.Cmp(c) != 0 {{
			return "mutated:scalar"
		}}
		return out(&res)
	}}
	c03TEs["{name}"] = &c03TE{{curve: "{name}", q: hexBig({FR}.Modulus()), a: cp.A.Text(16), d: cp.D.Text(16),
		order: hexBig(&cp.Order), b: out(&cp.Base), n: new(big.Int).Set(&cp.Order), naive: naive, sm: sm, smA: smA}}
}}
"""

imports = ['"math/big"', '"strings"']
body = ""
for d, k2 in CURVES:
    I = ident(d)
    imports += [f'c_{I} "{ROOT}{d}"', f'fr_{I} "{ROOT}{d}/fr"', f'fp_{I} "{ROOT}{d}/fp"']
    body += group(d, 1, "fp")
    if k2:
        body += group(d, 2, k2)
for d in TES:
    imports.append(f'te_{ident(d)} "{ROOT}{d}/twistededwards"')
    body += te(d, "twistededwards", d)
imports.append(f'te_bandersnatch "{ROOT}bls12-381/bandersnatch"')
body += te("bls12-381", "bandersnatch", "bandersnatch")
body = body.replace("\t_ = p0\n", "")
open("c03_groups_gen.go", "w").write(
    "// Code generated by c03_gen.py; DO NOT EDIT.\n\npackage main\n\nimport (\n\t" + "\n\t".join(imports) + "\n)\n" + body)
