package main

// C17a adapter for one curve. GENERATED from the bn254 template by c17a_gen.sh. DO NOT EDIT.
// c17a_gen.sh (sed on the import paths and the type name). Do not edit the generated copies.

import (
	"bytes"
	"crypto/sha256"
	"math/big"

	curve "github.com/consensys/gnark-crypto/ecc/bw6-761"
	"github.com/consensys/gnark-crypto/ecc/bw6-761/fflonk"
	"github.com/consensys/gnark-crypto/ecc/bw6-761/fp"
	"github.com/consensys/gnark-crypto/ecc/bw6-761/fr"
	"github.com/consensys/gnark-crypto/ecc/bw6-761/fr/fft"
	"github.com/consensys/gnark-crypto/ecc/bw6-761/fr/pedersen"
	"github.com/consensys/gnark-crypto/ecc/bw6-761/kzg"
	"github.com/consensys/gnark-crypto/ecc/bw6-761/shplonk"
	fiatshamir "github.com/consensys/gnark-crypto/fiat-shamir"
)

type c17C_bw6_761 struct{}

func init() { c17Curves["bw6-761"] = c17C_bw6_761{} }

func (c17C_bw6_761) modulus() *big.Int { return fr.Modulus() }

func (c17C_bw6_761) g1(s *big.Int) curve.G1Affine {
	_, _, g, _ := curve.Generators()
	var p curve.G1Affine
	p.ScalarMultiplication(&g, new(big.Int).Mod(s, fr.Modulus()))
	return p
}
func (c17C_bw6_761) g2(s *big.Int) curve.G2Affine {
	_, _, _, g := curve.Generators()
	var p curve.G2Affine
	p.ScalarMultiplication(&g, new(big.Int).Mod(s, fr.Modulus()))
	return p
}
func (c c17C_bw6_761) g1s(l []*big.Int) []curve.G1Affine {
	r := make([]curve.G1Affine, len(l))
	for i := range l {
		r[i] = c.g1(l[i])
	}
	return r
}
func (c17C_bw6_761) fr(s *big.Int) fr.Element {
	var e fr.Element
	e.SetBigInt(s)
	return e
}
func (c c17C_bw6_761) frs(l []*big.Int) []fr.Element {
	r := make([]fr.Element, len(l))
	for i := range l {
		r[i] = c.fr(l[i])
	}
	return r
}
func (c c17C_bw6_761) frLL(l [][]*big.Int) [][]fr.Element {
	r := make([][]fr.Element, len(l))
	for i := range l {
		r[i] = c.frs(l[i])
	}
	return r
}
func (c17C_bw6_761) frHex(e fr.Element) string {
	var b big.Int
	e.BigInt(&b)
	return hexBig(&b)
}

// a point of E(Fp) outside the prime-order subgroup (none when the cofactor is 1)
func (c17C_bw6_761) noSubG1() (curve.G1Affine, bool) {
	_, _, g, _ := curve.Generators()
	var b, t fp.Element
	b.Square(&g.Y)
	t.Square(&g.X).Mul(&t, &g.X)
	b.Sub(&b, &t) // b = y² − x³
	for i := uint64(1); i < 200; i++ {
		var p curve.G1Affine
		p.X.SetUint64(i)
		t.Square(&p.X).Mul(&t, &p.X).Add(&t, &b)
		if p.Y.Sqrt(&t) == nil {
			continue
		}
		if p.IsOnCurve() && !p.IsInSubGroup() {
			return p, true
		}
	}
	return curve.G1Affine{}, false
}
func (c c17C_bw6_761) hasNoSubG1() bool { _, ok := c.noSubG1(); return ok }

// A point T ≠ O of cofactor order: on the curve, [h]T = O, hence OUTSIDE the prime-order subgroup and with trivial pairing
// against it. T = [r]P for a curve point P outside the subgroup (P: the generator's compressed encoding with the low bytes
// of X replaced, decoded WITHOUT subgroup check), by plain double-and-add (ScalarMultiplication uses the GLV endomorphism,
// which is only an eigenvalue multiplication inside the subgroup). seed selects P. ok = false when the cofactor is 1.
var c17TorsA_bw6_761 = map[int]*curve.G1Affine{}
var c17TorsB_bw6_761 = map[int]*curve.G2Affine{}

func (c17C_bw6_761) torsionG1(seed int) (curve.G1Affine, bool) {
	if t, ok := c17TorsA_bw6_761[seed]; ok {
		if t == nil {
			return curve.G1Affine{}, false
		}
		return *t, true
	}
	c17TorsA_bw6_761[seed] = nil
	_, _, g, _ := curve.Generators()
	enc := g.Bytes()
	r := fr.Modulus()
	for i := 0; i < 48; i++ {
		b := enc
		b[len(b)-1], b[len(b)-2] = byte(i), byte(seed)
		var p curve.G1Affine
		if err := curve.NewDecoder(bytes.NewReader(b[:]), curve.NoSubgroupChecks()).Decode(&p); err != nil {
			continue // X³ + b is not a square
		}
		if p.IsInfinity() || !p.IsOnCurve() || p.IsInSubGroup() {
			continue
		}
		var acc, base curve.G1Jac
		base.FromAffine(&p)
		acc.X.SetOne()
		acc.Y.SetOne() // Z = 0: the point at infinity
		for k := r.BitLen() - 1; k >= 0; k-- {
			acc.DoubleAssign()
			if r.Bit(k) == 1 {
				acc.AddAssign(&base)
			}
		}
		var t curve.G1Affine
		t.FromJacobian(&acc)
		if t.IsInfinity() || !t.IsOnCurve() || t.IsInSubGroup() {
			continue
		}
		c17TorsA_bw6_761[seed] = &t
		return t, true
	}
	return curve.G1Affine{}, false
}

func (c17C_bw6_761) torsionG2(seed int) (curve.G2Affine, bool) {
	if t, ok := c17TorsB_bw6_761[seed]; ok {
		if t == nil {
			return curve.G2Affine{}, false
		}
		return *t, true
	}
	c17TorsB_bw6_761[seed] = nil
	_, _, _, g := curve.Generators()
	enc := g.Bytes()
	r := fr.Modulus()
	for i := 0; i < 48; i++ {
		b := enc
		b[len(b)-1], b[len(b)-2] = byte(i), byte(seed)
		var p curve.G2Affine
		if err := curve.NewDecoder(bytes.NewReader(b[:]), curve.NoSubgroupChecks()).Decode(&p); err != nil {
			continue
		}
		if p.IsInfinity() || !p.IsOnCurve() || p.IsInSubGroup() {
			continue
		}
		var acc, base curve.G2Jac
		base.FromAffine(&p)
		acc.X.SetOne()
		acc.Y.SetOne()
		for k := r.BitLen() - 1; k >= 0; k-- {
			acc.DoubleAssign()
			if r.Bit(k) == 1 {
				acc.AddAssign(&base)
			}
		}
		var t curve.G2Affine
		t.FromJacobian(&acc)
		if t.IsInfinity() || !t.IsOnCurve() || t.IsInSubGroup() {
			continue
		}
		c17TorsB_bw6_761[seed] = &t
		return t, true
	}
	return curve.G2Affine{}, false
}

// ------------------------------------------------------------------------------------------------ Pedersen

func (c c17C_bw6_761) pedKeys(g, s *big.Int, b []*big.Int) (pedersen.ProvingKey, pedersen.VerifyingKey) {
	r := fr.Modulus()
	var pk pedersen.ProvingKey
	pk.Basis = c.g1s(b)
	pk.BasisExpSigma = make([]curve.G1Affine, len(b))
	for i := range b {
		pk.BasisExpSigma[i] = c.g1(new(big.Int).Mul(s, b[i]))
	}
	var vk pedersen.VerifyingKey
	vk.G = c.g2(g)
	sg := new(big.Int).Mul(s, g)
	sg.Neg(sg).Mod(sg, r)
	vk.GSigmaNeg = c.g2(sg)
	return pk, vk
}

func (c c17C_bw6_761) pedSingle(a kvs) string {
	pk, vk := c.pedKeys(a.big("g"), a.big("s"), bigL(a["b"]))
	v, v2 := c.frs(bigL(a["v"])), c.frs(bigL(a["v2"]))
	m := a.big("m")
	C, err := pk.Commit(v)
	if err != nil {
		return "err"
	}
	pok, err := pk.ProveKnowledge(v)
	if err != nil {
		return "err"
	}
	C2, _ := pk.Commit(v2)
	pok2, _ := pk.ProveKnowledge(v2)
	mG := c.g1(m)
	switch a["mut"] {
	case "none":
	case "Cset":
		C = mG
	case "Cadd":
		C.Add(&C, &mG)
	case "Czero":
		C = curve.G1Affine{}
	case "Pset":
		pok = mG
	case "Padd":
		pok.Add(&pok, &mG)
	case "Pzero":
		pok = curve.G1Affine{}
	case "Cother":
		C = C2
	case "Pother":
		pok = pok2
	case "both":
		C, pok = C2, pok2
	case "swap":
		C, pok = pok, C
	case "scale":
		C.ScalarMultiplication(&C, m)
		pok.ScalarMultiplication(&pok, m)
	case "Pkey":
		pok.ScalarMultiplication(&C, m)
	case "vkG":
		vk.G = c.g2(m)
	case "vkS":
		vk.GSigmaNeg = c.g2(m)
	case "Cnosub":
		p, ok := c.noSubG1()
		if !ok {
			return "bad-op"
		}
		C = p
	case "Pnosub":
		p, ok := c.noSubG1()
		if !ok {
			return "bad-op"
		}
		pok = p
	case "Ctor", "Ptor": // honest element + a point of cofactor order: the pairing equation still holds, only the subgroup check sees it
		t, ok := c.torsionG1(int(new(big.Int).Mod(m, big.NewInt(5)).Int64()))
		if !ok {
			return "bad-op"
		}
		if a["mut"] == "Ctor" {
			C.Add(&C, &t)
		} else {
			pok.Add(&pok, &t)
		}
	default:
		return "bad-op"
	}
	return c17Verdict(vk.Verify(C, pok))
}

func (c c17C_bw6_761) pedBatch(a kvs) string {
	g, ss, bs, vs := a.big("g"), bigL(a["s"]), bigLL(a["b"]), bigLL(a["v"])
	rc := c.fr(a.big("r"))
	m, i := a.big("m"), a.int("i")
	folded := a["mode"] == "folded"
	k := len(bs)
	pks := make([]pedersen.ProvingKey, k)
	vks := make([]pedersen.VerifyingKey, k)
	vals := make([][]fr.Element, k)
	cs := make([]curve.G1Affine, k)
	for x := 0; x < k; x++ {
		pks[x], vks[x] = c.pedKeys(g, ss[x], bs[x])
		vals[x] = c.frs(vs[x])
		var err error
		if cs[x], err = pks[x].Commit(vals[x]); err != nil {
			return "err"
		}
	}
	var poks []curve.G1Affine
	if folded {
		p, err := pedersen.BatchProve(pks, vals, rc)
		if err != nil {
			return "err"
		}
		poks = []curve.G1Affine{p}
	} else {
		poks = make([]curve.G1Affine, k)
		for x := 0; x < k; x++ {
			var err error
			if poks[x], err = pks[x].ProveKnowledge(vals[x]); err != nil {
				return "err"
			}
		}
	}
	mG := c.g1(m)
	switch a["mut"] {
	case "none":
	case "Cset":
		cs[i] = mG
	case "Cadd":
		cs[i].Add(&cs[i], &mG)
	case "Czero":
		cs[i] = curve.G1Affine{}
	case "Pset":
		poks[i] = mG
	case "Padd":
		poks[i].Add(&poks[i], &mG)
	case "Pzero":
		poks[i] = curve.G1Affine{}
	case "Cswap":
		j := (i + 1) % k
		cs[i], cs[j] = cs[j], cs[i]
	case "rv":
		rc = c.fr(m)
	case "vkG":
		vks[i].G = c.g2(m)
	case "vkS":
		vks[i].GSigmaNeg = c.g2(m)
	case "dropP":
		poks = poks[:len(poks)-1]
	case "dropC":
		cs = cs[:len(cs)-1]
	case "scale":
		for x := range cs {
			cs[x].ScalarMultiplication(&cs[x], m)
		}
		for x := range poks {
			poks[x].ScalarMultiplication(&poks[x], m)
		}
	case "CzeroAll": // every commitment the identity, proofs of knowledge kept: the G1 operands of the σ-pairs all vanish
		for x := range cs {
			cs[x] = curve.G1Affine{}
		}
	case "PzeroAll": // every proof of knowledge the identity: the G1 operand of the last pair vanishes
		for x := range poks {
			poks[x] = curve.G1Affine{}
		}
	case "Ctor", "Ptor":
		t, ok := c.torsionG1(int(new(big.Int).Mod(m, big.NewInt(5)).Int64()))
		if !ok {
			return "bad-op"
		}
		if a["mut"] == "Ctor" {
			cs[i].Add(&cs[i], &t)
		} else {
			poks[i].Add(&poks[i], &t)
		}
	case "Ccancel":
		j := (i + 1) % k
		cs[i].Add(&cs[i], &mG)
		cs[j].Sub(&cs[j], &mG)
	case "Pcancel":
		j := (i + 1) % len(poks)
		poks[i].Add(&poks[i], &mG)
		poks[j].Sub(&poks[j], &mG)
	case "Pcomp":
		mr := new(big.Int).Mul(m, a.big("r"))
		d0 := c.g1(mr)
		poks[0].Add(&poks[0], &d0)
		poks[1].Sub(&poks[1], &mG)
	default:
		return "bad-op"
	}
	return c17Verdict(pedersen.BatchVerifyMultiVk(vks, cs, poks, rc))
}

// ------------------------------------------------------------------------------------------- SHPLONK / fflonk

// same binding order as shplonk.deriveChallenge (unexported there)
func (c17C_bw6_761) shDerive(name string, points, claimed [][]fr.Element, digests []kzg.Digest, t *fiatshamir.Transcript) fr.Element {
	for i := range points {
		for j := range points[i] {
			if err := t.Bind(name, points[i][j].Marshal()); err != nil {
				panic(err)
			}
		}
	}
	for i := range claimed { // bound since the fix 420bc96
		for j := range claimed[i] {
			if err := t.Bind(name, claimed[i][j].Marshal()); err != nil {
				panic(err)
			}
		}
	}
	for i := range digests {
		if err := t.Bind(name, digests[i].Marshal()); err != nil {
			panic(err)
		}
	}
	b, err := t.ComputeChallenge(name)
	if err != nil {
		panic(err)
	}
	var ch fr.Element
	ch.SetBytes(b)
	return ch
}

func (c c17C_bw6_761) shChallenges(points, claimed [][]fr.Element, digests []kzg.Digest, W curve.G1Affine) (fr.Element, fr.Element) {
	fs := fiatshamir.NewTranscript(sha256.New(), "gamma", "z")
	gamma := c.shDerive("gamma", points, claimed, digests, fs)
	z := c.shDerive("z", nil, nil, []kzg.Digest{W}, fs)
	return gamma, z
}

// W' = [ (Σ γ^k Z_{T∖S_k}(z)(f_k(τ) − r_k(z)) − Z_T(z)·w) / (τ − z) ] through the trapdoor; w = discrete log of W
// vanish = true: the same numerator divided by −z: the FIRST operand F + z·W' of the verifier's pairing product is the identity
func (c c17C_bw6_761) shWPrimeTrapdoor(x *c17Sh_bw6_761, tf, w, gamma, z fr.Element, vanish bool) (curve.G1Affine, bool) {
	var acc, g, t fr.Element
	g.SetOne()
	for k := range x.points {
		fk := c.evalPoly(x.polys[k], tf)
		rk := c.interpAt(x.points[k], x.proof.ClaimedValues[k], z)
		fk.Sub(&fk, &rk)
		zk := c.ztAt(x.points, k, -1, -1, z)
		fk.Mul(&fk, &zk).Mul(&fk, &g)
		acc.Add(&acc, &fk)
		g.Mul(&g, &gamma)
	}
	ztz := c.ztAt(x.points, -1, -1, -1, z)
	ztz.Mul(&ztz, &w)
	acc.Sub(&acc, &ztz)
	t.Sub(&tf, &z)
	if vanish { // F + z·W' = O instead of F = (τ − z)·W'
		t.Neg(&z)
	}
	if t.IsZero() {
		return curve.G1Affine{}, false
	}
	t.Inverse(&t)
	acc.Mul(&acc, &t)
	var wb big.Int
	acc.BigInt(&wb)
	return c.g1(&wb), true
}

// discrete log of the prover's W for the claimed values currently in x.proof: Σ γ^k Z_{T∖S_k}(τ)(f_k(τ) − r_k(τ)) / Z_T(τ)
func (c c17C_bw6_761) shWScalar(x *c17Sh_bw6_761, tf, gamma fr.Element) (fr.Element, bool) {
	var acc, g, w fr.Element
	g.SetOne()
	for k := range x.points {
		fk := c.evalPoly(x.polys[k], tf)
		rk := c.interpAt(x.points[k], x.proof.ClaimedValues[k], tf)
		fk.Sub(&fk, &rk)
		zk := c.ztAt(x.points, k, -1, -1, tf)
		fk.Mul(&fk, &zk).Mul(&fk, &g)
		acc.Add(&acc, &fk)
		g.Mul(&g, &gamma)
	}
	zt := c.ztAt(x.points, -1, -1, -1, tf)
	if zt.IsZero() {
		return w, false
	}
	w.Inverse(&zt).Mul(&w, &acc)
	return w, true
}

type c17Sh_bw6_761 struct {
	proof   shplonk.OpeningProof
	digests []kzg.Digest
	points  [][]fr.Element
	vk      kzg.VerifyingKey
	polys   [][]fr.Element // the committed polynomials (read by "overlap")
	gp      fr.Element     // the honest prover's γ (read by "overlap")
	derive  bool           // gen mode: "overlap" derives the verifier's z itself
}

func (c17C_bw6_761) evalPoly(p []fr.Element, t fr.Element) fr.Element {
	var r fr.Element
	for i := len(p) - 1; i >= 0; i-- {
		r.Mul(&r, &t).Add(&r, &p[i])
	}
	return r
}

// value at t of the interpolation polynomial of (pts, vals)
func (c17C_bw6_761) interpAt(pts, vals []fr.Element, t fr.Element) fr.Element {
	var r fr.Element
	for j := range pts {
		var l, u fr.Element
		l.SetOne()
		for k := range pts {
			if k == j {
				continue
			}
			u.Sub(&t, &pts[k])
			l.Mul(&l, &u)
			u.Sub(&pts[j], &pts[k])
			u.Inverse(&u)
			l.Mul(&l, &u)
		}
		l.Mul(&l, &vals[j])
		r.Add(&r, &l)
	}
	return r
}

// ∏ (t − s) over all s ∈ S_k, k ≠ skip (skip = −1: Z_T(t)); (sb, sj) ≥ 0: that one factor is left out as well
func (c17C_bw6_761) ztAt(points [][]fr.Element, skip, sb, sj int, t fr.Element) fr.Element {
	var r, u fr.Element
	r.SetOne()
	for k := range points {
		if k == skip {
			continue
		}
		for l := range points[k] {
			if k == sb && l == sj {
				continue
			}
			u.Sub(&t, &points[k][l])
			r.Mul(&r, &u)
		}
	}
	return r
}

// mutations of a shplonk instance; other may be nil. gv, zv: the verifier's challenges (only read by "forge")
func (c c17C_bw6_761) shMutate(a kvs, x *c17Sh_bw6_761, other *c17Sh_bw6_761, tau *big.Int, gv, zv fr.Element) bool {
	m, i, j := a.big("m"), a.int("i"), a.int("j")
	mG, mF := c.g1(m), c.fr(m)
	if other == nil {
		other = x
	}
	switch a["mut"] {
	case "none":
	case "cvSet":
		x.proof.ClaimedValues[i][j] = mF
	case "cvAdd":
		x.proof.ClaimedValues[i][j].Add(&x.proof.ClaimedValues[i][j], &mF)
	case "cvZero":
		x.proof.ClaimedValues[i][j].SetZero()
	case "cvOther":
		x.proof.ClaimedValues[i][j] = other.proof.ClaimedValues[i][j]
	case "Wset":
		x.proof.W = mG
	case "Wadd":
		x.proof.W.Add(&x.proof.W, &mG)
	case "Wzero":
		x.proof.W = curve.G1Affine{}
	case "Wother":
		x.proof.W = other.proof.W
	case "WPset":
		x.proof.WPrime = mG
	case "WPadd":
		x.proof.WPrime.Add(&x.proof.WPrime, &mG)
	case "WPzero":
		x.proof.WPrime = curve.G1Affine{}
	case "WPother":
		x.proof.WPrime = other.proof.WPrime
	case "Wswap":
		x.proof.W, x.proof.WPrime = x.proof.WPrime, x.proof.W
	case "digSet":
		x.digests[i] = mG
	case "digAdd":
		x.digests[i].Add(&x.digests[i], &mG)
	case "digZero":
		x.digests[i] = curve.G1Affine{}
	case "digOther":
		x.digests[i] = other.digests[i]
	case "ptSet":
		x.points[i][j] = mF
	case "ptAdd":
		x.points[i][j].Add(&x.points[i][j], &mF)
	case "cvDrop":
		x.proof.ClaimedValues[i] = x.proof.ClaimedValues[i][:len(x.proof.ClaimedValues[i])-1]
	case "cvExtra":
		x.proof.ClaimedValues[i] = append(x.proof.ClaimedValues[i], mF)
	case "cvDropSet":
		x.proof.ClaimedValues = x.proof.ClaimedValues[:len(x.proof.ClaimedValues)-1]
	case "digDrop":
		x.digests = x.digests[:len(x.digests)-1]
	case "ptsDrop":
		x.points = x.points[:len(x.points)-1]
	case "vkG1":
		x.vk.G1 = mG
	case "vkH0":
		x.vk.G2[0] = c.g2(m)
		x.vk.Lines[0] = curve.PrecomputeLines(x.vk.G2[0])
	case "vkH1":
		x.vk.G2[1] = c.g2(m)
		x.vk.Lines[1] = curve.PrecomputeLines(x.vk.G2[1])
	case "forge", "vanish":
		// "vanish": PARTIAL-VANISHING forgery: claimed[i][j] += m, W kept, W' := −F/z for the verifier's challenges, so that the
		// first G1 operand F + z·W' of the pairing product is the identity while W' ≠ O: the relation F = (τ − z)·W' is false.
		// (The forger needs the discrete logarithm of F only because the harness builds points from scalars.)
		// "forge": TRAPDOOR forgery: claimed[i][j] += m, W kept, W' recomputed through τ for the verifier's challenges (which depend on
		// the claimed values since the fix 420bc96): the verification relation holds although the statement is false
		if len(x.polys) != len(x.points) {
			return false
		}
		tf := c.fr(tau)
		w, ok := c.shWScalar(x, tf, x.gp) // honest W (honest values, prover's γ)
		if !ok {
			return false
		}
		x.proof.ClaimedValues[i][j].Add(&x.proof.ClaimedValues[i][j], &mF)
		gamma, z := gv, zv
		if x.derive {
			gamma, z = c.shChallenges(x.points, x.proof.ClaimedValues, x.digests, x.proof.W)
		}
		wp, ok := c.shWPrimeTrapdoor(x, tf, w, gamma, z, a["mut"] == "vanish")
		if !ok {
			return false
		}
		x.proof.WPrime = wp
	case "overlap":
		// NO-TRAPDOOR forgery for a point x = points[i][j] that also belongs to another set S_b (T is a multiset: Z_T has a
		// double root at x): claimed[i][j] += m, claimed[b][j2] += d_b with γ^i·Q_i(x)·m + γ^b·Q_b(x)·d_b = 0, so that
		// Σ γ^k Z_{T∖S_k}(f_k − r'_k) is still divisible by Z_T and W, W' are honest commitments of exact quotients (they are
		// computed here through τ only for convenience; the Lean model re-checks that the division is exact). The forger
		// needs γ BEFORE choosing the values: it uses the honest prover's γ (x.gp).
		b, j2 := -1, -1
		for k := range x.points {
			for l := range x.points[k] {
				if k != i && b < 0 && x.points[k][l].Equal(&x.points[i][j]) {
					b, j2 = k, l
				}
			}
		}
		if b < 0 || len(x.polys) != len(x.points) {
			return false
		}
		xx := x.points[i][j]
		qa, qb := c.ztAt(x.points, i, b, j2, xx), c.ztAt(x.points, b, i, j, xx)
		if qa.IsZero() || qb.IsZero() {
			return false
		}
		var ga, gb, db, t fr.Element
		ga.Exp(x.gp, big.NewInt(int64(i)))
		gb.Exp(x.gp, big.NewInt(int64(b)))
		db.Mul(&ga, &qa).Mul(&db, &mF)
		t.Mul(&gb, &qb).Inverse(&t)
		db.Mul(&db, &t).Neg(&db)
		x.proof.ClaimedValues[i][j].Add(&x.proof.ClaimedValues[i][j], &mF)
		x.proof.ClaimedValues[b][j2].Add(&x.proof.ClaimedValues[b][j2], &db)
		tf := c.fr(tau)
		w, ok := c.shWScalar(x, tf, x.gp)
		if !ok {
			return false
		}
		var wb big.Int
		w.BigInt(&wb)
		x.proof.W = c.g1(&wb)
		z := zv
		if x.derive {
			_, z = c.shChallenges(x.points, x.proof.ClaimedValues, x.digests, x.proof.W)
		}
		wp, ok := c.shWPrimeTrapdoor(x, tf, w, x.gp, z, false) // the forger's γ, the verifier's z
		if !ok {
			return false
		}
		x.proof.WPrime = wp
	default:
		return false
	}
	return true
}

func (c c17C_bw6_761) shplonk(a kvs, derive bool) string {
	tau := a.big("tau")
	srs, err := kzg.NewSRS(uint64(a.int("n")), tau)
	if err != nil {
		return "err"
	}
	pts := c.frLL(bigLL(a["pts"]))
	build := func(polys [][]fr.Element) (*c17Sh_bw6_761, bool) {
		x := &c17Sh_bw6_761{vk: srs.Vk, polys: polys, derive: derive}
		x.digests = make([]kzg.Digest, len(polys))
		for i := range polys {
			if x.digests[i], err = kzg.Commit(polys[i], srs.Pk); err != nil {
				return nil, false
			}
		}
		x.points = make([][]fr.Element, len(pts))
		for i := range pts {
			x.points[i] = append([]fr.Element{}, pts[i]...)
		}
		if x.proof, err = shplonk.BatchOpen(polys, x.digests, x.points, sha256.New(), srs.Pk); err != nil {
			return nil, false
		}
		return x, true
	}
	x, ok := build(c.frLL(bigLL(a["p"])))
	if !ok {
		if derive {
			return "gp=0 zp=0 g2=0 z2=0 gv=0 zv=0"
		}
		return "err"
	}
	var other *c17Sh_bw6_761
	if p2 := bigLL(a["p2"]); len(p2) > 0 {
		other, _ = build(c.frLL(p2))
	}
	var gv, zv fr.Element
	out := ""
	if derive {
		gp, zp := c.shChallenges(x.points, x.proof.ClaimedValues, x.digests, x.proof.W)
		x.gp = gp
		out = "gp=" + c.frHex(gp) + " zp=" + c.frHex(zp)
		if other != nil {
			g2, z2 := c.shChallenges(other.points, other.proof.ClaimedValues, other.digests, other.proof.W)
			out += " g2=" + c.frHex(g2) + " z2=" + c.frHex(z2)
		} else {
			out += " g2=0 z2=0"
		}
		gv, zv = gp, zp // placeholders: in gen mode "forge" / "overlap" derive the verifier's challenges themselves
	} else {
		gv, zv = c.fr(a.big("gv")), c.fr(a.big("zv"))
		x.gp = c.fr(a.big("gp"))
	}
	if !c.shMutate(a, x, other, tau, gv, zv) {
		return "bad-op"
	}
	if derive {
		gv, zv = c.shChallenges(x.points, x.proof.ClaimedValues, x.digests, x.proof.W)
		return out + " gv=" + c.frHex(gv) + " zv=" + c.frHex(zv)
	}
	return c17Verdict(shplonk.BatchVerify(x.proof, x.digests, x.points, sha256.New(), x.vk))
}

// fflonk.extendSet (unexported there)
func (c17C_bw6_761) ffExtend(p []fr.Element, t int) []fr.Element {
	rm1 := fr.Modulus()
	rm1.Sub(rm1, big.NewInt(1))
	e := new(big.Int).Div(rm1, big.NewInt(int64(t)))
	var omega fr.Element
	omega.Exp(fft.GeneratorFullMultiplicativeGroup(), e)
	res := make([]fr.Element, t*len(p))
	for i := range p {
		res[i*t] = p[i]
		for k := 1; k < t; k++ {
			res[i*t+k].Mul(&res[i*t+k-1], &omega)
		}
	}
	return res
}

type c17Ff_bw6_761 struct {
	proof   fflonk.OpeningProof
	digests []kzg.Digest
	points  [][]fr.Element
	vk      kzg.VerifyingKey
}

func (c c17C_bw6_761) ffChallenges(x *c17Ff_bw6_761) (fr.Element, fr.Element) {
	ext := make([][]fr.Element, len(x.points))
	for i := range x.points {
		ext[i] = c.ffExtend(x.points[i], len(x.proof.ClaimedValues[i]))
	}
	return c.shChallenges(ext, x.proof.SOpeningProof.ClaimedValues, x.digests, x.proof.SOpeningProof.W)
}

func (c c17C_bw6_761) fflonk(a kvs, derive bool) string {
	tau := a.big("tau")
	srs, err := kzg.NewSRS(uint64(a.int("n")), tau)
	if err != nil {
		return "err"
	}
	pts := c.frLL(bigLL(a["pts"]))
	toPacks := func(l [][][]*big.Int) [][][]fr.Element {
		r := make([][][]fr.Element, len(l))
		for i := range l {
			r[i] = c.frLL(l[i])
		}
		return r
	}
	build := func(packs [][][]fr.Element) (*c17Ff_bw6_761, bool) {
		x := &c17Ff_bw6_761{vk: srs.Vk}
		x.digests = make([]kzg.Digest, len(packs))
		for i := range packs {
			if x.digests[i], err = fflonk.FoldAndCommit(packs[i], srs.Pk); err != nil {
				return nil, false
			}
		}
		x.points = make([][]fr.Element, len(pts))
		for i := range pts {
			x.points[i] = append([]fr.Element{}, pts[i]...)
		}
		if x.proof, err = fflonk.BatchOpen(packs, x.digests, x.points, sha256.New(), srs.Pk); err != nil {
			return nil, false
		}
		return x, true
	}
	packs := toPacks(bigLLL(a["p"]))
	x, ok := build(packs)
	if !ok {
		if derive {
			return "gp=0 zp=0 g2=0 z2=0 gv=0 zv=0"
		}
		return "err"
	}
	var other *c17Ff_bw6_761
	if p2 := bigLLL(a["p2"]); len(p2) > 0 {
		other, _ = build(toPacks(p2))
	}
	out := ""
	gpF := c.fr(a.big("gp")) // the honest prover's γ (read by "vanish")
	if derive {
		gp, zp := c.ffChallenges(x)
		gpF = gp
		out = "gp=" + c.frHex(gp) + " zp=" + c.frHex(zp)
		if other != nil {
			g2, z2 := c.ffChallenges(other)
			out += " g2=" + c.frHex(g2) + " z2=" + c.frHex(z2)
		} else {
			out += " g2=0 z2=0"
		}
	}
	m, i, j, k := a.big("m"), a.int("i"), a.int("j"), a.int("k")
	mF := c.fr(m)
	o := other
	if o == nil {
		o = x
	}
	switch a["mut"] {
	case "ocvSet":
		x.proof.ClaimedValues[i][j][k] = mF
	case "ocvAdd":
		x.proof.ClaimedValues[i][j][k].Add(&x.proof.ClaimedValues[i][j][k], &mF)
	case "ocvZero":
		x.proof.ClaimedValues[i][j][k].SetZero()
	case "ocvOther":
		x.proof.ClaimedValues[i][j][k] = o.proof.ClaimedValues[i][j][k]
	case "ocvPair":
		// outer value += m and the t inner values of that point += m·(x·ωˡ)ʲ: the folding check still passes
		t := len(x.proof.ClaimedValues[i])
		ext := c.ffExtend([]fr.Element{x.points[i][k]}, t)
		for l := 0; l < t; l++ {
			var d fr.Element
			d.Exp(ext[l], big.NewInt(int64(j)))
			d.Mul(&d, &mF)
			x.proof.SOpeningProof.ClaimedValues[i][k*t+l].Add(&x.proof.SOpeningProof.ClaimedValues[i][k*t+l], &d)
		}
		x.proof.ClaimedValues[i][j][k].Add(&x.proof.ClaimedValues[i][j][k], &mF)
	case "vanish":
		// PARTIAL-VANISHING forgery through fflonk: the outer value [i][j][k] and the t inner values of that point move
		// together (as "ocvPair": the folding check passes), W kept, W' := −F/z for the verifier's challenges: the first G1
		// operand of the inner SHPLONK pairing product is the identity while W' ≠ O
		in := &c17Sh_bw6_761{proof: x.proof.SOpeningProof, digests: x.digests, vk: x.vk, gp: gpF, derive: derive}
		for q := range packs {
			in.polys = append(in.polys, fflonk.Fold(packs[q]))
			in.points = append(in.points, c.ffExtend(x.points[q], len(x.proof.ClaimedValues[q])))
		}
		tf := c.fr(tau)
		w, ok := c.shWScalar(in, tf, in.gp) // discrete log of the honest W
		if !ok {
			return "bad-op"
		}
		t := len(x.proof.ClaimedValues[i])
		ext := c.ffExtend([]fr.Element{x.points[i][k]}, t)
		for l := 0; l < t; l++ {
			var d fr.Element
			d.Exp(ext[l], big.NewInt(int64(j)))
			d.Mul(&d, &mF)
			in.proof.ClaimedValues[i][k*t+l].Add(&in.proof.ClaimedValues[i][k*t+l], &d)
		}
		x.proof.ClaimedValues[i][j][k].Add(&x.proof.ClaimedValues[i][j][k], &mF)
		gamma, z := c.fr(a.big("gv")), c.fr(a.big("zv"))
		if derive {
			gamma, z = c.shChallenges(in.points, in.proof.ClaimedValues, in.digests, in.proof.W)
		}
		wp, ok := c.shWPrimeTrapdoor(in, tf, w, gamma, z, true)
		if !ok {
			return "bad-op"
		}
		in.proof.WPrime = wp
		x.proof.SOpeningProof = in.proof
	case "optSet":
		x.points[i][j] = mF
	case "optAdd":
		x.points[i][j].Add(&x.points[i][j], &mF)
	default:
		in := &c17Sh_bw6_761{proof: x.proof.SOpeningProof, digests: x.digests, vk: x.vk}
		var ino *c17Sh_bw6_761
		if other != nil {
			ino = &c17Sh_bw6_761{proof: other.proof.SOpeningProof, digests: other.digests, vk: other.vk}
		}
		var zero fr.Element
		if !c.shMutate(a, in, ino, tau, zero, zero) {
			return "bad-op"
		}
		x.proof.SOpeningProof, x.digests, x.vk = in.proof, in.digests, in.vk
	}
	if derive {
		gv, zv := c.ffChallenges(x)
		return out + " gv=" + c.frHex(gv) + " zv=" + c.frHex(zv)
	}
	return c17Verdict(fflonk.BatchVerify(x.proof, x.digests, x.points, sha256.New(), x.vk))
}

// --------------------------------------------------------------------- permutation / plookup / mpcsetup: c17a3
