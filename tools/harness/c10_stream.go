package main

// C10 — Generator at EVERY log-size up to (and one beyond) the field two-adicity, and several domains on ONE stream.
//
//   C10 gen    <field> <q> <root|-> <m>                              → err | <Generator(m)> <exact order 2^⌈log2 m⌉, by squaring>
//        the two-adicity s is NOT asked from the package: it is v2(q−1) (here) and the extracted constant maxOrderRoot (model);
//        <root> = Generator(2^s) when the package has one, `-` otherwise (the model then has no expected value: every answer differs)
//   C10 stream <field> <q> <nbytes> <rdr> <spec,spec,…> <trailer>    → <n>:<pos>:<card>:<cardInv>:<gen>:<genInv>:<g>:<gInv>:<precomp> per domain, <bytes left> <trailer intact>
//        spec = <logn>:<omega>:<precomp>:<g>:<custom>; every domain is written by WriteTo one after the other to ONE buffer, <trailer> more
//        bytes follow; ONE reader of kind <rdr> is handed to every ReadFrom in turn: n = the count ReadFrom returns, pos = the reader's position
//        after the call. rdr: bytes (*bytes.Reader, has ReadByte) | buffer (*bytes.Buffer) | bufio (*bufio.Reader of the caller) | plain (Read
//        only) | one (Read only, 1 byte per call) | chunk (Read only, ≤ 5 bytes per call) | pipe (io.Pipe fed 3 bytes at a time) | file (*os.File)

import (
	"bufio"
	"bytes"
	"fmt"
	"io"
	"math/big"
	"math/bits"
	"os"
	"strconv"
	"strings"
)

// two-adicity of the field, from the modulus alone
func c10adicity(q *big.Int) int {
	return int(new(big.Int).Sub(q, big.NewInt(1)).TrailingZeroBits())
}

// the package's root of unity of order 2^s, `-` when Generator refuses 2^s
func c10root(f c10field) (int, string) {
	s := c10adicity(f.Q())
	if s > 62 {
		return s, "-"
	}
	if r, ok := f.Gen(uint64(1) << s); ok {
		return s, hexBig(r)
	}
	return s, "-"
}

func execC10gen(a []string) string {
	if len(a) != 4 {
		return "bad-op"
	}
	f, ok := c10fields[a[0]]
	if !ok {
		return "bad-op"
	}
	m, err := strconv.ParseUint(a[3], 16, 64)
	_, root := c10root(f)
	if err != nil || parseBig(a[1]).Cmp(f.Q()) != 0 || a[2] != root {
		return "bad-op"
	}
	gen, ok := f.Gen(m)
	if !ok {
		return "err"
	}
	k := 0
	if m > 1 {
		k = bits.Len64(m - 1)
	}
	q := f.Q()
	half, full := new(big.Int).Set(gen), new(big.Int).Set(gen)
	for i := 0; i < k; i++ {
		half.Set(full)
		full.Mul(full, full).Mod(full, q)
	}
	ord := full.Cmp(new(big.Int).Mod(big.NewInt(1), q)) == 0
	if k > 0 {
		ord = ord && half.Cmp(new(big.Int).Sub(q, big.NewInt(1))) == 0
	}
	return hexBig(gen) + " " + boolStr(ord)
}

// Read-only view of a byte slice (no ReadByte, no WriteTo, no Seek)
type c10Plain struct {
	data []byte
	off  int
	max  int // most bytes per Read (0 = no limit)
}

func (r *c10Plain) Read(p []byte) (int, error) {
	if r.off >= len(r.data) {
		return 0, io.EOF
	}
	if r.max > 0 && len(p) > r.max {
		p = p[:r.max]
	}
	n := copy(p, r.data[r.off:])
	r.off += n
	return n, nil
}

// Read-only view of another reader that counts what its user took
type c10Count struct {
	r io.Reader
	n int
}

func (c *c10Count) Read(p []byte) (int, error) {
	n, err := c.r.Read(p)
	c.n += n
	return n, err
}

var c10ReaderKinds = []string{"bytes", "buffer", "bufio", "plain", "one", "chunk", "pipe", "file"}

// reader of a kind over data, its position (bytes taken from it by its user), and a release function
func newC10Reader(kind string, data []byte) (io.Reader, func() int, func()) {
	nop := func() {}
	switch kind {
	case "bytes":
		r := bytes.NewReader(data)
		return r, func() int { return len(data) - r.Len() }, nop
	case "buffer":
		r := bytes.NewBuffer(append([]byte{}, data...))
		return r, func() int { return len(data) - r.Len() }, nop
	case "bufio":
		u := &c10Plain{data: data}
		r := bufio.NewReaderSize(u, 64)
		return r, func() int { return u.off - r.Buffered() }, nop
	case "one", "chunk":
		r := &c10Plain{data: data, max: 1}
		if kind == "chunk" {
			r.max = 5
		}
		return r, func() int { return r.off }, nop
	case "pipe":
		pr, pw := io.Pipe()
		go func() {
			for i := 0; i < len(data); i += 3 {
				if _, err := pw.Write(data[i:min(i+3, len(data))]); err != nil {
					return
				}
			}
			pw.Close()
		}()
		c := &c10Count{r: pr}
		return c, func() int { return c.n }, func() { pr.Close() }
	case "file":
		fl, err := os.CreateTemp("", "gvc10-*")
		if err != nil {
			return nil, nil, nop
		}
		os.Remove(fl.Name())
		if _, err := fl.Write(data); err != nil {
			fl.Close()
			return nil, nil, nop
		}
		if _, err := fl.Seek(0, io.SeekStart); err != nil {
			fl.Close()
			return nil, nil, nop
		}
		return fl, func() int { p, _ := fl.Seek(0, io.SeekCurrent); return int(p) }, func() { fl.Close() }
	case "plain":
		r := &c10Plain{data: data}
		return r, func() int { return r.off }, nop
	}
	return nil, nil, nop
}

func (p *c10pkg[E, P, D]) Stream(rdr string, cfgs []c10cfg, trailer []byte) string {
	var b bytes.Buffer
	for i, c := range cfgs {
		before := b.Len()
		nw, err := p.writeTo(p.domain(c), &b)
		if err != nil || int(nw) != b.Len()-before {
			return fmt.Sprintf("err:write:%d", i)
		}
	}
	b.Write(trailer)
	r, pos, done := newC10Reader(rdr, b.Bytes())
	if r == nil {
		return "bad-op"
	}
	defer done()
	out := make([]string, 0, len(cfgs)+2)
	for i := range cfgs {
		d, n, err := p.readFrom(r)
		if err != nil {
			return fmt.Sprintf("err:read:%d:%s", i, strings.ReplaceAll(err.Error(), " ", "_"))
		}
		card, f := p.fields(d)
		out = append(out, fmt.Sprintf("%x:%x:%x:%s:%s:%s:%s:%s:%s", n, pos(), card, hexBig(p.big(f[0])), hexBig(p.big(f[1])), hexBig(p.big(f[2])),
			hexBig(p.big(f[3])), hexBig(p.big(f[4])), boolStr(p.precompFlag(d))))
	}
	rest, _ := io.ReadAll(r)
	return join(append(out, fmt.Sprintf("%x", len(rest)), boolStr(bytes.Equal(rest, trailer))))
}

func c10Trailer(n int) []byte {
	t := make([]byte, n)
	for i := range t {
		t[i] = byte(i*37 + 11)
	}
	return t
}

func execC10stream(a []string) string {
	if len(a) != 6 {
		return "bad-op"
	}
	f, ok := c10fields[a[0]]
	if !ok {
		return "bad-op"
	}
	nb, ok1 := c10hexInt(a[2])
	tl, ok2 := c10hexInt(a[5])
	known := false
	for _, k := range c10ReaderKinds {
		known = known || k == a[3]
	}
	if !ok1 || !ok2 || !known || tl > 1<<16 || nb != f.NBytes() || parseBig(a[1]).Cmp(f.Q()) != 0 {
		return "bad-op"
	}
	var cfgs []c10cfg
	for _, spec := range strings.Split(a[4], ",") {
		t := strings.Split(spec, ":")
		if len(t) != 5 {
			return "bad-op"
		}
		logn, okl := c10hexInt(t[0])
		if !okl || logn > 12 || (t[2] != "0" && t[2] != "1") || (t[4] != "0" && t[4] != "1") {
			return "bad-op"
		}
		om, okw := new(big.Int).SetString(t[1], 16)
		gs, okg := new(big.Int).SetString(t[3], 16)
		if !okw || !okg || om.Cmp(f.Omega(logn)) != 0 || gs.Sign() <= 0 || gs.Cmp(f.Q()) >= 0 {
			return "bad-op"
		}
		c := c10cfg{logn: logn, precomp: t[2] == "1"}
		if t[4] == "1" {
			c.shift = gs
		} else if gs.Cmp(f.MulGen()) != 0 {
			return "bad-op"
		}
		cfgs = append(cfgs, c)
	}
	if len(cfgs) == 0 || len(cfgs) > 8 {
		return "bad-op"
	}
	return f.Stream(a[3], cfgs, c10Trailer(tl))
}

// (d') Generator(m) at every log-size 0 … s+1 (s = v2(q−1)): m = 2^k, 2^k ± 1 and a random m inside (2^(k−1), 2^k)
func genC10gen(g *gen) {
	for _, name := range c10order {
		f := c10fields[name]
		s, root := c10root(f)
		seen := map[uint64]bool{}
		emit := func(m uint64) {
			if !seen[m] {
				seen[m] = true
				g.emit("C10 gen %s %s %s %x", name, hexBig(f.Q()), root, m)
			}
		}
		emit(0)
		for k := 0; k <= s+1 && k < 64; k++ {
			p := uint64(1) << k
			emit(p - 1)
			emit(p)
			emit(p + 1)
			if k >= 2 {
				emit(p/2 + 1 + g.rng.u64()%(p/2-1))
			}
		}
		emit(uint64(1) << 63)
		emit(uint64(1)<<63 + 1)
		emit(^uint64(0))
		emit(g.rng.u64())
	}
}

// (e''') several domains and a trailer on ONE stream, read back by successive ReadFrom calls through every reader kind
func genC10stream(g *gen) {
	for _, name := range c10order {
		f := c10fields[name]
		q := f.Q()
		spec := func(logn int, precomp, custom bool) string {
			gs, cs := f.MulGen(), "0"
			if custom {
				gs, cs = g.rng.bigBelow(q), "1"
				if gs.Sign() == 0 {
					gs.SetInt64(1)
				}
			}
			return fmt.Sprintf("%x:%s:%s:%s:%s", logn, hexBig(f.Omega(logn)), boolStr(precomp), hexBig(gs), cs)
		}
		for _, rdr := range c10ReaderKinds {
			// the four classes default / custom shift × with / without precompute, in a random order, plus random further domains
			var specs []string
			for i, st, step := 0, g.rng.intn(4), 1+2*g.rng.intn(2); i < 4; i++ {
				k := (st + i*step) % 4
				specs = append(specs, spec(g.rng.intn(7), k&1 == 1, k&2 == 2))
			}
			for i := g.rng.intn(3); i > 0; i-- {
				specs = append(specs, spec(g.rng.intn(7), g.rng.coin(), g.rng.coin()))
			}
			g.emit("C10 stream %s %s %x %s %s %x", name, hexBig(q), f.NBytes(), rdr, strings.Join(specs, ","), []int{0, 1, 5, 64, 4096 + g.rng.intn(5000)}[g.rng.intn(5)])
			// two domains, no trailer / long trailer
			g.emit("C10 stream %s %s %x %s %s,%s %x", name, hexBig(q), f.NBytes(), rdr, spec(g.rng.intn(5), g.rng.coin(), g.rng.coin()),
				spec(g.rng.intn(5), g.rng.coin(), g.rng.coin()), []int{0, 9000}[g.rng.intn(2)])
		}
		if g.thorough() {
			for i := 0; i < 40; i++ {
				var specs []string
				for j := 1 + g.rng.intn(8); j > 0; j-- {
					specs = append(specs, spec(g.rng.intn(10), g.rng.coin(), g.rng.coin()))
				}
				g.emit("C10 stream %s %s %x %s %s %x", name, hexBig(q), f.NBytes(), c10ReaderKinds[g.rng.intn(len(c10ReaderKinds))], strings.Join(specs, ","), g.rng.intn(10000))
			}
		}
	}
	g.emit("C10 stream bn254 1 20 plain 0:1:1:5:0 0")
	g.emit("C10 stream bn254")
	g.emit("C10 gen koalabear 7f000001 - zz")
}
