package main

// C17 (hash-based half) – FRI proof of proximity and openings (ecc/<curve>/fr/fri, same generated code for 7 curves).
//
// op lines (every verdict is COMPUTED by the Lean model from the data in the line, SHA-256 and Fiat–Shamir included):
//
//	C17 fri <kind> <curve> <size> <ginv> <eval> <step> <step> …
//	    step = <mp>/<mp>         mp = <root>:<numLeaves>:<ps>,<ps>,…   (hex bytes, "-" = empty, "_" = no proof-set entry)
//	C17 friopen <kind> <curve> <size> <position> <claimed> <mp> <len0>:<root0>/<len1>:<root1>
//	    (the last token is what VerifyOpening reads of the proof of proximity: Rounds[0].Interactions[0][k])
//	C17 friprove <curve> <size> <seed>      honest prover + verifier on a seeded random polynomial of degree < size;
//	    the model answers `accept` for every size ≥ 1 from the completeness theorem (ASSERTED, not computed).
//
// numLeaves / merkleRoot / index are unexported fields of the Go proof objects; the executor rebuilds the proof
// objects with reflect+unsafe so that the Go verifier sees exactly the object described by the line.

import (
	"crypto/sha256"
	"fmt"
	"math/big"
	"strconv"
	"strings"

	"github.com/consensys/gnark-crypto/accumulator/merkletree"
	fiatshamir "github.com/consensys/gnark-crypto/fiat-shamir"
)

type friMP struct {
	root []byte
	ps   [][]byte
	nl   uint64
}
type friPoP struct {
	eval  *big.Int
	steps [][2]friMP
}
type friOpening struct {
	root      []byte
	ps        [][]byte
	nl, index uint64
	claimed   *big.Int
}
type friAPI struct {
	name          string
	frBytes       int
	modulus       *big.Int
	build         func(size uint64, p []*big.Int) (friPoP, error)
	verify        func(size uint64, pp friPoP) error
	open          func(size uint64, p []*big.Int, pos uint64) (friOpening, error)
	verifyOpening func(size uint64, pos uint64, o friOpening, pp friPoP) error
	ginv          func(size uint64) *big.Int
}

var friCurves = map[string]*friAPI{}
var friCurveOrder = []string{"bn254", "bls12_377", "bls12_381", "bls24_315", "bls24_317", "bw6_633", "bw6_761"}

func cloneBytes(b []byte) []byte {
	if b == nil {
		return nil
	}
	return append([]byte{}, b...)
}
func (m friMP) clone() friMP {
	r := friMP{root: cloneBytes(m.root), nl: m.nl}
	if m.ps != nil {
		r.ps = make([][]byte, len(m.ps))
		for i := range m.ps {
			r.ps[i] = cloneBytes(m.ps[i])
		}
	}
	return r
}
func (p friPoP) clone() friPoP {
	r := friPoP{eval: new(big.Int).Set(p.eval), steps: make([][2]friMP, len(p.steps))}
	for i := range p.steps {
		r.steps[i] = [2]friMP{p.steps[i][0].clone(), p.steps[i][1].clone()}
	}
	return r
}
func (o friOpening) clone() friOpening {
	m := friMP{o.root, o.ps, o.nl}.clone()
	return friOpening{m.root, m.ps, o.nl, o.index, new(big.Int).Set(o.claimed)}
}

func mpHex(m friMP) string {
	ps := "_"
	if len(m.ps) > 0 {
		s := make([]string, len(m.ps))
		for i := range m.ps {
			s[i] = hexBytes(m.ps[i])
		}
		ps = strings.Join(s, ",")
	}
	return hexBytes(m.root) + ":" + strconv.FormatUint(m.nl, 16) + ":" + ps
}
func mpParse(s string) (friMP, bool) {
	f := strings.Split(s, ":")
	if len(f) != 3 {
		return friMP{}, false
	}
	var m friMP
	m.root = parseBytes(f[0])
	if m.root == nil {
		return m, false
	}
	nl, err := strconv.ParseUint(f[1], 16, 64)
	if err != nil {
		return m, false
	}
	m.nl = nl
	m.ps = [][]byte{}
	if f[2] != "_" {
		for _, e := range strings.Split(f[2], ",") {
			b := parseBytes(e)
			if b == nil {
				return m, false
			}
			m.ps = append(m.ps, b)
		}
	}
	return m, true
}

func friLine(kind, curve string, size uint64, api *friAPI, pp friPoP) string {
	st := make([]string, len(pp.steps))
	for i := range pp.steps {
		st[i] = mpHex(pp.steps[i][0]) + "/" + mpHex(pp.steps[i][1])
	}
	return fmt.Sprintf("C17 fri %s %s %x %s %s %s", kind, curve, size, hexBig(api.ginv(size)), hexBig(pp.eval), strings.Join(st, " "))
}

func execFri(a []string) string {
	if len(a) < 5 {
		return "bad-op"
	}
	api, ok := friCurves[a[1]]
	if !ok {
		return "bad-op"
	}
	size, err := strconv.ParseUint(a[2], 16, 32)
	if err != nil || size < 2 || size > 1<<16 {
		return "bad-op"
	}
	if parseBig(a[3]).Cmp(api.ginv(size)) != 0 {
		return "bad-op"
	}
	pp := friPoP{eval: parseBig(a[4])}
	if pp.eval.Cmp(api.modulus) >= 0 {
		return "bad-op"
	}
	for _, s := range a[5:] {
		f := strings.Split(s, "/")
		if len(f) != 2 {
			return "bad-op"
		}
		m0, ok0 := mpParse(f[0])
		m1, ok1 := mpParse(f[1])
		if !ok0 || !ok1 {
			return "bad-op"
		}
		pp.steps = append(pp.steps, [2]friMP{m0, m1})
	}
	if err := api.verify(size, pp); err != nil {
		return "reject"
	}
	return "accept"
}

func friOpenLine(kind, curve string, size, pos uint64, o friOpening, pp friPoP) string {
	i0 := pp.steps[0]
	return fmt.Sprintf("C17 friopen %s %s %x %x %s %s %x:%s/%x:%s", kind, curve, size, pos, hexBig(o.claimed),
		mpHex(friMP{o.root, o.ps, o.nl}), len(i0[0].ps), hexBytes(i0[0].root), len(i0[1].ps), hexBytes(i0[1].root))
}

func execFriOpen(a []string) string {
	if len(a) != 7 {
		return "bad-op"
	}
	api, ok := friCurves[a[1]]
	if !ok {
		return "bad-op"
	}
	size, err := strconv.ParseUint(a[2], 16, 32)
	if err != nil || size < 2 || size > 1<<16 {
		return "bad-op"
	}
	pos, err := strconv.ParseUint(a[3], 16, 62)
	if err != nil {
		return "bad-op"
	}
	o := friOpening{claimed: parseBig(a[4])}
	if o.claimed.Cmp(api.modulus) >= 0 {
		return "bad-op"
	}
	m, ok := mpParse(a[5])
	if !ok {
		return "bad-op"
	}
	o.root, o.ps, o.nl = m.root, m.ps, m.nl
	f := strings.Split(a[6], "/")
	if len(f) != 2 {
		return "bad-op"
	}
	var pp friPoP
	pp.eval = new(big.Int)
	var st [2]friMP
	for k := 0; k < 2; k++ {
		g := strings.Split(f[k], ":")
		if len(g) != 2 {
			return "bad-op"
		}
		n, err := strconv.ParseUint(g[0], 16, 16)
		if err != nil {
			return "bad-op"
		}
		st[k].root = parseBytes(g[1])
		if st[k].root == nil {
			return "bad-op"
		}
		st[k].ps = make([][]byte, n)
	}
	pp.steps = [][2]friMP{st}
	if err := api.verifyOpening(size, pos, o, pp); err != nil {
		return "reject"
	}
	return "accept"
}

func friRandPoly(r *rng, api *friAPI, n int) []*big.Int {
	p := make([]*big.Int, n)
	for i := range p {
		p[i] = r.bigBelow(api.modulus)
	}
	return p
}

func execFriProve(a []string) string {
	if len(a) != 3 {
		return "bad-op"
	}
	api, ok := friCurves[a[0]]
	if !ok {
		return "bad-op"
	}
	size, err := strconv.ParseUint(a[1], 16, 32)
	if err != nil || size < 1 || size > 1<<16 {
		return "bad-op"
	}
	seed, err := strconv.ParseUint(a[2], 16, 64)
	if err != nil {
		return "bad-op"
	}
	r := newRng(seed)
	p := friRandPoly(r, api, int(size))
	pp, err := api.build(size, p)
	if err != nil {
		return "err:build"
	}
	if err := api.verify(size, pp); err != nil {
		return "reject"
	}
	return "accept"
}

// ---------------------------------------------------------------- helpers replicating public hashing conventions

func shaSum(parts ...[]byte) []byte {
	h := sha256.New()
	for _, p := range parts {
		h.Write(p)
	}
	return h.Sum(nil)
}

func nextPow2(n uint64) uint64 {
	r := uint64(1)
	for r < n {
		r <<= 1
	}
	return r
}

func friMarshal(api *friAPI, v *big.Int) []byte {
	b := make([]byte, api.frBytes)
	v.FillBytes(b)
	return b
}

// the challenges the verifier derives from a proof (x_i and the first query position)
func friChallenges(api *friAPI, size uint64, pp friPoP) (xs []*big.Int, pos int, ok bool) {
	nbSteps := 0
	for n := nextPow2(size); n > 1; n >>= 1 {
		nbSteps++
	}
	if len(pp.steps) < nbSteps {
		return nil, 0, false
	}
	names := make([]string, nbSteps+1)
	for i := 0; i < nbSteps; i++ {
		names[i] = fmt.Sprintf("x%d", i)
	}
	names[nbSteps] = "s0"
	fs := fiatshamir.NewTranscript(sha256.New(), names...)
	if fs.Bind(names[0], friMarshal(api, new(big.Int))) != nil {
		return nil, 0, false
	}
	for i := 0; i < nbSteps; i++ {
		if fs.Bind(names[i], pp.steps[i][0].root) != nil {
			return nil, 0, false
		}
		b, err := fs.ComputeChallenge(names[i])
		if err != nil {
			return nil, 0, false
		}
		x := new(big.Int).SetBytes(b)
		xs = append(xs, x.Mod(x, api.modulus))
	}
	if fs.Bind(names[nbSteps], friMarshal(api, pp.eval)) != nil {
		return nil, 0, false
	}
	b, err := fs.ComputeChallenge(names[nbSteps])
	if err != nil {
		return nil, 0, false
	}
	card := new(big.Int).SetUint64(8 * nextPow2(size))
	bp := new(big.Int).SetBytes(b)
	bp.Mod(bp, card)
	return xs, int(bp.Uint64()), true
}

func friConvert(i, n int) int {
	if i < n/2 {
		return 2 * i
	}
	return n - 2*(n-(i+1)) - 1
}
func friPositions(pos, card, nbSteps int) []int {
	s := card / 2
	res := make([]int, nbSteps)
	res[0] = pos
	for i := 1; i < nbSteps; i++ {
		res[i] = friConvert(res[i-1]/2, s)
		s /= 2
	}
	return res
}

// CONSISTENT FORGERY under a prover-supplied structural parameter: port of buildProofOfProximitySingleRound (big.Int
// arithmetic, the library's Merkle tree and transcript) in which the NUMBER OF LEAVES of the oracle of every step is a
// parameter: the sorted evaluations of step i are followed by pad[i] > 0 arbitrary extra leaves (or cut by −pad[i]), the
// tree, its root, the folding challenges derived from the roots, the folded polynomials, the final evaluation, the query
// positions and the Merkle paths are all derived honestly for those trees. numLeaves of both entries of a step is the size
// of the tree actually built. With pad = 0 everywhere the result is the library's proof (checked by the generator).
// ok = false: a queried leaf was cut off.
func friConsist(api *friAPI, size uint64, p []*big.Int, pad []int, seed *big.Int) (friPoP, bool) {
	r := api.modulus
	card := int(8 * nextPow2(size))
	nbSteps := 0
	for n := nextPow2(size); n > 1; n >>= 1 {
		nbSteps++
	}
	if nbSteps == 0 || len(pad) != nbSteps {
		return friPoP{}, false
	}
	ginv := api.ginv(size)
	gen := new(big.Int).ModInverse(ginv, r)
	mul := func(a, b *big.Int) *big.Int { t := new(big.Int).Mul(a, b); return t.Mod(t, r) }
	cur := make([]*big.Int, card)
	x := big.NewInt(1)
	for j := 0; j < card; j++ {
		acc := new(big.Int)
		for k := len(p) - 1; k >= 0; k-- {
			acc = mul(acc, x)
			acc.Add(acc, p[k]).Mod(acc, r)
		}
		cur[j] = acc
		x = mul(x, gen)
	}
	names := make([]string, nbSteps+1)
	for i := 0; i < nbSteps; i++ {
		names[i] = fmt.Sprintf("x%d", i)
	}
	names[nbSteps] = "s0"
	fs := fiatshamir.NewTranscript(sha256.New(), names...)
	if fs.Bind(names[0], friMarshal(api, new(big.Int))) != nil {
		return friPoP{}, false
	}
	twoInv := new(big.Int).Add(r, big.NewInt(1))
	twoInv.Rsh(twoInv, 1)
	leaves := make([][][]byte, nbSteps)
	sorted := make([][]*big.Int, nbSteps)
	gi := new(big.Int).Set(ginv)
	for i := 0; i < nbSteps; i++ {
		n := len(cur) / 2
		q := make([]*big.Int, len(cur))
		for k := 0; k < n; k++ {
			q[2*k], q[2*k+1] = cur[k], cur[k+n]
		}
		sorted[i] = q
		for k := range q {
			leaves[i] = append(leaves[i], friMarshal(api, q[k]))
		}
		for k := 0; k < pad[i]; k++ {
			e := new(big.Int).Add(seed, big.NewInt(int64(1000*i+k)))
			leaves[i] = append(leaves[i], friMarshal(api, e.Mod(e, r)))
		}
		if pad[i] < 0 {
			if -pad[i] >= len(leaves[i])-1 {
				return friPoP{}, false
			}
			leaves[i] = leaves[i][:len(leaves[i])+pad[i]]
		}
		t := merkletree.New(sha256.New())
		for _, l := range leaves[i] {
			t.Push(l)
		}
		if fs.Bind(names[i], t.Root()) != nil {
			return friPoP{}, false
		}
		b, err := fs.ComputeChallenge(names[i])
		if err != nil {
			return friPoP{}, false
		}
		xi := new(big.Int).SetBytes(b)
		xi.Mod(xi, r)
		next := make([]*big.Int, n)
		acc := big.NewInt(1)
		for k := 0; k < n; k++ {
			p1 := new(big.Int).Add(q[2*k], q[2*k+1])
			p2 := new(big.Int).Sub(q[2*k], q[2*k+1])
			p2.Mod(p2, r)
			v := mul(mul(p2, acc), xi)
			v.Add(v, p1)
			next[k] = mul(v, twoInv)
			acc = mul(acc, gi)
		}
		cur = next
		gi = mul(gi, gi)
	}
	var res friPoP
	res.eval = cur[0]
	if fs.Bind(names[nbSteps], friMarshal(api, res.eval)) != nil {
		return friPoP{}, false
	}
	b, err := fs.ComputeChallenge(names[nbSteps])
	if err != nil {
		return friPoP{}, false
	}
	bp := new(big.Int).SetBytes(b)
	bp.Mod(bp, big.NewInt(int64(card)))
	si := friPositions(int(bp.Uint64()), card, nbSteps)
	res.steps = make([][2]friMP, nbSteps)
	for i := 0; i < nbSteps; i++ {
		if si[i]|1 >= len(leaves[i]) {
			return friPoP{}, false
		}
		t := merkletree.New(sha256.New())
		if t.SetIndex(uint64(si[i])) != nil {
			return friPoP{}, false
		}
		for _, l := range leaves[i] {
			t.Push(l)
		}
		mr, ps, _, nl := t.Prove()
		c := si[i] % 2
		res.steps[i][c] = friMP{root: mr, ps: ps, nl: nl}
		res.steps[i][1-c] = friMP{root: cloneBytes(mr), ps: [][]byte{friMarshal(api, sorted[i][si[i]+1-2*c]), shaSum(ps[0])}, nl: nl}
	}
	return res, true
}

// ---------------------------------------------------------------- generation

func genFri(g *gen) {
	sizesQuick := []uint64{2, 3, 4, 8}
	sizesThorough := []uint64{2, 3, 4, 5, 8, 13, 16, 32, 64}
	for ci, curve := range friCurveOrder {
		api := friCurves[curve]
		if api == nil {
			continue
		}
		sizes := sizesQuick
		if g.thorough() {
			sizes = sizesThorough
		} else if ci > 0 {
			sizes = []uint64{2, 4} // bn254 first and widest; the other curves run the same generated code
		}
		for _, size := range append([]uint64{1}, sizes...) {
			g.emit("C17 friprove %s %x %x", curve, size, g.rng.u64())
		}
		for _, size := range sizes {
			reps := g.budget(1, 3)
			for rep := 0; rep < reps; rep++ {
				g.friCases(curve, api, size, rep)
			}
		}
	}
}

func (g *gen) friCases(curve string, api *friAPI, size uint64, rep int) {
	card := 8 * nextPow2(size)
	nbSteps := 0
	for n := nextPow2(size); n > 1; n >>= 1 {
		nbSteps++
	}
	deg := int(size)
	if rep == 1 {
		deg = 1 + g.rng.intn(int(size)) // shorter polynomial
	}
	p := friRandPoly(g.rng, api, deg)
	if rep == 2 {
		for i := range p {
			p[i].SetUint64(0)
		}
		p[0].SetUint64(7) // constant
	}
	p2 := friRandPoly(g.rng, api, int(size))
	h, err := api.build(size, p)
	h2, err2 := api.build(size, p2)
	if err != nil || err2 != nil {
		return
	}
	emit := func(kind string, pp friPoP) { g.emit("%s", friLine(kind, curve, size, api, pp)) }
	emit("honest", h)
	// CONSISTENT FORGERIES under the prover-supplied NUMBER OF LEAVES of each oracle (friConsist): the whole proof re-derived
	// for trees that are larger (one extra leaf, twice as many) or smaller (last leaf cut, half) than the verifier's domain,
	// at every single step and at all steps at once. The specification demands numLeaves = |domain| / 2^i at step i.
	{
		zero := make([]int, nbSteps)
		if c0, ok := friConsist(api, size, p, zero, big.NewInt(1)); !ok || friLine("honest", curve, size, api, c0) != friLine("honest", curve, size, api, h) {
			panic("friConsist: the port differs from BuildProofOfProximity")
		}
		seed := g.rng.bigBelow(api.modulus)
		try := func(kind string, pad []int) {
			if c, ok := friConsist(api, size, p, pad, seed); ok {
				emit("consist_nl_"+kind, c)
			}
		}
		try("honest", zero)
		all := func(f func(n int) int) []int {
			pd := make([]int, nbSteps)
			for i := range pd {
				pd[i] = f(int(card) >> uint(i))
			}
			return pd
		}
		try("all_double", all(func(n int) int { return n }))
		try("all_plus1", all(func(n int) int { return 1 }))
		try("all_minus1", all(func(n int) int { return -1 }))
		for i := 0; i < nbSteps; i++ {
			n := int(card) >> uint(i)
			for _, v := range []struct {
				k string
				d int
			}{{"double", n}, {"plus1", 1}, {"plus3", 3}, {"minus1", -1}, {"half", -n / 2}} {
				pd := make([]int, nbSteps)
				pd[i] = v.d
				try(fmt.Sprintf("s%d_%s", i, v.k), pd)
			}
		}
	}
	one := big.NewInt(1)
	addOne := func(b []byte) []byte {
		v := new(big.Int).SetBytes(b)
		v.Add(v, one).Mod(v, api.modulus)
		return friMarshal(api, v)
	}

	// evaluation
	d := h.clone()
	d.eval = g.rng.bigBelow(api.modulus)
	emit("eval_random", d)
	d = h.clone()
	d.eval.Add(d.eval, one).Mod(d.eval, api.modulus)
	emit("eval_plus1", d)
	d = h.clone()
	d.eval = new(big.Int)
	emit("eval_zero", d)
	d = h.clone()
	d.eval = new(big.Int).Set(h2.eval)
	emit("eval_from_other", d)

	for i := 0; i < nbSteps; i++ {
		tag := func(s string, j int) string { return fmt.Sprintf("%s_s%d_e%d", s, i, j) }
		_ = tag
		for j := 0; j < 2; j++ {
			kind := func(s string) string {
				if len(h.steps[i][j].ps) > 2 {
					return s + "_full"
				}
				return s + "_nbr"
			}
			d = h.clone()
			d.steps[i][j].root[g.rng.intn(32)] ^= 1 << uint(g.rng.intn(8))
			emit(kind("root_changed"), d)
			d = h.clone()
			d.steps[i][j].root = cloneBytes(h2.steps[i][j].root)
			emit(kind("root_from_other"), d)
			d = h.clone()
			d.steps[i][j].ps[0] = addOne(d.steps[i][j].ps[0])
			emit(kind("leaf_plus1"), d)
			d = h.clone()
			d.steps[i][j].ps[0] = friMarshal(api, g.rng.bigBelow(api.modulus))
			emit(kind("leaf_random"), d)
			d = h.clone()
			d.steps[i][j].ps[0] = friMarshal(api, new(big.Int))
			emit(kind("leaf_zero"), d)
			// non-canonical encoding of the same field element (value + r): different bytes, same SetBytes value
			d = h.clone()
			v := new(big.Int).SetBytes(d.steps[i][j].ps[0])
			v.Add(v, api.modulus)
			if v.BitLen() <= 8*api.frBytes {
				d.steps[i][j].ps[0] = friMarshal(api, v)
				emit(kind("leaf_noncanonical"), d)
			}
			k := 1 + g.rng.intn(len(h.steps[i][j].ps)-1)
			d = h.clone()
			d.steps[i][j].ps[k][g.rng.intn(32)] ^= 1 << uint(g.rng.intn(8))
			emit(kind("sibling_changed"), d)
			d = h.clone()
			d.steps[i][j].ps = d.steps[i][j].ps[:len(d.steps[i][j].ps)-1]
			emit(kind("proofset_truncated"), d)
			d = h.clone()
			d.steps[i][j].ps = append(d.steps[i][j].ps, shaSum([]byte{1}))
			emit(kind("proofset_extended"), d)
			d = h.clone()
			d.steps[i][j].ps = [][]byte{}
			emit(kind("proofset_empty"), d)
			d = h.clone()
			d.steps[i][j].nl = d.steps[i][j].nl * 2
			emit(kind("numleaves_double"), d)
			d = h.clone()
			d.steps[i][j].nl = d.steps[i][j].nl / 2
			emit(kind("numleaves_half"), d)
			d = h.clone()
			d.steps[i][j].nl = 0
			emit(kind("numleaves_zero"), d)
			d = h.clone()
			d.steps[i][j] = h2.steps[i][j].clone()
			emit(kind("entry_from_other"), d)
		}
		d = h.clone()
		d.steps[i][0], d.steps[i][1] = d.steps[i][1], d.steps[i][0]
		emit("entries_swapped", d)
		d = h.clone()
		d.steps[i] = [2]friMP{h2.steps[i][0].clone(), h2.steps[i][1].clone()}
		emit("step_from_other", d)
		if i+1 < nbSteps {
			d = h.clone()
			d.steps[i], d.steps[i+1] = d.steps[i+1], d.steps[i]
			emit("steps_swapped", d)
		}
	}
	d = h.clone()
	d.steps = d.steps[:len(d.steps)-1]
	emit("steps_drop_last", d)
	d = h.clone()
	d.steps = append(d.steps, [2]friMP{h.steps[0][0].clone(), h.steps[0][1].clone()})
	emit("steps_extra", d)

	// ---- false statement: a polynomial of degree ≥ size, proof built by the real prover (prover does not check)
	for try := 0; try < 6; try++ {
		hp := friRandPoly(g.rng, api, int(card))
		hd, err := api.build(size, hp)
		if err != nil {
			break
		}
		if try == 0 {
			emit("highdeg_honest_prover", hd)
		}
		// targeted forgery: the neighbour entry of the LAST step carries its own MerkleRoot, never compared with the
		// root of the full entry nor bound in the transcript when it is entry [1]: pick r' such that the last fold
		// equals Evaluation and recompute that entry's root.
		xs, pos, ok := friChallenges(api, size, hd)
		if !ok {
			break
		}
		si := friPositions(pos, int(card), nbSteps)
		last := nbSteps - 1
		if si[last]%2 != 0 {
			continue // the neighbour would be entry [0], whose root feeds the challenge
		}
		q := api.modulus
		full := hd.steps[last][0]
		l := new(big.Int).SetBytes(full.ps[0])
		l.Mod(l, q)
		// ginv_last^(si/2)
		gi := new(big.Int).Set(api.ginv(size))
		for k := 0; k < last; k++ {
			gi.Mul(gi, gi).Mod(gi, q)
		}
		gi.Exp(gi, big.NewInt(int64(si[last]/2)), q)
		xg := new(big.Int).Mul(xs[last], gi)
		xg.Mod(xg, q)
		// 2E = l(1+xg) + r'(1−xg)
		den := new(big.Int).Sub(big.NewInt(1), xg)
		den.Mod(den, q)
		if den.Sign() == 0 {
			continue
		}
		num := new(big.Int).Add(big.NewInt(1), xg)
		num.Mul(num, l).Neg(num).Add(num, new(big.Int).Lsh(hd.eval, 1)).Mod(num, q)
		rp := new(big.Int).ModInverse(den, q)
		rp.Mul(rp, num).Mod(rp, q)
		f := hd.clone()
		leafN := friMarshal(api, rp)
		// root' : leaf at index si+1 (odd) : node = H(H(l) ‖ H(r')) then the rest of the full path
		cur := shaSum(shaSum(full.ps[0]), shaSum(leafN))
		idx := si[last] / 2
		for k := 2; k < len(full.ps); k++ {
			if idx%2 == 0 {
				cur = shaSum(cur, full.ps[k])
			} else {
				cur = shaSum(full.ps[k], cur)
			}
			idx /= 2
		}
		f.steps[last][1] = friMP{root: cur, ps: [][]byte{leafN, shaSum(full.ps[0])}, nl: full.nl}
		emit("forge_highdeg_neighbor_root", f)
		break
	}

	// ---- openings
	nbPos := g.budget(3, 8)
	for t := 0; t < nbPos; t++ {
		pos := uint64(g.rng.intn(int(card)))
		switch t {
		case 0:
			pos = 0
		case 1:
			pos = card - 1
		case 2:
			pos = card / 2
		}
		o, err := api.open(size, p, pos)
		if err != nil {
			continue
		}
		o2, err := api.open(size, p2, pos)
		if err != nil {
			continue
		}
		oe := func(kind string, ps uint64, op friOpening, pp friPoP) {
			g.emit("%s", friOpenLine(kind, curve, size, ps, op, pp))
		}
		oe("honest", pos, o, h)
		e := o.clone()
		e.claimed.Add(e.claimed, one).Mod(e.claimed, api.modulus)
		oe("claimed_plus1", pos, e, h)
		e = o.clone()
		e.claimed = g.rng.bigBelow(api.modulus)
		oe("claimed_random", pos, e, h)
		e = o.clone()
		e.claimed = new(big.Int).Set(o2.claimed)
		oe("claimed_from_other", pos, e, h)
		e = o.clone()
		e.ps[0] = addOne(e.ps[0])
		oe("leaf_plus1", pos, e, h)
		e = o.clone()
		e.ps[0] = addOne(e.ps[0])
		e.claimed.Add(e.claimed, one).Mod(e.claimed, api.modulus)
		oe("leaf_and_claimed_plus1", pos, e, h)
		e = o.clone()
		k := 1 + g.rng.intn(len(e.ps)-1)
		e.ps[k][g.rng.intn(32)] ^= 0x10
		oe("sibling_changed", pos, e, h)
		e = o.clone()
		e.ps = e.ps[:len(e.ps)-1]
		oe("proofset_truncated", pos, e, h)
		e = o.clone()
		e.ps = append(e.ps, shaSum([]byte{2}))
		oe("proofset_extended", pos, e, h)
		e = o.clone()
		e.root[3] ^= 4
		oe("root_changed", pos, e, h)
		e = o.clone()
		e.nl *= 2
		oe("numleaves_double", pos, e, h)
		oe("opening_from_other", pos, o2, h)
		oe("pop_from_other", pos, o, h2)
		oe("position_changed", (pos+1+uint64(g.rng.intn(int(card)-1)))%card, o, h)
		oe("position_plus_card", pos+card, o, h)
		oe("position_out_of_range", card+uint64(g.rng.intn(1000)), o, h)
		// pp whose first interaction has the two entries swapped / both short: VerifyOpening picks the root by comparing lengths
		hs := h.clone()
		hs.steps[0][0], hs.steps[0][1] = hs.steps[0][1], hs.steps[0][0]
		oe("pop_entries_swapped", pos, o, hs)
	}
}
