package main

// C13 — per-curve registration: the 23 Hash functions and the 17 (curve, group) adapters (plain static code)

import (
	"math/big"

	bls12377 "github.com/consensys/gnark-crypto/ecc/bls12-377"
	bls12377fp "github.com/consensys/gnark-crypto/ecc/bls12-377/fp"
	bls12377fr "github.com/consensys/gnark-crypto/ecc/bls12-377/fr"
	bls12377h2c "github.com/consensys/gnark-crypto/ecc/bls12-377/hash_to_curve"
	bls12381 "github.com/consensys/gnark-crypto/ecc/bls12-381"
	bls12381fp "github.com/consensys/gnark-crypto/ecc/bls12-381/fp"
	bls12381fr "github.com/consensys/gnark-crypto/ecc/bls12-381/fr"
	bls12381h2c "github.com/consensys/gnark-crypto/ecc/bls12-381/hash_to_curve"
	bls24315 "github.com/consensys/gnark-crypto/ecc/bls24-315"
	bls24315fp "github.com/consensys/gnark-crypto/ecc/bls24-315/fp"
	bls24315fr "github.com/consensys/gnark-crypto/ecc/bls24-315/fr"
	bls24315h2c "github.com/consensys/gnark-crypto/ecc/bls24-315/hash_to_curve"
	bls24317 "github.com/consensys/gnark-crypto/ecc/bls24-317"
	bls24317fp "github.com/consensys/gnark-crypto/ecc/bls24-317/fp"
	bls24317fr "github.com/consensys/gnark-crypto/ecc/bls24-317/fr"
	bls24317h2c "github.com/consensys/gnark-crypto/ecc/bls24-317/hash_to_curve"
	bn254 "github.com/consensys/gnark-crypto/ecc/bn254"
	bn254fp "github.com/consensys/gnark-crypto/ecc/bn254/fp"
	bn254fr "github.com/consensys/gnark-crypto/ecc/bn254/fr"
	bw6633 "github.com/consensys/gnark-crypto/ecc/bw6-633"
	bw6633fp "github.com/consensys/gnark-crypto/ecc/bw6-633/fp"
	bw6633fr "github.com/consensys/gnark-crypto/ecc/bw6-633/fr"
	bw6633h2c "github.com/consensys/gnark-crypto/ecc/bw6-633/hash_to_curve"
	bw6761 "github.com/consensys/gnark-crypto/ecc/bw6-761"
	bw6761fp "github.com/consensys/gnark-crypto/ecc/bw6-761/fp"
	bw6761fr "github.com/consensys/gnark-crypto/ecc/bw6-761/fr"
	bw6761h2c "github.com/consensys/gnark-crypto/ecc/bw6-761/hash_to_curve"
	grumpkin "github.com/consensys/gnark-crypto/ecc/grumpkin"
	grumpkinfp "github.com/consensys/gnark-crypto/ecc/grumpkin/fp"
	grumpkinfr "github.com/consensys/gnark-crypto/ecc/grumpkin/fr"
	secp256k1 "github.com/consensys/gnark-crypto/ecc/secp256k1"
	secp256k1fp "github.com/consensys/gnark-crypto/ecc/secp256k1/fp"
	secp256k1fr "github.com/consensys/gnark-crypto/ecc/secp256k1/fr"
	starkcurve "github.com/consensys/gnark-crypto/ecc/stark-curve"
	starkcurvefp "github.com/consensys/gnark-crypto/ecc/stark-curve/fp"
	starkcurvefr "github.com/consensys/gnark-crypto/ecc/stark-curve/fr"
	"github.com/consensys/gnark-crypto/field/babybear"
	"github.com/consensys/gnark-crypto/field/goldilocks"
	"github.com/consensys/gnark-crypto/field/koalabear"
)

var c13Hash = map[string]func([]byte, []byte, int) ([]*big.Int, error){
	"bn254_fp":       c13H(bn254fp.Hash),
	"bn254_fr":       c13H(bn254fr.Hash),
	"bls12_377_fp":   c13H(bls12377fp.Hash),
	"bls12_377_fr":   c13H(bls12377fr.Hash),
	"bls12_381_fp":   c13H(bls12381fp.Hash),
	"bls12_381_fr":   c13H(bls12381fr.Hash),
	"bls24_315_fp":   c13H(bls24315fp.Hash),
	"bls24_315_fr":   c13H(bls24315fr.Hash),
	"bls24_317_fp":   c13H(bls24317fp.Hash),
	"bls24_317_fr":   c13H(bls24317fr.Hash),
	"bw6_633_fp":     c13H(bw6633fp.Hash),
	"bw6_633_fr":     c13H(bw6633fr.Hash),
	"bw6_761_fp":     c13H(bw6761fp.Hash),
	"bw6_761_fr":     c13H(bw6761fr.Hash),
	"grumpkin_fp":    c13H(grumpkinfp.Hash),
	"grumpkin_fr":    c13H(grumpkinfr.Hash),
	"secp256k1_fp":   c13H(secp256k1fp.Hash),
	"secp256k1_fr":   c13H(secp256k1fr.Hash),
	"stark_curve_fp": c13H(starkcurvefp.Hash),
	"stark_curve_fr": c13H(starkcurvefr.Hash),
	"babybear":       c13H(babybear.Hash),
	"goldilocks":     c13H(goldilocks.Hash),
	"koalabear":      c13H(koalabear.Hash),
}

func init() {
	{
		_, _, g1, g2 := bn254.Generators()
		p, r := bn254fp.Modulus(), bn254fr.Modulus()
		h := c13Hash["bn254_fp"]
		c13Reg("bn254", "g1", p, r, 0, g1, bn254.MapToG1, c13deref(bn254.MapToCurve1), bn254.EncodeToG1, bn254.HashToG1, h, "svdw", []int64{1}, nil, nil, nil)
		c13Reg("bn254", "g2", p, r, 0, g2, bn254.MapToG2, c13deref(bn254.MapToCurve2), bn254.EncodeToG2, bn254.HashToG2, h, "svdw", []int64{1, 0}, nil, nil, nil)
	}
	{
		_, _, g1, g2 := bls12377.Generators()
		p, r := bls12377fp.Modulus(), bls12377fr.Modulus()
		h := c13Hash["bls12_377_fp"]
		c13Reg("bls12-377", "g1", p, r, 0, g1, bls12377.MapToG1, c13deref(bls12377.MapToCurve1), bls12377.EncodeToG1, bls12377.HashToG1, h, "sswu", nil, bls12377h2c.G1SSWUIsogenyZ, bls12377h2c.G1SSWUIsogenyCurveCoefficients, bls12377h2c.G1IsogenyMap)
		c13Reg("bls12-377", "g2", p, r, 0, g2, bls12377.MapToG2, c13deref(bls12377.MapToCurve2), bls12377.EncodeToG2, bls12377.HashToG2, h, "sswu", nil, bls12377h2c.G2SSWUIsogenyZ, bls12377h2c.G2SSWUIsogenyCurveCoefficients, bls12377h2c.G2IsogenyMap)
	}
	{
		_, _, g1, g2 := bls12381.Generators()
		p, r := bls12381fp.Modulus(), bls12381fr.Modulus()
		h := c13Hash["bls12_381_fp"]
		c13Reg("bls12-381", "g1", p, r, 0, g1, bls12381.MapToG1, c13deref(bls12381.MapToCurve1), bls12381.EncodeToG1, bls12381.HashToG1, h, "sswu", nil, bls12381h2c.G1SSWUIsogenyZ, bls12381h2c.G1SSWUIsogenyCurveCoefficients, bls12381h2c.G1IsogenyMap)
		c13Reg("bls12-381", "g2", p, r, 0, g2, bls12381.MapToG2, c13deref(bls12381.MapToCurve2), bls12381.EncodeToG2, bls12381.HashToG2, h, "sswu", nil, bls12381h2c.G2SSWUIsogenyZ, bls12381h2c.G2SSWUIsogenyCurveCoefficients, bls12381h2c.G2IsogenyMap)
	}
	{
		_, _, g1, g2 := bls24315.Generators()
		p, r := bls24315fp.Modulus(), bls24315fr.Modulus()
		h := c13Hash["bls24_315_fp"]
		c13Reg("bls24-315", "g1", p, r, 0, g1, bls24315.MapToG1, c13deref(bls24315.MapToCurve1), bls24315.EncodeToG1, bls24315.HashToG1, h, "sswu", nil, bls24315h2c.G1SSWUIsogenyZ, bls24315h2c.G1SSWUIsogenyCurveCoefficients, bls24315h2c.G1IsogenyMap)
		c13Reg("bls24-315", "g2", p, r, 0, g2, bls24315.MapToG2, bls24315.MapToCurve2, bls24315.EncodeToG2, bls24315.HashToG2, h, "svdw", []int64{1, 0, 1, 0}, nil, nil, nil)
	}
	{
		_, _, g1, g2 := bls24317.Generators()
		p, r := bls24317fp.Modulus(), bls24317fr.Modulus()
		h := c13Hash["bls24_317_fp"]
		c13Reg("bls24-317", "g1", p, r, 0, g1, bls24317.MapToG1, c13deref(bls24317.MapToCurve1), bls24317.EncodeToG1, bls24317.HashToG1, h, "sswu", nil, bls24317h2c.G1SSWUIsogenyZ, bls24317h2c.G1SSWUIsogenyCurveCoefficients, bls24317h2c.G1IsogenyMap)
		c13Reg("bls24-317", "g2", p, r, 0, g2, bls24317.MapToG2, bls24317.MapToCurve2, bls24317.EncodeToG2, bls24317.HashToG2, h, "svdw", []int64{1, 0, 1, 0}, nil, nil, nil)
	}
	{
		_, _, g1, g2 := bw6633.Generators()
		p, r := bw6633fp.Modulus(), bw6633fr.Modulus()
		h := c13Hash["bw6_633_fp"]
		c13Reg("bw6-633", "g1", p, r, 0, g1, bw6633.MapToG1, c13deref(bw6633.MapToCurve1), bw6633.EncodeToG1, bw6633.HashToG1, h, "sswu", nil, bw6633h2c.G1SSWUIsogenyZ, bw6633h2c.G1SSWUIsogenyCurveCoefficients, bw6633h2c.G1IsogenyMap)
		c13Reg("bw6-633", "g2", p, r, 0, g2, bw6633.MapToG2, c13deref(bw6633.MapToCurve2), bw6633.EncodeToG2, bw6633.HashToG2, h, "sswu", nil, bw6633h2c.G2SSWUIsogenyZ, bw6633h2c.G2SSWUIsogenyCurveCoefficients, bw6633h2c.G2IsogenyMap)
	}
	{
		_, _, g1, g2 := bw6761.Generators()
		p, r := bw6761fp.Modulus(), bw6761fr.Modulus()
		h := c13Hash["bw6_761_fp"]
		c13Reg("bw6-761", "g1", p, r, 0, g1, bw6761.MapToG1, c13deref(bw6761.MapToCurve1), bw6761.EncodeToG1, bw6761.HashToG1, h, "sswu", nil, bw6761h2c.G1SSWUIsogenyZ, bw6761h2c.G1SSWUIsogenyCurveCoefficients, bw6761h2c.G1IsogenyMap)
		c13Reg("bw6-761", "g2", p, r, 0, g2, bw6761.MapToG2, c13deref(bw6761.MapToCurve2), bw6761.EncodeToG2, bw6761.HashToG2, h, "sswu", nil, bw6761h2c.G2SSWUIsogenyZ, bw6761h2c.G2SSWUIsogenyCurveCoefficients, bw6761h2c.G2IsogenyMap)
	}
	{
		_, g1 := grumpkin.Generators()
		p, r := grumpkinfp.Modulus(), grumpkinfr.Modulus()
		h := c13Hash["grumpkin_fp"]
		c13Reg("grumpkin", "g1", p, r, 0, g1, grumpkin.MapToG1, c13deref(grumpkin.MapToCurve1), grumpkin.EncodeToG1, grumpkin.HashToG1, h, "svdw", []int64{1}, nil, nil, nil)
	}
	{
		_, g1 := secp256k1.Generators()
		p, r := secp256k1fp.Modulus(), secp256k1fr.Modulus()
		h := c13Hash["secp256k1_fp"]
		c13Reg("secp256k1", "g1", p, r, 0, g1, secp256k1.MapToG1, c13deref(secp256k1.MapToCurve1), secp256k1.EncodeToG1, secp256k1.HashToG1, h, "svdw", []int64{1}, nil, nil, nil)
	}
	{
		_, g1 := starkcurve.Generators()
		p, r := starkcurvefp.Modulus(), starkcurvefr.Modulus()
		h := c13Hash["stark_curve_fp"]
		c13Reg("stark-curve", "g1", p, r, 1, g1, starkcurve.MapToG1, c13deref(starkcurve.MapToCurve1), starkcurve.EncodeToG1, starkcurve.HashToG1, h, "svdw", []int64{1}, nil, nil, nil)
	}
}
