// C02 — point arithmetic vs the textbook group law (correspondence K).
//
// Line formats (all integers lower-case hex, regular i.e. non-Montgomery values; an extension-field coordinate is the
// comma-joined list of its base-field components in tower order):
//
//	C02 sw <group> <k> <p> <beta|-> <nu|-> <a> <b> <r> <op> <coordinates…>
//	C02 te <curve> <q> <a> <d> <op> <coordinates…>
//
// The Go side executes <op> of the real library on operands built through the exported coordinate fields and prints the
// affine value of the result (`x;y` | `inf`; predicates `0/1`). Results in Jacobian / XYZZ / projective / extended
// coordinates are normalised with the harness' own big.Int tower arithmetic (not with the library's conversions).
// The curve parameters on the line are for the Lean model only; they were read from the Go API by the generator
// (p, r, a, b, generator from the packages; the twist coefficient b' = y²-x³ from the G2 generator; the tower
// non-residues by squaring the unit vectors (0,1) resp. (0,0,1,0) with the library's own E2/E4 arithmetic).
package main

import (
	"fmt"
	"math/big"
	"os"
	"os/exec"
	"strings"
	"sync"
	"unsafe"
)

// ------------------------------------------------------------------------------------------------------------------
// Montgomery <-> regular conversion through the generic field adapter

type c02Field interface {
	Q() *big.Int
	Limbs() int
	regToLimbs(v *big.Int, dst []uint64)
	limbsToReg(src []uint64) *big.Int
}

func (f *fieldImpl[T, PT, V, PV]) regToLimbs(v *big.Int, dst []uint64) {
	var z T
	PT(&z).SetBigInt(v)
	copy(dst, unsafe.Slice((*uint64)(unsafe.Pointer(&z)), f.Limbs()))
}
func (f *fieldImpl[T, PT, V, PV]) limbsToReg(src []uint64) *big.Int {
	var z T
	copy(unsafe.Slice((*uint64)(unsafe.Pointer(&z)), f.Limbs()), src)
	var b big.Int
	PT(&z).BigInt(&b)
	return &b
}

func limbsOf[T any](p *T) []uint64 {
	return unsafe.Slice((*uint64)(unsafe.Pointer(p)), int(unsafe.Sizeof(*p))/8)
}

// ------------------------------------------------------------------------------------------------------------------
// big.Int tower arithmetic of the harness (operand construction and normalisation of results)

type coord []*big.Int

type c02tw struct {
	p   *big.Int
	sub *c02tw   // nil: prime field
	nr  coord // non-residue (element of sub): this = sub[w]/(w²-nr)
}

func (t *c02tw) k() int {
	if t.sub == nil {
		return 1
	}
	return 2 * t.sub.k()
}
func (t *c02tw) zero() coord {
	c := make(coord, t.k())
	for i := range c {
		c[i] = new(big.Int)
	}
	return c
}
func (t *c02tw) fromInt(n int64) coord {
	c := t.zero()
	c[0].Mod(big.NewInt(n), t.p)
	return c
}
func (t *c02tw) add(a, b coord) coord {
	c := t.zero()
	for i := range c {
		c[i].Add(a[i], b[i]).Mod(c[i], t.p)
	}
	return c
}
func (t *c02tw) sb(a, b coord) coord {
	c := t.zero()
	for i := range c {
		c[i].Sub(a[i], b[i]).Mod(c[i], t.p)
	}
	return c
}
func (t *c02tw) neg(a coord) coord { return t.sb(t.zero(), a) }
func c02cat(a, b coord) coord      { return append(append(coord{}, a...), b...) }
func (t *c02tw) mul(a, b coord) coord {
	if t.sub == nil {
		v := new(big.Int).Mul(a[0], b[0])
		return coord{v.Mod(v, t.p)}
	}
	s, h := t.sub, t.sub.k()
	a0, a1, b0, b1 := a[:h], a[h:], b[:h], b[h:]
	return c02cat(s.add(s.mul(a0, b0), s.mul(t.nr, s.mul(a1, b1))), s.add(s.mul(a0, b1), s.mul(a1, b0)))
}
func (t *c02tw) sq(a coord) coord { return t.mul(a, a) }
func (t *c02tw) inv(a coord) coord {
	if t.sub == nil {
		if a[0].Sign() == 0 {
			return t.zero()
		}
		return coord{new(big.Int).ModInverse(a[0], t.p)}
	}
	s, h := t.sub, t.sub.k()
	a0, a1 := a[:h], a[h:]
	ni := s.inv(s.sb(s.mul(a0, a0), s.mul(t.nr, s.mul(a1, a1))))
	return c02cat(s.mul(a0, ni), s.neg(s.mul(a1, ni)))
}
func (t *c02tw) isZero(a coord) bool {
	for _, v := range a {
		if v.Sign() != 0 {
			return false
		}
	}
	return true
}
func (t *c02tw) eq(a, b coord) bool { return t.isZero(t.sb(a, b)) }
func (t *c02tw) str(a coord) string {
	s := make([]string, len(a))
	for i := range a {
		s[i] = hexBig(a[i])
	}
	return strings.Join(s, ",")
}
func (t *c02tw) parse(s string) coord {
	parts := strings.Split(s, ",")
	c := t.zero()
	for i := range c {
		if i < len(parts) {
			c[i].Mod(parseBig(parts[i]), t.p)
		}
	}
	return c
}
func (t *c02tw) rnd(r *rng) coord {
	for {
		c := t.zero()
		for i := range c {
			c[i] = r.bigBelow(t.p)
		}
		if !t.isZero(c) {
			return c
		}
	}
}

// affine point of the generator's own textbook arithmetic
type apt struct {
	inf  bool
	x, y coord
}

// ------------------------------------------------------------------------------------------------------------------
// short Weierstrass groups: generic binding

type coordPtr[C any] interface {
	*C
	Square(*C) *C
	Sqrt(*C) *C
	Legendre() int
}
type swAffPtr[A, J any] interface {
	*A
	Add(a, b *A) *A
	Sub(a, b *A) *A
	Neg(a *A) *A
	Equal(a *A) bool
	IsInfinity() bool
	IsOnCurve() bool
	IsInSubGroup() bool
	FromJacobian(*J) *A
}
type swJacPtr[A, J any] interface {
	*J
	AddAssign(*J) *J
	SubAssign(*J) *J
	AddMixed(*A) *J
	DoubleAssign() *J
	Double(*J) *J
	Neg(*J) *J
	Equal(*J) bool
	IsOnCurve() bool
	IsInSubGroup() bool
	FromAffine(*A) *J
}

type swGroup struct {
	name           string
	t              *c02tw
	a, b           coord
	r              *big.Int
	gen            apt
	exec           func(op string, c []coord) string
	sqrt           func(c coord) (coord, bool)
	hasAffDouble   bool
	hasDoubleMixed bool
	hasBatch       bool
	xyzz           func(op string, c []coord) string // set by the verif-tagged shim binding (c02_shim.go), else nil
	xyzzUnsafe     bool
	// helpers shared with the shim binding
	wr func(dst []uint64, c coord)
	rd func(src []uint64) coord
}

var swGroups = map[string]*swGroup{}
var swOrder []string

func (G *swGroup) outAffC(x, y coord) string {
	if G.t.isZero(x) && G.t.isZero(y) {
		return "inf"
	}
	return G.t.str(x) + ";" + G.t.str(y)
}
func (G *swGroup) outJacC(X, Y, Z coord) string {
	t := G.t
	if t.isZero(Z) {
		return "inf"
	}
	zi := t.inv(Z)
	zi2 := t.sq(zi)
	return t.str(t.mul(X, zi2)) + ";" + t.str(t.mul(Y, t.mul(zi2, zi)))
}
func (G *swGroup) outXyzzC(X, Y, ZZ, ZZZ coord) string {
	t := G.t
	if t.isZero(ZZ) {
		return "inf"
	}
	return t.str(t.mul(X, t.inv(ZZ))) + ";" + t.str(t.mul(Y, t.inv(ZZZ)))
}

func regSW[A, J, C any, PA swAffPtr[A, J], PJ swJacPtr[A, J], PC coordPtr[C]](
	name, fpName string, k int, genAff A, _ J, _ C, aCoef, bCoef, r *big.Int,
	affDouble func(p, a *A) *A, doubleMixed func(p *J, a *A) *J, batch func([]J) []A) *swGroup {

	fp := fields[fpName].(c02Field)
	n := fp.Limbs()
	kn := k * n
	var za A
	var zj J
	var zc C
	if int(unsafe.Sizeof(za)) != 2*kn*8 || int(unsafe.Sizeof(zj)) != 3*kn*8 || int(unsafe.Sizeof(zc)) != kn*8 {
		panic("c02: unexpected point layout for " + name)
	}
	G := &swGroup{name: name, r: r, hasAffDouble: affDouble != nil, hasDoubleMixed: doubleMixed != nil, hasBatch: batch != nil}
	wr := func(dst []uint64, c coord) {
		for i := range c {
			fp.regToLimbs(c[i], dst[i*n:(i+1)*n])
		}
	}
	rd := func(src []uint64) coord {
		c := make(coord, k)
		for i := range c {
			c[i] = fp.limbsToReg(src[i*n : (i+1)*n])
		}
		return c
	}
	G.wr, G.rd = wr, rd
	// tower parameters from the library's own arithmetic
	sqC := func(c coord) coord {
		var e C
		wr(limbsOf(&e), c)
		PC(&e).Square(&e)
		return rd(limbsOf(&e))
	}
	unit := func(i int) coord {
		c := make(coord, k)
		for j := range c {
			c[j] = new(big.Int)
		}
		c[i].SetInt64(1)
		return c
	}
	t1 := &c02tw{p: fp.Q()}
	switch k {
	case 1:
		G.t = t1
	case 2:
		G.t = &c02tw{p: fp.Q(), sub: t1, nr: sqC(unit(1))[:1]}
	case 4:
		t2 := &c02tw{p: fp.Q(), sub: t1, nr: sqC(unit(1))[:1]}
		G.t = &c02tw{p: fp.Q(), sub: t2, nr: sqC(unit(2))[:2]}
	default:
		panic("c02: k")
	}
	t := G.t
	ga := limbsOf(&genAff)
	G.gen = apt{x: rd(ga[:kn]), y: rd(ga[kn:])}
	if aCoef != nil {
		G.a, G.b = t.zero(), t.zero()
		G.a[0].Set(aCoef)
		G.b[0].Set(bCoef)
	} else { // twist: a = 0, b' = y² - x³ on the generator
		G.a = t.zero()
		G.b = t.sb(t.sq(G.gen.y), t.mul(G.gen.x, t.sq(G.gen.x)))
	}
	G.sqrt = func(c coord) (coord, bool) {
		var e, s C
		wr(limbsOf(&e), c)
		if PC(&e).Legendre() != 1 {
			return nil, false
		}
		PC(&s).Sqrt(&e)
		return rd(limbsOf(&s)), true
	}
	mkA := func(c []coord) A {
		var a A
		l := limbsOf(&a)
		wr(l[:kn], c[0])
		wr(l[kn:], c[1])
		return a
	}
	mkJ := func(c []coord) J {
		var j J
		l := limbsOf(&j)
		wr(l[:kn], c[0])
		wr(l[kn:2*kn], c[1])
		wr(l[2*kn:], c[2])
		return j
	}
	outA := func(a *A) string {
		l := limbsOf(a)
		return G.outAffC(rd(l[:kn]), rd(l[kn:]))
	}
	outJ := func(j *J) string {
		l := limbsOf(j)
		return G.outJacC(rd(l[:kn]), rd(l[kn:2*kn]), rd(l[2*kn:]))
	}
	G.exec = func(op string, c []coord) string {
		bad := "bad-op"
		switch op {
		case "aAdd", "aSub", "aEqual":
			if len(c) != 4 {
				return bad
			}
			a, b := mkA(c[0:2]), mkA(c[2:4])
			var r A
			switch op {
			case "aAdd":
				PA(&r).Add(&a, &b)
			case "aSub":
				PA(&r).Sub(&a, &b)
			default:
				return boolStr(PA(&a).Equal(&b))
			}
			return outA(&r)
		case "aDouble", "aNeg", "aIsInf", "aOnCurve", "aInSub", "jDoubleMixed", "jFromAffine":
			if len(c) != 2 {
				return bad
			}
			a := mkA(c)
			var r A
			var j J
			switch op {
			case "aDouble":
				if affDouble == nil {
					return bad
				}
				affDouble(&r, &a)
			case "aNeg":
				PA(&r).Neg(&a)
			case "aIsInf":
				return boolStr(PA(&a).IsInfinity())
			case "aOnCurve":
				return boolStr(PA(&a).IsOnCurve())
			case "aInSub":
				return boolStr(PA(&a).IsInSubGroup())
			case "jDoubleMixed":
				if doubleMixed == nil {
					return bad
				}
				doubleMixed(&j, &a)
				return outJ(&j)
			case "jFromAffine":
				PJ(&j).FromAffine(&a)
				return outJ(&j)
			}
			return outA(&r)
		case "aFromJac", "jDoubleAssign", "jDouble", "jNeg", "jOnCurve", "jInSub":
			if len(c) != 3 {
				return bad
			}
			j := mkJ(c)
			var r J
			switch op {
			case "aFromJac":
				var a A
				PA(&a).FromJacobian(&j)
				return outA(&a)
			case "jDoubleAssign":
				PJ(&j).DoubleAssign()
				return outJ(&j)
			case "jDouble":
				PJ(&r).Double(&j)
			case "jNeg":
				PJ(&r).Neg(&j)
			case "jOnCurve":
				return boolStr(PJ(&j).IsOnCurve())
			case "jInSub":
				return boolStr(PJ(&j).IsInSubGroup())
			}
			return outJ(&r)
		case "jAdd", "jSub", "jEqual":
			if len(c) != 6 {
				return bad
			}
			p, q := mkJ(c[0:3]), mkJ(c[3:6])
			switch op {
			case "jAdd":
				PJ(&p).AddAssign(&q)
			case "jSub":
				PJ(&p).SubAssign(&q)
			default:
				return boolStr(PJ(&p).Equal(&q))
			}
			return outJ(&p)
		case "jAddMixed":
			if len(c) != 5 {
				return bad
			}
			p, a := mkJ(c[0:3]), mkA(c[3:5])
			PJ(&p).AddMixed(&a)
			return outJ(&p)
		case "batchJ2A":
			if batch == nil || len(c)%3 != 0 {
				return bad
			}
			js := make([]J, len(c)/3)
			for i := range js {
				js[i] = mkJ(c[3*i : 3*i+3])
			}
			res := batch(js)
			if len(res) == 0 {
				return "-"
			}
			ss := make([]string, len(res))
			for i := range res {
				ss[i] = outA(&res[i])
			}
			return strings.Join(ss, " ")
		}
		if strings.HasPrefix(op, "x") && G.xyzz != nil {
			return G.xyzz(op, c)
		}
		return bad
	}
	swGroups[name] = G
	swOrder = append(swOrder, name)
	return G
}

// ---------- generator side: textbook affine arithmetic over the big.Int tower

func (G *swGroup) add(P, Q apt) apt {
	t := G.t
	if P.inf {
		return Q
	}
	if Q.inf {
		return P
	}
	var l coord
	if t.eq(P.x, Q.x) {
		if !t.eq(P.y, Q.y) || t.isZero(P.y) {
			return apt{inf: true}
		}
		l = t.mul(t.add(t.mul(t.fromInt(3), t.sq(P.x)), G.a), t.inv(t.add(P.y, P.y)))
	} else {
		l = t.mul(t.sb(Q.y, P.y), t.inv(t.sb(Q.x, P.x)))
	}
	x3 := t.sb(t.sb(t.sq(l), P.x), Q.x)
	return apt{x: x3, y: t.sb(t.mul(l, t.sb(P.x, x3)), P.y)}
}
func (G *swGroup) neg(P apt) apt {
	if P.inf {
		return P
	}
	return apt{x: P.x, y: G.t.neg(P.y)}
}
func (G *swGroup) mul(k *big.Int, P apt) apt {
	R := apt{inf: true}
	for i := k.BitLen() - 1; i >= 0; i-- {
		R = G.add(R, R)
		if k.Bit(i) == 1 {
			R = G.add(R, P)
		}
	}
	return R
}
func (G *swGroup) onCurve(P apt) bool {
	t := G.t
	return P.inf || t.eq(t.sq(P.y), t.add(t.add(t.mul(P.x, t.sq(P.x)), t.mul(G.a, P.x)), G.b))
}

// affine coordinates as the library encodes them ((0,0) = infinity)
func (G *swGroup) aff(P apt) []coord {
	if P.inf {
		return []coord{G.t.zero(), G.t.zero()}
	}
	return []coord{P.x, P.y}
}

// Jacobian representative. finite P: (λ²x, λ³y, λ) with λ = 1 | random | -1 | 2; infinity: (1,1,0) | (X,Y,0) random |
// (t²,t³,0) | (0,0,0)
func (G *swGroup) jac(P apt, mode int, r *rng) []coord {
	t := G.t
	if P.inf {
		switch mode & 3 {
		case 0:
			return []coord{t.fromInt(1), t.fromInt(1), t.zero()}
		case 1:
			return []coord{t.rnd(r), t.rnd(r), t.zero()}
		case 2:
			u := t.rnd(r)
			return []coord{t.sq(u), t.mul(u, t.sq(u)), t.zero()}
		default:
			return []coord{t.zero(), t.zero(), t.zero()}
		}
	}
	var l coord
	switch mode & 3 {
	case 0:
		l = t.fromInt(1)
	case 1:
		l = t.rnd(r)
	case 2:
		l = t.fromInt(-1)
	default:
		l = t.fromInt(2)
	}
	l2 := t.sq(l)
	return []coord{t.mul(P.x, l2), t.mul(P.y, t.mul(l2, l)), l}
}

// XYZZ representative (x·λ², y·λ³, λ², λ³); infinity: (1,1,0,0) | (X,Y,0,0)
func (G *swGroup) xyzzRep(P apt, mode int, r *rng) []coord {
	t := G.t
	if P.inf {
		if mode&1 == 0 {
			return []coord{t.fromInt(1), t.fromInt(1), t.zero(), t.zero()}
		}
		return []coord{t.rnd(r), t.rnd(r), t.zero(), t.zero()}
	}
	j := G.jac(P, mode, r)
	l2 := t.sq(j[2])
	return []coord{j[0], j[1], l2, t.mul(l2, j[2])}
}

func (G *swGroup) prefix() string {
	t := G.t
	beta, nu := "-", "-"
	switch t.k() {
	case 2:
		beta = hexBig(t.nr[0])
	case 4:
		beta = hexBig(t.sub.nr[0])
		nu = t.sub.str(t.nr)
	}
	return fmt.Sprintf("C02 sw %s %d %s %s %s %s %s %s", G.name, t.k(), hexBig(t.p), beta, nu, t.str(G.a), t.str(G.b), hexBig(G.r))
}

func (G *swGroup) emit(g *gen, pre, op string, cs ...[]coord) {
	var sb strings.Builder
	sb.WriteString(pre)
	sb.WriteByte(' ')
	sb.WriteString(op)
	for _, c := range cs {
		for _, x := range c {
			sb.WriteByte(' ')
			sb.WriteString(G.t.str(x))
		}
	}
	g.emit("%s", sb.String())
}

// operand lattice: on-curve points (in and outside the r-torsion) and off-curve points
func (G *swGroup) lattice(g *gen) (on, off []apt) {
	t := G.t
	P := G.gen
	if !G.onCurve(P) {
		panic("c02: generator not on curve: " + G.name)
	}
	k1 := g.rng.bigBelow(G.r)
	k2 := new(big.Int).SetUint64(g.rng.u64())
	on = []apt{{inf: true}, P, G.neg(P), G.add(P, P), G.mul(big.NewInt(3), P), G.mul(k1, P), G.neg(G.mul(k1, P)), G.mul(k2, P),
		G.mul(new(big.Int).Sub(G.r, big.NewInt(1)), P)}
	// curve points obtained by solving y² = x³+ax+b for small x WITHOUT clearing the cofactor
	found := 0
	for i := int64(-6); i < 200 && found < 2; i++ {
		x := t.fromInt(i)
		if t.k() > 1 && i >= 0 { // a genuinely extension-field abscissa
			x[1].SetInt64(1 + i%3)
		}
		rhs := t.add(t.add(t.mul(x, t.sq(x)), t.mul(G.a, x)), G.b)
		if t.isZero(rhs) { // 2-torsion point
			on = append(on, apt{x: x, y: t.zero()})
			continue
		}
		y, ok := G.sqrt(rhs)
		if !ok {
			continue
		}
		C := apt{x: x, y: y}
		if !G.onCurve(C) {
			panic("c02: library Sqrt returned a non-root on " + G.name)
		}
		found++
		on = append(on, C)
		T := G.mul(G.r, C) // pure cofactor-torsion point (O on prime-order curves)
		if !T.inf {
			if found == 1 {
				on = append(on, T, G.add(T, P))
			}
			// walk towards the 2-torsion if T has 2-power order
			Q := T
			for s := 0; s < 70; s++ {
				D := G.add(Q, Q)
				if D.inf {
					if found == 1 || !t.isZero(Q.y) {
						on = append(on, Q)
					}
					break
				}
				Q = D
			}
		}
	}
	// x = 0 (only infinity may have both coordinates zero)
	if y, ok := G.sqrt(G.b); ok {
		on = append(on, apt{x: t.zero(), y: y})
	}
	one := t.fromInt(1)
	for _, c := range []apt{{x: one, y: one}, {x: P.x, y: t.add(P.y, one)}, {x: t.add(P.x, one), y: P.y}, {x: t.zero(), y: one}, {x: one, y: t.zero()},
		{x: t.rnd(g.rng), y: t.rnd(g.rng)}} {
		if !G.onCurve(c) {
			off = append(off, c)
		}
	}
	return
}

func genSW(g *gen, G *swGroup) {
	pre := G.prefix()
	r := g.rng
	on, off := G.lattice(g)
	em := func(op string, cs ...[]coord) { G.emit(g, pre, op, cs...) }
	mode := func() int { return r.intn(4) }
	nInSub := g.budget(1, len(on))
	for i, P := range on {
		A := G.aff(P)
		// unary / conversions / predicates
		if G.hasAffDouble {
			em("aDouble", A)
		}
		em("aNeg", A)
		em("aIsInf", A)
		em("aOnCurve", A)
		em("jFromAffine", A)
		if G.hasDoubleMixed {
			em("jDoubleMixed", A)
		}
		for m := 0; m < 4; m++ {
			J := G.jac(P, m, r)
			em("aFromJac", J)
			em("jOnCurve", J)
			em("jDoubleAssign", J)
			if m == 1 {
				em("jDouble", J)
				em("jNeg", J)
			}
			// same point, different representative; opposite point; mixed
			J2 := G.jac(P, mode(), r)
			em("jEqual", J, J2)
			em("jAdd", J, J2)
			em("jSub", J, J2)
			em("jAdd", J, G.jac(G.neg(P), mode(), r))
			em("jAddMixed", J, A)
			em("jAddMixed", J, G.aff(G.neg(P)))
			em("jEqual", J, G.jac(G.neg(P), mode(), r))
		}
		// subgroup membership: the model pays one affine scalar multiplication by r per call
		if i == 1 || i == 5 || i < nInSub || i >= len(on)-6 {
			em("aInSub", A)
			if g.thorough() || i%2 == 1 {
				em("jInSub", G.jac(P, 1, r))
			}
		}
		if G.xyzz != nil {
			for m := 0; m < 4; m++ {
				X := G.xyzzRep(P, m, r)
				em("xDouble", X)
				em("xToAffine", X)
				em("xToJac", X)
				if !P.inf && G.xyzzUnsafe {
					em("xUnsafeToJac", X)
				}
				em("xAdd", X, G.xyzzRep(P, mode(), r))
				em("xAdd", X, G.xyzzRep(G.neg(P), mode(), r))
				em("xAddMixed", X, A)
				em("xAddMixed", X, G.aff(G.neg(P)))
				em("xSubMixed", X, A)
				em("xSubMixed", X, G.aff(G.neg(P)))
			}
			if !P.inf {
				em("xDoubleMixed", A)
				em("xDoubleNegMixed", A)
			}
		}
	}
	// pairs
	stride := g.budget(3, 1)
	cnt := 0
	for _, P := range on {
		for _, Q := range on {
			A, B := G.aff(P), G.aff(Q)
			em("aAdd", A, B)
			em("jAdd", G.jac(P, mode(), r), G.jac(Q, mode(), r))
			cnt++
			if cnt%stride != 0 {
				continue
			}
			em("aSub", A, B)
			em("aEqual", A, B)
			em("jSub", G.jac(P, mode(), r), G.jac(Q, mode(), r))
			em("jAddMixed", G.jac(P, mode(), r), B)
			em("jEqual", G.jac(P, mode(), r), G.jac(Q, mode(), r))
			if G.xyzz != nil {
				em("xAdd", G.xyzzRep(P, mode(), r), G.xyzzRep(Q, mode(), r))
				em("xAddMixed", G.xyzzRep(P, mode(), r), B)
				em("xSubMixed", G.xyzzRep(P, mode(), r), B)
			}
		}
	}
	// random multiples
	for i := 0; i < g.budget(6, 200); i++ {
		P := G.mul(r.bigBelow(G.r), G.gen)
		Q := G.mul(r.bigBelow(G.r), G.gen)
		em("aAdd", G.aff(P), G.aff(Q))
		em("aSub", G.aff(P), G.aff(Q))
		em("jAdd", G.jac(P, 1, r), G.jac(Q, 1, r))
		em("jAddMixed", G.jac(P, 1, r), G.aff(Q))
		em("jDoubleAssign", G.jac(P, 1, r))
		if G.xyzz != nil {
			em("xAdd", G.xyzzRep(P, 1, r), G.xyzzRep(Q, 1, r))
			em("xAddMixed", G.xyzzRep(P, 1, r), G.aff(Q))
			em("xDouble", G.xyzzRep(P, 1, r))
		}
	}
	// off-curve points: predicates only
	for _, P := range off {
		A := G.aff(P)
		em("aOnCurve", A)
		em("aInSub", A)
		em("aIsInf", A)
		em("aEqual", A, G.aff(G.gen))
		for m := 0; m < 2; m++ {
			em("jOnCurve", G.jac(P, m, r))
			em("jInSub", G.jac(P, m, r))
		}
	}
	// Z = 0 with arbitrary X, Y
	for m := 0; m < 4; m++ {
		em("jInSub", G.jac(apt{inf: true}, m, r))
	}
	// batch conversion
	if G.hasBatch {
		for _, n := range []int{0, 1, 2, 3, 7, g.budget(19, 130)} {
			var cs [][]coord
			for i := 0; i < n; i++ {
				P := on[r.intn(len(on))]
				if n <= 3 && i == n-1 {
					P = apt{inf: true}
				}
				cs = append(cs, G.jac(P, mode(), r))
			}
			G.emit(g, pre, fmt.Sprintf("batchJ2A %x", n), cs...)
		}
	}
}

// ------------------------------------------------------------------------------------------------------------------
// twisted Edwards: generic binding

type teAffPtr[A, P, E any] interface {
	*A
	Add(a, b *A) *A
	Double(a *A) *A
	Neg(a *A) *A
	Equal(a *A) bool
	IsZero() bool
	IsOnCurve() bool
	FromProj(*P) *A
	FromExtended(*E) *A
}
type teProjPtr[A, P any] interface {
	*P
	Add(a, b *P) *P
	MixedAdd(a *P, b *A) *P
	Double(a *P) *P
	Neg(a *P) *P
	FromAffine(*A) *P
	Equal(*P) bool
	IsZero() bool
}
type teExtPtr[A, E any] interface {
	*E
	Add(a, b *E) *E
	MixedAdd(a *E, b *A) *E
	Double(a *E) *E
	MixedDouble(a *E) *E
	Neg(a *E) *E
	FromAffine(*A) *E
	Equal(*E) bool
	IsZero() bool
}

type teParams struct {
	a, d, bx, by, order *big.Int
}
type teCurve struct {
	name   string
	q      *big.Int
	params func() teParams // calls GetEdwardsCurve (initialises the package's lazily-built parameters)
	exec   func(op string, c []*big.Int) string
}

var teCurves = map[string]*teCurve{}
var teOrder []string

type bigOfPtr[T any] interface {
	*T
	BigInt(*big.Int) *big.Int
}

func bigOf[T any, PT bigOfPtr[T]](x *T) *big.Int { return PT(x).BigInt(new(big.Int)) }

func regTE[A, P, E any, PA teAffPtr[A, P, E], PP teProjPtr[A, P], PE teExtPtr[A, E]](name, frName string, _ A, _ P, _ E, params func() teParams) {
	fr := fields[frName].(c02Field)
	n := fr.Limbs()
	q := fr.Q()
	var once sync.Once
	T := &teCurve{name: name, q: q, params: params}
	mk := func(dst []uint64, c []*big.Int) {
		for i := range c {
			fr.regToLimbs(c[i], dst[i*n:(i+1)*n])
		}
	}
	rd := func(src []uint64, i int) *big.Int { return fr.limbsToReg(src[i*n : (i+1)*n]) }
	mkA := func(c []*big.Int) A { var a A; mk(limbsOf(&a), c[:2]); return a }
	mkP := func(c []*big.Int) P { var p P; mk(limbsOf(&p), c[:3]); return p }
	mkE := func(c []*big.Int) E { var e E; mk(limbsOf(&e), c[:4]); return e }
	outXY := func(x, y *big.Int) string { return hexBig(x) + ";" + hexBig(y) }
	outA := func(a *A) string { l := limbsOf(a); return outXY(rd(l, 0), rd(l, 1)) }
	norm := func(l []uint64) string {
		X, Y, Z := rd(l, 0), rd(l, 1), rd(l, 2)
		if Z.Sign() == 0 {
			return "z=0"
		}
		zi := new(big.Int).ModInverse(Z, q)
		X.Mul(X, zi).Mod(X, q)
		Y.Mul(Y, zi).Mod(Y, q)
		return outXY(X, Y)
	}
	outP := func(p *P) string { return norm(limbsOf(p)) }
	outE := func(e *E) string {
		l := limbsOf(e)
		X, Y, Z, Tt := rd(l, 0), rd(l, 1), rd(l, 2), rd(l, 3)
		// extended invariant T·Z = X·Y
		lhs := new(big.Int).Mul(Tt, Z)
		rhs := new(big.Int).Mul(X, Y)
		if lhs.Sub(lhs, rhs).Mod(lhs, q).Sign() != 0 {
			return "bad-T " + norm(l)
		}
		return norm(l)
	}
	T.exec = func(op string, c []*big.Int) string {
		if op != "eAddRaw" {
			once.Do(func() { params() })
		}
		bad := "bad-op"
		want := map[byte]int{'a': 2, 'p': 3, 'e': 4}
		switch op {
		case "aAdd", "aEqual":
			if len(c) != 4 {
				return bad
			}
			a, b := mkA(c[0:2]), mkA(c[2:4])
			if op == "aEqual" {
				return boolStr(PA(&a).Equal(&b))
			}
			var r A
			PA(&r).Add(&a, &b)
			return outA(&r)
		case "aDouble", "aNeg", "aIsZero", "aOnCurve", "pFromAffine", "eFromAffine":
			if len(c) != want['a'] {
				return bad
			}
			a := mkA(c)
			var r A
			switch op {
			case "aDouble":
				PA(&r).Double(&a)
			case "aNeg":
				PA(&r).Neg(&a)
			case "aIsZero":
				return boolStr(PA(&a).IsZero())
			case "aOnCurve":
				return boolStr(PA(&a).IsOnCurve())
			case "pFromAffine":
				var p P
				PP(&p).FromAffine(&a)
				return outP(&p)
			case "eFromAffine":
				var e E
				PE(&e).FromAffine(&a)
				return outE(&e)
			}
			return outA(&r)
		case "aFromProj", "pDouble", "pNeg", "pIsZero":
			if len(c) != want['p'] {
				return bad
			}
			p := mkP(c)
			var r P
			switch op {
			case "aFromProj":
				var a A
				PA(&a).FromProj(&p)
				return outA(&a)
			case "pDouble":
				PP(&r).Double(&p)
			case "pNeg":
				PP(&r).Neg(&p)
			case "pIsZero":
				return boolStr(PP(&p).IsZero())
			}
			return outP(&r)
		case "pAdd", "pEqual":
			if len(c) != 6 {
				return bad
			}
			p1, p2 := mkP(c[0:3]), mkP(c[3:6])
			if op == "pEqual" {
				return boolStr(PP(&p1).Equal(&p2))
			}
			var r P
			PP(&r).Add(&p1, &p2)
			return outP(&r)
		case "pMixedAdd":
			if len(c) != 5 {
				return bad
			}
			p1, a := mkP(c[0:3]), mkA(c[3:5])
			var r P
			PP(&r).MixedAdd(&p1, &a)
			return outP(&r)
		case "aFromExt", "eDouble", "eMixedDouble", "eNeg", "eIsZero":
			if len(c) != want['e'] {
				return bad
			}
			e := mkE(c)
			var r E
			switch op {
			case "aFromExt":
				var a A
				PA(&a).FromExtended(&e)
				return outA(&a)
			case "eDouble":
				PE(&r).Double(&e)
			case "eMixedDouble":
				PE(&r).MixedDouble(&e)
			case "eNeg":
				PE(&r).Neg(&e)
			case "eIsZero":
				return boolStr(PE(&e).IsZero())
			}
			return outE(&r)
		case "eAdd", "eAddRaw", "eEqual":
			if len(c) != 8 {
				return bad
			}
			e1, e2 := mkE(c[0:4]), mkE(c[4:8])
			if op == "eEqual" {
				return boolStr(PE(&e1).Equal(&e2))
			}
			var r E
			PE(&r).Add(&e1, &e2)
			return outE(&r)
		case "eMixedAdd":
			if len(c) != 6 {
				return bad
			}
			e1, a := mkE(c[0:4]), mkA(c[4:6])
			var r E
			PE(&r).MixedAdd(&e1, &a)
			return outE(&r)
		}
		return bad
	}
	teCurves[name] = T
	teOrder = append(teOrder, name)
}

// generator-side affine twisted Edwards arithmetic (unified law); ok=false when a denominator vanishes
type tePt struct{ x, y *big.Int }

type teGen struct {
	q, a, d *big.Int
}

func (E *teGen) m(a, b *big.Int) *big.Int { v := new(big.Int).Mul(a, b); return v.Mod(v, E.q) }
func (E *teGen) add(P, Q tePt) (tePt, bool) {
	q := E.q
	t := E.m(E.d, E.m(E.m(P.x, Q.x), E.m(P.y, Q.y)))
	dx := new(big.Int).Add(big.NewInt(1), t)
	dx.Mod(dx, q)
	dy := new(big.Int).Sub(big.NewInt(1), t)
	dy.Mod(dy, q)
	if dx.Sign() == 0 || dy.Sign() == 0 {
		return tePt{}, false
	}
	nx := new(big.Int).Add(E.m(P.x, Q.y), E.m(P.y, Q.x))
	ny := new(big.Int).Sub(E.m(P.y, Q.y), E.m(E.a, E.m(P.x, Q.x)))
	return tePt{E.m(nx, new(big.Int).ModInverse(dx, q)), E.m(ny.Mod(ny, q), new(big.Int).ModInverse(dy, q))}, true
}
func (E *teGen) neg(P tePt) tePt {
	x := new(big.Int).Neg(P.x)
	return tePt{x.Mod(x, E.q), P.y}
}
func (E *teGen) mul(k *big.Int, P tePt) (tePt, bool) {
	R := tePt{big.NewInt(0), big.NewInt(1)}
	ok := true
	for i := k.BitLen() - 1; i >= 0 && ok; i-- {
		R, ok = E.add(R, R)
		if ok && k.Bit(i) == 1 {
			R, ok = E.add(R, P)
		}
	}
	return R, ok
}
func (E *teGen) onCurve(P tePt) bool {
	x2, y2 := E.m(P.x, P.x), E.m(P.y, P.y)
	l := new(big.Int).Add(E.m(E.a, x2), y2)
	r := new(big.Int).Add(big.NewInt(1), E.m(E.d, E.m(x2, y2)))
	return l.Sub(l, r).Mod(l, E.q).Sign() == 0
}

// representatives (λx, λy, λ[, λxy]) with λ = 1 | random | -1
func (E *teGen) lam(mode int, r *rng) *big.Int {
	switch mode % 3 {
	case 0:
		return big.NewInt(1)
	case 1:
		for {
			l := r.bigBelow(E.q)
			if l.Sign() != 0 {
				return l
			}
		}
	default:
		return new(big.Int).Sub(E.q, big.NewInt(1))
	}
}
func (E *teGen) proj(P tePt, mode int, r *rng) []*big.Int {
	l := E.lam(mode, r)
	return []*big.Int{E.m(P.x, l), E.m(P.y, l), l}
}
func (E *teGen) ext(P tePt, mode int, r *rng) []*big.Int {
	l := E.lam(mode, r)
	return []*big.Int{E.m(P.x, l), E.m(P.y, l), l, E.m(l, E.m(P.x, P.y))}
}

func genTE(g *gen, T *teCurve) {
	pr := T.params()
	E := &teGen{q: T.q, a: new(big.Int).Mod(pr.a, T.q), d: new(big.Int).Mod(pr.d, T.q)}
	pre := fmt.Sprintf("C02 te %s %s %s %s", T.name, hexBig(T.q), hexBig(E.a), hexBig(E.d))
	r := g.rng
	em := func(op string, cs ...[]*big.Int) {
		var sb strings.Builder
		sb.WriteString(pre + " " + op)
		for _, c := range cs {
			for _, x := range c {
				sb.WriteString(" " + hexBig(x))
			}
		}
		g.emit("%s", sb.String())
	}
	af := func(P tePt) []*big.Int { return []*big.Int{P.x, P.y} }
	G := tePt{pr.bx, pr.by}
	// first line: extended addition as the first call into the package in a fresh process (lazy parameters)
	em("eAddFresh", E.ext(G, 0, r), E.ext(G, 0, r))

	O := tePt{big.NewInt(0), big.NewInt(1)}
	T2 := tePt{big.NewInt(0), new(big.Int).Sub(T.q, big.NewInt(1))}
	on := []tePt{O, T2, G, E.neg(G)}
	addp := func(P tePt, ok bool) {
		if ok && E.onCurve(P) {
			on = append(on, P)
		}
	}
	addp(E.add(G, G))
	k1 := r.bigBelow(pr.order)
	addp(E.mul(k1, G))
	addp(E.add(G, T2))
	// order-4 points (±1/sqrt(a), 0) when a is a square
	if s := new(big.Int).ModSqrt(E.a, T.q); s != nil {
		x := new(big.Int).ModInverse(s, T.q)
		T4 := tePt{x, big.NewInt(0)}
		addp(T4, true)
		addp(E.neg(T4), true)
		addp(E.add(G, T4))
	}
	// a curve point that was not multiplied by the cofactor: x² = (1-y²)/(a-d·y²)
	for i := 0; i < 200; i++ {
		y := big.NewInt(int64(2 + i))
		y2 := E.m(y, y)
		num := new(big.Int).Sub(big.NewInt(1), y2)
		den := new(big.Int).Sub(E.a, E.m(E.d, y2))
		den.Mod(den, T.q)
		if den.Sign() == 0 {
			continue
		}
		x2 := E.m(num.Mod(num, T.q), new(big.Int).ModInverse(den, T.q))
		x := new(big.Int).ModSqrt(x2, T.q)
		if x == nil {
			continue
		}
		C := tePt{x, y}
		addp(C, true)
		addp(E.mul(pr.order, C)) // pure cofactor-torsion point
		break
	}
	one := big.NewInt(1)
	var off []tePt
	for _, c := range []tePt{{one, one}, {G.x, new(big.Int).Add(G.y, one)}, {big.NewInt(0), big.NewInt(0)}, {big.NewInt(0), big.NewInt(2)}, {r.bigBelow(T.q), r.bigBelow(T.q)}} {
		if !E.onCurve(c) {
			off = append(off, c)
		}
	}
	mode := func() int { return r.intn(3) }
	for _, P := range on {
		A := af(P)
		em("aDouble", A)
		em("aNeg", A)
		em("aIsZero", A)
		em("aOnCurve", A)
		em("pFromAffine", A)
		em("eFromAffine", A)
		em("eMixedDouble", E.ext(P, 0, r)) // dedicated mixed doubling: Z = 1 is its documented precondition
		for m := 0; m < 3; m++ {
			Pp, Pe := E.proj(P, m, r), E.ext(P, m, r)
			em("aFromProj", Pp)
			em("aFromExt", Pe)
			em("pDouble", Pp)
			em("pNeg", Pp)
			em("pIsZero", Pp)
			em("eDouble", Pe)
			em("eNeg", Pe)
			em("eIsZero", Pe)
			em("pEqual", Pp, E.proj(P, mode(), r))
			em("eEqual", Pe, E.ext(P, mode(), r))
			em("pEqual", Pp, E.proj(E.neg(P), mode(), r))
			em("eEqual", Pe, E.ext(E.neg(P), mode(), r))
			// same point in two representations
			em("pAdd", Pp, E.proj(P, mode(), r))
			em("eAdd", Pe, E.ext(P, mode(), r))
			em("pMixedAdd", Pp, A)
			em("eMixedAdd", Pe, A)
		}
	}
	stride := g.budget(2, 1)
	cnt := 0
	for _, P := range on {
		for _, Q := range on {
			if _, ok := E.add(P, Q); !ok {
				continue // affine law undefined for this pair (incomplete curve, even-order operands)
			}
			A, B := af(P), af(Q)
			em("aAdd", A, B)
			em("eMixedAdd", E.ext(P, mode(), r), B)
			cnt++
			if cnt%stride != 0 {
				continue
			}
			em("aEqual", A, B)
			em("pAdd", E.proj(P, mode(), r), E.proj(Q, mode(), r))
			em("pMixedAdd", E.proj(P, mode(), r), B)
			em("eAdd", E.ext(P, mode(), r), E.ext(Q, mode(), r))
			em("pEqual", E.proj(P, mode(), r), E.proj(Q, mode(), r))
			em("eEqual", E.ext(P, mode(), r), E.ext(Q, mode(), r))
		}
	}
	for i := 0; i < g.budget(6, 300); i++ {
		P, _ := E.mul(r.bigBelow(pr.order), G)
		Q, _ := E.mul(r.bigBelow(pr.order), G)
		em("aAdd", af(P), af(Q))
		em("pAdd", E.proj(P, 1, r), E.proj(Q, 1, r))
		em("pMixedAdd", E.proj(P, 1, r), af(Q))
		em("eAdd", E.ext(P, 1, r), E.ext(Q, 1, r))
		em("eMixedAdd", E.ext(P, 1, r), af(Q))
		em("pDouble", E.proj(P, 1, r))
		em("eDouble", E.ext(P, 1, r))
	}
	for _, P := range off {
		em("aOnCurve", af(P))
		em("aIsZero", af(P))
	}
}

// ------------------------------------------------------------------------------------------------------------------

var c02Once sync.Once

// hook for the verif-tagged XYZZ shim binding (c02_shim.go, build tag c02shim)
var c02ShimBind func()

func c02Init() {
	c02Once.Do(func() {
		c02Register()
		if c02ShimBind != nil {
			c02ShimBind()
		}
	})
}

func execC02(args []string) string {
	c02Init()
	if len(args) < 2 {
		return "bad-op"
	}
	switch args[0] {
	case "sw":
		if len(args) < 10 {
			return "bad-op"
		}
		G := swGroups[args[1]]
		if G == nil {
			return "bad-op"
		}
		op := args[9]
		rest := args[10:]
		if op == "batchJ2A" {
			if len(rest) < 1 {
				return "bad-op"
			}
			rest = rest[1:]
		}
		c := make([]coord, len(rest))
		for i := range rest {
			c[i] = G.t.parse(rest[i])
		}
		return G.exec(op, c)
	case "te":
		if len(args) < 6 {
			return "bad-op"
		}
		T := teCurves[args[1]]
		if T == nil {
			return "bad-op"
		}
		op := args[5]
		if op == "eAddFresh" {
			// run the same addition as the first call into the package in a fresh process
			cmd := exec.Command(os.Args[0], "-mode", "exec")
			cmd.Stdin = strings.NewReader("C02 " + strings.Join(args[:5], " ") + " eAddRaw " + strings.Join(args[6:], " ") + "\n")
			out, err := cmd.Output()
			if err != nil {
				return "err:spawn"
			}
			return strings.TrimSpace(string(out))
		}
		c := make([]*big.Int, len(args)-6)
		for i := range c {
			c[i] = parseBig(args[6+i])
			c[i].Mod(c[i], T.q)
		}
		return T.exec(op, c)
	}
	return "bad-op"
}

func init() {
	executors["C02"] = execC02
	generators["C02"] = func(g *gen) {
		c02Init()
		for _, n := range swOrder {
			genSW(g, swGroups[n])
		}
		for _, n := range teOrder {
			genTE(g, teCurves[n])
		}
		// malformed stream
		if len(swOrder) > 0 {
			pre := swGroups[swOrder[0]].prefix()
			g.emit("%s nosuchop 1 2", pre)
			g.emit("%s aAdd 1 2 3", pre)
			g.emit("%s jAdd 1 2 3 4 5", pre)
		}
		g.emit("C02 xx")
		g.emit("C02 sw")
		if len(teOrder) > 0 {
			T := teCurves[teOrder[0]]
			g.emit("C02 te %s %s 1 2 aAdd 1 2 3", T.name, hexBig(T.q))
			g.emit("C02 te %s %s 1 2 frob 1 2", T.name, hexBig(T.q))
		}
	}
}
