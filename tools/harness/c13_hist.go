package main

// C13 — call histories on the hash.Hash wrappers ecc/<curve>/{fr,fp}/hash_to_field.New(dst) (16 generated packages).
//
//	C13 h2fhist <field> <dst>[/mut] <tok> … [| <tok> …]…
//
// every `|`-separated history runs on a fresh New(dst) (`/mut`: the caller's dst slice is overwritten right after New).
//
//	W:<hex>[:<spare>][/mut|/scr]  Write(p), len(p) = len(hex). Plain / `/mut`: p is a private buffer of exactly that capacity,
//	                              or followed by the <spare> bytes as spare capacity; `/mut`: the harness overwrites the whole
//	                              buffer (length and capacity) as soon as Write has returned. `/scr`: p is a prefix of the ONE
//	                              scratch buffer of the history, which the next `/scr` Write re-fills (transcript pattern
//	                              copy(scratch, x); h.Write(scratch)); the scratch is also overwritten when the history ends
//	S:<hex>[:<spare>][/mut]       Sum(b), b = <hex> with <spare> as (poisoned) spare capacity; answer = the returned slice;
//	                              `/mut`: b and the returned slice are overwritten afterwards (length and capacity)
//	R | Z | B                     Reset | Size | BlockSize
//
// The harness additionally answers `input-modified` when Write changed its argument (or its spare capacity) and
// `prefix-modified` when Sum changed b[:len(b)]. Each call runs under its own recover; a panic carrying the error of
// <field>.Hash is rendered with its class (`err:dst`), any other panic as `panic`.
//
// The model (Model/HashToField.lean, hrun) answers from the concatenation of the bytes as they were AT THE TIME of each Write.

import (
	"bytes"
	"fmt"
	stdhash "hash"
	"os"
	"path/filepath"
	"runtime/debug"
	"sort"
	"strings"

	h2f_bls12_377_fp "github.com/consensys/gnark-crypto/ecc/bls12-377/fp/hash_to_field"
	h2f_bls12_377_fr "github.com/consensys/gnark-crypto/ecc/bls12-377/fr/hash_to_field"
	h2f_bls12_381_fp "github.com/consensys/gnark-crypto/ecc/bls12-381/fp/hash_to_field"
	h2f_bls12_381_fr "github.com/consensys/gnark-crypto/ecc/bls12-381/fr/hash_to_field"
	h2f_bls24_315_fp "github.com/consensys/gnark-crypto/ecc/bls24-315/fp/hash_to_field"
	h2f_bls24_315_fr "github.com/consensys/gnark-crypto/ecc/bls24-315/fr/hash_to_field"
	h2f_bls24_317_fp "github.com/consensys/gnark-crypto/ecc/bls24-317/fp/hash_to_field"
	h2f_bls24_317_fr "github.com/consensys/gnark-crypto/ecc/bls24-317/fr/hash_to_field"
	h2f_bn254_fp "github.com/consensys/gnark-crypto/ecc/bn254/fp/hash_to_field"
	h2f_bn254_fr "github.com/consensys/gnark-crypto/ecc/bn254/fr/hash_to_field"
	h2f_bw6_633_fp "github.com/consensys/gnark-crypto/ecc/bw6-633/fp/hash_to_field"
	h2f_bw6_633_fr "github.com/consensys/gnark-crypto/ecc/bw6-633/fr/hash_to_field"
	h2f_bw6_761_fp "github.com/consensys/gnark-crypto/ecc/bw6-761/fp/hash_to_field"
	h2f_bw6_761_fr "github.com/consensys/gnark-crypto/ecc/bw6-761/fr/hash_to_field"
	h2f_grumpkin_fp "github.com/consensys/gnark-crypto/ecc/grumpkin/fp/hash_to_field"
	h2f_grumpkin_fr "github.com/consensys/gnark-crypto/ecc/grumpkin/fr/hash_to_field"
)

type c13Wrapper struct {
	field string // key of fields[] / Gen.allFields
	dir   string // package directory relative to the repository root
	newH  func([]byte) stdhash.Hash
}

var c13Wrappers = []c13Wrapper{
	{"bn254_fr", "ecc/bn254/fr/hash_to_field", h2f_bn254_fr.New},
	{"bn254_fp", "ecc/bn254/fp/hash_to_field", h2f_bn254_fp.New},
	{"bls12_377_fr", "ecc/bls12-377/fr/hash_to_field", h2f_bls12_377_fr.New},
	{"bls12_377_fp", "ecc/bls12-377/fp/hash_to_field", h2f_bls12_377_fp.New},
	{"bls12_381_fr", "ecc/bls12-381/fr/hash_to_field", h2f_bls12_381_fr.New},
	{"bls12_381_fp", "ecc/bls12-381/fp/hash_to_field", h2f_bls12_381_fp.New},
	{"bls24_315_fr", "ecc/bls24-315/fr/hash_to_field", h2f_bls24_315_fr.New},
	{"bls24_315_fp", "ecc/bls24-315/fp/hash_to_field", h2f_bls24_315_fp.New},
	{"bls24_317_fr", "ecc/bls24-317/fr/hash_to_field", h2f_bls24_317_fr.New},
	{"bls24_317_fp", "ecc/bls24-317/fp/hash_to_field", h2f_bls24_317_fp.New},
	{"bw6_633_fr", "ecc/bw6-633/fr/hash_to_field", h2f_bw6_633_fr.New},
	{"bw6_633_fp", "ecc/bw6-633/fp/hash_to_field", h2f_bw6_633_fp.New},
	{"bw6_761_fr", "ecc/bw6-761/fr/hash_to_field", h2f_bw6_761_fr.New},
	{"bw6_761_fp", "ecc/bw6-761/fp/hash_to_field", h2f_bw6_761_fp.New},
	{"grumpkin_fr", "ecc/grumpkin/fr/hash_to_field", h2f_grumpkin_fr.New},
	{"grumpkin_fp", "ecc/grumpkin/fp/hash_to_field", h2f_grumpkin_fp.New},
}

func c13WrapperByField(f string) *c13Wrapper {
	for i := range c13Wrappers {
		if c13Wrappers[i].field == f {
			return &c13Wrappers[i]
		}
	}
	return nil
}

// directory the harness was built against (`replace github.com/consensys/gnark-crypto => <dir>`), "" if unknown
func harnessRepoDir() string {
	bi, ok := debug.ReadBuildInfo()
	if !ok {
		return ""
	}
	for _, d := range bi.Deps {
		if d.Path == "github.com/consensys/gnark-crypto" && d.Replace != nil {
			return d.Replace.Path
		}
	}
	return ""
}

// package directories matching the glob patterns (relative to the repository root) that have no adapter in `known`
func missingAdapters(known map[string]bool, patterns ...string) []string {
	root := harnessRepoDir()
	if root == "" {
		return nil
	}
	var miss []string
	for _, pat := range patterns {
		ds, _ := filepath.Glob(filepath.Join(root, pat))
		for _, d := range ds {
			if gos, _ := filepath.Glob(filepath.Join(d, "*.go")); len(gos) == 0 {
				continue
			}
			rel, err := filepath.Rel(root, d)
			if err == nil && !known[filepath.ToSlash(rel)] {
				miss = append(miss, filepath.ToSlash(rel))
			}
		}
	}
	sort.Strings(miss)
	return miss
}

func c13Clobber(b []byte) {
	b = b[:cap(b)]
	for i := range b {
		b[i] ^= 0xa5
	}
}

func c13PanicStr(r any) string {
	s := fmt.Sprint(r)
	if strings.Contains(s, "native field to hash") && strings.Contains(s, "domain size") {
		return "err:dst"
	}
	return "panic"
}

const c13ScratchCap = 4096

func c13HistOp(h stdhash.Hash, scratch []byte, tok string) (res string) {
	defer func() {
		if r := recover(); r != nil {
			res = c13PanicStr(r)
		}
	}()
	mode := ""
	if i := strings.IndexByte(tok, '/'); i >= 0 {
		tok, mode = tok[:i], tok[i+1:]
	}
	f := strings.Split(tok, ":")
	var spare []byte
	if len(f) == 3 {
		spare = parseBytes(f[2])
	}
	switch {
	case f[0] == "W" && (len(f) == 2 || len(f) == 3) && (mode == "" || mode == "mut" || mode == "scr"):
		data := parseBytes(f[1])
		var p []byte
		if mode == "scr" {
			if len(data)+len(spare) > len(scratch) {
				return "bad-op"
			}
			copy(scratch, data)
			copy(scratch[len(data):], spare)
			p = scratch[:len(data)]
		} else {
			p = c14MkSlice(data, spare)
		}
		before := append([]byte{}, p[:cap(p)]...)
		n, err := h.Write(p)
		intact := bytes.Equal(before, p[:cap(p)])
		if mode == "mut" {
			c13Clobber(p)
		}
		switch {
		case err != nil:
			return "err"
		case !intact:
			return "input-modified"
		}
		return fmt.Sprintf("ok:%x", n)
	case f[0] == "S" && (len(f) == 2 || len(f) == 3) && (mode == "" || mode == "mut"):
		prefix := parseBytes(f[1])
		b := c14MkSlice(prefix, spare)
		out := h.Sum(b)
		r := hexBytes(out)
		if !bytes.Equal(b, prefix) {
			r = "prefix-modified"
		}
		if mode == "mut" {
			c13Clobber(out)
			c13Clobber(b)
		}
		return r
	case tok == "R" && mode == "":
		h.Reset()
		return "ok"
	case tok == "Z" && mode == "":
		return fmt.Sprintf("%x", h.Size())
	case tok == "B" && mode == "":
		return fmt.Sprintf("%x", h.BlockSize())
	}
	return "bad-op"
}

func c13ExecHist(a []string) string {
	if len(a) < 2 {
		return "bad-op"
	}
	w := c13WrapperByField(a[0])
	if w == nil {
		return "bad-op"
	}
	dstTok, dstMut := a[1], false
	if strings.HasSuffix(dstTok, "/mut") {
		dstTok, dstMut = strings.TrimSuffix(dstTok, "/mut"), true
	}
	dst := parseBytes(dstTok)
	fresh := func() (h stdhash.Hash) {
		defer func() {
			if r := recover(); r != nil {
				h = nil
			}
		}()
		d := c14MkSlice(dst, nil)
		h = w.newH(d)
		if dstMut {
			c13Clobber(d)
		}
		return h
	}
	var hs, cur []string
	h := fresh()
	scratch := make([]byte, c13ScratchCap)
	flush := func() {
		hs = append(hs, strings.Join(cur, " "))
		cur = nil
		c13Clobber(scratch) // the caller recycles its scratch buffer: nothing may still look at it
		h = fresh()
		scratch = make([]byte, c13ScratchCap)
	}
	for _, t := range a[2:] {
		if t == "|" {
			flush()
			continue
		}
		if h == nil {
			cur = append(cur, "panic:new")
			continue
		}
		cur = append(cur, c13HistOp(h, scratch, t))
	}
	flush()
	return strings.Join(hs, " | ")
}

// ---------- generator ----------

func c13HistEmit(g *gen, header string, hists [][]string, per int) {
	for i := 0; i < len(hists); i += per {
		j := i + per
		if j > len(hists) {
			j = len(hists)
		}
		parts := make([]string, 0, j-i)
		for _, h := range hists[i:j] {
			parts = append(parts, strings.Join(h, " "))
		}
		g.emit("%s %s", header, strings.Join(parts, " | "))
	}
}

func c13GenHist(g *gen) {
	known := map[string]bool{}
	for _, w := range c13Wrappers {
		known[w.dir] = true
	}
	for _, d := range missingAdapters(known, "ecc/*/f[pr]/hash_to_field", "field/*/hash_to_field") {
		fmt.Fprintf(os.Stderr, "c13: wrapper package %s has no adapter in tools/harness/c13_hist.go\n", d)
		g.emit("C13 h2fcover %s", d)
	}
	r := g.rng
	chunk := func(n int) string { return hexBytes(r.bytes(n)) }
	for _, w := range c13Wrappers {
		nb := fields[w.field].Bytes()
		dst := hexBytes(r.bytes(8 + r.intn(24)))
		hdr := func(d string) string { return fmt.Sprintf("C13 h2fhist %s %s", w.field, d) }
		short := func() int { return 1 + r.intn(40) }

		// (1) bounded-exhaustive: every history of length ≤ 3 over a 9-token alphabet and of length 4 over {W/mut, W/scr, S, R}
		// (fresh chunks per package, short to keep the model side cheap)
		poison := hexBytes(c14BytesOf(0xee, nb+8))
		al := []string{
			"W:" + chunk(short()) + "/mut",
			"W:" + chunk(short()) + "/scr",
			"W:" + chunk(short()) + "/scr",
			"W:" + chunk(short()),
			"W:-/mut",
			"S:-/mut",
			"S:" + chunk(1+r.intn(5)) + ":" + poison + "/mut",
			"R",
			"Z",
		}
		hists := c14Exhaustive(al, g.budget(3, 4))
		hists = append(hists, c14Exhaustive([]string{al[0], al[1], "W:" + chunk(short()) + "/scr", "S:-", "R"}, g.budget(4, 6))...)
		c13HistEmit(g, hdr(dst+"/mut"), hists, 48)

		// (2) the write lattice × {private buffer left alone, /mut, /scr, spare capacity} as FIRST and as LATER chunk, before
		// Sum and before a second Write, on a fresh hasher and after Reset; Sum into the destination lattice; Sum twice
		hists = nil
		lens := []int{0, 1, nb - 1, nb, nb + 1, 63, 64, 65, 200, 1024, 4096}
		if g.thorough() {
			lens = append(lens, 2, 31, 32, 33, 55, 56, 119, 120, 128, 1000, 4000)
		}
		sums := []string{"S:-", "S:-/mut", "S:" + chunk(nb) + "/mut", "S:" + chunk(3) + ":" + hexBytes(c14BytesOf(0xee, nb)) + "/mut",
			"S:" + chunk(3) + ":" + hexBytes(c14BytesOf(0xee, nb-1)) + "/mut", "S:-:" + hexBytes(r.bytes(2*nb)) + "/mut"}
		k := 0
		for _, n := range lens {
			for _, mode := range []string{"", "/mut", "/scr", ":" + hexBytes(c14BytesOf(0xdd, 1+r.intn(40))) + "/mut"} {
				wa := "W:" + chunk(n) + mode
				wb := "W:" + chunk(short()) + mode
				s1, s2 := sums[k%len(sums)], sums[(k+1)%len(sums)]
				k++
				hists = append(hists,
					[]string{wa, s1, s2},
					[]string{wa, wb, s1},
					[]string{wb, wa, s1, "B", s2},
					[]string{wb, s1, "R", wa, s2, wb, s1})
			}
		}
		c13HistEmit(g, hdr(dst), hists, 24)

		// (3) domain separators: empty, 1, 255 and (refused by Hash: Sum fails) 256 bytes, handed over by value / overwritten
		for _, dl := range []int{0, 1, 255, 256} {
			d := hexBytes(r.bytes(dl))
			for _, m := range []string{"", "/mut"} {
				g.emit("%s W:%s/scr W:%s/scr S:-/mut Z B S:%s R S:-", hdr(d+m), chunk(short()), chunk(short()), chunk(2))
			}
		}

		// (4) seeded random histories
		hists = nil
		for i := 0; i < g.budget(24, 600); i++ {
			l := 2 + r.intn(9)
			h := make([]string, l)
			for j := range h {
				switch c := r.intn(20); {
				case c < 10:
					n := r.intn(70)
					if r.intn(6) == 0 {
						n = r.intn(600)
					}
					h[j] = "W:" + chunk(n)
					if r.intn(5) == 0 {
						h[j] += ":" + hexBytes(r.bytes(1+r.intn(2*nb)))
					}
					h[j] += []string{"", "/mut", "/scr", "/scr"}[r.intn(4)]
				case c < 15:
					h[j] = "S:" + chunk(r.intn(4)*r.intn(nb))
					if r.coin() {
						h[j] += ":" + hexBytes(r.bytes(1+r.intn(2*nb)))
					}
					h[j] += []string{"", "/mut"}[r.intn(2)]
				case c < 18:
					h[j] = "R"
				case c < 19:
					h[j] = "Z"
				default:
					h[j] = "B"
				}
			}
			hists = append(hists, h)
		}
		c13HistEmit(g, hdr(dst+"/mut"), hists, 24)
	}
}
