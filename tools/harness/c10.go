package main

// C10 — FFT = DFT for every domain, option, task count. Runs the real fft packages (10 fields) on op lines
// that carry every constant the Lean model needs (modulus, root of unity, coset shift).
// The per-field adapters are in c10_fields.go (written from c10_fields.tmpl by c10_fields.sh, no go:generate).

import (
	"bytes"
	"fmt"
	"io"
	"math/big"
	"runtime"
	"runtime/debug"
	"strconv"
	"strings"
	"sync"
	"sync/atomic"
)

type c10elt[E any] interface {
	*E
	SetBigInt(*big.Int) *E
	BigInt(*big.Int) *big.Int
	SetUint64(uint64) *E
	Uint64() uint64
}

// closures written once per field (c10_fields.go)
type c10pkg[E comparable, P c10elt[E], D any] struct {
	name      string
	modulus   *big.Int
	bytes     int
	newDomain func(m uint64, precomp bool, shift *E) *D
	fft, inv  func(d *D, a []E, dif, coset bool, nb int)
	bitrev    func(a []E)
	fields    func(d *D) (uint64, [5]E) // cardInv, gen, genInv, mulGen, mulGenInv
	writeTo   func(d *D, w io.Writer) (int64, error)
	readFrom  func(r io.Reader) (*D, int64, error)
	readInto  func(d *D, r io.Reader) (int64, error)  // ReadFrom on an existing receiver
	tables    func(d *D) (ct, cti []E, tw, twi [][]E) // the four accessors, nil where they return an error
	generator func(m uint64) (E, error)
	mulGen    func() E
}

type c10cfg struct {
	logn                int
	dif, coset, precomp bool
	nb                  int
	shift               *big.Int // nil: default FrMultiplicativeGen
}

// non-generic view used by executors and generators
type c10field interface {
	Name() string
	Q() *big.Int
	NBytes() int
	MulGen() *big.Int
	Gen(m uint64) (*big.Int, bool)
	Omega(logn int) *big.Int
	Transform(kind string, c c10cfg, v []*big.Int) []*big.Int
	BigTransform(kind string, c c10cfg, mode byte, seed uint64, k *big.Int) string
	BitRev(v []*big.Int) []*big.Int
	BitRevBig(logn int, mult uint64) (uint64, bool)
	DomainInfo(m uint64, shift *big.Int) []*big.Int
	ReadFrom(chunk int, c c10cfg, v []*big.Int) string
	ReadInto(chunk int, rcv string, c c10cfg, v []*big.Int, tab bool) string
	WriteBytes(c c10cfg) []byte
	ReadBytes(chunk int, data []byte) string
	Stream(rdr string, cfgs []c10cfg, trailer []byte) string
}

var c10fields = map[string]c10field{}
var c10order []string

func registerFFT(f c10field) { c10fields[f.Name()] = f; c10order = append(c10order, f.Name()) }

func (p *c10pkg[E, P, D]) Name() string     { return p.name }
func (p *c10pkg[E, P, D]) Q() *big.Int      { return p.modulus }
func (p *c10pkg[E, P, D]) NBytes() int      { return p.bytes }
func (p *c10pkg[E, P, D]) big(e E) *big.Int { return P(&e).BigInt(new(big.Int)) }
func (p *c10pkg[E, P, D]) MulGen() *big.Int { return p.big(p.mulGen()) }
func (p *c10pkg[E, P, D]) Gen(m uint64) (*big.Int, bool) {
	g, err := p.generator(m)
	if err != nil {
		return nil, false
	}
	return p.big(g), true
}
func (p *c10pkg[E, P, D]) Omega(logn int) *big.Int {
	g, _ := p.Gen(uint64(1) << logn)
	return g
}
func (p *c10pkg[E, P, D]) vec(v []*big.Int) []E {
	a := make([]E, len(v))
	for i := range v {
		P(&a[i]).SetBigInt(v[i])
	}
	return a
}
func (p *c10pkg[E, P, D]) unvec(a []E) []*big.Int {
	v := make([]*big.Int, len(a))
	for i := range a {
		v[i] = p.big(a[i])
	}
	return v
}
func (p *c10pkg[E, P, D]) domain(c c10cfg) *D {
	var sh *E
	if c.shift != nil {
		sh = new(E)
		P(sh).SetBigInt(c.shift)
	}
	return p.newDomain(uint64(1)<<c.logn, c.precomp, sh)
}
func (p *c10pkg[E, P, D]) apply(d *D, kind string, c c10cfg, a []E) {
	switch kind {
	case "fft":
		p.fft(d, a, c.dif, c.coset, c.nb)
	case "inv":
		p.inv(d, a, c.dif, c.coset, c.nb)
	case "roundtrip":
		p.fft(d, a, c.dif, c.coset, c.nb)
		p.inv(d, a, !c.dif, c.coset, c.nb)
	case "rtinv":
		p.inv(d, a, c.dif, c.coset, c.nb)
		p.fft(d, a, !c.dif, c.coset, c.nb)
	}
}
func (p *c10pkg[E, P, D]) Transform(kind string, c c10cfg, v []*big.Int) []*big.Int {
	a := p.vec(v)
	p.apply(p.domain(c), kind, c, a)
	return p.unvec(a)
}
func (p *c10pkg[E, P, D]) BitRev(v []*big.Int) []*big.Int {
	a := p.vec(v)
	p.bitrev(a)
	return p.unvec(a)
}
// v[i] = (i·mult + 1) mod q; returns Σ (i+1)·BitReverse(v)[i] mod 2^61−1 (no uint64 overflow: mult·2^(2·logn) < 2^62 is checked by
// the executor) and whether a second BitReverse restores v exactly (involution; Go side only, the model answers 1)
func (p *c10pkg[E, P, D]) BitRevBig(logn int, mult uint64) (uint64, bool) {
	n := uint64(1) << logn
	a := make([]E, n)
	const m61 = (uint64(1) << 61) - 1
	// the harness' own loops (fill / digest / compare) run on up to 8 workers; BitReverse itself is called as is
	workers := uint64(min(8, runtime.NumCPU()))
	if n < 1<<16 {
		workers = 1
	}
	each := func(f func(lo, hi uint64)) {
		var wg sync.WaitGroup
		for w := uint64(0); w < workers; w++ {
			wg.Add(1)
			go func(lo, hi uint64) { defer wg.Done(); f(lo, hi) }(w*n/workers, (w+1)*n/workers)
		}
		wg.Wait()
	}
	each(func(lo, hi uint64) {
		for i := lo; i < hi; i++ {
			P(&a[i]).SetUint64(i*mult + 1)
		}
	})
	p.bitrev(a)
	var acc, bad atomic.Uint64
	each(func(lo, hi uint64) {
		s := uint64(0)
		for i := lo; i < hi; i++ {
			s = (s + (i+1)*P(&a[i]).Uint64()) % m61
		}
		for { // acc = (acc + s) mod m61
			old := acc.Load()
			if acc.CompareAndSwap(old, (old+s)%m61) {
				break
			}
		}
	})
	p.bitrev(a)
	each(func(lo, hi uint64) {
		var e E
		for i := lo; i < hi; i++ {
			P(&e).SetUint64(i*mult + 1)
			if a[i] != e {
				bad.Add(1)
				return
			}
		}
	})
	if logn >= 24 { // give the (up to 6 GB) vector back before the next op allocates its own
		a = nil
		debug.FreeOSMemory()
	}
	return acc.Load(), bad.Load() == 0
}
func (p *c10pkg[E, P, D]) DomainInfo(m uint64, shift *big.Int) []*big.Int {
	var sh *E
	if shift != nil {
		sh = new(E)
		P(sh).SetBigInt(shift)
	}
	d := p.newDomain(m, false, sh)
	card, f := p.fields(d)
	return []*big.Int{new(big.Int).SetUint64(card), p.big(f[1]), p.big(f[2]), p.big(f[0]), p.big(f[3]), p.big(f[4])}
}

// reader handing out at most `chunk` bytes per Read call
type chunkReader struct {
	r     io.Reader
	chunk int
}

func (c *chunkReader) Read(b []byte) (int, error) {
	if len(b) > c.chunk {
		b = b[:c.chunk]
	}
	return c.r.Read(b)
}

func (p *c10pkg[E, P, D]) ReadFrom(chunk int, c c10cfg, v []*big.Int) string {
	d := p.domain(c)
	var buf bytes.Buffer
	w, err := p.writeTo(d, &buf)
	if err != nil || int(w) != buf.Len() {
		return "err:write"
	}
	size := buf.Len()
	buf.Write([]byte{0xde, 0xad, 0xbe, 0xef, 0x01}) // the stream continues after the domain
	d2, n, err := p.readFrom(&chunkReader{&buf, chunk})
	if err != nil {
		return "err:read"
	}
	c1, f1 := p.fields(d)
	c2, f2 := p.fields(d2)
	same := c1 == c2 && int(n) == size
	for i := range f1 {
		same = same && p.big(f1[i]).Cmp(p.big(f2[i])) == 0
	}
	a := p.vec(v)
	p.apply(d2, "fft", c, a)
	return boolStr(same) + " " + c10vec(p.unvec(a))
}

// receiver token of `readinto`: zero | <logn ≤ c>:<0|1>:<shift|->:<n|r>  (mirror of Model/FFT.lean rcvOK)
func c10parseRcv(s string) (zero bool, c c10cfg, viaRead bool, ok bool) {
	if s == "zero" {
		return true, c, false, true
	}
	t := strings.Split(s, ":")
	if len(t) != 4 {
		return
	}
	l, ok1 := c10hexInt(t[0])
	if !ok1 || l > 12 || (t[1] != "0" && t[1] != "1") || (t[3] != "n" && t[3] != "r") {
		return
	}
	c = c10cfg{logn: l, precomp: t[1] == "1"}
	if t[2] != "-" {
		v, good := new(big.Int).SetString(t[2], 16)
		if !good || v.Sign() < 0 {
			return
		}
		c.shift = v
	}
	return false, c, t[3] == "r", true
}

// ReadFrom INTO a receiver that already holds a domain (token rcv): the source domain c is serialised, decoded into the receiver, and the
// receiver is then observed: bytes read, exported fields, precompute flag, and either five transforms of v (FFT DIF/DIT on the coset,
// FFTInverse DIF/DIT on the coset, FFT DIF) or (tab) the four table accessors checked against the powers of the decoded shift / generator
func (p *c10pkg[E, P, D]) ReadInto(chunk int, rcv string, c c10cfg, v []*big.Int, tab bool) string {
	zero, rc, viaRead, ok := c10parseRcv(rcv)
	if !ok {
		return "bad-op"
	}
	d := new(D)
	if !zero {
		d = p.domain(rc)
		if viaRead { // the receiver was itself filled by an earlier ReadFrom
			var b0 bytes.Buffer
			if _, err := p.writeTo(d, &b0); err != nil {
				return "err:write"
			}
			d = new(D)
			if _, err := p.readInto(d, &b0); err != nil {
				return "err:read"
			}
		}
	}
	var buf bytes.Buffer
	w, err := p.writeTo(p.domain(c), &buf)
	if err != nil || int(w) != buf.Len() {
		return "err:write"
	}
	buf.Write([]byte{0xde, 0xad, 0xbe, 0xef, 0x01}) // the stream continues after the domain
	n, err := p.readInto(d, &chunkReader{&buf, chunk})
	if err != nil {
		return "err:read"
	}
	card, f := p.fields(d)
	out := fmt.Sprintf("%x %x %s %s %s %s %s %s", n, card, hexBig(p.big(f[0])), hexBig(p.big(f[1])), hexBig(p.big(f[2])),
		hexBig(p.big(f[3])), hexBig(p.big(f[4])), boolStr(p.precompFlag(d)))
	if tab {
		ct, cti, tw, twi := p.tables(d)
		pows := func(t []E, w E, n uint64) string {
			if t == nil {
				return "err"
			}
			if uint64(len(t)) != n {
				return "stale"
			}
			var one, acc E
			P(&one).SetUint64(1)
			acc = one
			for i := range t {
				if t[i] != acc {
					return "stale"
				}
				x, y := p.big(acc), p.big(w)
				P(&acc).SetBigInt(x.Mul(x, y).Mod(x, p.modulus))
			}
			return "ok"
		}
		stages := func(t [][]E, w E) string {
			if t == nil {
				return "err"
			}
			nbStages := 0
			for uint64(1)<<nbStages < card {
				nbStages++
			}
			if len(t) != nbStages {
				return "stale"
			}
			if nbStages == 0 {
				return "ok"
			}
			if r := pows(t[0], w, 1+card/2); r != "ok" {
				return r
			}
			for i := 1; i < nbStages; i++ {
				if len(t[i]) != 1+(1<<(nbStages-i-1)) {
					return "stale"
				}
				for j := range t[i] {
					if t[i][j] != t[0][j<<i] {
						return "stale"
					}
				}
			}
			return "ok"
		}
		return out + " " + pows(ct, f[3], card) + " " + pows(cti, f[4], card) + " " + stages(tw, f[1]) + " " + stages(twi, f[2])
	}
	if uint64(len(v)) != card {
		return out + " -"
	}
	for _, k := range [][3]bool{{true, true, false}, {false, true, false}, {true, true, true}, {false, true, true}, {true, false, false}} {
		a := p.vec(v)
		if k[2] {
			p.inv(d, a, k[0], k[1], 0)
		} else {
			p.fft(d, a, k[0], k[1], 0)
		}
		out += " " + c10vec(p.unvec(a))
	}
	return out
}

func (p *c10pkg[E, P, D]) WriteBytes(c c10cfg) []byte {
	var buf bytes.Buffer
	if _, err := p.writeTo(p.domain(c), &buf); err != nil {
		return nil
	}
	return buf.Bytes()
}

// withPrecompute is unexported: observe it as the last byte WriteTo emits
func (p *c10pkg[E, P, D]) precompFlag(d *D) bool {
	var buf bytes.Buffer
	if _, err := p.writeTo(d, &buf); err != nil || buf.Len() == 0 {
		return false
	}
	return buf.Bytes()[buf.Len()-1] != 0
}

// decode arbitrary bytes through a reader returning at most chunk bytes per Read
func (p *c10pkg[E, P, D]) ReadBytes(chunk int, data []byte) string {
	d, n, err := p.readFrom(&chunkReader{bytes.NewReader(data), chunk})
	if err != nil {
		// the count returned with the error = the bytes taken from the reader
		switch {
		case strings.Contains(err.Error(), "EOF"):
			return fmt.Sprintf("err:eof %x", n)
		case strings.Contains(err.Error(), "invalid"):
			return fmt.Sprintf("err:range %x", n)
		}
		return fmt.Sprintf("err:other %x", n)
	}
	card, f := p.fields(d)
	return fmt.Sprintf("%x %x %s %s %s %s %s %s", n, card, hexBig(p.big(f[0])), hexBig(p.big(f[1])), hexBig(p.big(f[2])),
		hexBig(p.big(f[3])), hexBig(p.big(f[4])), boolStr(p.precompFlag(d)))
}

// ---------------------------------------------------------------------------------------------- protocol

func c10vec(v []*big.Int) string {
	if len(v) == 0 {
		return "-"
	}
	s := make([]string, len(v))
	for i := range v {
		s[i] = hexBig(v[i])
	}
	return strings.Join(s, ",")
}
func c10parseVec(s string) []*big.Int {
	if s == "-" {
		return nil
	}
	p := strings.Split(s, ",")
	v := make([]*big.Int, len(p))
	for i := range p {
		v[i] = parseBig(p[i])
	}
	return v
}
func c10hexInt(s string) (int, bool) {
	v, err := strconv.ParseUint(s, 16, 62)
	return int(v), err == nil
}

// <field> <q> <omega> <logn> <dif|dit> <coset> <precomp> <nbTasks> <g> <custom> <vec>
func c10args(a []string) (c10field, c10cfg, []*big.Int, bool) {
	var c c10cfg
	if len(a) != 11 {
		return nil, c, nil, false
	}
	f, ok := c10fields[a[0]]
	if !ok {
		return nil, c, nil, false
	}
	logn, ok1 := c10hexInt(a[3])
	nb, ok2 := c10hexInt(a[7])
	if !ok1 || !ok2 || logn > 24 || (a[4] != "dif" && a[4] != "dit") {
		return nil, c, nil, false
	}
	c = c10cfg{logn: logn, dif: a[4] == "dif", coset: a[5] == "1", precomp: a[6] == "1", nb: nb}
	g := parseBig(a[8])
	if a[9] == "1" {
		c.shift = g
	} else if g.Cmp(f.MulGen()) != 0 {
		return nil, c, nil, false
	}
	// the constants on the line are the ones of the real package
	if parseBig(a[1]).Cmp(f.Q()) != 0 || parseBig(a[2]).Cmp(f.Omega(logn)) != 0 {
		return nil, c, nil, false
	}
	v := c10parseVec(a[10])
	if len(v) != 1<<logn {
		return nil, c, nil, false
	}
	return f, c, v, true
}

func execC10(a []string) string {
	if len(a) == 0 {
		return "bad-op"
	}
	switch a[0] {
	case "big":
		return execC10big(a[1:])
	case "gen":
		return execC10gen(a[1:])
	case "stream":
		return execC10stream(a[1:])
	case "fft", "inv", "roundtrip", "rtinv":
		f, c, v, ok := c10args(a[1:])
		if !ok {
			return "bad-op"
		}
		return c10vec(f.Transform(a[0], c, v))
	case "readfrom":
		if len(a) < 2 {
			return "bad-op"
		}
		chunk, ok0 := c10hexInt(a[1])
		f, c, v, ok := c10args(a[2:])
		if !ok || !ok0 || chunk < 1 {
			return "bad-op"
		}
		return f.ReadFrom(chunk, c, v)
	case "readinto", "readintotab": // <chunk> <rcv> + the common argument block (source domain; dec / coset / nbTasks unused)
		if len(a) < 3 {
			return "bad-op"
		}
		chunk, ok0 := c10hexInt(a[1])
		if _, _, _, okr := c10parseRcv(a[2]); !okr {
			return "bad-op"
		}
		f, c, v, ok := c10args(a[3:])
		if !ok || !ok0 || chunk < 1 {
			return "bad-op"
		}
		return f.ReadInto(chunk, a[2], c, v, a[0] == "readintotab")
	case "write": // <field> <q> <omega> <logn> <precomp> <g> <custom> <nbytes>
		if len(a) != 9 {
			return "bad-op"
		}
		f, ok := c10fields[a[1]]
		if !ok {
			return "bad-op"
		}
		logn, ok1 := c10hexInt(a[4])
		nb, ok2 := c10hexInt(a[8])
		if !ok1 || !ok2 || logn > 12 || nb != f.NBytes() || parseBig(a[2]).Cmp(f.Q()) != 0 || parseBig(a[3]).Cmp(f.Omega(logn)) != 0 {
			return "bad-op"
		}
		c := c10cfg{logn: logn, precomp: a[5] == "1"}
		if a[7] == "1" {
			c.shift = parseBig(a[6])
		} else if parseBig(a[6]).Cmp(f.MulGen()) != 0 {
			return "bad-op"
		}
		return hexBytes(f.WriteBytes(c))
	case "read": // <field> <q> <nbytes> <chunk> <bytes>
		if len(a) != 6 {
			return "bad-op"
		}
		f, ok := c10fields[a[1]]
		if !ok {
			return "bad-op"
		}
		nb, ok1 := c10hexInt(a[3])
		chunk, ok2 := c10hexInt(a[4])
		data := parseBytes(a[5])
		if !ok1 || !ok2 || chunk < 1 || data == nil || nb != f.NBytes() || parseBig(a[2]).Cmp(f.Q()) != 0 {
			return "bad-op"
		}
		return f.ReadBytes(chunk, data)
	case "bitrev":
		if len(a) != 4 {
			return "bad-op"
		}
		f, ok := c10fields[a[1]]
		logn, ok1 := c10hexInt(a[2])
		v := c10parseVec(a[3])
		if !ok || !ok1 || logn > 24 || len(v) != 1<<logn {
			return "bad-op"
		}
		return c10vec(f.BitRev(v))
	case "bitrevbig":
		if len(a) != 5 {
			return "bad-op"
		}
		f, ok := c10fields[a[1]]
		logn, ok1 := c10hexInt(a[3])
		mult, ok2 := c10hexInt(a[4])
		if !ok || !ok1 || !ok2 || logn > 28 || mult < 1 || mult >= 1<<16 || uint64(mult)<<(2*logn) >= 1<<62 || parseBig(a[2]).Cmp(f.Q()) != 0 {
			return "bad-op"
		}
		dg, invol := f.BitRevBig(logn, uint64(mult))
		return strconv.FormatUint(dg, 16) + " " + boolStr(invol)
	case "domain": // <field> <q> <root> <s> <mulgen> <custom> <m>
		if len(a) != 8 {
			return "bad-op"
		}
		f, ok := c10fields[a[1]]
		if !ok {
			return "bad-op"
		}
		s, ok1 := c10hexInt(a[4])
		m, err := strconv.ParseUint(a[7], 16, 64)
		if !ok1 || err != nil || s > 62 {
			return "bad-op"
		}
		// s and the root are not asked from Generator's own bound: s = v2(q-1), root = Generator(2^s) or `-` when the package has none
		sq, root := c10root(f)
		mg := parseBig(a[5])
		var shift *big.Int
		if a[6] == "1" {
			shift = mg
		} else if mg.Cmp(f.MulGen()) != 0 {
			return "bad-op"
		}
		if s != sq || parseBig(a[2]).Cmp(f.Q()) != 0 || a[3] != root {
			return "bad-op"
		}
		r := f.DomainInfo(m, shift)
		// exact order of the generator, computed here with math/big
		q := f.Q()
		x := r[0]
		one := new(big.Int).Mod(big.NewInt(1), q)
		ord := new(big.Int).Exp(r[1], x, q).Cmp(one) == 0
		if x.Cmp(big.NewInt(1)) > 0 {
			half := new(big.Int).Rsh(x, 1)
			ord = ord && new(big.Int).Exp(r[1], half, q).Cmp(new(big.Int).Sub(q, big.NewInt(1))) == 0
		}
		out := make([]string, 0, 7)
		for _, v := range r {
			out = append(out, hexBig(v))
		}
		return join(append(out, boolStr(ord)))
	}
	return "bad-op"
}

// ---------------------------------------------------------------------------------------------- generation

func (g *gen) c10line(kind string, f c10field, c c10cfg, v []*big.Int) {
	gs, custom := f.MulGen(), "0"
	if c.shift != nil {
		gs, custom = c.shift, "1"
	}
	dec := "dit"
	if c.dif {
		dec = "dif"
	}
	g.emit("C10 %s %s %s %s %x %s %s %s %x %s %s %s", kind, f.Name(), hexBig(f.Q()), hexBig(f.Omega(c.logn)), c.logn, dec,
		boolStr(c.coset), boolStr(c.precomp), c.nb, hexBig(gs), custom, c10vec(v))
}

func (g *gen) c10randVec(f c10field, n int) []*big.Int {
	v := make([]*big.Int, n)
	mode := g.rng.intn(4)
	for i := range v {
		switch mode {
		case 0: // small entries (short lines)
			v[i] = big.NewInt(int64(g.rng.intn(1 << 16)))
		case 1: // sparse with extreme values
			switch g.rng.intn(6) {
			case 0:
				v[i] = new(big.Int).Sub(f.Q(), big.NewInt(1))
			case 1:
				v[i] = big.NewInt(1)
			default:
				v[i] = big.NewInt(0)
			}
		default:
			v[i] = g.rng.bigBelow(f.Q())
		}
	}
	return v
}

var c10tasks = []int{0, 1, 2, 3, 8, 16, 512, 5, 64, 511}

func genC10(g *gen) {
	for _, name := range c10order {
		f := c10fields[name]
		q := f.Q()
		shiftOrNil := func() *big.Int {
			if g.rng.intn(3) == 0 {
				s := g.rng.bigBelow(q)
				if s.Sign() == 0 {
					s.SetInt64(1)
				}
				return s
			}
			return nil
		}
		cfgs := func(logn int, fn func(c c10cfg)) {
			for k := 0; k < 8; k++ {
				fn(c10cfg{logn: logn, dif: k&1 == 1, coset: k&2 == 2, precomp: k&4 == 4,
					nb: c10tasks[g.rng.intn(len(c10tasks))], shift: shiftOrNil()})
			}
		}
		// (a) basis vectors: complete comparison of the linear maps for small sizes
		for logn := 0; logn <= g.budget(3, 5); logn++ {
			cfgs(logn, func(c c10cfg) {
				for j := 0; j < 1<<logn; j++ {
					v := make([]*big.Int, 1<<logn)
					for i := range v {
						v[i] = big.NewInt(0)
					}
					v[j] = g.rng.bigBelow(q)
					g.c10line("fft", f, c, v)
					if logn <= 2 {
						g.c10line("inv", f, c, v)
					}
				}
			})
		}
		// (b) random vectors, every size (32/256 kernels, their neighbours, table start stage 3, split thresholds)
		maxLog := g.budget(10, 13)
		for logn := 0; logn <= maxLog; logn++ {
			reps := 1
			if logn >= 5 && logn <= 9 {
				reps = g.budget(1, 3)
			}
			for r := 0; r < reps; r++ {
				cfgs(logn, func(c c10cfg) {
					if logn >= 9 && !g.thorough() && g.rng.intn(2) == 0 {
						return
					}
					n := 1 << logn
					g.c10line("fft", f, c, g.c10randVec(f, n))
					g.c10line("inv", f, c, g.c10randVec(f, n))
					if g.rng.coin() {
						g.c10line("roundtrip", f, c, g.c10randVec(f, n))
					} else {
						g.c10line("rtinv", f, c, g.c10randVec(f, n))
					}
				})
			}
		}
		// every task count class on the sizes where splitting happens
		for _, nb := range []int{1, 2, 3, 8, 16, 512} {
			for _, logn := range []int{6, 7, 9} {
				c := c10cfg{logn: logn, dif: g.rng.coin(), coset: g.rng.coin(), precomp: g.rng.coin(), nb: nb}
				g.c10line("fft", f, c, g.c10randVec(f, 1<<logn))
			}
		}
		// table-less domains reaching the kernels at stage 3 (2^8 → 32-kernel, 2^11 → 256-kernel), and one large size
		for _, logn := range []int{8, 11, g.budget(11, 14)} {
			for _, dif := range []bool{true, false} {
				c := c10cfg{logn: logn, dif: dif, coset: g.rng.coin(), precomp: false, nb: c10tasks[g.rng.intn(len(c10tasks))]}
				g.c10line("fft", f, c, g.c10randVec(f, 1<<logn))
				c.precomp = true
				g.c10line("roundtrip", f, c, g.c10randVec(f, 1<<logn))
			}
		}
		// (c) BitReverse
		for logn := 0; logn <= g.budget(9, 12); logn++ {
			v := make([]*big.Int, 1<<logn)
			off := g.rng.intn(1 << 20)
			for i := range v {
				v[i] = big.NewInt(int64(off + 3*i))
			}
			g.emit("C10 bitrev %s %x %s", name, logn, c10vec(v))
		}
		// (d) domain constants
		s, root := c10root(f) // s = v2(q-1): the field's two-adicity, not the bound Generator enforces
		ms := []uint64{0, 1, 2, 3, 4, 5, 7, 8, 9, 31, 32, 33, 255, 256, 257, 1 << 20, 1<<20 + 1, 1<<uint(s) - 1, 1 << uint(s),
			1<<uint(s) + 1, 1 << uint(s+1), 1 << 63, 1<<63 + 1, ^uint64(0)}
		for i := 0; i < g.budget(4, 40); i++ {
			ms = append(ms, g.rng.u64()>>uint(g.rng.intn(64)))
		}
		for _, m := range ms {
			mg, custom := f.MulGen(), "0"
			if sh := shiftOrNil(); sh != nil {
				mg, custom = sh, "1"
			}
			g.emit("C10 domain %s %s %s %x %s %s %x", name, hexBig(q), root, s, hexBig(mg), custom, m)
		}
		// (e) serialisation through readers with every chunking
		nbytes := f.NBytes()
		for _, chunk := range []int{1, 2, 7, 8, nbytes - 1, nbytes, nbytes + 1, 2 * nbytes, 1 << 20} {
			if chunk < 1 {
				continue
			}
			for _, logn := range []int{0, 3, 6} {
				c := c10cfg{logn: logn, dif: g.rng.coin(), coset: true, precomp: g.rng.coin(), nb: 1, shift: shiftOrNil()}
				var buf strings.Builder
				fmt.Fprintf(&buf, "C10 readfrom %x", chunk)
				gs, custom := f.MulGen(), "0"
				if c.shift != nil {
					gs, custom = c.shift, "1"
				}
				dec := "dit"
				if c.dif {
					dec = "dif"
				}
				g.emit("%s %s %s %s %x %s %s %s %x %s %s %s", buf.String(), name, hexBig(q), hexBig(f.Omega(logn)), logn, dec,
					boolStr(c.coset), boolStr(c.precomp), c.nb, hexBig(gs), custom, c10vec(g.c10randVec(f, 1<<logn)))
			}
		}
	}
	// (e'') ReadFrom INTO a dirty receiver (ops readinto / readintotab): receiver in {zero Domain; same size: default shift with tables,
	// another custom shift with / without tables, made by NewDomain or by an earlier ReadFrom; another size with / without tables}
	// x source in {default shift, custom shift} x {with, without precompute}; the size 2^3 and one more size per package get the full
	// product. `readintotab` (the four table accessors) is NOT generated for the sub-class "receiver holds tables, source serialised
	// WithoutPrecompute": there the unchanged packages return the receiver's OLD tables from CosetTable() / Twiddles() instead of an
	// error (reported; the executor and the model answer those lines: model `err err err err`)
	for _, name := range c10order {
		f := c10fields[name]
		q := f.Q()
		nbytes := f.NBytes()
		shift := func(not *big.Int) *big.Int {
			for {
				s := g.rng.bigBelow(q)
				if s.Cmp(big.NewInt(1)) > 0 && (not == nil || s.Cmp(not) != 0) && s.Cmp(f.MulGen()) != 0 {
					if g.rng.intn(3) == 0 {
						s.SetInt64(int64(2 + g.rng.intn(200)))
						if not != nil && s.Cmp(not) == 0 || s.Cmp(f.MulGen()) == 0 {
							continue
						}
					}
					return s
				}
			}
		}
		logns := []int{3, []int{0, 1, 2, 4, 5, 6}[g.rng.intn(6)]}
		if g.thorough() {
			logns = []int{0, 1, 2, 3, 4, 5, 6, 8}
		}
		chunks := []int{1 << 20, nbytes, 1, nbytes + 1, 7}
		cnt := 0
		for _, logn := range logns {
			for srcK := 0; srcK < 4; srcK++ {
				other := logn + 1 + g.rng.intn(3)
				if logn > 0 && g.rng.coin() {
					other = g.rng.intn(logn)
				}
				var srcShift *big.Int
				if srcK&1 == 1 {
					srcShift = shift(nil)
				}
				src := c10cfg{logn: logn, dif: true, coset: true, precomp: srcK&2 == 2, shift: srcShift}
				sh := func() string { return hexBig(shift(srcShift)) }
				rcvs := []struct {
					tok    string
					tables bool
				}{
					{"zero", false},
					{fmt.Sprintf("%x:1:-:n", logn), true},
					{fmt.Sprintf("%x:1:%s:n", logn, sh()), true},
					{fmt.Sprintf("%x:0:%s:n", logn, sh()), false},
					{fmt.Sprintf("%x:1:%s:r", logn, sh()), true},
					{fmt.Sprintf("%x:0:-:r", logn), false},
					{fmt.Sprintf("%x:1:%s:n", other, sh()), true},
					{fmt.Sprintf("%x:0:-:n", other), false},
					{fmt.Sprintf("%x:1:-:r", other), true},
				}
				for _, r := range rcvs {
					gs, custom := f.MulGen(), "0"
					if src.shift != nil {
						gs, custom = src.shift, "1"
					}
					emit := func(op string) {
						g.emit("C10 %s %x %s %s %s %s %x dif 1 %s 0 %s %s %s", op, chunks[cnt%len(chunks)], r.tok, name, hexBig(q), hexBig(f.Omega(logn)), logn,
							boolStr(src.precomp), hexBig(gs), custom, c10vec(g.c10randVec(f, 1<<logn)))
						cnt++
					}
					emit("readinto")
					if g.thorough() || logn == 3 || g.rng.coin() {
						emit("readintotab")
					}
				}
			}
		}
	}
	// (e') byte level: WriteTo output, ReadFrom on valid / truncated / out-of-range / continued streams
	for _, name := range c10order {
		f := c10fields[name]
		q, nb := f.Q(), f.NBytes()
		for i := 0; i < g.budget(6, 30); i++ {
			logn := g.rng.intn(9)
			c := c10cfg{logn: logn, precomp: g.rng.coin()}
			gs, custom := f.MulGen(), "0"
			if g.rng.coin() {
				c.shift, custom = g.rng.bigBelow(q), "1"
				if c.shift.Sign() == 0 {
					c.shift.SetInt64(1)
				}
				gs = c.shift
			}
			g.emit("C10 write %s %s %s %x %s %s %s %x", name, hexBig(q), hexBig(f.Omega(logn)), logn, boolStr(c.precomp), hexBig(gs), custom, nb)
			valid := f.WriteBytes(c)
			full := 1 << 16
			// well-formed stream, every chunking (chunk < nb exposes the short-read defect)
			for _, chunk := range []int{full, nb, nb + 1, 1, nb - 1, 3} {
				if chunk >= 1 {
					g.emit("C10 read %s %s %x %x %s", name, hexBig(q), nb, chunk, hexBytes(append(append([]byte{}, valid...), g.rng.bytes(g.rng.intn(4))...)))
				}
			}
			// truncated at a field boundary / anywhere
			cut := 8 + nb*g.rng.intn(6)
			g.emit("C10 read %s %s %x %x %s", name, hexBig(q), nb, full, hexBytes(valid[:cut]))
			g.emit("C10 read %s %s %x %x %s", name, hexBig(q), nb, full, hexBytes(valid[:g.rng.intn(len(valid))]))
			// an element ≥ q, the last byte ≠ 0/1, arbitrary cardinality (no tables: flag byte 0)
			bad := append([]byte{}, valid...)
			k := 8 + nb*g.rng.intn(5)
			for j := 0; j < nb; j++ {
				bad[k+j] = 0xff
			}
			bad[len(bad)-1] = 0
			g.emit("C10 read %s %s %x %x %s", name, hexBig(q), nb, full, hexBytes(bad))
			odd := append([]byte{}, valid...)
			copy(odd[:8], g.rng.bytes(8))
			odd[len(odd)-1] = 0
			g.emit("C10 read %s %s %x %x %s", name, hexBig(q), nb, full, hexBytes(odd))
			flag := append([]byte{}, valid...)
			flag[len(flag)-1] = byte(2 + g.rng.intn(254))
			g.emit("C10 read %s %s %x %x %s", name, hexBig(q), nb, nb, hexBytes(flag))
		}
		g.emit("C10 read %s %s %x %x -", name, hexBig(q), nb, 8)
	}
	// (f) every bit-reversal routine of every package, by streaming digest + involution (bitreverse.go):
	//   koalabear, babybear: bitReverseNaive at every size (the only routine);
	//   goldilocks and the 7 ecc/*/fr/fft (one template, amd64): len < 2^21 naive (also (c)), len = 2^k, k = 21…27: the unrolled
	//   bitReverseCobraInPlace_9_k, len > 2^27: the generic bitReverseCobraInPlace (arm64: naive everywhere).
	//   quick: _9_21 of all 8 packages, _9_22…_9_25 of goldilocks (8-byte elements), one further size per ecc package in turn;
	//   thorough: all 7 unrolled routines of all 8 packages, the generic one at 2^28 for goldilocks (2 GB; 8–12 GB for the others: left out)
	brBig := func(name string, logn int) {
		maxMult := 1 << 16
		if 62-2*logn < 16 {
			maxMult = 1 << (62 - 2*logn)
		}
		g.emit("C10 bitrevbig %s %s %x %x", name, hexBig(c10fields[name].Q()), logn, 1+g.rng.intn(maxMult-1))
	}
	naiveOnly := map[string]bool{"koalabear": true, "babybear": true}
	k := 0
	for _, name := range c10order {
		switch {
		case naiveOnly[name]:
			brBig(name, 21)
			if g.thorough() {
				brBig(name, 24)
				brBig(name, 27)
			}
		case g.thorough():
			for logn := 21; logn <= 27; logn++ {
				brBig(name, logn)
			}
			if name == "goldilocks" {
				brBig(name, 28)
			}
		case name == "goldilocks":
			for logn := 21; logn <= 25; logn++ {
				brBig(name, logn)
			}
		default:
			brBig(name, 21)
			brBig(name, 22+(k+g.rng.intn(3))%3)
			k++
		}
	}
	// Generator at every log-size, several domains on one stream (c10_stream.go)
	genC10gen(g)
	genC10stream(g)
	// (h) large transforms by digest (c10_big.go)
	genC10big(g)
	// (g) malformed lines
	g.emit("C10 fft bn254 1 1 0 dif 0 1 1 5 0")
	g.emit("C10 fft nofield 1 1 0 dif 0 1 1 5 0 1")
	g.emit("C10 frobnicate")
	if f, ok := c10fields["bn254"]; ok {
		tail := fmt.Sprintf("bn254 %s %s 1 dif 1 1 0 %s 0 1,2", hexBig(f.Q()), hexBig(f.Omega(1)), hexBig(f.MulGen()))
		g.emit("C10 readinto 8 zz %s", tail)         // unknown receiver
		g.emit("C10 readinto 8 1:1:-: %s", tail)     // receiver: how it was made is missing
		g.emit("C10 readinto 8 1:2:-:n %s", tail)    // receiver: flag
		g.emit("C10 readinto 8 d:1:-:n %s", tail)    // receiver too large
		g.emit("C10 readintotab 8 1:1:g:n %s", tail) // receiver: shift not hex
		// vector length
		g.emit("C10 readinto 8 zero bn254 %s %s 1 dif 1 1 0 %s 0 1,2,3", hexBig(f.Q()), hexBig(f.Omega(1)), hexBig(f.MulGen()))
		g.emit("C10 readinto 8 zero")
		g.emit("C10 readintotab")
	}
	g.emit("C10 bitrev bn254 2 1,2,3")
	g.emit("C10")
}

func init() {
	executors["C10"] = execC10
	generators["C10"] = genC10
}
