package main

// C11 — multi-component forgeries that cancel under a DEGENERATE folding combination (same op lines `multi` / `batch1`).
//
// multi:  the error of claim k is e_k = c_k − v_k − (τ − z_k)·h_k; BatchVerifyMultiPoints must test Σ λ_k e_k = 0 with λ₀ = 1 and
//         independent random λ_k. A verifier whose coefficients are equal on some slots (1,λ,λ,λ²,λ²… / one λ for all / all 1),
//         zero from some slot on, opposite, or fixed constants (k+1, 2^k) accepts errors with Σ w_k e_k = 0 for that w. Every
//         line below carries ≥ 1 non-zero e_k with Σ w_k e_k = 0 for such a w and Σ λ_k e_k ≠ 0 for the λ on the line (pairwise
//         distinct, ∉ {0,1}): the model rejects; Go (own λ from crypto/rand) must reject except with probability ~ n/r.
//         Each e_k is realised on the claimed value, the digest, the quotient (÷(τ − z_k)) or split between value and quotient.
// batch1: the folded relation is Σ γ^k (c_k − v_k) = (τ − z)·h with γ = H(z, digests, values) known to the forger; for a
//         degenerate coefficient vector μ(γ) (all 1 / 1,γ,γ,γ²,γ² / 1,γ,γ,γ… / 1,1,γ,γ² / truncated / reversed) the quotient
//         h := Σ μ_k q_k of two compensating alterations v_i += d, v_j −= d (μ_i = μ_j) — or, in general form, h := Σ μ_k (c_k − v_k)/(τ − z)
//         — satisfies the μ-relation but not the γ-power relation (checked here with the γ on the line; redrawn otherwise).
//         (v_i += d, v_j −= d·γ^(i−j) WOULD be accepted legitimately: such patterns are not used.)

import (
	"math/big"
	"strings"
)

func genC11Cancel(g *gen, name string, c kzgCurve, tuple func(*big.Int, int) (*big.Int, *big.Int, *big.Int, *big.Int),
	tauTok func() (string, *big.Int), distinctLams func(int) []*big.Int) {
	r := c.modulus()
	f := zr{r}
	rnd := func() *big.Int { return g.rng.bigBelow(r) }
	nz := func() *big.Int { // non-zero; small half of the time
		for {
			x := rnd()
			if g.rng.coin() {
				x = big.NewInt(int64(1 + g.rng.intn(3)))
			}
			if x.Sign() != 0 {
				return x
			}
		}
	}
	thorough := g.tier == "thorough"

	// ---------------------------------------------------------------- multi
	// slots: altered positions; w: hypothetical coefficients on those slots (Σ w_k e_k = 0); kinds: realisation per slot (−1 = random)
	multi := func(n int, slots []int, w []*big.Int, kind int) {
		tt, tau := tauTok()
		cs, hs, vs, zs := make([]*big.Int, n), make([]*big.Int, n), make([]*big.Int, n), make([]*big.Int, n)
		for k := 0; k < n; k++ {
			cs[k], hs[k], vs[k], zs[k] = tuple(tau, []int{0, 0, 0, 0, 6, 7}[g.rng.intn(6)])
		}
		var es []*big.Int
		var lams []*big.Int
		for {
			es = es[:0]
			acc := new(big.Int)
			for k := 0; k < len(slots)-1; k++ {
				e := nz()
				es = append(es, e)
				acc = f.add(acc, f.mul(w[k], e))
			}
			last := len(slots) - 1
			var e *big.Int
			if f.norm(w[last]).Sign() == 0 { // coefficient 0: any error is invisible
				if acc.Sign() != 0 {
					continue
				}
				e = nz()
			} else {
				e = f.mul(f.sub(new(big.Int), acc), f.inv(w[last]))
			}
			if e.Sign() == 0 {
				continue
			}
			es = append(es, e)
			// the honest combination must see it
			lams = distinctLams(n)
			tot := new(big.Int)
			for k, sl := range slots {
				tot = f.add(tot, f.mul(lams[sl], es[k]))
			}
			if tot.Sign() != 0 {
				break
			}
		}
		for k, sl := range slots {
			e := es[k]
			kd := kind
			if kd < 0 {
				kd = g.rng.intn(4)
			}
			tz := f.sub(tau, zs[sl])
			if tz.Sign() == 0 && kd >= 2 { // quotient unconstrained at z = τ
				kd -= 2
			}
			switch kd {
			case 0:
				vs[sl] = f.sub(vs[sl], e)
			case 1:
				cs[sl] = f.add(cs[sl], e)
			case 2:
				hs[sl] = f.sub(hs[sl], f.mul(e, f.inv(tz)))
			case 3: // e = e1 + e2: value and quotient together
				e1 := nz()
				e2 := f.sub(e, e1)
				vs[sl] = f.sub(vs[sl], e1)
				hs[sl] = f.sub(hs[sl], f.mul(e2, f.inv(tz)))
			}
		}
		hv := make([]string, n)
		for k := range hv {
			hv[k] = hexBig(hs[k]) + ":" + hexBig(vs[k])
		}
		g.emit("C11 multi %s %s %s %s %s %s", name, tt, showBigList(lams), showBigList(cs), strings.Join(hv, ","), showBigList(zs))
	}
	one, mone := big.NewInt(1), new(big.Int).Sub(r, big.NewInt(1))
	ones := func(k int) []*big.Int {
		w := make([]*big.Int, k)
		for i := range w {
			w[i] = one
		}
		return w
	}
	for n := 2; n <= 6; n++ {
		// coefficient 0 on a slot: one false claim at EVERY slot
		for i := 0; i < n; i++ {
			multi(n, []int{i}, []*big.Int{new(big.Int)}, i%4)
		}
		if n < 3 {
			continue
		}
		// equal coefficients on a pair: +d / −d on every pair i<j, every realisation over the pairs (all four in thorough)
		pairNo := 0
		for i := 0; i < n; i++ {
			for j := i + 1; j < n; j++ {
				if thorough {
					for kd := 0; kd < 4; kd++ {
						multi(n, []int{i, j}, ones(2), kd)
					}
				}
				multi(n, []int{i, j}, ones(2), []int{0, 1, 2, 3, -1}[pairNo%5])
				// opposite coefficients: the same error twice
				if thorough || pairNo%3 == n%3 {
					multi(n, []int{i, j}, []*big.Int{one, mone}, -1)
				}
				pairNo++
			}
		}
		// triples (all equal) and fixed-constant coefficient vectors λ_k = k+1, 2^k on a random pair and triple
		for t := 0; t < g.budget(2, 8); t++ {
			a := g.rng.intn(n)
			b := (a + 1 + g.rng.intn(n-1)) % n
			cc := g.rng.intn(n)
			for cc == a || cc == b {
				cc = g.rng.intn(n)
			}
			i, j, k := sort3(a, b, cc)
			multi(n, []int{i, j, k}, ones(3), -1)
			lin := func(x int) *big.Int { return big.NewInt(int64(x + 1)) }
			pw := func(x int) *big.Int { return new(big.Int).Lsh(one, uint(x)) }
			for _, cf := range []func(int) *big.Int{lin, pw} {
				if t%2 == 0 {
					multi(n, []int{i, j}, []*big.Int{cf(i), cf(j)}, -1)
				} else {
					multi(n, []int{i, j, k}, []*big.Int{cf(i), cf(j), cf(k)}, -1)
				}
			}
		}
	}

	// ---------------------------------------------------------------- batch1
	type hyp struct {
		name string
		mu   func(gm *big.Int, n int) []*big.Int
		eq   func(i, j int) bool // μ_i = μ_j for every γ
	}
	pow := func(gm *big.Int, e int) *big.Int { return new(big.Int).Exp(gm, big.NewInt(int64(e)), r) }
	hyps := []hyp{
		{"ones", func(gm *big.Int, n int) []*big.Int { return ones(n) }, func(i, j int) bool { return true }},
		{"skip2", func(gm *big.Int, n int) []*big.Int { // μ_k = μ_{k−2}·γ : 1,γ,γ,γ²,γ²
			w := make([]*big.Int, n)
			for k := range w {
				w[k] = pow(gm, (k+1)/2)
			}
			return w
		}, func(i, j int) bool { return (i+1)/2 == (j+1)/2 }},
		{"stuck", func(gm *big.Int, n int) []*big.Int { // 1,γ,γ,γ,…
			w := make([]*big.Int, n)
			for k := range w {
				w[k] = pow(gm, min(k, 1))
			}
			return w
		}, func(i, j int) bool { return i >= 1 && j >= 1 }},
		{"late", func(gm *big.Int, n int) []*big.Int { // 1,1,γ,γ²,…
			w := make([]*big.Int, n)
			for k := range w {
				w[k] = pow(gm, max(k-1, 0))
			}
			return w
		}, func(i, j int) bool { return i <= 1 && j <= 1 }},
		{"trunc", func(gm *big.Int, n int) []*big.Int { // 1,γ,0,0,…
			w := make([]*big.Int, n)
			for k := range w {
				w[k] = new(big.Int)
				if k < 2 {
					w[k] = pow(gm, k)
				}
			}
			return w
		}, func(i, j int) bool { return i >= 2 && j >= 2 }},
		{"rev", func(gm *big.Int, n int) []*big.Int { // γ^(n−1−k)
			w := make([]*big.Int, n)
			for k := range w {
				w[k] = pow(gm, n-1-k)
			}
			return w
		}, func(i, j int) bool { return false }},
	}
	// i<0: general form (random digests and values, h solves the μ-relation); else v_i += d, v_j −= d on per-claim-true data
	batch1 := func(n int, h hyp, i, j int) {
		for try := 0; try < 50; try++ {
			tt, tau := tauTok()
			z := rnd()
			if try < 40 && g.rng.intn(4) == 0 {
				z = big.NewInt(int64(g.rng.intn(3)))
			}
			if i >= 0 && g.rng.intn(6) == 0 {
				z = tau // every quotient is unconstrained: the relation is Σγ^k(c_k − v_k) = 0
			}
			tz := f.sub(tau, z)
			if i < 0 && tz.Sign() == 0 {
				continue
			}
			cs, vs, qs := make([]*big.Int, n), make([]*big.Int, n), make([]*big.Int, n)
			for k := 0; k < n; k++ {
				vs[k], qs[k] = rnd(), rnd()
				if g.rng.intn(5) == 0 {
					qs[k] = new(big.Int)
				}
				cs[k] = f.add(vs[k], f.mul(tz, qs[k])) // claim k is true with quotient q_k
				if i < 0 {
					cs[k] = rnd()
				}
			}
			if i >= 0 {
				d := nz()
				vs[i] = f.add(vs[i], d)
				vs[j] = f.sub(vs[j], d)
			}
			ds := make([]any, n)
			for k := range ds {
				ds[k] = c.g1(cs[k])
			}
			gm := c.gamma(z, ds, vs)
			mu := h.mu(gm, n)
			hq, miss, gk := new(big.Int), new(big.Int), big.NewInt(1)
			for k := 0; k < n; k++ {
				if i >= 0 {
					hq = f.add(hq, f.mul(mu[k], qs[k]))
				} else {
					hq = f.add(hq, f.mul(mu[k], f.sub(cs[k], vs[k])))
				}
				miss = f.add(miss, f.mul(f.sub(gk, mu[k]), f.sub(cs[k], vs[k])))
				gk = f.mul(gk, gm)
			}
			if i < 0 {
				hq = f.mul(hq, f.inv(tz))
			}
			if miss.Sign() == 0 { // true for the γ powers as well (γ ∈ {0,1}, …): not a forgery
				continue
			}
			g.emit("C11 batch1 %s %s %s %s %s %s %s", name, tt, hexBig(gm), hexBig(z), hexBig(hq), showBigList(cs), showBigList(vs))
			return
		}
	}
	for n := 3; n <= 6; n++ {
		for _, h := range hyps {
			batch1(n, h, -1, 0)
		}
		pairNo := 0
		for i := 0; i < n; i++ {
			for j := i + 1; j < n; j++ {
				var ok []hyp
				for _, h := range hyps {
					if h.eq(i, j) {
						ok = append(ok, h)
					}
				}
				if thorough {
					for _, h := range ok {
						batch1(n, h, i, j)
					}
				} else { // "ones" (every pair) and one more qualifying hypothesis in turn
					batch1(n, ok[0], i, j)
					if len(ok) > 1 {
						batch1(n, ok[1+pairNo%(len(ok)-1)], i, j)
					}
				}
				pairNo++
			}
		}
	}
}

func sort3(a, b, c int) (int, int, int) {
	if a > b {
		a, b = b, a
	}
	if b > c {
		b, c = c, b
	}
	if a > b {
		a, b = b, a
	}
	return a, b, c
}
