package main

// C14 — ring-SIS: RSis.Hash against the schoolbook specification Σ Aᵢ·mᵢ mod (X^d+1).

import (
	"fmt"
	"math/big"
	"strings"
)

type sisPkg struct {
	name, field string
	// key polynomials (rows ';'), hash closure on big.Int vectors
	open func(seed int64, ld, lb, mx int) (a string, hash func(v []*big.Int) ([]*big.Int, error), err error)
}

func mkSis[T any, PT p2Elem[T]](name, field string, newR func(seed int64, ld, lb, mx int) ([][]T, func(v, res []T) error, int, error)) sisPkg {
	return sisPkg{name: name, field: field,
		open: func(seed int64, ld, lb, mx int) (string, func(v []*big.Int) ([]*big.Int, error), error) {
			A, hash, degree, err := newR(seed, ld, lb, mx)
			if err != nil {
				return "", nil, err
			}
			rows := make([]string, len(A))
			for i, row := range A {
				es := make([]string, len(row))
				for j := range row {
					var b big.Int
					PT(&row[j]).BigInt(&b)
					es[j] = b.Text(16)
				}
				rows[i] = strings.Join(es, ",")
			}
			as := "-"
			if len(rows) > 0 {
				as = strings.Join(rows, ";")
			}
			return as, func(v []*big.Int) ([]*big.Int, error) {
				in := make([]T, len(v))
				for i := range v {
					PT(&in[i]).SetBigInt(v[i])
				}
				res := make([]T, degree)
				if err := hash(in, res); err != nil {
					return nil, err
				}
				out := make([]*big.Int, degree)
				for i := range res {
					out[i] = new(big.Int)
					PT(&res[i]).BigInt(out[i])
				}
				return out, nil
			}, nil
		}}
}

func sisByName(n string) *sisPkg {
	for i := range sisPkgs {
		if sisPkgs[i].name == n {
			return &sisPkgs[i]
		}
	}
	return nil
}

// sis|sism <pkg> <seed> <logDeg> <logBound> <maxNb> <A> <v…> …
func execSis(kind string, a []string) string {
	if len(a) < 6 {
		return "bad-op"
	}
	p := sisByName(a[0])
	if p == nil {
		return "bad-op"
	}
	f := fields[p.field]
	seed, ld, lb, mx := int64(c14Hex(a[1])), c14Hex(a[2]), c14Hex(a[3]), c14Hex(a[4])
	as, hash, err := p.open(seed, ld, lb, mx)
	if err != nil {
		return "err:new"
	}
	if as != a[5] {
		return "bad-key"
	}
	R := new(big.Int).Lsh(big.NewInt(1), uint(f.WordBits()*f.Limbs()))
	outs := make([]string, len(a)-6)
	for i, tok := range a[6:] {
		outs[i] = c14Guard(func() string {
			h, err := hash(c14ParseBigs(tok))
			if err != nil {
				return "err"
			}
			if kind == "sism" {
				for j := range h {
					h[j].Mul(h[j], R).Mod(h[j], f.Q())
				}
			}
			return c14ShowBigs(h)
		})
	}
	return join(outs)
}

func genSis(g *gen) {
	type ps struct{ ld, lb, mx int }
	for pi := range sisPkgs {
		p := &sisPkgs[pi]
		f := fields[p.field]
		q := f.Q()
		bounds := []int{8, 16}
		if f.Bytes() >= 8 {
			bounds = append(bounds, 32, 64)
		}
		var sets []ps
		for _, lb := range bounds {
			for _, ld := range []int{0, 1, 2, 3, 6} {
				limbs := f.Bytes() * 8 / lb
				d := 1 << ld
				// 1 polynomial not full, exactly k polynomials, k polynomials + 1 limb
				for _, mx := range []int{1, (2*d + limbs - 1) / limbs, (2*d)/limbs + 1} {
					if mx*limbs <= 4*64 || g.thorough() {
						sets = append(sets, ps{ld, lb, mx})
					}
				}
			}
		}
		if g.thorough() {
			sets = append(sets, ps{9, 16, 64}, ps{9, 8, 40}, ps{7, 16, 100})
		} else if p.name == "koalabear" {
			sets = append(sets, ps{9, 16, 8})
		}
		seen := map[ps]bool{}
		for _, s := range sets {
			if seen[s] {
				continue
			}
			seen[s] = true
			seed := int64(g.rng.intn(1000))
			as, _, err := p.open(seed, s.ld, s.lb, s.mx)
			if err != nil {
				continue
			}
			var toks []string
			top := new(big.Int).Sub(q, big.NewInt(1))
			full := func(v *big.Int, n int) []*big.Int {
				o := make([]*big.Int, n)
				for i := range o {
					o[i] = v
				}
				return o
			}
			toks = append(toks, "-", c14ShowBigs(full(big.NewInt(0), s.mx)), c14ShowBigs(full(top, s.mx)), c14ShowBigs(full(big.NewInt(1), s.mx)),
				c14ShowBigs(full(top, s.mx+1)), c14ShowBigs(c14RandVec(g, q, 1)))
			for i := 0; i < g.budget(3, 20); i++ {
				toks = append(toks, c14ShowBigs(c14RandVec(g, q, g.rng.intn(s.mx+1))))
				toks = append(toks, c14ShowBigs(c14RandVec(g, q, s.mx)))
			}
			for _, kind := range []string{"sis", "sism"} {
				g.emit("C14 %s %s %x %x %x %x %s %s", kind, p.name, seed, s.ld, s.lb, s.mx, as, join(toks))
			}
		}
		// refused parameter sets
		for _, s := range []ps{{2, 0, 4}, {2, 12, 4}, {2, 72, 4}, {2, f.Bytes()*8 + 8, 4}, {2, 24, 4}, {60, 8, 1}} {
			g.emit("C14 sis %s 5 %x %x %x - %s", p.name, s.ld, s.lb, s.mx, fmt.Sprintf("%x", 1))
		}
	}
}
