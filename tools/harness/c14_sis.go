package main

// C14 — ring-SIS: RSis.Hash against the schoolbook specification Σ Aᵢ·mᵢ mod (X^d+1).

//
//	C14 sis|sism <pkg> <seed> <logDeg> <logBound> <maxNb> <A> <v…> …       every input hashed into a fresh (zero) output vector
//	C14 sisd     <pkg> <seed> <logDeg> <logBound> <maxNb> <A> <v>[/g|/f] …  every input hashed into ONE output vector that is
//	             never cleared by the caller: it starts as garbage and then holds the previous digest (the BenchmarkSIS
//	             pattern); `/g`: the caller first fills it with non-zero canonical elements, `/f`: with all-ones limbs
//	             (not even a reduced element). The answer is the content of the output vector after the call, as for `sis`.

import (
	"fmt"
	"math/big"
	"os"
	"reflect"
	"strings"
)

type sisPkg struct {
	name, field, dir string
	// key polynomials (rows ';'), hash closure on big.Int vectors (fresh output vector per call), hash closure into the one
	// dirty output vector of this instance (fill: "" = leave as it is, "g", "f")
	open func(seed int64, ld, lb, mx int) (a string, hash func(v []*big.Int) ([]*big.Int, error),
		hashDirty func(v []*big.Int, fill string) ([]*big.Int, error), err error)
}

// all-ones limbs: not a reduced Montgomery representation of anything
func sisFillOnes[T any](res []T) {
	for i := range res {
		a := reflect.ValueOf(&res[i]).Elem()
		for j := 0; j < a.Len(); j++ {
			a.Index(j).SetUint(^uint64(0) >> (64 - uint(a.Index(j).Type().Bits())))
		}
	}
}

func mkSis[T any, PT p2Elem[T]](name, field, dir string, newR func(seed int64, ld, lb, mx int) ([][]T, func(v, res []T) error, int, error)) sisPkg {
	return sisPkg{name: name, field: field, dir: dir,
		open: func(seed int64, ld, lb, mx int) (string, func(v []*big.Int) ([]*big.Int, error), func(v []*big.Int, fill string) ([]*big.Int, error), error) {
			A, hash, degree, err := newR(seed, ld, lb, mx)
			if err != nil {
				return "", nil, nil, err
			}
			rows := make([]string, len(A))
			for i, row := range A {
				es := make([]string, len(row))
				for j := range row {
					var b big.Int
					PT(&row[j]).BigInt(&b)
					es[j] = b.Text(16)
				}
				rows[i] = strings.Join(es, ",")
			}
			as := "-"
			if len(rows) > 0 {
				as = strings.Join(rows, ";")
			}
			toT := func(v []*big.Int) []T {
				in := make([]T, len(v))
				for i := range v {
					PT(&in[i]).SetBigInt(v[i])
				}
				return in
			}
			show := func(res []T) []*big.Int {
				out := make([]*big.Int, len(res))
				for i := range res {
					out[i] = new(big.Int)
					PT(&res[i]).BigInt(out[i])
				}
				return out
			}
			// the caller's long-lived digest buffer: garbage before the first call, then whatever the last call left in it
			dirty := make([]T, degree)
			calls := uint64(0)
			garbage := func() {
				calls++
				for i := range dirty {
					PT(&dirty[i]).SetBigInt(new(big.Int).SetUint64(0x9e3779b97f4a7c15*(uint64(i)+calls) | 1))
				}
			}
			garbage()
			return as, func(v []*big.Int) ([]*big.Int, error) {
					res := make([]T, degree)
					if err := hash(toT(v), res); err != nil {
						return nil, err
					}
					return show(res), nil
				}, func(v []*big.Int, fill string) ([]*big.Int, error) {
					switch fill {
					case "g":
						garbage()
					case "f":
						sisFillOnes(dirty)
					}
					if err := hash(toT(v), dirty); err != nil {
						return nil, err
					}
					return show(dirty), nil
				}, nil
		}}
}

func sisByName(n string) *sisPkg {
	for i := range sisPkgs {
		if sisPkgs[i].name == n {
			return &sisPkgs[i]
		}
	}
	return nil
}

// sis|sism|sisd <pkg> <seed> <logDeg> <logBound> <maxNb> <A> <v…> …
func execSis(kind string, a []string) string {
	if len(a) < 6 {
		return "bad-op"
	}
	p := sisByName(a[0])
	if p == nil {
		return "bad-op"
	}
	f := fields[p.field]
	seed, ld, lb, mx := int64(c14Hex(a[1])), c14Hex(a[2]), c14Hex(a[3]), c14Hex(a[4])
	as, hash, hashDirty, err := p.open(seed, ld, lb, mx)
	if err != nil {
		return "err:new"
	}
	if as != a[5] {
		return "bad-key"
	}
	R := new(big.Int).Lsh(big.NewInt(1), uint(f.WordBits()*f.Limbs()))
	outs := make([]string, len(a)-6)
	for i, tok := range a[6:] {
		outs[i] = c14Guard(func() string {
			var h []*big.Int
			var err error
			if kind == "sisd" {
				fill := ""
				if k := strings.IndexByte(tok, '/'); k >= 0 {
					tok, fill = tok[:k], tok[k+1:]
				}
				if fill != "" && fill != "g" && fill != "f" {
					return "bad-op"
				}
				h, err = hashDirty(c14ParseBigs(tok), fill)
			} else {
				h, err = hash(c14ParseBigs(tok))
			}
			if err != nil {
				return "err"
			}
			if kind == "sism" {
				for j := range h {
					h[j].Mul(h[j], R).Mod(h[j], f.Q())
				}
			}
			return c14ShowBigs(h)
		})
	}
	return join(outs)
}

// clear the limbs of chunk c (limbs [c·d, (c+1)·d) of the little-endian limb stream, L limbs of lb bits per element)
func sisZeroChunk(v []*big.Int, c, d, L, lb int) []*big.Int {
	out := make([]*big.Int, len(v))
	for i := range v {
		out[i] = new(big.Int).Set(v[i])
	}
	for t := c * d; t < (c+1)*d && t < len(v)*L; t++ {
		e, j := t/L, t%L
		for b := j * lb; b < (j+1)*lb; b++ {
			out[e].SetBit(out[e], b, 0)
		}
	}
	return out
}

// the zero-chunk / dirty-destination message lattice of one parameter set: the empty message, all-zero messages, messages
// shorter than one chunk, full and partial messages whose first / middle / last chunk of `d` limbs is all zero, messages with
// only one non-zero chunk, messages ending exactly on a chunk boundary
func sisDirtyTokens(g *gen, q *big.Int, ld, lb, mx, ebytes int) []string {
	L, d := ebytes*8/lb, 1<<ld
	rnd := func(n int) []*big.Int {
		v := make([]*big.Int, n)
		for i := range v {
			v[i] = g.rng.bigBelow(q)
		}
		return v
	}
	zeros := func(n int) []*big.Int {
		v := make([]*big.Int, n)
		for i := range v {
			v[i] = big.NewInt(0)
		}
		return v
	}
	var special [][]*big.Int
	special = append(special, nil, zeros(1), zeros(mx))
	ns := []int{mx}
	if mx > 1 {
		ns = append(ns, 1+g.rng.intn(mx-1))
	}
	if k := d / L; k >= 1 && k <= mx { // ends exactly on the first chunk boundary
		ns = append(ns, k)
	}
	for _, n := range ns {
		chunks := (n*L + d - 1) / d
		cs := map[int]bool{0: true, chunks / 2: true, chunks - 1: true}
		for c := 0; c < chunks; c++ {
			if !cs[c] {
				continue
			}
			special = append(special, sisZeroChunk(rnd(n), c, d, L, lb))
			// only chunk c is non-zero
			v := rnd(n)
			for o := 0; o < chunks; o++ {
				if o != c {
					v = sisZeroChunk(v, o, d, L, lb)
				}
			}
			special = append(special, v)
		}
	}
	if d > L { // shorter than one chunk
		special = append(special, rnd(1+g.rng.intn(min(mx, (d-1)/L))))
	}
	var toks []string
	for i, m := range special {
		// into fresh garbage (alternating the two kinds), and into the digest left by the previous, unrelated, message
		toks = append(toks, c14ShowBigs(m)+[]string{"/g", "/f"}[i%2])
		toks = append(toks, c14ShowBigs(rnd(mx)), c14ShowBigs(m))
	}
	// an over-long message must leave an error, not a digest; the next call starts from whatever is in the vector
	toks = append(toks, c14ShowBigs(rnd(mx+1)), c14ShowBigs(special[len(special)-1]))
	return toks
}

func genSis(g *gen) {
	type ps struct{ ld, lb, mx int }
	known := map[string]bool{}
	for _, p := range sisPkgs {
		known[p.dir] = true
	}
	for _, d := range missingAdapters(known, "ecc/*/fr/sis", "field/*/sis") {
		fmt.Fprintf(os.Stderr, "c14: ring-SIS package %s has no adapter in tools/harness/c14_sis_gen.go\n", d)
		g.emit("C14 siscover %s", d)
	}
	for pi := range sisPkgs {
		p := &sisPkgs[pi]
		f := fields[p.field]
		q := f.Q()
		bounds := []int{8, 16}
		if f.Bytes() >= 8 {
			bounds = append(bounds, 32, 64)
		}
		var sets []ps
		for _, lb := range bounds {
			for _, ld := range []int{0, 1, 2, 3, 6} {
				limbs := f.Bytes() * 8 / lb
				d := 1 << ld
				// 1 polynomial not full, exactly k polynomials, k polynomials + 1 limb
				for _, mx := range []int{1, (2*d + limbs - 1) / limbs, (2*d)/limbs + 1} {
					if mx*limbs <= 4*64 || g.thorough() {
						sets = append(sets, ps{ld, lb, mx})
					}
				}
			}
		}
		if g.thorough() {
			sets = append(sets, ps{9, 16, 64}, ps{9, 8, 40}, ps{7, 16, 100})
			if p.name == "koalabear" || p.name == "babybear" {
				sets = append(sets, ps{9, 16, 520})
			}
		} else if p.name == "koalabear" || p.name == "babybear" {
			// degree 512, bound 16: the AVX-512 path of the two 31-bit fields; 520 elements = three blocks of 256
			sets = append(sets, ps{9, 16, 8}, ps{9, 16, 520})
		}
		seen := map[ps]bool{}
		for _, s := range sets {
			if seen[s] {
				continue
			}
			seen[s] = true
			seed := int64(g.rng.intn(1000))
			as, _, _, err := p.open(seed, s.ld, s.lb, s.mx)
			if err != nil {
				continue
			}
			var toks []string
			top := new(big.Int).Sub(q, big.NewInt(1))
			full := func(v *big.Int, n int) []*big.Int {
				o := make([]*big.Int, n)
				for i := range o {
					o[i] = v
				}
				return o
			}
			toks = append(toks, "-", c14ShowBigs(full(big.NewInt(0), s.mx)), c14ShowBigs(full(top, s.mx)), c14ShowBigs(full(big.NewInt(1), s.mx)),
				c14ShowBigs(full(top, s.mx+1)), c14ShowBigs(c14RandVec(g, q, 1)))
			for i := 0; i < g.budget(3, 20); i++ {
				toks = append(toks, c14ShowBigs(c14RandVec(g, q, g.rng.intn(s.mx+1))))
				toks = append(toks, c14ShowBigs(c14RandVec(g, q, s.mx)))
			}
			for _, kind := range []string{"sis", "sism"} {
				g.emit("C14 %s %s %x %x %x %x %s %s", kind, p.name, seed, s.ld, s.lb, s.mx, as, join(toks))
			}
			g.emit("C14 sisd %s %x %x %x %x %s %s", p.name, seed, s.ld, s.lb, s.mx, as, join(sisDirtyTokens(g, q, s.ld, s.lb, s.mx, f.Bytes())))
		}
		// refused parameter sets
		for _, s := range []ps{{2, 0, 4}, {2, 12, 4}, {2, 72, 4}, {2, f.Bytes()*8 + 8, 4}, {2, 24, 4}, {60, 8, 1}} {
			g.emit("C14 sis %s 5 %x %x %x - %s", p.name, s.ld, s.lb, s.mx, fmt.Sprintf("%x", 1))
		}
	}
}
