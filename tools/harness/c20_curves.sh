#!/bin/sh
# writes c20_curves.go: one adapter per (iop, polynomial, fft, fr) package quadruple, from c20_curves.tmpl
# (run by hand; the output is checked in; no go:generate)
cd "$(dirname "$0")"
curves="bn254 bls12-377 bls12-381 bls24-315 bls24-317 bw6-633 bw6-761"
{
echo "// Code written by c20_curves.sh from c20_curves.tmpl; DO NOT EDIT"
echo "package main"
echo
echo "import ("
echo '	"bytes"'
echo '	"fmt"'
echo '	"io"'
echo '	"math/big"'
echo '	"math/bits"'
echo '	"reflect"'
echo '	"strconv"'
echo '	"strings"'
echo
for c in $curves; do a=$(echo $c | tr -d '-')
echo "	fr_$a \"github.com/consensys/gnark-crypto/ecc/$c/fr\""
echo "	fft_$a \"github.com/consensys/gnark-crypto/ecc/$c/fr/fft\""
echo "	iop_$a \"github.com/consensys/gnark-crypto/ecc/$c/fr/iop\""
echo "	poly_$a \"github.com/consensys/gnark-crypto/ecc/$c/fr/polynomial\""
done
echo ")"
for c in $curves; do a=$(echo $c | tr -d '-'); echo; sed "s/ALIAS/$a/g; s/NAME/$c/g" c20_curves.tmpl; done
} > c20_curves.go
gofmt -l . || true
