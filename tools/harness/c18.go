package main

// C18 — calls are pure, repeatable and safe to run concurrently on shared inputs.
//
// Op line   : C18 <entry> <curve/field> <k> <goroutines> <gomaxprocs> <seed>      (numbers in hex)
// Go answer : pure=<b> same=<b> conc=<b> [arg=<name of the first argument object whose deep snapshot changed>]
//   pure : no argument object (other than the documented destination, which every call allocates afresh) changed,
//          neither during the k sequential calls nor during the concurrent phase;
//   same : the k sequential calls on the SAME argument objects (interleaved with calls on other objects) all returned
//          the same result;
//   conc : each of the <goroutines> concurrent callers sharing the argument objects obtained the solo result.
// The model answers pure=1 same=1 conc=1 on every line (each entry point is a function of the values of its arguments).
//
// The low 4 bits of <seed> are the SHAPE of the line: shapes 0 and 1 are the two smallest arities / sizes of the family
// (1 pair, 1 polynomial, batch of 1, 1 point, domains of size 1 and 2, the empty message …), shape 2 a large one, shapes
// 3, 4 family specific (e.g. the kind of the large shared fft domain), every other shape draws the sizes at random.
//
// Op line   : C18 fresh <global> <package> <goroutines> <children> <seed>
// Go answer : pure=1 same=1 conc=<b>. The executor computes the values of the entry points that use the lazily
//   initialised <global> of <package> (it is initialised by then), and then <children> times re-executes its own binary
//   with the request in the environment (see c18FreshEarly): the child's very first use of the library is made by <goroutines>
//   goroutines released together (random spin / Gosched jitter, GOMAXPROCS varied per child); each result is compared
//   with the parent's value, then once more sequentially. A wrong value or a crashed child gives conc=0.
//
// Op line   : C18 par <entry> <curve/field> <k> <goroutines> <gomaxprocs> <seed>
// Go answer : pure=<b> same=<b> conc=<b> [arg=…]. The entry point is run at a size ABOVE the threshold at which it switches
//   to its goroutine / parallel.Execute implementation (shape 16 + low 4 bits of <seed>, see c18Par): once with GOMAXPROCS=1
//   (the workers run one after the other: the sequential reference), then <k> times (up to 0x200) alone with
//   GOMAXPROCS=<gomaxprocs> >= 2, then by <goroutines> concurrent callers x2; every result must be the reference
//   (same: the solo repetitions, conc: the concurrent callers), every argument snapshot unchanged after each phase.
//
// Op line   : C18 ranges <n> <nbTasks>   answer: the [start,end) ranges handed to work by internal/parallel.Execute
// (reached with go:linkname because the package is internal), sorted by start, "s:e s:e …" in hex, "-" if none.

import (
	"crypto/sha256"
	"encoding/binary"
	"encoding/hex"
	"fmt"
	"os"
	"os/exec"
	"reflect"
	"runtime"
	"runtime/debug"
	"sort"
	"strconv"
	"strings"
	"sync"
	"sync/atomic"
	"unsafe"
)

//go:linkname c18ParallelExecute github.com/consensys/gnark-crypto/internal/parallel.Execute
func c18ParallelExecute(nbIterations int, work func(int, int), maxCpus ...int)

// ---------------------------------------------------------------------------------------------------------------------
// deep snapshot: a digest of everything reachable from a value (exported and unexported fields, through pointers,
// slices, arrays, maps, interfaces); funcs and channels contribute only their nil-ness.

type deepHasher struct {
	h    interface{ Write([]byte) (int, error) }
	seen map[uintptr]bool
	buf  [8]byte
	// spare: a slice contributes its SPARE CAPACITY too (the elements between len and cap): argument snapshots, so that a
	// callee that appends to / writes behind a window of a larger buffer is seen
	spare bool
}

func (d *deepHasher) u64(x uint64) {
	binary.LittleEndian.PutUint64(d.buf[:], x)
	d.h.Write(d.buf[:])
}

func (d *deepHasher) walk(v reflect.Value) {
	switch v.Kind() {
	case reflect.Bool:
		if v.Bool() {
			d.u64(1)
		} else {
			d.u64(0)
		}
	case reflect.Int, reflect.Int8, reflect.Int16, reflect.Int32, reflect.Int64:
		d.u64(uint64(v.Int()))
	case reflect.Uint, reflect.Uint8, reflect.Uint16, reflect.Uint32, reflect.Uint64, reflect.Uintptr:
		d.u64(v.Uint())
	case reflect.Float32, reflect.Float64:
		d.u64(uint64(int64(v.Float() * 1e6)))
	case reflect.String:
		d.u64(uint64(v.Len()))
		d.h.Write([]byte(v.String()))
	case reflect.Array:
		n := v.Len()
		if n > 0 && v.CanAddr() && c18Plain(v.Type()) {
			// field elements, points, hashes: the memory of the value in one Write (no pointer, no padding inside)
			d.h.Write(unsafe.Slice((*byte)(v.Addr().UnsafePointer()), int(v.Type().Size())))
			return
		}
		for i := 0; i < n; i++ {
			d.walk(v.Index(i))
		}
	case reflect.Slice:
		if v.IsNil() {
			d.u64(0xffffffff)
			return
		}
		n := v.Len()
		d.u64(uint64(n))
		if d.spare && v.Cap() > n {
			d.u64(uint64(v.Cap()))
			n = v.Cap()
			v = v.Slice(0, n)
		}
		if n > 0 && c18Plain(v.Type().Elem()) {
			d.h.Write(unsafe.Slice((*byte)(v.UnsafePointer()), n*int(v.Type().Elem().Size())))
			return
		}
		for i := 0; i < n; i++ {
			d.walk(v.Index(i))
		}
	case reflect.Struct:
		n := v.NumField()
		for i := 0; i < n; i++ {
			d.walk(v.Field(i))
		}
	case reflect.Ptr:
		if v.IsNil() {
			d.u64(0xfffffffe)
			return
		}
		p := v.Pointer()
		if d.seen[p] {
			d.u64(0xfffffffd)
			return
		}
		d.seen[p] = true
		d.u64(1)
		d.walk(v.Elem())
	case reflect.Interface:
		if v.IsNil() {
			d.u64(0xfffffffc)
			return
		}
		d.walk(v.Elem())
	case reflect.Map:
		if v.IsNil() {
			d.u64(0xfffffffb)
			return
		}
		var items []string
		it := v.MapRange()
		for it.Next() {
			items = append(items, deepHashValue(it.Key())+"="+deepHashValue(it.Value()))
		}
		sort.Strings(items)
		d.u64(uint64(len(items)))
		for _, s := range items {
			d.h.Write([]byte(s))
		}
	case reflect.Func, reflect.Chan, reflect.UnsafePointer:
		if v.IsNil() {
			d.u64(0)
		} else {
			d.u64(1)
		}
	default:
		d.u64(0xdead)
	}
}

// c18Plain: values of the type are fully described by their memory: (arrays / structs of) fixed-size integers, no padding
var c18PlainCache sync.Map

func c18Plain(t reflect.Type) bool {
	if v, ok := c18PlainCache.Load(t); ok {
		return v.(bool)
	}
	res := false
	switch t.Kind() {
	case reflect.Int8, reflect.Int16, reflect.Int32, reflect.Int64, reflect.Uint8, reflect.Uint16, reflect.Uint32, reflect.Uint64:
		res = true
	case reflect.Array:
		res = t.Len() > 0 && c18Plain(t.Elem())
	case reflect.Struct:
		res = t.NumField() > 0
		var sz uintptr
		for i := 0; i < t.NumField() && res; i++ {
			res = c18Plain(t.Field(i).Type)
			sz += t.Field(i).Type.Size()
		}
		res = res && sz == t.Size()
	}
	c18PlainCache.Store(t, res)
	return res
}

var c18LittleEndian = func() bool { x := uint16(1); return *(*byte)(unsafe.Pointer(&x)) == 1 }()

func deepHashValue(v reflect.Value) string {
	h := sha256.New()
	d := &deepHasher{h: h, seen: map[uintptr]bool{}}
	d.walk(v)
	return hex.EncodeToString(h.Sum(nil)[:12])
}

// deepHash digests the value (pass a pointer to hash the pointee and everything below it)
func deepHash(x any) string { return deepHashValue(reflect.ValueOf(x)) }

// deepHashArg: the snapshot of an ARGUMENT object: as deepHash, plus the spare capacity of every slice below it
func deepHashArg(x any) string {
	h := sha256.New()
	d := &deepHasher{h: h, seen: map[uintptr]bool{}, spare: true}
	d.walk(reflect.ValueOf(x))
	return hex.EncodeToString(h.Sum(nil)[:12])
}

// ---------------------------------------------------------------------------------------------------------------------

type c18Arg struct {
	name string
	ptr  any // pointer to the argument object
}

// a session = one family of argument objects built from a seed + the entry point applied to them
type c18Sess struct {
	args []c18Arg
	// call runs the entry point on the shared argument objects with a FRESH destination and renders the result
	call func() string
	// concCall, when set, is what concurrent callers run (e.g. each goroutine owns its hasher but shares data and globals)
	concCall func() string
	// concFirst: run the concurrent phase before any solo call (lazily initialised globals: the first use is the racy one)
	concFirst bool
	// watch, when set, is run in a loop by an OBSERVER goroutine while the concurrent callers run: it returns the name of a
	// shared argument that it sees in a state different from its snapshot ("" otherwise). A callee that modifies an
	// argument for the duration of the call and restores it on return is invisible to the before/after snapshots.
	watch func() string
	// RESULTS HANDED OUT EARLIER: while keepOn is set, the result objects that a call renders with out() and the
	// verifications it makes with again() are retained; keptChanged() re-hashes / re-runs them after the later calls on
	// the same receiver / state objects (same and other arguments).
	keepOn bool
	keptMu sync.Mutex
	kept   []c18Kept
}

type c18Kept struct {
	ptr any           // result object (pointer), h = its deep hash when it was handed out
	f   func() string // or a verification of a result, h = its outcome at that time
	h   string
}

const c18KeptMax = 512

// out renders a RESULT object of the entry point (pass a pointer) and retains it
func (s *c18Sess) out(ptr any) string {
	h := deepHash(ptr)
	if s.keepOn {
		s.keptMu.Lock()
		if len(s.kept) < c18KeptMax {
			s.kept = append(s.kept, c18Kept{ptr: ptr, h: h})
		}
		s.keptMu.Unlock()
	}
	return h
}

// again runs a verification of a result now and retains it, to be repeated after the later calls
func (s *c18Sess) again(f func() string) string {
	h := f()
	if s.keepOn {
		s.keptMu.Lock()
		if len(s.kept) < c18KeptMax {
			s.kept = append(s.kept, c18Kept{f: f, h: h})
		}
		s.keptMu.Unlock()
	}
	return h
}

// keptChanged: some result handed out earlier no longer has the value it had / no longer verifies as it did
func (s *c18Sess) keptChanged() bool {
	s.keptMu.Lock()
	kept := s.kept
	s.keptMu.Unlock()
	bad := false
	for _, k := range kept {
		if k.f != nil {
			bad = bad || c18SafeCall(k.f) != k.h
		} else {
			bad = bad || deepHash(k.ptr) != k.h
		}
	}
	return bad
}

// ---- slice arguments that are WINDOWS of a larger buffer ---------------------------------------------------------------
// A maker passes a slice argument through c18Win: when the line asks for windows (bits 4-5 of the seed not both zero) the
// slice is re-allocated in the middle of a larger buffer (1..3 sentinel elements before it, 1..5 after it: spare capacity
// behind the window); the buffer becomes an argument object of the session, so the elements OUTSIDE the window are part
// of the snapshots.
type c18Ctx struct {
	win  bool
	bufs []c18Arg
}

var c18Ctxs sync.Map // *rng -> *c18Ctx (the makers only receive the generator)

func c18Build(mk c18Maker, seed uint64, shape int, win bool) *c18Sess {
	r := newRng(seed)
	ctx := &c18Ctx{win: win}
	c18Ctxs.Store(r, ctx)
	defer c18Ctxs.Delete(r)
	s := mk(r, shape)
	s.args = append(s.args, ctx.bufs...)
	return s
}

func c18WinOf(seed uint64) bool { return (seed>>4)&3 != 0 }

func c18Win[T any](r *rng, s []T) []T {
	v, ok := c18Ctxs.Load(r)
	if !ok || !v.(*c18Ctx).win || s == nil {
		return s
	}
	ctx := v.(*c18Ctx)
	pre, post := 1+r.intn(3), 1+r.intn(5)
	buf := make([]T, pre+len(s)+post)
	var zero T
	if c18Plain(reflect.TypeOf(zero)) { // sentinels: arbitrary non-zero memory
		raw := unsafe.Slice((*byte)(unsafe.Pointer(&buf[0])), len(buf)*int(unsafe.Sizeof(zero)))
		for i := range raw {
			raw[i] = byte(r.u64()) | 1
		}
	} else if len(s) > 0 { // sentinels: valid values (copies of elements of the slice)
		for i := range buf {
			buf[i] = s[(i*7+3)%len(s)]
		}
	}
	copy(buf[pre:], s)
	ctx.bufs = append(ctx.bufs, c18Arg{fmt.Sprintf("buffer#%d", len(ctx.bufs)), &buf})
	return buf[pre : pre+len(s)]
}

// c18Win2: every row of a slice of slices, and the slice of rows itself
func c18Win2[T any](r *rng, s [][]T) [][]T {
	for i := range s {
		s[i] = c18Win(r, s[i])
	}
	return c18Win(r, s)
}

type c18Maker func(r *rng, shape int) *c18Sess

// the entry points that go through one lazily initialised global; building them must not touch the global
type c18FreshMaker func(r *rng) []func() string

var c18FreshGlobals = []string{"mimc", "poseidon2", "edwards", "lagrange", "bigintpool"}

// same table as GV.ForkJoin.freshSupported
func c18FreshSupported(global, pkg string) bool {
	isCurve, isField := false, false
	for _, c := range c18Curves {
		isCurve = isCurve || c == pkg
	}
	for _, c := range c18SmallFields {
		isField = isField || c == pkg
	}
	switch global {
	case "mimc", "lagrange":
		return isCurve || pkg == "grumpkin"
	case "poseidon2":
		return isCurve || isField || pkg == "grumpkin"
	case "edwards":
		return isCurve || pkg == "bandersnatch"
	case "bigintpool":
		return isCurve
	}
	return false
}

// "<entry>/<curve>" -> maker
var c18Makers = map[string]c18Maker{}

var c18Entries = []string{"pairfixedq", "millerloopfixedq", "pairingcheckfixedq", "pair", "kzgverify", "kzgbatchverify",
	"kzgopen", "kzgcommit", "kzgbatchopen", "multiexp", "fft", "mimc", "poseidon2", "sis", "batchscalarmul", "batchjactoaff", "iop",
	"vector", "codec", "edwards", "polypool", "mdhasher",
	"plookupvec", "plookuptab", "permutation", "fri", "shplonk", "fflonk", "pedersen", "iopratio", "kzglagrange", "polynomial",
	"vortex", "merkle", "scalarexp", "hashto"}

// entry points with a goroutine / parallel.Execute implementation above some size (`C18 par` lines), same list as
// GV.ForkJoin.parEntries
var c18ParEntries = []string{"kzgopen", "kzgcommit", "kzgbatchopen", "multiexp", "fft", "sis", "batchscalarmul", "batchjactoaff",
	"iop", "vector", "codec", "plookupvec", "plookuptab", "permutation", "fri", "shplonk", "fflonk", "pedersen", "iopratio",
	"kzglagrange", "polynomial", "vortex", "merkle"}

func c18ParSupported(entry, curve string) bool {
	for _, e := range c18ParEntries {
		if e == entry {
			return c18Supported(entry, curve)
		}
	}
	return false
}

var c18Curves = []string{"bn254", "bls12-377", "bls12-381", "bls24-315", "bls24-317", "bw6-633", "bw6-761"}
var c18SmallFields = []string{"koalabear", "babybear", "goldilocks"}

// packages outside the pairing-curve template that have `scalarexp` / `hashto` entry points
var c18OtherPackages = []string{"secp256k1", "grumpkin", "stark-curve", "bandersnatch"}

// same table as GV.ForkJoin.supported
func c18Supported(entry, curve string) bool {
	isCurve, isField := false, false
	for _, c := range c18Curves {
		isCurve = isCurve || c == curve
	}
	for _, c := range c18SmallFields {
		isField = isField || c == curve
	}
	known := false
	for _, e := range c18Entries {
		known = known || e == entry
	}
	if !known {
		return false
	}
	switch entry {
	case "scalarexp": // every package with an exponentiation / scalar multiplication taking a *big.Int
		return isCurve || isField || curve == "secp256k1" || curve == "grumpkin" || curve == "stark-curve" || curve == "bandersnatch"
	case "hashto": // every package with hash-to-field / hash-to-curve
		return isCurve || isField || curve == "secp256k1" || curve == "grumpkin" || curve == "stark-curve"
	case "sis":
		return curve == "bls12-377" || isField
	case "poseidon2", "fft":
		return isCurve || isField
	case "vortex", "merkle":
		return curve == "koalabear"
	default:
		return isCurve
	}
}

func (s *c18Sess) snap() []string {
	out := make([]string, len(s.args))
	for i, a := range s.args {
		out[i] = deepHashArg(a.ptr)
	}
	return out
}

// first argument whose snapshot differs
func (s *c18Sess) changed(before []string) string {
	now := s.snap()
	for i := range now {
		if now[i] != before[i] {
			return s.args[i].name
		}
	}
	return ""
}

func c18SafeCall(f func() string) (res string) {
	defer func() {
		if r := recover(); r != nil {
			res = "panic"
			if os.Getenv("GV_PANIC_DETAIL") != "" {
				fmt.Fprintf(os.Stderr, "C18 panic: %v\n%s\n", r, debug.Stack())
			}
		}
	}()
	return f()
}

func c18Hex(s string, lo, hi uint64) (uint64, bool) {
	if s == "" || strings.ToLower(s) != s {
		return 0, false
	}
	v, err := strconv.ParseUint(s, 16, 64)
	if err != nil || v < lo || v > hi {
		return 0, false
	}
	return v, true
}

func execC18(a []string) string {
	if len(a) == 3 && a[0] == "ranges" {
		n, ok1 := c18Hex(a[1], 0, 1<<30)
		nb, ok2 := c18Hex(a[2], 0, 1<<30)
		if !ok1 || !ok2 {
			return "err:args"
		}
		return c18Ranges(int(n), int(nb))
	}
	if len(a) == 6 && a[0] == "fresh" {
		g, ok1 := c18Hex(a[3], 1, 64)
		n, ok2 := c18Hex(a[4], 1, 200)
		seed, ok3 := c18Hex(a[5], 0, ^uint64(0))
		if !ok1 || !ok2 || !ok3 || !c18FreshSupported(a[1], a[2]) {
			return "err:args"
		}
		return c18FreshParent(a[1], a[2], int(g), int(n), seed)
	}
	if len(a) == 7 && a[0] == "par" {
		return execC18Par(a[1:])
	}
	if len(a) != 6 {
		return "err:args"
	}
	entry, curve := a[0], a[1]
	k, ok1 := c18Hex(a[2], 1, 8)
	g, ok2 := c18Hex(a[3], 0, 64)
	p, ok3 := c18Hex(a[4], 1, 64)
	seed, ok4 := c18Hex(a[5], 0, ^uint64(0))
	if !ok1 || !ok2 || !ok3 || !ok4 || !c18Supported(entry, curve) {
		return "err:args"
	}
	mk0 := c18Makers[entry+"/"+curve]
	if mk0 == nil {
		return "err:unimplemented"
	}
	mk := func(sd uint64) *c18Sess { return c18Build(mk0, sd, int(seed&0xf), c18WinOf(seed)) }
	old := runtime.GOMAXPROCS(int(p))
	defer runtime.GOMAXPROCS(old)

	pure, same, conc := true, true, true
	tag, resTag := "", false
	note := func(name string) {
		if name != "" {
			pure = false
			if tag == "" {
				tag = name
			}
		}
	}

	// concurrent phase on its own family of objects (same seed, hence same values as the solo family)
	var concRes []string
	concPhase := func() {
		if g == 0 {
			return
		}
		cs := mk(seed)
		before := cs.snap()
		f := cs.call
		if cs.concCall != nil {
			f = cs.concCall
		}
		cs.keepOn = true
		res := make([]string, 2*g)
		start := make(chan struct{})
		var wg sync.WaitGroup
		stopWatch := c18Watch(cs, note)
		for i := 0; i < int(g); i++ {
			wg.Add(1)
			go func(i int) {
				defer wg.Done()
				lr := newRng(seed + uint64(i)*7919 + 1)
				<-start
				for c := 0; c < 2; c++ {
					for y := lr.intn(4); y > 0; y-- {
						runtime.Gosched()
					}
					res[2*i+c] = c18SafeCall(f)
				}
			}(i)
		}
		close(start)
		wg.Wait()
		stopWatch()
		note(cs.changed(before))
		cs.keepOn = false
		if cs.keptChanged() { // a result handed to one caller was rewritten by a call of another caller
			res = append(res, "result-changed")
			resTag = true
		}
		concRes = res
	}

	sess := mk(seed)
	if sess.concFirst {
		concPhase()
	}
	oth := mk(seed ^ 0x5851f42d4c957f2d)
	before := sess.snap()
	sess.keepOn = true // the results of the first two calls are retained
	r0 := c18SafeCall(sess.call)
	note(sess.changed(before))
	for i := uint64(1); i < k; i++ {
		c18SafeCall(oth.call) // an unrelated call in between (other objects, same process-wide pools and tables)
		ri := c18SafeCall(sess.call)
		sess.keepOn = false
		if ri != r0 {
			same = false
		}
		note(sess.changed(before))
	}
	sess.keepOn = false
	c18SafeCall(oth.call)
	if sess.keptChanged() { // results handed out by the earlier calls must not change because of the later ones
		same = false
		resTag = true
	}
	if r0 == "panic" {
		return "panic"
	}
	if os.Getenv("GV_C18_DETAIL") != "" {
		fmt.Fprintf(os.Stderr, "C18 %s %s shape %x: errors of the first call: %s\n", entry, curve, seed&0xf, c18ErrPattern(r0))
	}
	if !sess.concFirst {
		concPhase()
	}
	for _, r := range concRes {
		if r != r0 {
			conc = false
		}
	}
	out := "pure=" + boolStr(pure) + " same=" + boolStr(same) + " conc=" + boolStr(conc)
	if tag != "" {
		out += " arg=" + tag
	}
	if resTag {
		out += " res=changed"
	}
	return out
}

// c18Watch starts the observer goroutine of a session (see c18Sess.watch); the returned function stops it and reports
func c18Watch(s *c18Sess, note func(string)) (stop func()) {
	if s.watch == nil {
		return func() {}
	}
	var done atomic.Bool
	var seen atomic.Value
	var wg sync.WaitGroup
	wg.Add(1)
	go func() {
		defer wg.Done()
		for n := 0; !done.Load(); n++ {
			if name := c18SafeCall(s.watch); name != "" && name != "panic" {
				seen.CompareAndSwap(nil, name)
			}
			if n&7 == 7 {
				runtime.Gosched()
			}
		}
	}()
	return func() {
		done.Store(true)
		wg.Wait()
		if name, ok := seen.Load().(string); ok {
			note(name)
		}
	}
}

func execC18Par(a []string) string {
	entry, curve := a[0], a[1]
	k, ok1 := c18Hex(a[2], 1, 0x200)
	g, ok2 := c18Hex(a[3], 0, 64)
	p, ok3 := c18Hex(a[4], 2, 64)
	seed, ok4 := c18Hex(a[5], 0, ^uint64(0))
	if !ok1 || !ok2 || !ok3 || !ok4 || !c18ParSupported(entry, curve) {
		return "err:args"
	}
	mk := c18Makers[entry+"/"+curve]
	if mk == nil {
		return "err:unimplemented"
	}
	old := runtime.GOMAXPROCS(1)
	defer runtime.GOMAXPROCS(old)
	sess := c18Build(mk, seed, 16+int(seed&0xf), c18WinOf(seed))
	pure, same, conc := true, true, true
	tag, resTag := "", false
	before := sess.snap()
	note := func(name string) {
		if name != "" {
			pure = false
			if tag == "" {
				tag = name
			}
		}
	}
	check := func() { note(sess.changed(before)) }
	// the sequential reference: with one P the workers of a fork-join run one after the other
	sess.keepOn = true // the results of the reference call and of the first solo call are retained
	ref := c18SafeCall(sess.call)
	check()
	if ref == "panic" {
		return "panic"
	}
	runtime.GOMAXPROCS(int(p))
	detail := os.Getenv("GV_C18_DETAIL") != ""
	if detail {
		fmt.Fprintf(os.Stderr, "C18 par %s %s shape %x: errors of the reference call: %s\n", entry, curve, seed&0xf, c18ErrPattern(ref))
	}
	bad := 0
	for i := uint64(0); i < k; i++ {
		if c18SafeCall(sess.call) != ref {
			same = false
			bad++
		}
		sess.keepOn = false
		if i == 0 {
			check()
		}
	}
	check()
	if sess.keptChanged() {
		same, resTag = false, true
	}
	if g > 0 {
		f := sess.call
		if sess.concCall != nil {
			f = sess.concCall
		}
		res := make([]string, 2*g)
		start := make(chan struct{})
		var wg sync.WaitGroup
		stopWatch := c18Watch(sess, note)
		sess.keepOn = true
		for i := 0; i < int(g); i++ {
			wg.Add(1)
			go func(i int) {
				defer wg.Done()
				lr := newRng(seed + uint64(i)*7919 + 1)
				<-start
				for c := 0; c < 2; c++ {
					for y := lr.intn(4); y > 0; y-- {
						runtime.Gosched()
					}
					res[2*i+c] = c18SafeCall(f)
				}
			}(i)
		}
		close(start)
		wg.Wait()
		stopWatch()
		sess.keepOn = false
		check()
		for _, r := range res {
			if r != ref {
				conc = false
				bad++
			}
		}
		if sess.keptChanged() {
			conc, resTag = false, true
		}
	}
	if detail {
		fmt.Fprintf(os.Stderr, "C18 par %s %s: %d of %d results differ from the reference\n", entry, curve, bad, k+2*g)
	}
	out := "pure=" + boolStr(pure) + " same=" + boolStr(same) + " conc=" + boolStr(conc)
	if tag != "" {
		out += " arg=" + tag
	}
	if resTag {
		out += " res=changed"
	}
	return out
}

// the sequence of :ok / :err markers of a rendered result (GV_C18_DETAIL)
func c18ErrPattern(s string) string {
	out := ""
	for i := 0; i < len(s); i++ {
		if strings.HasPrefix(s[i:], ":ok") {
			out += "+"
		} else if strings.HasPrefix(s[i:], ":err") {
			out += "E"
		}
	}
	return out
}

func c18Short(s string) string {
	h := sha256.Sum256([]byte(s))
	return hex.EncodeToString(h[:8])
}

var c18ChildProcs = []string{"", "2", "4", "3", "8"}

func c18FreshParent(global, pkg string, g, children int, seed uint64) string {
	mk := c18FreshLookup(global, pkg)
	if mk == nil {
		return "err:unimplemented"
	}
	vs := mk(newRng(seed))
	exp := make([]string, len(vs))
	for i := range vs {
		exp[i] = c18Short(c18SafeCall(vs[i]))
	}
	same := true
	for i := range vs {
		same = same && c18Short(c18SafeCall(vs[i])) == exp[i]
	}
	line := fmt.Sprintf("%s %s %x %x %s", global, pkg, g, seed, strings.Join(exp, ","))
	// (up to 4 children at a time)
	var failed atomic.Int64
	failed.Store(-1)
	sem := make(chan struct{}, 4)
	var wg sync.WaitGroup
	for j := 0; j < children && failed.Load() < 0; j++ {
		sem <- struct{}{}
		wg.Add(1)
		go func(j int) {
			defer func() { <-sem; wg.Done() }()
			cmd := exec.Command(os.Args[0])
			cmd.Env = append(os.Environ(), c18FreshEnv+"="+line)
			if p := c18ChildProcs[j%len(c18ChildProcs)]; p != "" {
				cmd.Env = append(cmd.Env, "GOMAXPROCS="+p)
			}
			out, err := cmd.Output()
			res := strings.TrimSpace(string(out))
			if err != nil {
				res = "crash"
			}
			if res != "ok" {
				if os.Getenv("GV_C18_DETAIL") != "" {
					fmt.Fprintf(os.Stderr, "C18 fresh %s %s: child %d: %s\n", global, pkg, j, res)
				}
				failed.Store(int64(j))
			}
		}(j)
	}
	wg.Wait()
	if failed.Load() >= 0 {
		return "pure=1 same=" + boolStr(same) + " conc=0"
	}
	return "pure=1 same=" + boolStr(same) + " conc=1"
}

// The child. Other files of the harness use the library in their init() functions (e.g. GetEdwardsCurve of every
// twisted Edwards package), so the child cannot wait for main(): the initialisation of this package-level variable runs
// after the init() functions of the imported packages (the hash registry is filled) and before every init() function
// of the harness; it answers on stdout and exits.
const c18FreshEnv = "GV_C18_FRESHCHILD"

var _ = c18FreshEarly()

func c18FreshEarly() bool {
	line := os.Getenv(c18FreshEnv)
	if line == "" {
		return false
	}
	res := "err:args"
	if a := strings.Fields(line); len(a) == 5 {
		g, ok1 := c18Hex(a[2], 1, 64)
		seed, ok2 := c18Hex(a[3], 0, ^uint64(0))
		if ok1 && ok2 && c18FreshSupported(a[0], a[1]) {
			res = c18FreshChild(a[0], a[1], int(g), seed, strings.Split(a[4], ","))
		}
	}
	os.Stdout.WriteString(res + "\n")
	os.Exit(0)
	return true
}

// runs in the re-executed binary: nothing of the package under test has been used yet
func c18FreshChild(global, pkg string, g int, seed uint64, exp []string) string {
	mk := c18FreshLookup(global, pkg)
	if mk == nil {
		return "err:unimplemented"
	}
	vs := mk(newRng(seed))
	if len(exp) != len(vs) {
		return "err:args"
	}
	res := make([]string, g)
	start := make(chan struct{})
	var ready, wg sync.WaitGroup
	var sink, released atomic.Uint64
	// two barriers: a closed channel (the callers are woken one after the other, a few µs apart) or, in every other
	// child, a flag the callers poll (all leave within a fraction of a µs, then a private delay of 0 .. ~100 µs on a
	// log-uniform scale spreads the arrivals over initialisers of any duration)
	polling := os.Getpid()%2 == 0
	for i := 0; i < g; i++ {
		ready.Add(1)
		wg.Add(1)
		go func(i int) {
			defer wg.Done()
			lr := newRng(seed + uint64(i)*7919 + uint64(os.Getpid()))
			spin := lr.intn(1 << (1 + lr.intn(18)))
			yields := lr.intn(3)
			if polling {
				yields = 0
			}
			f := vs[i%len(vs)]
			ready.Done()
			if polling {
				for released.Load() == 0 {
					runtime.Gosched()
				}
			} else {
				<-start
			}
			for ; yields > 0; yields-- {
				runtime.Gosched()
			}
			acc := uint64(i)
			for x := 0; x < spin; x++ {
				acc = acc*6364136223846793005 + 1442695040888963407
			}
			sink.Add(acc & 1)
			res[i] = c18Short(c18SafeCall(f))
		}(i)
	}
	ready.Wait()
	released.Store(1)
	close(start)
	wg.Wait()
	bad := 0
	for i := range res {
		if res[i] != exp[i%len(vs)] {
			bad++
		}
	}
	after := 0
	for i := range vs { // and the global is in its final state: sequential calls give the parent's values
		if c18Short(c18SafeCall(vs[i])) != exp[i] {
			after++
		}
	}
	if bad == 0 && after == 0 {
		return "ok"
	}
	return fmt.Sprintf("bad:%d/%d,after:%d", bad, g, after)
}

func c18Ranges(n, nb int) string {
	var mu sync.Mutex
	var rs [][2]int
	c18ParallelExecute(n, func(s, e int) {
		mu.Lock()
		rs = append(rs, [2]int{s, e})
		mu.Unlock()
	}, nb)
	sort.Slice(rs, func(i, j int) bool { return rs[i][0] < rs[j][0] || (rs[i][0] == rs[j][0] && rs[i][1] < rs[j][1]) })
	if len(rs) == 0 {
		return "-"
	}
	parts := make([]string, len(rs))
	for i, r := range rs {
		parts[i] = fmt.Sprintf("%x:%x", r[0], r[1])
	}
	return strings.Join(parts, " ")
}

// ---------------------------------------------------------------------------------------------------------------------

var c18Procs = []int{1, 2, 3, 8, 16}

// solo repetitions, concurrent callers and number of lines (quick tier) of the `C18 par` lines of a family: cheap calls are
// repeated often (a race with a probability of a few percent per call must show), expensive ones a few times
type c18ParRun struct{ k, g, lines int }

var c18Provers = map[string]bool{"plookupvec": true, "plookuptab": true, "permutation": true, "pedersen": true, "fflonk": true,
	"shplonk": true, "kzglagrange": true}

var c18ParCost = map[string]c18ParRun{
	"merkle": {0x28, 8, 4}, "vortex": {0x18, 4, 4}, "fft": {5, 4, 2}, "sis": {8, 4, 2}, "vector": {0x18, 6, 2},
	"batchjactoaff": {0xc, 4, 1}, "batchscalarmul": {8, 4, 1}, "iop": {0x10, 4, 2}, "iopratio": {8, 4, 2},
	"kzgopen": {6, 3, 1}, "kzgcommit": {8, 4, 2}, "kzgbatchopen": {8, 4, 2}, "multiexp": {4, 3, 2}, "codec": {6, 3, 1},
	"plookupvec": {3, 3, 1}, "plookuptab": {3, 2, 1}, "permutation": {3, 3, 1}, "fri": {4, 3, 1}, "shplonk": {3, 3, 1},
	"fflonk": {3, 3, 1}, "pedersen": {3, 3, 1}, "kzglagrange": {3, 3, 1}, "polynomial": {0x10, 6, 1},
}

func genC18(g *gen) {
	// parallel.Execute ranges: boundary lattice + random
	ns := []int{0, 1, 2, 3, 4, 5, 7, 8, 9, 15, 16, 17, 31, 63, 64, 65, 100, 511, 512, 513, 1000, 1023, 1024, 1025}
	nbs := []int{0, 1, 2, 3, 4, 5, 7, 8, 16, 17, 64, 100, 511, 512, 513, 600, 2000}
	for _, n := range ns {
		for _, nb := range nbs {
			g.emit("C18 ranges %x %x", n, nb)
		}
	}
	for i := g.budget(200, 5000); i > 0; i-- {
		n := g.rng.intn(5000)
		if g.rng.coin() {
			n = g.rng.intn(70)
		}
		g.emit("C18 ranges %x %x", n, g.rng.intn(700))
	}

	// entry points: every family at its two minimal shapes, a large one, the family specific ones and random ones
	all := append(append(append([]string{}, c18Curves...), c18SmallFields...), c18OtherPackages...)
	reps := g.budget(1, 6)
	for _, entry := range c18Entries {
		for _, curve := range all {
			if !c18Supported(entry, curve) || c18Makers[entry+"/"+curve] == nil {
				continue
			}
			shapes := []int{0, 1, 2}
			switch entry {
			case "fft", "kzgbatchopen", "plookupvec":
				shapes = []int{0, 1, 2, 3, 4}
			case "plookuptab":
				shapes = []int{0, 1, 3}
				if g.thorough() {
					shapes = []int{0, 1, 2, 3, 4}
				}
			case "kzgbatchverify":
				shapes = []int{0, 1, 3}
			case "kzgverify", "kzgcommit":
				shapes = []int{0, 1}
			case "multiexp", "batchscalarmul", "batchjactoaff", "codec": // (the large shape costs seconds on the bw6 curves)
				if !g.thorough() {
					shapes = []int{0, 1}
				}
			case "edwards":
				shapes = nil
			}
			for rep := 0; rep < reps; rep++ {
				shapes = append(shapes, 5+g.rng.intn(11))
			}
			if entry == "scalarexp" { // cheap calls: more random scalars (sign, length) per package
				for rep := 0; rep < 2; rep++ {
					shapes = append(shapes, 3+g.rng.intn(13))
				}
			}
			for si, shape := range shapes {
				procs := []int{c18Procs[g.rng.intn(len(c18Procs))]}
				if g.thorough() && si == len(shapes)-1 {
					procs = c18Procs
				}
				for _, p := range procs {
					k := 2 + g.rng.intn(3)
					gor := 2 + g.rng.intn(g.budget(7, 15))
					if g.thorough() && g.rng.intn(8) == 0 {
						gor = 17 + g.rng.intn(48)
					}
					if c18Provers[entry] && !g.thorough() { // (each call is a whole proof: several multi-exponentiations)
						k, gor = 2, 2+g.rng.intn(2)
					}
					if entry == "scalarexp" { // ONE scalar object shared by >= 4 goroutines running in parallel + the observer
						gor = 4 + g.rng.intn(g.budget(5, 13))
						if p < 2 {
							p = 8
						}
					}
					if entry == "fft" && shape >= 2 && shape <= 4 { // ONE large domain shared by >= 8 goroutines
						gor = 8 + g.rng.intn(g.budget(5, 25))
						if p < 2 {
							p = 8
						}
					}
					g.emit("C18 %s %s %x %x %x %x", entry, curve, k, gor, p, (g.rng.u64()>>20)<<4|uint64(shape))
				}
			}
		}
	}
	// entry points with a parallel implementation above a size threshold: run above it, many times (see execC18Par)
	for _, entry := range c18ParEntries {
		for _, curve := range all {
			if !c18ParSupported(entry, curve) || c18Makers[entry+"/"+curve] == nil {
				continue
			}
			cost := c18ParCost[entry]
			if cost.k == 0 {
				cost = c18ParRun{k: 4, g: 3, lines: 1}
			}
			isField := false
			for _, f := range c18SmallFields {
				isField = isField || f == curve
			}
			if isField && entry == "fft" {
				cost = c18ParRun{k: 0x18, g: 6, lines: 3}
			}
			lines := cost.lines * g.budget(1, 4)
			sub := g.rng.intn(16)
			for i := 0; i < lines; i++ {
				procs := []int{16, 8, 16, 3, 2, 16, 8}[g.rng.intn(7)]
				if i%2 == 0 { // at least every other line of a family with many processors
					procs = 16
				}
				k := cost.k * g.budget(1, 3)
				if k > 0x200 {
					k = 0x200
				}
				// consecutive sub-shapes, so that the lines of one family cover different sizes
				nib, gor := (sub+i)&0xf, cost.g
				if entry == "multiexp" && nib&1 == 0 && !g.thorough() { // > 4096 points
					k, gor = 2, 2
				}
				g.emit("C18 par %s %s %x %x %x %x", entry, curve, k, gor, procs, (g.rng.u64()>>20)<<4|uint64(nib))
			}
		}
	}
	// lazily initialised globals: concurrent FIRST use in fresh processes
	children := g.budget(5, 34)
	for _, global := range c18FreshGlobals {
		for _, pkg := range all {
			if !c18FreshSupported(global, pkg) || c18FreshLookup(global, pkg) == nil {
				continue
			}
			for _, n := range []int{2, 8, 32} {
				g.emit("C18 fresh %s %s %x %x %x", global, pkg, n, children, g.rng.u64()>>16)
			}
			g.emit("C18 fresh %s %s 1 1 %x", global, pkg, g.rng.u64()>>16) // plain first use in a fresh process
		}
	}
	// malformed stream
	for _, l := range []string{"C18", "C18 ranges", "C18 ranges 1", "C18 ranges zz 1", "C18 ranges 1 2 3", "C18 pair bn254 2 2 2",
		"C18 nosuch bn254 2 2 2 1", "C18 pair nosuch 2 2 2 1", "C18 sis bn254 2 2 2 1", "C18 pair bn254 0 2 2 1",
		"C18 pair bn254 9 2 2 1", "C18 pair bn254 2 41 2 1", "C18 pair bn254 2 2 0 1", "C18 pair bn254 2 2 2 xyz",
		"C18 pair koalabear 2 2 2 1", "C18 pair bn254 2 2 2 1 1", "C18 PAIR bn254 2 2 2 1", "C18 pair bn254 2 2 2 A",
		"C18 fresh mimc bn254 2 2", "C18 fresh nosuch bn254 2 2 1", "C18 fresh mimc koalabear 2 2 1", "C18 fresh mimc bn254 0 2 1",
		"C18 fresh mimc bn254 41 2 1", "C18 fresh mimc bn254 2 0 1", "C18 fresh mimc bn254 2 c9 1", "C18 fresh edwards grumpkin 2 2 1",
		"C18 fresh bigintpool bandersnatch 2 2 1", "C18 fresh mimc bn254 2 2 xyz", "C18 fresh fresh bn254 2 2 1",
		"C18 par", "C18 par merkle koalabear 4 2 2", "C18 par merkle bn254 4 2 2 1", "C18 par merkle koalabear 0 2 2 1",
		"C18 par merkle koalabear 201 2 2 1", "C18 par merkle koalabear 4 41 2 1", "C18 par merkle koalabear 4 2 1 1",
		"C18 par merkle koalabear 4 2 41 1", "C18 par merkle koalabear 4 2 2 xyz", "C18 par pair bn254 4 2 2 1",
		"C18 par mimc bn254 4 2 2 1", "C18 par nosuch bn254 4 2 2 1", "C18 par fft nosuch 4 2 2 1", "C18 par par bn254 4 2 2 1",
		"C18 par vortex babybear 4 2 2 1", "C18 par sis bn254 4 2 2 1", "C18 par fft koalabear 4 2 2 1 1",
		"C18 merkle bn254 2 2 2 1", "C18 vortex goldilocks 2 2 2 1", "C18 fft nosuch 2 2 2 1", "C18 plookupvec koalabear 2 2 2 1",
		"C18 hashto bandersnatch 2 2 2 1", "C18 scalarexp nosuch 2 2 2 1", "C18 par scalarexp bn254 4 2 2 1", "C18 par hashto koalabear 4 2 2 1",
		"C18 pair secp256k1 2 2 2 1", "C18 scalarexp bn254 2 2 2", "C18 hashto stark-curve 9 2 2 1"} {
		g.emit("%s", l)
	}
}

func init() {
	executors["C18"] = execC18
	generators["C18"] = genC18
}
