package main

// C03 — scalar classes every entry point must see in the quick tier (beside the boundary lattice of c03Scalars):
//   (a) word-sparse scalars: all-zero low / interior 64-bit words (k·2^(64j), k·2^(64j)+small, alternating words, ± variants),
//       the inputs on which a word loop that skips, mis-counts or mis-indexes words goes wrong;
//   (b) GLV-unbalanced scalars: s = a + b·λ mod r whose decomposition (k1,k2) by the real lattice has halves of different
//       64-bit word counts, in both directions (k1 ≪ k2, k2 ≪ k1), and inverses of small integers mod r;
//   (c) batch sizes on both sides of every change of the window size chosen by BatchScalarMultiplication (`batchpow`).
//   (d) scalars far outside [0, r): both signs, 1× … 4× and more the bit length of the order, every entry point incl. the two
//       scalars of JointScalarMultiplication independently (see c03FarBits below).

import (
	"math/big"
	"strings"

	"github.com/consensys/gnark-crypto/ecc"
)

func c03Words(v *big.Int) int { return (new(big.Int).Abs(v).BitLen() + 63) / 64 }

func (r *rng) bigExact(bits int) *big.Int {
	if bits <= 0 {
		return new(big.Int)
	}
	v := r.bigBits(bits)
	return v.SetBit(v, bits-1, 1)
}

// a non-zero 64-bit word: tiny, full or all-ones
func (r *rng) word() *big.Int {
	switch r.intn(4) {
	case 0:
		return big.NewInt(int64(1 + r.intn(7)))
	case 1:
		return new(big.Int).SetUint64(^uint64(0))
	}
	v := new(big.Int).SetUint64(r.u64() | 1<<63)
	return v
}

func (r *rng) signed(v *big.Int) *big.Int {
	if r.coin() {
		return new(big.Int).Neg(v)
	}
	return v
}

// class (a). `low`: the low word(s) are zero; `interior`: a zero word strictly between two non-zero ones.
// words = number of 64-bit words the largest scalars occupy (fr.Limbs, or fr.Limbs+1 where longer scalars are legal)
func c03Sparse(rg *rng, words int) (low, interior []*big.Int) {
	for j := 1; j < words; j++ {
		low = append(low, bigPow2(64*j))
		low = append(low, new(big.Int).Lsh(rg.word(), uint(64*j)))
		// ones above a zero low part
		low = append(low, new(big.Int).Sub(bigPow2(64*(j+1)), bigPow2(64*j)))
		if j >= 2 {
			v := new(big.Int).Lsh(rg.word(), uint(64*j))
			interior = append(interior, v.Add(v, rg.word()))
			v = new(big.Int).Lsh(big.NewInt(int64(1+rg.intn(7))), uint(64*j))
			interior = append(interior, v.Add(v, big.NewInt(int64(1+rg.intn(15)))))
		}
	}
	// alternating words: even words zero / odd words zero
	ev, od := new(big.Int), new(big.Int)
	for j := 0; j < words; j++ {
		w := new(big.Int).Lsh(rg.word(), uint(64*j))
		if j%2 == 1 {
			ev.Add(ev, w)
		} else {
			od.Add(od, w)
		}
	}
	low = append(low, ev)
	if words >= 3 {
		interior = append(interior, od)
	}
	// top and bottom word only
	if words >= 3 {
		v := new(big.Int).Lsh(rg.word(), uint(64*(words-1)))
		interior = append(interior, v.Add(v, rg.word()))
	}
	return
}

type c03Unb struct {
	s      *big.Int
	w1, w2 int // word counts of |k1|, |k2| under the lattice the scalar was built for
}

// class (b) for the eigenvalue l: scalars a + b·l mod r (and b + a·l) with |a| ≪ |b|, kept when the decomposition
// computed by ecc.SplitScalar on ecc.PrecomputeLattice(r, l) — the lattice the curve package uses when l is its
// eigenvalue — has halves of different word counts. lo: k1 shorter, hi: k2 shorter.
func c03Unbalanced(rg *rng, r, l *big.Int) (lo, hi []c03Unb) {
	var lat ecc.Lattice
	ecc.PrecomputeLattice(r, l, &lat)
	h := 0
	for _, v := range []*big.Int{&lat.V1[0], &lat.V1[1], &lat.V2[0], &lat.V2[1]} {
		if v.BitLen() > h {
			h = v.BitLen()
		}
	}
	smalls := func() []*big.Int {
		return []*big.Int{new(big.Int), big.NewInt(1), big.NewInt(int64(2 + rg.intn(254))), rg.bigExact(63), rg.bigExact(64), new(big.Int).SetUint64(^uint64(0))}
	}
	larges := func() []*big.Int {
		out := []*big.Int{bigPow2(64), rg.bigExact(65), rg.bigExact(h - 1), rg.bigExact(h - 2), rg.bigExact(h - 3)}
		for j := 2; 64*j+1 < h; j++ {
			out = append(out, bigPow2(64*j), rg.bigExact(64*j+1))
		}
		return out
	}
	try1 := func(a, b *big.Int) {
		s := new(big.Int).Mul(b, l)
		s.Add(s, a).Mod(s, r)
		k := ecc.SplitScalar(s, &lat)
		w1, w2 := c03Words(&k[0]), c03Words(&k[1])
		switch {
		case w1 < w2:
			lo = append(lo, c03Unb{s, w1, w2})
		case w1 > w2:
			hi = append(hi, c03Unb{s, w1, w2})
		}
	}
	// all four sign patterns: SplitScalar truncates instead of rounding, so which of (±a, ±b) is returned unchanged
	// depends on the basis (for the BW6 bases no scalar at all has a first half much shorter than the second)
	try := func(a, b *big.Int) {
		na, nb := new(big.Int).Neg(a), new(big.Int).Neg(b)
		try1(a, b)
		try1(na, b)
		try1(a, nb)
		try1(na, nb)
	}
	for _, a := range smalls() {
		for _, b := range larges() {
			try(a, b)
			try(b, a)
		}
	}
	return
}

// up to n elements of cls (word-count difference visible to a word loop: the longer half has ≥ 2 words), spread over the
// distinct (w1,w2) shapes
func c03PickUnb(rg *rng, cls []c03Unb, n int) []c03Unb {
	by := map[[2]int][]c03Unb{}
	var keys [][2]int
	for _, u := range c03Shuffle(rg, cls) {
		if u.w1 < 2 && u.w2 < 2 {
			continue
		}
		k := [2]int{u.w1, u.w2}
		if _, ok := by[k]; !ok {
			keys = append(keys, k)
		}
		by[k] = append(by[k], u)
	}
	// widest difference first, then round-robin
	for i := range keys {
		for j := i + 1; j < len(keys); j++ {
			di, dj := keys[i][0]-keys[i][1], keys[j][0]-keys[j][1]
			if di*di < dj*dj {
				keys[i], keys[j] = keys[j], keys[i]
			}
		}
	}
	var out []c03Unb
	for len(out) < n {
		took := false
		for _, k := range keys {
			if len(by[k]) > 0 && len(out) < n {
				out = append(out, by[k][0])
				by[k] = by[k][1:]
				took = true
			}
		}
		if !took {
			break
		}
	}
	return out
}

// 1/d mod r for small d (halving a point, Lagrange bases …), classified like c03Unbalanced
func c03SmallInverses(r *big.Int) []*big.Int {
	var out []*big.Int
	for _, d := range []int64{2, 3, 4, 5, 7, 8, 16, 32, 64, 255, 256, 65536, 1 << 32} {
		v := new(big.Int).ModInverse(big.NewInt(d), r)
		if v != nil {
			out = append(out, v)
		}
	}
	if v := new(big.Int).ModInverse(bigPow2(64), r); v != nil {
		out = append(out, v)
	}
	return out
}

// shuffled copy (Fisher–Yates on g.rng)
func c03Shuffle[T any](rg *rng, in []T) []T {
	out := append([]T(nil), in...)
	for i := len(out) - 1; i > 0; i-- {
		j := rg.intn(i + 1)
		out[i], out[j] = out[j], out[i]
	}
	return out
}

// ---- same-base batch with formula scalars s_i = β·α^i mod r, answers for a sample of the entries -------------------

// window size chosen by BatchScalarMultiplicationG1/G2 (cost model of the library incl. the lastC guard)
func c03BestC(bits, n uint64) int {
	best, min := 0, ^uint64(0)
	for c := uint64(2); c <= 16; c++ {
		nb := (bits + c - 1) / c
		if c+1-(nb*c-bits) > 16 {
			continue
		}
		cost := uint64(1)<<(c-1) + n*(c+1)*nb
		if cost < min {
			min, best = cost, int(c)
		}
	}
	return best
}

// batch sizes n−1, n at every n where the chosen window changes, up to max
func c03BatchSizes(bits uint64, max int) []int {
	var out []int
	prev := c03BestC(bits, 1)
	lo := 1
	for lo < max {
		// smallest n > lo with another window (the choice is monotone in n)
		if c03BestC(bits, uint64(max)) == prev {
			break
		}
		a, b := lo, max
		for b-a > 1 {
			m := (a + b) / 2
			if c03BestC(bits, uint64(m)) == prev {
				a = m
			} else {
				b = m
			}
		}
		out = append(out, a, b)
		prev = c03BestC(bits, uint64(b))
		lo = b
	}
	return out
}

const c03BatchMax = 1 << 17

func (g *c03Group) batchPow(rest []string) string {
	if len(rest) != 6 || g.batch == nil {
		return "bad-op"
	}
	if g.naive(parseBig(rest[0])) != rest[1] {
		return "bad-point"
	}
	n := parseBig(rest[2])
	alpha, beta := parseBig(rest[3]), parseBig(rest[4])
	if n.Sign() < 0 || n.Cmp(big.NewInt(c03BatchMax)) > 0 {
		return "bad-op"
	}
	if alpha.Sign() < 0 || alpha.Cmp(g.r) >= 0 || beta.Sign() < 0 || beta.Cmp(g.r) >= 0 {
		return "bad-scalar"
	}
	N := int(n.Int64())
	var idx []int
	if rest[5] != "-" {
		for _, t := range strings.Split(rest[5], ",") {
			v := parseBig(t)
			if v.Sign() < 0 || v.Cmp(n) >= 0 {
				return "bad-op"
			}
			idx = append(idx, int(v.Int64()))
		}
	}
	ss := make([]*big.Int, N)
	cur := new(big.Int).Set(beta)
	for i := range ss {
		ss[i] = new(big.Int).Set(cur)
		cur.Mul(cur, alpha).Mod(cur, g.r)
	}
	res := g.batch(rest[1], ss)
	if len(idx) == 0 {
		if (res == "-") != (N == 0) {
			return "bad-length"
		}
		return "-"
	}
	pts := strings.Split(res, " ")
	if len(pts) != N {
		return "bad-length"
	}
	var o []string
	for _, i := range idx {
		o = append(o, pts[i])
	}
	return strings.Join(o, " ")
}

// ---- window-boundary batches (op batchwin; mirror of Model/ScalarMul.lean mix64 / winHash / winBoundary / winDigit / winScalar) ----
//
//   C03 batchwin - <params> <e> <P> <N> <w> <seed> <m> <i,i,…|->
//
// batch of the N scalars whose windows of width w take boundary values (see the model); the answers of the entries of the
// sample are printed, the model runs its hand model on the first m of them.

func c03Mix64(x uint64) uint64 {
	x = (x ^ (x >> 30)) * 0xBF58476D1CE4E5B9
	x = (x ^ (x >> 27)) * 0x94D049BB133111EB
	return x ^ (x >> 31)
}

func c03WinHash(seed, i, j uint64) uint64 {
	return c03Mix64(seed + i*0x9E3779B97F4A7C15 + j*0xD1B54A32D192ED03 + 1)
}

func c03WinBoundary(w, k uint64) uint64 {
	h := uint64(1) << (w - 1)
	return []uint64{0, 2*h - 1, 1, h, h - 1, h + 1}[k]
}

// monus
func c03Monus(a, b uint64) uint64 {
	if a < b {
		return 0
	}
	return a - b
}

func c03WinDigit(w, nb, topR, seed, i, j uint64) uint64 {
	h := c03WinHash(seed, i, j)
	mask := uint64(1)<<w - 1
	half := uint64(1) << (w - 1)
	if j+1 == nb {
		t := []uint64{0, 1, half - 1, half, half + 1, mask, c03Monus(topR, 1), c03Monus(topR, 2), h & mask}[i%9]
		if t < c03Monus(topR, 1) {
			return t
		}
		return c03Monus(topR, 1)
	}
	if j+2 == nb {
		return c03WinBoundary(w, (i+2*(i/9))%6) & mask
	}
	if h%8 < 6 {
		return c03WinBoundary(w, h%8) & mask
	}
	return (h / 8) & mask
}

// scalar i of the family (w in 2..16)
func c03WinScalar(r *big.Int, w, seed, i uint64) *big.Int {
	bits := uint64(r.BitLen())
	nb := (bits + w - 1) / w
	topR := new(big.Int).Rsh(r, uint(w*(nb-1))).Uint64()
	s := new(big.Int)
	for j := uint64(0); j < nb; j++ {
		d := new(big.Int).SetUint64(c03WinDigit(w, nb, topR, seed, i, j))
		s.Add(s, d.Lsh(d, uint(w*j)))
	}
	return s
}

func (g *c03Group) batchWin(rest []string) string {
	if len(rest) != 7 || g.batch == nil {
		return "bad-op"
	}
	if g.naive(parseBig(rest[0])) != rest[1] {
		return "bad-point"
	}
	n, w, seed := parseBig(rest[2]), parseBig(rest[3]), parseBig(rest[4])
	if n.Sign() < 0 || n.Cmp(big.NewInt(c03BatchMax)) > 0 || w.Sign() < 0 || w.Cmp(big.NewInt(2)) < 0 || w.Cmp(big.NewInt(16)) > 0 ||
		seed.Sign() < 0 || seed.BitLen() > 64 || parseBig(rest[5]).Sign() < 0 {
		return "bad-op"
	}
	N := int(n.Int64())
	var idx []int
	if rest[6] != "-" {
		for _, t := range strings.Split(rest[6], ",") {
			v := parseBig(t)
			if v.Sign() < 0 || v.Cmp(n) >= 0 {
				return "bad-op"
			}
			idx = append(idx, int(v.Int64()))
		}
	}
	ss := make([]*big.Int, N)
	for i := range ss {
		ss[i] = c03WinScalar(g.r, w.Uint64(), seed.Uint64(), uint64(i))
	}
	for _, i := range idx {
		if ss[i].Cmp(g.r) >= 0 {
			return "bad-scalar"
		}
	}
	res := g.batch(rest[1], ss)
	if len(idx) == 0 {
		if (res == "-") != (N == 0) {
			return "bad-length"
		}
		return "-"
	}
	pts := strings.Split(res, " ")
	if len(pts) != N {
		return "bad-length"
	}
	var o []string
	for _, i := range idx {
		o = append(o, pts[i])
	}
	return strings.Join(o, " ")
}

// (lo, hi, c): the batch lengths lo..hi select the window c, for every window the cost model can select up to max
func c03WindowRanges(bits uint64, max int) [][3]int {
	var out [][3]int
	lo := 0
	for lo <= max {
		c := c03BestC(bits, uint64(lo))
		a, b := lo, max+1 // c at a, (another window or the end) at b
		if c03BestC(bits, uint64(max)) == c {
			a = max
		}
		for b-a > 1 {
			m := (a + b) / 2
			if c03BestC(bits, uint64(m)) == c {
				a = m
			} else {
				b = m
			}
		}
		out = append(out, [3]int{lo, a, c})
		lo = a + 1
	}
	return out
}

// class (d): scalars far outside [0, r) — both signs, 1× … 4× (and more) the bit length of the order, beyond the 64·fr.Limbs bits
// of the word array the loops index. Three zones of total bit length T: A = just above r up to just past the word array,
// B = around twice the order (1.5n … 2.5n: where a rounded GLV decomposition starts to return negative / over-long halves),
// C = 3n and more (3n, 4n, two word arrays, 1000, 3001).
//   cheap : ±(k·r + t), k of T − n bits (random, 2^j, 2^j − 1, r, r ± 1), t ∈ {0, ±1, ± up to 16 bits}: the specification value is
//           [±t]P (one short multiplication on the model side) while the implementation sees a scalar whose bits look random at
//           every position; also r − t, t − r·k … through the sign of t;
//   costly: ± random of exactly T bits, ±2^T, ±(2^T − 1) (full-length residue).
type c03FarZones struct{ A, B, C []int }

func c03FarBits(n, limbs int) c03FarZones {
	w := 64 * limbs
	uniq := func(l []int) (o []int) {
		seen := map[int]bool{}
		for _, v := range l {
			if v > n && !seen[v] {
				seen[v] = true
				o = append(o, v)
			}
		}
		return
	}
	return c03FarZones{
		A: uniq([]int{n + 1, n + 2, n + 9, w - 1, w, w + 1, w + 2, w + 63, w + 64, w + 65}),
		B: uniq([]int{3 * n / 2, 3*n/2 + 1, 2*n - 2, 2*n - 1, 2 * n, 2*n + 1, 2*n + 2, 2*n + 6, 2*n + 8, 2*n + 16, 2*n + 31, 5 * n / 2, 2*w - 1, 2 * w, 2*w + 1}),
		C: uniq([]int{3*n - 1, 3 * n, 3*n + 1, 3*n + 5, 7 * n / 2, 4*n - 1, 4 * n, 4*n + 3, 3*w + 1, 4*w + 1, 5 * n, 1000, 3001}),
	}
}

// ±(k·r + t) of about T bits
func c03FarCheap(rg *rng, r *big.Int, T int, neg bool) *big.Int {
	n := r.BitLen()
	kb := T - n + 1
	if kb < 1 {
		kb = 1
	}
	one := big.NewInt(1)
	var k *big.Int
	switch rg.intn(8) {
	case 0:
		k = bigPow2(kb - 1)
	case 1:
		k = new(big.Int).Sub(bigPow2(kb), one)
	default:
		k = rg.bigExact(kb)
	}
	if kb >= n && kb <= n+1 && rg.intn(3) == 0 { // s = r² + t, (r ± 1)·r + t
		k = new(big.Int).Add(r, big.NewInt(int64(rg.intn(3)-1)))
	}
	var t *big.Int
	switch rg.intn(6) {
	case 0:
		t = new(big.Int)
	case 1:
		t = big.NewInt(1)
	case 2:
		t = big.NewInt(-1)
	default:
		t = rg.signed(rg.bigBits(1 + rg.intn(16)))
	}
	s := new(big.Int).Mul(k, r)
	s.Add(s, t)
	if neg {
		s.Neg(s)
	}
	return s
}

// ± random of exactly T bits / ±2^T / ±(2^T − 1)
func c03FarCostly(rg *rng, T int, shape int, neg bool) *big.Int {
	var s *big.Int
	switch shape % 4 {
	case 0, 1:
		s = rg.bigExact(T)
	case 2:
		s = bigPow2(T)
	default:
		s = new(big.Int).Sub(bigPow2(T), big.NewInt(1))
	}
	if neg {
		s.Neg(s)
	}
	return s
}
