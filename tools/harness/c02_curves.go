// C02: static list of the 17 short-Weierstrass groups and the 8 twisted-Edwards packages
package main

import (
	"math/big"

	bls12377 "github.com/consensys/gnark-crypto/ecc/bls12-377"
	bls12377fr "github.com/consensys/gnark-crypto/ecc/bls12-377/fr"
	bls12377te "github.com/consensys/gnark-crypto/ecc/bls12-377/twistededwards"
	bls12381 "github.com/consensys/gnark-crypto/ecc/bls12-381"
	bandersnatch "github.com/consensys/gnark-crypto/ecc/bls12-381/bandersnatch"
	bls12381fr "github.com/consensys/gnark-crypto/ecc/bls12-381/fr"
	bls12381te "github.com/consensys/gnark-crypto/ecc/bls12-381/twistededwards"
	bls24315 "github.com/consensys/gnark-crypto/ecc/bls24-315"
	bls24315fr "github.com/consensys/gnark-crypto/ecc/bls24-315/fr"
	bls24315te "github.com/consensys/gnark-crypto/ecc/bls24-315/twistededwards"
	bls24317 "github.com/consensys/gnark-crypto/ecc/bls24-317"
	bls24317fr "github.com/consensys/gnark-crypto/ecc/bls24-317/fr"
	bls24317te "github.com/consensys/gnark-crypto/ecc/bls24-317/twistededwards"
	bn254 "github.com/consensys/gnark-crypto/ecc/bn254"
	bn254fr "github.com/consensys/gnark-crypto/ecc/bn254/fr"
	bn254te "github.com/consensys/gnark-crypto/ecc/bn254/twistededwards"
	bw6633 "github.com/consensys/gnark-crypto/ecc/bw6-633"
	bw6633fr "github.com/consensys/gnark-crypto/ecc/bw6-633/fr"
	bw6633te "github.com/consensys/gnark-crypto/ecc/bw6-633/twistededwards"
	bw6761 "github.com/consensys/gnark-crypto/ecc/bw6-761"
	bw6761fr "github.com/consensys/gnark-crypto/ecc/bw6-761/fr"
	bw6761te "github.com/consensys/gnark-crypto/ecc/bw6-761/twistededwards"
	grumpkin "github.com/consensys/gnark-crypto/ecc/grumpkin"
	grumpkinfr "github.com/consensys/gnark-crypto/ecc/grumpkin/fr"
	secp256k1 "github.com/consensys/gnark-crypto/ecc/secp256k1"
	secp256k1fr "github.com/consensys/gnark-crypto/ecc/secp256k1/fr"
	starkcurve "github.com/consensys/gnark-crypto/ecc/stark-curve"
	starkcurvefr "github.com/consensys/gnark-crypto/ecc/stark-curve/fr"
)

// called lazily (the field adapters of fields_gen.go are registered in a later init())
func c02Register() {
	{
		_, _, g1, g2 := bn254.Generators()
		a, b := bn254.CurveCoefficients()
		regSW("bn254.G1", "bn254_fp", 1, g1, bn254.G1Jac{}, g1.X, bigOf(&a), bigOf(&b), bn254fr.Modulus(),
			(*bn254.G1Affine).Double, (*bn254.G1Jac).DoubleMixed, bn254.BatchJacobianToAffineG1)
		regSW("bn254.G2", "bn254_fp", 2, g2, bn254.G2Jac{}, g2.X, nil, nil, bn254fr.Modulus(),
			(*bn254.G2Affine).Double, (*bn254.G2Jac).DoubleMixed, nil)
	}
	{
		_, _, g1, g2 := bls12377.Generators()
		a, b := bls12377.CurveCoefficients()
		regSW("bls12-377.G1", "bls12_377_fp", 1, g1, bls12377.G1Jac{}, g1.X, bigOf(&a), bigOf(&b), bls12377fr.Modulus(),
			(*bls12377.G1Affine).Double, (*bls12377.G1Jac).DoubleMixed, bls12377.BatchJacobianToAffineG1)
		regSW("bls12-377.G2", "bls12_377_fp", 2, g2, bls12377.G2Jac{}, g2.X, nil, nil, bls12377fr.Modulus(),
			(*bls12377.G2Affine).Double, (*bls12377.G2Jac).DoubleMixed, nil)
	}
	{
		_, _, g1, g2 := bls12381.Generators()
		a, b := bls12381.CurveCoefficients()
		regSW("bls12-381.G1", "bls12_381_fp", 1, g1, bls12381.G1Jac{}, g1.X, bigOf(&a), bigOf(&b), bls12381fr.Modulus(),
			(*bls12381.G1Affine).Double, (*bls12381.G1Jac).DoubleMixed, bls12381.BatchJacobianToAffineG1)
		regSW("bls12-381.G2", "bls12_381_fp", 2, g2, bls12381.G2Jac{}, g2.X, nil, nil, bls12381fr.Modulus(),
			(*bls12381.G2Affine).Double, (*bls12381.G2Jac).DoubleMixed, nil)
	}
	{
		_, _, g1, g2 := bls24315.Generators()
		a, b := bls24315.CurveCoefficients()
		regSW("bls24-315.G1", "bls24_315_fp", 1, g1, bls24315.G1Jac{}, g1.X, bigOf(&a), bigOf(&b), bls24315fr.Modulus(),
			(*bls24315.G1Affine).Double, (*bls24315.G1Jac).DoubleMixed, bls24315.BatchJacobianToAffineG1)
		regSW("bls24-315.G2", "bls24_315_fp", 4, g2, bls24315.G2Jac{}, g2.X, nil, nil, bls24315fr.Modulus(),
			(*bls24315.G2Affine).Double, (*bls24315.G2Jac).DoubleMixed, nil)
	}
	{
		_, _, g1, g2 := bls24317.Generators()
		a, b := bls24317.CurveCoefficients()
		regSW("bls24-317.G1", "bls24_317_fp", 1, g1, bls24317.G1Jac{}, g1.X, bigOf(&a), bigOf(&b), bls24317fr.Modulus(),
			(*bls24317.G1Affine).Double, (*bls24317.G1Jac).DoubleMixed, bls24317.BatchJacobianToAffineG1)
		regSW("bls24-317.G2", "bls24_317_fp", 4, g2, bls24317.G2Jac{}, g2.X, nil, nil, bls24317fr.Modulus(),
			(*bls24317.G2Affine).Double, (*bls24317.G2Jac).DoubleMixed, nil)
	}
	{
		_, _, g1, g2 := bw6633.Generators()
		a, b := bw6633.CurveCoefficients()
		regSW("bw6-633.G1", "bw6_633_fp", 1, g1, bw6633.G1Jac{}, g1.X, bigOf(&a), bigOf(&b), bw6633fr.Modulus(),
			(*bw6633.G1Affine).Double, (*bw6633.G1Jac).DoubleMixed, bw6633.BatchJacobianToAffineG1)
		regSW("bw6-633.G2", "bw6_633_fp", 1, g2, bw6633.G2Jac{}, g2.X, nil, nil, bw6633fr.Modulus(),
			(*bw6633.G2Affine).Double, (*bw6633.G2Jac).DoubleMixed, nil)
	}
	{
		_, _, g1, g2 := bw6761.Generators()
		a, b := bw6761.CurveCoefficients()
		regSW("bw6-761.G1", "bw6_761_fp", 1, g1, bw6761.G1Jac{}, g1.X, bigOf(&a), bigOf(&b), bw6761fr.Modulus(),
			(*bw6761.G1Affine).Double, (*bw6761.G1Jac).DoubleMixed, bw6761.BatchJacobianToAffineG1)
		regSW("bw6-761.G2", "bw6_761_fp", 1, g2, bw6761.G2Jac{}, g2.X, nil, nil, bw6761fr.Modulus(),
			(*bw6761.G2Affine).Double, (*bw6761.G2Jac).DoubleMixed, nil)
	}
	{
		_, g1 := grumpkin.Generators()
		a, b := grumpkin.CurveCoefficients()
		regSW("grumpkin.G1", "grumpkin_fp", 1, g1, grumpkin.G1Jac{}, g1.X, bigOf(&a), bigOf(&b), grumpkinfr.Modulus(),
			(*grumpkin.G1Affine).Double, (*grumpkin.G1Jac).DoubleMixed, grumpkin.BatchJacobianToAffineG1)
	}
	{
		_, g1 := secp256k1.Generators()
		a, b := secp256k1.CurveCoefficients()
		regSW("secp256k1.G1", "secp256k1_fp", 1, g1, secp256k1.G1Jac{}, g1.X, bigOf(&a), bigOf(&b), secp256k1fr.Modulus(),
			(*secp256k1.G1Affine).Double, (*secp256k1.G1Jac).DoubleMixed, secp256k1.BatchJacobianToAffineG1)
	}
	{
		_, g1 := starkcurve.Generators()
		a, b := starkcurve.CurveCoefficients()
		regSW("stark-curve.G1", "stark_curve_fp", 1, g1, starkcurve.G1Jac{}, g1.X, bigOf(&a), bigOf(&b), starkcurvefr.Modulus(),
			nil, nil, starkcurve.BatchJacobianToAffineG1)
	}

	regTE("bn254.te", "bn254_fr", bn254te.PointAffine{}, bn254te.PointProj{}, bn254te.PointExtended{}, func() teParams {
		c := bn254te.GetEdwardsCurve()
		return teParams{bigOf(&c.A), bigOf(&c.D), bigOf(&c.Base.X), bigOf(&c.Base.Y), new(big.Int).Set(&c.Order)}
	})
	regTE("bls12-377.te", "bls12_377_fr", bls12377te.PointAffine{}, bls12377te.PointProj{}, bls12377te.PointExtended{}, func() teParams {
		c := bls12377te.GetEdwardsCurve()
		return teParams{bigOf(&c.A), bigOf(&c.D), bigOf(&c.Base.X), bigOf(&c.Base.Y), new(big.Int).Set(&c.Order)}
	})
	regTE("bls12-381.te", "bls12_381_fr", bls12381te.PointAffine{}, bls12381te.PointProj{}, bls12381te.PointExtended{}, func() teParams {
		c := bls12381te.GetEdwardsCurve()
		return teParams{bigOf(&c.A), bigOf(&c.D), bigOf(&c.Base.X), bigOf(&c.Base.Y), new(big.Int).Set(&c.Order)}
	})
	regTE("bls12-381.bandersnatch", "bls12_381_fr", bandersnatch.PointAffine{}, bandersnatch.PointProj{}, bandersnatch.PointExtended{}, func() teParams {
		c := bandersnatch.GetEdwardsCurve()
		return teParams{bigOf(&c.A), bigOf(&c.D), bigOf(&c.Base.X), bigOf(&c.Base.Y), new(big.Int).Set(&c.Order)}
	})
	regTE("bls24-315.te", "bls24_315_fr", bls24315te.PointAffine{}, bls24315te.PointProj{}, bls24315te.PointExtended{}, func() teParams {
		c := bls24315te.GetEdwardsCurve()
		return teParams{bigOf(&c.A), bigOf(&c.D), bigOf(&c.Base.X), bigOf(&c.Base.Y), new(big.Int).Set(&c.Order)}
	})
	regTE("bls24-317.te", "bls24_317_fr", bls24317te.PointAffine{}, bls24317te.PointProj{}, bls24317te.PointExtended{}, func() teParams {
		c := bls24317te.GetEdwardsCurve()
		return teParams{bigOf(&c.A), bigOf(&c.D), bigOf(&c.Base.X), bigOf(&c.Base.Y), new(big.Int).Set(&c.Order)}
	})
	regTE("bw6-633.te", "bw6_633_fr", bw6633te.PointAffine{}, bw6633te.PointProj{}, bw6633te.PointExtended{}, func() teParams {
		c := bw6633te.GetEdwardsCurve()
		return teParams{bigOf(&c.A), bigOf(&c.D), bigOf(&c.Base.X), bigOf(&c.Base.Y), new(big.Int).Set(&c.Order)}
	})
	regTE("bw6-761.te", "bw6_761_fr", bw6761te.PointAffine{}, bw6761te.PointProj{}, bw6761te.PointExtended{}, func() teParams {
		c := bw6761te.GetEdwardsCurve()
		return teParams{bigOf(&c.A), bigOf(&c.D), bigOf(&c.Base.X), bigOf(&c.Base.Y), new(big.Int).Set(&c.Order)}
	})
}
