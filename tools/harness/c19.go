package main

// C19 – receiver and operands may alias in every arithmetic method.
//
// Reflection-driven: for every registered type T (c19_types.go + everything reachable through struct fields) every exported
// method with receiver *T is inspected at run time. The alias-capable POSITIONS of a method are the receiver (position 0) and
// every parameter that is a pointer to a value type or a slice of value types (numbered 1,2,… in parameter order); two positions
// may alias when they have the same pointee type (slices: the same element type – `Polynomial`, `Vector`, `[]fr.Element` can share
// a backing array). For EVERY set partition of the positions that only merges same-typed positions the method is called
//   (ref)   on pairwise distinct fresh copies of the operand values,
//   (alias) with all positions of a block being the SAME object,
// and we compare: same = receiver value and all returned values agree (both calls panicking counts as agreement; exactly one
// panicking is answered `panic`), ops = every block that does not contain the receiver still holds its original value.
//
// op line:  C19 <pkgpath.Type> <Method> <partition> <kinds>:<seed>
//   partition  blocks separated by '|', each block a string of position digits (hex), blocks ordered by first position: 01|2
//   kinds      one digit per block, value class of the block: 0 zero/infinity  1 one/generator  2 -one/-generator  3 random
//              4 equal to the previous same-typed block (equal values in distinct cells)  5 negation of the previous block
//              6 sparse / small / non-canonical (sparse tower element, small multiple, Z=0 with X,Y≠0, negative scalar)
//   seed       hex u64 seeding every remaining choice (random values, slice lengths, by-value parameters)
// INTERIOR aliasing (optional 5th token): a pointer operand of a LOWER-level type pointing INTO another parameter of a larger
// type (`z.MulByElement(z, &z.A0)`, `z.MulBy034(&z.C0.B0, …)`, `p.ScalarMultiplication(q, &…)`):
//   C19 <pkgpath.Type> <Method> <partition> <kinds>:<seed> <p>.<q>.<i>[,<p>.<q>.<i>…]
//   position p (a singleton block, pointer operand) is, in the aliased call, the i-th sub-object (depth-first over struct fields
//   and array entries) of type key(p) inside the cell of position q; in the reference call it is a fresh cell holding the VALUE
//   that sub-object has before the call (the kind digit of p's block is ignored). Compared as above; p counts as a member of
//   q's block (a cell inside a destination is not required to be preserved; inside a pure operand it is).
// answer:   same=<0|1> ops=<0|1>   |  panic  |  bad-op
// With GV_C19_DETAIL=1 the executor appends what differed (recv, out<i>, op<pos>, repr = raw representation differs but Equal()).

import (
	"fmt"
	"math/big"
	"os"
	"reflect"
	"sort"
	"strconv"
	"strings"
	"sync"
)

func init() {
	executors["C19"] = execC19
	generators["C19"] = genC19
}

const c19Mod = "github.com/consensys/gnark-crypto/"

// methods that are not arithmetic (randomness, codecs, printing, I/O, conversions into caller-supplied buffers)
var c19Excluded = map[string]string{
	"SetRandom": "randomness", "MustSetRandom": "randomness",
	"SetBytes": "codec", "SetBytesCanonical": "codec", "Unmarshal": "codec", "UnmarshalBinary": "codec", "UnmarshalJSON": "codec",
	"Marshal": "codec", "MarshalBinary": "codec", "MarshalJSON": "codec", "Bytes": "codec", "RawBytes": "codec",
	"String": "printing", "Text": "printing", "SetString": "parsing", "SetInterface": "parsing",
	"ReadFrom": "I/O", "WriteTo": "I/O", "AsyncReadFrom": "I/O",
	"BigInt": "conversion into caller buffer (res *big.Int is the destination)", "ToBigIntRegular": "conversion into caller buffer",
}

type c19Type struct {
	name string
	t    reflect.Type
	ms   []*c19Meth
}

type c19Pos struct {
	arg   int          // index in the method's argument list (0 = receiver)
	key   reflect.Type // alias group: pointee type, or []elem for slices
	slice bool
	recvS reflect.Type // receiver only: named slice type S when the receiver is *S
}

type c19Meth struct {
	name string
	m    reflect.Method
	pos  []c19Pos
	skip string // why the method is not exercised ("" = exercised)
	once sync.Once
	dest []bool // positions written by the non-aliased call (receiver + out-parameters), found by probing
}

var c19Once sync.Once
var c19Types map[string]*c19Type
var c19Names []string

func c19Name(t reflect.Type) string { return strings.TrimPrefix(t.PkgPath(), c19Mod) + "." + t.Name() }

func c19Registry() (map[string]*c19Type, []string) {
	c19Once.Do(func() {
		c19Types = map[string]*c19Type{}
		var walk func(t reflect.Type)
		walk = func(t reflect.Type) {
			switch t.Kind() {
			case reflect.Ptr, reflect.Slice, reflect.Array:
				if t.Name() == "" {
					walk(t.Elem())
					return
				}
			}
			if t.Name() == "" || !strings.HasPrefix(t.PkgPath(), c19Mod) {
				return
			}
			n := c19Name(t)
			if _, ok := c19Types[n]; ok {
				return
			}
			switch t.Kind() {
			case reflect.Struct:
				c19Types[n] = &c19Type{name: n, t: t}
				for i := 0; i < t.NumField(); i++ {
					walk(t.Field(i).Type)
				}
			case reflect.Slice:
				c19Types[n] = &c19Type{name: n, t: t}
				walk(t.Elem())
			case reflect.Array:
				if c19Class(t) == clsField {
					c19Types[n] = &c19Type{name: n, t: t}
				}
			}
		}
		for _, r := range c19Roots {
			walk(reflect.TypeOf(r))
		}
		for n, ty := range c19Types {
			c19Names = append(c19Names, n)
			ty.ms = c19Methods(ty.t)
		}
		sort.Strings(c19Names)
	})
	return c19Types, c19Names
}

// ---------------------------------------------------------------- type classes

const (
	clsUnsupported = iota
	clsField
	clsBig
	clsSWAff
	clsSWJac
	clsTEAff
	clsTEProj
	clsTEExt
	clsStruct
	clsArray
	clsSlice
	clsInt
	clsPtr
)

var bigT = reflect.TypeOf(big.Int{})
var c19ClassCache sync.Map

func c19Class(t reflect.Type) int {
	if c, ok := c19ClassCache.Load(t); ok {
		return c.(int)
	}
	c := c19Class0(t)
	c19ClassCache.Store(t, c)
	return c
}

func c19Class0(t reflect.Type) int {
	if t == bigT {
		return clsBig
	}
	inMod := strings.HasPrefix(t.PkgPath(), c19Mod)
	switch t.Kind() {
	case reflect.Array:
		if inMod && (t.Elem().Kind() == reflect.Uint64 || t.Elem().Kind() == reflect.Uint32) {
			if _, ok := reflect.PointerTo(t).MethodByName("SetBigInt"); ok {
				return clsField
			}
		}
		if c19Class(t.Elem()) == clsUnsupported {
			return clsUnsupported
		}
		return clsArray
	case reflect.Struct:
		if inMod {
			te := strings.Contains(t.PkgPath(), "twistededwards") || strings.Contains(t.PkgPath(), "bandersnatch")
			switch {
			case (t.Name() == "G1Affine" || t.Name() == "G2Affine") && !te:
				return clsSWAff
			case (t.Name() == "G1Jac" || t.Name() == "G2Jac") && !te:
				return clsSWJac
			case t.Name() == "PointAffine" && te:
				return clsTEAff
			case t.Name() == "PointProj" && te:
				return clsTEProj
			case t.Name() == "PointExtended" && te:
				return clsTEExt
			}
		}
		for i := 0; i < t.NumField(); i++ {
			if !t.Field(i).IsExported() || c19Class(t.Field(i).Type) == clsUnsupported {
				return clsUnsupported
			}
		}
		return clsStruct
	case reflect.Slice:
		if c19Class(t.Elem()) == clsUnsupported {
			return clsUnsupported
		}
		return clsSlice
	case reflect.Ptr:
		if c := c19Class(t.Elem()); c == clsUnsupported || c == clsPtr {
			return clsUnsupported
		}
		return clsPtr
	case reflect.Int, reflect.Int8, reflect.Int16, reflect.Int32, reflect.Int64, reflect.Uint, reflect.Uint8, reflect.Uint16, reflect.Uint32, reflect.Uint64, reflect.Bool:
		return clsInt
	}
	return clsUnsupported
}

func c19HasPtr(t reflect.Type) bool {
	switch t.Kind() {
	case reflect.Ptr, reflect.Slice, reflect.Map, reflect.Interface, reflect.Chan, reflect.Func, reflect.String, reflect.UnsafePointer:
		return true
	case reflect.Array:
		return c19HasPtr(t.Elem())
	case reflect.Struct:
		for i := 0; i < t.NumField(); i++ {
			if c19HasPtr(t.Field(i).Type) {
				return true
			}
		}
	}
	return false
}

// field-related = lives in the library (or is big.Int) and bottoms out in field elements / big integers
func c19FieldRelated(t reflect.Type) bool {
	switch c19Class(t) {
	case clsField, clsBig, clsSWAff, clsSWJac, clsTEAff, clsTEProj, clsTEExt:
		return true
	case clsStruct:
		return strings.HasPrefix(t.PkgPath(), c19Mod) && t.NumField() > 0
	case clsArray, clsSlice, clsPtr:
		return c19FieldRelated(t.Elem())
	}
	return false
}

// ---------------------------------------------------------------- method discovery

func c19Methods(t reflect.Type) []*c19Meth {
	pt := reflect.PointerTo(t)
	var res []*c19Meth
	for i := 0; i < pt.NumMethod(); i++ {
		m := pt.Method(i)
		if _, byValue := t.MethodByName(m.Name); byValue {
			continue // value receiver: the receiver cannot be a destination
		}
		me := &c19Meth{name: m.Name, m: m}
		res = append(res, me)
		if why, ok := c19Excluded[m.Name]; ok {
			me.skip = "excluded: " + why
			continue
		}
		if t.Kind() == reflect.Slice {
			me.pos = append(me.pos, c19Pos{arg: 0, key: reflect.SliceOf(t.Elem()), slice: true, recvS: t})
		} else {
			me.pos = append(me.pos, c19Pos{arg: 0, key: t})
		}
		ft := m.Type
		for a := 1; a < ft.NumIn() && me.skip == ""; a++ {
			p := ft.In(a)
			switch {
			case ft.IsVariadic() && a == ft.NumIn()-1:
				me.skip = "unsupported: variadic parameter"
			case p.Kind() == reflect.Ptr:
				e := p.Elem()
				if !c19FieldRelated(e) || e.Kind() == reflect.Slice {
					me.skip = "unsupported parameter " + p.String()
				} else {
					me.pos = append(me.pos, c19Pos{arg: a, key: e})
				}
			case p.Kind() == reflect.Slice:
				if !c19FieldRelated(p.Elem()) {
					me.skip = "unsupported parameter " + p.String()
				} else {
					me.pos = append(me.pos, c19Pos{arg: a, key: reflect.SliceOf(p.Elem()), slice: true})
				}
			case c19Class(p) == clsUnsupported || c19Class(p) == clsPtr:
				me.skip = "unsupported parameter " + p.String()
			}
		}
		if me.skip == "" && len(me.pos) < 2 {
			me.skip = "n/a: no pointer or slice operand"
		}
		if len(me.pos) > 15 {
			me.skip = "unsupported: too many positions"
		}
	}
	return res
}

// all set partitions of the positions that merge only positions with the same key; blocks[i] = sorted positions
func c19Partitions(pos []c19Pos) [][][]int {
	var out [][][]int
	var rec func(i int, blocks [][]int)
	rec = func(i int, blocks [][]int) {
		if i == len(pos) {
			cp := make([][]int, len(blocks))
			for j, b := range blocks {
				cp[j] = append([]int(nil), b...)
			}
			out = append(out, cp)
			return
		}
		for j := range blocks {
			if pos[blocks[j][0]].key == pos[i].key {
				blocks[j] = append(blocks[j], i)
				rec(i+1, blocks)
				blocks[j] = blocks[j][:len(blocks[j])-1]
			}
		}
		rec(i+1, append(blocks, []int{i}))
	}
	rec(0, nil)
	return out
}

func c19PartString(blocks [][]int) string {
	var sb strings.Builder
	for i, b := range blocks {
		if i > 0 {
			sb.WriteByte('|')
		}
		for _, p := range b {
			sb.WriteString(strconv.FormatInt(int64(p), 16))
		}
	}
	return sb.String()
}

// syntactic validation shared with the Lean side: blocks non-empty, digits strictly increasing inside a block, blocks ordered
// by first position, positions = {0..n-1}
func c19ParsePart(s string) ([][]int, bool) {
	var blocks [][]int
	seen := map[int]bool{}
	n := 0
	for _, bs := range strings.Split(s, "|") {
		if bs == "" {
			return nil, false
		}
		var b []int
		for _, ch := range bs {
			d, err := strconv.ParseInt(string(ch), 16, 32)
			if err != nil || ch >= 'A' && ch <= 'F' {
				return nil, false
			}
			if len(b) > 0 && int(d) <= b[len(b)-1] {
				return nil, false
			}
			if seen[int(d)] {
				return nil, false
			}
			seen[int(d)] = true
			b = append(b, int(d))
			n++
		}
		if len(blocks) > 0 && b[0] <= blocks[len(blocks)-1][0] {
			return nil, false
		}
		blocks = append(blocks, b)
	}
	for i := 0; i < n; i++ {
		if !seen[i] {
			return nil, false
		}
	}
	return blocks, true
}

func c19ParseSeed(s string, nblocks int) (string, uint64, bool) {
	f := strings.Split(s, ":")
	if len(f) != 2 || len(f[0]) != nblocks || f[1] == "" || len(f[1]) > 16 {
		return "", 0, false
	}
	for _, ch := range f[0] {
		if ch < '0' || ch > '6' {
			return "", 0, false
		}
	}
	for _, ch := range f[1] {
		if !(ch >= '0' && ch <= '9' || ch >= 'a' && ch <= 'f') {
			return "", 0, false
		}
	}
	v, err := strconv.ParseUint(f[1], 16, 64)
	if err != nil {
		return "", 0, false
	}
	return f[0], v, true
}

// ---------------------------------------------------------------- values

func c19Call(recv reflect.Value, name string, args ...reflect.Value) []reflect.Value {
	return recv.MethodByName(name).Call(args)
}

func c19HasMeth(pt reflect.Type, name string, nin int) bool {
	m, ok := pt.MethodByName(name)
	return ok && m.Type.NumIn() == nin+1
}

// deep copy of a value (fresh storage everywhere)
func c19Copy(v reflect.Value) reflect.Value {
	t := v.Type()
	n := reflect.New(t).Elem()
	if t == bigT {
		src := v.Addr().Interface().(*big.Int)
		n.Addr().Interface().(*big.Int).Set(src)
		return n
	}
	if !c19HasPtr(t) {
		n.Set(v)
		return n
	}
	switch t.Kind() {
	case reflect.Ptr:
		if !v.IsNil() {
			n.Set(c19Copy(v.Elem()).Addr())
		}
	case reflect.Slice:
		if !v.IsNil() {
			s := reflect.MakeSlice(t, v.Len(), v.Len())
			for i := 0; i < v.Len(); i++ {
				s.Index(i).Set(c19Copy(v.Index(i)))
			}
			n.Set(s)
		}
	case reflect.Array:
		for i := 0; i < v.Len(); i++ {
			n.Index(i).Set(c19Copy(v.Index(i)))
		}
	case reflect.Struct:
		for i := 0; i < t.NumField(); i++ {
			n.Field(i).Set(c19Copy(v.Field(i)))
		}
	default:
		n.Set(v)
	}
	return n
}

// raw (representation) equality
func c19RawEq(a, b reflect.Value) bool {
	t := a.Type()
	if t != b.Type() {
		return false
	}
	if t == bigT {
		return c19Big(a).Cmp(c19Big(b)) == 0
	}
	if !c19HasPtr(t) {
		return reflect.DeepEqual(a.Interface(), b.Interface())
	}
	switch t.Kind() {
	case reflect.Ptr:
		if a.IsNil() || b.IsNil() {
			return a.IsNil() == b.IsNil()
		}
		return c19RawEq(a.Elem(), b.Elem())
	case reflect.Slice, reflect.Array:
		if a.Len() != b.Len() {
			return false
		}
		for i := 0; i < a.Len(); i++ {
			if !c19RawEq(a.Index(i), b.Index(i)) {
				return false
			}
		}
		return true
	case reflect.Struct:
		for i := 0; i < t.NumField(); i++ {
			if !c19RawEq(a.Field(i), b.Field(i)) {
				return false
			}
		}
		return true
	case reflect.Interface:
		if a.IsNil() || b.IsNil() {
			return a.IsNil() == b.IsNil()
		}
		if ea, ok := a.Interface().(error); ok {
			eb, ok2 := b.Interface().(error)
			return ok2 && ea.Error() == eb.Error()
		}
		return reflect.DeepEqual(a.Interface(), b.Interface())
	}
	return reflect.DeepEqual(a.Interface(), b.Interface())
}

func c19Big(v reflect.Value) *big.Int {
	if v.CanAddr() {
		return v.Addr().Interface().(*big.Int)
	}
	x := v.Interface().(big.Int)
	return &x
}

// value equality: raw, or the type's own Equal (projective coordinates)
func c19SemEq(a, b reflect.Value) (eq bool, reprOnly bool) {
	if c19RawEq(a, b) {
		return true, false
	}
	t := a.Type()
	if t.Kind() == reflect.Struct && !c19HasPtr(t) {
		pt := reflect.PointerTo(t)
		if m, ok := pt.MethodByName("Equal"); ok && m.Type.NumIn() == 2 && m.Type.In(1) == pt && m.Type.NumOut() == 1 && m.Type.Out(0).Kind() == reflect.Bool {
			x, y := c19Copy(a), c19Copy(b)
			if c19Call(x.Addr(), "Equal", y.Addr())[0].Bool() {
				return true, true
			}
		}
	}
	return false, false
}

type c19Filler struct{ r *rng }

// v := [s]G for a short-Weierstrass point type (stark-curve's G1Jac has no ScalarMultiplicationBase: go through the affine type)
func c19SWBase(v reflect.Value, s *big.Int) {
	pt := reflect.PointerTo(v.Type())
	if c19HasMeth(pt, "ScalarMultiplicationBase", 1) {
		c19Call(v.Addr(), "ScalarMultiplicationBase", reflect.ValueOf(s))
		return
	}
	m, _ := pt.MethodByName("FromAffine")
	aff := reflect.New(m.Type.In(1).Elem())
	c19SWBase(aff.Elem(), big.NewInt(1))
	c19Call(v.Addr(), "FromAffine", aff)
	c19Call(v.Addr(), "ScalarMultiplication", v.Addr(), reflect.ValueOf(s))
}

func (f *c19Filler) bigKind(kind int) *big.Int {
	switch kind {
	case 0:
		return new(big.Int)
	case 1:
		return big.NewInt(1)
	case 2:
		return big.NewInt(-1)
	case 6:
		v := f.r.bigBits(1 + f.r.intn(300))
		return v.Neg(v)
	}
	bits := []int{1, 2, 5, 16, 63, 64, 65, 128, 254, 256, 384, 520}
	return f.r.bigBits(bits[f.r.intn(len(bits))])
}

func c19NegInPlace(v reflect.Value) bool {
	t := v.Type()
	if t == bigT {
		b := c19Big(v)
		b.Neg(b)
		return true
	}
	pt := reflect.PointerTo(t)
	if m, ok := pt.MethodByName("Neg"); ok && m.Type.NumIn() == 2 && m.Type.In(1) == pt {
		c19Call(v.Addr(), "Neg", v.Addr())
		return true
	}
	if t.Kind() == reflect.Slice || t.Kind() == reflect.Array {
		ok := true
		for i := 0; i < v.Len(); i++ {
			ok = c19NegInPlace(v.Index(i)) && ok
		}
		return ok
	}
	return false
}

// fill the addressable value v with a value of the given class
func (f *c19Filler) fill(v reflect.Value, kind int, prev reflect.Value) {
	t := v.Type()
	if kind == 4 || kind == 5 {
		if prev.IsValid() && prev.Type() == t {
			v.Set(c19Copy(prev))
			if kind == 5 {
				c19NegInPlace(v)
			}
			return
		}
		kind = 3
	}
	none := reflect.Value{}
	pt := reflect.PointerTo(t)
	bigv := func(b *big.Int) reflect.Value { return reflect.ValueOf(b) }
	switch c19Class(t) {
	case clsField:
		switch kind {
		case 0:
			v.Set(reflect.Zero(t))
		case 1:
			c19Call(v.Addr(), "SetOne")
		case 2:
			c19Call(v.Addr(), "SetOne")
			c19Call(v.Addr(), "Neg", v.Addr())
		case 6:
			c19Call(v.Addr(), "SetBigInt", bigv(big.NewInt(int64(f.r.intn(256)))))
		default:
			c19Call(v.Addr(), "SetBigInt", bigv(f.r.bigBits(int(t.Size())*8+64)))
		}
	case clsBig:
		c19Big(v).Set(f.bigKind(kind))
	case clsSWAff, clsSWJac:
		switch kind {
		case 0:
			if c19Class(t) == clsSWJac {
				m, _ := pt.MethodByName("FromAffine")
				c19Call(v.Addr(), "FromAffine", reflect.New(m.Type.In(1).Elem()))
			} else {
				v.Set(reflect.Zero(t))
			}
		case 1, 2:
			c19SWBase(v, big.NewInt(1))
			if kind == 2 {
				c19Call(v.Addr(), "Neg", v.Addr())
			}
		case 6:
			if c19Class(t) == clsSWJac { // infinity in a non-canonical representation: Z = 0, X, Y ≠ 0
				c19SWBase(v, f.r.bigBits(64))
				z := v.FieldByName("Z")
				z.Set(reflect.Zero(z.Type()))
			} else {
				c19SWBase(v, big.NewInt(int64(2+f.r.intn(8))))
			}
		default:
			c19SWBase(v, f.r.bigBits(128))
		}
	case clsTEAff:
		base := c19TEBase[t.PkgPath()]
		switch kind {
		case 0:
			f.fill(v.FieldByName("X"), 0, none)
			f.fill(v.FieldByName("Y"), 1, none)
		case 1, 2:
			v.Set(base)
			if kind == 2 {
				c19Call(v.Addr(), "Neg", v.Addr())
			}
		case 6:
			b := c19Copy(base)
			c19Call(v.Addr(), "ScalarMultiplication", b.Addr(), bigv(big.NewInt(int64(2+f.r.intn(8)))))
		default:
			b := c19Copy(base)
			c19Call(v.Addr(), "ScalarMultiplication", b.Addr(), bigv(f.r.bigBits(128)))
		}
	case clsTEProj, clsTEExt:
		m, _ := pt.MethodByName("FromAffine")
		aff := reflect.New(m.Type.In(1).Elem())
		f.fill(aff.Elem(), kind, none)
		c19Call(v.Addr(), "FromAffine", aff)
		if kind == 3 || kind == 6 { // leave the Z = 1 chart
			c19Call(v.Addr(), "ScalarMultiplication", v.Addr(), bigv(big.NewInt(int64(2+f.r.intn(6)))))
		}
	case clsStruct:
		if t.Name() == "MultiExpConfig" {
			v.Set(reflect.Zero(t))
			return
		}
		switch {
		case kind == 0:
			for i := 0; i < t.NumField(); i++ {
				f.fill(v.Field(i), 0, none)
			}
		case kind == 1 || kind == 2:
			if c19HasMeth(pt, "SetOne", 0) {
				c19Call(v.Addr(), "SetOne")
			} else {
				for i := 0; i < t.NumField(); i++ {
					k := 0
					if i == 0 {
						k = 1
					}
					f.fill(v.Field(i), k, none)
				}
			}
			if kind == 2 {
				c19NegInPlace(v)
			}
		case kind == 6:
			ks := []int{0, 3, 3, 6, 1, 0}
			for i := 0; i < t.NumField(); i++ {
				f.fill(v.Field(i), ks[f.r.intn(len(ks))], none)
			}
		default:
			for i := 0; i < t.NumField(); i++ {
				f.fill(v.Field(i), 3, none)
			}
		}
	case clsArray:
		for i := 0; i < v.Len(); i++ {
			f.fill(v.Index(i), kind, none)
		}
	case clsPtr:
		n := reflect.New(t.Elem())
		f.fill(n.Elem(), kind, none)
		v.Set(n)
	case clsInt:
		var x uint64
		switch kind {
		case 0, 1, 2:
			x = uint64(kind)
		default:
			x = uint64(f.r.intn(8))
		}
		switch t.Kind() {
		case reflect.Bool:
			v.SetBool(x&1 == 1)
		case reflect.Int, reflect.Int8, reflect.Int16, reflect.Int32, reflect.Int64:
			v.SetInt(int64(x))
		default:
			v.SetUint(x)
		}
	case clsSlice: // by-value slices inside structs: short
		n := f.r.intn(3)
		s := reflect.MakeSlice(t, n, n)
		for i := 0; i < n; i++ {
			f.fill(s.Index(i), kind, none)
		}
		v.Set(s)
	}
}

func (f *c19Filler) fillSlice(t reflect.Type, n, kind int, prev reflect.Value) reflect.Value {
	v := reflect.New(t).Elem()
	if (kind == 4 || kind == 5) && prev.IsValid() && prev.Type() == t && prev.Len() == n {
		f.fill(v, kind, prev)
		return v
	}
	if kind == 4 || kind == 5 {
		kind = 3
	}
	s := reflect.MakeSlice(t, n, n)
	for i := 0; i < n; i++ {
		k := kind
		if kind == 6 {
			k = []int{0, 3, 1, 2, 6}[f.r.intn(5)]
		}
		f.fill(s.Index(i), k, reflect.Value{})
	}
	v.Set(s)
	return v
}

// ---------------------------------------------------------------- interior aliasing

type c19Inter struct{ p, q, idx int }

type c19SubKey struct{ outer, target reflect.Type }

var c19SubCache sync.Map

// paths (field / array indices) of every sub-object of type target strictly inside a value of type outer, depth-first;
// pointers, slices and big.Int internals are other memory and are not entered
func c19Subs(outer, target reflect.Type) [][]int {
	k := c19SubKey{outer, target}
	if v, ok := c19SubCache.Load(k); ok {
		return v.([][]int)
	}
	var out [][]int
	var rec func(t reflect.Type, path []int)
	rec = func(t reflect.Type, path []int) {
		if len(path) > 0 && t == target {
			out = append(out, append([]int(nil), path...))
			return
		}
		if t == bigT || c19Class(t) == clsField {
			return
		}
		switch t.Kind() {
		case reflect.Struct:
			for i := 0; i < t.NumField(); i++ {
				if t.Field(i).IsExported() {
					rec(t.Field(i).Type, append(path, i))
				}
			}
		case reflect.Array:
			for i := 0; i < t.Len(); i++ {
				rec(t.Elem(), append(path, i))
			}
		}
	}
	if outer != target {
		rec(outer, nil)
	}
	c19SubCache.Store(k, out)
	return out
}

func c19Sub(v reflect.Value, path []int) reflect.Value {
	for _, i := range path {
		if v.Kind() == reflect.Struct {
			v = v.Field(i)
		} else {
			v = v.Index(i)
		}
	}
	return v
}

func c19InterString(in []c19Inter) string {
	var f []string
	for _, x := range in {
		f = append(f, fmt.Sprintf("%x.%x.%d", x.p, x.q, x.idx))
	}
	return strings.Join(f, ",")
}

// syntactic validation shared with the Lean side: items p.q.i, p and q one lower-case hex digit < n, p ≠ q, p a singleton block,
// no p twice, no q that is itself some p, i = 1..3 decimal digits
func c19ParseInter(s string, blocks [][]int) ([]c19Inter, bool) {
	n := 0
	single := map[int]bool{}
	for _, b := range blocks {
		n += len(b)
		if len(b) == 1 {
			single[b[0]] = true
		}
	}
	var out []c19Inter
	isP := map[int]bool{}
	for _, it := range strings.Split(s, ",") {
		f := strings.Split(it, ".")
		if len(f) != 3 || len(f[0]) != 1 || len(f[1]) != 1 || len(f[2]) < 1 || len(f[2]) > 3 {
			return nil, false
		}
		hex := func(c byte) int {
			switch {
			case c >= '0' && c <= '9':
				return int(c - '0')
			case c >= 'a' && c <= 'f':
				return int(c-'a') + 10
			}
			return 99
		}
		p, q := hex(f[0][0]), hex(f[1][0])
		idx := 0
		for _, ch := range f[2] {
			if ch < '0' || ch > '9' {
				return nil, false
			}
			idx = idx*10 + int(ch-'0')
		}
		if p >= n || q >= n || p == q || !single[p] || isP[p] {
			return nil, false
		}
		isP[p] = true
		out = append(out, c19Inter{p, q, idx})
	}
	for _, x := range out {
		if isP[x.q] {
			return nil, false
		}
	}
	return out, true
}

// type-level validity of an interior item for a method
func c19InterOK(me *c19Meth, in []c19Inter) bool {
	for _, x := range in {
		if x.p == 0 || x.p >= len(me.pos) || x.q >= len(me.pos) || me.pos[x.p].slice || me.pos[x.q].slice {
			return false
		}
		if x.idx >= len(c19Subs(me.pos[x.q].key, me.pos[x.p].key)) {
			return false
		}
	}
	return true
}

// ---------------------------------------------------------------- one experiment

type c19Result struct {
	same, ops  bool
	onePanic   bool // exactly one of the two calls panicked
	bothPanic  bool
	reprOnly   bool // some compared value differs in representation but is Equal()
	detail     []string
	refPanicAt string
	outParams  []int // positions ≥ 1 written by the non-aliased call
	dstdst     bool  // some block holds two destinations (not compared)
}

var c19Lens = []int{0, 1, 2, 3, 4, 5, 8, 15, 16, 17, 33, 64, 129}

// destinations of a method: the receiver and every operand position that the NON-aliased call writes on some probe input
func (me *c19Meth) dests(ty *c19Type) []bool {
	me.once.Do(func() {
		me.dest = make([]bool, len(me.pos))
		me.dest[0] = true
		blocks := make([][]int, len(me.pos))
		for i := range blocks {
			blocks[i] = []int{i}
		}
		for s := uint64(1); s <= 6; s++ {
			k := strings.Repeat(string("336"[s%3]), len(blocks))
			for _, p := range c19Run0(ty, me, blocks, k, s*0x9e3779b9, true, nil).outParams {
				me.dest[p] = true
			}
		}
	})
	return me.dest
}

func c19Run(ty *c19Type, me *c19Meth, blocks [][]int, kinds string, seed uint64, inter ...c19Inter) c19Result {
	return c19Run0(ty, me, blocks, kinds, seed, false, inter)
}

func c19Run0(ty *c19Type, me *c19Meth, blocks [][]int, kinds string, seed uint64, probe bool, inter []c19Inter) (res c19Result) {
	f := &c19Filler{r: newRng(seed)}
	ft := me.m.Type
	npos := len(me.pos)
	blockOf := make([]int, npos)
	for b, bl := range blocks {
		for _, p := range bl {
			blockOf[p] = b
		}
	}
	// slice lengths: usually one common length, sometimes independent; MultiLin.Eq wants 2^len(q)
	common := c19Lens[f.r.intn(len(c19Lens))]
	indep := f.r.intn(4) == 0
	pow2 := me.name == "Eq" && ty.t.Name() == "MultiLin"
	// block values
	vals := make([]reflect.Value, len(blocks))
	for b, bl := range blocks {
		p := me.pos[bl[0]]
		prev := reflect.Value{}
		for j := b - 1; j >= 0; j-- {
			if me.pos[blocks[j][0]].key == p.key {
				prev = vals[j]
				break
			}
		}
		kind := int(kinds[b] - '0')
		if p.slice {
			n := common
			if indep {
				n = c19Lens[f.r.intn(len(c19Lens))]
			}
			if pow2 {
				k := common % 5
				if bl[0] == 0 {
					n = 1 << k
				} else {
					n = k
				}
			}
			vals[b] = f.fillSlice(p.key, n, kind, prev)
		} else {
			v := reflect.New(p.key).Elem()
			f.fill(v, kind, prev)
			vals[b] = v
		}
	}
	// interior operands: the value of p is the value of the sub-object it will point at
	interOf := map[int]*c19Inter{}
	for i := range inter {
		x := &inter[i]
		interOf[x.p] = x
		path := c19Subs(me.pos[x.q].key, me.pos[x.p].key)[x.idx]
		vals[blockOf[x.p]] = c19Copy(c19Sub(vals[blockOf[x.q]], path))
	}
	// by-value parameters
	byVal := map[int]reflect.Value{}
	isPos := map[int]bool{}
	for _, p := range me.pos {
		isPos[p.arg] = true
	}
	for a := 1; a < ft.NumIn(); a++ {
		if !isPos[a] {
			v := reflect.New(ft.In(a)).Elem()
			f.fill(v, []int{3, 3, 0, 1, 2, 6}[f.r.intn(6)], reflect.Value{})
			byVal[a] = v
		}
	}

	type outcome struct {
		recv     reflect.Value
		outs     []reflect.Value
		cells    []reflect.Value // per position: the cell (addressable value of type key)
		panicked bool
		msg      string
	}
	run := func(alias bool) (o outcome) {
		o.cells = make([]reflect.Value, npos)
		if alias {
			bc := make([]reflect.Value, len(blocks))
			for b := range blocks {
				bc[b] = c19Copy(vals[b])
			}
			for p := range me.pos {
				o.cells[p] = bc[blockOf[p]]
			}
			for _, x := range inter { // the operand IS the sub-object
				o.cells[x.p] = c19Sub(o.cells[x.q], c19Subs(me.pos[x.q].key, me.pos[x.p].key)[x.idx])
			}
		} else {
			for p := range me.pos {
				o.cells[p] = c19Copy(vals[blockOf[p]])
			}
		}
		args := make([]reflect.Value, ft.NumIn())
		for i, p := range me.pos {
			c := o.cells[i]
			switch {
			case p.slice && p.arg == 0:
				hdr := reflect.New(p.recvS) // the receiver's own slice header, sharing the backing array of its cell
				hdr.Elem().Set(c.Convert(p.recvS))
				args[0] = hdr
			case p.slice:
				args[p.arg] = c.Convert(ft.In(p.arg))
			default:
				args[p.arg] = c.Addr()
			}
		}
		for a, v := range byVal {
			args[a] = c19Copy(v)
		}
		func() {
			defer func() {
				if r := recover(); r != nil {
					o.panicked = true
					o.msg = fmt.Sprint(r)
				}
			}()
			o.outs = me.m.Func.Call(args)
		}()
		o.recv = args[0].Elem()
		return
	}
	ref := run(false)
	ali := run(true)
	res.same, res.ops = true, true
	if ref.panicked {
		res.refPanicAt = ref.msg
	}
	if ref.panicked != ali.panicked {
		res.onePanic = true
		res.same = false
		res.detail = append(res.detail, fmt.Sprintf("panic(ref=%v,alias=%v):%s%s", ref.panicked, ali.panicked, ref.msg, ali.msg))
		return
	}
	if ref.panicked {
		res.bothPanic = true
		return
	}
	cmp := func(a, b reflect.Value, what string) {
		eq, repr := c19SemEq(a, b)
		if !eq {
			res.same = false
			res.detail = append(res.detail, what)
		} else if repr {
			res.reprOnly = true
			res.detail = append(res.detail, "repr:"+what)
		}
	}
	// out-parameters: operand cells the method writes even when nothing is aliased (e.g. the remainder r of QuoRem). They are
	// destinations like the receiver: their final value is compared, not their preservation. Two destinations sharing one cell
	// have no by-value meaning; such a block is left out of the comparison (the other blocks are still checked).
	dest := make([]bool, npos)
	dest[0] = true
	if !probe {
		copy(dest, me.dests(ty))
	}
	for p := 1; p < npos; p++ {
		if dest[p] || !c19RawEq(ref.cells[p], vals[blockOf[p]]) {
			dest[p] = true
			res.outParams = append(res.outParams, p)
		}
	}
	ndest := make([]int, len(blocks))
	for p := range me.pos {
		if dest[p] {
			ndest[blockOf[p]]++
			if x := interOf[p]; x != nil { // a written cell inside q's object: one more destination in q's block
				ndest[blockOf[x.q]]++
			}
		}
	}
	if ndest[0] <= 1 {
		cmp(ref.recv, ali.recv, "recv")
	} else {
		res.dstdst = true
	}
	for i := range ref.outs {
		a, b := ref.outs[i], ali.outs[i]
		if a.Kind() == reflect.Ptr {
			if a.IsNil() || b.IsNil() {
				if a.IsNil() != b.IsNil() {
					res.same = false
					res.detail = append(res.detail, fmt.Sprintf("out%d(nil)", i))
				}
				continue
			}
			skip := false // a returned pointer to a cell shared by two destinations
			for p := range me.pos {
				if ndest[blockOf[p]] > 1 && !me.pos[p].slice && b.Pointer() == ali.cells[p].Addr().Pointer() {
					skip = true
				}
			}
			if skip {
				continue
			}
			a, b = a.Elem(), b.Elem()
		}
		if a.Kind() == reflect.Interface || a.Kind() == reflect.Chan || a.Kind() == reflect.Func {
			if a.Kind() == reflect.Interface && !c19RawEq(a, b) {
				res.same = false
				res.detail = append(res.detail, fmt.Sprintf("out%d", i))
			}
			continue
		}
		cmp(a, b, fmt.Sprintf("out%d", i))
	}
	for b, bl := range blocks {
		if x := interOf[bl[0]]; x != nil {
			// p lives inside q's block: preserved iff q's block is (checked there); an out-parameter is compared when it is the
			// only destination of q's block
			switch {
			case dest[x.p] && ndest[blockOf[x.q]] == 1:
				cmp(ref.cells[x.p], ali.cells[x.p], fmt.Sprintf("outparam%x", x.p))
			case dest[x.p]:
				res.dstdst = true
			}
			continue
		}
		switch {
		case ndest[b] > 1:
			res.dstdst = true
		case ndest[b] == 1 && bl[0] != 0:
			for _, p := range bl {
				if dest[p] {
					cmp(ref.cells[p], ali.cells[p], fmt.Sprintf("outparam%x", p))
				}
			}
		case ndest[b] == 0:
			if !c19RawEq(ali.cells[bl[0]], vals[b]) {
				res.ops = false
				res.detail = append(res.detail, fmt.Sprintf("op%x", bl[0]))
			}
		}
	}
	return
}

func execC19(a []string) string {
	if len(a) != 4 && len(a) != 5 {
		return "bad-op"
	}
	blocks, ok := c19ParsePart(a[2])
	if !ok {
		return "bad-op"
	}
	kinds, seed, ok := c19ParseSeed(a[3], len(blocks))
	if !ok {
		return "bad-op"
	}
	var inter []c19Inter
	if len(a) == 5 {
		if inter, ok = c19ParseInter(a[4], blocks); !ok {
			return "bad-op"
		}
	}
	reg, _ := c19Registry()
	ty, ok := reg[a[0]]
	if !ok {
		return "bad-op"
	}
	var me *c19Meth
	for _, m := range ty.ms {
		if m.name == a[1] && m.skip == "" {
			me = m
		}
	}
	if me == nil {
		return "bad-op"
	}
	n := 0
	for _, bl := range blocks {
		n += len(bl)
		for _, p := range bl {
			if p >= len(me.pos) || me.pos[p].key != me.pos[bl[0]].key {
				return "bad-op"
			}
		}
	}
	if n != len(me.pos) || !c19InterOK(me, inter) {
		return "bad-op"
	}
	r := c19Run(ty, me, blocks, kinds, seed, inter...)
	s := fmt.Sprintf("same=%s ops=%s", boolStr(r.same), boolStr(r.ops))
	if r.onePanic {
		s = "panic"
	}
	if os.Getenv("GV_C19_DETAIL") != "" {
		if r.bothPanic {
			s += " bothpanic:" + strings.ReplaceAll(r.refPanicAt, " ", "_")
		}
		if len(r.detail) > 0 {
			s += " " + strings.ReplaceAll(strings.Join(r.detail, ","), " ", "_")
		}
	}
	return s
}

// ---------------------------------------------------------------- generator

func genC19(g *gen) {
	reg, names := c19Registry()
	errw := os.Stderr
	quiet := os.Getenv("GV_C19_QUIET") != ""
	var exl []string
	for k, v := range c19Excluded {
		exl = append(exl, k+" ("+v+")")
	}
	sort.Strings(exl)
	fmt.Fprintf(errw, "C19 exclusion list (by method name): %s\n", strings.Join(exl, "; "))

	nseeds := g.budget(5, 40)
	var nTypes, nMeth, nPart, nLines, nBothPanic, nRepr int
	skipped := map[string][]string{}
	var bad, deadMeth []string
	otherPtr := map[string]bool{}
	outPar := map[string]bool{}
	bothP := map[string]int{}
	nDstDst := 0
	kindPool := "0123334566"
	nInterSeeds := g.budget(2, 8)
	nInter := 0
	nIntMeth := map[string]bool{}
	for _, tn := range names {
		ty := reg[tn]
		used := false
		for _, me := range ty.ms {
			if me.skip != "" {
				if !strings.HasPrefix(me.skip, "n/a") {
					skipped[me.skip] = append(skipped[me.skip], tn+"."+me.name)
				}
				continue
			}
			used = true
			nMeth++
			for _, p := range me.pos[1:] {
				if p.key != me.pos[0].key {
					otherPtr[fmt.Sprintf("%s.%s(%s)", tn, me.name, p.key.String())] = true
				}
			}
			okCalls := 0
			for _, blocks := range c19Partitions(me.pos) {
				nPart++
				ps := c19PartString(blocks)
				for s := 0; s < nseeds; s++ {
					var kinds string
					var seed uint64
					var r c19Result
					for try := 0; try < 6; try++ { // prefer seeds on which the reference call does not panic
						kb := make([]byte, len(blocks))
						for i := range kb {
							switch {
							case s == 0:
								kb[i] = '3'
							case s == 1:
								kb[i] = "012"[(nPart+try)%3]
							case s == 2 && i == len(kb)-1 && len(kb) > 1:
								kb[i] = "45"[(nPart+try)%2]
							case s == 2:
								kb[i] = '3'
							default:
								kb[i] = kindPool[g.rng.intn(len(kindPool))]
							}
						}
						kinds = string(kb)
						seed = g.rng.u64() >> uint(4*g.rng.intn(14))
						r = c19Run(ty, me, blocks, kinds, seed)
						if !r.bothPanic {
							break
						}
					}
					line := fmt.Sprintf("C19 %s %s %s %s:%x", tn, me.name, ps, kinds, seed)
					g.emit("%s", line)
					nLines++
					if r.bothPanic {
						nBothPanic++
						bothP[tn+"."+me.name+": "+r.refPanicAt]++
					} else {
						okCalls++
					}
					if r.reprOnly {
						nRepr++
					}
					for _, p := range r.outParams {
						outPar[fmt.Sprintf("%s.%s#%d", tn, me.name, p)] = true
					}
					if r.dstdst {
						nDstDst++
					}
					if !r.same || !r.ops {
						bad = append(bad, fmt.Sprintf("%s -> same=%v ops=%v %s", line, r.same, r.ops, strings.Join(r.detail, ",")))
					}
				}
			}
			// interior aliasing: every pointer operand p of a lower-level type x every other non-slice position q whose type
			// contains sub-objects of p's type x EVERY such sub-object x partitions of the remaining positions (all when few,
			// else all-distinct, coarsest and two random ones) x seeds; plus one line per q with ALL lower-level operands inside q
			parts := c19Partitions(me.pos)
			for q := 0; q < len(me.pos); q++ {
				if me.pos[q].slice {
					continue
				}
				var cand []int
				for p := 1; p < len(me.pos); p++ {
					if p == q || me.pos[p].slice || len(c19Subs(me.pos[q].key, me.pos[p].key)) == 0 {
						continue
					}
					cand = append(cand, p)
				}
				if len(cand) > 0 {
					nIntMeth[tn+"."+me.name] = true
				}
				run := func(blocks [][]int, s int, inter []c19Inter) {
					kb := make([]byte, len(blocks))
					for i := range kb {
						if s == 0 {
							kb[i] = '3'
						} else {
							kb[i] = kindPool[g.rng.intn(len(kindPool))]
						}
					}
					seed := g.rng.u64() >> uint(4*g.rng.intn(14))
					r := c19Run(ty, me, blocks, string(kb), seed, inter...)
					line := fmt.Sprintf("C19 %s %s %s %s:%x %s", tn, me.name, c19PartString(blocks), kb, seed, c19InterString(inter))
					g.emit("%s", line)
					nLines++
					nInter++
					if r.bothPanic {
						nBothPanic++
						bothP[tn+"."+me.name+": "+r.refPanicAt]++
					}
					if r.dstdst {
						nDstDst++
					}
					if !r.same || !r.ops {
						bad = append(bad, fmt.Sprintf("%s -> same=%v ops=%v %s", line, r.same, r.ops, strings.Join(r.detail, ",")))
					}
				}
				singleton := func(blocks [][]int, ps ...int) bool {
					for _, p := range ps {
						for _, b := range blocks {
							if len(b) > 1 {
								for _, x := range b {
									if x == p {
										return false
									}
								}
							}
						}
					}
					return true
				}
				for _, p := range cand {
					var ok [][][]int
					for _, blocks := range parts {
						if singleton(blocks, p) {
							ok = append(ok, blocks)
						}
					}
					if len(ok) > 5 { // all-distinct is last, the coarsest first in c19Partitions' order
						pick := [][][]int{ok[0], ok[len(ok)-1], ok[1+g.rng.intn(len(ok)-2)], ok[1+g.rng.intn(len(ok)-2)]}
						ok = pick
					}
					nsub := len(c19Subs(me.pos[q].key, me.pos[p].key))
					for _, blocks := range ok {
						for idx := 0; idx < nsub; idx++ {
							for s := 0; s < nInterSeeds; s++ {
								run(blocks, s, []c19Inter{{p, q, idx}})
							}
						}
					}
				}
				if len(cand) > 1 {
					for _, blocks := range parts {
						if !singleton(blocks, cand...) {
							continue
						}
						for s := 0; s < 2*nInterSeeds; s++ {
							var in []c19Inter
							for _, p := range cand {
								in = append(in, c19Inter{p, q, g.rng.intn(len(c19Subs(me.pos[q].key, me.pos[p].key)))})
							}
							run(blocks, s, in)
						}
					}
				}
			}
			if okCalls == 0 {
				deadMeth = append(deadMeth, tn+"."+me.name)
			}
		}
		if used {
			nTypes++
		}
	}
	// malformed stream (both sides: bad-op)
	for _, l := range []string{"C19", "C19 a b 0|1", "C19 a b 0|0 33:1", "C19 a b 1|0 33:1", "C19 a b 0|2 33:1", "C19 a b 0||1 33:1", "C19 a b 10 3:1",
		"C19 a b 0|1 3:1", "C19 a b 0|1 37:1", "C19 a b 0|1 33:", "C19 a b 0|1 33:xyz", "C19 a b 0|1 33:11111111111111111", "C19 a b 0|1 33", "C19 a b 0|1 33:1 extra", "C19 a b 0A 3:1",
		"C19 a b 0|1 33:1 1.0", "C19 a b 0|1 33:1 1.1.0", "C19 a b 0|1 33:1 2.0.0", "C19 a b 01 3:1 1.0.0", "C19 a b 0|1|2 333:1 1.0.0,1.2.0", "C19 a b 0|1|2 333:1 1.2.0,2.0.0",
		"C19 a b 0|1 33:1 1.0.1234", "C19 a b 0|1 33:1 1.0.x", "C19 a b 0|1 33:1 1.0.0,", "C19 a b 0|1 33:1 1.0.0 extra", "C19 a b 0|1 33:1 A.0.0"} {
		g.emit("%s", l)
	}
	fmt.Fprintf(errw, "C19 coverage: %d registered types (%d with exercised methods), %d methods, %d (method, partition) pairs, %d op lines; %d lines where both calls panic (counted as agreement), %d lines with representation-only difference\n",
		len(names), nTypes, nMeth, nPart, nLines, nBothPanic, nRepr)
	{
		var im []string
		for k := range nIntMeth {
			im = append(im, k)
		}
		sort.Strings(im)
		fmt.Fprintf(errw, "C19 interior aliasing (lower-level pointer operand pointing INTO another parameter): %d methods, %d op lines, e.g. %s\n", len(im), nInter, strings.Join(c19Head(im, 8), " "))
	}
	if !quiet {
		var ks []string
		for k := range skipped {
			ks = append(ks, k)
		}
		sort.Strings(ks)
		for _, k := range ks {
			fmt.Fprintf(errw, "C19 skipped [%s]: %d methods, e.g. %s\n", k, len(skipped[k]), strings.Join(c19Head(skipped[k], 6), " "))
		}
		var op []string
		for k := range otherPtr {
			op = append(op, k)
		}
		sort.Strings(op)
		fmt.Fprintf(errw, "C19 methods with pointer/slice operands of another field-related type: %d, e.g. %s\n", len(op), strings.Join(c19Head(op, 8), " "))
		if len(deadMeth) > 0 {
			fmt.Fprintf(errw, "C19 methods whose reference call panicked on every seed (not really exercised): %s\n", strings.Join(deadMeth, " "))
		}
	}
	for k, n := range bothP {
		fmt.Fprintf(errw, "C19 both calls panic: %d x %s\n", n, k)
	}
	var opl []string
	for k := range outPar {
		opl = append(opl, k)
	}
	sort.Strings(opl)
	fmt.Fprintf(errw, "C19 out-parameters (operand position written by the non-aliased call, treated as destination; %d lines had two destinations in one block, that block not compared): %s\n", nDstDst, strings.Join(opl, " "))
	fmt.Fprintf(errw, "C19 generator-side disagreements: %d\n", len(bad))
	for _, b := range bad {
		fmt.Fprintln(errw, "C19 DISAGREE", b)
	}
}

func c19Head(s []string, n int) []string {
	if len(s) > n {
		return s[:n]
	}
	return s
}
