package main

// C07 adapter for the COMPOSITE objects of one curve (kzg SRS / ProvingKey / VerifyingKey, pedersen keys).
// c07k_bn254.go is the master copy; the six other c07k_<curve>.go files are produced from it by c07k_adapters.sh
// (sed on the import paths and the registry key only).

import (
	"bytes"
	"io"
	"math/big"

	"github.com/consensys/gnark-crypto/ecc/bn254/fr/pedersen"
	"github.com/consensys/gnark-crypto/ecc/bn254/kzg"
)

func init() {
	pick := func(raw bool, c, r func(io.Writer) (int64, error)) func(io.Writer) (int64, error) {
		if raw {
			return r
		}
		return c
	}
	c07Composites["bn254"] = &c07Comp{
		newObj: func(kind string) *c07Obj {
			switch kind {
			case "srs", "srsu":
				o := new(kzg.SRS)
				rd := o.ReadFrom
				if kind == "srsu" {
					rd = o.UnsafeReadFrom
				}
				return &c07Obj{read: rd, write: func(w io.Writer, raw bool) (int64, error) { return pick(raw, o.WriteTo, o.WriteRawTo)(w) }}
			case "kpk", "kpku":
				o := new(kzg.ProvingKey)
				rd := o.ReadFrom
				if kind == "kpku" {
					rd = o.UnsafeReadFrom
				}
				return &c07Obj{read: rd, write: func(w io.Writer, raw bool) (int64, error) { return pick(raw, o.WriteTo, o.WriteRawTo)(w) }}
			case "kvk":
				o := new(kzg.VerifyingKey)
				return &c07Obj{read: o.ReadFrom, write: func(w io.Writer, raw bool) (int64, error) { return pick(raw, o.WriteTo, o.WriteRawTo)(w) }}
			case "ppk":
				o := new(pedersen.ProvingKey)
				return &c07Obj{read: o.ReadFrom, write: func(w io.Writer, raw bool) (int64, error) { return pick(raw, o.WriteTo, o.WriteRawTo)(w) }}
			case "pvk", "pvku":
				o := new(pedersen.VerifyingKey)
				rd := o.ReadFrom
				if kind == "pvku" {
					rd = o.UnsafeReadFrom
				}
				return &c07Obj{read: rd, write: func(w io.Writer, raw bool) (int64, error) { return pick(raw, o.WriteTo, o.WriteRawTo)(w) }}
			}
			return nil
		},
		srsStream: func(size uint64, tau *big.Int, raw bool) []byte {
			s, err := kzg.NewSRS(size, tau)
			if err != nil {
				panic(err)
			}
			var b bytes.Buffer
			if raw {
				_, err = s.WriteRawTo(&b)
			} else {
				_, err = s.WriteTo(&b)
			}
			if err != nil {
				panic(err)
			}
			return b.Bytes()
		},
	}
}
