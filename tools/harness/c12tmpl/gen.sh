#!/bin/sh
# regenerates the per-instance adapters c12_ed_*.go / c12_ec_*.go of the C12 harness from the two templates
set -e
cd "$(dirname "$0")/.."
ed() { # ident outer twpath [eddsa path]
  sed -e "s#IDENT#$1#g" -e "s#OUTER#$2#g" -e "s#TWPATH#$3#g" -e "s#EDPATH#${4:-$3/eddsa}#g" c12tmpl/ed.go.tmpl > c12_ed_$1.go
}
ed bn254 bn254 bn254/twistededwards
ed bls12_377 bls12-377 bls12-377/twistededwards
ed bls12_381 bls12-381 bls12-381/twistededwards
# NB: ecc/bls12-381/bandersnatch/eddsa is generated over ecc/bls12-381/twistededwards (not over the bandersnatch curve)
ed bandersnatch bls12-381 bls12-381/twistededwards bls12-381/bandersnatch/eddsa
ed bls24_315 bls24-315 bls24-315/twistededwards
ed bls24_317 bls24-317 bls24-317/twistededwards
ed bw6_633 bw6-633 bw6-633/twistededwards
ed bw6_761 bw6-761 bw6-761/twistededwards
ec() { # ident curve mimccurve maskKind infZero recover(0/1)
  sed -e "s#IDENT#$1#g" -e "s#MIMCCURVE#$3#g" -e "s#CURVE#$2#g" -e "s#MASKKIND#$4#g" -e "s#INFZERO#$5#g" c12tmpl/ec.go.tmpl > c12_ec_$1.go
  if [ "$6" = 1 ]; then sed -i -e "s#^\t//RECOVER ##" c12_ec_$1.go; fi
}
ec bn254 bn254 bn254 2 true 1
ec bls12_377 bls12-377 bls12-377 3 true 0
ec bls12_381 bls12-381 bls12-381 3 true 0
ec bls24_315 bls24-315 bls24-315 3 true 0
ec bls24_317 bls24-317 bls24-317 3 true 0
ec bw6_633 bw6-633 bw6-633 3 true 0
ec bw6_761 bw6-761 bw6-761 3 true 0
ec grumpkin grumpkin grumpkin 2 true 0
ec secp256k1 secp256k1 bn254 0 true 1
ec stark_curve stark-curve bn254 2 true 1
gofmt -l . || true
