package main

// C17 (hash-based half) – Vortex polynomial commitment over koalabear.
//
// op line (all verdicts of this op are COMPUTED by the Lean model from the data in the line):
//
//	C17 vortex <kind> <nbCols> <rate> <maxRows> <x> <alpha> <ys> <ualpha> <sel> <cols> <paths> <root> <oracle>
//
//	e4      = a,b,c,d            (B0.A0,B0.A1,B1.A0,B1.A1 hex)
//	ys      = e4;e4;… | -        ualpha = e4;… | -
//	sel     = hex,hex,… | -      cols = col;col;… | -   col = e,e,… | _
//	paths   = path;path;… | -    path = digest,digest,… | _     digest = 8 x %08x
//	oracle  = entry;entry;… | -  entry = L<col>=<digest>  (leaf hash = Poseidon2(SIS(col)))  |  N<a>:<b>=<c> (compress)
//
// The oracle table is the symbolic-hash view of the real hash for the model; the Go executor re-computes every
// entry with the real SIS/Poseidon2 code and answers bad-oracle if one entry lies. Result: accept | reject | panic.
// <kind> only labels the mutation (ignored by both sides).

import (
	"fmt"
	"math/big"
	"strconv"
	"strings"

	"github.com/consensys/gnark-crypto/field/koalabear"
	fext "github.com/consensys/gnark-crypto/field/koalabear/extensions"
	"github.com/consensys/gnark-crypto/field/koalabear/sis"
	"github.com/consensys/gnark-crypto/field/koalabear/vortex"
)

const kbQ = 2130706433

func init() {
	// C17 is shared with the pairing-based half: chain to whatever was registered before (file order c17a < c17b)
	prevExec, prevGen := executors["C17"], generators["C17"]
	executors["C17"] = func(a []string) string {
		if len(a) > 0 {
			switch a[0] {
			case "vortex", "fri", "friopen", "friprove":
				return execC17b(a)
			}
		}
		if prevExec != nil {
			return prevExec(a)
		}
		return "bad-op"
	}
	generators["C17"] = func(g *gen) {
		if prevGen != nil {
			prevGen(g)
		}
		genC17b(g)
	}
	generators["C17b"] = genC17b
}

func execC17b(a []string) string {
	if len(a) < 1 {
		return "bad-op"
	}
	switch a[0] {
	case "vortex":
		return execVortex(a[1:])
	case "fri":
		return execFri(a[1:])
	case "friopen":
		return execFriOpen(a[1:])
	case "friprove":
		return execFriProve(a[1:])
	}
	return "bad-op"
}

func genC17b(g *gen) {
	genVortex(g)
	genFri(g)
	genC17bMalformed(g)
}

// malformed stream: both sides must answer bad-op
func genC17bMalformed(g *gen) {
	m := g.vxMatrix(2, 2, 0)
	h := g.vxHonest(2, 2, 2, []int{1}, m, g.e4(), g.e4())
	w := strings.Fields(h.line("malformed"))
	mut := func(i int, v string) string {
		c := append([]string{}, w...)
		c[i] = v
		return strings.Join(c, " ")
	}
	g.emit("C17 vortex malformed")
	g.emit("C17 nosuchscheme 1 2 3")
	g.emit("%s", strings.Join(w[:len(w)-1], " "))
	g.emit("%s extra", strings.Join(w, " "))
	g.emit("%s", mut(3, "3"))   // nbCols not a power of two
	g.emit("%s", mut(4, "10"))  // rate 16
	g.emit("%s", mut(4, "1"))   // rate 1
	g.emit("%s", mut(6, "7f000001,0,0,0")) // coordinate = q
	g.emit("%s", mut(6, "1,2,3"))          // E4 with 3 coordinates
	g.emit("%s", mut(7, "zz,0,0,0"))
	g.emit("%s", mut(13, "abcd"))          // root of wrong length
	g.emit("%s", mut(14, "Lxyz="+digHex(h.root)))
	g.emit("C17 fri malformed nocurve 2 1 0")
	g.emit("C17 fri malformed bn254 1 1 0")
	g.emit("C17 fri malformed bn254 2 1 0 aa:1:bb/aa:1:bb")
	g.emit("C17 fri malformed bn254 2")
	g.emit("C17 friopen malformed bn254 2 0 0")
	g.emit("C17 friopen malformed nocurve 2 0 0 aa:1:bb 1:aa/1:aa")
	g.emit("C17 friprove nocurve 2 1")
	g.emit("C17 friprove bn254 0 1")
}

// ---------------------------------------------------------------- encoding

func kbHex(e koalabear.Element) string { return strconv.FormatUint(e.Uint64(), 16) }
func kbParse(s string) (koalabear.Element, bool) {
	var e koalabear.Element
	v, err := strconv.ParseUint(s, 16, 64)
	if err != nil || v >= kbQ {
		return e, false
	}
	e.SetUint64(v)
	return e, true
}
func e4Hex(e fext.E4) string {
	return kbHex(e.B0.A0) + "," + kbHex(e.B0.A1) + "," + kbHex(e.B1.A0) + "," + kbHex(e.B1.A1)
}
func e4Parse(s string) (fext.E4, bool) {
	var e fext.E4
	f := strings.Split(s, ",")
	if len(f) != 4 {
		return e, false
	}
	var ok [4]bool
	e.B0.A0, ok[0] = kbParse(f[0])
	e.B0.A1, ok[1] = kbParse(f[1])
	e.B1.A0, ok[2] = kbParse(f[2])
	e.B1.A1, ok[3] = kbParse(f[3])
	return e, ok[0] && ok[1] && ok[2] && ok[3]
}
func e4ListHex(l []fext.E4) string {
	if len(l) == 0 {
		return "-"
	}
	s := make([]string, len(l))
	for i := range l {
		s[i] = e4Hex(l[i])
	}
	return strings.Join(s, ";")
}
func e4ListParse(s string) ([]fext.E4, bool) {
	if s == "-" {
		return []fext.E4{}, true
	}
	f := strings.Split(s, ";")
	r := make([]fext.E4, len(f))
	for i := range f {
		var ok bool
		if r[i], ok = e4Parse(f[i]); !ok {
			return nil, false
		}
	}
	return r, true
}
func colHex(c []koalabear.Element) string {
	if len(c) == 0 {
		return "_"
	}
	s := make([]string, len(c))
	for i := range c {
		s[i] = kbHex(c[i])
	}
	return strings.Join(s, ",")
}
func colParse(s string) ([]koalabear.Element, bool) {
	if s == "_" {
		return []koalabear.Element{}, true
	}
	f := strings.Split(s, ",")
	r := make([]koalabear.Element, len(f))
	for i := range f {
		var ok bool
		if r[i], ok = kbParse(f[i]); !ok {
			return nil, false
		}
	}
	return r, true
}
func digHex(h vortex.Hash) string {
	var sb strings.Builder
	for i := range h {
		fmt.Fprintf(&sb, "%08x", h[i].Uint64())
	}
	return sb.String()
}
func digParse(s string) (vortex.Hash, bool) {
	var h vortex.Hash
	if len(s) != 64 {
		return h, false
	}
	for i := 0; i < 8; i++ {
		var ok bool
		if h[i], ok = kbParse(s[8*i : 8*i+8]); !ok {
			return h, false
		}
	}
	return h, true
}
func pathHex(p vortex.MerkleProof) string {
	if len(p) == 0 {
		return "_"
	}
	s := make([]string, len(p))
	for i := range p {
		s[i] = digHex(p[i])
	}
	return strings.Join(s, ",")
}
func pathParse(s string) (vortex.MerkleProof, bool) {
	if s == "_" {
		return vortex.MerkleProof{}, true
	}
	f := strings.Split(s, ",")
	r := make(vortex.MerkleProof, len(f))
	for i := range f {
		var ok bool
		if r[i], ok = digParse(f[i]); !ok {
			return nil, false
		}
	}
	return r, true
}

// ---------------------------------------------------------------- parameters

var vxParamsCache = map[string]*vortex.Params{}

func vxParams(nbCols, rate, maxRows int) (*vortex.Params, error) {
	key := fmt.Sprintf("%d/%d/%d", nbCols, rate, maxRows)
	if p, ok := vxParamsCache[key]; ok {
		return p, nil
	}
	sp, err := sis.NewRSis(0, 9, 16, maxRows)
	if err != nil {
		return nil, err
	}
	p, err := vortex.NewParams(nbCols, maxRows, sp, rate, 0)
	if err != nil {
		return nil, err
	}
	vxParamsCache[key] = p
	return p, nil
}

func vxLeaf(p *vortex.Params, col []koalabear.Element) (vortex.Hash, error) {
	sisHash := make([]koalabear.Element, p.Key.Degree)
	if err := p.Key.Hash(col, sisHash); err != nil {
		return vortex.Hash{}, err
	}
	return vortex.HashPoseidon2(sisHash), nil
}

// ---------------------------------------------------------------- case

type vxCase struct {
	nbCols, rate, maxRows int
	x, alpha              fext.E4
	ys, ualpha            []fext.E4
	sel                   []int
	cols                  [][]koalabear.Element
	paths                 []vortex.MerkleProof
	root                  vortex.Hash
	oracle                []string
}

func (c *vxCase) clone() *vxCase {
	d := *c
	d.ys = append([]fext.E4{}, c.ys...)
	d.ualpha = append([]fext.E4{}, c.ualpha...)
	d.sel = append([]int{}, c.sel...)
	d.cols = make([][]koalabear.Element, len(c.cols))
	for i := range c.cols {
		d.cols[i] = append([]koalabear.Element{}, c.cols[i]...)
	}
	d.paths = make([]vortex.MerkleProof, len(c.paths))
	for i := range c.paths {
		d.paths[i] = append(vortex.MerkleProof{}, c.paths[i]...)
	}
	d.oracle = append([]string{}, c.oracle...)
	return &d
}

func (c *vxCase) line(kind string) string {
	sel := "-"
	if len(c.sel) > 0 {
		s := make([]string, len(c.sel))
		for i, v := range c.sel {
			s[i] = strconv.FormatInt(int64(v), 16)
		}
		sel = strings.Join(s, ",")
	}
	cols := "-"
	if len(c.cols) > 0 {
		s := make([]string, len(c.cols))
		for i := range c.cols {
			s[i] = colHex(c.cols[i])
		}
		cols = strings.Join(s, ";")
	}
	paths := "-"
	if len(c.paths) > 0 {
		s := make([]string, len(c.paths))
		for i := range c.paths {
			s[i] = pathHex(c.paths[i])
		}
		paths = strings.Join(s, ";")
	}
	or := "-"
	if len(c.oracle) > 0 {
		or = strings.Join(c.oracle, ";")
	}
	return fmt.Sprintf("C17 vortex %s %x %x %x %s %s %s %s %s %s %s %s %s", kind, c.nbCols, c.rate, c.maxRows,
		e4Hex(c.x), e4Hex(c.alpha), e4ListHex(c.ys), e4ListHex(c.ualpha), sel, cols, paths, digHex(c.root), or)
}

func execVortex(a []string) string {
	if len(a) != 13 {
		return "bad-op"
	}
	pi := func(s string) (int, bool) {
		v, err := strconv.ParseInt(s, 16, 32)
		return int(v), err == nil
	}
	nbCols, ok1 := pi(a[1])
	rate, ok2 := pi(a[2])
	maxRows, ok3 := pi(a[3])
	if !ok1 || !ok2 || !ok3 {
		return "bad-op"
	}
	p, err := vxParams(nbCols, rate, maxRows)
	if err != nil {
		return "bad-op"
	}
	x, ok1 := e4Parse(a[4])
	alpha, ok2 := e4Parse(a[5])
	ys, ok3 := e4ListParse(a[6])
	ua, ok4 := e4ListParse(a[7])
	if !ok1 || !ok2 || !ok3 || !ok4 {
		return "bad-op"
	}
	var sel []int
	if a[8] != "-" {
		for _, s := range strings.Split(a[8], ",") {
			v, ok := pi(s)
			if !ok {
				return "bad-op"
			}
			sel = append(sel, v)
		}
	}
	var cols [][]koalabear.Element
	if a[9] != "-" {
		for _, s := range strings.Split(a[9], ";") {
			c, ok := colParse(s)
			if !ok {
				return "bad-op"
			}
			cols = append(cols, c)
		}
	}
	var paths []vortex.MerkleProof
	if a[10] != "-" {
		for _, s := range strings.Split(a[10], ";") {
			c, ok := pathParse(s)
			if !ok {
				return "bad-op"
			}
			paths = append(paths, c)
		}
	}
	root, ok := digParse(a[11])
	if !ok {
		return "bad-op"
	}
	// the oracle table must be truthful
	if a[12] != "-" {
		for _, e := range strings.Split(a[12], ";") {
			eq := strings.Split(e, "=")
			if len(eq) != 2 || len(e) < 2 {
				return "bad-op"
			}
			out, ok := digParse(eq[1])
			if !ok {
				return "bad-op"
			}
			switch e[0] {
			case 'L':
				col, ok := colParse(eq[0][1:])
				if !ok {
					return "bad-op"
				}
				h, err := vxLeaf(p, col)
				if err != nil || h != out {
					return "bad-oracle"
				}
			case 'N':
				ab := strings.Split(eq[0][1:], ":")
				if len(ab) != 2 {
					return "bad-op"
				}
				l, ok1 := digParse(ab[0])
				r, ok2 := digParse(ab[1])
				if !ok1 || !ok2 {
					return "bad-op"
				}
				if vortex.CompressPoseidon2(l, r) != out {
					return "bad-oracle"
				}
			default:
				return "bad-op"
			}
		}
	}
	err = p.Verify(vortex.VerifierInput{
		MerkleRoot: root, ClaimedValues: ys, EvaluationPoint: x, SelectedColumns: sel, Alpha: alpha,
		Proof: &vortex.Proof{UAlpha: ua, OpenedColumns: cols, MerkleProofOpenedColumns: paths},
	})
	if err != nil {
		return "reject"
	}
	return "accept"
}

// ---------------------------------------------------------------- generation

func (g *gen) kb() koalabear.Element {
	var e koalabear.Element
	e.SetUint64(g.rng.u64() % kbQ)
	return e
}
func (g *gen) e4() fext.E4 {
	var e fext.E4
	e.B0.A0, e.B0.A1, e.B1.A0, e.B1.A1 = g.kb(), g.kb(), g.kb(), g.kb()
	return e
}
func e4Base(v koalabear.Element) fext.E4 { var e fext.E4; e.B0.A0 = v; return e }

// oracle entries for one opened column + path at index idx
func vxOracleEntries(p *vortex.Params, col []koalabear.Element, idx int, path vortex.MerkleProof) []string {
	leaf, err := vxLeaf(p, col)
	if err != nil {
		return nil
	}
	// the model strips trailing zeros of a column before the lookup (SIS pads with zeros)
	n := len(col)
	for n > 0 && col[n-1].IsZero() {
		n--
	}
	out := []string{"L" + colHex(col[:n]) + "=" + digHex(leaf)}
	cur := leaf
	pos := idx
	for _, h := range path {
		a, b := cur, h
		if pos&1 == 1 {
			a, b = b, a
		}
		c := vortex.CompressPoseidon2(a, b)
		out = append(out, "N"+digHex(a)+":"+digHex(b)+"="+digHex(c))
		cur = c
		pos >>= 1
	}
	return out
}

// honest proof with the real prover
func (g *gen) vxHonest(nbCols, rate, nbRows int, sel []int, m [][]koalabear.Element, x, alpha fext.E4) *vxCase {
	p, err := vxParams(nbCols, rate, nbRows)
	if err != nil {
		panic(err)
	}
	ps, err := vortex.Commit(p, m)
	if err != nil {
		panic(err)
	}
	ps.OpenLinComb(alpha)
	proof, err := ps.OpenColumns(sel)
	if err != nil {
		panic(err)
	}
	c := &vxCase{nbCols: nbCols, rate: rate, maxRows: nbRows, x: x, alpha: alpha, sel: append([]int{}, sel...), root: ps.GetCommitment()}
	c.ys = make([]fext.E4, nbRows)
	for i := range m {
		c.ys[i], err = vortex.EvalBasePolyLagrange(m[i], x)
		if err != nil {
			panic(err)
		}
	}
	c.ualpha = append([]fext.E4{}, proof.UAlpha...)
	c.cols = proof.OpenedColumns
	c.paths = proof.MerkleProofOpenedColumns
	for i := range sel {
		c.oracle = append(c.oracle, vxOracleEntries(p, c.cols[i], sel[i], c.paths[i])...)
	}
	return c.clone()
}

func (g *gen) vxMatrix(nbRows, nbCols, style int) [][]koalabear.Element {
	m := make([][]koalabear.Element, nbRows)
	for i := range m {
		m[i] = make([]koalabear.Element, nbCols)
		for j := range m[i] {
			switch style {
			case 1: // zero matrix
			case 2: // constant rows
				m[i][j].SetUint64(uint64(i + 1))
			default:
				m[i][j] = g.kb()
			}
		}
	}
	return m
}

func genVortex(g *gen) {
	type inst struct{ nbCols, rate, nbRows, nbSel int }
	insts := []inst{{1, 2, 1, 1}, {2, 2, 1, 1}, {2, 2, 3, 2}, {4, 2, 2, 2}, {4, 4, 5, 3}, {8, 2, 3, 3}, {2, 8, 4, 3}, {4, 2, 8, 2}, {16, 2, 7, 4}}
	if g.thorough() {
		insts = append(insts, inst{16, 4, 8, 5}, inst{8, 8, 6, 4}, inst{32, 2, 9, 6}, inst{1, 8, 2, 2}, inst{1, 4, 1, 3}, inst{64, 2, 3, 4})
	}
	reps := g.budget(2, 6)
	for _, in := range insts {
		N := in.nbCols * in.rate
		for rep := 0; rep < reps; rep++ {
			// selected columns: distinct when possible
			sel := make([]int, 0, in.nbSel)
			for len(sel) < in.nbSel {
				c := g.rng.intn(N)
				dup := false
				for _, s := range sel {
					dup = dup || s == c
				}
				if !dup || len(sel) >= N {
					sel = append(sel, c)
				}
			}
			style := 0
			if rep == 1 {
				style = 1 + g.rng.intn(2)
			}
			m := g.vxMatrix(in.nbRows, in.nbCols, style)
			m2 := g.vxMatrix(in.nbRows, in.nbCols, 0)
			// evaluation point / alpha variants
			x := g.e4()
			alpha := g.e4()
			switch rep % 6 {
			case 1: // x on the codeword domain (edge case of the Lagrange evaluation), alpha in the base field
				p, _ := vxParams(in.nbCols, in.rate, in.nbRows)
				var w koalabear.Element
				w.Exp(p.Domains[1].Generator, big.NewInt(int64(g.rng.intn(N))))
				x = e4Base(w)
				alpha = e4Base(g.kb())
			case 2:
				x = fext.E4{}
			case 3:
				alpha = fext.E4{}
			case 4:
				alpha.SetOne()
			}
			h := g.vxHonest(in.nbCols, in.rate, in.nbRows, sel, m, x, alpha)
			h2 := g.vxHonest(in.nbCols, in.rate, in.nbRows, sel, m2, x, alpha)
			g.vxMutations(h, h2, m)
			// alpha in the base field: kernel-shift of a column is expressible with base-field entries
			if in.nbRows >= 2 {
				ab := g.kb()
				hb := g.vxHonest(in.nbCols, in.rate, in.nbRows, sel, m, x, e4Base(ab))
				g.emit("%s", hb.line("honest_basealpha"))
				d := hb.clone()
				var t koalabear.Element
				t = g.kb()
				if t.IsZero() {
					t.SetOne()
				}
				// v = t·(−α, 1, 0, …):  Σ αⁱ vᵢ = 0
				var ta koalabear.Element
				ta.Mul(&t, &ab)
				d.cols[0][0].Sub(&d.cols[0][0], &ta)
				d.cols[0][1].Add(&d.cols[0][1], &t)
				g.emit("%s", d.line("forge_col_kernel"))
			}
		}
	}
}

func (g *gen) vxMutations(h, h2 *vxCase, m [][]koalabear.Element) {
	N := h.nbCols * h.rate
	p, _ := vxParams(h.nbCols, h.rate, h.maxRows)
	nz := func() fext.E4 {
		for {
			e := g.e4()
			if !e.IsZero() {
				return e
			}
		}
	}
	nzb := func() koalabear.Element {
		for {
			e := g.kb()
			if !e.IsZero() {
				return e
			}
		}
	}
	emit := func(kind string, c *vxCase) { g.emit("%s", c.line(kind)) }
	emit("honest", h)

	// ---- UAlpha
	d := h.clone()
	k := g.rng.intn(N)
	d.ualpha[k] = g.e4()
	emit("ualpha_entry_random", d)
	d = h.clone()
	d.ualpha[k] = fext.E4{}
	emit("ualpha_entry_zero", d)
	d = h.clone()
	switch g.rng.intn(4) {
	case 0:
		d.ualpha[k].B0.A0.Add(&d.ualpha[k].B0.A0, new(koalabear.Element).SetOne())
	case 1:
		d.ualpha[k].B0.A1.Add(&d.ualpha[k].B0.A1, new(koalabear.Element).SetOne())
	case 2:
		d.ualpha[k].B1.A0.Add(&d.ualpha[k].B1.A0, new(koalabear.Element).SetOne())
	default:
		d.ualpha[k].B1.A1.Add(&d.ualpha[k].B1.A1, new(koalabear.Element).SetOne())
	}
	emit("ualpha_entry_coord", d)
	d = h.clone()
	delta := nz()
	for i := range d.ualpha {
		d.ualpha[i].Add(&d.ualpha[i], &delta)
	}
	emit("ualpha_add_const", d)
	d = h.clone()
	d.ualpha = append([]fext.E4{}, h2.ualpha...)
	emit("ualpha_from_other", d)
	d = h.clone()
	d.ualpha = d.ualpha[:N/2]
	emit("ualpha_truncate_half", d)
	d = h.clone()
	d.ualpha = d.ualpha[:N-1]
	emit("ualpha_drop_last", d)
	d = h.clone()
	d.ualpha = append(d.ualpha, make([]fext.E4, N)...)
	emit("ualpha_pad_double", d)

	// targeted: the known defect – shift UAlpha by the constant codeword δ and the first claim by δ (false claim)
	if len(h.ys) > 0 {
		for _, dl := range []fext.E4{e4Base(*new(koalabear.Element).SetUint64(5)), nz()} {
			d = h.clone()
			for i := range d.ualpha {
				d.ualpha[i].Add(&d.ualpha[i], &dl)
			}
			d.ys[0].Add(&d.ys[0], &dl)
			emit("forge_ualpha_shift", d)
		}
		// shift by a non-constant codeword: δ(X) = s·X^j, j < nbCols ; claim[0] += δ(x)
		if h.nbCols > 1 {
			j := 1 + g.rng.intn(h.nbCols-1)
			s := nz()
			d = h.clone()
			for i := range d.ualpha {
				var w koalabear.Element
				w.Exp(p.Domains[1].Generator, big.NewInt(int64(i*j)))
				var t fext.E4
				t.MulByElement(&s, &w)
				d.ualpha[i].Add(&d.ualpha[i], &t)
			}
			var xj fext.E4
			xj.Exp(d.x, big.NewInt(int64(j)))
			xj.Mul(&xj, &s)
			d.ys[0].Add(&d.ys[0], &xj)
			emit("forge_ualpha_shift_codeword", d)
		}
		// targeted: fail ONLY the Reed–Solomon check: spike at an unselected position, claim adjusted
		k0 := -1
		for c := 0; c < N && k0 < 0; c++ {
			used := false
			for _, s := range h.sel {
				used = used || s == c
			}
			if !used {
				k0 = c
			}
		}
		if k0 >= 0 {
			d = h.clone()
			s := nz()
			unit := make([]fext.E4, N)
			unit[k0] = s
			ex, err := vortex.EvalFextPolyLagrange(unit, d.x)
			if err == nil {
				d.ualpha[k0].Add(&d.ualpha[k0], &s)
				d.ys[0].Add(&d.ys[0], &ex)
				emit("forge_rs_spike", d)
			}
		}
		// targeted: UAlpha of double length; the verifier evaluates all 2N entries but tests only the first N for RS
		{
			d = h.clone()
			d.ualpha = append(d.ualpha, make([]fext.E4, N)...)
			base, err1 := vortex.EvalFextPolyLagrange(d.ualpha, d.x)
			unit := make([]fext.E4, 2*N)
			unit[N].SetOne()
			ln, err2 := vortex.EvalFextPolyLagrange(unit, d.x)
			if err1 == nil && err2 == nil && !ln.IsZero() {
				one := e4Base(*new(koalabear.Element).SetOne())
				d.ys[0].Add(&d.ys[0], &one)
				target := vortex.EvalFextPolyHorner(d.ys, d.alpha)
				var t fext.E4
				t.Sub(&target, &base)
				ln.Inverse(&ln)
				t.Mul(&t, &ln)
				d.ualpha[N] = t
				emit("forge_ualpha_double_len", d)
			}
		}
	}

	// ---- claimed values
	if len(h.ys) > 0 {
		j := g.rng.intn(len(h.ys))
		d = h.clone()
		d.ys[j] = g.e4()
		emit("ys_random", d)
		d = h.clone()
		d.ys[j] = fext.E4{}
		emit("ys_zero", d)
		d = h.clone()
		dl := nz()
		d.ys[j].Add(&d.ys[j], &dl)
		emit("ys_plus", d)
		d = h.clone()
		d.ys[j] = h2.ys[j]
		emit("ys_from_other", d)
		d = h.clone()
		d.ys = d.ys[:len(d.ys)-1]
		emit("ys_drop_last", d)
		if len(h.ys) >= 2 {
			d = h.clone()
			d.ys[0], d.ys[1] = d.ys[1], d.ys[0]
			emit("ys_swap", d)
		}
	}
	d = h.clone()
	d.ys = append(d.ys, nz())
	emit("ys_append_nonzero", d)

	// ---- evaluation point, alpha, root
	d = h.clone()
	d.x = g.e4()
	emit("x_changed", d)
	d = h.clone()
	d.alpha = g.e4()
	emit("alpha_changed", d)
	d = h.clone()
	d.root[g.rng.intn(8)] = nzb()
	emit("root_changed", d)
	d = h.clone()
	d.root = h2.root
	emit("root_from_other", d)

	// ---- opened columns
	if len(h.sel) > 0 {
		i := g.rng.intn(len(h.sel))
		r := g.rng.intn(len(h.cols[i]))
		d = h.clone()
		d.cols[i][r] = g.kb()
		emit("col_entry_random", d)
		d = h.clone()
		one := koalabear.One()
		d.cols[i][r].Add(&d.cols[i][r], &one)
		emit("col_entry_plus1", d)
		d = h.clone()
		d.cols[i] = append([]koalabear.Element{}, h2.cols[i]...)
		d.oracle = append(d.oracle, h2.oracle...)
		emit("col_from_other", d)
		d = h.clone()
		d.cols[i] = append([]koalabear.Element{}, h2.cols[i]...)
		d.paths[i] = append(vortex.MerkleProof{}, h2.paths[i]...)
		d.oracle = append(d.oracle, h2.oracle...)
		emit("col_and_path_from_other", d)
		d = h.clone()
		d.cols[i] = d.cols[i][:len(d.cols[i])-1]
		emit("col_drop_last_row", d)
		d = h.clone()
		d.cols[i] = append(d.cols[i], nzb())
		emit("col_append_row", d)
		// another column of the same matrix (with its own honest path) under the index of column i
		other := (h.sel[i] + 1 + g.rng.intn(N-1)) % N
		if N > 1 {
			col := make([]koalabear.Element, len(m))
			tmp := make([]koalabear.Element, N)
			for rr := range m {
				p.EncodeReedSolomon(m[rr], tmp)
				col[rr] = tmp[other]
			}
			ps, _ := vortex.Commit(p, m)
			op, _ := ps.MerkleTree.Open(other)
			d = h.clone()
			d.cols[i] = col
			d.oracle = append(d.oracle, vxOracleEntries(p, col, other, op)...)
			emit("col_other_index", d)
			d = d.clone()
			d.paths[i] = op
			emit("col_and_path_other_index", d)
			// … and the selected index says `other` too but UAlpha was not recomputed: fully consistent → accept
			d = d.clone()
			d.sel[i] = other
			emit("sel_col_path_other_index", d)
		}

		// ---- Merkle paths
		if len(h.paths[i]) > 0 {
			l := g.rng.intn(len(h.paths[i]))
			d = h.clone()
			d.paths[i][l][g.rng.intn(8)] = nzb()
			emit("path_sibling_changed", d)
			d = h.clone()
			d.paths[i] = d.paths[i][:len(d.paths[i])-1]
			emit("path_truncated", d)
			if len(h.paths[i]) >= 2 {
				d = h.clone()
				d.paths[i][0], d.paths[i][1] = d.paths[i][1], d.paths[i][0]
				emit("path_swapped", d)
			}
		}
		d = h.clone()
		d.paths[i] = append(d.paths[i], h.root)
		emit("path_extended", d)
		d = h.clone()
		d.paths[i] = append(vortex.MerkleProof{}, h2.paths[i]...)
		d.oracle = append(d.oracle, h2.oracle...)
		emit("path_from_other", d)

		// ---- selected column list
		d = h.clone()
		d.sel[i] = (d.sel[i] + 1 + g.rng.intn(N-1+boolInt(N == 1))) % N
		if d.sel[i] != h.sel[i] {
			emit("sel_changed", d)
		}
		d = h.clone()
		d.sel[i] += N
		emit("sel_out_of_range_plusN", d)
		d = h.clone()
		d.sel[i] += 2 * N
		emit("sel_out_of_range_plus2N", d)
		if len(h.sel) >= 2 {
			d = h.clone()
			d.sel[1] = d.sel[0]
			emit("sel_duplicate", d)
			d = h.clone()
			d.sel[1], d.cols[1], d.paths[1] = d.sel[0], d.cols[0], d.paths[0]
			emit("sel_duplicate_consistent", d)
		}
		d = h.clone()
		d.sel = d.sel[:len(d.sel)-1]
		emit("sel_shorter_than_opened", d)
		d = h.clone()
		d.sel = append(d.sel, d.sel[0])
		emit("sel_longer_than_opened", d)
		d = h.clone()
		d.cols = d.cols[:len(d.cols)-1]
		emit("opened_shorter", d)
		d = h.clone()
		d.paths = d.paths[:len(d.paths)-1]
		emit("paths_shorter", d)
		d = h.clone()
		d.sel, d.cols, d.paths = nil, nil, nil
		emit("sel_none", d)
	}
}

func boolInt(b bool) int {
	if b {
		return 1
	}
	return 0
}
