// Code written by c10_fields.sh from c10_fields.tmpl; DO NOT EDIT
package main

import (
	"io"

	fr_bls12377 "github.com/consensys/gnark-crypto/ecc/bls12-377/fr"
	fft_bls12377 "github.com/consensys/gnark-crypto/ecc/bls12-377/fr/fft"
	fr_bls12381 "github.com/consensys/gnark-crypto/ecc/bls12-381/fr"
	fft_bls12381 "github.com/consensys/gnark-crypto/ecc/bls12-381/fr/fft"
	fr_bls24315 "github.com/consensys/gnark-crypto/ecc/bls24-315/fr"
	fft_bls24315 "github.com/consensys/gnark-crypto/ecc/bls24-315/fr/fft"
	fr_bls24317 "github.com/consensys/gnark-crypto/ecc/bls24-317/fr"
	fft_bls24317 "github.com/consensys/gnark-crypto/ecc/bls24-317/fr/fft"
	fr_bn254 "github.com/consensys/gnark-crypto/ecc/bn254/fr"
	fft_bn254 "github.com/consensys/gnark-crypto/ecc/bn254/fr/fft"
	fr_bw6633 "github.com/consensys/gnark-crypto/ecc/bw6-633/fr"
	fft_bw6633 "github.com/consensys/gnark-crypto/ecc/bw6-633/fr/fft"
	fr_bw6761 "github.com/consensys/gnark-crypto/ecc/bw6-761/fr"
	fft_bw6761 "github.com/consensys/gnark-crypto/ecc/bw6-761/fr/fft"
	fr_babybear "github.com/consensys/gnark-crypto/field/babybear"
	fft_babybear "github.com/consensys/gnark-crypto/field/babybear/fft"
	fr_goldilocks "github.com/consensys/gnark-crypto/field/goldilocks"
	fft_goldilocks "github.com/consensys/gnark-crypto/field/goldilocks/fft"
	fr_koalabear "github.com/consensys/gnark-crypto/field/koalabear"
	fft_koalabear "github.com/consensys/gnark-crypto/field/koalabear/fft"
)

func init() {
	type E = fr_bn254.Element
	type D = fft_bn254.Domain
	dec := func(dif bool) fft_bn254.Decimation {
		if dif {
			return fft_bn254.DIF
		}
		return fft_bn254.DIT
	}
	opts := func(coset bool, nb int) (o []fft_bn254.Option) {
		if nb > 0 {
			o = append(o, fft_bn254.WithNbTasks(nb))
		}
		if coset {
			o = append(o, fft_bn254.OnCoset())
		}
		return o
	}
	registerFFT(&c10pkg[E, *E, D]{
		name: "bn254", modulus: fr_bn254.Modulus(), bytes: fr_bn254.Bytes,
		newDomain: func(m uint64, precomp bool, shift *E) *D {
			var o []fft_bn254.DomainOption
			if !precomp {
				o = append(o, fft_bn254.WithoutPrecompute())
			}
			if shift != nil {
				o = append(o, fft_bn254.WithShift(*shift))
			}
			return fft_bn254.NewDomain(m, o...)
		},
		fft:    func(d *D, a []E, dif, coset bool, nb int) { d.FFT(a, dec(dif), opts(coset, nb)...) },
		inv:    func(d *D, a []E, dif, coset bool, nb int) { d.FFTInverse(a, dec(dif), opts(coset, nb)...) },
		bitrev: func(a []E) { fft_bn254.BitReverse(a) },
		fields: func(d *D) (uint64, [5]E) {
			return d.Cardinality, [5]E{d.CardinalityInv, d.Generator, d.GeneratorInv, d.FrMultiplicativeGen, d.FrMultiplicativeGenInv}
		},
		writeTo:  func(d *D, w io.Writer) (int64, error) { return d.WriteTo(w) },
		readFrom: func(r io.Reader) (*D, int64, error) { d := new(D); n, err := d.ReadFrom(r); return d, n, err },
		readInto: func(d *D, r io.Reader) (int64, error) { return d.ReadFrom(r) },
		tables: func(d *D) (ct, cti []E, tw, twi [][]E) {
			ct, _ = d.CosetTable()
			cti, _ = d.CosetTableInv()
			tw, _ = d.Twiddles()
			twi, _ = d.TwiddlesInv()
			return
		},
		generator: fft_bn254.Generator,
		mulGen:    fft_bn254.GeneratorFullMultiplicativeGroup,
	})
}

func init() {
	type E = fr_bls12377.Element
	type D = fft_bls12377.Domain
	dec := func(dif bool) fft_bls12377.Decimation {
		if dif {
			return fft_bls12377.DIF
		}
		return fft_bls12377.DIT
	}
	opts := func(coset bool, nb int) (o []fft_bls12377.Option) {
		if nb > 0 {
			o = append(o, fft_bls12377.WithNbTasks(nb))
		}
		if coset {
			o = append(o, fft_bls12377.OnCoset())
		}
		return o
	}
	registerFFT(&c10pkg[E, *E, D]{
		name: "bls12-377", modulus: fr_bls12377.Modulus(), bytes: fr_bls12377.Bytes,
		newDomain: func(m uint64, precomp bool, shift *E) *D {
			var o []fft_bls12377.DomainOption
			if !precomp {
				o = append(o, fft_bls12377.WithoutPrecompute())
			}
			if shift != nil {
				o = append(o, fft_bls12377.WithShift(*shift))
			}
			return fft_bls12377.NewDomain(m, o...)
		},
		fft:    func(d *D, a []E, dif, coset bool, nb int) { d.FFT(a, dec(dif), opts(coset, nb)...) },
		inv:    func(d *D, a []E, dif, coset bool, nb int) { d.FFTInverse(a, dec(dif), opts(coset, nb)...) },
		bitrev: func(a []E) { fft_bls12377.BitReverse(a) },
		fields: func(d *D) (uint64, [5]E) {
			return d.Cardinality, [5]E{d.CardinalityInv, d.Generator, d.GeneratorInv, d.FrMultiplicativeGen, d.FrMultiplicativeGenInv}
		},
		writeTo:  func(d *D, w io.Writer) (int64, error) { return d.WriteTo(w) },
		readFrom: func(r io.Reader) (*D, int64, error) { d := new(D); n, err := d.ReadFrom(r); return d, n, err },
		readInto: func(d *D, r io.Reader) (int64, error) { return d.ReadFrom(r) },
		tables: func(d *D) (ct, cti []E, tw, twi [][]E) {
			ct, _ = d.CosetTable()
			cti, _ = d.CosetTableInv()
			tw, _ = d.Twiddles()
			twi, _ = d.TwiddlesInv()
			return
		},
		generator: fft_bls12377.Generator,
		mulGen:    fft_bls12377.GeneratorFullMultiplicativeGroup,
	})
}

func init() {
	type E = fr_bls12381.Element
	type D = fft_bls12381.Domain
	dec := func(dif bool) fft_bls12381.Decimation {
		if dif {
			return fft_bls12381.DIF
		}
		return fft_bls12381.DIT
	}
	opts := func(coset bool, nb int) (o []fft_bls12381.Option) {
		if nb > 0 {
			o = append(o, fft_bls12381.WithNbTasks(nb))
		}
		if coset {
			o = append(o, fft_bls12381.OnCoset())
		}
		return o
	}
	registerFFT(&c10pkg[E, *E, D]{
		name: "bls12-381", modulus: fr_bls12381.Modulus(), bytes: fr_bls12381.Bytes,
		newDomain: func(m uint64, precomp bool, shift *E) *D {
			var o []fft_bls12381.DomainOption
			if !precomp {
				o = append(o, fft_bls12381.WithoutPrecompute())
			}
			if shift != nil {
				o = append(o, fft_bls12381.WithShift(*shift))
			}
			return fft_bls12381.NewDomain(m, o...)
		},
		fft:    func(d *D, a []E, dif, coset bool, nb int) { d.FFT(a, dec(dif), opts(coset, nb)...) },
		inv:    func(d *D, a []E, dif, coset bool, nb int) { d.FFTInverse(a, dec(dif), opts(coset, nb)...) },
		bitrev: func(a []E) { fft_bls12381.BitReverse(a) },
		fields: func(d *D) (uint64, [5]E) {
			return d.Cardinality, [5]E{d.CardinalityInv, d.Generator, d.GeneratorInv, d.FrMultiplicativeGen, d.FrMultiplicativeGenInv}
		},
		writeTo:  func(d *D, w io.Writer) (int64, error) { return d.WriteTo(w) },
		readFrom: func(r io.Reader) (*D, int64, error) { d := new(D); n, err := d.ReadFrom(r); return d, n, err },
		readInto: func(d *D, r io.Reader) (int64, error) { return d.ReadFrom(r) },
		tables: func(d *D) (ct, cti []E, tw, twi [][]E) {
			ct, _ = d.CosetTable()
			cti, _ = d.CosetTableInv()
			tw, _ = d.Twiddles()
			twi, _ = d.TwiddlesInv()
			return
		},
		generator: fft_bls12381.Generator,
		mulGen:    fft_bls12381.GeneratorFullMultiplicativeGroup,
	})
}

func init() {
	type E = fr_bls24315.Element
	type D = fft_bls24315.Domain
	dec := func(dif bool) fft_bls24315.Decimation {
		if dif {
			return fft_bls24315.DIF
		}
		return fft_bls24315.DIT
	}
	opts := func(coset bool, nb int) (o []fft_bls24315.Option) {
		if nb > 0 {
			o = append(o, fft_bls24315.WithNbTasks(nb))
		}
		if coset {
			o = append(o, fft_bls24315.OnCoset())
		}
		return o
	}
	registerFFT(&c10pkg[E, *E, D]{
		name: "bls24-315", modulus: fr_bls24315.Modulus(), bytes: fr_bls24315.Bytes,
		newDomain: func(m uint64, precomp bool, shift *E) *D {
			var o []fft_bls24315.DomainOption
			if !precomp {
				o = append(o, fft_bls24315.WithoutPrecompute())
			}
			if shift != nil {
				o = append(o, fft_bls24315.WithShift(*shift))
			}
			return fft_bls24315.NewDomain(m, o...)
		},
		fft:    func(d *D, a []E, dif, coset bool, nb int) { d.FFT(a, dec(dif), opts(coset, nb)...) },
		inv:    func(d *D, a []E, dif, coset bool, nb int) { d.FFTInverse(a, dec(dif), opts(coset, nb)...) },
		bitrev: func(a []E) { fft_bls24315.BitReverse(a) },
		fields: func(d *D) (uint64, [5]E) {
			return d.Cardinality, [5]E{d.CardinalityInv, d.Generator, d.GeneratorInv, d.FrMultiplicativeGen, d.FrMultiplicativeGenInv}
		},
		writeTo:  func(d *D, w io.Writer) (int64, error) { return d.WriteTo(w) },
		readFrom: func(r io.Reader) (*D, int64, error) { d := new(D); n, err := d.ReadFrom(r); return d, n, err },
		readInto: func(d *D, r io.Reader) (int64, error) { return d.ReadFrom(r) },
		tables: func(d *D) (ct, cti []E, tw, twi [][]E) {
			ct, _ = d.CosetTable()
			cti, _ = d.CosetTableInv()
			tw, _ = d.Twiddles()
			twi, _ = d.TwiddlesInv()
			return
		},
		generator: fft_bls24315.Generator,
		mulGen:    fft_bls24315.GeneratorFullMultiplicativeGroup,
	})
}

func init() {
	type E = fr_bls24317.Element
	type D = fft_bls24317.Domain
	dec := func(dif bool) fft_bls24317.Decimation {
		if dif {
			return fft_bls24317.DIF
		}
		return fft_bls24317.DIT
	}
	opts := func(coset bool, nb int) (o []fft_bls24317.Option) {
		if nb > 0 {
			o = append(o, fft_bls24317.WithNbTasks(nb))
		}
		if coset {
			o = append(o, fft_bls24317.OnCoset())
		}
		return o
	}
	registerFFT(&c10pkg[E, *E, D]{
		name: "bls24-317", modulus: fr_bls24317.Modulus(), bytes: fr_bls24317.Bytes,
		newDomain: func(m uint64, precomp bool, shift *E) *D {
			var o []fft_bls24317.DomainOption
			if !precomp {
				o = append(o, fft_bls24317.WithoutPrecompute())
			}
			if shift != nil {
				o = append(o, fft_bls24317.WithShift(*shift))
			}
			return fft_bls24317.NewDomain(m, o...)
		},
		fft:    func(d *D, a []E, dif, coset bool, nb int) { d.FFT(a, dec(dif), opts(coset, nb)...) },
		inv:    func(d *D, a []E, dif, coset bool, nb int) { d.FFTInverse(a, dec(dif), opts(coset, nb)...) },
		bitrev: func(a []E) { fft_bls24317.BitReverse(a) },
		fields: func(d *D) (uint64, [5]E) {
			return d.Cardinality, [5]E{d.CardinalityInv, d.Generator, d.GeneratorInv, d.FrMultiplicativeGen, d.FrMultiplicativeGenInv}
		},
		writeTo:  func(d *D, w io.Writer) (int64, error) { return d.WriteTo(w) },
		readFrom: func(r io.Reader) (*D, int64, error) { d := new(D); n, err := d.ReadFrom(r); return d, n, err },
		readInto: func(d *D, r io.Reader) (int64, error) { return d.ReadFrom(r) },
		tables: func(d *D) (ct, cti []E, tw, twi [][]E) {
			ct, _ = d.CosetTable()
			cti, _ = d.CosetTableInv()
			tw, _ = d.Twiddles()
			twi, _ = d.TwiddlesInv()
			return
		},
		generator: fft_bls24317.Generator,
		mulGen:    fft_bls24317.GeneratorFullMultiplicativeGroup,
	})
}

func init() {
	type E = fr_bw6633.Element
	type D = fft_bw6633.Domain
	dec := func(dif bool) fft_bw6633.Decimation {
		if dif {
			return fft_bw6633.DIF
		}
		return fft_bw6633.DIT
	}
	opts := func(coset bool, nb int) (o []fft_bw6633.Option) {
		if nb > 0 {
			o = append(o, fft_bw6633.WithNbTasks(nb))
		}
		if coset {
			o = append(o, fft_bw6633.OnCoset())
		}
		return o
	}
	registerFFT(&c10pkg[E, *E, D]{
		name: "bw6-633", modulus: fr_bw6633.Modulus(), bytes: fr_bw6633.Bytes,
		newDomain: func(m uint64, precomp bool, shift *E) *D {
			var o []fft_bw6633.DomainOption
			if !precomp {
				o = append(o, fft_bw6633.WithoutPrecompute())
			}
			if shift != nil {
				o = append(o, fft_bw6633.WithShift(*shift))
			}
			return fft_bw6633.NewDomain(m, o...)
		},
		fft:    func(d *D, a []E, dif, coset bool, nb int) { d.FFT(a, dec(dif), opts(coset, nb)...) },
		inv:    func(d *D, a []E, dif, coset bool, nb int) { d.FFTInverse(a, dec(dif), opts(coset, nb)...) },
		bitrev: func(a []E) { fft_bw6633.BitReverse(a) },
		fields: func(d *D) (uint64, [5]E) {
			return d.Cardinality, [5]E{d.CardinalityInv, d.Generator, d.GeneratorInv, d.FrMultiplicativeGen, d.FrMultiplicativeGenInv}
		},
		writeTo:  func(d *D, w io.Writer) (int64, error) { return d.WriteTo(w) },
		readFrom: func(r io.Reader) (*D, int64, error) { d := new(D); n, err := d.ReadFrom(r); return d, n, err },
		readInto: func(d *D, r io.Reader) (int64, error) { return d.ReadFrom(r) },
		tables: func(d *D) (ct, cti []E, tw, twi [][]E) {
			ct, _ = d.CosetTable()
			cti, _ = d.CosetTableInv()
			tw, _ = d.Twiddles()
			twi, _ = d.TwiddlesInv()
			return
		},
		generator: fft_bw6633.Generator,
		mulGen:    fft_bw6633.GeneratorFullMultiplicativeGroup,
	})
}

func init() {
	type E = fr_bw6761.Element
	type D = fft_bw6761.Domain
	dec := func(dif bool) fft_bw6761.Decimation {
		if dif {
			return fft_bw6761.DIF
		}
		return fft_bw6761.DIT
	}
	opts := func(coset bool, nb int) (o []fft_bw6761.Option) {
		if nb > 0 {
			o = append(o, fft_bw6761.WithNbTasks(nb))
		}
		if coset {
			o = append(o, fft_bw6761.OnCoset())
		}
		return o
	}
	registerFFT(&c10pkg[E, *E, D]{
		name: "bw6-761", modulus: fr_bw6761.Modulus(), bytes: fr_bw6761.Bytes,
		newDomain: func(m uint64, precomp bool, shift *E) *D {
			var o []fft_bw6761.DomainOption
			if !precomp {
				o = append(o, fft_bw6761.WithoutPrecompute())
			}
			if shift != nil {
				o = append(o, fft_bw6761.WithShift(*shift))
			}
			return fft_bw6761.NewDomain(m, o...)
		},
		fft:    func(d *D, a []E, dif, coset bool, nb int) { d.FFT(a, dec(dif), opts(coset, nb)...) },
		inv:    func(d *D, a []E, dif, coset bool, nb int) { d.FFTInverse(a, dec(dif), opts(coset, nb)...) },
		bitrev: func(a []E) { fft_bw6761.BitReverse(a) },
		fields: func(d *D) (uint64, [5]E) {
			return d.Cardinality, [5]E{d.CardinalityInv, d.Generator, d.GeneratorInv, d.FrMultiplicativeGen, d.FrMultiplicativeGenInv}
		},
		writeTo:  func(d *D, w io.Writer) (int64, error) { return d.WriteTo(w) },
		readFrom: func(r io.Reader) (*D, int64, error) { d := new(D); n, err := d.ReadFrom(r); return d, n, err },
		readInto: func(d *D, r io.Reader) (int64, error) { return d.ReadFrom(r) },
		tables: func(d *D) (ct, cti []E, tw, twi [][]E) {
			ct, _ = d.CosetTable()
			cti, _ = d.CosetTableInv()
			tw, _ = d.Twiddles()
			twi, _ = d.TwiddlesInv()
			return
		},
		generator: fft_bw6761.Generator,
		mulGen:    fft_bw6761.GeneratorFullMultiplicativeGroup,
	})
}

func init() {
	type E = fr_goldilocks.Element
	type D = fft_goldilocks.Domain
	dec := func(dif bool) fft_goldilocks.Decimation {
		if dif {
			return fft_goldilocks.DIF
		}
		return fft_goldilocks.DIT
	}
	opts := func(coset bool, nb int) (o []fft_goldilocks.Option) {
		if nb > 0 {
			o = append(o, fft_goldilocks.WithNbTasks(nb))
		}
		if coset {
			o = append(o, fft_goldilocks.OnCoset())
		}
		return o
	}
	registerFFT(&c10pkg[E, *E, D]{
		name: "goldilocks", modulus: fr_goldilocks.Modulus(), bytes: fr_goldilocks.Bytes,
		newDomain: func(m uint64, precomp bool, shift *E) *D {
			var o []fft_goldilocks.DomainOption
			if !precomp {
				o = append(o, fft_goldilocks.WithoutPrecompute())
			}
			if shift != nil {
				o = append(o, fft_goldilocks.WithShift(*shift))
			}
			return fft_goldilocks.NewDomain(m, o...)
		},
		fft:    func(d *D, a []E, dif, coset bool, nb int) { d.FFT(a, dec(dif), opts(coset, nb)...) },
		inv:    func(d *D, a []E, dif, coset bool, nb int) { d.FFTInverse(a, dec(dif), opts(coset, nb)...) },
		bitrev: func(a []E) { fft_goldilocks.BitReverse(a) },
		fields: func(d *D) (uint64, [5]E) {
			return d.Cardinality, [5]E{d.CardinalityInv, d.Generator, d.GeneratorInv, d.FrMultiplicativeGen, d.FrMultiplicativeGenInv}
		},
		writeTo:  func(d *D, w io.Writer) (int64, error) { return d.WriteTo(w) },
		readFrom: func(r io.Reader) (*D, int64, error) { d := new(D); n, err := d.ReadFrom(r); return d, n, err },
		readInto: func(d *D, r io.Reader) (int64, error) { return d.ReadFrom(r) },
		tables: func(d *D) (ct, cti []E, tw, twi [][]E) {
			ct, _ = d.CosetTable()
			cti, _ = d.CosetTableInv()
			tw, _ = d.Twiddles()
			twi, _ = d.TwiddlesInv()
			return
		},
		generator: fft_goldilocks.Generator,
		mulGen:    fft_goldilocks.GeneratorFullMultiplicativeGroup,
	})
}

func init() {
	type E = fr_koalabear.Element
	type D = fft_koalabear.Domain
	dec := func(dif bool) fft_koalabear.Decimation {
		if dif {
			return fft_koalabear.DIF
		}
		return fft_koalabear.DIT
	}
	opts := func(coset bool, nb int) (o []fft_koalabear.Option) {
		if nb > 0 {
			o = append(o, fft_koalabear.WithNbTasks(nb))
		}
		if coset {
			o = append(o, fft_koalabear.OnCoset())
		}
		return o
	}
	registerFFT(&c10pkg[E, *E, D]{
		name: "koalabear", modulus: fr_koalabear.Modulus(), bytes: fr_koalabear.Bytes,
		newDomain: func(m uint64, precomp bool, shift *E) *D {
			var o []fft_koalabear.DomainOption
			if !precomp {
				o = append(o, fft_koalabear.WithoutPrecompute())
			}
			if shift != nil {
				o = append(o, fft_koalabear.WithShift(*shift))
			}
			return fft_koalabear.NewDomain(m, o...)
		},
		fft:    func(d *D, a []E, dif, coset bool, nb int) { d.FFT(a, dec(dif), opts(coset, nb)...) },
		inv:    func(d *D, a []E, dif, coset bool, nb int) { d.FFTInverse(a, dec(dif), opts(coset, nb)...) },
		bitrev: func(a []E) { fft_koalabear.BitReverse(a) },
		fields: func(d *D) (uint64, [5]E) {
			return d.Cardinality, [5]E{d.CardinalityInv, d.Generator, d.GeneratorInv, d.FrMultiplicativeGen, d.FrMultiplicativeGenInv}
		},
		writeTo:  func(d *D, w io.Writer) (int64, error) { return d.WriteTo(w) },
		readFrom: func(r io.Reader) (*D, int64, error) { d := new(D); n, err := d.ReadFrom(r); return d, n, err },
		readInto: func(d *D, r io.Reader) (int64, error) { return d.ReadFrom(r) },
		tables: func(d *D) (ct, cti []E, tw, twi [][]E) {
			ct, _ = d.CosetTable()
			cti, _ = d.CosetTableInv()
			tw, _ = d.Twiddles()
			twi, _ = d.TwiddlesInv()
			return
		},
		generator: fft_koalabear.Generator,
		mulGen:    fft_koalabear.GeneratorFullMultiplicativeGroup,
	})
}

func init() {
	type E = fr_babybear.Element
	type D = fft_babybear.Domain
	dec := func(dif bool) fft_babybear.Decimation {
		if dif {
			return fft_babybear.DIF
		}
		return fft_babybear.DIT
	}
	opts := func(coset bool, nb int) (o []fft_babybear.Option) {
		if nb > 0 {
			o = append(o, fft_babybear.WithNbTasks(nb))
		}
		if coset {
			o = append(o, fft_babybear.OnCoset())
		}
		return o
	}
	registerFFT(&c10pkg[E, *E, D]{
		name: "babybear", modulus: fr_babybear.Modulus(), bytes: fr_babybear.Bytes,
		newDomain: func(m uint64, precomp bool, shift *E) *D {
			var o []fft_babybear.DomainOption
			if !precomp {
				o = append(o, fft_babybear.WithoutPrecompute())
			}
			if shift != nil {
				o = append(o, fft_babybear.WithShift(*shift))
			}
			return fft_babybear.NewDomain(m, o...)
		},
		fft:    func(d *D, a []E, dif, coset bool, nb int) { d.FFT(a, dec(dif), opts(coset, nb)...) },
		inv:    func(d *D, a []E, dif, coset bool, nb int) { d.FFTInverse(a, dec(dif), opts(coset, nb)...) },
		bitrev: func(a []E) { fft_babybear.BitReverse(a) },
		fields: func(d *D) (uint64, [5]E) {
			return d.Cardinality, [5]E{d.CardinalityInv, d.Generator, d.GeneratorInv, d.FrMultiplicativeGen, d.FrMultiplicativeGenInv}
		},
		writeTo:  func(d *D, w io.Writer) (int64, error) { return d.WriteTo(w) },
		readFrom: func(r io.Reader) (*D, int64, error) { d := new(D); n, err := d.ReadFrom(r); return d, n, err },
		readInto: func(d *D, r io.Reader) (int64, error) { return d.ReadFrom(r) },
		tables: func(d *D) (ct, cti []E, tw, twi [][]E) {
			ct, _ = d.CosetTable()
			cti, _ = d.CosetTableInv()
			tw, _ = d.Twiddles()
			twi, _ = d.TwiddlesInv()
			return
		},
		generator: fft_babybear.Generator,
		mulGen:    fft_babybear.GeneratorFullMultiplicativeGroup,
	})
}
