package main

// C19 type table: the ROOT exported types of every field, tower, curve, twisted-Edwards, polynomial and vector package.
// Everything reachable from a root through struct fields / slice elements (fptower.E2/E4/E6/E12/E24/E3 behind the GT and
// G2 coordinates, fp.Element behind points, fr.Element behind vectors …) is registered automatically by c19Registry, and the
// methods of every registered type are enumerated by reflection at run time (c19.go) – nothing below names a method.

import (
	"reflect"

	bls12377 "github.com/consensys/gnark-crypto/ecc/bls12-377"
	bls12377poly "github.com/consensys/gnark-crypto/ecc/bls12-377/fr/polynomial"
	bls12377te "github.com/consensys/gnark-crypto/ecc/bls12-377/twistededwards"
	bls12381 "github.com/consensys/gnark-crypto/ecc/bls12-381"
	bandersnatch "github.com/consensys/gnark-crypto/ecc/bls12-381/bandersnatch"
	bls12381poly "github.com/consensys/gnark-crypto/ecc/bls12-381/fr/polynomial"
	bls12381te "github.com/consensys/gnark-crypto/ecc/bls12-381/twistededwards"
	bls24315 "github.com/consensys/gnark-crypto/ecc/bls24-315"
	bls24315poly "github.com/consensys/gnark-crypto/ecc/bls24-315/fr/polynomial"
	bls24315te "github.com/consensys/gnark-crypto/ecc/bls24-315/twistededwards"
	bls24317 "github.com/consensys/gnark-crypto/ecc/bls24-317"
	bls24317poly "github.com/consensys/gnark-crypto/ecc/bls24-317/fr/polynomial"
	bls24317te "github.com/consensys/gnark-crypto/ecc/bls24-317/twistededwards"
	bn254 "github.com/consensys/gnark-crypto/ecc/bn254"
	bn254poly "github.com/consensys/gnark-crypto/ecc/bn254/fr/polynomial"
	bn254te "github.com/consensys/gnark-crypto/ecc/bn254/twistededwards"
	bw6633 "github.com/consensys/gnark-crypto/ecc/bw6-633"
	bw6633poly "github.com/consensys/gnark-crypto/ecc/bw6-633/fr/polynomial"
	bw6633te "github.com/consensys/gnark-crypto/ecc/bw6-633/twistededwards"
	bw6761 "github.com/consensys/gnark-crypto/ecc/bw6-761"
	bw6761poly "github.com/consensys/gnark-crypto/ecc/bw6-761/fr/polynomial"
	bw6761te "github.com/consensys/gnark-crypto/ecc/bw6-761/twistededwards"
	grumpkin "github.com/consensys/gnark-crypto/ecc/grumpkin"
	grumpkinpoly "github.com/consensys/gnark-crypto/ecc/grumpkin/fr/polynomial"
	secp256k1 "github.com/consensys/gnark-crypto/ecc/secp256k1"
	starkcurve "github.com/consensys/gnark-crypto/ecc/stark-curve"
	babybearext "github.com/consensys/gnark-crypto/field/babybear/extensions"
	"github.com/consensys/gnark-crypto/field/eisenstein"
	goldilocksext "github.com/consensys/gnark-crypto/field/goldilocks/extensions"
	koalabearext "github.com/consensys/gnark-crypto/field/koalabear/extensions"

	bls12_377_fp "github.com/consensys/gnark-crypto/ecc/bls12-377/fp"
	bls12_377_fr "github.com/consensys/gnark-crypto/ecc/bls12-377/fr"
	bls12_381_fp "github.com/consensys/gnark-crypto/ecc/bls12-381/fp"
	bls12_381_fr "github.com/consensys/gnark-crypto/ecc/bls12-381/fr"
	bls24_315_fp "github.com/consensys/gnark-crypto/ecc/bls24-315/fp"
	bls24_315_fr "github.com/consensys/gnark-crypto/ecc/bls24-315/fr"
	bls24_317_fp "github.com/consensys/gnark-crypto/ecc/bls24-317/fp"
	bls24_317_fr "github.com/consensys/gnark-crypto/ecc/bls24-317/fr"
	bn254_fp "github.com/consensys/gnark-crypto/ecc/bn254/fp"
	bn254_fr "github.com/consensys/gnark-crypto/ecc/bn254/fr"
	bw6_633_fp "github.com/consensys/gnark-crypto/ecc/bw6-633/fp"
	bw6_633_fr "github.com/consensys/gnark-crypto/ecc/bw6-633/fr"
	bw6_761_fp "github.com/consensys/gnark-crypto/ecc/bw6-761/fp"
	bw6_761_fr "github.com/consensys/gnark-crypto/ecc/bw6-761/fr"
	grumpkin_fp "github.com/consensys/gnark-crypto/ecc/grumpkin/fp"
	grumpkin_fr "github.com/consensys/gnark-crypto/ecc/grumpkin/fr"
	secp256k1_fp "github.com/consensys/gnark-crypto/ecc/secp256k1/fp"
	secp256k1_fr "github.com/consensys/gnark-crypto/ecc/secp256k1/fr"
	stark_curve_fp "github.com/consensys/gnark-crypto/ecc/stark-curve/fp"
	stark_curve_fr "github.com/consensys/gnark-crypto/ecc/stark-curve/fr"
	babybear "github.com/consensys/gnark-crypto/field/babybear"
	goldilocks "github.com/consensys/gnark-crypto/field/goldilocks"
	koalabear "github.com/consensys/gnark-crypto/field/koalabear"
)

// zero values of the root types
var c19Roots = []any{
	// the 23 field packages: Element and Vector
	bls12_377_fp.Element{}, bls12_377_fp.Vector{}, bls12_377_fr.Element{}, bls12_377_fr.Vector{},
	bls12_381_fp.Element{}, bls12_381_fp.Vector{}, bls12_381_fr.Element{}, bls12_381_fr.Vector{},
	bls24_315_fp.Element{}, bls24_315_fp.Vector{}, bls24_315_fr.Element{}, bls24_315_fr.Vector{},
	bls24_317_fp.Element{}, bls24_317_fp.Vector{}, bls24_317_fr.Element{}, bls24_317_fr.Vector{},
	bn254_fp.Element{}, bn254_fp.Vector{}, bn254_fr.Element{}, bn254_fr.Vector{},
	bw6_633_fp.Element{}, bw6_633_fp.Vector{}, bw6_633_fr.Element{}, bw6_633_fr.Vector{},
	bw6_761_fp.Element{}, bw6_761_fp.Vector{}, bw6_761_fr.Element{}, bw6_761_fr.Vector{},
	grumpkin_fp.Element{}, grumpkin_fp.Vector{}, grumpkin_fr.Element{}, grumpkin_fr.Vector{},
	secp256k1_fp.Element{}, secp256k1_fp.Vector{}, secp256k1_fr.Element{}, secp256k1_fr.Vector{},
	stark_curve_fp.Element{}, stark_curve_fp.Vector{}, stark_curve_fr.Element{}, stark_curve_fr.Vector{},
	babybear.Element{}, babybear.Vector{}, goldilocks.Element{}, goldilocks.Vector{}, koalabear.Element{}, koalabear.Vector{},
	// small-field extensions, Eisenstein integers
	koalabearext.E2{}, koalabearext.E4{}, babybearext.E2{}, babybearext.E4{}, goldilocksext.E2{},
	eisenstein.ComplexNumber{},
	// pairing curves: GT pulls in the whole tower, G2 the twist field
	bn254.GT{}, bn254.G1Affine{}, bn254.G1Jac{}, bn254.G2Affine{}, bn254.G2Jac{},
	bls12377.GT{}, bls12377.G1Affine{}, bls12377.G1Jac{}, bls12377.G2Affine{}, bls12377.G2Jac{},
	bls12381.GT{}, bls12381.G1Affine{}, bls12381.G1Jac{}, bls12381.G2Affine{}, bls12381.G2Jac{},
	bls24315.GT{}, bls24315.G1Affine{}, bls24315.G1Jac{}, bls24315.G2Affine{}, bls24315.G2Jac{},
	bls24317.GT{}, bls24317.G1Affine{}, bls24317.G1Jac{}, bls24317.G2Affine{}, bls24317.G2Jac{},
	bw6633.GT{}, bw6633.G1Affine{}, bw6633.G1Jac{}, bw6633.G2Affine{}, bw6633.G2Jac{},
	bw6761.GT{}, bw6761.G1Affine{}, bw6761.G1Jac{}, bw6761.G2Affine{}, bw6761.G2Jac{},
	// curves without pairing
	grumpkin.G1Affine{}, grumpkin.G1Jac{}, secp256k1.G1Affine{}, secp256k1.G1Jac{}, starkcurve.G1Affine{}, starkcurve.G1Jac{},
	// twisted Edwards companions (+ bandersnatch)
	bn254te.PointAffine{}, bn254te.PointProj{}, bn254te.PointExtended{},
	bls12377te.PointAffine{}, bls12377te.PointProj{}, bls12377te.PointExtended{},
	bls12381te.PointAffine{}, bls12381te.PointProj{}, bls12381te.PointExtended{},
	bandersnatch.PointAffine{}, bandersnatch.PointProj{}, bandersnatch.PointExtended{},
	bls24315te.PointAffine{}, bls24315te.PointProj{}, bls24315te.PointExtended{},
	bls24317te.PointAffine{}, bls24317te.PointProj{}, bls24317te.PointExtended{},
	bw6633te.PointAffine{}, bw6633te.PointProj{}, bw6633te.PointExtended{},
	bw6761te.PointAffine{}, bw6761te.PointProj{}, bw6761te.PointExtended{},
	// polynomials (univariate, multilinear)
	bn254poly.Polynomial{}, bn254poly.MultiLin{}, bls12377poly.Polynomial{}, bls12377poly.MultiLin{},
	bls12381poly.Polynomial{}, bls12381poly.MultiLin{}, bls24315poly.Polynomial{}, bls24315poly.MultiLin{},
	bls24317poly.Polynomial{}, bls24317poly.MultiLin{}, bw6633poly.Polynomial{}, bw6633poly.MultiLin{},
	bw6761poly.Polynomial{}, bw6761poly.MultiLin{}, grumpkinpoly.Polynomial{}, grumpkinpoly.MultiLin{},
}

// base points of the twisted Edwards packages, keyed by package path (GetEdwardsCurve().Base)
var c19TEBase = map[string]reflect.Value{}

func init() {
	for _, c := range []any{bn254te.GetEdwardsCurve(), bls12377te.GetEdwardsCurve(), bls12381te.GetEdwardsCurve(), bandersnatch.GetEdwardsCurve(),
		bls24315te.GetEdwardsCurve(), bls24317te.GetEdwardsCurve(), bw6633te.GetEdwardsCurve(), bw6761te.GetEdwardsCurve()} {
		v := reflect.ValueOf(c)
		c19TEBase[v.Type().PkgPath()] = v.FieldByName("Base")
	}
}
