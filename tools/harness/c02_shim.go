//go:build c02shim

// C02: binding of the unexported extended-Jacobian (XYZZ) methods, reachable only when the harness is built with
// `-tags verif,c02shim -overlay <overlay.json produced by hooks/c02_shim.py>`.
package main

import (
	bls12377 "github.com/consensys/gnark-crypto/ecc/bls12-377"
	bls12381 "github.com/consensys/gnark-crypto/ecc/bls12-381"
	bls24315 "github.com/consensys/gnark-crypto/ecc/bls24-315"
	bls24317 "github.com/consensys/gnark-crypto/ecc/bls24-317"
	bn254 "github.com/consensys/gnark-crypto/ecc/bn254"
	bw6633 "github.com/consensys/gnark-crypto/ecc/bw6-633"
	bw6761 "github.com/consensys/gnark-crypto/ecc/bw6-761"
	grumpkin "github.com/consensys/gnark-crypto/ecc/grumpkin"
	secp256k1 "github.com/consensys/gnark-crypto/ecc/secp256k1"
	starkcurve "github.com/consensys/gnark-crypto/ecc/stark-curve"
)

type xyzzPtr[X, A any] interface {
	*X
	VAdd(*X) *X
	VDouble(*X) *X
	VAddMixed(*A) *X
	VSubMixed(*A) *X
	VDoubleMixed(*A) *X
	VDoubleNegMixed(*A) *X
}
type affXPtr[A, X any] interface {
	*A
	VFromJacExtended(*X) *A
}
type jacXPtr[J, X any] interface {
	*J
	VFromJacExtended(*X) *J
	VUnsafeFromJacExtended(*X) *J
}

func bindXYZZ[X, A, J any, PX xyzzPtr[X, A], PA affXPtr[A, X], PJ jacXPtr[J, X]](name string, _ X, _ A, _ J, hasUnsafe bool) {
	G := swGroups[name]
	if G == nil {
		panic("c02 shim: unknown group " + name)
	}
	var za A
	kn := len(limbsOf(&za)) / 2
	mkX := func(c []coord) X {
		var x X
		l := limbsOf(&x)
		for i := 0; i < 4; i++ {
			G.wr(l[i*kn:(i+1)*kn], c[i])
		}
		return x
	}
	mkA := func(c []coord) A {
		var a A
		l := limbsOf(&a)
		G.wr(l[:kn], c[0])
		G.wr(l[kn:], c[1])
		return a
	}
	outX := func(x *X) string {
		l := limbsOf(x)
		return G.outXyzzC(G.rd(l[:kn]), G.rd(l[kn:2*kn]), G.rd(l[2*kn:3*kn]), G.rd(l[3*kn:]))
	}
	G.xyzzUnsafe = hasUnsafe
	G.xyzz = func(op string, c []coord) string {
		bad := "bad-op"
		switch op {
		case "xAdd":
			if len(c) != 8 {
				return bad
			}
			p, q := mkX(c[0:4]), mkX(c[4:8])
			PX(&p).VAdd(&q)
			return outX(&p)
		case "xDouble", "xToAffine", "xToJac", "xUnsafeToJac":
			if len(c) != 4 {
				return bad
			}
			q := mkX(c)
			switch op {
			case "xDouble":
				var p X
				PX(&p).VDouble(&q)
				return outX(&p)
			case "xToAffine":
				var a A
				PA(&a).VFromJacExtended(&q)
				l := limbsOf(&a)
				return G.outAffC(G.rd(l[:kn]), G.rd(l[kn:]))
			default:
				var j J
				if op == "xToJac" {
					PJ(&j).VFromJacExtended(&q)
				} else if !hasUnsafe {
					return bad
				} else {
					PJ(&j).VUnsafeFromJacExtended(&q)
				}
				l := limbsOf(&j)
				return G.outJacC(G.rd(l[:kn]), G.rd(l[kn:2*kn]), G.rd(l[2*kn:]))
			}
		case "xAddMixed", "xSubMixed":
			if len(c) != 6 {
				return bad
			}
			p, a := mkX(c[0:4]), mkA(c[4:6])
			if op == "xAddMixed" {
				PX(&p).VAddMixed(&a)
			} else {
				PX(&p).VSubMixed(&a)
			}
			return outX(&p)
		case "xDoubleMixed", "xDoubleNegMixed":
			if len(c) != 2 {
				return bad
			}
			a := mkA(c)
			var p X // zero-value receiver, as in the library's own uses
			if op == "xDoubleMixed" {
				PX(&p).VDoubleMixed(&a)
			} else {
				PX(&p).VDoubleNegMixed(&a)
			}
			return outX(&p)
		}
		return bad
	}
}

func init() {
	c02ShimBind = func() {
		bindXYZZ("bn254.G1", bn254.G1JacExtended{}, bn254.G1Affine{}, bn254.G1Jac{}, bn254.VHasUnsafeFromJacExtendedG1)
		bindXYZZ("bn254.G2", bn254.G2JacExtended{}, bn254.G2Affine{}, bn254.G2Jac{}, bn254.VHasUnsafeFromJacExtendedG2)
		bindXYZZ("bls12-377.G1", bls12377.G1JacExtended{}, bls12377.G1Affine{}, bls12377.G1Jac{}, bls12377.VHasUnsafeFromJacExtendedG1)
		bindXYZZ("bls12-377.G2", bls12377.G2JacExtended{}, bls12377.G2Affine{}, bls12377.G2Jac{}, bls12377.VHasUnsafeFromJacExtendedG2)
		bindXYZZ("bls12-381.G1", bls12381.G1JacExtended{}, bls12381.G1Affine{}, bls12381.G1Jac{}, bls12381.VHasUnsafeFromJacExtendedG1)
		bindXYZZ("bls12-381.G2", bls12381.G2JacExtended{}, bls12381.G2Affine{}, bls12381.G2Jac{}, bls12381.VHasUnsafeFromJacExtendedG2)
		bindXYZZ("bls24-315.G1", bls24315.G1JacExtended{}, bls24315.G1Affine{}, bls24315.G1Jac{}, bls24315.VHasUnsafeFromJacExtendedG1)
		bindXYZZ("bls24-315.G2", bls24315.G2JacExtended{}, bls24315.G2Affine{}, bls24315.G2Jac{}, bls24315.VHasUnsafeFromJacExtendedG2)
		bindXYZZ("bls24-317.G1", bls24317.G1JacExtended{}, bls24317.G1Affine{}, bls24317.G1Jac{}, bls24317.VHasUnsafeFromJacExtendedG1)
		bindXYZZ("bls24-317.G2", bls24317.G2JacExtended{}, bls24317.G2Affine{}, bls24317.G2Jac{}, bls24317.VHasUnsafeFromJacExtendedG2)
		bindXYZZ("bw6-633.G1", bw6633.G1JacExtended{}, bw6633.G1Affine{}, bw6633.G1Jac{}, bw6633.VHasUnsafeFromJacExtendedG1)
		bindXYZZ("bw6-633.G2", bw6633.G2JacExtended{}, bw6633.G2Affine{}, bw6633.G2Jac{}, bw6633.VHasUnsafeFromJacExtendedG2)
		bindXYZZ("bw6-761.G1", bw6761.G1JacExtended{}, bw6761.G1Affine{}, bw6761.G1Jac{}, bw6761.VHasUnsafeFromJacExtendedG1)
		bindXYZZ("bw6-761.G2", bw6761.G2JacExtended{}, bw6761.G2Affine{}, bw6761.G2Jac{}, bw6761.VHasUnsafeFromJacExtendedG2)
		bindXYZZ("grumpkin.G1", grumpkin.G1JacExtended{}, grumpkin.G1Affine{}, grumpkin.G1Jac{}, grumpkin.VHasUnsafeFromJacExtendedG1)
		bindXYZZ("secp256k1.G1", secp256k1.G1JacExtended{}, secp256k1.G1Affine{}, secp256k1.G1Jac{}, secp256k1.VHasUnsafeFromJacExtendedG1)
		bindXYZZ("stark-curve.G1", starkcurve.G1JacExtended{}, starkcurve.G1Affine{}, starkcurve.G1Jac{}, starkcurve.VHasUnsafeFromJacExtendedG1)
	}
}
