package main

// C13 — limb-boundary lattice of map inputs (op `mapc`).
//
// The sign / zero predicates of the hash-to-curve packages (G<i>Sgn0, G<i>NotZero) are written limb by limb: sgn0 reads the
// limbs of the REGULAR form of u and of y, NotZero reads the limbs of the MONTGOMERY form of the SSWU intermediate
// tv2 = Z²u⁴ + Z·u².  Inputs such as 0, ±1, 2 or uniformly random elements never have a non-zero value confined to one limb
// (probability 2^-192 or less), so the generator adds, for every (curve, group) and in EVERY coordinate of u:
//   * values whose regular form has a boundary shape: 0, 1, 2, 2^(64i)−1, 2^(64i), 2^(64i)+1, exactly one non-zero limb j,
//     every limb but j non-zero, p−1, p−2, (p±1)/2, the top bit;
//   * values whose Montgomery form has that shape (u = l·R⁻¹ mod p);
//   * each combined with {0, 1, odd, even} in the other coordinates of an F_p² / F_p⁴ element;
//   * for SSWU: the inputs u whose tv2 has such a Montgomery form (solve Z²u⁴ + Z·u² = l·R⁻¹).
// The answers are checked against the model on the line's data: Q = MapToCurve(u) lies on the curve the map lands on,
// sgn0(y) = sgn0(u) (RFC 9380 §4.1), and for SSWU x(Q) ∈ {x1(u), Z·u²·x1(u)} (RFC 9380 §6.6.2).

import (
	"math/big"
)

func c13limbs(p *big.Int) int { return (p.BitLen() + 63) / 64 }

// boundary shapes of a canonical value < p, limb size 64
func c13Lattice(p *big.Int, r *rng) []*big.Int {
	n := c13limbs(p)
	one := big.NewInt(1)
	var res []*big.Int
	seen := map[string]bool{}
	add := func(v *big.Int) {
		if v.Sign() < 0 || v.Cmp(p) >= 0 || seen[v.Text(16)] {
			return
		}
		seen[v.Text(16)] = true
		res = append(res, new(big.Int).Set(v))
	}
	for _, v := range []int64{0, 1, 2, 3} {
		add(big.NewInt(v))
	}
	for i := 1; i < n; i++ {
		b := new(big.Int).Lsh(one, uint(64*i))
		add(new(big.Int).Sub(b, one))
		add(b)
		add(new(big.Int).Add(b, one))
	}
	limb := func() *big.Int {
		v := new(big.Int).SetBytes(r.bytes(8))
		return v.SetBit(v, 63, 1)
	}
	top := new(big.Int).Rsh(p, uint(64*(n-1))) // top limb of p
	for j := 0; j < n; j++ {
		sh := uint(64 * j)
		// exactly one non-zero limb: 1, a random full limb (odd and even), the largest possible
		ks := []*big.Int{one, limb(), new(big.Int).SetUint64(^uint64(0)), new(big.Int).SetUint64(1 << 63)}
		if j == n-1 {
			ks = []*big.Int{one, new(big.Int).Add(r.bigBelow(top), one), top, new(big.Int).Sub(top, one)}
		}
		for _, k := range ks {
			add(new(big.Int).Lsh(k, sh))
		}
		if j > 0 { // one non-zero high limb plus the parity bit
			add(new(big.Int).Add(new(big.Int).Lsh(one, sh), one))
		}
		// every limb non-zero except limb j
		v := r.bigBelow(p)
		for i := 0; i < n; i++ {
			if v.Bit(64*i) == 0 && i != n-1 {
				v.SetBit(v, 64*i+1, 1)
			}
		}
		mask := new(big.Int).Lsh(new(big.Int).SetUint64(^uint64(0)), sh)
		add(v.AndNot(v, mask))
	}
	pm1 := new(big.Int).Sub(p, one)
	add(pm1)
	add(new(big.Int).Sub(p, big.NewInt(2)))
	h := new(big.Int).Rsh(pm1, 1)
	add(h)
	add(new(big.Int).Add(h, one))
	tb := new(big.Int).Lsh(one, uint(p.BitLen()-1))
	add(tb)
	add(new(big.Int).Sub(tb, one))
	return res
}

// the values whose MONTGOMERY form (R = 2^(64·limbs)) is the lattice value: l·R⁻¹ mod p
func c13Mont(p *big.Int, lat []*big.Int) []*big.Int {
	R := new(big.Int).Lsh(big.NewInt(1), uint(64*c13limbs(p)))
	rInv := new(big.Int).ModInverse(R.Mod(R, p), p)
	res := make([]*big.Int, len(lat))
	for i, l := range lat {
		v := new(big.Int).Mul(l, rInv)
		res[i] = v.Mod(v, p)
	}
	return res
}

func c13LatticeBoth(p *big.Int, r *rng) []*big.Int {
	lat := c13Lattice(p, r)
	return append(lat, c13Mont(p, lat)...)
}

func c13RegLattice[E any, PE c13Fld[E], A any, PA c13Pt[A]](g *c13Group, tower, kind string, aE, bE, zSvdw E,
	mapToCurve func(E) A, zf func() E, iso func() (E, E)) {
	m := g.m
	a2, b2, z := aE, bE, zSvdw
	if kind == "sswu" {
		a2, b2 = iso()
		z = zf()
	}
	g.cparams = tower + " " + hexBig(g.p) + " " + c13list(c13coords(&a2)) + " " + c13list(c13coords(&b2)) + " " + kind + " " + c13list(c13coords(&z))
	var one E
	{
		cs := make([]*big.Int, m)
		for i := range cs {
			cs[i] = new(big.Int)
		}
		cs[0] = big.NewInt(1)
		c13set(&one, cs)
	}
	g.mapC = func(uc []*big.Int) (string, bool, bool, bool) {
		var u, x, y E
		c13set(&u, uc)
		Q := mapToCurve(u)
		pt := "inf"
		qc := c13coords(&Q)
		if !PA(&Q).IsInfinity() {
			pt = c13list(qc[:m]) + ";" + c13list(qc[m:])
		}
		c13set(&x, qc[:m])
		c13set(&y, qc[m:])
		// on y² = (x² + a')·x + b'
		var l, r E
		PE(&l).Square(&y)
		PE(&r).Square(&x)
		PE(&r).Add(&r, &a2)
		PE(&r).Mul(&r, &x)
		PE(&r).Add(&r, &b2)
		on := PE(&l).Equal(&r)
		sgn := PE(&y).IsZero() || c13sgn0(c13coords(&u)) == c13sgn0(qc[m:])
		xin := true
		if kind == "sswu" {
			// tv1 = Z·u², tv2 = tv1² + tv1, x1 = B'(tv2 + 1)/(A'·(tv2 ≠ 0 ? −tv2 : Z)), x2 = tv1·x1
			var tv1, tv2, num, den, x1, x2 E
			PE(&tv1).Square(&u)
			PE(&tv1).Mul(&tv1, &z)
			PE(&tv2).Square(&tv1)
			PE(&tv2).Add(&tv2, &tv1)
			PE(&num).Add(&tv2, &one)
			PE(&num).Mul(&num, &b2)
			if PE(&tv2).IsZero() {
				den = z
			} else {
				PE(&den).Neg(&tv2)
			}
			PE(&den).Mul(&den, &a2)
			PE(&den).Inverse(&den)
			PE(&x1).Mul(&num, &den)
			PE(&x2).Mul(&tv1, &x1)
			xin = PE(&x).Equal(&x1) || PE(&x).Equal(&x2)
		}
		return pt, on, sgn, xin
	}
	// the inputs u with Z²u⁴ + Z·u² = c: t² + t = c, t = (−1 ± sqrt(1 + 4c))/2, u = ± sqrt(t/Z)
	g.tv2pre = func(cc []*big.Int) [][]*big.Int {
		if kind != "sswu" {
			return nil
		}
		var c, disc, sq, t, u2, zi, two, ti, u, nu E
		c13set(&c, cc)
		PE(&two).Add(&one, &one)
		PE(&ti).Inverse(&two)
		PE(&zi).Inverse(&z)
		PE(&disc).Add(&c, &c)
		PE(&disc).Add(&disc, &disc)
		PE(&disc).Add(&disc, &one)
		if PE(&disc).IsZero() || PE(&disc).Legendre() != 1 {
			return nil
		}
		PE(&sq).Sqrt(&disc)
		var res [][]*big.Int
		for k := 0; k < 2; k++ {
			PE(&t).Sub(&sq, &one)
			PE(&t).Mul(&t, &ti)
			PE(&u2).Mul(&t, &zi)
			if !PE(&u2).IsZero() && PE(&u2).Legendre() == 1 {
				PE(&u).Sqrt(&u2)
				PE(&nu).Neg(&u)
				// only genuine preimages (a wrong Sqrt must not produce spurious inputs)
				var chk E
				PE(&chk).Square(&u)
				if PE(&chk).Equal(&u2) {
					res = append(res, c13coords(&u), c13coords(&nu))
				}
			}
			PE(&sq).Neg(&sq)
		}
		return res
	}
}

func c13GenLattice(g *gen, key string, gr *c13Group) {
	lat := c13Lattice(gr.p, g.rng)
	mont := c13Mont(gr.p, lat)
	all := append(append([]*big.Int{}, lat...), mont...)
	m := gr.m
	other := func(class int) *big.Int {
		switch class {
		case 0:
			return new(big.Int)
		case 1:
			return big.NewInt(1)
		case 2:
			v := g.rng.bigBelow(gr.p)
			return v.SetBit(v, 0, 1)
		}
		v := g.rng.bigBelow(gr.p)
		return v.SetBit(v, 0, 0)
	}
	var us [][]*big.Int
	for c := 0; c < m; c++ {
		for _, l := range all {
			for class := 0; class < 4; class++ {
				u := make([]*big.Int, m)
				for i := range u {
					u[i] = other(class)
				}
				u[c] = l
				// u = 0 is the exceptional input of every map: it belongs to the `map` lines (see the report: on bls12-377 G1 and
				// bw6-761 G1 MapToCurve1(0) = (0,0), which is not on the isogenous curve)
				if !(l.Sign() == 0 && class == 0) {
					us = append(us, u)
				}
				if m == 1 {
					break
				}
			}
		}
	}
	if g.thorough() && m > 1 { // lattice × lattice in the first two coordinates
		for _, l0 := range all {
			for _, l1 := range all {
				u := make([]*big.Int, m)
				for i := range u {
					u[i] = other(g.rng.intn(4))
				}
				u[0], u[1] = l0, l1
				us = append(us, u)
			}
		}
	}
	// SSWU: tv2 with a boundary-shaped Montgomery form, in each coordinate
	for c := 0; c < m; c++ {
		for _, l := range mont {
			if l.Sign() == 0 {
				continue // tv2 = 0: the exceptional inputs of `special()`
			}
			cc := make([]*big.Int, m)
			for i := range cc {
				cc[i] = new(big.Int)
			}
			cc[c] = l
			us = append(us, gr.tv2pre(cc)...)
		}
	}
	// bls24 G2 does not follow the RFC sign convention (known finding, tied to the `map`/`distinct` lines): a sample through `map`
	if m == 4 {
		for i := 0; i < g.budget(12, 400); i++ {
			u := us[g.rng.intn(len(us))]
			pt, _, _, _ := gr.mapTo(u)
			g.emit("C13 map %s %s %s %s", key, gr.params, c13list(u), pt)
		}
		return
	}
	for _, u := range us {
		pt, _, _, _ := gr.mapC(u)
		g.emit("C13 mapc %s %s %s %s", key, gr.cparams, c13list(u), pt)
	}
}
