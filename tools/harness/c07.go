package main

// C07 — point and stream codecs (ecc/<curve>/marshal.go): executors and generator.
//
//	C07 params <curve>                          constants of the curve as the library holds them
//	C07 enc <curve> <G1|G2> <c|r> <pt>          Bytes() / RawBytes() (cross-checked with Marshal())
//	C07 dec <curve> <G1|G2> <sub> <hex>         SetBytes (sub=1, cross-checked with Unmarshal and Decoder) /
//	                                            Decoder+NoSubgroupChecks (sub=0)   → ok <pt> <consumed> | err:<class>
//	C07 senc <curve> <raw> <items…>             Encoder.Encode of every item → <BytesWritten> <hex>
//	C07 sdec <curve> <sub> <chunk> <types,> <hex>   Decoder.Decode into fresh values of the given types through a reader
//	                                            that returns 1 / 7 / all bytes per Read (or data together with EOF)
//	                                            → <item>… [err:<class>] n=<BytesRead> c=<bytes taken from the reader>
//
//	C07 sencw <curve> <raw> <budgets,> <items…>  Encode calls on ONE Encoder whose writer accepts the byte budgets one after
//	                                            the other (a Write that exceeds the current budget gets the bytes that fit
//	                                            and an error, the writer goes on with the next budget; none left: every
//	                                            Write fails) → <ok|err per call,> w=<bytes accepted> <hex accepted>
//	C07 sencn <curve> <raw> <budgets,> <items…>  same history → n=<advance of BytesWritten per call,>; a call whose advance
//	                                            differs from the bytes accepted is shown as
//	                                            <accepted>!<difference>@<len of the failed Write>:<accepted of it>
//
// histories on re-used destinations (the by-value model answers for the LAST stream only):
//	C07 dec  … <pt>><hex>                       the receiver / Decode target holds <pt> before the call
//	C07 sdec … <hexA>><hexB>[><hexC>…]           every stream is decoded (fresh Decoder each) into the SAME destination
//	                                            variables, one per type; the answer describes the last stream
//
// histories on ONE Decoder object: a single-stream sdec whose <hex> is the concatenation of segments written by
// different Encoders (compressed / raw / per-point mixed frames); a type token `ty@slot` names the destination variable:
// equal tokens share one variable along the calls (same Decoder AND same destination); the model ignores the slot
//
// points: inf | x;y  coordinates: base-field components in natural order (A0,A1 / B0.A0,B0.A1,B1.A0,B1.A1), hex
// items:  u8:ff u16: u32: u64:  fr:<hex> fp:<hex>  g1:<pt> g2:<pt>  g1s:<pt>|<pt> (empty: -)  frs:a,b (empty: -)
//         frss:a,b/c (empty list: =)  frsss:a,b/c+d (empty: ~)  u64s:  u64ss:

import (
	"bytes"
	"errors"
	"fmt"
	"io"
	"math/big"
	"sort"
	"strings"
)

type c07Pt struct {
	inf  bool
	x, y []*big.Int
}

type c07Group struct {
	name        string
	nc          int
	sizeC       int
	hasComp     bool
	enc         func(c07Pt) []byte
	encRaw      func(c07Pt) []byte
	marshal     func(c07Pt) []byte
	setBytes    func([]byte) (c07Pt, int, error)
	unmarshal   func([]byte) (c07Pt, error)
	gen         func() c07Pt
	bcoeff      func() []*big.Int
	lift        func(x []*big.Int) (c07Pt, bool)
	onCurve     func(c07Pt) bool
	inSub       func(c07Pt) bool
	mul         func(c07Pt, *big.Int) c07Pt
	mkPtr       func(c07Pt) any
	mkSlice     func([]c07Pt) any
	mkSlicePtr  func([]c07Pt) any // *[]G?Affine handed to Encode
	newPtr      func() any
	ptrVal      func(any) c07Pt
	newSlicePtr func() any
	sliceVal    func(any) []c07Pt
}

type c07Field struct {
	bytes       int
	modulus     *big.Int
	mkPtr       func(*big.Int) any
	newPtr      func() any
	ptrVal      func(any) *big.Int
	mkSlice     func([]*big.Int) any
	newSlicePtr func() any
	sliceVal    func(any) []*big.Int
	mkVec       func([]*big.Int) any // fr.Vector value
	mkVecPtr    func([]*big.Int) any // *fr.Vector (io.WriterTo path)
	newVecPtr   func() any           // *fr.Vector (io.ReaderFrom path)
	vecVal      func(any) []*big.Int
	mkSS        func([][]*big.Int) any
	newSSPtr    func() any
	ssVal       func(any) [][]*big.Int
	mkSSS       func([][][]*big.Int) any
	newSSSPtr   func() any
	sssVal      func(any) [][][]*big.Int
}

type c07Curve struct {
	name       string
	fpName     string
	frName     string
	layout     int
	a          int
	hasStream  bool
	fullTypes  bool
	g1, g2     *c07Group
	nonres     [][]*big.Int
	fr, fp     *c07Field
	newDecoder func(io.Reader, bool) (func(any) error, func() int64)
	newEncoder func(io.Writer, bool) (func(any) error, func() int64)
}

var c07Curves = map[string]*c07Curve{}
var c07CurveNames []string

func init() {
	executors["C07"] = execC07
	generators["C07"] = genC07
}

// ---------------------------------------------------------------------------------------------- rendering

func c07Comps(v []*big.Int) string {
	s := make([]string, len(v))
	for i := range v {
		s[i] = hexBig(v[i])
	}
	return strings.Join(s, ",")
}
func c07ParseComps(s string) []*big.Int {
	var r []*big.Int
	for _, t := range strings.Split(s, ",") {
		r = append(r, parseBig(t))
	}
	return r
}
func (p c07Pt) String() string {
	if p.inf {
		return "inf"
	}
	return c07Comps(p.x) + ";" + c07Comps(p.y)
}
func c07ParsePt(s string, nc int) (c07Pt, bool) {
	if s == "inf" {
		return c07Pt{inf: true}, true
	}
	f := strings.Split(s, ";")
	if len(f) != 2 {
		return c07Pt{}, false
	}
	p := c07Pt{x: c07ParseComps(f[0]), y: c07ParseComps(f[1])}
	return p, len(p.x) == nc && len(p.y) == nc
}

func c07Err(err error) string {
	if err == nil {
		return "ok"
	}
	m := err.Error()
	switch {
	case errors.Is(err, io.ErrShortBuffer), errors.Is(err, io.EOF), errors.Is(err, io.ErrUnexpectedEOF):
		return "err:short"
	case strings.Contains(m, "invalid point encoding"):
		return "err:flag"
	case strings.Contains(m, "invalid infinity point encoding"):
		return "err:inf"
	case strings.Contains(m, "Element encoding"):
		return "err:noncanon"
	case strings.Contains(m, "square root doesn't exist"):
		return "err:nosqrt"
	case strings.Contains(m, "subgroup check failed"):
		return "err:subgroup"
	case strings.Contains(m, "point decompression failed"):
		return "err:batch"
	}
	return "err:other"
}

func (c *c07Curve) group(s string) *c07Group {
	switch s {
	case "G1":
		return c.g1
	case "G2":
		return c.g2
	}
	return nil
}

// ---------------------------------------------------------------------------------------------- executors

func execC07(a []string) string {
	if len(a) < 2 {
		return "bad-op"
	}
	if a[0] == "ted" {
		return execC07Ted(a)
	}
	c := c07Curves[a[1]]
	if c == nil {
		return "bad-op"
	}
	switch a[0] {
	case "params":
		return c07Params(c)
	case "enc":
		if len(a) != 5 {
			return "bad-op"
		}
		g := c.group(a[2])
		if g == nil {
			return "bad-op"
		}
		p, ok := c07ParsePt(a[4], g.nc)
		if !ok {
			return "bad-op"
		}
		if a[3] == "c" {
			if !g.hasComp {
				return "bad-op"
			}
			return hexBytes(g.enc(p))
		}
		b := g.encRaw(p)
		if g.marshal != nil && !bytes.Equal(b, g.marshal(p)) {
			return "inconsistent:marshal"
		}
		return hexBytes(b)
	case "dec":
		if len(a) != 5 {
			return "bad-op"
		}
		g := c.group(a[2])
		if g == nil {
			return "bad-op"
		}
		if i := strings.IndexByte(a[4], '>'); i >= 0 {
			prev, ok := c07ParsePt(a[4][:i], g.nc)
			if !ok {
				return "bad-op"
			}
			return c07Dec(c, g, a[3] == "1", parseBytes(a[4][i+1:]), &prev)
		}
		return c07Dec(c, g, a[3] == "1", parseBytes(a[4]), nil)
	case "insub":
		// IsInSubGroup() of an on-curve point against [r]P = O computed with the library's plain Jacobian add/double
		if len(a) != 4 {
			return "bad-op"
		}
		g := c.group(a[2])
		if g == nil {
			return "bad-op"
		}
		p, ok := c07ParsePt(a[3], g.nc)
		if !ok || !g.onCurve(p) {
			return "bad-op"
		}
		return boolStr(g.inSub(p)) + " " + boolStr(g.mul(p, c.fr.modulus).inf)
	case "senc":
		if len(a) < 3 || !c.hasStream {
			return "bad-op"
		}
		return c07Senc(c, a[2] == "1", a[3:])
	case "sencw", "sencn":
		if len(a) < 5 || !c.hasStream {
			return "bad-op"
		}
		return c07SencFail(c, a[0] == "sencn", a[2] == "1", a[3], a[4:])
	case "cdec":
		cp := c07Composites[c.name]
		if len(a) != 5 || cp == nil {
			return "bad-op"
		}
		var streams [][]byte
		for _, h := range strings.Split(a[4], ">") {
			streams = append(streams, c07ParseStream(c.g2 != nil && c.g2.nc == 1, c.fp.bytes/8, h))
		}
		return c07Cdec(cp, a[2], a[3], streams)
	case "cenc":
		cp := c07Composites[c.name]
		if len(a) != 6 || cp == nil {
			return "bad-op"
		}
		return c07Cenc(cp, a[2], a[3] == "1", a[4], c07ParseStream(c.g2 != nil && c.g2.nc == 1, c.fp.bytes/8, a[5]))
	case "sdec":
		if len(a) != 6 || !c.hasStream {
			return "bad-op"
		}
		var streams [][]byte
		for _, h := range strings.Split(a[5], ">") {
			streams = append(streams, parseBytes(h))
		}
		return c07Sdec(c, a[2] == "1", a[3], strings.Split(a[4], ","), streams)
	}
	return "bad-op"
}

func c07Params(c *c07Curve) string {
	var sb strings.Builder
	fmt.Fprintf(&sb, "L=%d a=%d fp=%s fr=%s fb=%d g1b=%s", c.layout, c.a, hexBig(c.fp.modulus), hexBig(c.fr.modulus), c.fp.bytes, c07Comps(c.g1.bcoeff()))
	if c.g2 != nil {
		fmt.Fprintf(&sb, " g2nc=%d g2b=%s", c.g2.nc, c07Comps(c.g2.bcoeff()))
		for _, n := range c.nonres {
			fmt.Fprintf(&sb, " nr=%s", c07Comps(n))
		}
	}
	return sb.String()
}

func c07Dec(c *c07Curve, g *c07Group, sub bool, buf []byte, prev *c07Pt) string {
	// receiver: fresh, or holding a previous value (decode history)
	recv := func() any {
		if prev == nil {
			return g.newPtr()
		}
		return g.mkPtr(*prev)
	}
	viaDecoder := func() (c07Pt, int64, error) {
		r := bytes.NewReader(buf)
		dec, n := c.newDecoder(r, sub)
		v := recv()
		err := dec(v)
		return g.ptrVal(v), n(), err
	}
	if !sub {
		if !c.hasStream {
			return "bad-op"
		}
		p, n, err := viaDecoder()
		if err != nil {
			return c07Err(err)
		}
		return fmt.Sprintf("ok %s %x", p, n)
	}
	var p c07Pt
	var n int
	var err error
	if prev == nil {
		p, n, err = g.setBytes(buf)
	} else {
		v := recv()
		sb, ok := v.(interface{ SetBytes([]byte) (int, error) })
		if !ok {
			return "bad-op"
		}
		n, err = sb.SetBytes(buf)
		p = g.ptrVal(v)
	}
	res := c07Err(err)
	if err == nil {
		res = fmt.Sprintf("ok %s %x", p, n)
	}
	if g.unmarshal != nil {
		var p2 c07Pt
		var err2 error
		if prev == nil {
			p2, err2 = g.unmarshal(buf)
		} else {
			v := recv()
			um, ok := v.(interface{ Unmarshal([]byte) error })
			if !ok {
				return "bad-op"
			}
			err2 = um.Unmarshal(buf)
			p2 = g.ptrVal(v)
		}
		if (err2 == nil) != (err == nil) || (err == nil && p2.String() != p.String()) {
			return "inconsistent:unmarshal " + res
		}
	}
	if c.hasStream {
		p3, n3, err3 := viaDecoder()
		if (err3 == nil) != (err == nil) || (err == nil && (p3.String() != p.String() || int(n3) != n)) {
			return "inconsistent:decoder " + res + " / " + c07Err(err3)
		}
		if err != nil && c07Err(err3) != res {
			return "inconsistent:decoder-class " + res + " / " + c07Err(err3)
		}
	}
	return res
}

// nested lists: level separators "," "/" "+", empty markers "-" "=" "~"
func c07Parse1(s string) []*big.Int {
	if s == "-" {
		return []*big.Int{}
	}
	return c07ParseComps(s)
}
func c07Parse2(s string) [][]*big.Int {
	r := [][]*big.Int{}
	if s == "=" {
		return r
	}
	for _, t := range strings.Split(s, "/") {
		r = append(r, c07Parse1(t))
	}
	return r
}
func c07Parse3(s string) [][][]*big.Int {
	r := [][][]*big.Int{}
	if s == "~" {
		return r
	}
	for _, t := range strings.Split(s, "+") {
		r = append(r, c07Parse2(t))
	}
	return r
}
func c07Show1(v []*big.Int) string {
	if len(v) == 0 {
		return "-"
	}
	return c07Comps(v)
}
func c07Show2(v [][]*big.Int) string {
	if len(v) == 0 {
		return "="
	}
	s := make([]string, len(v))
	for i := range v {
		s[i] = c07Show1(v[i])
	}
	return strings.Join(s, "/")
}
func c07Show3(v [][][]*big.Int) string {
	if len(v) == 0 {
		return "~"
	}
	s := make([]string, len(v))
	for i := range v {
		s[i] = c07Show2(v[i])
	}
	return strings.Join(s, "+")
}
func c07ParsePts(s string, nc int) ([]c07Pt, bool) {
	r := []c07Pt{}
	if s == "-" {
		return r, true
	}
	for _, t := range strings.Split(s, "|") {
		p, ok := c07ParsePt(t, nc)
		if !ok {
			return nil, false
		}
		r = append(r, p)
	}
	return r, true
}
func c07ShowPts(v []c07Pt) string {
	if len(v) == 0 {
		return "-"
	}
	s := make([]string, len(v))
	for i := range v {
		s[i] = v[i].String()
	}
	return strings.Join(s, "|")
}
func c07U64s(v []*big.Int) []uint64 {
	r := make([]uint64, len(v))
	for i := range v {
		r[i] = v[i].Uint64()
	}
	return r
}
func c07BigU64s(v []uint64) []*big.Int {
	r := make([]*big.Int, len(v))
	for i := range v {
		r[i] = new(big.Int).SetUint64(v[i])
	}
	return r
}

// the Go value handed to Encoder.Encode for an item
func c07EncArg(c *c07Curve, item string) (any, bool) {
	i := strings.IndexByte(item, ':')
	if i < 0 {
		return nil, false
	}
	k, s := item[:i], item[i+1:]
	switch k {
	case "u8":
		return uint8(parseBig(s).Uint64()), true
	case "u16":
		return uint16(parseBig(s).Uint64()), true
	case "u32":
		return uint32(parseBig(s).Uint64()), true
	case "u64":
		return parseBig(s).Uint64(), true
	case "fr":
		return c.fr.mkPtr(parseBig(s)), true
	case "fp":
		return c.fp.mkPtr(parseBig(s)), true
	case "g1", "g2":
		g := c.g1
		if k == "g2" {
			g = c.g2
		}
		if g == nil {
			return nil, false
		}
		p, ok := c07ParsePt(s, g.nc)
		return g.mkPtr(p), ok
	case "g1s", "g2s", "g1sp", "g2sp":
		g := c.g1
		if strings.HasPrefix(k, "g2") {
			g = c.g2
		}
		if g == nil {
			return nil, false
		}
		ps, ok := c07ParsePts(s, g.nc)
		if strings.HasSuffix(k, "p") {
			return g.mkSlicePtr(ps), ok && c.fullTypes
		}
		return g.mkSlice(ps), ok
	case "frs":
		return c.fr.mkSlice(c07Parse1(s)), true
	case "fps":
		return c.fp.mkSlice(c07Parse1(s)), true
	case "frv":
		return c.fr.mkVec(c07Parse1(s)), c.fullTypes
	case "frvp":
		return c.fr.mkVecPtr(c07Parse1(s)), c.fullTypes
	case "fpv":
		return c.fp.mkVec(c07Parse1(s)), c.fullTypes
	case "frss":
		return c.fr.mkSS(c07Parse2(s)), c.fullTypes
	case "frsss":
		return c.fr.mkSSS(c07Parse3(s)), c.fullTypes
	case "u64s":
		return c07U64s(c07Parse1(s)), c.fullTypes
	case "u64ss":
		v := c07Parse2(s)
		r := make([][]uint64, len(v))
		for i := range v {
			r[i] = c07U64s(v[i])
		}
		return r, c.fullTypes
	}
	return nil, false
}

func c07Senc(c *c07Curve, raw bool, items []string) string {
	var buf bytes.Buffer
	enc, n := c.newEncoder(&buf, raw)
	for _, it := range items {
		v, ok := c07EncArg(c, it)
		if !ok {
			return "bad-op"
		}
		if err := enc(v); err != nil {
			return "err"
		}
	}
	if int(n()) != buf.Len() {
		return fmt.Sprintf("inconsistent:written %d %d", n(), buf.Len())
	}
	return fmt.Sprintf("%x %s", n(), hexBytes(buf.Bytes()))
}

// io.Writer with byte budgets: accepts bytes until the current budget is used up; the Write that asks for more gets
// the bytes that fit and errC07Write, and the writer goes on with the next budget. No budget left: every non-empty
// Write fails with nothing accepted. It follows the io.Writer contract (n < len(p) only together with an error).
type c07Sink struct {
	budgets []int
	got     []byte
	calls   [][2]int // per Write: len(p), accepted
	failLen int      // the last failed Write: len(p), accepted
	failAcc int
}

var errC07Write = errors.New("c07: writer failed")

func (s *c07Sink) Write(p []byte) (int, error) {
	if len(p) == 0 {
		return 0, nil
	}
	if len(s.budgets) == 0 {
		s.failLen, s.failAcc = len(p), 0
		return 0, errC07Write
	}
	b := s.budgets[0]
	if len(p) <= b {
		s.budgets[0] = b - len(p)
		s.got = append(s.got, p...)
		s.calls = append(s.calls, [2]int{len(p), len(p)})
		return len(p), nil
	}
	s.budgets = s.budgets[1:]
	s.got = append(s.got, p[:b]...)
	s.calls = append(s.calls, [2]int{len(p), b})
	s.failLen, s.failAcc = len(p), b
	return b, errC07Write
}

func c07ParseBudgets(s string) ([]int, bool) {
	if s == "-" {
		return nil, true
	}
	var r []int
	for _, t := range strings.Split(s, ",") {
		v, ok := new(big.Int).SetString(t, 16)
		if !ok || !v.IsInt64() || v.Sign() < 0 || v.Int64() > 1<<40 {
			return nil, false
		}
		r = append(r, int(v.Int64()))
	}
	return r, true
}

func c07SencFail(c *c07Curve, counter, raw bool, buds string, items []string) string {
	budgets, ok := c07ParseBudgets(buds)
	if !ok {
		return "bad-op"
	}
	sink := &c07Sink{budgets: budgets}
	enc, n := c.newEncoder(sink, raw)
	var flags, ns []string
	for _, it := range items {
		v, ok := c07EncArg(c, it)
		if !ok {
			return "bad-op"
		}
		n0, w0 := n(), len(sink.got)
		err := enc(v)
		dn, dw := int(n()-n0), len(sink.got)-w0
		if err != nil {
			flags = append(flags, "err")
		} else {
			flags = append(flags, "ok")
		}
		if dn == dw {
			ns = append(ns, fmt.Sprintf("%x", dw))
		} else {
			ns = append(ns, fmt.Sprintf("%x!%+d@%d:%d", dw, dn-dw, sink.failLen, sink.failAcc))
		}
	}
	if counter {
		return "n=" + strings.Join(ns, ",")
	}
	return fmt.Sprintf("%s w=%x %s", strings.Join(flags, ","), len(sink.got), hexBytes(sink.got))
}

// byte source with a read position and the reader behaviours of testing/iotest, without read-ahead:
// "0" everything asked for, "1" one byte per Read, "7" at most 7 bytes, "h" half of what is asked for,
// "d" the last bytes are returned together with io.EOF
type c07Src struct {
	b    []byte
	pos  int
	mode string
}

func (s *c07Src) Read(p []byte) (int, error) {
	if len(p) == 0 {
		return 0, nil
	}
	if s.pos >= len(s.b) {
		return 0, io.EOF
	}
	n := len(p)
	switch s.mode {
	case "1":
		n = 1
	case "7":
		if n > 7 {
			n = 7
		}
	case "h":
		n = (n + 1) / 2
	}
	n = copy(p[:n], s.b[s.pos:])
	s.pos += n
	if s.mode == "d" && s.pos == len(s.b) {
		return n, io.EOF
	}
	return n, nil
}

// fresh target of a type and its rendering after Decode
func c07Target(c *c07Curve, ty string) (any, func() string) {
	switch ty {
	case "u8":
		v := new(uint8)
		return v, func() string { return fmt.Sprintf("u8:%x", *v) }
	case "u16":
		v := new(uint16)
		return v, func() string { return fmt.Sprintf("u16:%x", *v) }
	case "u32":
		v := new(uint32)
		return v, func() string { return fmt.Sprintf("u32:%x", *v) }
	case "u64":
		v := new(uint64)
		return v, func() string { return fmt.Sprintf("u64:%x", *v) }
	case "fr":
		v := c.fr.newPtr()
		return v, func() string { return "fr:" + hexBig(c.fr.ptrVal(v)) }
	case "fp":
		v := c.fp.newPtr()
		return v, func() string { return "fp:" + hexBig(c.fp.ptrVal(v)) }
	case "g1", "g2":
		g := c.g1
		if ty == "g2" {
			g = c.g2
		}
		if g == nil {
			return nil, nil
		}
		v := g.newPtr()
		return v, func() string { return ty + ":" + g.ptrVal(v).String() }
	case "g1s", "g2s", "g1sp", "g2sp":
		g := c.g1
		if strings.HasPrefix(ty, "g2") {
			g = c.g2
		}
		if g == nil || (strings.HasSuffix(ty, "p") && !c.fullTypes) {
			return nil, nil
		}
		v := g.newSlicePtr()
		return v, func() string { return ty[:3] + ":" + c07ShowPts(g.sliceVal(v)) }
	case "frs":
		v := c.fr.newSlicePtr()
		return v, func() string { return "frs:" + c07Show1(c.fr.sliceVal(v)) }
	case "fps":
		v := c.fp.newSlicePtr()
		return v, func() string { return "fps:" + c07Show1(c.fp.sliceVal(v)) }
	}
	if !c.fullTypes {
		return nil, nil
	}
	switch ty {
	case "frv", "frvp":
		// fr.Vector / *fr.Vector: same wire format and model type as []fr.Element
		v := c.fr.newVecPtr()
		return v, func() string { return "frs:" + c07Show1(c.fr.vecVal(v)) }
	case "fpv":
		v := c.fp.newVecPtr()
		return v, func() string { return "fps:" + c07Show1(c.fp.vecVal(v)) }
	case "frss":
		v := c.fr.newSSPtr()
		return v, func() string { return "frss:" + c07Show2(c.fr.ssVal(v)) }
	case "frsss":
		v := c.fr.newSSSPtr()
		return v, func() string { return "frsss:" + c07Show3(c.fr.sssVal(v)) }
	case "u64s":
		v := new([]uint64)
		return v, func() string { return "u64s:" + c07Show1(c07BigU64s(*v)) }
	case "u64ss":
		v := new([][]uint64)
		return v, func() string {
			r := make([][]*big.Int, len(*v))
			for i := range *v {
				r[i] = c07BigU64s((*v)[i])
			}
			return "u64ss:" + c07Show2(r)
		}
	}
	return nil, nil
}

func c07Sdec(c *c07Curve, sub bool, chunk string, types []string, streams [][]byte) string {
	switch chunk {
	case "0", "1", "7", "h", "d":
	default:
		return "bad-op"
	}
	if len(streams) == 0 {
		return "bad-op"
	}
	// one destination variable per type, shared by all the streams of a history
	// a token `ty@slot` names the destination: equal tokens share ONE variable along the calls made on one Decoder
	vals := make([]any, len(types))
	shows := make([]func() string, len(types))
	slotV := map[string]any{}
	slotS := map[string]func() string{}
	for i, ty := range types {
		if j := strings.IndexByte(ty, '@'); j >= 0 {
			if v, ok := slotV[ty]; ok {
				vals[i], shows[i] = v, slotS[ty]
				continue
			}
			vals[i], shows[i] = c07Target(c, ty[:j])
			slotV[ty], slotS[ty] = vals[i], shows[i]
		} else {
			vals[i], shows[i] = c07Target(c, ty)
		}
		if vals[i] == nil {
			return "bad-op"
		}
	}
	var out []string
	for _, buf := range streams {
		br := &c07Src{b: buf, mode: chunk}
		dec, n := c.newDecoder(br, sub)
		out = out[:0]
		for i := range types {
			if err := dec(vals[i]); err != nil {
				out = append(out, c07Err(err))
				break
			}
			out = append(out, shows[i]())
		}
		out = append(out, fmt.Sprintf("n=%x c=%x", n(), br.pos))
	}
	return strings.Join(out, " ")
}

// ---------------------------------------------------------------------------------------------- generator

type c07Gen struct {
	g *gen
	c *c07Curve
}

func (x *c07Gen) randScalar() *big.Int { return x.g.rng.bigBelow(x.c.fr.modulus) }

// random point of the prime-order subgroup
func (x *c07Gen) subPoint(g *c07Group) c07Pt {
	switch x.g.rng.intn(12) {
	case 0:
		return g.gen()
	case 1:
		return g.mul(g.gen(), new(big.Int).Sub(x.c.fr.modulus, big.NewInt(1)))
	}
	return g.mul(g.gen(), x.randScalar())
}

func (x *c07Gen) randComps(g *c07Group) []*big.Int {
	r := make([]*big.Int, g.nc)
	for i := range r {
		r[i] = x.g.rng.bigBelow(x.c.fp.modulus)
		if g.nc > 1 && x.g.rng.intn(6) == 0 {
			r[i] = new(big.Int)
		}
	}
	return r
}

// random point of the curve (outside the subgroup with overwhelming probability when the cofactor is not 1)
func (x *c07Gen) curvePoint(g *c07Group) c07Pt {
	for {
		if p, ok := g.lift(x.randComps(g)); ok {
			if x.g.rng.coin() {
				p = g.mul(p, big.NewInt(3)) // another curve point
			}
			if !p.inf {
				return p
			}
		}
	}
}

// an x without point (x³+ax+b is not a square)
func (x *c07Gen) noSqrtX(g *c07Group) []*big.Int {
	for {
		xs := x.randComps(g)
		if _, ok := g.lift(xs); !ok {
			return xs
		}
	}
}

// point of order 2, when a small integer root of x³+ax+b exists (b = ±1, 8, …)
func (x *c07Gen) twoTorsion(g *c07Group) (c07Pt, bool) {
	p := x.c.fp.modulus
	for i := int64(-64); i <= 64; i++ {
		xs := make([]*big.Int, g.nc)
		for j := range xs {
			xs[j] = new(big.Int)
		}
		xs[0] = new(big.Int).Mod(big.NewInt(i), p)
		if q, ok := g.lift(xs); ok {
			zero := true
			for _, y := range q.y {
				if y.Sign() != 0 {
					zero = false
				}
			}
			if zero {
				return q, true
			}
		}
	}
	return c07Pt{}, false
}

func c07PutComps(fb int, comps []*big.Int) []byte {
	var b []byte
	for i := len(comps) - 1; i >= 0; i-- { // marshal order: most significant component first
		t := make([]byte, fb)
		comps[i].FillBytes(t)
		b = append(b, t...)
	}
	return b
}

// hand-made frame: flag bits, x components, optional y components (values may be ≥ p, up to the byte size)
func (x *c07Gen) frame(g *c07Group, flag byte, xs, ys []*big.Int) []byte {
	fb := x.c.fp.bytes
	b := c07PutComps(fb, xs)
	b[0] |= flag
	if ys != nil {
		b = append(b, c07PutComps(fb, ys)...)
	}
	return b
}

func (x *c07Gen) flags() []byte {
	switch x.c.layout {
	case 2:
		return []byte{0x00, 0x40, 0x80, 0xc0}
	case 3:
		return []byte{0x00, 0x20, 0x40, 0x60, 0x80, 0xa0, 0xc0, 0xe0}
	}
	return []byte{0}
}

func zerosBig(n int) []*big.Int {
	r := make([]*big.Int, n)
	for i := range r {
		r[i] = new(big.Int)
	}
	return r
}

func (x *c07Gen) emitDec(g *c07Group, buf []byte) {
	x.g.emit("C07 dec %s %s 1 %s", x.c.name, g.name, hexBytes(buf))
	if x.c.hasStream {
		x.g.emit("C07 dec %s %s 0 %s", x.c.name, g.name, hexBytes(buf))
	}
}

func (x *c07Gen) pointOps(g *c07Group) {
	c := x.c
	rg := x.g.rng
	p := c.fp.modulus
	fb := c.fp.bytes
	_, _ = p, fb
	nValid := x.g.budget(3, 12)
	// 1. valid elements: encode both modes, decode what the library wrote, trailing bytes, every truncation class
	pts := []c07Pt{{inf: true}, g.gen()}
	for i := 0; i < nValid; i++ {
		pts = append(pts, x.subPoint(g))
	}
	for _, q := range pts {
		if g.hasComp {
			x.g.emit("C07 enc %s %s c %s", c.name, g.name, q)
		}
		x.g.emit("C07 enc %s %s r %s", c.name, g.name, q)
		var encs [][]byte
		if g.hasComp {
			encs = append(encs, g.enc(q))
		}
		encs = append(encs, g.encRaw(q))
		for _, e := range encs {
			x.emitDec(g, e)
			x.emitDec(g, append(append([]byte{}, e...), rg.bytes(1+rg.intn(5))...))
			// truncations: boundaries and a random interior offset (every offset in the thorough tier for the first points)
			cuts := []int{0, 1, len(e) - 1, g.sizeC - 1, g.sizeC, g.sizeC + 1, rg.intn(len(e))}
			if x.g.thorough() {
				for k := 0; k < len(e); k += 1 + rg.intn(3) {
					cuts = append(cuts, k)
				}
			}
			sort.Ints(cuts)
			last := -1
			for _, k := range cuts {
				if k < 0 || k >= len(e) || k == last {
					continue
				}
				last = k
				x.emitDec(g, e[:k])
			}
		}
	}
	// 2. every flag pattern × coordinate class
	classes := x.coordClasses(g, x.g.thorough())
	// subgroup predicate on curve points of every kind, and on the points with x = 0 (fixed by the endomorphism φ)
	for _, cl := range classes {
		switch cl.name {
		case "sub", "curve", "cof", "two":
			x.g.emit("C07 insub %s %s %s", c.name, g.name, c07Pt{x: cl.xs, y: cl.ys})
		}
	}
	if q, ok := g.lift(zerosBig(g.nc)); ok {
		x.g.emit("C07 insub %s %s %s", c.name, g.name, q)
		x.g.emit("C07 insub %s %s %s", c.name, g.name, g.mul(q, big.NewInt(2)))
		if g.hasComp {
			x.emitDec(g, g.enc(q))
		}
		x.emitDec(g, g.encRaw(q))
	}
	for _, cl := range classes {
		fls := x.flags()
		if !x.g.thorough() && (cl.name == "xbig" || cl.name == "ybig") && len(fls) > 1 {
			// quick tier: non-canonical coordinates with the uncompressed flag, one compressed flag, one random flag
			fls = []byte{0, x.compFlag(rg.coin()), fls[rg.intn(len(fls))]}
		}
		for _, fl := range fls {
			// compressed-size frame and uncompressed-size frame for every flag
			if g.hasComp {
				x.emitDec(g, x.frame(g, fl, cl.xs, nil))
			}
			x.emitDec(g, x.frame(g, fl, cl.xs, cl.ys))
		}
	}
	// 3. infinity encodings with a non-zero payload / padding at each byte position class
	for _, fl := range x.flags() {
		for _, pos := range []int{0, 1, g.sizeC - 1, g.sizeC, 2*g.sizeC - 1} {
			b := make([]byte, 2*g.sizeC)
			b[0] = fl
			if pos == 0 {
				b[0] |= 1
			} else {
				b[pos] = byte(1 + rg.intn(255))
			}
			x.emitDec(g, b)
			if g.hasComp {
				x.emitDec(g, b[:g.sizeC])
			}
		}
	}
	// 4. malformed stream: random bytes of assorted lengths
	for i := 0; i < x.g.budget(6, 60); i++ {
		n := []int{0, 1, g.sizeC - 1, g.sizeC, g.sizeC + 1, 2*g.sizeC - 1, 2 * g.sizeC, 2*g.sizeC + 3}[rg.intn(8)]
		b := rg.bytes(n)
		if n > 0 && rg.coin() {
			// keep the coordinate below p most of the time so that the deeper branches are reached
			b[0] = x.flags()[rg.intn(len(x.flags()))]
		}
		x.emitDec(g, b)
	}
}

// a coordinate class: X and Y components (natural order) that go into a hand-made frame
type c07Class struct {
	name string
	xs   []*big.Int
	ys   []*big.Int
}

// exclusive upper bound of what the bytes of component pos can hold: the component written first (natural index
// nc-1 of X) shares its most significant byte with the flag bits
func (x *c07Gen) compBound(g *c07Group, isX bool, pos int) *big.Int {
	bits := 8 * x.c.fp.bytes
	if isX && pos == g.nc-1 {
		bits -= []int{0, 0, 2, 3}[x.c.layout]
	}
	return new(big.Int).Lsh(big.NewInt(1), uint(bits))
}

// a valid point whose coordinate component pos, plus p, still fits in the bytes: v+p is a non-canonical spelling of
// a valid coordinate (the only class that tells SetBytes from SetBytesCanonical)
func (x *c07Gen) aliasPoint(g *c07Group, isX bool, pos int) (c07Pt, *big.Int, bool) {
	p := x.c.fp.modulus
	bound := x.compBound(g, isX, pos)
	try := func(q c07Pt) (*big.Int, bool) {
		if q.inf {
			return nil, false
		}
		v := q.y[pos]
		if isX {
			v = q.x[pos]
		}
		w := new(big.Int).Add(v, p)
		return w, w.Cmp(bound) < 0
	}
	for i := 0; i < 40; i++ {
		q := x.subPoint(g)
		if w, ok := try(q); ok {
			return q, w, true
		}
	}
	// p close to the byte capacity (secp256k1): small x
	for i := int64(0); i < 200 && isX; i++ {
		xs := zerosBig(g.nc)
		xs[pos] = big.NewInt(i)
		if q, ok := g.lift(xs); ok {
			if w, ok := try(q); ok {
				return q, w, true
			}
		}
	}
	return c07Pt{}, nil, false
}

// the coordinate classes of the decoders: points of every kind, x without point, off curve, zero, and every
// non-canonical spelling (= p, p+1, all ones, v+p) in each component position of X and of Y.
// all = the three "big" values in every component (otherwise one of them per component of an extension field)
func (x *c07Gen) coordClasses(g *c07Group, all bool) []c07Class {
	c := x.c
	p := c.fp.modulus
	var classes []c07Class
	sp := x.subPoint(g)
	classes = append(classes, c07Class{"sub", sp.x, sp.y})
	cp := x.curvePoint(g)
	classes = append(classes, c07Class{"curve", cp.x, cp.y})
	if !c07IsOne(c) {
		// [r]·(random curve point): order divides the cofactor
		hp := g.mul(x.curvePoint(g), c.fr.modulus)
		if !hp.inf {
			classes = append(classes, c07Class{"cof", hp.x, hp.y})
		}
	}
	if t, ok := x.twoTorsion(g); ok {
		classes = append(classes, c07Class{"two", t.x, t.y})
	}
	classes = append(classes, c07Class{"nosqrt", x.noSqrtX(g), x.randComps(g)})
	// off curve: valid x with a wrong y
	oc := x.subPoint(g)
	ocy := make([]*big.Int, len(oc.y))
	for i := range oc.y {
		ocy[i] = new(big.Int).Set(oc.y[i])
	}
	ocy[0] = new(big.Int).Mod(new(big.Int).Add(ocy[0], big.NewInt(1)), p)
	classes = append(classes, c07Class{"offcurve", oc.x, ocy})
	classes = append(classes, c07Class{"zero", zerosBig(g.nc), zerosBig(g.nc)})
	// non canonical coordinates: = p, > p, all ones below the flag bits; in each component position
	for pos := 0; pos < g.nc; pos++ {
		for _, isX := range []bool{true, false} {
			bound := x.compBound(g, isX, pos)
			for vi, v := range []*big.Int{p, new(big.Int).Add(p, big.NewInt(1)), new(big.Int).Sub(bound, big.NewInt(1))} {
				if v.Cmp(bound) >= 0 {
					continue
				}
				if !all && vi != pos%3 && g.nc > 1 {
					continue // quick tier: one of the three values per component position of an extension field
				}
				q := x.subPoint(g)
				if isX {
					xs := append([]*big.Int{}, q.x...)
					xs[pos] = v
					classes = append(classes, c07Class{"xbig", xs, q.y})
				} else {
					ys := append([]*big.Int{}, q.y...)
					ys[pos] = v
					classes = append(classes, c07Class{"ybig", q.x, ys})
				}
			}
			// v + p when it still fits (aliases the residue of a valid coordinate)
			if q, w, ok := x.aliasPoint(g, isX, pos); ok {
				if isX {
					xs := append([]*big.Int{}, q.x...)
					xs[pos] = w
					classes = append(classes, c07Class{"xalias", xs, q.y})
				} else {
					ys := append([]*big.Int{}, q.y...)
					ys[pos] = w
					classes = append(classes, c07Class{"yalias", q.x, ys})
				}
			}
		}
	}
	return classes
}

func c07NonCanonClass(name string) bool {
	switch name {
	case "xbig", "ybig", "xalias", "yalias":
		return true
	}
	return false
}

// meaning of the flag bits of a first byte: "unc", "uncinf", "comp", "cinf", "bad"
func (x *c07Gen) flagKind(fl byte) string {
	switch x.c.layout {
	case 2:
		return map[byte]string{0x00: "unc", 0x40: "cinf", 0x80: "comp", 0xc0: "comp"}[fl&0xc0]
	case 3:
		switch fl & 0xe0 {
		case 0x00:
			return "unc"
		case 0x40:
			return "uncinf"
		case 0x80, 0xa0:
			return "comp"
		case 0xc0:
			return "cinf"
		}
		return "bad"
	}
	return "unc"
}

func c07IsOne(c *c07Curve) bool {
	// cofactor 1 on G1: bn254, grumpkin, secp256k1, stark-curve (G2 of bn254 has a cofactor: handled by group name)
	switch c.name {
	case "grumpkin", "secp256k1", "stark-curve":
		return true
	}
	return false
}

// ---- stream generator

func (x *c07Gen) smallElem(q *big.Int) *big.Int {
	// small values keep attacker-style misparsed length prefixes tiny (see finding iv)
	switch x.g.rng.intn(4) {
	case 0:
		return new(big.Int)
	case 1:
		return new(big.Int).SetUint64(x.g.rng.u64() >> 40)
	}
	return new(big.Int).SetUint64(uint64(x.g.rng.intn(1000)))
}
func (x *c07Gen) elem(q *big.Int) *big.Int {
	switch x.g.rng.intn(8) {
	case 0:
		return new(big.Int)
	case 1:
		return new(big.Int).Sub(q, big.NewInt(1))
	}
	return x.g.rng.bigBelow(q)
}
func (x *c07Gen) vec1(q *big.Int, small bool, maxLen int) []*big.Int {
	n := x.g.rng.intn(maxLen + 1)
	r := make([]*big.Int, n)
	for i := range r {
		if small {
			r[i] = x.smallElem(q)
		} else {
			r[i] = x.elem(q)
		}
	}
	return r
}
func (x *c07Gen) vec2(q *big.Int, small bool, maxLen int) [][]*big.Int {
	n := x.g.rng.intn(maxLen + 1)
	r := make([][]*big.Int, n)
	for i := range r {
		r[i] = x.vec1(q, small, maxLen)
	}
	return r
}
func (x *c07Gen) vec3(q *big.Int, small bool, maxLen int) [][][]*big.Int {
	n := x.g.rng.intn(maxLen + 1)
	r := make([][][]*big.Int, n)
	for i := range r {
		r[i] = x.vec2(q, small, maxLen)
	}
	return r
}

func (x *c07Gen) pts(g *c07Group, n int) []c07Pt {
	r := make([]c07Pt, n)
	for i := range r {
		if x.g.rng.intn(5) == 0 {
			r[i] = c07Pt{inf: true}
		} else {
			r[i] = x.subPoint(g)
		}
	}
	return r
}

// a random item of the given type, as op-line text
func (x *c07Gen) item(ty string, small bool) string {
	c := x.c
	rg := x.g.rng
	switch ty {
	case "u8":
		return fmt.Sprintf("u8:%x", uint8(rg.u64()))
	case "u16":
		return fmt.Sprintf("u16:%x", uint16(rg.u64()))
	case "u32":
		return fmt.Sprintf("u32:%x", uint32(rg.u64()))
	case "u64":
		return fmt.Sprintf("u64:%x", rg.u64())
	case "fr":
		return "fr:" + hexBig(x.elem(c.fr.modulus))
	case "fp":
		return "fp:" + hexBig(x.elem(c.fp.modulus))
	case "g1":
		return "g1:" + x.pts(c.g1, 1)[0].String()
	case "g2":
		return "g2:" + x.pts(c.g2, 1)[0].String()
	case "g1s":
		return "g1s:" + c07ShowPts(x.pts(c.g1, rg.intn(4)))
	case "g2s":
		return "g2s:" + c07ShowPts(x.pts(c.g2, rg.intn(3)))
	case "g1sp":
		return "g1sp:" + c07ShowPts(x.pts(c.g1, rg.intn(3)))
	case "g2sp":
		return "g2sp:" + c07ShowPts(x.pts(c.g2, rg.intn(3)))
	case "frs":
		return "frs:" + c07Show1(x.vec1(c.fr.modulus, small, 4))
	case "fps":
		return "fps:" + c07Show1(x.vec1(c.fp.modulus, small, 3))
	case "frv", "frvp":
		return ty + ":" + c07Show1(x.vec1(c.fr.modulus, small, 4))
	case "fpv":
		return "fpv:" + c07Show1(x.vec1(c.fp.modulus, small, 3))
	case "frss":
		return "frss:" + c07Show2(x.vec2(c.fr.modulus, small, 3))
	case "frsss":
		return "frsss:" + c07Show3(x.vec3(c.fr.modulus, small, 2))
	case "u64s":
		return "u64s:" + c07Show1(c07BigU64s([]uint64{rg.u64(), rg.u64() >> 20, 0}[:rg.intn(4)]))
	case "u64ss":
		n := rg.intn(3)
		r := make([][]*big.Int, n)
		for i := range r {
			r[i] = c07BigU64s([]uint64{rg.u64(), 1, rg.u64() >> 33}[:rg.intn(4)])
		}
		return "u64ss:" + c07Show2(r)
	}
	return ""
}

func (x *c07Gen) types() []string {
	t := []string{"u8", "u16", "u32", "u64", "fr", "fp", "g1", "g1s", "frs", "fps"}
	if x.c.g2 != nil {
		t = append(t, "g2", "g2s")
	}
	if x.c.fullTypes {
		t = append(t, "frss", "frsss", "u64s", "u64ss", "frv", "frvp", "fpv", "g1sp")
		if x.c.g2 != nil {
			t = append(t, "g2sp")
		}
	}
	return t
}

func c07ItemType(item string) string { return item[:strings.IndexByte(item, ':')] }

// bytes the library's Encoder writes for the items
func (x *c07Gen) encode(raw bool, items []string) []byte {
	var buf bytes.Buffer
	enc, _ := x.c.newEncoder(&buf, raw)
	for _, it := range items {
		v, ok := c07EncArg(x.c, it)
		if !ok {
			panic("c07 generator: bad item " + it)
		}
		if err := enc(v); err != nil {
			panic(err)
		}
	}
	return buf.Bytes()
}

var c07Chunks = []string{"0", "1", "7", "h", "d"}

func (x *c07Gen) emitSdec(sub bool, chunk string, types []string, buf []byte) {
	x.g.emit("C07 sdec %s %s %s %s %s", x.c.name, boolStr(sub), chunk, strings.Join(types, ","), hexBytes(buf))
}

func (x *c07Gen) streamOps(first bool) {
	c := x.c
	rg := x.g.rng
	all := x.types()
	// 1. every type alone, both modes, every chunking; round trip = senc line + sdec line on the library's bytes
	for _, ty := range all {
		for rep := 0; rep < x.g.budget(1, 3); rep++ {
			it := x.item(ty, false)
			for _, raw := range []bool{false, true} {
				x.g.emit("C07 senc %s %s %s", c.name, boolStr(raw), it)
				b := x.encode(raw, []string{it})
				x.emitSdec(true, c07Chunks[rg.intn(len(c07Chunks))], []string{ty}, b)
				if strings.HasPrefix(ty, "g") {
					x.emitSdec(false, c07Chunks[rg.intn(len(c07Chunks))], []string{ty}, b)
				}
			}
		}
	}
	// 2. mixed sequences on one stream; truncation at every offset (strided in quick unless first curve)
	for rep := 0; rep < x.g.budget(2, 6); rep++ {
		n := 2 + rg.intn(5)
		var items, tys []string
		for i := 0; i < n; i++ {
			ty := all[rg.intn(len(all))]
			// keep the quick streams light: at most small point slices
			items = append(items, x.item(ty, true))
			tys = append(tys, ty)
		}
		raw := rg.coin()
		x.g.emit("C07 senc %s %s %s", c.name, boolStr(raw), strings.Join(items, " "))
		b := x.encode(raw, items)
		for _, ch := range c07Chunks {
			x.emitSdec(true, ch, tys, b)
		}
		// decoding with a longer / shorter type list
		x.emitSdec(true, "0", append(append([]string{}, tys...), "u8"), b)
		x.emitSdec(true, "0", tys[:len(tys)-1], b)
	}
	// truncation at every offset of a stream made of cheap items and one point of each kind
	{
		tys := []string{"u16", "fr", "frs", "g1"}
		if c.fullTypes {
			tys = []string{"u16", "fr", "frss", "u64s", "frsss", "g1", "u64ss"}
		}
		tys = append(tys, "g1s")
		var items []string
		for _, ty := range tys {
			items = append(items, x.item(ty, true))
		}
		raw := rg.coin()
		b := x.encode(raw, items)
		step := 1
		if !x.g.thorough() && !first {
			step = 1 + len(b)/24
		}
		for k := 0; k < len(b); k += step {
			x.emitSdec(true, c07Chunks[rg.intn(len(c07Chunks))], tys, b[:k])
		}
	}
	// 3. a corrupted item at every position of slices and nested slices
	x.corruptVectors()
	x.corruptPointSlices()
	for _, g := range []*c07Group{c.g1, c.g2} {
		if g != nil {
			x.slicePointClasses(g)
		}
	}
	// decode histories on re-used destinations
	x.historyOps()
	// call histories on ONE Decoder / ONE Encoder object
	x.decoderHistoryOps()
	// Encoder on a writer that fails
	x.failingWriterOps(first)
	// 4. adversarial length prefixes (capped: the decoder allocates before reading, finding iv)
	for _, ty := range all {
		if !strings.HasSuffix(ty, "s") && !strings.HasSuffix(ty, "v") && !strings.HasSuffix(ty, "sp") {
			continue
		}
		for _, l := range []uint32{1, 2, 1000, 1 << 16} {
			b := []byte{byte(l >> 24), byte(l >> 16), byte(l >> 8), byte(l)}
			x.emitSdec(true, "0", []string{ty}, b)
			// padding made of tiny big-endian words: inner length prefixes read from it stay tiny
			pad := make([]byte, rg.intn(40))
			for i := 3; i < len(pad); i += 4 {
				pad[i] = byte(rg.intn(3))
			}
			x.emitSdec(true, "7", []string{ty}, append(b, pad...))
		}
	}
}

// ---- Encoder.Encode on a writer that fails (ops sencw / sencn)

// sizes of the Write calls the library makes for the items on a writer that accepts everything
func (x *c07Gen) writeSizes(raw bool, items []string) []int {
	sink := &c07Sink{budgets: []int{1 << 30}}
	enc, _ := x.c.newEncoder(sink, raw)
	for _, it := range items {
		v, ok := c07EncArg(x.c, it)
		if !ok {
			panic("c07 generator: bad item " + it)
		}
		if err := enc(v); err != nil {
			panic(err)
		}
	}
	r := make([]int, len(sink.calls))
	for i, cl := range sink.calls {
		r[i] = cl[0]
	}
	return r
}

func (x *c07Gen) emitFail(raw bool, budgets []int, items []string) {
	bs := "-"
	if len(budgets) > 0 {
		t := make([]string, len(budgets))
		for i, b := range budgets {
			t[i] = fmt.Sprintf("%x", b)
		}
		bs = strings.Join(t, ",")
	}
	for _, op := range []string{"sencw", "sencn"} {
		x.g.emit("C07 %s %s %s %s %s", op, x.c.name, boolStr(raw), bs, strings.Join(items, " "))
	}
}

// the failure points worth trying for a history of Write calls of the given sizes: every k (all), or around every
// boundary between two Write calls, every position inside a 4-byte length prefix, and a few random ones
func (x *c07Gen) failPoints(sizes []int, all bool) []int {
	total := 0
	for _, s := range sizes {
		total += s
	}
	seen := map[int]bool{}
	var ks []int
	add := func(k int) {
		if k >= 0 && k <= total+1 && !seen[k] {
			seen[k] = true
			ks = append(ks, k)
		}
	}
	if all {
		for k := 0; k <= total+1; k++ {
			add(k)
		}
		return ks
	}
	b := 0
	for _, s := range sizes {
		add(b - 1)
		add(b)
		add(b + 1)
		if s == 4 {
			add(b + 2)
			add(b + 3)
		}
		b += s
	}
	add(total - 1)
	add(total)
	add(total + 1)
	for i := 0; i < 3; i++ {
		add(x.g.rng.intn(total + 1))
	}
	sort.Ints(ks)
	return ks
}

// one value (or a history of values) against: the writer that accepts exactly k bytes and fails for ever; the writer
// that fails once after k bytes and then works again; the writer that fails twice
func (x *c07Gen) failAt(raw bool, items []string, all bool) {
	sizes := x.writeSizes(raw, items)
	rg := x.g.rng
	for _, k := range x.failPoints(sizes, all) {
		x.emitFail(raw, []int{k}, items)
		if len(sizes) > 1 {
			x.emitFail(raw, []int{k, 1 << 20}, items)
			if rg.intn(4) == 0 {
				x.emitFail(raw, []int{k, rg.intn(2 * sizes[len(sizes)-1]), 1 << 20}, items)
			}
		}
	}
}

func (x *c07Gen) failingWriterOps(first bool) {
	c := x.c
	rg := x.g.rng
	all := x.types()
	every := first || x.g.thorough()
	// 1. every type Encode supports, both encoders, a value of the generic shape: every failure point (first curve and
	// thorough tier) / every Write boundary ±1 and every position of every length prefix
	for _, ty := range all {
		for rep := 0; rep < x.g.budget(1, 3); rep++ {
			it := x.item(ty, true)
			for _, raw := range []bool{false, true} {
				x.failAt(raw, []string{it}, every)
			}
		}
	}
	// 2. longer slices and nested vectors of fixed shapes with empty inner vectors at the end, in the middle and at
	// the start (a later successful Write must not hide the failure of an earlier one)
	fr := func() string { return hexBig(x.smallElem(c.fr.modulus)) }
	frs := func(n int) string {
		if n == 0 {
			return "-"
		}
		t := make([]string, n)
		for i := range t {
			t[i] = fr()
		}
		return strings.Join(t, ",")
	}
	frss := func(shape ...int) string {
		if len(shape) == 0 {
			return "="
		}
		t := make([]string, len(shape))
		for i, n := range shape {
			t[i] = frs(n)
		}
		return strings.Join(t, "/")
	}
	long := []string{"frs:" + frs(9), "fps:" + frs(3), "g1s:" + c07ShowPts(x.pts(c.g1, 5))}
	if c.g2 != nil {
		long = append(long, "g2s:"+c07ShowPts(x.pts(c.g2, 3)))
	}
	if c.fullTypes {
		long = append(long,
			"frss:"+frss(2, 0, 1), "frss:"+frss(1, 0), "frss:"+frss(0, 3, 0, 0), "frss:"+frss(1, 1, 1, 1, 1),
			"frsss:"+frss(1, 2)+"+"+frss()+"+"+frss(0, 1), "frsss:"+frss(2)+"+"+frss(0), "frsss:"+frss(0, 0)+"+"+frss(1, 0)+"+"+frss(),
			"frv:"+frs(6), "frvp:"+frs(5), "fpv:"+frs(2),
			"u64s:"+c07Show1(c07BigU64s([]uint64{rg.u64(), 0, rg.u64() >> 30, 1, 2, 3, 4})),
			"u64ss:"+c07Show2([][]*big.Int{c07BigU64s([]uint64{rg.u64(), 5}), {}, c07BigU64s([]uint64{7}), {}}),
			"g1sp:"+c07ShowPts(x.pts(c.g1, 4)))
	}
	for _, it := range long {
		for _, raw := range []bool{false, true} {
			x.failAt(raw, []string{it}, false)
		}
	}
	// 3. histories on ONE Encoder: several Encode calls of mixed types; the writer fails inside / between any of the
	// calls, once, twice or for ever; the calls after a failed one go on
	for rep := 0; rep < x.g.budget(3, 10); rep++ {
		n := 2 + rg.intn(4)
		var items []string
		for i := 0; i < n; i++ {
			items = append(items, x.item(all[rg.intn(len(all))], true))
		}
		raw := rg.coin()
		x.failAt(raw, items, false)
		sizes := x.writeSizes(raw, items)
		total := 0
		for _, s := range sizes {
			total += s
		}
		for j := 0; j < x.g.budget(4, 12); j++ {
			var bud []int
			for left := total; left > 0 && len(bud) < 5; {
				k := rg.intn(left + 1)
				if rg.intn(3) == 0 {
					k = rg.intn(6)
				}
				bud = append(bud, k)
				left -= k
			}
			if rg.coin() {
				bud = append(bud, 1<<20)
			}
			x.emitFail(raw, bud, items)
		}
	}
	x.emitFail(false, nil, []string{x.item("fr", true), x.item("u8", true)})
}

// non-canonical field element (= q, or all ones) at every element position of []fr, [][]fr, [][][]fr, []fp
func (x *c07Gen) corruptVectors() {
	c := x.c
	rg := x.g.rng
	frB := c.fr.bytes
	bad := func() []byte {
		t := make([]byte, frB)
		if rg.coin() {
			c.fr.modulus.FillBytes(t)
		} else {
			for i := range t {
				t[i] = 0xff
			}
		}
		return t
	}
	// explicit shapes so that first / middle / last inner vectors are all hit
	type shape struct {
		ty   string
		item string
	}
	shapes := []shape{{"frs", "frs:1,2,3"}}
	if c.fullTypes {
		shapes = append(shapes,
			shape{"frss", "frss:1,2/3/4,5,6"},
			shape{"frss", "frss:1/-/2"},
			shape{"frsss", "frsss:1,2/3+4/5,6+7"},
			shape{"frsss", "frsss:1+=+2/3"})
	}
	for _, sh := range shapes {
		b := x.encode(false, []string{sh.item})
		// element offsets: every frB-aligned window that holds an element; found by walking the structure
		for _, off := range c07ElemOffsets(sh.ty, b, frB) {
			cb := append([]byte{}, b...)
			copy(cb[off:], bad())
			x.emitSdec(true, c07Chunks[rg.intn(len(c07Chunks))], []string{sh.ty, "u8"}, append(cb, 0x2a))
		}
	}
	// same for fp vectors
	{
		b := x.encode(false, []string{"fps:1,2,3"})
		for i := 0; i < 3; i++ {
			cb := append([]byte{}, b...)
			t := make([]byte, c.fp.bytes)
			c.fp.modulus.FillBytes(t)
			copy(cb[4+i*c.fp.bytes:], t)
			x.emitSdec(true, "0", []string{"fps"}, cb)
		}
	}
	// single elements: = q, q-1, q+1
	for _, f := range []struct {
		ty string
		F  *c07Field
	}{{"fr", c.fr}, {"fp", c.fp}} {
		for _, d := range []int64{-1, 0, 1} {
			v := new(big.Int).Add(f.F.modulus, big.NewInt(d))
			t := make([]byte, f.F.bytes)
			if v.BitLen() > 8*f.F.bytes {
				continue
			}
			v.FillBytes(t)
			x.emitSdec(true, "0", []string{f.ty}, t)
		}
	}
}

// offsets of the field elements inside the encoding of a (nested) vector
func c07ElemOffsets(ty string, b []byte, fb int) []int {
	var offs []int
	pos := 0
	u32 := func() int {
		v := int(b[pos])<<24 | int(b[pos+1])<<16 | int(b[pos+2])<<8 | int(b[pos+3])
		pos += 4
		return v
	}
	var walk func(depth int)
	walk = func(depth int) {
		n := u32()
		for i := 0; i < n; i++ {
			if depth == 1 {
				offs = append(offs, pos)
				pos += fb
			} else {
				walk(depth - 1)
			}
		}
	}
	walk(map[string]int{"frs": 1, "frss": 2, "frsss": 3}[ty])
	return offs
}

// a bad point at every position of a point slice: each failure class of phase 1 and phase 2
func (x *c07Gen) corruptPointSlices() {
	c := x.c
	rg := x.g.rng
	for _, g := range []*c07Group{c.g1, c.g2} {
		if g == nil {
			continue
		}
		ty := strings.ToLower(g.name) + "s"
		n := 3
		var bads [][]byte
		// compressed: no square root; non canonical x; invalid flag; infinity with payload
		bads = append(bads, x.frame(g, x.compFlag(false), x.noSqrtX(g), nil))
		xb := x.subPoint(g).x
		xb[g.nc-1] = c.fp.modulus
		bads = append(bads, x.frame(g, x.compFlag(true), xb, nil))
		infb := make([]byte, g.sizeC)
		infb[0] = x.infFlag()
		infb[g.sizeC-1] = 1
		bads = append(bads, infb)
		if c.layout == 3 {
			bads = append(bads, x.frame(g, 0xe0, x.subPoint(g).x, nil))
		}
		// uncompressed: off curve, non canonical y
		q := x.subPoint(g)
		ocy := append([]*big.Int{}, q.y...)
		ocy[0] = new(big.Int).Mod(new(big.Int).Add(ocy[0], big.NewInt(1)), c.fp.modulus)
		bads = append(bads, x.frame(g, 0, q.x, ocy))
		yb := append([]*big.Int{}, q.y...)
		yb[0] = c.fp.modulus
		bads = append(bads, x.frame(g, 0, q.x, yb))
		// outside the subgroup, both forms
		if !(g.name == "G1" && (c07IsOne(c) || c.name == "bn254")) {
			cp := x.curvePoint(g)
			if !g.inSub(cp) {
				bads = append(bads, g.enc(cp), g.encRaw(cp))
			}
		}
		for _, bad := range bads {
			for pos := 0; pos < n; pos++ {
				var b []byte
				b = append(b, 0, 0, 0, byte(n))
				for i := 0; i < n; i++ {
					if i == pos {
						b = append(b, bad...)
					} else if rg.coin() {
						b = append(b, g.enc(x.subPoint(g))...)
					} else {
						b = append(b, g.encRaw(x.subPoint(g))...)
					}
				}
				x.emitSdec(true, c07Chunks[rg.intn(len(c07Chunks))], []string{ty}, b)
				if pos == 1 {
					x.emitSdec(false, "0", []string{ty}, b)
				}
			}
		}
	}
}

// ---- every single-point failure class at every position of a point slice

// uint32 length n, the item `bad` at position pos, valid items elsewhere (library encodings, compressed or raw at
// random). light: one neighbour is a random subgroup point, the others are the point at infinity (keeps the model's
// batch validation cheap when `bad` survives the sequential phase)
func (x *c07Gen) sliceWith(g *c07Group, n, pos int, bad []byte, light bool) []byte {
	rg := x.g.rng
	b := []byte{0, 0, 0, byte(n)}
	heavy := rg.intn(n - 1)
	if light && g.nc > 2 && rg.intn(3) != 0 {
		heavy = -1 // Fp⁴ coordinates: a subgroup point costs the model ~60 ms; a valid neighbour one time in three
	}
	k := 0
	for i := 0; i < n; i++ {
		if i == pos {
			b = append(b, bad...)
			continue
		}
		q := c07Pt{inf: true}
		if !light || k == heavy {
			q = x.subPoint(g)
		}
		k++
		if rg.coin() {
			b = append(b, g.enc(q)...)
		} else {
			b = append(b, g.encRaw(q)...)
		}
	}
	return b
}

// bw6-633 G1 / bw6-761 G2: IsInSubGroup accepts the order-3 points (0, ±sqrt b) (known finding, reported through
// the dec / insub ops)
func c07Order3Group(c *c07Curve, g *c07Group) bool {
	return (c.name == "bw6-633" && g.name == "G1") || (c.name == "bw6-761" && g.name == "G2")
}

func (x *c07Gen) slicePointClasses(g *c07Group) {
	c := x.c
	rg := x.g.rng
	ty := strings.ToLower(g.name) + "s"
	n := 3
	quick := !x.g.thorough()
	cnt := 0
	emit := func(bad []byte, light, nosub bool) {
		for pos := 0; pos < n; pos++ {
			b := x.sliceWith(g, n, pos, bad, light)
			x.emitSdec(true, c07Chunks[rg.intn(len(c07Chunks))], []string{ty}, b)
			if nosub && pos == cnt%n {
				x.emitSdec(false, "0", []string{ty}, b)
			}
		}
		cnt++
	}
	// 1. every coordinate class × flag pattern, frame size chosen by the flag (both sizes for the invalid flags)
	for _, cl := range x.coordClasses(g, true) {
		nonCanon := c07NonCanonClass(cl.name)
		onY := cl.name == "ybig" || cl.name == "yalias"
		fls := x.flags()
		if quick && nonCanon && len(fls) > 1 {
			// quick tier: the uncompressed flag, one compressed flag, one flag at random
			fls = []byte{0, x.compFlag(rg.coin()), fls[rg.intn(len(fls))]}
		}
		light := quick && !nonCanon
		nosub := cl.name != "two"
		for _, fl := range fls {
			switch x.flagKind(fl) {
			case "comp", "cinf":
				if onY || (cl.name == "zero" && c07Order3Group(c, g)) {
					continue // Y is not part of the frame
				}
				emit(x.frame(g, fl, cl.xs, nil), light, nosub)
			case "unc", "uncinf":
				emit(x.frame(g, fl, cl.xs, cl.ys), light, nosub)
			default:
				if !onY {
					emit(x.frame(g, fl, cl.xs, nil), light, nosub)
				}
				emit(x.frame(g, fl, cl.xs, cl.ys), light, nosub)
			}
		}
	}
	// 2. infinity / zero frames with a non-zero payload byte in each byte-position class
	for _, fl := range x.flags() {
		var size int
		var poss []int
		switch x.flagKind(fl) {
		case "cinf":
			size, poss = g.sizeC, []int{0, 1, g.sizeC - 1}
		case "unc", "uncinf":
			size, poss = 2*g.sizeC, []int{0, 1, g.sizeC - 1, g.sizeC, 2*g.sizeC - 1}
		default:
			continue
		}
		for _, bp := range poss {
			b := make([]byte, size)
			b[0] = fl
			if bp == 0 {
				b[0] |= 1
			} else {
				b[bp] = byte(1 + rg.intn(255))
			}
			emit(b, quick, true)
		}
	}
}

// ---- decode histories: stream A, then stream B (…) decoded into the SAME destination variables

func (x *c07Gen) emitHist(sub bool, chunk string, types []string, streams ...[]byte) {
	hs := make([]string, len(streams))
	for i := range streams {
		hs[i] = hexBytes(streams[i])
	}
	x.g.emit("C07 sdec %s %s %s %s %s", x.c.name, boolStr(sub), chunk, strings.Join(types, ","), strings.Join(hs, ">"))
}

func (x *c07Gen) chunk() string { return c07Chunks[x.g.rng.intn(len(c07Chunks))] }

func (x *c07Gen) nonInf(g *c07Group, n int) []c07Pt {
	r := make([]c07Pt, n)
	for i := range r {
		r[i] = x.subPoint(g)
	}
	return r
}

// a vector related to a: same length most of the time, entries zeroed / kept / redrawn
func (x *c07Gen) rel1(a []*big.Int, q *big.Int) []*big.Int {
	rg := x.g.rng
	if rg.intn(4) == 0 {
		return x.vec1(q, true, 4)
	}
	r := make([]*big.Int, len(a))
	for i := range a {
		switch rg.intn(3) {
		case 0:
			r[i] = new(big.Int)
		case 1:
			r[i] = a[i]
		default:
			r[i] = x.smallElem(q)
		}
	}
	return r
}
func (x *c07Gen) rel2(a [][]*big.Int, q *big.Int) [][]*big.Int {
	if x.g.rng.intn(4) == 0 {
		return x.vec2(q, true, 3)
	}
	r := make([][]*big.Int, len(a))
	for i := range a {
		r[i] = x.rel1(a[i], q)
	}
	return r
}
func (x *c07Gen) rel3(a [][][]*big.Int, q *big.Int) [][][]*big.Int {
	if x.g.rng.intn(4) == 0 {
		return x.vec3(q, true, 2)
	}
	r := make([][][]*big.Int, len(a))
	for i := range a {
		r[i] = x.rel2(a[i], q)
	}
	return r
}
func (x *c07Gen) relPts(a []c07Pt, g *c07Group) []c07Pt {
	rg := x.g.rng
	if rg.intn(4) == 0 {
		return x.pts(g, rg.intn(4))
	}
	r := make([]c07Pt, len(a))
	for i := range a {
		switch rg.intn(3) {
		case 0:
			r[i] = c07Pt{inf: true}
		case 1:
			r[i] = a[i]
		default:
			r[i] = x.subPoint(g)
		}
	}
	return r
}

// an item of the same type as `item`, related to it (see rel1): what a second Decode into the same variable reads
func (x *c07Gen) related(item string) string {
	c := x.c
	rg := x.g.rng
	ty := c07ItemType(item)
	s := item[len(ty)+1:]
	two := uint64(rg.intn(2))
	switch ty {
	case "u8", "u16", "u32", "u64":
		if two == 0 {
			return ty + ":0"
		}
		return x.item(ty, true)
	case "fr", "fp":
		if two == 0 {
			return ty + ":0"
		}
		return x.item(ty, true)
	case "g1", "g2":
		if two == 0 {
			return ty + ":inf"
		}
		return x.item(ty, true)
	case "g1s", "g2s", "g1sp", "g2sp":
		g := c.g1
		if strings.HasPrefix(ty, "g2") {
			g = c.g2
		}
		ps, _ := c07ParsePts(s, g.nc)
		return ty + ":" + c07ShowPts(x.relPts(ps, g))
	case "frs", "frv", "frvp":
		return ty + ":" + c07Show1(x.rel1(c07Parse1(s), c.fr.modulus))
	case "fps", "fpv":
		return ty + ":" + c07Show1(x.rel1(c07Parse1(s), c.fp.modulus))
	case "frss":
		return ty + ":" + c07Show2(x.rel2(c07Parse2(s), c.fr.modulus))
	case "frsss":
		return ty + ":" + c07Show3(x.rel3(c07Parse3(s), c.fr.modulus))
	case "u64s":
		v := c07Parse1(s)
		for i := range v {
			if rg.coin() {
				v[i] = new(big.Int)
			}
		}
		if rg.intn(4) == 0 && len(v) > 0 {
			v = v[:len(v)-1]
		}
		return ty + ":" + c07Show1(v)
	case "u64ss":
		v := c07Parse2(s)
		for i := range v {
			if rg.coin() && len(v[i]) > 0 {
				v[i] = v[i][:len(v[i])-1]
			}
			for j := range v[i] {
				if rg.coin() {
					v[i][j] = new(big.Int)
				}
			}
		}
		return ty + ":" + c07Show2(v)
	}
	return x.item(ty, true)
}

func (x *c07Gen) historyOps() {
	c := x.c
	rg := x.g.rng
	inf := c07Pt{inf: true}
	// 1. point slices: B holds infinity where A holds a point, at every position, both encoder modes and hand-mixed
	// item modes; B shorter / longer / empty; A failing midway; three-step histories
	for _, g := range []*c07Group{c.g1, c.g2} {
		if g == nil {
			continue
		}
		ty := strings.ToLower(g.name) + "s"
		tys := []string{ty}
		encS := func(raw bool, ps []c07Pt) []byte { return x.encode(raw, []string{ty + ":" + c07ShowPts(ps)}) }
		mixed := func(ps []c07Pt, rawInf bool) []byte {
			b := []byte{0, 0, 0, byte(len(ps))}
			for _, q := range ps {
				raw := rg.coin()
				if q.inf {
					raw = rawInf
				}
				if raw {
					b = append(b, g.encRaw(q)...)
				} else {
					b = append(b, g.enc(q)...)
				}
			}
			return b
		}
		with := func(base []c07Pt, i int, q c07Pt) []c07Pt {
			r := append([]c07Pt{}, base...)
			for j := range r {
				if j != i && rg.coin() {
					r[j] = x.subPoint(g)
				}
			}
			r[i] = q
			return r
		}
		n := 3
		base := x.nonInf(g, n)
		for i := 0; i < n; i++ {
			for _, rawB := range []bool{false, true} {
				x.emitHist(true, x.chunk(), tys, encS(rg.coin(), base), encS(rawB, with(base, i, inf)))
				x.emitHist(true, x.chunk(), tys, mixed(base, false), mixed(with(base, i, inf), rawB))
			}
		}
		x.emitHist(false, "0", tys, encS(false, base), encS(false, with(base, rg.intn(n), inf)))
		x.emitHist(true, x.chunk(), tys, encS(rg.coin(), base), encS(rg.coin(), []c07Pt{inf, inf, inf}))
		x.emitHist(true, x.chunk(), tys, encS(rg.coin(), base), encS(rg.coin(), []c07Pt{inf, base[0]}))
		x.emitHist(true, x.chunk(), tys, encS(rg.coin(), base), encS(rg.coin(), []c07Pt{base[2], inf, base[0], inf}))
		x.emitHist(true, x.chunk(), tys, encS(rg.coin(), base), encS(rg.coin(), nil))
		x.emitHist(true, x.chunk(), tys, encS(rg.coin(), nil), encS(rg.coin(), []c07Pt{inf, base[1]}))
		x.emitHist(true, x.chunk(), tys, encS(rg.coin(), []c07Pt{inf, inf, base[0]}), encS(rg.coin(), []c07Pt{base[1], base[2], inf}))
		// three steps: the middle stream fails (bad infinity payload at item 1 / truncated inside item 1) or succeeds
		bad := mixed(with(base, 1, inf), false)
		{
			// locate item 1: item 0 starts at offset 4
			off := 4 + g.sizeC
			if bad[4]&0xc0 == 0 || (c.layout == 3 && bad[4]&0xe0 == 0x40) {
				off = 4 + 2*g.sizeC
			}
			badInf := append([]byte{}, bad...)
			badInf[off+g.sizeC-1] = 1
			x.emitHist(true, x.chunk(), tys, encS(false, base), badInf, encS(false, with(base, 2, inf)))
			x.emitHist(true, x.chunk(), tys, encS(true, base), bad[:off+g.sizeC/2], mixed(with(base, 0, inf), false))
		}
		x.emitHist(true, x.chunk(), tys, encS(rg.coin(), base), encS(rg.coin(), with(base, 1, inf)), encS(rg.coin(), with(with(base, 1, base[0]), 0, inf)))
		// single points through the Decoder, and a point followed by a slice
		pt := strings.ToLower(g.name)
		for _, raw := range []bool{false, true} {
			x.emitHist(true, x.chunk(), []string{pt}, x.encode(rg.coin(), []string{pt + ":" + base[0].String()}), x.encode(raw, []string{pt + ":inf"}))
			x.emitHist(true, x.chunk(), []string{pt, ty}, x.encode(rg.coin(), []string{pt + ":" + base[0].String(), ty + ":" + c07ShowPts(base[1:])}),
				x.encode(raw, []string{pt + ":inf", ty + ":" + c07ShowPts([]c07Pt{inf, base[0]})}))
		}
		x.emitHist(true, x.chunk(), []string{pt}, x.encode(rg.coin(), []string{pt + ":" + base[0].String()}), x.encode(rg.coin(), []string{pt + ":" + base[1].String()}))
	}
	// 2. field elements, vectors and nested vectors: zeros / shorter / empty over non-trivial content
	e := func(q *big.Int) string { return hexBig(new(big.Int).Add(x.g.rng.bigBelow(new(big.Int).Sub(q, big.NewInt(1))), big.NewInt(1))) }
	r, p := c.fr.modulus, c.fp.modulus
	type hist struct{ a, b string }
	hs := []hist{
		{"u8:a5", "u8:0"}, {"u16:a5a5", "u16:0"}, {"u32:a5a5a5a5", "u32:0"}, {"u64:a5a5a5a5a5a5a5a5", "u64:0"},
		{"fr:" + e(r), "fr:0"}, {"fp:" + e(p), "fp:0"},
	}
	vecTys := []string{"frs", "fps"}
	if c.fullTypes {
		vecTys = append(vecTys, "frv", "frvp", "fpv")
	}
	for _, ty := range vecTys {
		q := r
		if strings.HasPrefix(ty, "fp") {
			q = p
		}
		a := ty + ":" + e(q) + "," + e(q) + "," + e(q)
		hs = append(hs, hist{a, ty + ":0," + e(q) + ",0"}, hist{a, ty + ":0,0,0"}, hist{a, ty + ":" + e(q)}, hist{a, ty + ":-"},
			hist{ty + ":-", a}, hist{a, ty + ":0,0,0,0"})
	}
	if c.fullTypes {
		a2 := "frss:" + e(r) + "," + e(r) + "/" + e(r) + "/" + e(r) + "," + e(r) + "," + e(r)
		for _, b := range []string{"0,0/-/" + e(r), "0,0/0/0,0,0", e(r) + "/-/-", "-/-/-", e(r) + "," + e(r), "=", "0/0/0/0", "-/0," + e(r) + "/0"} {
			hs = append(hs, hist{a2, "frss:" + b})
		}
		hs = append(hs, hist{"frss:=", a2})
		a3 := "frsss:" + e(r) + "," + e(r) + "/" + e(r) + "+" + e(r) + "/" + e(r) + "," + e(r) + "+" + e(r)
		for _, b := range []string{"0,0/0+0/0,0+0", "0/-+=+" + e(r), "=+=+=", "-/-+-/-+-", e(r) + "+" + e(r), "~", "0+0+0+0", "0," + e(r) + "+" + e(r) + "/-/0+-"} {
			hs = append(hs, hist{a3, "frsss:" + b})
		}
		hs = append(hs, hist{"frsss:~", a3},
			hist{"u64s:1,2,3", "u64s:0,0,0"}, hist{"u64s:1,2,3", "u64s:5"}, hist{"u64s:1,2,3", "u64s:-"},
			hist{"u64ss:1,2/3", "u64ss:0/-"}, hist{"u64ss:1,2/3", "u64ss:0,0/0"}, hist{"u64ss:1,2/3", "u64ss:="}, hist{"u64ss:1,2/3", "u64ss:7"})
	}
	var allA, allB, allT []string
	for _, h := range hs {
		ty := c07ItemType(h.a)
		x.emitHist(true, x.chunk(), []string{ty}, x.encode(rg.coin(), []string{h.a}), x.encode(rg.coin(), []string{h.b}))
		if rg.intn(3) == 0 {
			allA, allB, allT = append(allA, h.a), append(allB, h.b), append(allT, ty)
		}
	}
	if len(allT) > 0 {
		x.emitHist(true, x.chunk(), allT, x.encode(false, allA), x.encode(true, allB))
	}
	// 3. random mixes: A random, B (and C) related to A; sometimes the middle stream is cut short
	all := x.types()
	for rep := 0; rep < x.g.budget(4, 24); rep++ {
		n := 1 + rg.intn(4)
		var a, b, cc, tys []string
		for i := 0; i < n; i++ {
			ty := all[rg.intn(len(all))]
			it := x.item(ty, true)
			a, tys = append(a, it), append(tys, ty)
			b = append(b, x.related(it))
			cc = append(cc, x.related(it))
		}
		sa, sb, sc := x.encode(rg.coin(), a), x.encode(rg.coin(), b), x.encode(rg.coin(), cc)
		switch rg.intn(3) {
		case 0:
			x.emitHist(true, x.chunk(), tys, sa, sb)
		case 1:
			x.emitHist(true, x.chunk(), tys, sa, sb, sc)
		default:
			x.emitHist(true, x.chunk(), tys, sa, sb[:rg.intn(len(sb)+1)], sc)
		}
	}
}

// ---- call histories on ONE Decoder (and ONE Encoder) object: k successive values written by encoders of different
// modes (compressed / raw / per-point mixed frames), G1 / G2 / other value types, slice lengths shrinking, equal and
// growing along the calls. The stream is the concatenation of the segments; the model is pure: every call answers the
// decode of its own segment and the reader offsets accumulate. Type tokens `ty@slot` additionally make equal tokens
// share one destination variable (same Decoder AND same destination).
func (x *c07Gen) decoderHistoryOps() {
	c := x.c
	rg := x.g.rng
	groups := []*c07Group{c.g1}
	if c.g2 != nil {
		groups = append(groups, c.g2)
	}
	sty := func(g *c07Group) string { return strings.ToLower(g.name) + "s" }
	// bytes of a point slice: 'c' / 'r' by the library's Encoder, 'm' hand-assembled with a coin per point
	encS := func(g *c07Group, mode byte, ps []c07Pt) []byte {
		switch mode {
		case 'c':
			return x.encode(false, []string{sty(g) + ":" + c07ShowPts(ps)})
		case 'r':
			return x.encode(true, []string{sty(g) + ":" + c07ShowPts(ps)})
		}
		b := []byte{0, 0, 0, byte(len(ps))}
		for _, q := range ps {
			if rg.coin() {
				b = append(b, g.encRaw(q)...)
			} else {
				b = append(b, g.enc(q)...)
			}
		}
		return b
	}
	pickMode := func(fav byte) byte {
		switch rg.intn(6) {
		case 0:
			return 'm'
		case 1:
			return "cr"[rg.intn(2)]
		}
		return fav
	}
	slot := func(tys []string) []string {
		// equal types share a destination with probability 1/2
		r := append([]string{}, tys...)
		if rg.coin() {
			for i := range r {
				r[i] += "@0"
			}
		}
		return r
	}
	// 1. systematic: slice A (mostly compressed, non-infinity points), then slice B (mostly raw) shorter / as long /
	// longer, then slice C no longer than the longest so far; every (group A, group B) pair
	n := x.g.budget(3, 6)
	for _, gA := range groups {
		for _, gB := range groups {
			for rel := -1; rel <= 1; rel++ {
				nB := n + rel*(1+rg.intn(2))
				gC := groups[rg.intn(len(groups))]
				nC := 1 + rg.intn(n+1)
				pa, pb, pc := x.nonInf(gA, n), x.nonInf(gB, nB), x.nonInf(gC, nC)
				if rg.intn(3) == 0 {
					pb[rg.intn(nB)] = c07Pt{inf: true}
				}
				var buf []byte
				buf = append(buf, encS(gA, pickMode('c'), pa)...)
				buf = append(buf, encS(gB, pickMode('r'), pb)...)
				buf = append(buf, encS(gC, pickMode("rrc"[rg.intn(3)]), pc)...)
				x.emitSdec(rg.intn(3) == 0, x.chunk(), slot([]string{sty(gA), sty(gB), sty(gC)}), buf)
			}
		}
	}
	// 2. random histories of 3..6 calls over all value types (point slices favoured, lengths 0..4), every segment written
	// by its own Encoder in a random mode; the same items through ONE Encoder in each mode (senc)
	all := x.types()
	for rep := 0; rep < x.g.budget(4, 24); rep++ {
		k := 3 + rg.intn(4)
		var items, tys []string
		var buf []byte
		for i := 0; i < k; i++ {
			var ty, it string
			if rg.intn(5) < 3 {
				g := groups[rg.intn(len(groups))]
				ty = sty(g)
				if c.fullTypes && rg.intn(4) == 0 {
					ty += "p"
				}
				it = ty + ":" + c07ShowPts(x.pts(g, rg.intn(5)))
			} else {
				ty = all[rg.intn(len(all))]
				it = x.item(ty, true)
			}
			items, tys = append(items, it), append(tys, ty)
			buf = append(buf, x.encode(rg.coin(), []string{it})...)
		}
		for _, raw := range []bool{false, true} {
			x.g.emit("C07 senc %s %s %s", c.name, boolStr(raw), strings.Join(items, " "))
		}
		x.emitSdec(rg.intn(4) == 0, x.chunk(), slot(tys), buf)
	}
}

// single points: SetBytes / Unmarshal / Decode on a receiver that already holds a point
func (x *c07Gen) pointHistoryOps(g *c07Group) {
	c := x.c
	inf := c07Pt{inf: true}
	q := x.subPoint(g)
	for _, prev := range []c07Pt{g.gen(), x.subPoint(g)} {
		var bufs [][]byte
		if g.hasComp {
			bufs = append(bufs, g.enc(inf), g.enc(q))
			bi := g.enc(inf)
			bi[len(bi)-1] = 1
			bufs = append(bufs, bi)
		}
		raw := g.encRaw(q)
		ri := g.encRaw(inf)
		ri2 := append([]byte{}, ri...)
		ri2[len(ri2)-1] = 1
		bufs = append(bufs, ri, raw, ri2, raw[:len(raw)-1], nil)
		for _, b := range bufs {
			x.g.emit("C07 dec %s %s 1 %s>%s", c.name, g.name, prev, hexBytes(b))
			if c.hasStream {
				x.g.emit("C07 dec %s %s 0 %s>%s", c.name, g.name, prev, hexBytes(b))
			}
		}
	}
}

func (x *c07Gen) compFlag(large bool) byte {
	if x.c.layout == 2 {
		if large {
			return 0xc0
		}
		return 0x80
	}
	if large {
		return 0xa0
	}
	return 0x80
}
func (x *c07Gen) infFlag() byte {
	if x.c.layout == 2 {
		return 0x40
	}
	return 0xc0
}

func genC07(g *gen) {
	genC07Ted(g)
	for i, name := range c07CurveNames {
		c := c07Curves[name]
		x := &c07Gen{g: g, c: c}
		g.emit("C07 params %s", name)
		x.pointOps(c.g1)
		x.pointHistoryOps(c.g1)
		if c.g2 != nil {
			x.pointOps(c.g2)
			x.pointHistoryOps(c.g2)
		}
		if c.hasStream {
			x.streamOps(i == 0)
			x.compositeOps()
		}
	}
}
