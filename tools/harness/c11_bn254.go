package main

// C11 adapter for one kzg package. c11_bn254.go is the master copy; the six other c11_<curve>.go files are produced
// from it by c11_adapters.sh (sed on the import paths and the type name only).

import (
	"bytes"
	"crypto/sha256"
	"math/big"
	"reflect"
	"strings"

	curve "github.com/consensys/gnark-crypto/ecc/bn254"
	"github.com/consensys/gnark-crypto/ecc/bn254/fr"
	"github.com/consensys/gnark-crypto/ecc/bn254/kzg"
	fiatshamir "github.com/consensys/gnark-crypto/fiat-shamir"
)

type kzgBn254 struct{}

func init() { kzgCurves["bn254"] = kzgBn254{} }

func (kzgBn254) modulus() *big.Int { return fr.Modulus() }
func (kzgBn254) gen4() *big.Int {
	t, err := fr.Generator(4)
	if err != nil {
		return nil
	}
	return t.BigInt(new(big.Int))
}
func (kzgBn254) frs(xs []*big.Int) []fr.Element {
	out := make([]fr.Element, len(xs))
	for i := range xs {
		out[i].SetBigInt(xs[i])
	}
	return out
}
func (kzgBn254) bigs(xs []fr.Element) []*big.Int {
	out := make([]*big.Int, len(xs))
	for i := range xs {
		out[i] = xs[i].BigInt(new(big.Int))
	}
	return out
}
func (kzgBn254) pts(xs []any) []curve.G1Affine {
	out := make([]curve.G1Affine, len(xs))
	for i := range xs {
		out[i] = xs[i].(curve.G1Affine)
	}
	return out
}
func (kzgBn254) g1(s *big.Int) any {
	var p curve.G1Affine
	p.ScalarMultiplicationBase(new(big.Int).Mod(s, fr.Modulus()))
	return p
}
func (kzgBn254) g1eq(a, b any) bool {
	x, y := a.(curve.G1Affine), b.(curve.G1Affine)
	return x.Equal(&y)
}
func (kzgBn254) newSRS(size uint64, tau *big.Int) (any, error) {
	s, err := kzg.NewSRS(size, tau)
	if err != nil {
		return nil, err
	}
	return s, nil
}

// Pk.G1[i] = [τⁱ]G₁, Vk.G1 = G₁, Vk.G2 = (G₂,[τ]G₂), Vk.Lines = PrecomputeLines(Vk.G2)
func (k kzgBn254) srsOK(s any, tau *big.Int) bool {
	srs := s.(*kzg.SRS)
	_, _, g1, g2 := curve.Generators()
	r := fr.Modulus()
	pw := big.NewInt(1)
	for i := range srs.Pk.G1 {
		if !k.g1eq(srs.Pk.G1[i], k.g1(pw)) {
			return false
		}
		pw = new(big.Int).Mod(new(big.Int).Mul(pw, tau), r)
	}
	var t2 curve.G2Affine
	t2.ScalarMultiplication(&g2, new(big.Int).Mod(tau, r))
	return srs.Vk.G1.Equal(&g1) && srs.Vk.G2[0].Equal(&g2) && srs.Vk.G2[1].Equal(&t2) &&
		srs.Vk.Lines[0] == curve.PrecomputeLines(srs.Vk.G2[0]) && srs.Vk.Lines[1] == curve.PrecomputeLines(srs.Vk.G2[1])
}
func (k kzgBn254) commit(p []*big.Int, s any) (any, error) {
	d, err := kzg.Commit(k.frs(p), s.(*kzg.SRS).Pk)
	return d, err
}
func (k kzgBn254) open(p []*big.Int, z *big.Int, s any) (any, *big.Int, error) {
	pr, err := kzg.Open(k.frs(p), k.frs([]*big.Int{z})[0], s.(*kzg.SRS).Pk)
	return pr.H, pr.ClaimedValue.BigInt(new(big.Int)), err
}
func (k kzgBn254) verify(c, h any, v, z *big.Int, s any) error {
	d := c.(curve.G1Affine)
	pr := kzg.OpeningProof{H: h.(curve.G1Affine), ClaimedValue: k.frs([]*big.Int{v})[0]}
	return kzg.Verify(&d, &pr, k.frs([]*big.Int{z})[0], s.(*kzg.SRS).Vk)
}

// replica of the unexported deriveGamma (hash = sha256, no extra transcript data)
func (k kzgBn254) gamma(z *big.Int, ds []any, vs []*big.Int) *big.Int {
	fs := fiatshamir.NewTranscript(sha256.New(), "gamma")
	pt := k.frs([]*big.Int{z})[0]
	_ = fs.Bind("gamma", pt.Marshal())
	for _, d := range k.pts(ds) {
		_ = fs.Bind("gamma", d.Marshal())
	}
	for _, v := range k.frs(vs) {
		_ = fs.Bind("gamma", v.Marshal())
	}
	b, err := fs.ComputeChallenge("gamma")
	if err != nil {
		return nil
	}
	var g fr.Element
	g.SetBytes(b)
	return g.BigInt(new(big.Int))
}
func (k kzgBn254) batchOpen(ps [][]*big.Int, ds []any, z *big.Int, s any) (any, []*big.Int, error) {
	polys := make([][]fr.Element, len(ps))
	for i := range ps {
		polys[i] = k.frs(ps[i])
	}
	pr, err := kzg.BatchOpenSinglePoint(polys, k.pts(ds), k.frs([]*big.Int{z})[0], sha256.New(), s.(*kzg.SRS).Pk)
	return pr.H, k.bigs(pr.ClaimedValues), err
}
func (k kzgBn254) foldProof(ds []any, h any, vs []*big.Int, z *big.Int) (any, *big.Int, any, error) {
	bp := kzg.BatchOpeningProof{H: h.(curve.G1Affine), ClaimedValues: k.frs(vs)}
	pr, d, err := kzg.FoldProof(k.pts(ds), &bp, k.frs([]*big.Int{z})[0], sha256.New())
	return pr.H, pr.ClaimedValue.BigInt(new(big.Int)), d, err
}
func (k kzgBn254) batchVerify1(ds []any, h any, vs []*big.Int, z *big.Int, s any) error {
	bp := kzg.BatchOpeningProof{H: h.(curve.G1Affine), ClaimedValues: k.frs(vs)}
	return kzg.BatchVerifySinglePoint(k.pts(ds), &bp, k.frs([]*big.Int{z})[0], sha256.New(), s.(*kzg.SRS).Vk)
}
func (k kzgBn254) batchVerifyN(ds, hs []any, vs, zs []*big.Int, s any) error {
	prs := make([]kzg.OpeningProof, len(hs))
	fv := k.frs(vs)
	for i := range hs {
		prs[i].H = hs[i].(curve.G1Affine)
		if i < len(fv) {
			prs[i].ClaimedValue = fv[i]
		}
	}
	return kzg.BatchVerifyMultiPoints(k.pts(ds), prs, k.frs(zs), s.(*kzg.SRS).Vk)
}
func (kzgBn254) vkBytes(s any) []byte {
	var b bytes.Buffer
	_, _ = s.(*kzg.SRS).Vk.WriteRawTo(&b)
	return b.Bytes()
}

// serialisation round trips; "" = ok, otherwise a short reason
func (k kzgBn254) ser(kind string, s any, h any, vs []*big.Int) string {
	srs := s.(*kzg.SRS)
	var b bytes.Buffer
	chk := func(nw int64, ew error, total int, nr int64, er error, same bool) string {
		switch {
		case ew != nil:
			return "write:" + kzgErr(ew)
		case er != nil:
			return "read:" + kzgErr(er) + ":" + strings.ReplaceAll(er.Error(), " ", "_")
		case nw != int64(total) || nr != int64(total):
			return "count"
		case !same:
			return "differs"
		}
		return ""
	}
	switch kind {
	case "srs", "srsraw", "srsunsafe", "srsunsafec":
		var nw int64
		var ew error
		if kind == "srs" || kind == "srsunsafec" {
			nw, ew = srs.WriteTo(&b)
		} else {
			nw, ew = srs.WriteRawTo(&b)
		}
		total := b.Len()
		var back kzg.SRS
		var nr int64
		var er error
		if kind == "srs" || kind == "srsraw" {
			nr, er = back.ReadFrom(&b)
		} else {
			nr, er = back.UnsafeReadFrom(&b)
		}
		return chk(nw, ew, total, nr, er, reflect.DeepEqual(*srs, back))
	case "pk", "pkraw", "pkunsafe":
		var nw int64
		var ew error
		if kind == "pk" {
			nw, ew = srs.Pk.WriteTo(&b)
		} else {
			nw, ew = srs.Pk.WriteRawTo(&b)
		}
		total := b.Len()
		var back kzg.ProvingKey
		var nr int64
		var er error
		if kind == "pkunsafe" {
			nr, er = back.UnsafeReadFrom(&b)
		} else {
			nr, er = back.ReadFrom(&b)
		}
		return chk(nw, ew, total, nr, er, reflect.DeepEqual(srs.Pk, back))
	case "vk", "vkraw":
		var nw int64
		var ew error
		if kind == "vk" {
			nw, ew = srs.Vk.WriteTo(&b)
		} else {
			nw, ew = srs.Vk.WriteRawTo(&b)
		}
		total := b.Len()
		var back kzg.VerifyingKey
		nr, er := back.ReadFrom(&b)
		return chk(nw, ew, total, nr, er, reflect.DeepEqual(srs.Vk, back))
	case "dump":
		ew := srs.WriteDump(&b)
		total := b.Len()
		var back kzg.SRS
		er := back.ReadDump(&b)
		return chk(int64(total), ew, total, int64(total), er, b.Len() == 0 && reflect.DeepEqual(*srs, back))
	case "proof":
		pr := kzg.OpeningProof{H: h.(curve.G1Affine), ClaimedValue: k.frs(vs)[0]}
		nw, ew := pr.WriteTo(&b)
		total := b.Len()
		var back kzg.OpeningProof
		nr, er := back.ReadFrom(&b)
		return chk(nw, ew, total, nr, er, back.H.Equal(&pr.H) && back.ClaimedValue.Equal(&pr.ClaimedValue))
	case "bproof":
		pr := kzg.BatchOpeningProof{H: h.(curve.G1Affine), ClaimedValues: k.frs(vs)}
		nw, ew := pr.WriteTo(&b)
		total := b.Len()
		var back kzg.BatchOpeningProof
		nr, er := back.ReadFrom(&b)
		same := back.H.Equal(&pr.H) && len(back.ClaimedValues) == len(pr.ClaimedValues)
		for i := 0; same && i < len(pr.ClaimedValues); i++ {
			same = back.ClaimedValues[i].Equal(&pr.ClaimedValues[i])
		}
		return chk(nw, ew, total, nr, er, same)
	case "mpc0", "mpc1", "mpc2":
		// setup transcript after 0/1/2 contributions: WriteTo → ReadFrom → WriteTo gives the same bytes,
		// the read-back transcript is accepted as successor of its predecessor, and sealing it gives the same SRS
		n := len(srs.Pk.G1)
		cur := kzg.InitializeSetup(n)
		prev := kzg.InitializeSetup(n)
		rounds := int(kind[3] - '0')
		for i := 0; i < rounds; i++ {
			if i > 0 { // prev := copy of cur (the only copying API is the serialisation itself)
				var t bytes.Buffer
				if _, err := cur.WriteTo(&t); err != nil {
					return "copy-write:" + kzgErr(err)
				}
				prev = kzg.MpcSetup{}
				if _, err := prev.ReadFrom(&t); err != nil {
					return "copy-read:" + kzgErr(err)
				}
			}
			cur.Contribute()
			if err := prev.Verify(&cur); err != nil {
				return "verify-honest"
			}
		}
		nw, ew := cur.WriteTo(&b)
		first := append([]byte{}, b.Bytes()...)
		var back kzg.MpcSetup
		nr, er := back.ReadFrom(&b)
		if r := chk(nw, ew, len(first), nr, er, true); r != "" {
			return r
		}
		var b2 bytes.Buffer
		if _, err := back.WriteTo(&b2); err != nil {
			return "write2:" + kzgErr(err)
		}
		if !bytes.Equal(first, b2.Bytes()) {
			return "rewrite-differs"
		}
		if rounds > 0 {
			if err := prev.Verify(&back); err != nil {
				return "verify-readback"
			}
		}
		s1 := cur.Seal([]byte("beacon"))
		s2 := back.Seal([]byte("beacon"))
		if !reflect.DeepEqual(s1.Pk, s2.Pk) || s1.Vk.G2 != s2.Vk.G2 || s1.Vk.Lines != s2.Vk.Lines {
			return "seal-differs"
		}
		if !s1.Vk.G1.Equal(&s2.Vk.G1) {
			// consequence: honest proofs with a non-zero claimed value are rejected under the sealed read-back key
			poly := k.frs([]*big.Int{big.NewInt(3), big.NewInt(1)})
			cm, _ := kzg.Commit(poly, s2.Pk)
			pr, _ := kzg.Open(poly, poly[0], s2.Pk)
			if kzg.Verify(&cm, &pr, poly[0], s2.Vk) != nil && kzg.Verify(&cm, &pr, poly[0], s1.Vk) == nil {
				return "seal-vk-g1-differs+honest-proof-rejected"
			}
			return "seal-vk-g1-differs"
		}
		return ""
	}
	return "bad-kind"
}
