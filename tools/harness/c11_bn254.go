package main

// C11 adapter for one kzg package. c11_bn254.go is the master copy; the six other c11_<curve>.go files are produced
// from it by c11_adapters.sh (sed on the import paths and the type name only).

import (
	"bytes"
	"crypto/sha256"
	"fmt"
	"io"
	"math/big"
	"reflect"
	"strings"

	curve "github.com/consensys/gnark-crypto/ecc/bn254"
	"github.com/consensys/gnark-crypto/ecc/bn254/fr"
	"github.com/consensys/gnark-crypto/ecc/bn254/kzg"
	fiatshamir "github.com/consensys/gnark-crypto/fiat-shamir"
)

type kzgBn254 struct{}

func init() { kzgCurves["bn254"] = kzgBn254{} }

func (kzgBn254) modulus() *big.Int { return fr.Modulus() }
func (kzgBn254) gen4() *big.Int {
	t, err := fr.Generator(4)
	if err != nil {
		return nil
	}
	return t.BigInt(new(big.Int))
}
func (kzgBn254) frs(xs []*big.Int) []fr.Element {
	out := make([]fr.Element, len(xs))
	for i := range xs {
		out[i].SetBigInt(xs[i])
	}
	return out
}
func (kzgBn254) bigs(xs []fr.Element) []*big.Int {
	out := make([]*big.Int, len(xs))
	for i := range xs {
		out[i] = xs[i].BigInt(new(big.Int))
	}
	return out
}
func (kzgBn254) pts(xs []any) []curve.G1Affine {
	out := make([]curve.G1Affine, len(xs))
	for i := range xs {
		out[i] = xs[i].(curve.G1Affine)
	}
	return out
}
func (kzgBn254) g1(s *big.Int) any {
	var p curve.G1Affine
	p.ScalarMultiplicationBase(new(big.Int).Mod(s, fr.Modulus()))
	return p
}
func (kzgBn254) g1eq(a, b any) bool {
	x, y := a.(curve.G1Affine), b.(curve.G1Affine)
	return x.Equal(&y)
}
func (kzgBn254) newSRS(size uint64, tau *big.Int) (any, error) {
	s, err := kzg.NewSRS(size, tau)
	if err != nil {
		return nil, err
	}
	return s, nil
}

// Pk.G1[i] = [τⁱ]G₁, Vk.G1 = G₁, Vk.G2 = (G₂,[τ]G₂), Vk.Lines = PrecomputeLines(Vk.G2)
func (k kzgBn254) srsOK(s any, tau *big.Int) bool {
	srs := s.(*kzg.SRS)
	_, _, g1, g2 := curve.Generators()
	r := fr.Modulus()
	pw := big.NewInt(1)
	for i := range srs.Pk.G1 {
		if !k.g1eq(srs.Pk.G1[i], k.g1(pw)) {
			return false
		}
		pw = new(big.Int).Mod(new(big.Int).Mul(pw, tau), r)
	}
	var t2 curve.G2Affine
	t2.ScalarMultiplication(&g2, new(big.Int).Mod(tau, r))
	return srs.Vk.G1.Equal(&g1) && srs.Vk.G2[0].Equal(&g2) && srs.Vk.G2[1].Equal(&t2) &&
		srs.Vk.Lines[0] == curve.PrecomputeLines(srs.Vk.G2[0]) && srs.Vk.Lines[1] == curve.PrecomputeLines(srs.Vk.G2[1])
}
func (k kzgBn254) commit(p []*big.Int, s any) (any, error) {
	d, err := kzg.Commit(k.frs(p), s.(*kzg.SRS).Pk)
	return d, err
}
func (k kzgBn254) open(p []*big.Int, z *big.Int, s any) (any, *big.Int, error) {
	pr, err := kzg.Open(k.frs(p), k.frs([]*big.Int{z})[0], s.(*kzg.SRS).Pk)
	return pr.H, pr.ClaimedValue.BigInt(new(big.Int)), err
}
func (k kzgBn254) verify(c, h any, v, z *big.Int, s any) error {
	d := c.(curve.G1Affine)
	pr := kzg.OpeningProof{H: h.(curve.G1Affine), ClaimedValue: k.frs([]*big.Int{v})[0]}
	return kzg.Verify(&d, &pr, k.frs([]*big.Int{z})[0], s.(*kzg.SRS).Vk)
}

// replica of the unexported deriveGamma (hash = sha256, no extra transcript data)
func (k kzgBn254) gamma(z *big.Int, ds []any, vs []*big.Int) *big.Int {
	fs := fiatshamir.NewTranscript(sha256.New(), "gamma")
	pt := k.frs([]*big.Int{z})[0]
	_ = fs.Bind("gamma", pt.Marshal())
	for _, d := range k.pts(ds) {
		_ = fs.Bind("gamma", d.Marshal())
	}
	for _, v := range k.frs(vs) {
		_ = fs.Bind("gamma", v.Marshal())
	}
	b, err := fs.ComputeChallenge("gamma")
	if err != nil {
		return nil
	}
	var g fr.Element
	g.SetBytes(b)
	return g.BigInt(new(big.Int))
}
func (k kzgBn254) batchOpen(ps [][]*big.Int, ds []any, z *big.Int, s any) (any, []*big.Int, error) {
	polys := make([][]fr.Element, len(ps))
	for i := range ps {
		polys[i] = k.frs(ps[i])
	}
	pr, err := kzg.BatchOpenSinglePoint(polys, k.pts(ds), k.frs([]*big.Int{z})[0], sha256.New(), s.(*kzg.SRS).Pk)
	return pr.H, k.bigs(pr.ClaimedValues), err
}
func (k kzgBn254) foldProof(ds []any, h any, vs []*big.Int, z *big.Int) (any, *big.Int, any, error) {
	bp := kzg.BatchOpeningProof{H: h.(curve.G1Affine), ClaimedValues: k.frs(vs)}
	pr, d, err := kzg.FoldProof(k.pts(ds), &bp, k.frs([]*big.Int{z})[0], sha256.New())
	return pr.H, pr.ClaimedValue.BigInt(new(big.Int)), d, err
}
func (k kzgBn254) batchVerify1(ds []any, h any, vs []*big.Int, z *big.Int, s any) error {
	bp := kzg.BatchOpeningProof{H: h.(curve.G1Affine), ClaimedValues: k.frs(vs)}
	return kzg.BatchVerifySinglePoint(k.pts(ds), &bp, k.frs([]*big.Int{z})[0], sha256.New(), s.(*kzg.SRS).Vk)
}
func (k kzgBn254) batchVerifyN(ds, hs []any, vs, zs []*big.Int, s any) error {
	prs := make([]kzg.OpeningProof, len(hs))
	fv := k.frs(vs)
	for i := range hs {
		prs[i].H = hs[i].(curve.G1Affine)
		if i < len(fv) {
			prs[i].ClaimedValue = fv[i]
		}
	}
	return kzg.BatchVerifyMultiPoints(k.pts(ds), prs, k.frs(zs), s.(*kzg.SRS).Vk)
}
func (kzgBn254) vkBytes(s any) []byte {
	var b bytes.Buffer
	_, _ = s.(*kzg.SRS).Vk.WriteRawTo(&b)
	return b.Bytes()
}

// serialisation round trips; "" = ok, otherwise a short reason
func (k kzgBn254) ser(kind string, s any, h any, vs []*big.Int) string {
	srs := s.(*kzg.SRS)
	var b bytes.Buffer
	chk := func(nw int64, ew error, total int, nr int64, er error, same bool) string {
		switch {
		case ew != nil:
			return "write:" + kzgErr(ew)
		case er != nil:
			return "read:" + kzgErr(er) + ":" + strings.ReplaceAll(er.Error(), " ", "_")
		case nw != int64(total) || nr != int64(total):
			return "count"
		case !same:
			return "differs"
		}
		return ""
	}
	switch kind {
	case "srs", "srsraw", "srsunsafe", "srsunsafec":
		var nw int64
		var ew error
		if kind == "srs" || kind == "srsunsafec" {
			nw, ew = srs.WriteTo(&b)
		} else {
			nw, ew = srs.WriteRawTo(&b)
		}
		total := b.Len()
		var back kzg.SRS
		var nr int64
		var er error
		if kind == "srs" || kind == "srsraw" {
			nr, er = back.ReadFrom(&b)
		} else {
			nr, er = back.UnsafeReadFrom(&b)
		}
		return chk(nw, ew, total, nr, er, reflect.DeepEqual(*srs, back))
	case "pk", "pkraw", "pkunsafe":
		var nw int64
		var ew error
		if kind == "pk" {
			nw, ew = srs.Pk.WriteTo(&b)
		} else {
			nw, ew = srs.Pk.WriteRawTo(&b)
		}
		total := b.Len()
		var back kzg.ProvingKey
		var nr int64
		var er error
		if kind == "pkunsafe" {
			nr, er = back.UnsafeReadFrom(&b)
		} else {
			nr, er = back.ReadFrom(&b)
		}
		return chk(nw, ew, total, nr, er, reflect.DeepEqual(srs.Pk, back))
	case "vk", "vkraw":
		var nw int64
		var ew error
		if kind == "vk" {
			nw, ew = srs.Vk.WriteTo(&b)
		} else {
			nw, ew = srs.Vk.WriteRawTo(&b)
		}
		total := b.Len()
		var back kzg.VerifyingKey
		nr, er := back.ReadFrom(&b)
		return chk(nw, ew, total, nr, er, reflect.DeepEqual(srs.Vk, back))
	case "dump":
		ew := srs.WriteDump(&b)
		total := b.Len()
		var back kzg.SRS
		er := back.ReadDump(&b)
		return chk(int64(total), ew, total, int64(total), er, b.Len() == 0 && reflect.DeepEqual(*srs, back))
	case "proof":
		pr := kzg.OpeningProof{H: h.(curve.G1Affine), ClaimedValue: k.frs(vs)[0]}
		nw, ew := pr.WriteTo(&b)
		total := b.Len()
		var back kzg.OpeningProof
		nr, er := back.ReadFrom(&b)
		return chk(nw, ew, total, nr, er, back.H.Equal(&pr.H) && back.ClaimedValue.Equal(&pr.ClaimedValue))
	case "bproof":
		pr := kzg.BatchOpeningProof{H: h.(curve.G1Affine), ClaimedValues: k.frs(vs)}
		nw, ew := pr.WriteTo(&b)
		total := b.Len()
		var back kzg.BatchOpeningProof
		nr, er := back.ReadFrom(&b)
		same := back.H.Equal(&pr.H) && len(back.ClaimedValues) == len(pr.ClaimedValues)
		for i := 0; same && i < len(pr.ClaimedValues); i++ {
			same = back.ClaimedValues[i].Equal(&pr.ClaimedValues[i])
		}
		return chk(nw, ew, total, nr, er, same)
	case "mpc0", "mpc1", "mpc2":
		// setup transcript after 0/1/2 contributions: WriteTo → ReadFrom → WriteTo gives the same bytes,
		// the read-back transcript is accepted as successor of its predecessor, and sealing it gives the same SRS
		n := len(srs.Pk.G1)
		cur := kzg.InitializeSetup(n)
		prev := kzg.InitializeSetup(n)
		rounds := int(kind[3] - '0')
		for i := 0; i < rounds; i++ {
			if i > 0 { // prev := copy of cur (the only copying API is the serialisation itself)
				var t bytes.Buffer
				if _, err := cur.WriteTo(&t); err != nil {
					return "copy-write:" + kzgErr(err)
				}
				prev = kzg.MpcSetup{}
				if _, err := prev.ReadFrom(&t); err != nil {
					return "copy-read:" + kzgErr(err)
				}
			}
			cur.Contribute()
			if err := prev.Verify(&cur); err != nil {
				return "verify-honest"
			}
		}
		nw, ew := cur.WriteTo(&b)
		first := append([]byte{}, b.Bytes()...)
		var back kzg.MpcSetup
		nr, er := back.ReadFrom(&b)
		if r := chk(nw, ew, len(first), nr, er, true); r != "" {
			return r
		}
		var b2 bytes.Buffer
		if _, err := back.WriteTo(&b2); err != nil {
			return "write2:" + kzgErr(err)
		}
		if !bytes.Equal(first, b2.Bytes()) {
			return "rewrite-differs"
		}
		if rounds > 0 {
			if err := prev.Verify(&back); err != nil {
				return "verify-readback"
			}
		}
		s1 := cur.Seal([]byte("beacon"))
		s2 := back.Seal([]byte("beacon"))
		if !reflect.DeepEqual(s1.Pk, s2.Pk) || s1.Vk.G2 != s2.Vk.G2 || s1.Vk.Lines != s2.Vk.Lines {
			return "seal-differs"
		}
		if !s1.Vk.G1.Equal(&s2.Vk.G1) {
			// consequence: honest proofs with a non-zero claimed value are rejected under the sealed read-back key
			poly := k.frs([]*big.Int{big.NewInt(3), big.NewInt(1)})
			cm, _ := kzg.Commit(poly, s2.Pk)
			pr, _ := kzg.Open(poly, poly[0], s2.Pk)
			if kzg.Verify(&cm, &pr, poly[0], s2.Vk) != nil && kzg.Verify(&cm, &pr, poly[0], s1.Vk) == nil {
				return "seal-vk-g1-differs+honest-proof-rejected"
			}
			return "seal-vk-g1-differs"
		}
		return ""
	}
	return "bad-kind"
}

// ---- objects on shared readers / re-used destinations ------------------------------------------------------------

// codec of one object kind: writer of the source object, reader into the destination dst (a fresh object when dst is nil or of
// another type), equality of the destination with the source. Counts are -1 when the API reports none (dump).
func (k kzgBn254) codec(kind string, s any, h any, vs []*big.Int, dst any) (c11codec, any) {
	var srs *kzg.SRS
	if s != nil {
		srs = s.(*kzg.SRS)
	}
	switch kind {
	case "srs", "srsraw", "srsunsafe", "srsunsafec", "dump":
		d, ok := dst.(*kzg.SRS)
		if !ok {
			d = new(kzg.SRS)
		}
		cd := c11codec{same: func() string {
			if !reflect.DeepEqual(*srs, *d) {
				return fmt.Sprintf("differs(%d-points)", len(d.Pk.G1))
			}
			return ""
		}}
		switch kind {
		case "srs", "srsunsafec":
			cd.write = srs.WriteTo
		case "dump":
			cd.write = func(w io.Writer) (int64, error) { return -1, srs.WriteDump(w) }
		default:
			cd.write = srs.WriteRawTo
		}
		switch kind {
		case "srs", "srsraw":
			cd.read = d.ReadFrom
		case "dump":
			cd.read = func(r io.Reader) (int64, error) { return -1, d.ReadDump(r) }
		default:
			cd.read = d.UnsafeReadFrom
		}
		return cd, d
	case "pk", "pkraw", "pkunsafe":
		d, ok := dst.(*kzg.ProvingKey)
		if !ok {
			d = new(kzg.ProvingKey)
		}
		cd := c11codec{write: srs.Pk.WriteRawTo, read: d.ReadFrom, same: func() string {
			if !reflect.DeepEqual(srs.Pk, *d) {
				return fmt.Sprintf("differs(%d-points)", len(d.G1))
			}
			return ""
		}}
		if kind == "pk" {
			cd.write = srs.Pk.WriteTo
		}
		if kind == "pkunsafe" {
			cd.read = d.UnsafeReadFrom
		}
		return cd, d
	case "vk", "vkraw":
		d, ok := dst.(*kzg.VerifyingKey)
		if !ok {
			d = new(kzg.VerifyingKey)
		}
		cd := c11codec{write: srs.Vk.WriteRawTo, read: d.ReadFrom, same: func() string {
			if !reflect.DeepEqual(srs.Vk, *d) {
				return "differs"
			}
			return ""
		}}
		if kind == "vk" {
			cd.write = srs.Vk.WriteTo
		}
		return cd, d
	case "proof":
		d, ok := dst.(*kzg.OpeningProof)
		if !ok {
			d = new(kzg.OpeningProof)
		}
		pr := kzg.OpeningProof{H: h.(curve.G1Affine)}
		if len(vs) > 0 {
			pr.ClaimedValue = k.frs(vs[:1])[0]
		}
		return c11codec{write: pr.WriteTo, read: d.ReadFrom, same: func() string {
			if !d.H.Equal(&pr.H) || !d.ClaimedValue.Equal(&pr.ClaimedValue) {
				return "differs"
			}
			return ""
		}}, d
	case "bproof":
		d, ok := dst.(*kzg.BatchOpeningProof)
		if !ok {
			d = new(kzg.BatchOpeningProof)
		}
		pr := kzg.BatchOpeningProof{H: h.(curve.G1Affine), ClaimedValues: k.frs(vs)}
		return c11codec{write: pr.WriteTo, read: d.ReadFrom, same: func() string {
			if !d.H.Equal(&pr.H) || len(d.ClaimedValues) != len(pr.ClaimedValues) {
				return fmt.Sprintf("differs(%d-values)", len(d.ClaimedValues))
			}
			for i := range pr.ClaimedValues {
				if !d.ClaimedValues[i].Equal(&pr.ClaimedValues[i]) {
					return "differs"
				}
			}
			return ""
		}}, d
	case "mpc1", "mpc2", "mpc3":
		// the transcript of a ceremony of its own after 1/2/3 contributions
		d, ok := dst.(*kzg.MpcSetup)
		if !ok {
			d = new(kzg.MpcSetup)
		}
		cur := kzg.InitializeSetup(len(srs.Pk.G1))
		for i := 0; i < int(kind[3]-'0'); i++ {
			cur.Contribute()
		}
		var first []byte
		return c11codec{
			write: func(w io.Writer) (int64, error) {
				var t bytes.Buffer
				n, err := cur.WriteTo(io.MultiWriter(w, &t))
				first = t.Bytes()
				return n, err
			},
			read: d.ReadFrom,
			same: func() string {
				var t bytes.Buffer
				if _, err := d.WriteTo(&t); err != nil || !bytes.Equal(first, t.Bytes()) {
					return "rewrite-differs"
				}
				return ""
			}}, d
	}
	return c11codec{}, nil
}

// the keys a destination object stands for (the missing half is taken from the reference string that was written)
func (kzgBn254) asSRS(dst any, written any) (any, int) {
	w := written.(*kzg.SRS)
	switch d := dst.(type) {
	case *kzg.SRS:
		return d, len(d.Pk.G1)
	case *kzg.ProvingKey:
		return &kzg.SRS{Pk: *d, Vk: w.Vk}, len(d.G1)
	case *kzg.VerifyingKey:
		return &kzg.SRS{Pk: w.Pk, Vk: *d}, len(w.Pk.G1)
	}
	return w, -1
}
func (k kzgBn254) proofOf(dst any) (any, []*big.Int) {
	switch d := dst.(type) {
	case *kzg.OpeningProof:
		return d.H, k.bigs([]fr.Element{d.ClaimedValue})
	case *kzg.BatchOpeningProof:
		return d.H, k.bigs(d.ClaimedValues)
	}
	return curve.G1Affine{}, nil
}

// a ceremony of `rounds` contributions on n points; every transcript is serialised as it is produced; then the chain is read
// back and verified link by link (prev.Verify(&q); prev = q). mode:
//   fresh  : every transcript from its own reader into a fresh variable
//   reuse  : every transcript from its own reader into ONE variable q (prev = q is a struct copy)
//   stream / streamreuse : all transcripts (+ trailer bytes) on ONE reader made by mk; the position is checked after each read
// drop >= 0: that transcript is left out of the chain (the link after it must be refused).
func (k kzgBn254) mpcChain(mode string, n, rounds, drop, trailer int, mk func([]byte) (io.Reader, func() int)) string {
	cur := kzg.InitializeSetup(n)
	var phases [][]byte
	for i := 0; i < rounds; i++ {
		cur.Contribute()
		var t bytes.Buffer
		nw, err := cur.WriteTo(&t)
		if err != nil || nw != int64(t.Len()) {
			return "0:write"
		}
		if i != drop {
			phases = append(phases, t.Bytes())
		}
	}
	var all []byte
	for _, p := range phases {
		all = append(all, p...)
	}
	for i := 0; i < trailer; i++ {
		all = append(all, byte(i*37+11))
	}
	var shared io.Reader
	var pos func() int
	if strings.HasPrefix(mode, "stream") {
		shared, pos = mk(all)
	}
	prev := kzg.InitializeSetup(n)
	var q kzg.MpcSetup
	var out []string
	exp := 0
	for i := range phases {
		r := shared
		if r == nil {
			r, _ = mk(phases[i])
		}
		if mode == "fresh" || mode == "stream" {
			q = kzg.MpcSetup{}
		}
		nr, err := q.ReadFrom(r)
		exp += len(phases[i])
		switch {
		case err != nil:
			return join(append(out, "0:read:"+strings.ReplaceAll(err.Error(), " ", "_")))
		case nr != int64(len(phases[i])):
			return join(append(out, "0:count"))
		case pos != nil && pos() != exp:
			return join(append(out, fmt.Sprintf("0:pos:%d/%d", pos(), exp)))
		}
		if err := prev.Verify(&q); err != nil {
			out = append(out, "0")
			if i != drop { // i == drop is the link that must be refused: go on from the transcript that was read
				return join(out)
			}
		} else {
			out = append(out, "1")
		}
		prev = q
	}
	if shared != nil {
		rest, _ := io.ReadAll(shared)
		if len(rest) != trailer {
			return join(append(out, fmt.Sprintf("0:trailer:%d", len(rest))))
		}
	}
	return join(out)
}

// Seal hands out a reference string; `after` then goes on using the setup (a second Seal, a Contribute, a serialisation round
// trip). The string handed out must stay what it was, and honest proofs made with it must verify under its own key.
func (k kzgBn254) seal(n, rounds int, after string) string {
	cur := kzg.InitializeSetup(n)
	for i := 0; i < rounds; i++ {
		cur.Contribute()
	}
	srs := cur.Seal([]byte("beacon"))
	var b0, b1 bytes.Buffer
	if _, err := srs.WriteRawTo(&b0); err != nil {
		return "0:write"
	}
	for _, a := range strings.Split(after, "+") {
		switch a {
		case "none":
		case "seal":
			_ = cur.Seal([]byte("other beacon"))
		case "contribute":
			cur.Contribute()
		case "write":
			var t bytes.Buffer
			_, _ = cur.WriteTo(&t)
		default:
			return "bad-op"
		}
	}
	_, _ = srs.WriteRawTo(&b1)
	p := make([]*big.Int, n)
	for i := range p {
		p[i] = big.NewInt(int64(3 + 5*i))
	}
	cm, err := kzg.Commit(k.frs(p), srs.Pk)
	if err != nil {
		return boolStr(bytes.Equal(b0.Bytes(), b1.Bytes())) + " " + kzgErr(err)
	}
	pr, err := kzg.Open(k.frs(p), k.frs(p[:1])[0], srs.Pk)
	if err != nil {
		return boolStr(bytes.Equal(b0.Bytes(), b1.Bytes())) + " " + kzgErr(err)
	}
	return boolStr(bytes.Equal(b0.Bytes(), b1.Bytes())) + " " + kzgVerdict(kzg.Verify(&cm, &pr, k.frs(p[:1])[0], srs.Vk))
}
