package main

// C14 — Poseidon2: permutation, Compress, Merkle–Damgård hashers (registry / package constructor / generic constructor),
// koalabear/vortex sponge + compression.

import (
	"fmt"
	stdhash "hash"
	"math/big"
	"strings"

	kb "github.com/consensys/gnark-crypto/field/koalabear"
	"github.com/consensys/gnark-crypto/field/koalabear/vortex"
	"github.com/consensys/gnark-crypto/hash"
)

type p2Elem[T any] interface {
	*T
	SetBigInt(*big.Int) *T
	BigInt(*big.Int) *big.Int
}

type p2Perm[T any] interface {
	Permutation([]T) error
	Compress(l, r []byte) ([]byte, error)
	BlockSize() int
}

type p2Pkg struct {
	name, field string
	reg         hash.Hash
	newMD       func() stateStorer
	dflt        func() (int, int, int)
	keys        func(t, rf, rp int) string
	perm        func(t, rf, rp int, x []*big.Int) ([]*big.Int, error)
	comp        func(t, rf, rp int, l, r []byte) ([]byte, error)
	genMD       func(t, rf, rp int, iv []byte) stateStorer
}

func mkP2[T any, PT p2Elem[T]](name, field string, reg hash.Hash, newPerm func(t, rf, rp int) p2Perm[T],
	newKeys func(t, rf, rp int) [][]T, dflt func() (int, int, int), newMD func() stateStorer) p2Pkg {
	return p2Pkg{name: name, field: field, reg: reg, newMD: newMD, dflt: dflt,
		keys: func(t, rf, rp int) string {
			ks := newKeys(t, rf, rp)
			rows := make([]string, len(ks))
			for i, row := range ks {
				es := make([]string, len(row))
				for j := range row {
					var b big.Int
					PT(&row[j]).BigInt(&b)
					es[j] = b.Text(16)
				}
				rows[i] = strings.Join(es, ",")
			}
			if len(rows) == 0 {
				return "-"
			}
			return strings.Join(rows, ";")
		},
		perm: func(t, rf, rp int, x []*big.Int) ([]*big.Int, error) {
			p := newPerm(t, rf, rp)
			in := make([]T, len(x))
			for i := range x {
				PT(&in[i]).SetBigInt(x[i])
			}
			if err := p.Permutation(in); err != nil {
				return nil, err
			}
			out := make([]*big.Int, len(in))
			for i := range in {
				out[i] = new(big.Int)
				PT(&in[i]).BigInt(out[i])
			}
			return out, nil
		},
		comp: func(t, rf, rp int, l, r []byte) ([]byte, error) {
			return newPerm(t, rf, rp).Compress(l, r)
		},
		genMD: func(t, rf, rp int, iv []byte) stateStorer {
			return hash.NewMerkleDamgardHasher(newPerm(t, rf, rp), iv)
		},
	}
}

func p2ByName(n string) *p2Pkg {
	for i := range p2Pkgs {
		if p2Pkgs[i].name == n {
			return &p2Pkgs[i]
		}
	}
	return nil
}

func c14ParseBigs(s string) []*big.Int {
	if s == "-" {
		return nil
	}
	f := strings.Split(s, ",")
	out := make([]*big.Int, len(f))
	for i := range f {
		out[i] = parseBig(f[i])
	}
	return out
}

func c14ShowBigs(v []*big.Int) string {
	if len(v) == 0 {
		return "-"
	}
	s := make([]string, len(v))
	for i := range v {
		s[i] = v[i].Text(16)
	}
	return strings.Join(s, ",")
}

func c14Guard(f func() string) (res string) {
	defer func() {
		if r := recover(); r != nil {
			res = "panic"
		}
	}()
	return f()
}

func c14Hex(s string) int {
	var v int
	fmt.Sscanf(s, "%x", &v)
	return v
}

// p2perm|p2comp <pkg> <t> <rf> <rp> <keys> tokens… ; md <ctor> <pkg> <t> <rf> <rp> <keys> histories
func execP2(kind string, a []string) string {
	ctor := ""
	if kind == "md" {
		if len(a) < 1 {
			return "bad-op"
		}
		ctor, a = a[0], a[1:]
	}
	if len(a) < 5 {
		return "bad-op"
	}
	p := p2ByName(a[0])
	if p == nil {
		return "bad-op"
	}
	t, rf, rp := c14Hex(a[1]), c14Hex(a[2]), c14Hex(a[3])
	// the entry point under test runs first (it may be the first call of the process, see `fresh` in execC14); only then are
	// the keys on the line compared with NewParameters() and the parameters with GetDefaultParameters()
	res := execP2a(kind, ctor, p, t, rf, rp, a[5:])
	if k := c14Guard(func() string { return p.keys(t, rf, rp) }); k != a[4] {
		return "bad-keys"
	}
	if kind == "md" && (ctor == "reg" || ctor == "new" || ctor == "regsize") {
		if dt, drf, drp := p.dflt(); dt != t || drf != rf || drp != rp {
			return "bad-params"
		}
	}
	return res
}

func execP2a(kind, ctor string, p *p2Pkg, t, rf, rp int, toks []string) string {
	switch kind {
	case "p2perm":
		outs := make([]string, len(toks))
		for i, tok := range toks {
			outs[i] = c14Guard(func() string {
				y, err := p.perm(t, rf, rp, c14ParseBigs(tok))
				if err != nil {
					return "err"
				}
				return c14ShowBigs(y)
			})
		}
		return join(outs)
	case "p2comp":
		outs := make([]string, len(toks))
		for i, tok := range toks {
			outs[i] = c14Guard(func() string {
				f := strings.Split(tok, ":")
				if len(f) != 2 {
					return "bad-op"
				}
				l, r := c14MkSlice(parseBytes(f[0]), nil), c14MkSlice(parseBytes(f[1]), nil)
				y, err := p.comp(t, rf, rp, l, r)
				if err != nil {
					return "err"
				}
				return hexBytes(y)
			})
		}
		return join(outs)
	case "md":
		var fresh func() stdhash.Hash
		switch {
		case ctor == "regsize":
			if len(toks) != 0 {
				return "bad-op"
			}
			return c14RegSize(p.reg)
		case ctor == "reg":
			fresh = func() stdhash.Hash { return p.reg.New() }
		case ctor == "new":
			fresh = func() stdhash.Hash { return p.newMD() }
		case strings.HasPrefix(ctor, "gen:"), strings.HasPrefix(ctor, "genm:"):
			// generic constructor; genm: the caller's iv slice is overwritten right after construction
			iv := parseBytes(ctor[strings.Index(ctor, ":")+1:])
			fresh = func() stdhash.Hash {
				c := c14MkSlice(iv, nil)
				h := p.genMD(t, rf, rp, c)
				if strings.HasPrefix(ctor, "genm:") {
					c14Clobber(c)
				}
				return h
			}
		default:
			return "bad-op"
		}
		return c14Guard(func() string { return runHistories(fresh, toks, false) })
	}
	return "bad-op"
}

// vx comp <keys16> <a>:<b> … | vx hash <keys24> <x…> … | vx hash16 <keys24> <row0;…;row15> …
func c14ExecVx(a []string) string {
	if len(a) < 2 {
		return "bad-op"
	}
	// the helper under test runs first (see `fresh`), then the keys on the line are compared with NewParameters()
	res := c14ExecVx1(a)
	w := map[string]int{"comp": 16, "hash": 24, "hash16": 24}[a[0]]
	if w != 0 && a[1] != p2ByName("koalabear").keys(w, 6, 21) {
		return "bad-keys"
	}
	return res
}

func c14ExecVx1(a []string) string {
	toEl := func(v []*big.Int) []kb.Element {
		o := make([]kb.Element, len(v))
		for i := range v {
			o[i].SetBigInt(v[i])
		}
		return o
	}
	show := func(h vortex.Hash) string {
		o := make([]*big.Int, len(h))
		for i := range h {
			o[i] = new(big.Int)
			h[i].BigInt(o[i])
		}
		return c14ShowBigs(o)
	}
	outs := make([]string, len(a)-2)
	switch a[0] {
	case "comp":
		for i, tok := range a[2:] {
			outs[i] = c14Guard(func() string {
				f := strings.Split(tok, ":")
				if len(f) != 2 {
					return "bad-op"
				}
				var x, y vortex.Hash
				l, r := toEl(c14ParseBigs(f[0])), toEl(c14ParseBigs(f[1]))
				if len(l) != len(x) || len(r) != len(y) {
					return "bad-op"
				}
				copy(x[:], l)
				copy(y[:], r)
				return show(vortex.CompressPoseidon2(x, y))
			})
		}
	case "hash":
		for i, tok := range a[2:] {
			outs[i] = c14Guard(func() string { return show(vortex.HashPoseidon2(toEl(c14ParseBigs(tok)))) })
		}
	case "hash16":
		// 16 rows of equal length n (a multiple of 16) hashed at once into the caller's 16 leaves, which hold garbage
		for i, tok := range a[2:] {
			outs[i] = c14Guard(func() string {
				rows := strings.Split(tok, ";")
				if len(rows) != 16 {
					return "bad-op"
				}
				var flat []kb.Element
				n := -1
				for _, r := range rows {
					e := toEl(c14ParseBigs(r))
					if n >= 0 && len(e) != n {
						return "bad-op"
					}
					n = len(e)
					flat = append(flat, e...)
				}
				if n%16 != 0 {
					return "bad-op"
				}
				leaves := make([]vortex.Hash, 16)
				for j := range leaves {
					for k := range leaves[j] {
						leaves[j][k].SetUint64(0x9e3779b9*uint64(17*j+k+1) | 1)
					}
				}
				vortex.HashPoseidon2x16(flat, leaves, n)
				res := make([]string, len(leaves))
				for j := range leaves {
					res[j] = show(leaves[j])
				}
				return strings.Join(res, ";")
			})
		}
	default:
		return "bad-op"
	}
	return join(outs)
}

// ---------------------------------------------------------------- generation

func p2Widths(p *p2Pkg) []int {
	switch p.name {
	case "koalabear", "babybear":
		return []int{16, 24}
	case "goldilocks":
		return []int{8, 12}
	}
	return []int{2, 3}
}

func c14RandVec(g *gen, q *big.Int, n int) []*big.Int {
	v := make([]*big.Int, n)
	for i := range v {
		switch g.rng.intn(10) {
		case 0:
			v[i] = big.NewInt(0)
		case 1:
			v[i] = new(big.Int).Sub(q, big.NewInt(1))
		case 2:
			v[i] = big.NewInt(int64(g.rng.intn(3)))
		default:
			v[i] = g.rng.bigBelow(q)
		}
	}
	return v
}

func genP2(g *gen) {
	for pi := range p2Pkgs {
		p := &p2Pkgs[pi]
		f := fields[p.field]
		q := f.Q()
		dt, drf, drp := p.dflt()
		for _, t := range p2Widths(p) {
			params := [][2]int{{drf, drp}, {2, 1}, {0, 0}, {3, 2}, {4, 0}, {0, 3}}
			if g.thorough() {
				params = append(params, [2]int{8, 56}, [2]int{6, 1}, [2]int{1, 1})
			}
			for pj, pr := range params {
				rf, rp := pr[0], pr[1]
				hdr := fmt.Sprintf("%s %x %x %x %s", p.name, t, rf, rp, p.keys(t, rf, rp))
				// permutation: structured vectors, random, wrong lengths
				var toks []string
				zero := make([]*big.Int, t)
				top := make([]*big.Int, t)
				for i := range zero {
					zero[i] = big.NewInt(0)
					top[i] = new(big.Int).Sub(q, big.NewInt(1))
				}
				toks = append(toks, c14ShowBigs(zero), c14ShowBigs(top))
				for i := 0; i < t && (pj == 0 || i < 2); i++ {
					u := make([]*big.Int, t)
					for j := range u {
						u[j] = big.NewInt(0)
					}
					u[i] = big.NewInt(1)
					toks = append(toks, c14ShowBigs(u))
				}
				nr := g.budget(4, 40)
				if pj == 0 {
					nr = g.budget(12, 300)
				}
				for i := 0; i < nr; i++ {
					toks = append(toks, c14ShowBigs(c14RandVec(g, q, t)))
				}
				toks = append(toks, c14ShowBigs(c14RandVec(g, q, t-1)), c14ShowBigs(c14RandVec(g, q, t+1)), "-")
				g.emit("C14 p2perm %s %s", hdr, join(toks))
				// Compress
				eb := f.Bytes()
				n := t / 2
				al := &histAlphabet{size: n * eb, esize: eb, q: q}
				toks = nil
				for i := 0; i < g.budget(4, 60); i++ {
					toks = append(toks, hexBytes(al.block(g.rng, false))+":"+hexBytes(al.block(g.rng, false)))
				}
				B := func() []byte { return al.block(g.rng, false) }
				toks = append(toks,
					hexBytes(al.badBlock(g.rng))+":"+hexBytes(B()), hexBytes(B())+":"+hexBytes(al.badBlock(g.rng)),
					hexBytes(B()[1:])+":"+hexBytes(B()), hexBytes(B())+":"+hexBytes(B()[1:]),
					hexBytes(c14Cat(B(), []byte{0}))+":"+hexBytes(B()), hexBytes(B())+":"+hexBytes(c14Cat([]byte{0}, B())),
					"-:"+hexBytes(B()), hexBytes(B())+":-", "-:-",
					hexBytes(c14Cat(B(), B()))+":"+hexBytes(c14Cat(B(), B())))
				g.emit("C14 p2comp %s %s", hdr, join(toks))
				// generic Merkle–Damgård constructor over this permutation (curve packages: t = 2)
				if t == 2 && pj < 3 {
					al := &histAlphabet{size: eb, esize: eb, q: q, md: true}
					for _, iv := range [][]byte{make([]byte, eb), al.block(g.rng, false)} {
						h := fmt.Sprintf("C14 md gen:%s %s", hexBytes(iv), hdr)
						emitHistories(g, h, randomHistories(g, al, g.budget(20, 400), 10, 8), 32)
					}
					if pj == 0 {
						h := fmt.Sprintf("C14 md genm:%s %s", hexBytes(make([]byte, eb)), hdr)
						emitHistories(g, h, randomHistories(g, al, 4, 4, 0), 32)
					}
				}
			}
		}
		// registry + package constructor, default parameters
		eb := f.Bytes()
		al := &histAlphabet{size: (dt / 2) * eb, esize: eb, q: q, md: true}
		hdr := fmt.Sprintf("%s %x %x %x %s", p.name, dt, drf, drp, p.keys(dt, drf, drp))
		for _, ctor := range []string{"reg", "new"} {
			w := al.writeTokens(g.rng, true)
			o := al.otherTokens(g.rng, true)
			full := append(append([]string{}, w...), o...)
			small := dt != 2
			var hists [][]string
			switch {
			case small: // the registered small-field hashers refuse every write (finding): keep this short
				hists = c14Exhaustive([]string{w[0], w[3], w[4], o[0], o[3], o[4]}, 2)
			case ctor == "reg" && (p.name == "bn254" || g.thorough()):
				hists = c14Exhaustive(full, 2)
				hists = append(hists, c14Exhaustive([]string{w[1], w[3], w[4], w[6], w[7], w[10], o[0], o[1], o[3], o[4], o[5], o[6]}, 3)...)
				hists = append(hists, c14Exhaustive([]string{w[1], w[3], w[4], w[6], o[0], o[3], o[4], o[5], o[6]}, g.budget(4, 5))...)
			default:
				hists = c14Exhaustive(full, 2)
				hists = append(hists, c14Exhaustive([]string{w[1], w[3], w[4], w[6], o[0], o[3], o[4], o[6]}, 3)...)
			}
			emitHistories(g, "C14 md "+ctor+" "+hdr, hists, 64)
			nr := g.budget(100, 3000)
			if small {
				nr = g.budget(10, 100)
			}
			emitHistories(g, "C14 md "+ctor+" "+hdr, randomHistories(g, al, nr, 12, 8), 32)
		}
	}
}

func c14GenVx(g *gen) {
	p := p2ByName("koalabear")
	q := fields["koalabear"].Q()
	var toks []string
	for i := 0; i < g.budget(8, 200); i++ {
		toks = append(toks, c14ShowBigs(c14RandVec(g, q, 8))+":"+c14ShowBigs(c14RandVec(g, q, 8)))
	}
	g.emit("C14 vx comp %s %s", p.keys(16, 6, 21), join(toks))
	toks = nil
	for _, n := range []int{0, 1, 7, 8, 15, 16, 17, 31, 32, 33, 48, 100} {
		toks = append(toks, c14ShowBigs(c14RandVec(g, q, n)))
	}
	for i := 0; i < g.budget(4, 100); i++ {
		toks = append(toks, c14ShowBigs(c14RandVec(g, q, g.rng.intn(80))))
	}
	// "the input is zero-padded": a message whose last block is partial, then the same message with the padding zeros written out
	for _, n := range []int{5, 17, 20, 31, 40} {
		v := c14RandVec(g, q, n)
		toks = append(toks, c14ShowBigs(v))
		for len(v)%16 != 0 {
			v = append(v, big.NewInt(0))
		}
		toks = append(toks, c14ShowBigs(v))
	}
	// one message per line (a disagreement names its message)
	for _, t := range toks {
		g.emit("C14 vx hash %s %s", p.keys(24, 6, 21), t)
	}
	// HashPoseidon2x16: 16 rows at once into a destination slice of leaves pre-filled with garbage
	toks = nil
	ns := []int{0, 16, 32, 48}
	if g.thorough() {
		ns = append(ns, 64, 128, 512)
	}
	for ti, n := range ns {
		rows := make([]string, 16)
		for j := range rows {
			v := c14RandVec(g, q, n)
			if ti%2 == 1 && j%5 == 0 { // some all-zero rows
				for k := range v {
					v[k] = big.NewInt(0)
				}
			}
			rows[j] = c14ShowBigs(v)
		}
		toks = append(toks, strings.Join(rows, ";"))
	}
	g.emit("C14 vx hash16 %s %s", p.keys(24, 6, 21), join(toks))
}
