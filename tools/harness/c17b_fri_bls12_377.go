package main

// per-curve adapter of the FRI harness (generated from c17b_fri_bn254.go; the other curves' files are produced from this one by
//   sed 's#ecc/bls12-377/#ecc/<dir>/#; s#_bls12_377#_<id>#g; s#"bls12_377"#"<id>"#' ).

import (
	"crypto/sha256"
	"math/big"
	"reflect"
	"unsafe"

	fr_bls12_377 "github.com/consensys/gnark-crypto/ecc/bls12-377/fr"
	fft_bls12_377 "github.com/consensys/gnark-crypto/ecc/bls12-377/fr/fft"
	fri_bls12_377 "github.com/consensys/gnark-crypto/ecc/bls12-377/fr/fri"
)

func init() {
	setPriv := func(structPtr any, name string, val any) {
		f := reflect.ValueOf(structPtr).Elem().FieldByName(name)
		reflect.NewAt(f.Type(), unsafe.Pointer(f.UnsafeAddr())).Elem().Set(reflect.ValueOf(val))
	}
	getPriv := func(structPtr any, name string) reflect.Value {
		f := reflect.ValueOf(structPtr).Elem().FieldByName(name)
		return reflect.NewAt(f.Type(), unsafe.Pointer(f.UnsafeAddr())).Elem()
	}
	toFr := func(p []*big.Int) []fr_bls12_377.Element {
		r := make([]fr_bls12_377.Element, len(p))
		for i := range p {
			r[i].SetBigInt(p[i])
		}
		return r
	}
	toMP := func(m friMP) fri_bls12_377.MerkleProof {
		r := fri_bls12_377.MerkleProof{MerkleRoot: m.root, ProofSet: m.ps}
		setPriv(&r, "numLeaves", m.nl)
		return r
	}
	fromMP := func(m fri_bls12_377.MerkleProof) friMP {
		return friMP{root: m.MerkleRoot, ps: m.ProofSet, nl: getPriv(&m, "numLeaves").Uint()}.clone()
	}
	toPoP := func(pp friPoP) fri_bls12_377.ProofOfProximity {
		var r fri_bls12_377.ProofOfProximity
		r.Rounds = make([]fri_bls12_377.Round, 1)
		r.Rounds[0].Evaluation.SetBigInt(pp.eval)
		r.Rounds[0].Interactions = make([][2]fri_bls12_377.MerkleProof, len(pp.steps))
		for i := range pp.steps {
			r.Rounds[0].Interactions[i] = [2]fri_bls12_377.MerkleProof{toMP(pp.steps[i][0]), toMP(pp.steps[i][1])}
		}
		return r
	}
	ginvCache := map[uint64]*big.Int{}
	mk := func(size uint64) fri_bls12_377.Iopp { return fri_bls12_377.RADIX_2_FRI.New(size, sha256.New()) }
	friCurves["bls12_377"] = &friAPI{
		name:    "bls12_377",
		frBytes: fr_bls12_377.Bytes,
		modulus: fr_bls12_377.Modulus(),
		build: func(size uint64, p []*big.Int) (friPoP, error) {
			pr, err := mk(size).BuildProofOfProximity(toFr(p))
			if err != nil {
				return friPoP{}, err
			}
			var r friPoP
			r.eval = pr.Rounds[0].Evaluation.BigInt(new(big.Int))
			for _, in := range pr.Rounds[0].Interactions {
				r.steps = append(r.steps, [2]friMP{fromMP(in[0]), fromMP(in[1])})
			}
			return r, nil
		},
		verify: func(size uint64, pp friPoP) error { return mk(size).VerifyProofOfProximity(toPoP(pp)) },
		open: func(size uint64, p []*big.Int, pos uint64) (friOpening, error) {
			o, err := mk(size).Open(toFr(p), pos)
			if err != nil {
				return friOpening{}, err
			}
			r := friOpening{
				root: getPriv(&o, "merkleRoot").Bytes(), ps: o.ProofSet,
				nl: getPriv(&o, "numLeaves").Uint(), index: getPriv(&o, "index").Uint(),
				claimed: o.ClaimedValue.BigInt(new(big.Int)),
			}
			return r.clone(), nil
		},
		verifyOpening: func(size uint64, pos uint64, o friOpening, pp friPoP) error {
			var op fri_bls12_377.OpeningProof
			op.ProofSet = o.ps
			op.ClaimedValue.SetBigInt(o.claimed)
			setPriv(&op, "merkleRoot", o.root)
			setPriv(&op, "numLeaves", o.nl)
			setPriv(&op, "index", o.index)
			return mk(size).VerifyOpening(pos, op, toPoP(pp))
		},
		ginv: func(size uint64) *big.Int {
			if v, ok := ginvCache[size]; ok {
				return v
			}
			d := fft_bls12_377.NewDomain(8 * nextPow2(size))
			v := d.GeneratorInv.BigInt(new(big.Int))
			ginvCache[size] = v
			return v
		},
	}
}
