package main

import (
	"math/big"
	"strings"
	"unsafe"
)

// generic adapter over the 23 field packages. Elements travel as the raw limb value Σ z[i]·W^i (Montgomery form).

type eltPtr[T any] interface {
	*T
	Add(a, b *T) *T
	Sub(a, b *T) *T
	Mul(a, b *T) *T
	Square(a *T) *T
	Neg(a *T) *T
	Double(a *T) *T
	Halve()
	Inverse(a *T) *T
	Div(a, b *T) *T
	Exp(a T, k *big.Int) *T
	Sqrt(a *T) *T
	Legendre() int
	Cmp(a *T) int
	LexicographicallyLargest() bool
	IsZero() bool
	IsOne() bool
	Equal(a *T) bool
	Select(c int, a, b *T) *T
	BitLen() int
	SetOne() *T
	SetZero() *T
	Set(a *T) *T
	BigInt(res *big.Int) *big.Int
	SetBigInt(v *big.Int) *T
	SetBytes(b []byte) *T
	SetBytesCanonical(b []byte) error
	SetUint64(v uint64) *T
	SetInt64(v int64) *T
	SetString(s string) (*T, error)
	Uint64() uint64
	IsUint64() bool
	FitsOnOneWord() bool
	String() string
	Text(base int) string
	Marshal() []byte
	Unmarshal(b []byte)
	MarshalJSON() ([]byte, error)
	UnmarshalJSON(b []byte) error
	SetInterface(i any) (*T, error)
}

type vecPtr[T any, V ~[]T] interface {
	*V
	Add(a, b V)
	Sub(a, b V)
	Mul(a, b V)
	ScalarMul(a V, b *T)
	Sum() T
	InnerProduct(o V) T
}

type fieldPkg[T any, V ~[]T] struct {
	name        string
	modulus     func() *big.Int
	batchInvert func([]T) []T
	mulBy3      func(*T)
	mulBy5      func(*T)
	mulBy13     func(*T)
	butterfly   func(a, b *T)
	bytes       int
}

type fieldAPI interface {
	Name() string
	Q() *big.Int
	Bytes() int
	WordBits() int
	Limbs() int
	Op(op string, a []string) string
}

var fields = map[string]fieldAPI{}
var fieldNames []string

type fieldImpl[T any, PT eltPtr[T], V ~[]T, PV vecPtr[T, V]] struct {
	pkg fieldPkg[T, V]
}

func (f *fieldImpl[T, PT, V, PV]) Name() string { return f.pkg.name }
func (f *fieldImpl[T, PT, V, PV]) Q() *big.Int  { return f.pkg.modulus() }
func (f *fieldImpl[T, PT, V, PV]) Bytes() int   { return f.pkg.bytes }
func (f *fieldImpl[T, PT, V, PV]) WordBits() int {
	var z T
	if unsafe.Sizeof(z) == 4 {
		return 32
	}
	return 64
}
func (f *fieldImpl[T, PT, V, PV]) Limbs() int {
	var z T
	return int(unsafe.Sizeof(z)) * 8 / f.WordBits()
}

// raw limbs <-> big.Int
func (f *fieldImpl[T, PT, V, PV]) fromRaw(v *big.Int) T {
	var z T
	n := f.Limbs()
	if f.WordBits() == 32 {
		w := unsafe.Slice((*uint32)(unsafe.Pointer(&z)), n)
		w[0] = uint32(v.Uint64())
		return z
	}
	w := unsafe.Slice((*uint64)(unsafe.Pointer(&z)), n)
	t := new(big.Int).Set(v)
	mask := new(big.Int).SetUint64(^uint64(0))
	for i := 0; i < n; i++ {
		w[i] = new(big.Int).And(t, mask).Uint64()
		t.Rsh(t, 64)
	}
	return z
}
func (f *fieldImpl[T, PT, V, PV]) toRaw(z *T) *big.Int {
	n := f.Limbs()
	r := new(big.Int)
	if f.WordBits() == 32 {
		w := unsafe.Slice((*uint32)(unsafe.Pointer(z)), n)
		return r.SetUint64(uint64(w[0]))
	}
	w := unsafe.Slice((*uint64)(unsafe.Pointer(z)), n)
	for i := n - 1; i >= 0; i-- {
		r.Lsh(r, 64)
		r.Or(r, new(big.Int).SetUint64(w[i]))
	}
	return r
}
func (f *fieldImpl[T, PT, V, PV]) arg(s string) T     { return f.fromRaw(parseBig(s)) }
func (f *fieldImpl[T, PT, V, PV]) out(z *T) string    { return hexBig(f.toRaw(z)) }
func (f *fieldImpl[T, PT, V, PV]) vec(s string) V {
	if s == "-" {
		return V{}
	}
	parts := strings.Split(s, ",")
	v := make(V, len(parts))
	for i, p := range parts {
		v[i] = f.arg(p)
	}
	return v
}
func (f *fieldImpl[T, PT, V, PV]) outVec(v V) string {
	if len(v) == 0 {
		return "-"
	}
	ss := make([]string, len(v))
	for i := range v {
		ss[i] = f.out(&v[i])
	}
	return strings.Join(ss, ",")
}

func parseSigned(s string) *big.Int {
	if strings.HasPrefix(s, "-") {
		v := parseBig(s[1:])
		return v.Neg(v)
	}
	return parseBig(s)
}

// C01 ops on raw Montgomery limbs
func (f *fieldImpl[T, PT, V, PV]) Op(op string, a []string) string {
	var z, x, y T
	if len(a) > 0 && !strings.HasPrefix(op, "v") && op != "batchinv" && op != "select" {
		x = f.arg(a[0])
	}
	if len(a) > 1 && !strings.HasPrefix(op, "v") && op != "exp" && op != "select" {
		y = f.arg(a[1])
	}
	switch op {
	case "add":
		PT(&z).Add(&x, &y)
	case "sub":
		PT(&z).Sub(&x, &y)
	case "mul":
		PT(&z).Mul(&x, &y)
	case "square":
		PT(&z).Square(&x)
	case "neg":
		PT(&z).Neg(&x)
	case "double":
		PT(&z).Double(&x)
	case "halve":
		z = x
		PT(&z).Halve()
	case "inv":
		PT(&z).Inverse(&x)
	case "div":
		PT(&z).Div(&x, &y)
	case "mulby3":
		z = x
		f.pkg.mulBy3(&z)
	case "mulby5":
		z = x
		f.pkg.mulBy5(&z)
	case "mulby13":
		z = x
		f.pkg.mulBy13(&z)
	case "butterfly":
		f.pkg.butterfly(&x, &y)
		return f.out(&x) + " " + f.out(&y)
	case "exp":
		PT(&z).Exp(x, parseSigned(a[1]))
	case "sqrt":
		r := PT(&z).Sqrt(&x)
		if r == nil {
			return "none"
		}
		// canonicalise the root: min(r, q-r) in regular form
		var b big.Int
		PT(&z).BigInt(&b)
		nb := new(big.Int).Sub(f.Q(), &b)
		if b.Sign() != 0 && nb.Cmp(&b) < 0 {
			b.Set(nb)
		}
		return "some " + hexBig(&b)
	case "legendre":
		l := PT(&x).Legendre()
		if l < 0 {
			return "-1"
		}
		return hexBig(big.NewInt(int64(l)))
	case "cmp":
		c := PT(&x).Cmp(&y)
		if c < 0 {
			return "-1"
		}
		return hexBig(big.NewInt(int64(c)))
	case "lexlargest":
		return boolStr(PT(&x).LexicographicallyLargest())
	case "iszero":
		return boolStr(PT(&x).IsZero())
	case "isone":
		return boolStr(PT(&x).IsOne())
	case "equal":
		return boolStr(PT(&x).Equal(&y))
	case "select":
		c := int(parseSigned(a[0]).Int64())
		x0, x1 := f.arg(a[1]), f.arg(a[2])
		PT(&z).Select(c, &x0, &x1)
	case "bitlen":
		return hexBig(big.NewInt(int64(PT(&x).BitLen())))
	case "one":
		PT(&z).SetOne()
	case "batchinv":
		v := f.vec(a[0])
		in := append(V{}, v...)
		r := f.pkg.batchInvert(v)
		for i := range v { // argument purity
			if !PT(&v[i]).Equal(&in[i]) {
				return "arg-mutated"
			}
		}
		return f.outVec(V(r))
	case "vadd", "vsub", "vmul":
		va, vb := f.vec(a[0]), f.vec(a[1])
		r := make(V, len(va))
		switch op {
		case "vadd":
			PV(&r).Add(va, vb)
		case "vsub":
			PV(&r).Sub(va, vb)
		default:
			PV(&r).Mul(va, vb)
		}
		return f.outVec(r)
	case "valign": // valign <off> <vadd|vsub|vmul> a b : operands and result are sub-slices starting at element <off>
		off := int(parseBig(a[0]).Int64())
		mk := func(v V) V { w := make(V, len(v)+off); copy(w[off:], v); return w[off:] }
		va, vb := mk(f.vec(a[2])), mk(f.vec(a[3]))
		r := mk(make(V, len(va)))
		switch a[1] {
		case "vadd":
			PV(&r).Add(va, vb)
		case "vsub":
			PV(&r).Sub(va, vb)
		default:
			PV(&r).Mul(va, vb)
		}
		return f.outVec(r)
	case "vscalarmul":
		va := f.vec(a[0])
		s := f.arg(a[1])
		r := make(V, len(va))
		PV(&r).ScalarMul(va, &s)
		return f.outVec(r)
	case "vsum":
		va := f.vec(a[0])
		s := PV(&va).Sum()
		return f.out(&s)
	case "vinner":
		va, vb := f.vec(a[0]), f.vec(a[1])
		s := PV(&va).InnerProduct(vb)
		return f.out(&s)
	default:
		return "bad-op"
	}
	return f.out(&z)
}

func registerField[T any, PT eltPtr[T], V ~[]T, PV vecPtr[T, V]](p fieldPkg[T, V]) {
	fields[p.name] = &fieldImpl[T, PT, V, PV]{pkg: p}
	fieldNames = append(fieldNames, p.name)
}

