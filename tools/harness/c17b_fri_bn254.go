package main

// per-curve adapter of the FRI harness (template: the other curves' files are produced from this one by
//   sed 's#ecc/bn254/#ecc/<dir>/#; s#_bn254#_<id>#g; s#"bn254"#"<id>"#' ).

import (
	"crypto/sha256"
	"math/big"
	"reflect"
	"unsafe"

	fr_bn254 "github.com/consensys/gnark-crypto/ecc/bn254/fr"
	fft_bn254 "github.com/consensys/gnark-crypto/ecc/bn254/fr/fft"
	fri_bn254 "github.com/consensys/gnark-crypto/ecc/bn254/fr/fri"
)

func init() {
	setPriv := func(structPtr any, name string, val any) {
		f := reflect.ValueOf(structPtr).Elem().FieldByName(name)
		reflect.NewAt(f.Type(), unsafe.Pointer(f.UnsafeAddr())).Elem().Set(reflect.ValueOf(val))
	}
	getPriv := func(structPtr any, name string) reflect.Value {
		f := reflect.ValueOf(structPtr).Elem().FieldByName(name)
		return reflect.NewAt(f.Type(), unsafe.Pointer(f.UnsafeAddr())).Elem()
	}
	toFr := func(p []*big.Int) []fr_bn254.Element {
		r := make([]fr_bn254.Element, len(p))
		for i := range p {
			r[i].SetBigInt(p[i])
		}
		return r
	}
	toMP := func(m friMP) fri_bn254.MerkleProof {
		r := fri_bn254.MerkleProof{MerkleRoot: m.root, ProofSet: m.ps}
		setPriv(&r, "numLeaves", m.nl)
		return r
	}
	fromMP := func(m fri_bn254.MerkleProof) friMP {
		return friMP{root: m.MerkleRoot, ps: m.ProofSet, nl: getPriv(&m, "numLeaves").Uint()}.clone()
	}
	toPoP := func(pp friPoP) fri_bn254.ProofOfProximity {
		var r fri_bn254.ProofOfProximity
		r.Rounds = make([]fri_bn254.Round, 1)
		r.Rounds[0].Evaluation.SetBigInt(pp.eval)
		r.Rounds[0].Interactions = make([][2]fri_bn254.MerkleProof, len(pp.steps))
		for i := range pp.steps {
			r.Rounds[0].Interactions[i] = [2]fri_bn254.MerkleProof{toMP(pp.steps[i][0]), toMP(pp.steps[i][1])}
		}
		return r
	}
	ginvCache := map[uint64]*big.Int{}
	mk := func(size uint64) fri_bn254.Iopp { return fri_bn254.RADIX_2_FRI.New(size, sha256.New()) }
	friCurves["bn254"] = &friAPI{
		name:    "bn254",
		frBytes: fr_bn254.Bytes,
		modulus: fr_bn254.Modulus(),
		build: func(size uint64, p []*big.Int) (friPoP, error) {
			pr, err := mk(size).BuildProofOfProximity(toFr(p))
			if err != nil {
				return friPoP{}, err
			}
			var r friPoP
			r.eval = pr.Rounds[0].Evaluation.BigInt(new(big.Int))
			for _, in := range pr.Rounds[0].Interactions {
				r.steps = append(r.steps, [2]friMP{fromMP(in[0]), fromMP(in[1])})
			}
			return r, nil
		},
		verify: func(size uint64, pp friPoP) error { return mk(size).VerifyProofOfProximity(toPoP(pp)) },
		open: func(size uint64, p []*big.Int, pos uint64) (friOpening, error) {
			o, err := mk(size).Open(toFr(p), pos)
			if err != nil {
				return friOpening{}, err
			}
			r := friOpening{
				root: getPriv(&o, "merkleRoot").Bytes(), ps: o.ProofSet,
				nl: getPriv(&o, "numLeaves").Uint(), index: getPriv(&o, "index").Uint(),
				claimed: o.ClaimedValue.BigInt(new(big.Int)),
			}
			return r.clone(), nil
		},
		verifyOpening: func(size uint64, pos uint64, o friOpening, pp friPoP) error {
			var op fri_bn254.OpeningProof
			op.ProofSet = o.ps
			op.ClaimedValue.SetBigInt(o.claimed)
			setPriv(&op, "merkleRoot", o.root)
			setPriv(&op, "numLeaves", o.nl)
			setPriv(&op, "index", o.index)
			return mk(size).VerifyOpening(pos, op, toPoP(pp))
		},
		ginv: func(size uint64) *big.Int {
			if v, ok := ginvCache[size]; ok {
				return v
			}
			d := fft_bn254.NewDomain(8 * nextPow2(size))
			v := d.GeneratorInv.BigInt(new(big.Int))
			ginvCache[size] = v
			return v
		},
	}
}
