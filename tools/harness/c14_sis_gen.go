// generated: static list of the 4 ring-SIS packages
package main

import (
	sisfr_koalabear "github.com/consensys/gnark-crypto/field/koalabear"
	sis_koalabear "github.com/consensys/gnark-crypto/field/koalabear/sis"
	sisfr_babybear "github.com/consensys/gnark-crypto/field/babybear"
	sis_babybear "github.com/consensys/gnark-crypto/field/babybear/sis"
	sisfr_goldilocks "github.com/consensys/gnark-crypto/field/goldilocks"
	sis_goldilocks "github.com/consensys/gnark-crypto/field/goldilocks/sis"
	sisfr_bls12_377 "github.com/consensys/gnark-crypto/ecc/bls12-377/fr"
	sis_bls12_377 "github.com/consensys/gnark-crypto/ecc/bls12-377/fr/sis"
)

var sisPkgs = []sisPkg{
	mkSis[sisfr_koalabear.Element]("koalabear", "koalabear", "field/koalabear/sis", func(seed int64, ld, lb, mx int) ([][]sisfr_koalabear.Element, func(v, res []sisfr_koalabear.Element) error, int, error) {
		r, err := sis_koalabear.NewRSis(seed, ld, lb, mx)
		if err != nil {
			return nil, nil, 0, err
		}
		return r.A, r.Hash, r.Degree, nil
	}),
	mkSis[sisfr_babybear.Element]("babybear", "babybear", "field/babybear/sis", func(seed int64, ld, lb, mx int) ([][]sisfr_babybear.Element, func(v, res []sisfr_babybear.Element) error, int, error) {
		r, err := sis_babybear.NewRSis(seed, ld, lb, mx)
		if err != nil {
			return nil, nil, 0, err
		}
		return r.A, r.Hash, r.Degree, nil
	}),
	mkSis[sisfr_goldilocks.Element]("goldilocks", "goldilocks", "field/goldilocks/sis", func(seed int64, ld, lb, mx int) ([][]sisfr_goldilocks.Element, func(v, res []sisfr_goldilocks.Element) error, int, error) {
		r, err := sis_goldilocks.NewRSis(seed, ld, lb, mx)
		if err != nil {
			return nil, nil, 0, err
		}
		return r.A, r.Hash, r.Degree, nil
	}),
	mkSis[sisfr_bls12_377.Element]("bls12-377", "bls12_377_fr", "ecc/bls12-377/fr/sis", func(seed int64, ld, lb, mx int) ([][]sisfr_bls12_377.Element, func(v, res []sisfr_bls12_377.Element) error, int, error) {
		r, err := sis_bls12_377.NewRSis(seed, ld, lb, mx)
		if err != nil {
			return nil, nil, 0, err
		}
		return r.A, r.Hash, r.Degree, nil
	}),
}
