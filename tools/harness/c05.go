package main

// C05: pairings are bilinear, non-degenerate and identical across the computation variants.
//
// op lines (tag C05), integers signed hex (`-ff`), P_i = [a_i]G1, Q_j = [b_j]G2 built with ScalarMultiplicationBase:
//   pair     <curve> <nP> <nQ> a_1..a_nP b_1..b_nQ   -> all GT coordinates of Pair(P,Q) (declaration order, comma separated hex) | err:size
//   variants <curve> <nP> <nQ> a.. b..               -> 6 equality bits against V = Pair(P,Q)                                 | err:size
//        bit1 FinalExponentiation(MillerLoop(P,Q)) == V
//        bit2 Π_i Pair({P_i},{Q_i}) == V                      (multi-pairing = product of one-shot pairings)
//        bit3 FinalExponentiation(ML(P_1,Q_1), ML(P_2,Q_2), …) == V   (variadic final exponentiation)
//        bit4 PairFixedQ(P, PrecomputeLines(Q_i) fresh) == V
//        bit5 FinalExponentiation(MillerLoopFixedQ(P, fresh lines)) == V
//        bit6 V == Pair(G1,G2)^(Σ a_i·b_i)  (GT.Exp)
//   check    <curve> <nP> <nQ> a.. b..               -> PairingCheck verdict, PairingCheckFixedQ verdict (2 bits)           | err:size
//   bilin    <curve> a b                             -> bit  Pair([a]G1,[b]G2) == Pair(G1,G2)^(a·b)
//   bilinv   <curve> a b                             -> value Pair(G1,G2)^(a·b) (GT.Exp) + the same bit
//   g1 | g2  <curve> a                               -> affine coordinates of [a]G1 / [a]G2 (declaration order X…,Y…) | inf
//   orderv   <curve>                                 -> same as order, the Lean side computes it from its own pairing value
//   selftest <curve>                                 -> 11111111 (Lean: consistency of its curve constants)
//   order    <curve>                                 -> bits: e(G1,G2)^r == 1, e(G1,G2) != 1
//   reuse    <curve> a b                             -> bit  PairFixedQ twice with the SAME lines object gives the same value
//                                                       (not generated for C05: known defect, belongs to C18)
//   hist     <curve> <k> <n> b_1..b_k (<kind> a_1..a_k)×n   CALL HISTORY on shared precomputed lines: lines of Q_j = [b_j]G2 are computed once,
//                                                       the SAME slice (same backing array) is passed to n consecutive fixed-argument calls,
//                                                       call i on P_j = [a_ij]G1 via kind = ml (FE∘MillerLoopFixedQ) | pf (PairFixedQ) | cf (PairingCheckFixedQ).
//                                                       Answer per call `<bits>:<u>`: ml/pf two bits (value == Pair(P,Q), value == e(G1,G2)^Σab),
//                                                       cf the verdict; u = lines AND points identical to the snapshot taken before the first call.
//                                                       Model: each call answered from its own arguments (by value), u = 1.
//   fehist   <curve> <g> <n> (<s> a_1..a_s b_1..b_s)×g (<m> i_1..i_m)×n   CALL HISTORY on Miller-loop OUTPUTS: M_j = MillerLoop of the j-th sub-list of
//                                                       pairs ([a]G1,[b]G2) (1 ≤ s ≤ 5), computed once; then n calls FinalExponentiation(&M_i1, &M_i2, …)
//                                                       (variadic, 1 ≤ m ≤ 4 arguments, 0-based indices, the SAME objects call after call).
//                                                       Answer per call `<b1><b2><z>:<u>`: b1 value == Pair(pairs of the named sub-lists), b2 value ==
//                                                       e(G1,G2)^Σab (GT.Exp), z value == 1, u = every M_j bit-identical to its snapshot.
//                                                       Model: 11, z = (Σab ≡ 0 mod r) from this call's own arguments, u = 1.
// err:size is answered only when ALL of Pair, PairingCheck, MillerLoop, PairFixedQ, PairingCheckFixedQ, MillerLoopFixedQ
// (and, on bw6-761, MillerLoopDirect) return an error; a partial error pattern is rendered `err-mismatch:<bits>`
// (bit order as listed, 1 = error). On bw6-761 bit1 of `variants` also demands FinalExponentiation(MillerLoopDirect(P,Q)) == V.
// The generator enumerates the whole size lattice (nP,nQ) in {0..4}^2 (thorough: {0..6}^2) off the diagonal for every curve:
// fewer points than lines, more points than lines, empty on either side, both empty - with generic and with infinite points.

import (
	"math/big"
	"reflect"
	"strings"

	bls12377 "github.com/consensys/gnark-crypto/ecc/bls12-377"
	bls12377fr "github.com/consensys/gnark-crypto/ecc/bls12-377/fr"
	bls12381 "github.com/consensys/gnark-crypto/ecc/bls12-381"
	bls12381fr "github.com/consensys/gnark-crypto/ecc/bls12-381/fr"
	bls24315 "github.com/consensys/gnark-crypto/ecc/bls24-315"
	bls24315fr "github.com/consensys/gnark-crypto/ecc/bls24-315/fr"
	bls24317 "github.com/consensys/gnark-crypto/ecc/bls24-317"
	bls24317fr "github.com/consensys/gnark-crypto/ecc/bls24-317/fr"
	bn254 "github.com/consensys/gnark-crypto/ecc/bn254"
	bn254fr "github.com/consensys/gnark-crypto/ecc/bn254/fr"
	bw6633 "github.com/consensys/gnark-crypto/ecc/bw6-633"
	bw6633fr "github.com/consensys/gnark-crypto/ecc/bw6-633/fr"
	bw6761 "github.com/consensys/gnark-crypto/ecc/bw6-761"
	bw6761fr "github.com/consensys/gnark-crypto/ecc/bw6-761/fr"
)

// one pairing curve seen through closures (the seven packages share the API shape but not the types)
type pairingAPI struct {
	name string
	r    *big.Int
	// every function takes the scalar vectors; points are rebuilt inside
	pair     func(a, b []*big.Int) (string, error)
	variants func(a, b []*big.Int) string
	check    func(a, b []*big.Int) string
	bilin    func(a, b *big.Int, withValue bool) string
	order    func() string
	point    func(which int, a *big.Int) string
	reuse    func(a, b *big.Int) string
	hist     func(b []*big.Int, kinds []string, as [][]*big.Int) string
	fehist   func(ga, gb [][]*big.Int, calls [][]int) string
}

var pairings = map[string]*pairingAPI{}
var pairingNames = []string{"bn254", "bls12-377", "bls12-381", "bls24-315", "bls24-317", "bw6-633", "bw6-761"}

// curves for which the Lean side has an executable textbook pairing (value ops are generated only for these)
var c05Modelled = []string{"bn254", "bls12-381", "bls12-377", "bw6-761", "bw6-633", "bls24-315", "bls24-317"}

// the GT coordinates in declaration order of the tower structs (C0.B0.A0, C0.B0.A1, C0.B1.A0, … for E12;
// D0.C0.B0.A0 … for E24; B0.A0, B0.A1, B0.A2, B1.A0 … for the bw6 E6), regular (non-Montgomery) values
func gtCoords(v reflect.Value, out *[]string) {
	type bigger interface{ BigInt(*big.Int) *big.Int }
	if v.CanAddr() {
		if b, ok := v.Addr().Interface().(bigger); ok {
			*out = append(*out, hexBig(b.BigInt(new(big.Int))))
			return
		}
	}
	if v.Kind() == reflect.Struct {
		for i := 0; i < v.NumField(); i++ {
			gtCoords(v.Field(i), out)
		}
		return
	}
	panic("gtCoords: unexpected kind " + v.Kind().String())
}

func gtString[GT any](g *GT) string {
	var out []string
	gtCoords(reflect.ValueOf(g).Elem(), &out)
	return strings.Join(out, ",")
}

type gtOps[GT any] struct {
	eq  func(a, b *GT) bool
	mul func(a, b *GT) GT
	exp func(a GT, k *big.Int) GT
	one func() GT
}

func newPairing[G1, G2, GT, L any](
	name string, r *big.Int,
	base1 func(*big.Int) G1, base2 func(*big.Int) G2,
	pair func([]G1, []G2) (GT, error), check func([]G1, []G2) (bool, error),
	miller func([]G1, []G2) (GT, error), fe func(*GT, ...*GT) GT,
	pairF func([]G1, []L) (GT, error), checkF func([]G1, []L) (bool, error),
	millerF func([]G1, []L) (GT, error), pre func(G2) L,
	ops gtOps[GT],
	extraMiller func([]G1, []G2) (GT, error), // a further Miller-loop entry point of the package (bw6-761 MillerLoopDirect) or nil
) {
	points := func(a, b []*big.Int) ([]G1, []G2) {
		P := make([]G1, len(a))
		Q := make([]G2, len(b))
		for i := range a {
			P[i] = base1(a[i])
		}
		for i := range b {
			Q[i] = base2(b[i])
		}
		return P, Q
	}
	// fresh precomputed lines for every call (MillerLoopFixedQ consumes its argument, see `reuse`)
	lines := func(Q []G2) []L {
		l := make([]L, len(Q))
		for i := range Q {
			l[i] = pre(Q[i])
		}
		return l
	}
	sumAB := func(a, b []*big.Int) *big.Int {
		s := new(big.Int)
		for i := range a {
			s.Add(s, new(big.Int).Mul(a[i], b[i]))
		}
		return s
	}
	// error pattern of the six entry points; "" when none fails
	errPattern := func(P []G1, Q []G2) string {
		var bits []bool
		_, e1 := pair(P, Q)
		_, e2 := check(P, Q)
		_, e3 := miller(P, Q)
		_, e4 := pairF(P, lines(Q))
		_, e5 := checkF(P, lines(Q))
		_, e6 := millerF(P, lines(Q))
		errs := []error{e1, e2, e3, e4, e5, e6}
		if extraMiller != nil {
			_, e7 := extraMiller(P, Q)
			errs = append(errs, e7)
		}
		all, any := true, false
		for _, e := range errs {
			bits = append(bits, e != nil)
			all = all && e != nil
			any = any || e != nil
			if e != nil && !strings.Contains(e.Error(), "invalid inputs sizes") {
				return "err:other"
			}
		}
		if all {
			return "err:size"
		}
		if any {
			s := "err-mismatch:"
			for _, b := range bits {
				s += boolStr(b)
			}
			return s
		}
		return ""
	}
	api := &pairingAPI{name: name, r: r}
	api.pair = func(a, b []*big.Int) (string, error) {
		P, Q := points(a, b)
		v, err := pair(P, Q)
		if err != nil {
			return "", err
		}
		return gtString(&v), nil
	}
	api.variants = func(a, b []*big.Int) string {
		P, Q := points(a, b)
		if e := errPattern(P, Q); e != "" {
			return e
		}
		V, _ := pair(P, Q)
		// 1
		ml, _ := miller(P, Q)
		v1 := fe(&ml)
		if extraMiller != nil {
			// the additional Miller loop must reduce to the same value; folded into bit1
			mld, _ := extraMiller(P, Q)
			v1d := fe(&mld)
			if !ops.eq(&v1d, &V) {
				v1 = v1d
			}
		}
		// 2, 3
		v2 := ops.one()
		mls := make([]GT, len(P))
		for i := range P {
			s, err := pair(P[i:i+1], Q[i:i+1])
			if err != nil {
				return "err:other"
			}
			v2 = ops.mul(&v2, &s)
			mls[i], _ = miller(P[i:i+1], Q[i:i+1])
		}
		rest := make([]*GT, 0, len(P))
		for i := 1; i < len(mls); i++ {
			rest = append(rest, &mls[i])
		}
		v3 := fe(&mls[0], rest...)
		// 4, 5
		v4, _ := pairF(P, lines(Q))
		mlf, _ := millerF(P, lines(Q))
		v5 := fe(&mlf)
		// 6
		g, _ := pair([]G1{base1(big.NewInt(1))}, []G2{base2(big.NewInt(1))})
		v6 := ops.exp(g, sumAB(a, b))
		return boolStr(ops.eq(&v1, &V)) + boolStr(ops.eq(&v2, &V)) + boolStr(ops.eq(&v3, &V)) +
			boolStr(ops.eq(&v4, &V)) + boolStr(ops.eq(&v5, &V)) + boolStr(ops.eq(&v6, &V))
	}
	api.check = func(a, b []*big.Int) string {
		P, Q := points(a, b)
		if e := errPattern(P, Q); e != "" {
			return e
		}
		c1, _ := check(P, Q)
		c2, _ := checkF(P, lines(Q))
		return boolStr(c1) + boolStr(c2)
	}
	api.bilin = func(a, b *big.Int, withValue bool) string {
		P, Q := points([]*big.Int{a}, []*big.Int{b})
		V, err := pair(P, Q)
		if err != nil {
			return "err:other"
		}
		g, _ := pair([]G1{base1(big.NewInt(1))}, []G2{base2(big.NewInt(1))})
		w := ops.exp(g, new(big.Int).Mul(a, b))
		if withValue {
			return gtString(&w) + " " + boolStr(ops.eq(&w, &V))
		}
		return boolStr(ops.eq(&w, &V))
	}
	api.order = func() string {
		g, _ := pair([]G1{base1(big.NewInt(1))}, []G2{base2(big.NewInt(1))})
		w := ops.exp(g, r)
		one := ops.one()
		return boolStr(ops.eq(&w, &one)) + boolStr(!ops.eq(&g, &one))
	}
	api.point = func(which int, a *big.Int) string {
		var out []string
		if which == 1 {
			p := base1(a)
			gtCoords(reflect.ValueOf(&p).Elem(), &out)
		} else {
			p := base2(a)
			gtCoords(reflect.ValueOf(&p).Elem(), &out)
		}
		inf := true
		for _, c := range out {
			inf = inf && c == "0"
		}
		if inf {
			return "inf"
		}
		return strings.Join(out, ",")
	}
	api.reuse = func(a, b *big.Int) string {
		P, Q := points([]*big.Int{a}, []*big.Int{b})
		l := lines(Q)
		v1, err := pairF(P, l)
		if err != nil {
			return "err:other"
		}
		v2, _ := pairF(P, l)
		return boolStr(ops.eq(&v1, &v2))
	}
	api.hist = func(b []*big.Int, kinds []string, as [][]*big.Int) string {
		_, Q := points(nil, b)
		l := lines(Q) // once: every call below gets this very slice
		snap := append([]L(nil), l...)
		g, _ := pair([]G1{base1(big.NewInt(1))}, []G2{base2(big.NewInt(1))})
		var out []string
		for i, kind := range kinds {
			P, _ := points(as[i], nil)
			P0 := append([]G1(nil), P...)
			V, err := pair(P, Q)
			if err != nil {
				return "err:other"
			}
			W := ops.exp(g, sumAB(as[i], b))
			var bits string
			switch kind {
			case "ml":
				m, err := millerF(P, l)
				if err != nil {
					return "err:other"
				}
				v := fe(&m)
				bits = boolStr(ops.eq(&v, &V)) + boolStr(ops.eq(&v, &W))
			case "pf":
				v, err := pairF(P, l)
				if err != nil {
					return "err:other"
				}
				bits = boolStr(ops.eq(&v, &V)) + boolStr(ops.eq(&v, &W))
			case "cf":
				c, err := checkF(P, l)
				if err != nil {
					return "err:other"
				}
				bits = boolStr(c)
			default:
				return "bad-op"
			}
			out = append(out, bits+":"+boolStr(reflect.DeepEqual(l, snap) && reflect.DeepEqual(P, P0)))
		}
		return strings.Join(out, " ")
	}
	api.fehist = func(ga, gb [][]*big.Int, calls [][]int) string {
		g, _ := pair([]G1{base1(big.NewInt(1))}, []G2{base2(big.NewInt(1))})
		one := ops.one()
		ms := make([]GT, len(ga)) // the Miller-loop outputs: computed once, the same objects through every call
		Ps := make([][]G1, len(ga))
		Qs := make([][]G2, len(ga))
		for j := range ga {
			Ps[j], Qs[j] = points(ga[j], gb[j])
			m, err := miller(Ps[j], Qs[j])
			if err != nil {
				return "err:other"
			}
			ms[j] = m
		}
		snap := append([]GT(nil), ms...)
		var out []string
		for _, idx := range calls {
			var P []G1
			var Q []G2
			sum := new(big.Int)
			for _, j := range idx {
				P = append(P, Ps[j]...)
				Q = append(Q, Qs[j]...)
				sum.Add(sum, sumAB(ga[j], gb[j]))
			}
			V, err := pair(P, Q)
			if err != nil {
				return "err:other"
			}
			W := ops.exp(g, sum)
			rest := make([]*GT, 0, len(idx))
			for _, j := range idx[1:] {
				rest = append(rest, &ms[j])
			}
			v := fe(&ms[idx[0]], rest...)
			out = append(out, boolStr(ops.eq(&v, &V))+boolStr(ops.eq(&v, &W))+boolStr(ops.eq(&v, &one))+":"+boolStr(reflect.DeepEqual(ms, snap)))
		}
		return strings.Join(out, " ")
	}
	pairings[name] = api
}

func init() {
	newPairing(
		"bn254", bn254fr.Modulus(),
		func(s *big.Int) (p bn254.G1Affine) { p.ScalarMultiplicationBase(s); return },
		func(s *big.Int) (p bn254.G2Affine) { p.ScalarMultiplicationBase(s); return },
		bn254.Pair, bn254.PairingCheck, bn254.MillerLoop, bn254.FinalExponentiation,
		bn254.PairFixedQ, bn254.PairingCheckFixedQ, bn254.MillerLoopFixedQ, bn254.PrecomputeLines,
		gtOps[bn254.GT]{
			eq:  func(a, b *bn254.GT) bool { return a.Equal(b) },
			mul: func(a, b *bn254.GT) (z bn254.GT) { z.Mul(a, b); return },
			exp: func(a bn254.GT, k *big.Int) (z bn254.GT) { z.Exp(a, k); return },
			one: func() (z bn254.GT) { z.SetOne(); return },
		}, nil)
	newPairing(
		"bls12-377", bls12377fr.Modulus(),
		func(s *big.Int) (p bls12377.G1Affine) { p.ScalarMultiplicationBase(s); return },
		func(s *big.Int) (p bls12377.G2Affine) { p.ScalarMultiplicationBase(s); return },
		bls12377.Pair, bls12377.PairingCheck, bls12377.MillerLoop, bls12377.FinalExponentiation,
		bls12377.PairFixedQ, bls12377.PairingCheckFixedQ, bls12377.MillerLoopFixedQ, bls12377.PrecomputeLines,
		gtOps[bls12377.GT]{
			eq:  func(a, b *bls12377.GT) bool { return a.Equal(b) },
			mul: func(a, b *bls12377.GT) (z bls12377.GT) { z.Mul(a, b); return },
			exp: func(a bls12377.GT, k *big.Int) (z bls12377.GT) { z.Exp(a, k); return },
			one: func() (z bls12377.GT) { z.SetOne(); return },
		}, nil)
	newPairing(
		"bls12-381", bls12381fr.Modulus(),
		func(s *big.Int) (p bls12381.G1Affine) { p.ScalarMultiplicationBase(s); return },
		func(s *big.Int) (p bls12381.G2Affine) { p.ScalarMultiplicationBase(s); return },
		bls12381.Pair, bls12381.PairingCheck, bls12381.MillerLoop, bls12381.FinalExponentiation,
		bls12381.PairFixedQ, bls12381.PairingCheckFixedQ, bls12381.MillerLoopFixedQ, bls12381.PrecomputeLines,
		gtOps[bls12381.GT]{
			eq:  func(a, b *bls12381.GT) bool { return a.Equal(b) },
			mul: func(a, b *bls12381.GT) (z bls12381.GT) { z.Mul(a, b); return },
			exp: func(a bls12381.GT, k *big.Int) (z bls12381.GT) { z.Exp(a, k); return },
			one: func() (z bls12381.GT) { z.SetOne(); return },
		}, nil)
	newPairing(
		"bls24-315", bls24315fr.Modulus(),
		func(s *big.Int) (p bls24315.G1Affine) { p.ScalarMultiplicationBase(s); return },
		func(s *big.Int) (p bls24315.G2Affine) { p.ScalarMultiplicationBase(s); return },
		bls24315.Pair, bls24315.PairingCheck, bls24315.MillerLoop, bls24315.FinalExponentiation,
		bls24315.PairFixedQ, bls24315.PairingCheckFixedQ, bls24315.MillerLoopFixedQ, bls24315.PrecomputeLines,
		gtOps[bls24315.GT]{
			eq:  func(a, b *bls24315.GT) bool { return a.Equal(b) },
			mul: func(a, b *bls24315.GT) (z bls24315.GT) { z.Mul(a, b); return },
			exp: func(a bls24315.GT, k *big.Int) (z bls24315.GT) { z.Exp(a, k); return },
			one: func() (z bls24315.GT) { z.SetOne(); return },
		}, nil)
	newPairing(
		"bls24-317", bls24317fr.Modulus(),
		func(s *big.Int) (p bls24317.G1Affine) { p.ScalarMultiplicationBase(s); return },
		func(s *big.Int) (p bls24317.G2Affine) { p.ScalarMultiplicationBase(s); return },
		bls24317.Pair, bls24317.PairingCheck, bls24317.MillerLoop, bls24317.FinalExponentiation,
		bls24317.PairFixedQ, bls24317.PairingCheckFixedQ, bls24317.MillerLoopFixedQ, bls24317.PrecomputeLines,
		gtOps[bls24317.GT]{
			eq:  func(a, b *bls24317.GT) bool { return a.Equal(b) },
			mul: func(a, b *bls24317.GT) (z bls24317.GT) { z.Mul(a, b); return },
			exp: func(a bls24317.GT, k *big.Int) (z bls24317.GT) { z.Exp(a, k); return },
			one: func() (z bls24317.GT) { z.SetOne(); return },
		}, nil)
	newPairing(
		"bw6-633", bw6633fr.Modulus(),
		func(s *big.Int) (p bw6633.G1Affine) { p.ScalarMultiplicationBase(s); return },
		func(s *big.Int) (p bw6633.G2Affine) { p.ScalarMultiplicationBase(s); return },
		bw6633.Pair, bw6633.PairingCheck, bw6633.MillerLoop, bw6633.FinalExponentiation,
		bw6633.PairFixedQ, bw6633.PairingCheckFixedQ, bw6633.MillerLoopFixedQ, bw6633.PrecomputeLines,
		gtOps[bw6633.GT]{
			eq:  func(a, b *bw6633.GT) bool { return a.Equal(b) },
			mul: func(a, b *bw6633.GT) (z bw6633.GT) { z.Mul(a, b); return },
			exp: func(a bw6633.GT, k *big.Int) (z bw6633.GT) { z.Exp(a, k); return },
			one: func() (z bw6633.GT) { z.SetOne(); return },
		}, nil)
	newPairing(
		"bw6-761", bw6761fr.Modulus(),
		func(s *big.Int) (p bw6761.G1Affine) { p.ScalarMultiplicationBase(s); return },
		func(s *big.Int) (p bw6761.G2Affine) { p.ScalarMultiplicationBase(s); return },
		bw6761.Pair, bw6761.PairingCheck, bw6761.MillerLoop, bw6761.FinalExponentiation,
		bw6761.PairFixedQ, bw6761.PairingCheckFixedQ, bw6761.MillerLoopFixedQ, bw6761.PrecomputeLines,
		gtOps[bw6761.GT]{
			eq:  func(a, b *bw6761.GT) bool { return a.Equal(b) },
			mul: func(a, b *bw6761.GT) (z bw6761.GT) { z.Mul(a, b); return },
			exp: func(a bw6761.GT, k *big.Int) (z bw6761.GT) { z.Exp(a, k); return },
			one: func() (z bw6761.GT) { z.SetOne(); return },
		}, bw6761.MillerLoopDirect)
	executors["C05"] = execC05
	generators["C05"] = genC05
}

// signed hex
func parseSBig(s string) (*big.Int, bool) {
	neg := strings.HasPrefix(s, "-")
	if neg {
		s = s[1:]
	}
	if s == "" {
		return nil, false
	}
	for _, c := range s {
		if !(c >= '0' && c <= '9' || c >= 'a' && c <= 'f') {
			return nil, false
		}
	}
	v, ok := new(big.Int).SetString(s, 16)
	if !ok {
		return nil, false
	}
	if neg {
		v.Neg(v)
	}
	return v, true
}
func sHex(v *big.Int) string { return v.Text(16) }

// <nP> <nQ> a.. b..  (decimal counts)
func parseVectors(a []string) (as, bs []*big.Int, ok bool) {
	if len(a) < 2 {
		return nil, nil, false
	}
	nP, ok1 := parseSmall(a[0])
	nQ, ok2 := parseSmall(a[1])
	if !ok1 || !ok2 || len(a) != 2+nP+nQ {
		return nil, nil, false
	}
	for i := 0; i < nP+nQ; i++ {
		v, ok := parseSBig(a[2+i])
		if !ok {
			return nil, nil, false
		}
		if i < nP {
			as = append(as, v)
		} else {
			bs = append(bs, v)
		}
	}
	return as, bs, true
}
func parseSmall(s string) (int, bool) {
	if s == "" || len(s) > 3 {
		return 0, false
	}
	n := 0
	for _, c := range s {
		if c < '0' || c > '9' {
			return 0, false
		}
		n = n*10 + int(c-'0')
	}
	return n, true
}

func execC05(a []string) string {
	if len(a) < 2 {
		return "bad-op"
	}
	api, ok := pairings[a[1]]
	if !ok {
		return "bad-op"
	}
	switch a[0] {
	case "pair", "variants", "check":
		as, bs, ok := parseVectors(a[2:])
		if !ok {
			return "bad-op"
		}
		switch a[0] {
		case "pair":
			v, err := api.pair(as, bs)
			if err != nil {
				if strings.Contains(err.Error(), "invalid inputs sizes") {
					return "err:size"
				}
				return "err:other"
			}
			return v
		case "variants":
			return api.variants(as, bs)
		default:
			return api.check(as, bs)
		}
	case "hist":
		if len(a) < 4 {
			return "bad-op"
		}
		k, ok1 := parseSmall(a[2])
		n, ok2 := parseSmall(a[3])
		if !ok1 || !ok2 || k == 0 || k > 8 || n == 0 || n > 8 || len(a) != 4+k+n*(k+1) {
			return "bad-op"
		}
		var bs []*big.Int
		var kinds []string
		var as [][]*big.Int
		for i, t := range a[4:] {
			if i >= k && (i-k)%(k+1) == 0 {
				if t != "ml" && t != "pf" && t != "cf" {
					return "bad-op"
				}
				kinds = append(kinds, t)
				as = append(as, nil)
				continue
			}
			v, ok := parseSBig(t)
			if !ok {
				return "bad-op"
			}
			if i < k {
				bs = append(bs, v)
			} else {
				as[len(as)-1] = append(as[len(as)-1], v)
			}
		}
		return api.hist(bs, kinds, as)
	case "fehist":
		if len(a) < 4 {
			return "bad-op"
		}
		ng, ok1 := parseSmall(a[2])
		n, ok2 := parseSmall(a[3])
		if !ok1 || !ok2 || ng == 0 || ng > 8 || n == 0 || n > 8 {
			return "bad-op"
		}
		rest := a[4:]
		var ga, gb [][]*big.Int
		for j := 0; j < ng; j++ {
			if len(rest) < 1 {
				return "bad-op"
			}
			sz, ok := parseSmall(rest[0])
			if !ok || sz == 0 || sz > 5 || len(rest) < 1+2*sz {
				return "bad-op"
			}
			var xa, xb []*big.Int
			for i := 0; i < 2*sz; i++ {
				v, ok := parseSBig(rest[1+i])
				if !ok {
					return "bad-op"
				}
				if i < sz {
					xa = append(xa, v)
				} else {
					xb = append(xb, v)
				}
			}
			ga, gb = append(ga, xa), append(gb, xb)
			rest = rest[1+2*sz:]
		}
		var calls [][]int
		for c := 0; c < n; c++ {
			if len(rest) < 1 {
				return "bad-op"
			}
			m, ok := parseSmall(rest[0])
			if !ok || m == 0 || m > 4 || len(rest) < 1+m {
				return "bad-op"
			}
			var idx []int
			for i := 0; i < m; i++ {
				j, ok := parseSmall(rest[1+i])
				if !ok || j >= ng {
					return "bad-op"
				}
				idx = append(idx, j)
			}
			calls = append(calls, idx)
			rest = rest[1+m:]
		}
		if len(rest) != 0 {
			return "bad-op"
		}
		return api.fehist(ga, gb, calls)
	case "bilin", "bilinv", "reuse":
		if len(a) != 4 {
			return "bad-op"
		}
		x, ok1 := parseSBig(a[2])
		y, ok2 := parseSBig(a[3])
		if !ok1 || !ok2 {
			return "bad-op"
		}
		if a[0] == "reuse" {
			return api.reuse(x, y)
		}
		return api.bilin(x, y, a[0] == "bilinv")
	case "g1", "g2":
		if len(a) != 3 {
			return "bad-op"
		}
		x, ok := parseSBig(a[2])
		if !ok {
			return "bad-op"
		}
		if a[0] == "g1" {
			return api.point(1, x)
		}
		return api.point(2, x)
	case "order", "orderv":
		if len(a) != 2 {
			return "bad-op"
		}
		return api.order()
	case "selftest":
		// consistency bits of the Lean constants (generators on curve, w⁶ = ξ, [r]g = O, …): the expected answer is all ones
		if len(a) != 2 {
			return "bad-op"
		}
		return "11111111"
	}
	return "bad-op"
}

// ---- generation ----

// an interesting scalar: small, boundary around r, negative, large (> r), random
func c05Scalar(g *gen, r *big.Int) *big.Int {
	switch g.rng.intn(10) {
	case 0:
		return big.NewInt(int64(g.rng.intn(4))) // 0..3 (0 = infinity)
	case 1:
		return new(big.Int).Sub(r, big.NewInt(int64(g.rng.intn(3)))) // r, r-1, r-2
	case 2:
		return new(big.Int).Neg(g.rng.bigBelow(r))
	case 3:
		return new(big.Int).Add(r, g.rng.bigBelow(r)) // ≥ r
	case 4:
		return g.rng.bigBits(64)
	default:
		return g.rng.bigBelow(r)
	}
}

func (g *gen) c05Line(op, curve string, as, bs []*big.Int) {
	var w []string
	for _, v := range as {
		w = append(w, sHex(v))
	}
	for _, v := range bs {
		w = append(w, sHex(v))
	}
	g.emit("C05 %s %s %d %d %s", op, curve, len(as), len(bs), join(w))
}

// vectors of length k with Σ a_i·b_i ≡ 0 (mod r): the last b is solved for (needs a_k invertible)
func c05Vanishing(g *gen, r *big.Int, k int, zeroAt int) (as, bs []*big.Int) {
	for i := 0; i < k; i++ {
		as = append(as, c05Scalar(g, r))
		bs = append(bs, c05Scalar(g, r))
	}
	if zeroAt >= 0 && zeroAt < k-1 {
		if g.rng.coin() {
			as[zeroAt] = new(big.Int)
		} else {
			bs[zeroAt] = new(big.Int)
		}
	}
	if k == 1 {
		// a·b ≡ 0: one of them a multiple of r
		if g.rng.coin() {
			as[0] = new(big.Int).Mul(r, big.NewInt(int64(g.rng.intn(3))))
		} else {
			bs[0] = new(big.Int).Mul(r, big.NewInt(int64(g.rng.intn(3))))
		}
		return
	}
	ak := new(big.Int).Mod(as[k-1], r)
	if ak.Sign() == 0 {
		as[k-1] = big.NewInt(1)
		ak = big.NewInt(1)
	}
	s := new(big.Int)
	for i := 0; i < k-1; i++ {
		s.Add(s, new(big.Int).Mul(as[i], bs[i]))
	}
	s.Neg(s).Mod(s, r)
	s.Mul(s, new(big.Int).ModInverse(ak, r)).Mod(s, r)
	bs[k-1] = s
	return
}

func genC05(g *gen) {
	isModelled := map[string]bool{}
	for _, c := range c05Modelled {
		isModelled[c] = true
	}
	slow := map[string]bool{"bls24-315": true, "bls24-317": true} // Lean pairing ≈ seconds per value
	for _, curve := range pairingNames {
		api := pairings[curve]
		r := api.r
		one := big.NewInt(1)
		// constants and scalar multiplication of the Lean side (cheap)
		g.emit("C05 selftest %s", curve)
		pts := []*big.Int{new(big.Int), big.NewInt(-1), new(big.Int).Neg(g.rng.bigBelow(r))}
		if g.thorough() {
			pts = append(pts, one, big.NewInt(2), r, new(big.Int).Sub(r, one), c05Scalar(g, r), new(big.Int).Add(r, g.rng.bigBelow(r)))
		}
		for _, v := range pts {
			g.emit("C05 g1 %s %s", curve, sHex(v))
			g.emit("C05 g2 %s %s", curve, sHex(v))
		}
		// value ops against the Lean textbook pairing (≈ 1–2 s per final exponentiation in Lean, ≈ 10 s on bls24)
		if isModelled[curve] {
			fast := !slow[curve]
			if fast || g.thorough() || curve == "bls24-315" {
				g.c05Line("pair", curve, []*big.Int{one}, []*big.Int{one})
			}
			if fast || g.thorough() {
				nv := g.budget(0, 6)
				nm := g.budget(1, 3)
				if !g.thorough() && (curve == "bn254" || curve == "bls12-381") {
					nv = 1
				}
				if !fast {
					nv, nm = 2, 1
				}
				for i := 0; i < nv; i++ {
					g.c05Line("pair", curve, []*big.Int{c05Scalar(g, r)}, []*big.Int{c05Scalar(g, r)})
				}
				// multi-pairing values, infinity inside, vanishing sum
				for i := 0; i < nm; i++ {
					k := 2 + g.rng.intn(3)
					as, bs := c05Vanishing(g, r, k, g.rng.intn(k))
					if i%2 == 0 {
						bs[k-1] = c05Scalar(g, r)
					}
					g.c05Line("pair", curve, as, bs)
				}
				if g.thorough() {
					g.c05Line("pair", curve, []*big.Int{new(big.Int), big.NewInt(2)}, []*big.Int{big.NewInt(5), big.NewInt(3)})
				}
			}
			if curve == "bn254" || g.thorough() {
				nb := g.budget(1, 2)
				if !fast {
					nb = 1
				}
				for i := 0; i < nb; i++ {
					g.emit("C05 bilinv %s %s %s", curve, sHex(c05Scalar(g, r)), sHex(c05Scalar(g, r)))
				}
				g.emit("C05 orderv %s", curve)
			}
		}
		g.emit("C05 order %s", curve)
		// variants / check: k = 1..5, generic vectors, zeros at every position, vanishing sums
		maxK := g.budget(5, 6)
		for k := 1; k <= maxK; k++ {
			reps := g.budget(1, 4)
			for rep := 0; rep < reps; rep++ {
				var as, bs []*big.Int
				for i := 0; i < k; i++ {
					as = append(as, c05Scalar(g, r))
					bs = append(bs, c05Scalar(g, r))
				}
				g.c05Line("variants", curve, as, bs)
				g.c05Line("check", curve, as, bs)
			}
			// a zero (point at infinity) at every position, on either side, and on both
			for z := 0; z < k; z++ {
				// every position z of P, of Q and of both, in both tiers (the fixed-Q variants are bits 4, 5 of `variants`)
				for side := 0; side < 3; side++ {
					var as, bs []*big.Int
					for i := 0; i < k; i++ {
						as = append(as, c05Scalar(g, r))
						bs = append(bs, c05Scalar(g, r))
					}
					zero := new(big.Int)
					if g.rng.intn(3) == 0 {
						zero = new(big.Int).Set(r) // [r]G = infinity as well
					}
					if side != 1 {
						as[z] = zero
					}
					if side != 0 {
						bs[z] = zero
					}
					g.c05Line("variants", curve, as, bs)
					if side == 0 || k > 2 {
						g.c05Line("check", curve, as, bs)
					}
				}
			}
			// all pairs infinite
			{
				var as, bs []*big.Int
				for i := 0; i < k; i++ {
					as = append(as, new(big.Int))
					bs = append(bs, c05Scalar(g, r))
				}
				g.c05Line("variants", curve, as, bs)
				g.c05Line("check", curve, as, bs)
			}
			// Σ a_i b_i ≡ 0 (mod r), with and without an infinite pair; and the same vector off by one
			for rep := 0; rep < g.budget(1, 3); rep++ {
				as, bs := c05Vanishing(g, r, k, -1)
				g.c05Line("check", curve, as, bs)
				g.c05Line("variants", curve, as, bs)
				if k >= 2 {
					as, bs = c05Vanishing(g, r, k, g.rng.intn(k-1))
					g.c05Line("check", curve, as, bs)
				}
				bs2 := append([]*big.Int{}, bs...)
				bs2[k-1] = new(big.Int).Add(bs2[k-1], one)
				as2 := append([]*big.Int{}, as...)
				if new(big.Int).Mod(as2[k-1], r).Sign() == 0 {
					as2[k-1] = big.NewInt(1)
				}
				g.c05Line("check", curve, as2, bs2)
			}
		}
		// call HISTORIES on shared precomputed lines: k = 1..3 (thorough 5) pairs, the same lines slice through 2-3 consecutive calls of
		// each fixed-argument entry point and through mixed sequences, a fresh P vector per call (for cf: every other one with Σab ≡ 0)
		for k := 1; k <= g.budget(3, 5); k++ {
			for rep := 0; rep < g.budget(1, 3); rep++ {
				seqs := [][]string{{"ml", "ml", "ml"}, {"pf", "pf"}, {"cf", "cf", "cf"}}
				kinds := []string{"ml", "pf", "cf"}
				for m := 0; m < 2; m++ {
					var sq []string
					for i := 0; i < 2+g.rng.intn(2); i++ {
						sq = append(sq, kinds[g.rng.intn(3)])
					}
					seqs = append(seqs, sq)
				}
				if g.thorough() {
					seqs = append(seqs, []string{"ml", "pf", "cf", "ml", "pf", "cf"}, []string{"pf", "pf", "pf", "cf"}, []string{"cf", "ml", "ml"})
				}
				for _, sq := range seqs {
					var bs []*big.Int
					for i := 0; i < k; i++ {
						bs = append(bs, c05Scalar(g, r))
					}
					w := []string{}
					for _, v := range bs {
						w = append(w, sHex(v))
					}
					for ci, kind := range sq {
						var as []*big.Int
						for i := 0; i < k; i++ {
							as = append(as, c05Scalar(g, r))
						}
						if kind == "cf" && (ci+rep)%2 == 0 {
							// solve the last a for Σ a_i b_i ≡ 0 (b_k invertible), k = 1: a multiple of r
							bk := new(big.Int).Mod(bs[k-1], r)
							if k == 1 || bk.Sign() == 0 {
								as[k-1] = new(big.Int).Mul(r, big.NewInt(int64(g.rng.intn(3))))
								if bk.Sign() == 0 && k > 1 {
									as[k-1] = c05Scalar(g, r)
								}
							}
							if k > 1 && bk.Sign() != 0 {
								sum := new(big.Int)
								for i := 0; i < k-1; i++ {
									sum.Add(sum, new(big.Int).Mul(as[i], bs[i]))
								}
								sum.Neg(sum).Mod(sum, r)
								as[k-1] = sum.Mul(sum, new(big.Int).ModInverse(bk, r)).Mod(sum, r)
							}
						}
						w = append(w, kind)
						for _, v := range as {
							w = append(w, sHex(v))
						}
					}
					g.emit("C05 hist %s %d %d %s", curve, k, len(sq), join(w))
				}
			}
		}
		// call HISTORIES on Miller-loop OUTPUTS (op `fehist`): MillerLoop on 2..4 sub-lists of 1..3 pairs, then FinalExponentiation with 1, 2, 3
		// arguments repeated 2-3 times on the SAME objects, interleaved with single-argument calls; one layout with cancelling sub-lists
		// (e(aG1,bG2)·e(-abG1,G2) = 1) so that the `== 1` bit takes both values
		{
			feLine := func(ga, gb [][]*big.Int, calls [][]int) {
				var w []string
				for j := range ga {
					w = append(w, big.NewInt(int64(len(ga[j]))).Text(10))
					for _, v := range ga[j] {
						w = append(w, sHex(v))
					}
					for _, v := range gb[j] {
						w = append(w, sHex(v))
					}
				}
				for _, c := range calls {
					w = append(w, big.NewInt(int64(len(c))).Text(10))
					for _, j := range c {
						w = append(w, big.NewInt(int64(j)).Text(10))
					}
				}
				g.emit("C05 fehist %s %d %d %s", curve, len(ga), len(calls), join(w))
			}
			groups := func(ng, maxSize int) (ga, gb [][]*big.Int) {
				for j := 0; j < ng; j++ {
					sz := 1 + g.rng.intn(maxSize)
					var xa, xb []*big.Int
					for i := 0; i < sz; i++ {
						xa = append(xa, c05Scalar(g, r))
						xb = append(xb, c05Scalar(g, r))
					}
					ga, gb = append(ga, xa), append(gb, xb)
				}
				return
			}
			fixed := [][][]int{
				{{0, 1}, {0, 1}, {0}},
				{{0, 1, 2}, {0, 1, 2}, {0}, {1}, {0, 1, 2}},
				{{0}, {0}, {1, 0}, {1}, {0, 1}, {0}},
				{{1, 2}, {0, 1}, {1, 2}, {2}, {0}},
			}
			for rep := 0; rep < g.budget(1, 3); rep++ {
				for _, calls := range fixed {
					ga, gb := groups(3, g.budget(2, 3))
					feLine(ga, gb, calls)
				}
				// random histories: 2..4 outputs, 3..6 calls of 1..3 (thorough 4) arguments, indices drawn with repetition
				for m := 0; m < g.budget(2, 4); m++ {
					ng := 2 + g.rng.intn(3)
					ga, gb := groups(ng, g.budget(2, 3))
					var calls [][]int
					for c := 0; c < 3+g.rng.intn(4); c++ {
						var idx []int
						for i := 0; i < 1+g.rng.intn(g.budget(3, 4)); i++ {
							idx = append(idx, g.rng.intn(ng))
						}
						calls = append(calls, idx)
					}
					feLine(ga, gb, calls)
				}
				// cancelling outputs: M0 = ML(aG1,bG2), M1 = ML(-abG1,G2), M2 generic, M3 = ML of an all-infinite list
				{
					a, b := c05Scalar(g, r), c05Scalar(g, r)
					ab := new(big.Int).Mul(a, b)
					ga, gb := groups(1, 2)
					ga = append([][]*big.Int{{a}, {new(big.Int).Neg(ab)}}, ga...)
					gb = append([][]*big.Int{{b}, {one}}, gb...)
					ga = append(ga, []*big.Int{new(big.Int), c05Scalar(g, r)})
					gb = append(gb, []*big.Int{c05Scalar(g, r), new(big.Int).Set(r)})
					feLine(ga, gb, [][]int{{0, 1}, {0, 1}, {0}, {1, 0}, {3}, {0, 1, 2}, {3, 0, 1}, {2}})
				}
			}
		}
		// the classical e(aG1, bG2)·e(−abG1, G2) = 1
		for rep := 0; rep < g.budget(1, 3); rep++ {
			a, b := c05Scalar(g, r), c05Scalar(g, r)
			ab := new(big.Int).Mul(a, b)
			g.c05Line("check", curve, []*big.Int{a, new(big.Int).Neg(ab)}, []*big.Int{b, one})
			g.c05Line("check", curve, []*big.Int{a, ab}, []*big.Int{b, one})
		}
		// bilinearity against GT.Exp
		for rep := 0; rep < g.budget(2, 8); rep++ {
			g.emit("C05 bilin %s %s %s", curve, sHex(c05Scalar(g, r)), sHex(c05Scalar(g, r)))
		}
		g.emit("C05 bilin %s 0 %s", curve, sHex(c05Scalar(g, r)))
		g.emit("C05 bilin %s %s 0", curve, sHex(c05Scalar(g, r)))
		g.emit("C05 bilin %s 1 1", curve)
		g.emit("C05 bilin %s -1 1", curve)
		// size mismatches and k = 0: the full lattice off the diagonal, both directions, empty on either side
		g.c05Line("variants", curve, nil, nil)
		g.c05Line("check", curve, nil, nil)
		g.c05Line("pair", curve, nil, nil)
		maxN := g.budget(4, 6)
		for nP := 0; nP <= maxN; nP++ {
			for nQ := 0; nQ <= maxN; nQ++ {
				if nP == nQ {
					continue
				}
				// generic points; all points infinite; a shape that would have equal sizes after dropping infinite points
				mode := g.rng.intn(3)
				var as, bs []*big.Int
				for i := 0; i < nP; i++ {
					as = append(as, c05Scalar(g, r))
				}
				for i := 0; i < nQ; i++ {
					bs = append(bs, c05Scalar(g, r))
				}
				switch mode {
				case 1:
					for i := range as {
						as[i] = new(big.Int)
					}
					for i := range bs {
						bs[i] = new(big.Int)
					}
				case 2:
					long := as
					if nQ > nP {
						long = bs
					}
					d := nP - nQ
					if d < 0 {
						d = -d
					}
					for i := 0; i < d; i++ {
						long[len(long)-1-i] = new(big.Int)
					}
				}
				g.c05Line("variants", curve, as, bs)
				if (nP+nQ)%2 == 1 {
					g.c05Line("check", curve, as, bs)
				} else {
					g.c05Line("pair", curve, as, bs)
				}
			}
		}
		// size mismatch with an ALL-TRIVIAL common prefix: every pair of the common prefix has a point at infinity (on the P side, the Q side
		// or both; scalar 0 or r), the surplus points are generic (or infinite too); every (nP,nQ) off the diagonal incl. an empty side.
		// `variants` asks ALL entry points (Pair, PairingCheck, MillerLoop, the three FixedQ ones, bw6-761 MillerLoopDirect) for the error
		for nP := 0; nP <= maxN; nP++ {
			for nQ := 0; nQ <= maxN; nQ++ {
				if nP == nQ {
					continue
				}
				var as, bs []*big.Int
				for i := 0; i < nP; i++ {
					as = append(as, c05Scalar(g, r))
				}
				for i := 0; i < nQ; i++ {
					bs = append(bs, c05Scalar(g, r))
				}
				inf := func() *big.Int {
					if g.rng.intn(3) == 0 {
						return new(big.Int).Set(r)
					}
					return new(big.Int)
				}
				for i := 0; i < nP && i < nQ; i++ {
					switch g.rng.intn(3) {
					case 0:
						as[i] = inf()
					case 1:
						bs[i] = inf()
					default:
						as[i], bs[i] = inf(), inf()
					}
				}
				if g.rng.intn(4) == 0 { // the surplus infinite as well
					for i := nQ; i < nP; i++ {
						as[i] = inf()
					}
					for i := nP; i < nQ; i++ {
						bs[i] = inf()
					}
				}
				g.c05Line("variants", curve, as, bs)
				g.c05Line("check", curve, as, bs)
				if nP == 0 || nQ == 0 || g.thorough() {
					g.c05Line("pair", curve, as, bs)
				}
			}
		}
	}
	// malformed stream
	g.emit("C05")
	g.emit("C05 pair")
	g.emit("C05 pair bn254")
	g.emit("C05 pair nocurve 1 1 1 1")
	g.emit("C05 pair bn254 1 1 1")
	g.emit("C05 pair bn254 1 1 1 1 1")
	g.emit("C05 pair bn254 x 1 1 1")
	g.emit("C05 check bn254 1 1 1 0x1")
	g.emit("C05 check bn254 1 1 1 -")
	g.emit("C05 variants bn254 1 1 G 1")
	g.emit("C05 bilin bn254 1")
	g.emit("C05 bilin bn254 1 2 3")
	g.emit("C05 bilinv bls12-381 zz 1")
	g.emit("C05 order")
	g.emit("C05 selftest")
	g.emit("C05 selftest bn254 1")
	g.emit("C05 g1 bn254")
	g.emit("C05 g2 bn254 1 2")
	g.emit("C05 g1 bn254 0x")
	g.emit("C05 orderv bn254 1")
	g.emit("C05 reuse bn254 1")
	g.emit("C05 order bn254 1")
	g.emit("C05 frobnicate bn254 1 1")
	g.emit("C05 hist bn254 1 1 1 zz 1")                                         // unknown kind
	g.emit("C05 hist bn254 0 1 pf")                                             // k = 0
	g.emit("C05 hist bn254 1 0 1")                                              // no call
	g.emit("C05 hist bn254 2 2 1 2 pf 1 2 ml 1")                                // arity
	g.emit("C05 hist bn254 1 1 1 pf G")                                         // not a scalar
	g.emit("C05 hist bn254 1 9 1 pf 1 pf 1 pf 1 pf 1 pf 1 pf 1 pf 1 pf 1 pf 1") // too many calls
	g.emit("C05 hist bn254")
	g.emit("C05 fehist bn254")
	g.emit("C05 fehist bn254 0 1 1 0")                   // no Miller-loop output
	g.emit("C05 fehist bn254 1 0 1 2 3")                 // no call
	g.emit("C05 fehist bn254 1 1 1 2 3 1 1")             // index out of range
	g.emit("C05 fehist bn254 1 1 0 1 0")                 // empty sub-list
	g.emit("C05 fehist bn254 1 1 1 2 3 0")               // call without argument
	g.emit("C05 fehist bn254 1 1 1 2 3 5 0 0 0 0 0")     // too many arguments
	g.emit("C05 fehist bn254 1 1 1 2 3 1 0 0")           // trailing token
	g.emit("C05 fehist bn254 1 1 2 2 3 1 0")             // sub-list cut short
	g.emit("C05 fehist bn254 1 1 1 G 3 1 0")             // not a scalar
	g.emit("C05 fehist bn254 2 2 1 2 3 1 5 7 2 0 1 1 0") // well-formed
}
