package main

// C06 — correspondence of the tower functionality that tools/goslp cannot translate (Gen/untranslated.json: big.Int
// exponentiations, slice functions, error results, fixed-seed chains, square roots, …) with plain schoolbook tower
// arithmetic (Model/TowerOps.lean).  Everything is reached by reflection on the exported aliases (bn254.GT/E2/E6/E12, …,
// field/<f>/extensions.E2/E4); the exported slice functions of ecc/<curve>/internal/fptower come through the map added
// by hooks/mkoverlay_c06.py (c06_shim.go), those of the small-field extension packages are public.
//
//	C06 <pkg> <Type> <op> <args…>      (ops: see Model/TowerOps.lean)
//
// an element is one token: base-field coordinates in Go declaration order, hex, comma separated.

import (
	"math/big"
	"reflect"
	"sort"
	"strconv"
	"strings"

	"github.com/consensys/gnark-crypto/ecc"
	bbext "github.com/consensys/gnark-crypto/field/babybear/extensions"
	glext "github.com/consensys/gnark-crypto/field/goldilocks/extensions"
	kbext "github.com/consensys/gnark-crypto/field/koalabear/extensions"
)

// package -> name -> exported package-level function over tower slices
var c06Funcs = map[string]map[string]any{
	"koalabear":  {"BatchInvertE2": kbext.BatchInvertE2, "BatchInvertE4": kbext.BatchInvertE4, "MulAccE4": kbext.MulAccE4},
	"babybear":   {"BatchInvertE2": bbext.BatchInvertE2, "BatchInvertE4": bbext.BatchInvertE4, "MulAccE4": bbext.MulAccE4},
	"goldilocks": {"BatchInvertE2": glext.BatchInvertE2},
}

type c06Info struct {
	top, half string   // GT type and the type of its two halves ("" for the small fields)
	k         int      // embedding degree
	r         *big.Int // order of GT
	levels    []string // every extension level, bottom up
}

var c06Pkgs = map[string]c06Info{
	"bn254":      {"E12", "E6", 12, ecc.BN254.ScalarField(), []string{"E2", "E6", "E12"}},
	"bls12_381":  {"E12", "E6", 12, ecc.BLS12_381.ScalarField(), []string{"E2", "E6", "E12"}},
	"bls12_377":  {"E12", "E6", 12, ecc.BLS12_377.ScalarField(), []string{"E2", "E6", "E12"}},
	"bls24_315":  {"E24", "E12", 24, ecc.BLS24_315.ScalarField(), []string{"E2", "E4", "E12", "E24"}},
	"bls24_317":  {"E24", "E12", 24, ecc.BLS24_317.ScalarField(), []string{"E2", "E4", "E12", "E24"}},
	"bw6_761":    {"E6", "E3", 6, ecc.BW6_761.ScalarField(), []string{"E3", "E6"}},
	"bw6_633":    {"E6", "E3", 6, ecc.BW6_633.ScalarField(), []string{"E3", "E6"}},
	"koalabear":  {"", "", 0, nil, []string{"E2", "E4"}},
	"babybear":   {"", "", 0, nil, []string{"E2", "E4"}},
	"goldilocks": {"", "", 0, nil, []string{"E2"}},
}
var c06Order = []string{"bn254", "bls12_381", "bls12_377", "bls24_315", "bls24_317", "bw6_761", "bw6_633", "koalabear", "babybear", "goldilocks"}

// ---------------------------------------------------------------------------------------------- reflection helpers

func c06Parse(t reflect.Type, tok string) (reflect.Value, bool) {
	parts := strings.Split(tok, ",")
	if len(parts) != slpSize(t) {
		return reflect.Value{}, false
	}
	xs := make([]*big.Int, len(parts))
	for i, h := range parts {
		v, ok := new(big.Int).SetString(h, 16)
		if !ok || v.Sign() < 0 {
			return reflect.Value{}, false
		}
		xs[i] = v
	}
	p := reflect.New(t)
	slpFill(p.Elem(), &xs)
	return p, true
}

func c06Show(p reflect.Value) string {
	var out []string
	slpFlat(p.Elem(), &out)
	return strings.Join(out, ",")
}

func c06ShowList(s reflect.Value) string {
	if s.Len() == 0 {
		return "-"
	}
	out := make([]string, s.Len())
	for i := range out {
		out[i] = c06Show(s.Index(i).Addr())
	}
	return join(out)
}

func c06ParseList(t reflect.Type, toks []string) (reflect.Value, bool) {
	s := reflect.MakeSlice(reflect.SliceOf(t), len(toks), len(toks))
	for i, tok := range toks {
		p, ok := c06Parse(t, tok)
		if !ok {
			return s, false
		}
		s.Index(i).Set(p.Elem())
	}
	return s, true
}

func c06Has(t reflect.Type, m string) bool {
	_, ok := reflect.PointerTo(t).MethodByName(m)
	return ok
}

func c06Func(pkg, name string) (reflect.Value, bool) {
	f, ok := c06Funcs[pkg][name]
	if !ok {
		return reflect.Value{}, false
	}
	return reflect.ValueOf(f), true
}

var c06FrobNames = map[string]string{"1": "Frobenius", "2": "FrobeniusSquare", "3": "FrobeniusCube", "4": "FrobeniusQuad"}
var c06ExpNames = map[string]string{"exp": "Exp", "cycexp": "CyclotomicExp", "expglv": "ExpGLV"}

func c06Less(a, b string) bool { // coordinate-wise lexicographic order of two element tokens
	x, y := strings.Split(a, ","), strings.Split(b, ",")
	for i := range x {
		if c := parseBig(x[i]).Cmp(parseBig(y[i])); c != 0 {
			return c < 0
		}
	}
	return false
}

// ---------------------------------------------------------------------------------------------- executor

// ops that write their result into a receiver distinct from the operands: `dirty <d> <op> <args…>` runs them with every
// such receiver pre-loaded with the full element d instead of the Go zero value
var c06DirtyOps = map[string]bool{"exp": true, "cycexp": true, "expglv": true, "fixed": true, "frob": true, "invu": true,
	"sqrt": true, "select": true, "nrrt": true, "ksq": true, "kbatch": true}

func execC06(a []string) string {
	if len(a) < 3 {
		return "bad-op"
	}
	pkg, ty, op, args := a[0], a[1], a[2], a[3:]
	t := slpTypes[pkg][ty]
	if t == nil || ty == "Element" {
		return "bad-op"
	}
	var dirt reflect.Value // valid: the previous contents of every receiver
	if op == "dirty" {
		if len(args) < 2 || !c06DirtyOps[args[1]] {
			return "bad-op"
		}
		d, ok := c06Parse(t, args[0])
		if !ok {
			return "bad-op"
		}
		dirt, op, args = d, args[1], args[2:]
	}
	recvs := 0
	recv := func() reflect.Value { // a receiver: fresh zero value, or holding garbage (d, d², d³, … for successive receivers)
		z := reflect.New(t)
		if dirt.IsValid() {
			z.Elem().Set(dirt.Elem())
			for i := 0; i < recvs; i++ {
				z.MethodByName("Mul").Call([]reflect.Value{z, dirt})
			}
			recvs++
		}
		return z
	}
	un := func(m string, tok string) string { // z.m(&x)
		x, ok := c06Parse(t, tok)
		if !ok || !c06Has(t, m) {
			return "bad-op"
		}
		z := recv()
		z.MethodByName(m).Call([]reflect.Value{x})
		return c06Show(z)
	}
	switch op {
	case "exp", "cycexp", "expglv":
		m := c06ExpNames[op]
		if len(args) != 2 || !c06Has(t, m) {
			return "bad-op"
		}
		x, ok := c06Parse(t, args[0])
		k, ok2 := new(big.Int).SetString(args[1], 16)
		if !ok || !ok2 {
			return "bad-op"
		}
		z := recv()
		z.MethodByName(m).Call([]reflect.Value{x.Elem(), reflect.ValueOf(k)})
		return c06Show(z)
	case "fixed":
		if len(args) != 2 || !(strings.HasPrefix(args[0], "Expt") || strings.HasPrefix(args[0], "Expc")) {
			return "bad-op"
		}
		return un(args[0], args[1])
	case "frob":
		if len(args) != 2 || c06FrobNames[args[0]] == "" {
			return "bad-op"
		}
		return un(c06FrobNames[args[0]], args[1])
	case "invu":
		if len(args) != 1 {
			return "bad-op"
		}
		return un("InverseUnitary", args[0])
	case "legendre":
		if len(args) != 1 || !c06Has(t, "Legendre") {
			return "bad-op"
		}
		x, ok := c06Parse(t, args[0])
		if !ok {
			return "bad-op"
		}
		return strconv.FormatInt(x.MethodByName("Legendre").Call(nil)[0].Int(), 10)
	case "sqrt":
		if len(args) != 2 || !c06Has(t, "Sqrt") {
			return "bad-op"
		}
		x, ok := c06Parse(t, args[0])
		if !ok {
			return "bad-op"
		}
		z, nz := recv(), recv()
		z.MethodByName("Sqrt").Call([]reflect.Value{x})
		nz.MethodByName("Neg").Call([]reflect.Value{z})
		s, ns := c06Show(z), c06Show(nz)
		if c06Less(ns, s) {
			return ns
		}
		return s
	case "cmp":
		if len(args) != 2 || !c06Has(t, "Cmp") {
			return "bad-op"
		}
		x, ok := c06Parse(t, args[0])
		y, ok2 := c06Parse(t, args[1])
		if !ok || !ok2 {
			return "bad-op"
		}
		return strconv.FormatInt(x.MethodByName("Cmp").Call([]reflect.Value{y})[0].Int(), 10)
	case "lexl":
		if len(args) != 1 || !c06Has(t, "LexicographicallyLargest") {
			return "bad-op"
		}
		x, ok := c06Parse(t, args[0])
		if !ok {
			return "bad-op"
		}
		return boolStr(x.MethodByName("LexicographicallyLargest").Call(nil)[0].Bool())
	case "select":
		if len(args) != 3 || !c06Has(t, "Select") {
			return "bad-op"
		}
		c, ok0 := new(big.Int).SetString(args[0], 16)
		x, ok := c06Parse(t, args[1])
		y, ok2 := c06Parse(t, args[2])
		if !ok0 || !ok || !ok2 || !c.IsInt64() {
			return "bad-op"
		}
		z := recv()
		z.MethodByName("Select").Call([]reflect.Value{reflect.ValueOf(int(c.Int64())), x, y})
		return c06Show(z)
	case "nrrt": // MulByNonResidue(MulByNonResidueInv(x)) and MulByNonResidueInv(MulByNonResidue(x))
		if len(args) != 1 || !c06Has(t, "MulByNonResidueInv") || !c06Has(t, "MulByNonResidue") {
			return "bad-op"
		}
		x, ok := c06Parse(t, args[0])
		if !ok {
			return "bad-op"
		}
		a, b := recv(), recv()
		a.MethodByName("MulByNonResidueInv").Call([]reflect.Value{x})
		a.MethodByName("MulByNonResidue").Call([]reflect.Value{a})
		b.MethodByName("MulByNonResidue").Call([]reflect.Value{x})
		b.MethodByName("MulByNonResidueInv").Call([]reflect.Value{b})
		return c06Show(a) + " " + c06Show(b)
	case "insub":
		if len(args) != 1 || !c06Has(t, "IsInSubGroup") {
			return "bad-op"
		}
		x, ok := c06Parse(t, args[0])
		if !ok {
			return "bad-op"
		}
		return boolStr(x.MethodByName("IsInSubGroup").Call(nil)[0].Bool())
	case "binv":
		f, ok := c06Func(pkg, "BatchInvert"+ty)
		xs, ok2 := c06ParseList(t, args)
		if !ok || !ok2 {
			return "bad-op"
		}
		return c06ShowList(f.Call([]reflect.Value{xs})[0])
	case "ksq":
		if len(args) != 2 || !c06Has(t, "DecompressKarabina") {
			return "bad-op"
		}
		n, err := strconv.Atoi(args[0])
		x, ok := c06Parse(t, args[1])
		if err != nil || !ok || n < 0 || n > 999 {
			return "bad-op"
		}
		if dirt.IsValid() {
			// the compressed value is produced into a receiver that held a full element (its g0 / g4 slots keep that
			// garbage), then decompressed into another dirty receiver AND in place: both must be the element
			z := x
			if n > 0 {
				z = recv()
				z.MethodByName("CyclotomicSquareCompressed").Call([]reflect.Value{x})
				for i := 1; i < n; i++ {
					z.MethodByName("CyclotomicSquareCompressed").Call([]reflect.Value{z})
				}
			}
			w := recv()
			w.MethodByName("DecompressKarabina").Call([]reflect.Value{z})
			sw := c06Show(w)
			if n > 0 {
				z.MethodByName("DecompressKarabina").Call([]reflect.Value{z})
				if sz := c06Show(z); sz != sw {
					return "receiver-dependent " + sw + " " + sz
				}
			}
			return sw
		}
		for i := 0; i < n; i++ {
			x.MethodByName("CyclotomicSquareCompressed").Call([]reflect.Value{x})
		}
		x.MethodByName("DecompressKarabina").Call([]reflect.Value{x})
		return c06Show(x)
	case "kbatch":
		f, ok := c06Func(pkg, "BatchDecompressKarabina")
		if !ok || len(args) < 1 {
			return "bad-op"
		}
		n, err := strconv.Atoi(args[0])
		xs, ok2 := c06ParseList(t, args[1:])
		if err != nil || !ok2 || n < 0 || n > 999 {
			return "bad-op"
		}
		for i := 0; i < xs.Len(); i++ {
			x := xs.Index(i).Addr()
			if dirt.IsValid() && n > 0 { // the slot of the batch held a full element before the first compressed squaring
				src := reflect.New(t)
				src.Elem().Set(x.Elem())
				x.Elem().Set(recv().Elem())
				x.MethodByName("CyclotomicSquareCompressed").Call([]reflect.Value{src})
				for j := 1; j < n; j++ {
					x.MethodByName("CyclotomicSquareCompressed").Call([]reflect.Value{x})
				}
				continue
			}
			for j := 0; j < n; j++ {
				x.MethodByName("CyclotomicSquareCompressed").Call([]reflect.Value{x})
			}
		}
		return c06ShowList(f.Call([]reflect.Value{xs})[0])
	case "ctorus", "torusrt":
		if len(args) != 1 || !c06Has(t, "CompressTorus") {
			return "bad-op"
		}
		x, ok := c06Parse(t, args[0])
		if !ok {
			return "bad-op"
		}
		res := x.MethodByName("CompressTorus").Call(nil)
		if !res[1].IsNil() {
			return "err:invalid"
		}
		y := reflect.New(res[0].Type())
		y.Elem().Set(res[0])
		if op == "ctorus" {
			return c06Show(y)
		}
		z := reflect.New(t)
		z.Elem().Set(y.MethodByName("DecompressTorus").Call(nil)[0])
		return c06Show(z)
	case "dtorus":
		h := slpTypes[pkg][c06Pkgs[pkg].half]
		if len(args) != 1 || h == nil || ty != c06Pkgs[pkg].top {
			return "bad-op"
		}
		y, ok := c06Parse(h, args[0])
		if !ok {
			return "bad-op"
		}
		z := reflect.New(t)
		z.Elem().Set(y.MethodByName("DecompressTorus").Call(nil)[0])
		return c06Show(z)
	case "bctorus":
		f, ok := c06Func(pkg, "BatchCompressTorus")
		xs, ok2 := c06ParseList(t, args)
		if !ok || !ok2 || ty != c06Pkgs[pkg].top {
			return "bad-op"
		}
		res := f.Call([]reflect.Value{xs})
		if !res[1].IsNil() {
			return "err:invalid"
		}
		return c06ShowList(res[0])
	case "bdtorus":
		h := slpTypes[pkg][c06Pkgs[pkg].half]
		f, ok := c06Func(pkg, "BatchDecompressTorus")
		if !ok || h == nil || ty != c06Pkgs[pkg].top {
			return "bad-op"
		}
		ys, ok2 := c06ParseList(h, args)
		if !ok2 {
			return "bad-op"
		}
		res := f.Call([]reflect.Value{ys})
		if !res[1].IsNil() {
			return "err:invalid"
		}
		return c06ShowList(res[0])
	case "mulacc":
		f, ok := c06Func(pkg, "MulAcc"+ty)
		if !ok || len(args) < 2 {
			return "bad-op"
		}
		alpha, ok1 := c06Parse(t, args[0])
		n, err := strconv.Atoi(args[1])
		if !ok1 || err != nil || n < 0 || len(args) < 2+n {
			return "bad-op"
		}
		et := slpTypes[pkg]["Element"]
		scale := reflect.MakeSlice(reflect.SliceOf(et), n, n)
		for i := 0; i < n; i++ {
			v, ok := new(big.Int).SetString(args[2+i], 16)
			if !ok {
				return "bad-op"
			}
			scale.Index(i).Addr().MethodByName("SetBigInt").Call([]reflect.Value{reflect.ValueOf(v)})
		}
		res, ok2 := c06ParseList(t, args[2+n:])
		if !ok2 {
			return "bad-op"
		}
		f.Call([]reflect.Value{alpha, scale, res})
		return c06ShowList(res)
	}
	return "bad-op"
}

// ---------------------------------------------------------------------------------------------- generator

type c06Env struct {
	g     *gen
	pkg   string
	info  c06Info
	p     *big.Int
	heavy bool // 24th-degree towers: fewer expensive ops in the quick tier
}

func (e *c06Env) typ(ty string) reflect.Type { return slpTypes[e.pkg][ty] }
func (e *c06Env) deg(ty string) int          { return slpSize(e.typ(ty)) }
func (e *c06Env) emit(ty, op string, args ...string) {
	e.g.emit("C06 %s %s %s %s", e.pkg, ty, op, join(args))
}

func c06Tok(xs []*big.Int) string {
	out := make([]string, len(xs))
	for i, x := range xs {
		out[i] = hexBig(x)
	}
	return strings.Join(out, ",")
}

func (e *c06Env) coords(ty string, f func(i int) *big.Int) string {
	xs := make([]*big.Int, e.deg(ty))
	for i := range xs {
		xs[i] = f(i)
	}
	return c06Tok(xs)
}
func (e *c06Env) rand(ty string) string {
	return e.coords(ty, func(int) *big.Int { return e.g.rng.bigBelow(e.p) })
}
func (e *c06Env) constant(ty string, c *big.Int) string { // c embedded in the base field
	return e.coords(ty, func(i int) *big.Int {
		if i == 0 {
			return new(big.Int).Mod(c, e.p)
		}
		return new(big.Int)
	})
}
func (e *c06Env) zero(ty string) string   { return e.constant(ty, big.NewInt(0)) }
func (e *c06Env) one(ty string) string    { return e.constant(ty, big.NewInt(1)) }
func (e *c06Env) negOne(ty string) string { return e.constant(ty, big.NewInt(-1)) }

// every coordinate from the boundary lattice {0,1,-1,2,(p-1)/2} or random; whole halves zeroed with probability 1/3
func (e *c06Env) sparse(ty string) string {
	n := e.deg(ty)
	lo, hi := 0, n
	switch e.g.rng.intn(6) {
	case 0:
		hi = n / 2
	case 1:
		lo = n / 2
	}
	return e.coords(ty, func(i int) *big.Int {
		if i < lo || i >= hi {
			return new(big.Int)
		}
		return slpValue(e.g, e.p, e.g.rng.intn(3) > 0)
	})
}

// only the coordinates lo ≤ i < hi are non-zero (random)
func (e *c06Env) block(ty string, lo, hi int) string {
	return e.coords(ty, func(i int) *big.Int {
		if i < lo || i >= hi {
			return new(big.Int)
		}
		return e.g.rng.bigBelow(e.p)
	})
}

func (e *c06Env) call1(ty, m, x string) string { // z.m(&x)
	t := e.typ(ty)
	xv, _ := c06Parse(t, x)
	z := reflect.New(t)
	z.MethodByName(m).Call([]reflect.Value{xv})
	return c06Show(z)
}
func (e *c06Env) call2(ty, m, x, y string) string { // z.m(&x,&y)
	t := e.typ(ty)
	xv, _ := c06Parse(t, x)
	yv, _ := c06Parse(t, y)
	z := reflect.New(t)
	z.MethodByName(m).Call([]reflect.Value{xv, yv})
	return c06Show(z)
}
func (e *c06Env) exp(ty, x string, k *big.Int) string {
	t := e.typ(ty)
	xv, _ := c06Parse(t, x)
	z := reflect.New(t)
	z.MethodByName("Exp").Call([]reflect.Value{xv.Elem(), reflect.ValueOf(k)})
	return c06Show(z)
}

func bigPow(p *big.Int, n int) *big.Int { return new(big.Int).Exp(p, big.NewInt(int64(n)), nil) }

// Φ_k(p) for k = 6, 12, 24
func (e *c06Env) phi() *big.Int {
	d := e.info.k / 6 // Φ_k(p) = p^(2d) − p^d + 1
	v := bigPow(e.p, 2*d)
	v.Sub(v, bigPow(e.p, d))
	return v.Add(v, big.NewInt(1))
}
func (e *c06Env) fieldOrderMinus1() *big.Int {
	v := bigPow(e.p, e.info.k)
	return v.Sub(v, big.NewInt(1))
}

// random element of the cyclotomic subgroup: x^((p^k−1)/Φ_k(p)) (the easy part of the final exponentiation)
func (e *c06Env) cyclo() string {
	c := new(big.Int).Div(e.fieldOrderMinus1(), e.phi())
	return e.exp(e.info.top, e.rand(e.info.top), c)
}

// random element of GT (order r): x^((p^k−1)/r); every such element is a pairing value
func (e *c06Env) gt() string {
	c := new(big.Int).Div(e.fieldOrderMinus1(), e.info.r)
	return e.exp(e.info.top, e.rand(e.info.top), c)
}

// random unitary element x̄/x = x^(p^(k/2)−1)
func (e *c06Env) unitary() string {
	c := bigPow(e.p, e.info.k/2)
	return e.exp(e.info.top, e.rand(e.info.top), c.Sub(c, big.NewInt(1)))
}

func pow2(k int) *big.Int { return new(big.Int).Lsh(big.NewInt(1), uint(k)) }

// integer of exactly `bits` bits (0 ↦ 0); boundary shapes 2^(b−1), 2^b − 1 or random
func (e *c06Env) ofBits(bits int) *big.Int {
	if bits == 0 {
		return new(big.Int)
	}
	switch e.g.rng.intn(4) {
	case 0:
		return pow2(bits - 1)
	case 1:
		return new(big.Int).Sub(pow2(bits), big.NewInt(1))
	}
	v := e.g.rng.bigBits(bits - 1)
	return v.Add(v, pow2(bits-1))
}

// exponent lattice: 0, ±1, small, r−1, r, r+1, 2^k, 2^k−1 at the word boundaries, random, negative, huge
// (small: the reduced list used for the expensive levels in the quick tier)
func (e *c06Env) exps(order *big.Int, hugeBits int, nrand int, small bool) []*big.Int {
	var out []*big.Int
	add := func(v *big.Int) { out = append(out, v) }
	smalls := []int64{0, 1, -1, 2, 3, -2, 5, 255, 256, -65537}
	if small {
		smalls = []int64{0, 1, -1, 3}
	}
	for _, s := range smalls {
		add(big.NewInt(s))
	}
	one := big.NewInt(1)
	add(new(big.Int).Sub(order, one))
	add(new(big.Int).Add(order, one))
	add(new(big.Int).Sub(one, order))
	bits := []int{63, 64, 65, 127, 128, order.BitLen() - 1, order.BitLen()}
	if small {
		bits = []int{64}
		add(new(big.Int).Sub(pow2(order.BitLen()), one))
	} else {
		add(new(big.Int).Set(order))
		add(new(big.Int).Neg(order))
	}
	for _, k := range bits {
		add(pow2(k))
		add(new(big.Int).Sub(pow2(k), one))
	}
	add(new(big.Int).Neg(pow2(64)))
	for i := 0; i < nrand; i++ {
		add(e.g.rng.bigBelow(order))
		add(new(big.Int).Neg(e.g.rng.bigBelow(order)))
	}
	add(e.ofBits(hugeBits))
	if !small {
		add(new(big.Int).Neg(e.g.rng.bigBits(hugeBits)))
	}
	return out
}

// exponents k = a + b·λ (λ = p mod r, the eigenvalue of the Frobenius on GT) whose two halves have very different
// lengths, in both directions, reduced mod r / unreduced / negated.  ecc.SplitScalar does not return the shortest
// representative (its rounding may add a basis vector), so the candidates are steered: the split of every candidate is
// computed with the lattice of (r, λ) (both representatives of λ) and candidates are added until every relation between
// the 64-bit word counts of the two halves (shorter / equal / longer) that occurs has been emitted at least twice.
func (e *c06Env) glvExps(n int) []*big.Int {
	r := e.info.r
	lam := new(big.Int).Mod(e.p, r)
	lamNeg := new(big.Int).Sub(lam, r) // the representative in (−r, 0)
	var lats [2]ecc.Lattice
	ecc.PrecomputeLattice(r, lam, &lats[0])
	ecc.PrecomputeLattice(r, lamNeg, &lats[1])
	words := func(v *big.Int) int { return (new(big.Int).Mod(new(big.Int).Abs(v), r).BitLen() + 63) / 64 }
	class := func(k *big.Int, li int) int { // −1: the λ-half occupies more words, +1: fewer; thorough: the pair of word counts
		s := ecc.SplitScalar(new(big.Int).Abs(k), &lats[li])
		w1, w2 := words(&s[0]), words(&s[1])
		if e.g.thorough() {
			return 100*w1 + w2
		}
		switch {
		case w1 < w2:
			return -1
		case w1 > w2:
			return 1
		}
		return 0
	}
	seen := map[[2]int]int{}
	want := 3
	if e.heavy && !e.g.thorough() {
		want = 1 // λ is 32 bits on the 24th-degree curves: nearly every split is lopsided anyway
	}
	var out []*big.Int
	emit := func(k *big.Int) {
		out = append(out, k)
		for li := range lats {
			seen[[2]int{li, class(k, li)}]++
		}
	}
	half := r.BitLen() / 2
	shapes := [][2]int{{3, 65}, {65, 3}, {64, 65}, {65, 64}, {0, 65}, {1, 128}, {128, 1}, {63, 100}, {100, 63}, {3, half - 1}, {half - 1, 3},
		{64, 64}, {0, 1}, {1, 64}, {64, 1}, {33, 65}, {65, 33}, {half - 2, 64}, {64, half - 2}, {129, 64}, {64, 129}, {192, 5}, {5, 192}}
	exact := [][2]*big.Int{{big.NewInt(5), pow2(64)}, {pow2(64), big.NewInt(5)}, {new(big.Int).Add(pow2(63), big.NewInt(1)), new(big.Int).Add(pow2(100), big.NewInt(12345))}}
	mk := func(a, b *big.Int, i int) *big.Int {
		l := lam
		if i%4 >= 2 && lamNeg.BitLen() < lam.BitLen() {
			l = lamNeg
		}
		k := new(big.Int).Mul(b, l)
		k.Add(k, a)
		switch i % 3 {
		case 0:
			k.Mod(k, r)
		case 1:
			// unreduced
		case 2:
			k.Mod(k, r).Neg(k)
		}
		return k
	}
	cand := func(s [2]int, i int) *big.Int {
		a, b := e.ofBits(s[0]), e.ofBits(s[1])
		if e.g.rng.intn(4) == 0 {
			a.Neg(a)
		}
		if e.g.rng.intn(4) == 0 {
			b.Neg(b)
		}
		return mk(a, b, i)
	}
	for i, ab := range exact {
		emit(mk(ab[0], ab[1], 3*i)) // reduced mod r
	}
	perm := e.g.rng.intn(len(shapes))
	for i := 0; i < n && i < len(shapes); i++ {
		s := shapes[(i+perm)%len(shapes)]
		if i < 4 {
			s = shapes[i] // the word-boundary shapes are always present
		}
		emit(cand(s, i))
	}
	for try := 0; try < 600; try++ {
		var s [2]int
		if try%2 == 0 {
			s = shapes[e.g.rng.intn(len(shapes))]
		} else {
			s = [2]int{e.g.rng.intn(r.BitLen()), e.g.rng.intn(r.BitLen())}
		}
		k := cand(s, try)
		useful := false
		for li := range lats {
			if seen[[2]int{li, class(k, li)}] < want {
				useful = true
			}
		}
		if useful {
			emit(k)
		}
	}
	return out
}

// the fixed-exponent methods of the top type (Expt, ExptHalf, ExptMinus1, Expc1, …), by reflection
func (e *c06Env) fixedNames() []string {
	var out []string
	pt := reflect.PointerTo(e.typ(e.info.top))
	for i := 0; i < pt.NumMethod(); i++ {
		m := pt.Method(i)
		if (strings.HasPrefix(m.Name, "Expt") || strings.HasPrefix(m.Name, "Expc")) && m.Type.NumIn() == 2 && m.Type.In(1) == pt {
			out = append(out, m.Name)
		}
	}
	sort.Strings(out)
	return out
}

func (e *c06Env) genLevel(ty string) {
	g := e.g
	t := e.typ(ty)
	top := ty == e.info.top
	n := e.deg(ty)
	elems := []string{e.rand(ty), e.zero(ty), e.one(ty), e.negOne(ty), e.constant(ty, g.rng.bigBelow(e.p)), e.sparse(ty), e.sparse(ty)}
	// ---- Exp: every integer exponent
	if c06Has(t, "Exp") {
		order := new(big.Int).Sub(bigPow(e.p, n), big.NewInt(1)) // |F*|
		if n >= 6 && e.info.r != nil {
			order = e.info.r
		}
		huge, small := 3000, false
		if n >= 6 {
			huge = g.budget(1000, 3000)
		}
		if e.heavy && n >= 12 {
			huge, small = g.budget(600, 3000), !g.thorough()
		}
		ks := e.exps(order, huge, g.budget(1, 4), small)
		for i, k := range ks {
			if small && top && i%2 == 1 {
				continue
			}
			// the operands rotate through the lattice (random, 0, 1, −1, base-field, sparse)
			e.emit(ty, "exp", elems[i%len(elems)], hexBig(k))
			if n < 6 || g.thorough() {
				e.emit(ty, "exp", elems[(i+1+i/len(elems))%len(elems)], hexBig(k))
			}
		}
		for i := 0; i < g.budget(2, 10); i++ {
			e.emit(ty, "exp", e.rand(ty), hexBig(ks[g.rng.intn(len(ks))]))
		}
	}
	// ---- Frobenius maps = p^i-th powers
	for _, i := range []string{"1", "2", "3", "4"} {
		if !c06Has(t, c06FrobNames[i]) {
			continue
		}
		xs := []string{e.rand(ty), e.sparse(ty), e.constant(ty, g.rng.bigBelow(e.p)), e.zero(ty), e.one(ty)}
		cnt := len(xs)
		if e.heavy && top {
			cnt = g.budget(1, len(xs))
		}
		for _, x := range xs[:cnt] {
			e.emit(ty, "frob", i, x)
		}
		// a generator of the tower: only coordinate j non-zero
		for j := 0; j < n && (!e.heavy || !top || g.thorough()); j++ {
			e.emit(ty, "frob", i, e.block(ty, j, j+1))
		}
	}
	// ---- Legendre / Sqrt (witness form)
	if c06Has(t, "Legendre") || c06Has(t, "Sqrt") {
		var ws []string // witnesses y; x = y²
		ws = append(ws, e.zero(ty), e.one(ty), e.negOne(ty), e.block(ty, 0, 1), e.block(ty, 1, 2), e.block(ty, 0, n/2), e.block(ty, n/2, n), e.block(ty, n-1, n))
		for i := 0; i < g.budget(6, 40); i++ {
			ws = append(ws, e.rand(ty))
		}
		for i := 0; i < g.budget(3, 12); i++ {
			ws = append(ws, e.sparse(ty))
		}
		for _, y := range ws {
			x := e.call1(ty, "Square", y)
			if c06Has(t, "Sqrt") {
				e.emit(ty, "sqrt", x, y)
			}
			if c06Has(t, "Legendre") {
				e.emit(ty, "legendre", x)
			}
		}
		if c06Has(t, "Legendre") {
			for i := 0; i < g.budget(8, 40); i++ {
				e.emit(ty, "legendre", e.rand(ty)) // half of them non-squares
			}
			for i := 0; i < g.budget(4, 12); i++ {
				e.emit(ty, "legendre", e.constant(ty, g.rng.bigBelow(e.p)))
				e.emit(ty, "legendre", e.sparse(ty))
			}
		}
	}
	// ---- Cmp / LexicographicallyLargest / Select / MulByNonResidueInv
	if c06Has(t, "Cmp") {
		for i := 0; i < g.budget(6, 30); i++ {
			x := e.rand(ty)
			if i%2 == 1 {
				x = e.sparse(ty)
			}
			// y = x with one coordinate changed, equal, or unrelated
			xs := strings.Split(x, ",")
			j := g.rng.intn(n)
			ys := append([]string{}, xs...)
			ys[j] = hexBig(slpValue(g, e.p, g.rng.coin()))
			e.emit(ty, "cmp", x, strings.Join(ys, ","))
			e.emit(ty, "cmp", strings.Join(ys, ","), x)
		}
		e.emit(ty, "cmp", elems[0], elems[0])
		e.emit(ty, "cmp", e.zero(ty), e.negOne(ty))
		e.emit(ty, "cmp", e.rand(ty), e.rand(ty))
	}
	if c06Has(t, "LexicographicallyLargest") {
		half := new(big.Int).Rsh(e.p, 1) // (p−1)/2
		for j := 0; j < n; j++ {         // the deciding coordinate at every position, at the threshold
			for _, d := range []int64{0, 1} {
				v := new(big.Int).Add(half, big.NewInt(d))
				e.emit(ty, "lexl", e.coords(ty, func(i int) *big.Int {
					switch {
					case i == j:
						return v
					case i < j:
						return e.g.rng.bigBelow(e.p)
					}
					return new(big.Int)
				}))
			}
		}
		for _, x := range elems {
			e.emit(ty, "lexl", x)
		}
		for i := 0; i < g.budget(4, 20); i++ {
			e.emit(ty, "lexl", e.sparse(ty))
		}
	}
	if c06Has(t, "Select") {
		for _, c := range []string{"0", "1", "2", "-1", "7fffffff", "-80000000", "100000000", "-8000000000000000", "7fffffffffffffff"} {
			e.emit(ty, "select", c, e.rand(ty), e.rand(ty))
		}
		e.emit(ty, "select", "0", e.zero(ty), e.negOne(ty))
		e.emit(ty, "select", "1", e.zero(ty), e.negOne(ty))
	}
	if c06Has(t, "MulByNonResidueInv") {
		for _, x := range elems {
			e.emit(ty, "nrrt", x)
		}
		for i := 0; i < g.budget(3, 20); i++ {
			e.emit(ty, "nrrt", e.rand(ty))
		}
	}
	// ---- batch inversion: every length 0..9, a zero at every position (index 0 included), all zero, random zero sets
	if _, ok := c06Func(e.pkg, "BatchInvert"+ty); ok {
		maxLen := 9
		for l := 0; l <= maxLen; l++ {
			mk := func(zero func(i int) bool) {
				xs := make([]string, l)
				for i := range xs {
					if zero(i) {
						xs[i] = e.zero(ty)
					} else if g.rng.intn(5) == 0 {
						xs[i] = e.sparse(ty)
					} else {
						xs[i] = e.rand(ty)
					}
				}
				e.emit(ty, "binv", xs...)
			}
			mk(func(int) bool { return false })
			if l == 0 {
				continue
			}
			mk(func(int) bool { return true })
			for z := 0; z < l; z++ {
				if e.heavy && top && !g.thorough() && z != 0 && z != l-1 && z != l/2 {
					continue
				}
				z := z
				mk(func(i int) bool { return i == z })
			}
			for r := 0; r < g.budget(1, 4); r++ {
				mask := g.rng.u64()
				mk(func(i int) bool { return mask>>uint(i)&1 == 1 })
			}
		}
	}
	// ---- multiply-accumulate kernels: every length 0..4·4+3 (thorough 8·4+3), mismatched lengths
	if _, ok := c06Func(e.pkg, "MulAcc"+ty); ok {
		maxLen := g.budget(4*4+3, 8*4+3)
		for l := 0; l <= maxLen; l++ {
			for rep := 0; rep < 2; rep++ {
				alpha := e.rand(ty)
				if rep == 1 {
					alpha = e.sparse(ty)
				}
				args := []string{alpha, strconv.Itoa(l)}
				for i := 0; i < l; i++ {
					args = append(args, hexBig(slpValue(g, e.p, rep == 1 && g.rng.intn(3) == 0)))
				}
				for i := 0; i < l; i++ {
					if rep == 1 && g.rng.intn(4) == 0 {
						args = append(args, e.sparse(ty))
					} else {
						args = append(args, e.rand(ty))
					}
				}
				e.emit(ty, "mulacc", args...)
			}
		}
		for _, l := range []int{64, 100, 127} {
			args := []string{e.rand(ty), strconv.Itoa(l)}
			for i := 0; i < l; i++ {
				args = append(args, hexBig(g.rng.bigBelow(e.p)))
			}
			for i := 0; i < l; i++ {
				args = append(args, e.rand(ty))
			}
			e.emit(ty, "mulacc", args...)
		}
		// len(scale) ≠ len(res): documented panic
		e.emit(ty, "mulacc", e.rand(ty), "1", "5", e.rand(ty), e.rand(ty))
		e.emit(ty, "mulacc", e.rand(ty), "2", "5", "7", e.rand(ty))
		e.emit(ty, "mulacc", e.rand(ty), "4", "5", "7", "1", "0")
	}
	// ---- DIRTY RECEIVERS: every method above that writes into a receiver distinct from its operands, re-run with the
	// receiver holding an arbitrary full element (random, sparse, 1) before the call: the result may not depend on it
	dirts := []string{e.rand(ty), e.sparse(ty), e.one(ty)}
	nd := 0
	dirty := func(op string, args ...string) {
		e.emit(ty, "dirty", append([]string{dirts[nd%len(dirts)], op}, args...)...)
		nd++
	}
	if c06Has(t, "Exp") {
		ks := []*big.Int{big.NewInt(0), big.NewInt(1), big.NewInt(-1), big.NewInt(2), g.rng.bigBits(64), new(big.Int).Neg(g.rng.bigBits(70))}
		if !(e.heavy && n >= 12) || g.thorough() {
			ks = append(ks, g.rng.bigBits(130))
		}
		for i, k := range ks {
			dirty("exp", elems[i%len(elems)], hexBig(k))
		}
		dirty("exp", e.rand(ty), hexBig(g.rng.bigBits(20)))
	}
	for _, i := range []string{"1", "2", "3", "4"} {
		if !c06Has(t, c06FrobNames[i]) {
			continue
		}
		dirty("frob", i, e.rand(ty))
		dirty("frob", i, e.sparse(ty))
		if !e.heavy || !top || g.thorough() {
			dirty("frob", i, e.one(ty))
			dirty("frob", i, e.zero(ty))
		}
	}
	if c06Has(t, "Sqrt") {
		for _, y := range []string{e.rand(ty), e.sparse(ty), e.zero(ty), e.one(ty), e.block(ty, 0, 1), e.block(ty, n-1, n)} {
			dirty("sqrt", e.call1(ty, "Square", y), y)
		}
	}
	if c06Has(t, "Select") {
		for _, c := range []string{"0", "1", "-1", "100000000"} {
			dirty("select", c, e.rand(ty), e.rand(ty))
		}
	}
	if c06Has(t, "MulByNonResidueInv") {
		for _, x := range []string{e.rand(ty), e.sparse(ty), e.zero(ty), e.one(ty)} {
			dirty("nrrt", x)
		}
	}
}

func (e *c06Env) genTop() {
	g := e.g
	ty := e.info.top
	t := e.typ(ty)
	r := e.info.r
	one := e.one(ty)
	nc := g.budget(3, 10)
	var cyc, gts, uni []string
	for i := 0; i < nc; i++ {
		cyc = append(cyc, e.cyclo())
		gts = append(gts, e.gt())
		uni = append(uni, e.unitary())
	}
	huge := g.budget(520, 3000)
	small := e.heavy && !g.thorough()
	// ---- CyclotomicExp on the cyclotomic subgroup, ExpGLV on GT: the whole exponent lattice
	ks := e.exps(r, huge, g.budget(1, 4), small)
	for i, k := range ks {
		if !small || i%2 == 0 {
			e.emit(ty, "cycexp", cyc[i%nc], hexBig(k))
		}
		e.emit(ty, "expglv", gts[i%nc], hexBig(k))
	}
	e.emit(ty, "cycexp", one, hexBig(ks[len(ks)-3]))
	e.emit(ty, "expglv", one, hexBig(ks[len(ks)-3]))
	nglv := g.budget(12, 23)
	if e.heavy {
		nglv = g.budget(6, 23)
	}
	for i, k := range e.glvExps(nglv) {
		e.emit(ty, "expglv", gts[i%nc], hexBig(k))
		if i%3 == 0 && (!small || i == 0) {
			e.emit(ty, "cycexp", cyc[i%nc], hexBig(k))
			e.emit(ty, "exp", e.rand(ty), hexBig(k))
		}
	}
	// ---- fixed-seed chains on cyclotomic elements
	for _, name := range e.fixedNames() {
		for _, x := range []string{cyc[0], cyc[1], gts[0], one} {
			e.emit(ty, "fixed", name, x)
		}
	}
	// ---- DIRTY RECEIVERS (see genLevel): receiver pre-loaded with a random element, a cyclotomic element, a GT element, 1
	dirts := []string{e.rand(ty), cyc[nc-1], gts[nc-1], e.sparse(ty), one}
	nd := 0
	dirty := func(op string, args ...string) {
		e.emit(ty, "dirty", append([]string{dirts[nd%len(dirts)], op}, args...)...)
		nd++
	}
	for i, k := range []*big.Int{big.NewInt(0), big.NewInt(1), big.NewInt(-1), g.rng.bigBits(64), new(big.Int).Neg(g.rng.bigBits(70)), new(big.Int).Sub(r, big.NewInt(1)), new(big.Int).Set(r)} {
		if small && i%2 == 1 {
			continue
		}
		dirty("cycexp", cyc[i%nc], hexBig(k))
		dirty("expglv", gts[i%nc], hexBig(k))
	}
	dirty("cycexp", one, hexBig(g.rng.bigBits(64)))
	dirty("expglv", one, hexBig(g.rng.bigBits(64)))
	for _, name := range e.fixedNames() {
		dirty("fixed", name, cyc[0])
		dirty("fixed", name, one)
		if !small {
			dirty("fixed", name, gts[1])
		}
	}
	dirty("invu", uni[0])
	dirty("invu", cyc[1])
	dirty("invu", one)
	// ---- InverseUnitary
	for i := 0; i < nc; i++ {
		e.emit(ty, "invu", uni[i])
		e.emit(ty, "invu", cyc[i])
	}
	e.emit(ty, "invu", one)
	e.emit(ty, "invu", e.negOne(ty))
	// ---- membership: GT elements, 1; non-members: cyclotomic elements, their r-th powers (order | Φ/r), g·c, random, −1
	if c06Has(t, "IsInSubGroup") {
		for i := 0; i < nc; i++ {
			e.emit(ty, "insub", gts[i])
			e.emit(ty, "insub", e.exp(ty, cyc[i], r))
			e.emit(ty, "insub", e.call2(ty, "Mul", gts[i], e.exp(ty, cyc[(i+1)%nc], r)))
			if small {
				break
			}
			e.emit(ty, "insub", cyc[i])
			if i > 0 && !g.thorough() {
				continue
			}
			e.emit(ty, "insub", uni[i])
			e.emit(ty, "insub", e.call2(ty, "Mul", gts[i], gts[(i+1)%nc]))
			e.emit(ty, "insub", e.call1(ty, "Conjugate", gts[i]))
			e.emit(ty, "insub", e.call2(ty, "Mul", gts[i], e.negOne(ty)))
		}
		e.emit(ty, "insub", one)
		e.emit(ty, "insub", e.zero(ty))
		e.emit(ty, "insub", e.rand(ty))
		if small {
			e.emit(ty, "insub", gts[1])
			e.emit(ty, "insub", cyc[1])
			e.emit(ty, "insub", e.call1(ty, "Conjugate", gts[1]))
		} else {
			e.emit(ty, "insub", e.negOne(ty))
			e.emit(ty, "insub", e.constant(ty, g.rng.bigBelow(e.p)))
		}
	}
	// ---- Karabina: n compressed squarings + decompression (n = 0: decompression of the element itself)
	if c06Has(t, "DecompressKarabina") {
		for i := 0; i < nc; i++ {
			for _, n := range []int{0, 1, 2, 7} {
				e.emit(ty, "ksq", strconv.Itoa(n), cyc[i])
			}
			e.emit(ty, "ksq", "1", gts[i])
		}
		e.emit(ty, "ksq", "0", one)
		e.emit(ty, "ksq", "1", one)
		e.emit(ty, "ksq", "3", one)
		// constructed subgroup elements X with g3 = 0 resp. g5 = 0 (operands of the decompression itself: n = 0), and
		// their square roots Y in the odd-order subgroup (so that the compressed square of Y has the zero coordinate).
		// The Y forms are emitted only when Go decompresses X itself correctly: otherwise they would repeat the
		// disagreement of the X form with an operand in which the zero coordinate cannot be seen.
		var xs0, ys []string
		halfOrd := new(big.Int).Add(e.phi(), big.NewInt(1))
		halfOrd.Rsh(halfOrd, 1)
		_, hasBatch := c06Func(e.pkg, "BatchDecompressKarabina")
		for _, g5 := range []bool{false, true} {
			for rep := 0; rep < g.budget(1, 3); rep++ {
				X, ok := e.karabinaSpecial(g5)
				if !ok {
					g.emit("C06 %s %s karabina-special-not-found", e.pkg, ty)
					continue
				}
				xs0 = append(xs0, X)
				e.emit(ty, "ksq", "0", X)
				if hasBatch {
					e.emit(ty, "kbatch", "0", X)
					e.emit(ty, "kbatch", "0", cyc[0], X, cyc[1])
				}
				if e.call1(ty, "DecompressKarabina", X) == X {
					Y := e.exp(ty, X, halfOrd)
					ys = append(ys, Y)
					e.emit(ty, "ksq", "1", Y)
					e.emit(ty, "ksq", "2", Y)
				}
				e.emit(ty, "ctorus", X)
				e.emit(ty, "torusrt", X)
				e.emit(ty, "cycexp", X, hexBig(g.rng.bigBits(70)))
				for _, name := range e.fixedNames() {
					e.emit(ty, "fixed", name, X)
				}
			}
		}
		if hasBatch && len(xs0) > 0 {
			e.emit(ty, "kbatch", append([]string{"0"}, xs0...)...)
			e.emit(ty, "kbatch", append([]string{"0", one}, xs0...)...)
		}
		if hasBatch && len(ys) > 0 {
			for l := 1; l <= 3; l++ {
				for z := 0; z < l; z++ {
					xs := make([]string, l)
					for i := range xs {
						xs[i] = cyc[g.rng.intn(nc)]
						if i == z {
							xs[i] = ys[g.rng.intn(len(ys))]
						}
					}
					e.emit(ty, "kbatch", append([]string{"1"}, xs...)...)
				}
			}
			e.emit(ty, "kbatch", append([]string{"1"}, ys...)...)
		}
		if _, ok := c06Func(e.pkg, "BatchDecompressKarabina"); ok {
			for l := 0; l <= 4; l++ {
				for z := -1; z < l; z++ { // the element 1 (g2 = g3 = 0 → zero in the batch inversion) at every position
					xs := make([]string, l)
					for i := range xs {
						xs[i] = cyc[g.rng.intn(nc)]
						if i == z {
							xs[i] = one
						}
					}
					e.emit(ty, "kbatch", append([]string{"1"}, xs...)...)
				}
			}
			e.emit(ty, "kbatch", "1", one, one, one)
			e.emit(ty, "kbatch", "0", cyc[0], one, cyc[1])
			e.emit(ty, "kbatch", "3", cyc[1], gts[0])
		}
		// DIRTY RECEIVERS: the compressed form determines the element - the slots a compressed squaring does not write
		// (g0, g4) keep what the receiver held and must not influence the decompression.  Degenerate operands (1: g2 = g3 =
		// 0; Y with g3 = 0 resp. g5 = 0 after the squaring; X with the zero coordinate itself) and generic ones, through
		// DecompressKarabina (separate receiver and in place) and BatchDecompressKarabina (every position, mixed batches).
		degen := append([]string{one}, ys...)
		operands := append(append([]string{}, degen...), cyc[0], cyc[1], gts[0])
		for _, x := range operands {
			for _, n := range []int{1, 2, 3} {
				for rep := 0; rep < 2; rep++ { // two kinds of garbage each
					dirty("ksq", strconv.Itoa(n), x)
				}
			}
		}
		for _, x := range append(append([]string{}, xs0...), one, cyc[0], gts[1]) {
			dirty("ksq", "0", x) // z.DecompressKarabina(&x), z dirty
			dirty("ksq", "0", x)
		}
		if hasBatch {
			for l := 1; l <= 4; l++ {
				for z := 0; z < l; z++ { // a degenerate entry at every position among generic ones
					for _, d := range degen {
						xs := make([]string, l)
						for i := range xs {
							xs[i] = cyc[g.rng.intn(nc)]
							if i == z {
								xs[i] = d
							}
						}
						dirty("kbatch", append([]string{strconv.Itoa(1 + g.rng.intn(2))}, xs...)...)
						if e.heavy && !g.thorough() {
							break
						}
					}
				}
				// all degenerate / all generic / random mix
				xs := make([]string, l)
				for i := range xs {
					xs[i] = degen[i%len(degen)]
				}
				dirty("kbatch", append([]string{"1"}, xs...)...)
				for i := range xs {
					xs[i] = cyc[i%nc]
				}
				dirty("kbatch", append([]string{"1"}, xs...)...)
				for i := range xs {
					xs[i] = operands[g.rng.intn(len(operands))]
				}
				dirty("kbatch", append([]string{"2"}, xs...)...)
			}
			dirty("kbatch", "1", one, one, one)
			dirty("kbatch", "1", one, one, one)
			dirty("kbatch", "3", one, cyc[0], one)
		}
	}
	// ---- torus compression
	if c06Has(t, "CompressTorus") {
		half := e.info.half
		hn := e.deg(half)
		c10 := e.block(ty, 0, hn) // C1 = 0
		for i := 0; i < nc; i++ {
			e.emit(ty, "ctorus", cyc[i])
			e.emit(ty, "torusrt", cyc[i])
			e.emit(ty, "torusrt", gts[i])
			e.emit(ty, "torusrt", uni[i])
			e.emit(ty, "dtorus", e.rand(half))
		}
		e.emit(ty, "ctorus", e.rand(ty)) // the formula (C0+1)/C1 on any operand
		e.emit(ty, "ctorus", e.sparse(ty))
		for _, x := range []string{one, e.negOne(ty), e.zero(ty), c10} {
			e.emit(ty, "ctorus", x) // C1 = 0: error
			e.emit(ty, "torusrt", x)
		}
		e.emit(ty, "dtorus", e.zero(half))
		e.emit(ty, "dtorus", e.one(half))
		e.emit(ty, "dtorus", e.sparse(half))
		if _, ok := c06Func(e.pkg, "BatchCompressTorus"); ok {
			for l := 0; l <= 5; l++ {
				for z := -1; z < l; z++ { // C1 = 0 at position z
					xs := make([]string, l)
					for i := range xs {
						xs[i] = cyc[g.rng.intn(nc)]
						if i == z {
							xs[i] = []string{one, e.negOne(ty), c10}[g.rng.intn(3)]
						}
					}
					e.emit(ty, "bctorus", xs...)
				}
			}
		}
		if _, ok := c06Func(e.pkg, "BatchDecompressTorus"); ok {
			for l := 0; l <= 4; l++ {
				ys := make([]string, l)
				for i := range ys {
					ys[i] = e.rand(half)
					if g.rng.intn(4) == 0 {
						ys[i] = e.sparse(half)
					}
				}
				e.emit(ty, "bdtorus", ys...)
			}
		}
	}
}

func genC06(g *gen) {
	for _, pkg := range c06Order {
		info := c06Pkgs[pkg]
		e := &c06Env{g: g, pkg: pkg, info: info, p: slpModulus(pkg), heavy: info.k == 24}
		for _, ty := range info.levels {
			e.genLevel(ty)
		}
		if info.top != "" {
			e.genTop()
		}
	}
	// malformed stream
	g.emit("C06 bn254 E12 exp 1 1")
	g.emit("C06 bn254 E7 exp 1,2 1")
	g.emit("C06 nocurve E2 exp 1,2 1")
	g.emit("C06 bn254 E2 nop 1,2")
	g.emit("C06 bn254 E2 exp 1,zz 1")
	g.emit("C06 bn254 E2")
}

func init() {
	executors["C06"] = execC06
	generators["C06"] = genC06
}

// ---------------------------------------------------------------------------------------------- constructed cyclotomic elements

// reflective arithmetic in the coefficient field F_q of the six Karabina coordinates (E2, E4 or fp.Element)
type c06F struct{ t reflect.Type }

func (f c06F) new() reflect.Value { return reflect.New(f.t) }
func (f c06F) op1(m string, a reflect.Value) reflect.Value {
	z := f.new()
	z.MethodByName(m).Call([]reflect.Value{a})
	return z
}
func (f c06F) op2(m string, a, b reflect.Value) reflect.Value {
	z := f.new()
	z.MethodByName(m).Call([]reflect.Value{a, b})
	return z
}
func (f c06F) mul(a, b reflect.Value) reflect.Value { return f.op2("Mul", a, b) }
func (f c06F) add(a, b reflect.Value) reflect.Value { return f.op2("Add", a, b) }
func (f c06F) sub(a, b reflect.Value) reflect.Value { return f.op2("Sub", a, b) }
func (f c06F) sq(a reflect.Value) reflect.Value     { return f.op1("Square", a) }
func (f c06F) inv(a reflect.Value) reflect.Value    { return f.op1("Inverse", a) }
func (f c06F) dbl(a reflect.Value) reflect.Value    { return f.op1("Double", a) }
func (f c06F) div(a, b reflect.Value) reflect.Value { return f.mul(a, f.inv(b)) }
func (f c06F) one() reflect.Value {
	z := f.new()
	z.MethodByName("SetOne").Call(nil)
	return z
}
func (f c06F) small(n int) reflect.Value { // n ≥ 1
	z := f.one()
	for i := 1; i < n; i++ {
		z = f.add(z, f.one())
	}
	return z
}
func (f c06F) exp(a reflect.Value, k *big.Int) reflect.Value {
	z := f.new()
	z.MethodByName("Exp").Call([]reflect.Value{a.Elem(), reflect.ValueOf(k)})
	return z
}
func (f c06F) eq(a, b reflect.Value) bool {
	return a.MethodByName("Equal").Call([]reflect.Value{b})[0].Bool()
}
func (f c06F) isZero(a reflect.Value) bool { return a.MethodByName("IsZero").Call(nil)[0].Bool() }
func (f c06F) isOne(a reflect.Value) bool  { return f.eq(a, f.one()) }

// a cube root of a in F_q (|F_q| = q), if there is one
func (f c06F) cbrt(a reflect.Value, q *big.Int, rnd func() reflect.Value) (reflect.Value, bool) {
	if f.isZero(a) {
		return a, true
	}
	three := big.NewInt(3)
	qm1 := new(big.Int).Sub(q, big.NewInt(1))
	if new(big.Int).Mod(qm1, three).Sign() != 0 { // q ≡ 2 mod 3: every element is a cube, a^((2q−1)/3)
		k := new(big.Int).Lsh(q, 1)
		k.Sub(k, big.NewInt(1)).Div(k, three)
		return f.exp(a, k), true
	}
	if !f.isOne(f.exp(a, new(big.Int).Div(qm1, three))) {
		return a, false
	}
	// q − 1 = 3^e·m
	m, e := new(big.Int).Set(qm1), 0
	for new(big.Int).Mod(m, three).Sign() == 0 {
		m.Div(m, three)
		e++
	}
	var z reflect.Value // generator of the 3-Sylow subgroup
	for {
		g := rnd()
		if !f.isZero(g) && !f.isOne(f.exp(g, new(big.Int).Div(qm1, three))) {
			z = f.exp(g, m)
			break
		}
	}
	// A = a^m = Z^j with Z = z³ (order 3^(e−1)); digits of j by Pohlig–Hellman
	A := f.exp(a, m)
	Z := f.exp(z, three)
	j := new(big.Int)
	if e >= 2 {
		w := f.exp(Z, new(big.Int).Exp(three, big.NewInt(int64(e-2)), nil)) // order 3
		w2 := f.mul(w, w)
		for i := 0; i <= e-2; i++ {
			// B = (A·Z^(−j))^(3^(e−2−i)) ∈ {1, w, w²}
			B := f.exp(f.mul(A, f.inv(f.exp(Z, j))), new(big.Int).Exp(three, big.NewInt(int64(e-2-i)), nil))
			d := int64(0)
			switch {
			case f.isOne(B):
			case f.eq(B, w):
				d = 1
			case f.eq(B, w2):
				d = 2
			default:
				return a, false
			}
			j.Add(j, new(big.Int).Mul(big.NewInt(d), new(big.Int).Exp(three, big.NewInt(int64(i)), nil)))
		}
	}
	// 3u − l·m = 1:  a = (a^u)³ · (a^m)^(−l) = (a^u · z^(−j·l))³
	u := new(big.Int).ModInverse(three, m)
	if u == nil {
		return a, false
	}
	l := new(big.Int).Mul(three, u)
	l.Sub(l, big.NewInt(1)).Div(l, m)
	y := f.mul(f.exp(a, u), f.inv(f.exp(z, new(big.Int).Mul(j, l))))
	if !f.eq(f.mul(y, f.mul(y, y)), a) {
		return a, false
	}
	return y, true
}

// Cyclotomic-subgroup elements with a zero Karabina coordinate.  In Granger–Scott form x = a + b·z + c·z² over
// F_q[s]/(s²−ξ) with a = x0 + x4·s, b = x3 + x2·s, c = x1 + x5·s (x0…x5 = the six F_q blocks in declaration order), the
// subgroup satisfies  s·b·c = a² − ā,  a·b = s·c² + b̄,  a·c = b² − c̄.
//
//	g3 = x3 = 0, x5 ≠ 0:  x1 = t·x5,  x5 = 2y/(3t²+ξ) with y³ = (t³+3ξt)/ξ,  x2 = (3x1²+ξx5²)/2,  a = c²/x2 − 1
//	g5 = x5 = 0, x3 ≠ 0:  x3 = t·x2,  x2 = 2y/(t²+3ξ) with y³ = 3t²+ξ,       x1 = (x3²+3ξx2²)/2,  a = b²/x1 − 1
//
// Membership (x^Φ_k(p) = 1) is checked with Exp before the element is used.
func (e *c06Env) karabinaSpecial(g5zero bool) (string, bool) {
	top := e.typ(e.info.top)
	f := c06F{top.Field(0).Type.Field(0).Type}
	d := slpSize(f.t)
	q := bigPow(e.p, d)
	rnd := func() reflect.Value {
		xs := make([]*big.Int, d)
		for i := range xs {
			xs[i] = e.g.rng.bigBelow(e.p)
		}
		v := f.new()
		slpFill(v.Elem(), &xs)
		return v
	}
	xi := f.op1("MulByNonResidue", f.one())
	two, three := f.small(2), f.small(3)
	for try := 0; try < 40; try++ {
		t := rnd()
		t2 := f.sq(t)
		var x [6]reflect.Value
		if !g5zero {
			num := f.add(f.mul(t2, t), f.mul(three, f.mul(xi, t))) // t³ + 3ξt
			y, ok := f.cbrt(f.div(num, xi), q, rnd)
			den := f.add(f.mul(three, t2), xi) // 3t² + ξ
			if !ok || f.isZero(den) || f.isZero(y) {
				continue
			}
			x5 := f.div(f.dbl(y), den)
			x1 := f.mul(t, x5)
			n := f.add(f.sq(x1), f.mul(xi, f.sq(x5)))   // Re c²
			x2 := f.div(f.add(f.dbl(f.sq(x1)), n), two) // (3x1² + ξx5²)/2
			if f.isZero(x2) {
				continue
			}
			x[0] = f.sub(f.div(n, x2), f.one())
			x[4] = f.div(f.dbl(f.mul(x1, x5)), x2)
			x[1], x[2], x[3], x[5] = x1, x2, f.new(), x5
		} else {
			y, ok := f.cbrt(f.add(f.mul(three, t2), xi), q, rnd) // 3t² + ξ
			den := f.add(t2, f.mul(three, xi))                   // t² + 3ξ
			if !ok || f.isZero(den) || f.isZero(y) {
				continue
			}
			x2 := f.div(f.dbl(y), den)
			x3 := f.mul(t, x2)
			n := f.add(f.sq(x3), f.mul(xi, f.sq(x2)))              // Re b²
			x1 := f.div(f.add(n, f.dbl(f.mul(xi, f.sq(x2)))), two) // (x3² + 3ξx2²)/2
			if f.isZero(x1) {
				continue
			}
			x[0] = f.sub(f.div(n, x1), f.one())
			x[4] = f.div(f.dbl(f.mul(x2, x3)), x1)
			x[1], x[2], x[3], x[5] = x1, x2, x3, f.new()
		}
		var flat []string
		for i := range x {
			slpFlat(x[i].Elem(), &flat)
		}
		X := strings.Join(flat, ",")
		if e.exp(e.info.top, X, e.phi()) == e.one(e.info.top) && X != e.one(e.info.top) {
			return X, true
		}
	}
	return "", false
}
