package main

// GENERATED from c18_curve.go.tmpl by c18_gen.sh (one copy per pairing curve) — edit the template.
// C18 sessions for curve bw6-633: shared argument objects + the exported entry point applied to them.

import (
	"bytes"
	"crypto/sha256"
	"encoding/hex"
	"math/big"
	"reflect"
	"sync/atomic"

	"github.com/consensys/gnark-crypto/ecc"
	curve "github.com/consensys/gnark-crypto/ecc/bw6-633"
	"github.com/consensys/gnark-crypto/ecc/bw6-633/fp"
	"github.com/consensys/gnark-crypto/ecc/bw6-633/fr"
	"github.com/consensys/gnark-crypto/ecc/bw6-633/fr/fft"
	"github.com/consensys/gnark-crypto/ecc/bw6-633/fr/iop"
	"github.com/consensys/gnark-crypto/ecc/bw6-633/fr/mimc"
	"github.com/consensys/gnark-crypto/ecc/bw6-633/fr/polynomial"
	"github.com/consensys/gnark-crypto/ecc/bw6-633/fr/poseidon2"
	"github.com/consensys/gnark-crypto/ecc/bw6-633/kzg"
	"github.com/consensys/gnark-crypto/ecc/bw6-633/twistededwards"
	ghash "github.com/consensys/gnark-crypto/hash"
)

func init() {
	const name = "bw6-633"
	reg := func(entry string, mk c18Maker) { c18Makers[entry+"/"+name] = mk }
	_, _, g1, g2 := curve.Generators()

	rfr := func(r *rng) (e fr.Element) { e.SetBigInt(r.bigBits(fr.Bits + 64)); return }
	rfrs := func(r *rng, n int) []fr.Element {
		s := make([]fr.Element, n)
		for i := range s {
			s[i] = rfr(r)
		}
		return s
	}
	rG1 := func(r *rng, n int) []curve.G1Affine { return curve.BatchScalarMultiplicationG1(&g1, rfrs(r, n)) }
	rG2 := func(r *rng, n int) []curve.G2Affine { return curve.BatchScalarMultiplicationG2(&g2, rfrs(r, n)) }
	frBytes := func(r *rng) []byte { e := rfr(r); b := e.Bytes(); return b[:] }

	// ---- pairings with precomputed lines -------------------------------------------------------------------------
	mkPair := func(which int) c18Maker {
		return func(r *rng, shape int) *c18Sess {
			n := c18Pick(shape, 1, 2, 4, func() int { return 1 + r.intn(3) }) // 1 pair = the minimal product
			P, Q := rG1(r, n), rG2(r, n)
			if shape == 1 && which != 2 { // a pair with the point at infinity on one side
				P[r.intn(n)] = curve.G1Affine{}
			}
			if which == 2 || (which == 3 && shape > 2 && r.coin()) {
				// e(aG1, bG2) · e(-abG1, G2) = 1
				n = 2
				a, b := rfr(r), rfr(r)
				var ab fr.Element
				ab.Mul(&a, &b).Neg(&ab)
				P = curve.BatchScalarMultiplicationG1(&g1, []fr.Element{a, ab})
				Q = []curve.G2Affine{curve.BatchScalarMultiplicationG2(&g2, []fr.Element{b})[0], g2}
			}
			lines := c18SliceOf(curve.PrecomputeLines(Q[0]), n)
			for i := range Q {
				lines[i] = curve.PrecomputeLines(Q[i])
			}
			s := &c18Sess{args: []c18Arg{{"P", &P}, {"lines", &lines}}}
			switch which {
			case 0:
				s.call = func() string { res, err := curve.PairFixedQ(P, lines); return deepHash(&res) + c18Err(err) }
			case 1:
				s.call = func() string { res, err := curve.MillerLoopFixedQ(P, lines); return deepHash(&res) + c18Err(err) }
			case 2:
				s.call = func() string { ok, err := curve.PairingCheckFixedQ(P, lines); return boolStr(ok) + c18Err(err) }
			default:
				s.args = []c18Arg{{"P", &P}, {"Q", &Q}}
				s.call = func() string {
					res, err := curve.Pair(P, Q)
					ok, err2 := curve.PairingCheck(P, Q)
					return deepHash(&res) + c18Err(err) + boolStr(ok) + c18Err(err2)
				}
			}
			return s
		}
	}
	reg("pairfixedq", mkPair(0))
	reg("millerloopfixedq", mkPair(1))
	reg("pairingcheckfixedq", mkPair(2))
	reg("pair", mkPair(3))

	// ---- KZG with a shared SRS ------------------------------------------------------------------------------------
	mkKzg := func(which int) c18Maker {
		return func(r *rng, shape int) *c18Sess {
			// shapes: 0 = smallest SRS (2), ONE polynomial of degree 1; 1 = ONE constant polynomial; 2 = ONE full-size
			// polynomial; 3 = two polynomials; otherwise 1..4 polynomials of random sizes
			size := c18Pick(shape, 2, 4, 16, func() int { return 8 << r.intn(3) })
			srs, err := kzg.NewSRS(uint64(size), r.bigBits(200))
			if err != nil {
				panic(err)
			}
			nb := 1
			if shape == 3 {
				nb = 2
			} else if shape > 3 {
				nb = 1 + r.intn(4)
			}
			polys := make([][]fr.Element, nb)
			digests := make([]kzg.Digest, nb)
			proofs := make([]kzg.OpeningProof, nb)
			points := rfrs(r, nb)
			for i := range polys {
				polys[i] = rfrs(r, c18Pick(shape, 2, 1, size, func() int { return size - r.intn(3) }))
				digests[i], _ = kzg.Commit(polys[i], srs.Pk)
				proofs[i], _ = kzg.Open(polys[i], points[i], srs.Pk)
			}
			if r.intn(4) == 0 { // an invalid proof: the error path must be repeatable too
				proofs[nb-1].ClaimedValue = rfr(r)
			}
			nbTasks := 1 + r.intn(5)
			s := &c18Sess{}
			switch which {
			case 0:
				s.args = []c18Arg{{"commitment", &digests[nb-1]}, {"proof", &proofs[nb-1]}, {"point", &points[nb-1]}, {"srs", srs}}
				s.call = func() string { return c18Err(kzg.Verify(&digests[nb-1], &proofs[nb-1], points[nb-1], srs.Vk)) }
			case 1:
				s.args = []c18Arg{{"digests", &digests}, {"proofs", &proofs}, {"points", &points}, {"srs", srs}}
				s.call = func() string { return c18Err(kzg.BatchVerifyMultiPoints(digests, proofs, points, srs.Vk)) }
			case 2:
				s.args = []c18Arg{{"p", &polys[0]}, {"point", &points[0]}, {"srs", srs}}
				s.call = func() string { pr, err := kzg.Open(polys[0], points[0], srs.Pk); return deepHash(&pr) + c18Err(err) }
			case 3:
				s.args = []c18Arg{{"p", &polys[0]}, {"srs", srs}}
				s.call = func() string { d, err := kzg.Commit(polys[0], srs.Pk, nbTasks); return deepHash(&d) + c18Err(err) }
			default:
				// the batch entry points (one point): polynomials is a slice of slices, all of it is snapshotted
				data := [][]byte{frBytes(r)}
				if r.coin() {
					data = nil
				}
				s.args = []c18Arg{{"polynomials", &polys}, {"digests", &digests}, {"point", &points[0]}, {"srs", srs}, {"dataTranscript", &data}}
				s.call = func() string {
					pr, err := kzg.BatchOpenSinglePoint(polys, digests, points[0], sha256.New(), srs.Pk, data...)
					err1 := kzg.BatchVerifySinglePoint(digests, &pr, points[0], sha256.New(), srs.Vk, data...)
					fpr, fd, err2 := kzg.FoldProof(digests, &pr, points[0], sha256.New(), data...)
					return deepHash(&pr) + c18Err(err) + c18Err(err1) + deepHash(&fpr) + deepHash(&fd) + c18Err(err2)
				}
			}
			return s
		}
	}
	reg("kzgverify", mkKzg(0))
	reg("kzgbatchverify", mkKzg(1))
	reg("kzgopen", mkKzg(2))
	reg("kzgcommit", mkKzg(3))
	reg("kzgbatchopen", mkKzg(4))

	// ---- multi-exponentiation on shared point / scalar slices -----------------------------------------------------
	reg("multiexp", func(r *rng, shape int) *c18Sess {
		n := c18Pick(shape, 1, 2, 513, func() int {
			if r.intn(3) == 0 {
				return 100 + r.intn(300)
			}
			return 1 + r.intn(40)
		})
		points, scalars := rG1(r, n), rfrs(r, n)
		n2 := n
		if n2 > 24 {
			n2 = 24
		}
		points2 := rG2(r, n2)
		cfg := ecc.MultiExpConfig{NbTasks: []int{0, 1, 2, 3, 5, 16}[r.intn(6)]}
		s := &c18Sess{args: []c18Arg{{"points", &points}, {"scalars", &scalars}, {"pointsG2", &points2}}}
		s.call = func() string {
			var a curve.G1Affine
			_, err := a.MultiExp(points, scalars, cfg)
			var j curve.G1Jac
			_, err1 := j.MultiExp(points, scalars, cfg)
			var ja curve.G1Affine
			ja.FromJacobian(&j)
			var b curve.G2Affine
			_, err2 := b.MultiExp(points2, scalars[:n2], cfg)
			return deepHash(&a) + deepHash(&ja) + deepHash(&b) + c18Err(err) + c18Err(err1) + c18Err(err2)
		}
		return s
	})

	// ---- FFT / FFTInverse on a shared Domain ----------------------------------------------------------------------
	reg("fft", func(r *rng, shape int) *c18Sess {
		// shapes: 0, 1 = domains of size 1 and 2; 2, 3, 4 = ONE large domain (2^10..2^12; precomputed / shifted / without
		// precomputation) for many concurrent callers; otherwise sizes 4..1024, any kind
		n := c18Pick(shape, 1, 2, 1024, func() int { return 4 << r.intn(9) })
		kind := r.intn(3)
		if shape >= 2 && shape <= 4 {
			n = 1024 << (r.intn(5) / 2 * r.intn(2)) // 2^10 mostly, 2^11, 2^12
			kind = []int{0, 2, 1}[shape-2]
		}
		var d *fft.Domain
		switch kind {
		case 0:
			d = fft.NewDomain(uint64(n))
		case 1:
			d = fft.NewDomain(uint64(n), fft.WithoutPrecompute())
		default:
			d = fft.NewDomain(uint64(n), fft.WithShift(rfr(r)))
		}
		a := rfrs(r, n)
		nbTasks := 1 + r.intn(8)
		if shape >= 2 && shape <= 4 && r.coin() {
			nbTasks = 1
		}
		// every transform x decimation x coset combination on the SAME domain; concurrent callers start at different
		// combinations so that different code paths of the shared domain overlap in time
		one := func(j int) string {
			b := c18Clone(a)
			dec := fft.DIF
			if j&1 == 1 {
				dec = fft.DIT
			}
			opts := []fft.Option{fft.WithNbTasks(nbTasks)}
			if j&2 != 0 {
				opts = append(opts, fft.OnCoset())
			}
			if j&4 == 0 {
				d.FFT(b, dec, opts...)
			} else {
				d.FFTInverse(b, dec, opts...)
			}
			return deepHash(&b)
		}
		var turn atomic.Uint64
		run := func(rot int) string {
			var res [8]string
			for j := 0; j < 8; j++ {
				k := (j*5 + rot) % 8
				res[k] = one(k)
			}
			out := ""
			for _, x := range res {
				out += x
			}
			// round trips and the exported tables of the domain
			b := c18Clone(a)
			d.FFT(b, fft.DIF, fft.OnCoset(), fft.WithNbTasks(nbTasks))
			d.FFTInverse(b, fft.DIT, fft.OnCoset(), fft.WithNbTasks(nbTasks))
			ct, err := d.CosetTable()
			cti, err1 := d.CosetTableInv()
			return out + boolStr(deepHash(&b) == deepHash(&a)) + deepHash(&ct) + c18Err(err) + deepHash(&cti) + c18Err(err1)
		}
		s := &c18Sess{args: []c18Arg{{"domain", d}, {"a", &a}}}
		s.call = func() string { return run(0) }
		s.concCall = func() string { return run(int(turn.Add(1) * 3)) }
		return s
	})

	// ---- hashers from the registry --------------------------------------------------------------------------------
	reg("mimc", c18HashMaker(ghash.MIMC_BW6_633, fr.Bytes, frBytes, true))
	reg("poseidon2", c18HashMaker(ghash.POSEIDON2_BW6_633, fr.Bytes, frBytes, false))
	reg("mdhasher", c18MDMaker(func() ghash.Compressor { return poseidon2.NewPermutation(2, 6, 50) }, fr.Bytes, frBytes))

	// ---- batch group operations -----------------------------------------------------------------------------------
	reg("batchscalarmul", func(r *rng, shape int) *c18Sess {
		n := c18Pick(shape, 1, 2, 300, func() int { return 1 + r.intn(120) })
		base, base2 := rG1(r, 1)[0], rG2(r, 1)[0]
		scalars := rfrs(r, n)
		if r.intn(3) == 0 || shape == 1 {
			scalars[r.intn(n)].SetZero()
		}
		n2 := n
		if n2 > 16 {
			n2 = 16
		}
		s := &c18Sess{args: []c18Arg{{"base", &base}, {"baseG2", &base2}, {"scalars", &scalars}}}
		s.call = func() string {
			a := curve.BatchScalarMultiplicationG1(&base, scalars)
			b := curve.BatchScalarMultiplicationG2(&base2, scalars[:n2])
			return deepHash(&a) + deepHash(&b)
		}
		return s
	})
	reg("batchjactoaff", func(r *rng, shape int) *c18Sess {
		n := c18Pick(shape, 1, 2, 1025, func() int { return 1 + r.intn(200) })
		aff := rG1(r, n)
		points := make([]curve.G1Jac, n)
		for i := range points {
			points[i].FromAffine(&aff[i])
			var z, z2, z3 fp.Element
			z.SetBigInt(r.bigBits(fp.Bits + 64))
			if z.IsZero() {
				z.SetOne()
			}
			z2.Square(&z)
			z3.Mul(&z2, &z)
			points[i].X.Mul(&points[i].X, &z2)
			points[i].Y.Mul(&points[i].Y, &z3)
			points[i].Z.Mul(&points[i].Z, &z)
		}
		if r.intn(3) == 0 || shape == 1 {
			points[r.intn(n)].Z.SetZero() // infinity
		}
		s := &c18Sess{args: []c18Arg{{"points", &points}}}
		s.call = func() string { a := curve.BatchJacobianToAffineG1(points); return deepHash(&a) }
		return s
	})

	// ---- iop.Polynomial conversions on clones of a shared polynomial ----------------------------------------------
	reg("iop", func(r *rng, shape int) *c18Sess {
		n := c18Pick(shape, 1, 2, 512, func() int { return 4 << r.intn(6) })
		d := fft.NewDomain(uint64(n))
		coeffs := rfrs(r, n)
		P := iop.NewPolynomial(&coeffs, iop.Form{Basis: iop.Canonical, Layout: iop.Regular})
		x := rfr(r)
		nbTasks := 1 + r.intn(4)
		s := &c18Sess{args: []c18Arg{{"p", P}, {"domain", d}, {"x", &x}}}
		s.call = func() string {
			q := P.Clone()
			q.ToLagrange(d, nbTasks).ToRegular()
			h1 := deepHash(q)
			q.ToCanonical(d, nbTasks).ToRegular()
			h2 := deepHash(q)
			q2 := P.Clone()
			if n > 1 { // (on a domain of size 1 ToLagrangeCoset reads cosetTable[1]: index out of range, reported under C20)
				q2.ToLagrangeCoset(d)
			}
			h3 := deepHash(q2)
			q3 := P.Clone().ToBitReverse()
			v, v3 := P.Evaluate(x), q3.Evaluate(x)
			return h1 + h2 + h3 + deepHash(&v) + deepHash(&v3)
		}
		return s
	})

	// ---- fr.Vector operations with a fresh destination ------------------------------------------------------------
	reg("vector", func(r *rng, shape int) *c18Sess {
		n := c18Pick(shape, 1, 0, 2, func() int { return 1 + r.intn(70) })
		a, b, c := fr.Vector(rfrs(r, n)), fr.Vector(rfrs(r, n)), rfr(r)
		s := &c18Sess{args: []c18Arg{{"a", &a}, {"b", &b}, {"c", &c}}}
		s.call = func() string {
			res := make(fr.Vector, n)
			out := ""
			res.Add(a, b)
			out += deepHash(&res)
			res.Sub(a, b)
			out += deepHash(&res)
			res.Mul(a, b)
			out += deepHash(&res)
			res.ScalarMul(a, &c)
			out += deepHash(&res)
			sum, ip := a.Sum(), a.InnerProduct(b)
			return out + deepHash(&sum) + deepHash(&ip)
		}
		return s
	})

	// ---- Encoder / Decoder ----------------------------------------------------------------------------------------
	reg("codec", func(r *rng, shape int) *c18Sess {
		n := c18Pick(shape, 1, 2, 100, func() int { return 1 + r.intn(40) })
		ps, qs, es := rG1(r, n), rG2(r, c18Pick(shape, 1, 1, 2, func() int { return 1 + r.intn(4) })), rfrs(r, n)
		raw := r.coin()
		encode := func() []byte {
			var buf bytes.Buffer
			var enc *curve.Encoder
			if raw {
				enc = curve.NewEncoder(&buf, curve.RawEncoding())
			} else {
				enc = curve.NewEncoder(&buf)
			}
			for _, v := range []any{ps, qs, es, &ps[0], &qs[0], &es[0]} {
				if err := enc.Encode(v); err != nil {
					panic(err)
				}
			}
			return buf.Bytes()
		}
		data := encode()
		s := &c18Sess{args: []c18Arg{{"g1", &ps}, {"g2", &qs}, {"fr", &es}, {"data", &data}}}
		s.call = func() string {
			b := encode()
			hb := sha256.Sum256(b)
			dec := curve.NewDecoder(bytes.NewReader(data))
			var ps2 []curve.G1Affine
			var qs2 []curve.G2Affine
			var es2 []fr.Element
			var p curve.G1Affine
			var q curve.G2Affine
			var e fr.Element
			out := hex.EncodeToString(hb[:8])
			for _, v := range []any{&ps2, &qs2, &es2, &p, &q, &e} {
				out += c18Err(dec.Decode(v))
			}
			return out + deepHash(&ps2) + deepHash(&qs2) + deepHash(&es2) + deepHash(&p) + deepHash(&q) + deepHash(&e)
		}
		return s
	})

	// ---- lazily initialised twisted Edwards parameters --------------------------------------------------------------
	reg("edwards", func(r *rng, shape int) *c18Sess {
		s := &c18Sess{concFirst: true}
		s.call = func() string {
			p := twistededwards.GetEdwardsCurve()
			res := deepHash(&p)
			// the caller owns the returned copy: scribble on it, later calls must be unaffected
			p.A.SetZero()
			p.D.SetOne()
			p.Cofactor.SetZero()
			p.Base.X.SetOne()
			bits := p.Order.Bits()
			for i := range bits {
				bits[i] = 0
			}
			p.Order.SetBits(bits)
			p.Order.Add(&p.Order, big.NewInt(7))
			return res
		}
		return s
	})

	// ---- polynomial.Pool shared by callers ------------------------------------------------------------------------
	reg("polypool", func(r *rng, shape int) *c18Sess {
		nv := c18Pick(shape, 1, 2, 8, func() int { return 2 + r.intn(5) })
		m := polynomial.MultiLin(rfrs(r, 1<<nv))
		coords := rfrs(r, nv)
		pool := polynomial.NewPool(1<<nv, 1<<(nv+2))
		s := &c18Sess{args: []c18Arg{{"m", &m}, {"coordinates", &coords}}}
		s.call = func() string {
			v := m.Evaluate(coords, &pool)
			// a pooled slice that the user fully overwrites before reading
			sc := pool.Make(1 << nv)
			var sum fr.Element
			for i := range sc {
				sc[i].Add(&m[i], &coords[i%nv])
			}
			for i := range sc {
				sum.Add(&sum, &sc[i])
			}
			for i := range sc {
				sc[i].SetUint64(0xdeadbeef) // what a later Get may see
			}
			pool.Dump(sc)
			cl := pool.Clone(m)
			h := deepHash(&cl)
			pool.Dump(cl)
			return deepHash(&v) + deepHash(&sum) + h
		}
		return s
	})
}

func c18FreshTable_bw6_633() map[string]c18FreshMaker {
	// ---- first use of a lazily initialised global, concurrently, in a fresh process (`C18 fresh …`) ----------------
	// The makers must NOT touch the global they are about (the child process calls them before the barrier), and this
	// function must not call the library at all: it runs during the initialisation of the package-level variables of
	// the harness (c18FreshEarly), before every init() function.
	t := map[string]c18FreshMaker{}
	regFresh := func(global string, mk c18FreshMaker) { t[global+"/bw6-633"] = mk }
	rfr := func(r *rng) (e fr.Element) { e.SetBigInt(r.bigBits(fr.Bits + 64)); return }
	rfrs := func(r *rng, n int) []fr.Element {
		s := make([]fr.Element, n)
		for i := range s {
			s[i] = rfr(r)
		}
		return s
	}
	frBytes := func(r *rng) []byte { e := rfr(r); b := e.Bytes(); return b[:] }
	regFresh("mimc", func(r *rng) []func() string {
		var msg []byte
		for i := 1 + r.intn(3); i > 0; i-- {
			msg = append(msg, frBytes(r)...)
		}
		return []func() string{
			func() string { h := ghash.MIMC_BW6_633.New(); h.Write(msg); return hex.EncodeToString(h.Sum(nil)) },
			func() string { d, err := mimc.Sum(msg); return hex.EncodeToString(d) + c18Err(err) },
			func() string { h := mimc.NewMiMC(); h.Write(msg[:fr.Bytes]); return hex.EncodeToString(h.Sum(nil)) },
			func() string { c := mimc.GetConstants(); return deepHash(&c) },
		}
	})
	regFresh("poseidon2", func(r *rng) []func() string {
		var msg []byte
		for i := 1 + r.intn(3); i > 0; i-- {
			msg = append(msg, frBytes(r)...)
		}
		return []func() string{
			func() string { h := ghash.POSEIDON2_BW6_633.New(); h.Write(msg); return hex.EncodeToString(h.Sum(nil)) },
			func() string { return deepHash(poseidon2.GetDefaultParameters()) },
			func() string {
				h := poseidon2.NewMerkleDamgardHasher()
				h.Write(msg)
				return hex.EncodeToString(h.Sum(nil))
			},
		}
	})
	regFresh("edwards", func(r *rng) []func() string {
		// arbitrary coordinates (a curve point cannot be made without the parameters): the formulas are total
		p1 := twistededwards.PointAffine{X: rfr(r), Y: rfr(r)}
		p2 := twistededwards.PointAffine{X: rfr(r), Y: rfr(r)}
		k := r.bigBits(90)
		yb := frBytes(r)
		return []func() string{
			func() string { p := twistededwards.GetEdwardsCurve(); return deepHash(&p) },
			func() string {
				var q twistededwards.PointAffine
				q.Add(&p1, &p2)
				return deepHash(&q) + boolStr(p1.IsOnCurve())
			},
			func() string {
				var q twistededwards.PointAffine
				q.ScalarMultiplication(&p1, k)
				return deepHash(&q)
			},
			func() string {
				var a, b twistededwards.PointExtended
				a.FromAffine(&p1)
				b.FromAffine(&p2)
				a.Add(&a, &b)
				b.ScalarMultiplication(&b, k)
				return deepHash(&a) + deepHash(&b)
			},
			func() string {
				var a, b twistededwards.PointProj
				a.FromAffine(&p1)
				b.FromAffine(&p2)
				a.Add(&a, &b)
				b.MixedAdd(&b, &p1)
				return deepHash(&a) + deepHash(&b)
			},
			func() string {
				var q twistededwards.PointAffine
				_, err := q.SetBytes(yb)
				return deepHash(&q) + c18Err(err) + boolStr(q.IsOnCurve())
			},
		}
	})
	regFresh("lagrange", func(r *rng) []func() string {
		mk := func(n int) func() string {
			v := rfrs(r, n)
			return func() string {
				p := polynomial.InterpolateOnRange(v)
				h := deepHash(&p)
				for i := range p { // the caller owns the result
					p[i].SetUint64(0xdead)
				}
				return h
			}
		}
		return []func() string{mk(5), mk(5), mk(2), mk(9), mk(1), mk(5)}
	})
	regFresh("bigintpool", func(r *rng) []func() string {
		x := rfr(r)
		var gt curve.GT
		c18FillFp(reflect.ValueOf(&gt).Elem(), reflect.TypeOf(fp.Element{}), func(v reflect.Value) {
			var e fp.Element
			e.SetBigInt(r.bigBits(fp.Bits + 64))
			v.Set(reflect.ValueOf(e))
		})
		k := r.bigBits(70)
		kneg := new(big.Int).Neg(k)
		return []func() string{
			func() string { var z curve.GT; z.Exp(gt, kneg); return deepHash(&z) },
			func() string { e := x; return e.Text(10) + e.String() },
			func() string { var z fr.Element; z.Exp(x, kneg); return deepHash(&z) },
			func() string { var z curve.GT; z.Exp(gt, k); return deepHash(&z) },
		}
	})
	return t
}
