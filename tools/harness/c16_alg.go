package main

import (
	"bytes"
	"fmt"
	"hash"
	"math/big"
	"strings"

	"github.com/consensys/gnark-crypto/accumulator/merkletree"
	"github.com/consensys/gnark-crypto/ecc"
	ghash "github.com/consensys/gnark-crypto/hash"
)

// C16 — the accumulator over the ALGEBRAIC hashers of the hash registry (MiMC of 8 fields, the Poseidon2 Merkle-Damgård hashers of
// 8 + 3 fields). Their Write refuses what is not a sequence of canonical field elements (MiMC also a length that is not a multiple
// of the block size); merkletree.sum panics then: a tree cannot be built over such a leaf (`refused`), a proof containing such
// bytes must be REJECTED.
//   C16 acct <hash> <n> <i> <seed> <kind> <a>   as for sha256 (verdicts), leaves = 1 or 2 blocks of canonical elements, kinds + leafnc sibnc leaflen rootnc
//   C16 accb <hash> <n> <j> <seed> <leaf>       tree of n leaves whose j-th leaf is <leaf>: `refused` | `ok` + verdict of the proof of j
//   C16 accrb <hash> <seg> <stream>             ReaderRoot over the stream: `refused` | `ok`

type c16Alg struct {
	name string
	id   ghash.Hash
	q    *big.Int
	eb   int // bytes per field element
}

var c16Algs = func() []c16Alg {
	var out []c16Alg
	curves := []struct {
		n    string
		q    *big.Int
		m, p ghash.Hash
	}{
		{"bn254", ecc.BN254.ScalarField(), ghash.MIMC_BN254, ghash.POSEIDON2_BN254},
		{"bls12-381", ecc.BLS12_381.ScalarField(), ghash.MIMC_BLS12_381, ghash.POSEIDON2_BLS12_381},
		{"bls12-377", ecc.BLS12_377.ScalarField(), ghash.MIMC_BLS12_377, ghash.POSEIDON2_BLS12_377},
		{"bw6-761", ecc.BW6_761.ScalarField(), ghash.MIMC_BW6_761, ghash.POSEIDON2_BW6_761},
		{"bls24-315", ecc.BLS24_315.ScalarField(), ghash.MIMC_BLS24_315, ghash.POSEIDON2_BLS24_315},
		{"bls24-317", ecc.BLS24_317.ScalarField(), ghash.MIMC_BLS24_317, ghash.POSEIDON2_BLS24_317},
		{"bw6-633", ecc.BW6_633.ScalarField(), ghash.MIMC_BW6_633, ghash.POSEIDON2_BW6_633},
		{"grumpkin", ecc.GRUMPKIN.ScalarField(), ghash.MIMC_GRUMPKIN, ghash.POSEIDON2_GRUMPKIN},
	}
	for _, c := range curves {
		eb := (c.q.BitLen() + 63) / 64 * 8
		out = append(out, c16Alg{"mimc_" + c.n, c.m, c.q, eb}, c16Alg{"p2_" + c.n, c.p, c.q, eb})
	}
	out = append(out, c16Alg{"p2_koalabear", ghash.POSEIDON2_KOALABEAR, big.NewInt(2130706433), 4},
		c16Alg{"p2_babybear", ghash.POSEIDON2_BABYBEAR, big.NewInt(2013265921), 4},
		c16Alg{"p2_goldilocks", ghash.POSEIDON2_GOLDILOCKS, new(big.Int).SetUint64(0xffffffff00000001), 8})
	return out
}()

func c16AlgOf(name string) *c16Alg {
	for k := range c16Algs {
		if c16Algs[k].name == name {
			return &c16Algs[k]
		}
	}
	return nil
}

// hasher + leaf family of a hash name (sha256: the seeded byte leaves; algebraic: 1 or 2 blocks of canonical elements)
func c16HashAny(name string) (hash.Hash, func(seed, j uint64) []byte) {
	if name == "sha256" {
		return c16Hash(name), c16Leaf
	}
	al := c16AlgOf(name)
	if al == nil {
		return nil, nil
	}
	h := al.id.New()
	bs := h.BlockSize()
	return h, func(seed, j uint64) []byte {
		r := newRng(seed*0x9e3779b1 + j + 1)
		return al.blocks(r, int(1+j%2), bs)
	}
}

func (al *c16Alg) blocks(r *rng, k, bs int) []byte {
	var out []byte
	for e := 0; e < k*bs/al.eb; e++ {
		out = append(out, r.bigBelow(al.q).FillBytes(make([]byte, al.eb))...)
	}
	return out
}

func c16Refused(f func()) (refused bool) {
	defer func() {
		if recover() != nil {
			refused = true
		}
	}()
	f()
	return false
}

func execC16Bad(name string, n, j, seed uint64, leaf []byte) string {
	h, lf := c16HashAny(name)
	if h == nil || n == 0 || j >= n || n > 64 {
		return "bad-op"
	}
	t := merkletree.New(h)
	t.SetIndex(j)
	if c16Refused(func() {
		for k := uint64(0); k < n; k++ {
			if k == j {
				t.Push(append([]byte{}, leaf...))
			} else {
				t.Push(lf(seed, k))
			}
		}
	}) {
		return "refused"
	}
	var root []byte
	var ps [][]byte
	var pi, nl uint64
	if c16Refused(func() { root, ps, pi, nl = t.Prove() }) {
		return "refused"
	}
	return "ok " + boolStr(merkletree.VerifyProof(h, root, ps, pi, nl))
}

func execC16BadReader(name string, seg int, stream []byte) string {
	h, _ := c16HashAny(name)
	if h == nil || seg <= 0 {
		return "bad-op"
	}
	res := "ok"
	if c16Refused(func() {
		if _, err := merkletree.ReaderRoot(bytes.NewReader(stream), h, seg); err != nil {
			res = "err:other"
		}
	}) {
		return "refused"
	}
	return res
}

func c16GenAlg(g *gen) {
	for _, al := range c16Algs {
		h := al.id.New()
		bs := h.BlockSize()
		per := bs / al.eb
		// honest proofs and every tampering, verdicts
		for _, n := range []int{1, 2, 3, 4, 5, 7, 8, 11} {
			seed := g.rng.intn(1 << 30)
			for i := 0; i <= n; i++ {
				if n > 5 && i != 0 && i < n-1 && g.rng.intn(3) != 0 {
					continue
				}
				g.emit("C16 acct %s %x %x %x none 0", al.name, n, i, seed)
				if i == n {
					continue
				}
				for _, k := range append(append([]string{}, c16AccKinds...), "leafnc", "sibnc", "leaflen", "rootnc") {
					switch k {
					case "none":
					case "idx":
						for j := 0; j <= n+1; j++ {
							if j != i {
								g.emit("C16 acct %s %x %x %x idx %x", al.name, n, i, seed, j)
							}
						}
					case "sib", "drop", "sibswap", "sibnc":
						for a := 0; a < 4; a++ {
							g.emit("C16 acct %s %x %x %x %s %x", al.name, n, i, seed, k, a)
						}
					case "collapse":
						if i == n-1 {
							for a := 1; a < 4; a++ {
								g.emit("C16 acct %s %x %x %x %s %x", al.name, n, i, seed, k, a)
							}
						}
					case "leaf":
						for _, a := range []int{0, bs - 1, g.rng.intn(bs)} { // (a = 0: the top bits of the first element)
							g.emit("C16 acct %s %x %x %x %s %x", al.name, n, i, seed, k, a)
						}
					default:
						g.emit("C16 acct %s %x %x %x %s 0", al.name, n, i, seed, k)
					}
				}
			}
		}
		// leaves the hasher cannot absorb (and their absorbable neighbours)
		elem := func(v *big.Int) []byte { return v.FillBytes(make([]byte, al.eb)) }
		qm1 := new(big.Int).Sub(al.q, big.NewInt(1))
		qp1 := new(big.Int).Add(al.q, big.NewInt(1))
		top := new(big.Int).Sub(new(big.Int).Lsh(big.NewInt(1), uint(8*al.eb)), big.NewInt(1))
		block := func(v *big.Int, pos int) []byte {
			b := al.blocks(g.rng, 1, bs)
			copy(b[pos*al.eb:], elem(v))
			return b
		}
		var leaves [][]byte
		for _, v := range []*big.Int{qm1, al.q, qp1, top} {
			leaves = append(leaves, block(v, 0), block(v, per-1), append(al.blocks(g.rng, 1, bs), block(v, g.rng.intn(per))...))
		}
		good := al.blocks(g.rng, 2, bs)
		leaves = append(leaves, nil, good[:3], good[:bs-1], good[:bs+1], good[:bs+3], good[:2*bs-1], append(good[:2*bs:2*bs], 7),
			bytes.Repeat([]byte{0xff}, 3), bytes.Repeat([]byte{0xff}, bs), bytes.Repeat([]byte{0xff}, bs+al.eb), g.rng.bytes(bs), g.rng.bytes(32), g.rng.bytes(2*bs))
		for _, n := range []int{1, 2, 3, 5, 8} {
			seed := g.rng.intn(1 << 30)
			for _, lf := range leaves {
				for _, j := range []int{0, n - 1, g.rng.intn(n)} {
					if j == 0 || n > 1 && (j == n-1 || g.rng.intn(3) == 0) {
						g.emit("C16 accb %s %x %x %x %s", al.name, n, j, seed, hexBytes(lf))
					}
				}
			}
		}
		for _, k := range []int{0, 1, 2, 3, 5} {
			st := al.blocks(g.rng, k, bs)
			for _, seg := range []int{bs, 2 * bs, bs + al.eb, bs + 3, bs - 1, 3, 2*bs + 1} {
				g.emit("C16 accrb %s %x %s", al.name, seg, hexBytes(st))
			}
			g.emit("C16 accrb %s %x %s", al.name, bs, hexBytes(append(append([]byte{}, st...), bytes.Repeat([]byte{0xff}, bs)...)))
		}
	}
	g.emit("C16 accb nosuch 1 0 1 00")
	g.emit("C16 accb sha256 3 1 1 00ff")
	g.emit("C16 accrb sha256 3 00ff0102")
	g.emit("C16 accrb mimc_bn254 0 00")
	g.emit("C16 acct nosuch 1 0 1 none 0")
	_ = strings.Join
	_ = fmt.Sprintf
}
