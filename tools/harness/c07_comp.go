package main

// C07 — COMPOSITE objects: serialisations made of several parts, each part read / written by its own Decoder / Encoder
// on the same stream (kzg.SRS = ProvingKey + VerifyingKey, kzg.ProvingKey, kzg.VerifyingKey = 3 points + the line
// coefficients, pedersen.ProvingKey = two slices of equal length, pedersen.VerifyingKey = two points).
//
// streams: `<hex>_Z<seed>.<count>_<hex>…` — a part `Z<seed>.<count>` stands for <count> synthetic canonical line
// coefficients (c07SynthLines = Model/PointCodecOps.lean synthLines): a short spelling of a long block
//
//	C07 cdec <curve> <kind> <chunk> <hex>[><hex>…]   ReadFrom (kinds ending in `u`: UnsafeReadFrom) of every stream, one after
//	                                                the other, into ONE object; the answer describes the last stream:
//	                                                ok n=<returned count> c=<bytes taken from the reader> re=<sha256 of WriteRawTo(object)>
//	                                                | err:<class> n=… c=…
//	C07 cenc <curve> <kind> <raw> <budgets,> <hex>   the object read from <hex> (a valid stream) written with WriteTo /
//	                                                WriteRawTo on a writer with byte budgets (c07Sink) →
//	                                                ok n=<returned count> w=<bytes accepted> <sha256 of them> | err w=… <sha256>
//
// kinds: srs srsu kpk kpku kvk ppk pvk pvku. Specification: a composite is read part by part and the first part that
// fails fails the whole (no later part can turn the error into nil); a write stops at the first failed Write.

import (
	"bytes"
	"crypto/sha256"
	"encoding/binary"
	"encoding/hex"
	"fmt"
	"io"
	"math/big"
	"strings"
)

type c07Obj struct {
	read  func(io.Reader) (int64, error)
	write func(io.Writer, bool) (int64, error)
}

type c07Comp struct {
	newObj    func(kind string) *c07Obj
	srsStream func(size uint64, tau *big.Int, raw bool) []byte
}

var c07Composites = map[string]*c07Comp{}

func c07CompErr(err error) string {
	if err != nil && strings.Contains(err.Error(), "length mismatch") {
		return "err:len"
	}
	return c07Err(err)
}

func c07Cdec(cp *c07Comp, kind, chunk string, streams [][]byte) string {
	switch chunk {
	case "0", "1", "7", "h", "d":
	default:
		return "bad-op"
	}
	o := cp.newObj(kind)
	if o == nil || len(streams) == 0 {
		return "bad-op"
	}
	res := ""
	for _, buf := range streams {
		br := &c07Src{b: buf, mode: chunk}
		n, err := o.read(br)
		if err != nil {
			res = fmt.Sprintf("%s n=%x c=%x", c07CompErr(err), n, br.pos)
			continue
		}
		var out bytes.Buffer
		if _, err := o.write(&out, true); err != nil {
			res = "reencode-failed"
			continue
		}
		res = fmt.Sprintf("ok n=%x c=%x re=%x", n, br.pos, sha256.Sum256(out.Bytes()))
	}
	return res
}

func c07Cenc(cp *c07Comp, kind string, raw bool, buds string, src []byte) string {
	budgets, ok := c07ParseBudgets(buds)
	o := cp.newObj(kind)
	if !ok || o == nil {
		return "bad-op"
	}
	if _, err := o.read(bytes.NewReader(src)); err != nil {
		return "bad-op"
	}
	sink := &c07Sink{budgets: budgets}
	n, err := o.write(sink, raw)
	if err != nil {
		return fmt.Sprintf("err w=%x %x", len(sink.got), sha256.Sum256(sink.got))
	}
	return fmt.Sprintf("ok n=%x w=%x %x", n, len(sink.got), sha256.Sum256(sink.got))
}

// ---------------------------------------------------------------------------------------------- generator

func c07Mix64(x uint64) uint64 {
	z := x + 0x9e3779b97f4a7c15
	z = (z ^ (z >> 30)) * 0xbf58476d1ce4e5b9
	z = (z ^ (z >> 27)) * 0x94d049bb133111eb
	return z ^ (z >> 31)
}

// n synthetic base-field words as binary.Write lays them out (least significant machine word first, every word
// big-endian), top word zero so that the value is below every modulus; be: big-endian numbers (BW6, the line
// coefficients are base-field elements and take the *fp.Element path of the codec): the zero word comes first
func c07SynthLines(be bool, limbs int, seed uint64, n int) []byte {
	b := make([]byte, 0, n*limbs*8)
	for i := 0; i < n; i++ {
		for j := 0; j < limbs; j++ {
			var w uint64
			if (be && j != 0) || (!be && j+1 != limbs) {
				w = c07Mix64(seed + uint64(i*limbs+j))
			}
			b = binary.BigEndian.AppendUint64(b, w)
		}
	}
	return b
}

func c07ParseStream(be bool, limbs int, s string) []byte {
	b := []byte{}
	for _, t := range strings.Split(s, "_") {
		if strings.HasPrefix(t, "Z") {
			f := strings.Split(t[1:], ".")
			if len(f) != 2 {
				return nil
			}
			b = append(b, c07SynthLines(be, limbs, parseBig(f[0]).Uint64(), int(parseBig(f[1]).Int64()))...)
		} else {
			b = append(b, parseBytes(t)...)
		}
	}
	return b
}

// stream text from byte blocks and tokens
func c07St(parts ...any) string {
	var t []string
	for _, p := range parts {
		switch v := p.(type) {
		case []byte:
			if len(v) > 0 {
				t = append(t, hex.EncodeToString(v))
			}
		case string:
			t = append(t, v)
		}
	}
	if len(t) == 0 {
		return "-"
	}
	return strings.Join(t, "_")
}

func (x *c07Gen) emitCdec(kind string, streams ...string) {
	x.g.emit("C07 cdec %s %s %s %s", x.c.name, kind, x.chunk(), strings.Join(streams, ">"))
}

// a frame that G?Affine.SetBytes refuses (or, for "curve" with checks off, accepts), one per coordinate class and frame
// size; deferred = refused in the second (batch) phase of a slice decode, with the stream left at the end of the slice
type c07Bad struct {
	name     string
	b        []byte
	deferred bool
}

func (x *c07Gen) badFrames(g *c07Group) []c07Bad {
	var r []c07Bad
	cf := x.compFlag(x.g.rng.coin())
	for _, cl := range x.coordClasses(g, false) {
		switch cl.name {
		case "curve", "cof":
			if g.name == "G1" && (c07IsOne(x.c) || x.c.name == "bn254") {
				continue // cofactor 1: every curve point is in the subgroup
			}
			q := c07Pt{x: cl.xs, y: cl.ys}
			if x.g.rng.coin() {
				r = append(r, c07Bad{cl.name + "/c", g.enc(q), true})
			} else {
				r = append(r, c07Bad{cl.name + "/r", g.encRaw(q), true})
			}
		case "nosqrt":
			r = append(r, c07Bad{"nosqrt/c", x.frame(g, cf, cl.xs, nil), true})
		case "offcurve":
			r = append(r, c07Bad{"offcurve/r", x.frame(g, 0, cl.xs, cl.ys), true})
		case "xbig":
			r = append(r, c07Bad{"xbig/c", x.frame(g, cf, cl.xs, nil), false})
		case "ybig":
			r = append(r, c07Bad{"ybig/r", x.frame(g, 0, cl.xs, cl.ys), false})
		}
	}
	// infinity flag with a payload, both frame sizes
	bi := g.enc(c07Pt{inf: true})
	bi[len(bi)-1] = 1
	ri := g.encRaw(c07Pt{inf: true})
	ri[len(ri)-1] = 1
	return append(r, c07Bad{"inf/c", bi, false}, c07Bad{"inf/r", ri, false})
}

// the frames of a stream of points written by the library in one mode
func c07Frames(b []byte, n, size int) [][]byte {
	r := make([][]byte, n)
	for i := range r {
		r[i] = b[i*size : (i+1)*size]
	}
	return r
}

func c07Cat(parts ...[]byte) []byte {
	var b []byte
	for _, p := range parts {
		b = append(b, p...)
	}
	return b
}

func (x *c07Gen) compositeOps() {
	c := x.c
	cp := c07Composites[c.name]
	if cp == nil || c.g2 == nil {
		return
	}
	rg := x.g.rng
	g1, g2 := c.g1, c.g2
	s1, s2 := g1.sizeC, g2.sizeC
	fb := c.fp.bytes
	n := 3
	tau := new(big.Int).Add(x.randScalar(), big.NewInt(2))
	srsC, srsR := cp.srsStream(uint64(n), tau, false), cp.srsStream(uint64(n), tau, true)
	pkC, pkR := c07Frames(srsC[4:], n, s1), c07Frames(srsR[4:], n, 2*s1)
	vkC, vkR := srsC[4+n*s1:], srsR[4+2*n*s1:]
	nl := (len(vkC) - 2*s2 - s1) / fb // line coefficients (base-field words)
	// the three points of the verifying key as the library wrote them, one mode per call
	vkPts := func() [][]byte {
		if rg.coin() {
			return [][]byte{vkR[:2*s2], vkR[2*s2 : 4*s2], vkR[4*s2 : 4*s2+2*s1]}
		}
		return [][]byte{vkC[:s2], vkC[s2 : 2*s2], vkC[2*s2 : 2*s2+s1]}
	}
	lines := func(k int) string { return fmt.Sprintf("Z%x.%x", rg.u64()>>1, k) }
	// an intact verifying key (synthetic line coefficients)
	vkAny := func() string { return c07St(c07Cat(vkPts()...), lines(nl)) }
	pick := func(i int) []byte {
		if rg.coin() {
			return pkR[i]
		}
		return pkC[i]
	}
	// proving key with the frame `bad` at position pos (other frames: the library's, either mode); pos < 0: intact
	pkWith := func(pos int, bad []byte) []byte {
		b := []byte{0, 0, 0, byte(n)}
		for i := 0; i < n; i++ {
			if i == pos {
				b = append(b, bad...)
			} else {
				b = append(b, pick(i)...)
			}
		}
		return b
	}
	// 1. valid streams (the library's bytes, honest line coefficients), trailing bytes, every kind
	x.emitCdec("srs", c07St(srsC))
	x.emitCdec("srs", c07St(srsR, rg.bytes(3)))
	x.emitCdec("kvk", c07St(vkC))
	x.emitCdec("srsu", c07St(pkWith(-1, nil), vkAny()))
	x.emitCdec("kpk", c07St(srsC[:4+n*s1]))
	x.emitCdec("kpku", c07St(srsR[:4+2*n*s1]))
	x.emitCdec("kvk", vkAny())
	// 2. a fault in EVERY component position. proving key: deferred classes at every position, the others at one
	bad1, bad2 := x.badFrames(g1), x.badFrames(g2)
	for k, bd := range bad1 {
		for pos := 0; pos < n; pos++ {
			if !bd.deferred && pos != k%n {
				continue
			}
			x.emitCdec("srs", c07St(pkWith(pos, bd.b), vkAny()))
			if pos == k%n {
				x.emitCdec("kpk", c07St(pkWith(pos, bd.b)))
				if bd.name != "offcurve/r" && bd.name != "inf/r" { // known finding: checks off, raw frames are not tested against the curve equation
					x.emitCdec("srsu", c07St(pkWith(pos, bd.b), vkAny()))
					x.emitCdec("kpku", c07St(pkWith(pos, bd.b)))
				}
			}
		}
	}
	// verifying key: each point component, classes in rotation
	for comp := 0; comp < 3; comp++ {
		bads := bad2
		if comp == 2 {
			bads = bad1
		}
		for j, bd := range bads {
			parts := vkPts()
			parts[comp] = bd.b
			vk := c07St(c07Cat(parts...), lines(nl))
			switch (j + comp) % 3 {
			case 0:
				x.emitCdec("kvk", vk)
			case 1:
				x.emitCdec("srs", c07St(pkWith(-1, nil))+"_"+vk)
			default:
				x.emitCdec("srsu", c07St(pkWith(-1, nil))+"_"+vk)
			}
		}
	}
	// line coefficients: a base-field word that is not below the modulus (all ones / the modulus itself), at the
	// first / a middle / the last coefficient
	{
		ones := bytes.Repeat([]byte{0xff}, fb)
		mod := make([]byte, 0, fb) // the modulus as machine words, least significant first
		ws := new(big.Int).Set(c.fp.modulus)
		m64 := new(big.Int).Lsh(big.NewInt(1), 64)
		for j := 0; j < fb/8; j++ {
			mod = binary.BigEndian.AppendUint64(mod, new(big.Int).Mod(ws, m64).Uint64())
			ws.Rsh(ws, 64)
		}
		low := 7
		if g2.nc == 1 {
			// BW6: the coefficients are base-field elements, written as canonical big-endian numbers
			c.fp.modulus.FillBytes(mod)
			low = fb - 1
		}
		for k, i := range []int{0, 1 + rg.intn(nl-2), nl - 1} {
			for _, w := range [][]byte{ones, mod} {
				vk := c07St(c07Cat(vkPts()...), lines(i), w, lines(nl-1-i))
				if k%2 == 0 {
					x.emitCdec("kvk", vk)
				} else {
					x.emitCdec("srs", c07St(pkWith(-1, nil))+"_"+vk)
				}
			}
		}
		// the largest canonical word list: modulus - 1
		m1 := append([]byte{}, mod...)
		m1[low]-- // the moduli are odd
		x.emitCdec("kvk", c07St(c07Cat(vkPts()...), lines(2), m1, lines(nl-3)))
	}
	// 3. truncations at the part boundaries and inside every part
	{
		pkLen := 4 + n*s1
		for _, k := range []int{0, 3, 4 + s1/2, pkLen - 1, pkLen, pkLen + 1, pkLen + s2, pkLen + 2*s2 + 1, pkLen + 2*s2 + s1, pkLen + 2*s2 + s1 + 5} {
			x.emitCdec("srs", c07St(srsC[:k]))
		}
		head := srsC[:pkLen+2*s2+s1]
		k := 1 + rg.intn(nl-1)
		x.emitCdec("srs", c07St(head, lines(k)))
		x.emitCdec("srs", c07St(head, lines(k), rg.bytes(1+rg.intn(fb-1))))
		x.emitCdec("srs", c07St(head, lines(nl-1), rg.bytes(fb-1)))
		x.emitCdec("kvk", c07St(c07Cat(vkPts()...), lines(nl-1), rg.bytes(fb-1)))
		x.emitCdec("kvk", c07St(vkC[:s2+rg.intn(s2)]))
	}
	// 4. histories on ONE object: A then B with more / fewer / as many points; a failing stream in between
	{
		tb := new(big.Int).Add(x.randScalar(), big.NewInt(2))
		syn := func(size int) string {
			raw := rg.coin()
			b := cp.srsStream(uint64(size), tb, raw)
			k := 4 + size*s1 + 2*s2 + s1
			if raw {
				k = 4 + 2*(size*s1+2*s2+s1)
			}
			return c07St(b[:k], lines(nl))
		}
		b3 := c07St(pkWith(-1, nil), vkAny())
		x.emitCdec("srs", syn(4), b3)
		x.emitCdec("srs", syn(2), b3)
		x.emitCdec("srs", b3, syn(4))
		x.emitCdec("srs", syn(4), c07St(srsC[:4+n*s1+s2]), syn(2))
		x.emitCdec("srsu", syn(4), b3)
		a4 := cp.srsStream(4, tb, false)
		x.emitCdec("kpk", c07St(a4[:4+4*s1]), c07St(srsC[:4+n*s1]))
	}
	// 5. pedersen keys: two slices of equal length / two G2 points
	enc := func(raw bool, items ...string) []byte { return x.encode(raw, items) }
	sl := func(ps []c07Pt) string { return "g1s:" + c07ShowPts(ps) }
	a, b := x.nonInf(g1, n), x.nonInf(g1, n)
	x.emitCdec("ppk", c07St(enc(false, sl(a), sl(b))))
	x.emitCdec("ppk", c07St(enc(true, sl(a), sl(b))))
	x.emitCdec("ppk", c07St(enc(rg.coin(), sl(a), sl(b[:n-1]))))
	x.emitCdec("ppk", c07St(enc(rg.coin(), sl(a[:n-1]), sl(b))))
	x.emitCdec("ppk", c07St(enc(rg.coin(), sl(nil), sl(nil))))
	x.emitCdec("ppk", c07St(enc(rg.coin(), sl(x.nonInf(g1, n+1)), sl(x.nonInf(g1, n+1)))), c07St(enc(rg.coin(), sl(a), sl(b))))
	x.emitCdec("ppk", c07St(enc(rg.coin(), sl(a[:1]), sl(b[:1]))), c07St(enc(rg.coin(), sl(a), sl(b))))
	full := enc(false, sl(a), sl(b))
	for _, k := range []int{0, 4 + n*s1 - 1, 4 + n*s1, 4 + n*s1 + 3, len(full) - 1} {
		x.emitCdec("ppk", c07St(full[:k]))
	}
	for k, bd := range bad1 {
		for pos := 0; pos < n; pos++ {
			if !bd.deferred && pos != k%n {
				continue
			}
			// the fault in the first slice (the second one intact), and in the second
			x.emitCdec("ppk", c07St(pkWith(pos, bd.b), enc(rg.coin(), sl(b))))
			if pos == k%n {
				x.emitCdec("ppk", c07St(enc(rg.coin(), sl(a)), pkWith(pos, bd.b)))
			}
		}
	}
	p, q := x.nonInf(g2, 1)[0], x.nonInf(g2, 1)[0]
	it := func(p c07Pt) string { return "g2:" + p.String() }
	x.emitCdec("pvk", c07St(enc(false, it(p), it(q))))
	x.emitCdec("pvku", c07St(enc(true, it(p), it(q))))
	x.emitCdec("pvk", c07St(enc(true, it(x.subPoint(g2)))), c07St(enc(false, it(p), it(q))))
	fullV := enc(rg.coin(), it(p), it(q))
	x.emitCdec("pvk", c07St(fullV[:len(fullV)-1]))
	x.emitCdec("pvk", c07St(fullV[:s2-1]))
	for _, bd := range bad2 {
		x.emitCdec("pvk", c07St(bd.b, enc(rg.coin(), it(q))))
		x.emitCdec("pvk", c07St(enc(rg.coin(), it(p)), bd.b))
		if bd.name != "offcurve/r" && bd.name != "inf/r" {
			x.emitCdec("pvku", c07St(bd.b, enc(rg.coin(), it(q))))
		}
	}
	// 6. writers that fail: at every Write of the small objects; at every Write of the points and at a few Writes inside
	// the line coefficients of the big ones; `[k]` fails for ever, `[k,big]` fails once and works again
	x.compositeWrites(cp, "ppk", c07St(full), -1)
	x.compositeWrites(cp, "pvk", c07St(fullV), -1)
	x.compositeWrites(cp, "kpk", c07St(srsC[:4+n*s1]), -1)
	x.compositeWrites(cp, "kvk", vkAny(), 3)
	x.compositeWrites(cp, "srs", c07St(pkWith(-1, nil), vkAny()), 1+n+3)
}

// head = number of leading Write calls that are all exercised (-1: all of them, at their start and inside); later Writes: 2 at random
func (x *c07Gen) compositeWrites(cp *c07Comp, kind string, src string, head int) {
	rg := x.g.rng
	srcB := c07ParseStream(x.c.g2.nc == 1, x.c.fp.bytes/8, src)
	for _, raw := range []bool{false, true} {
		o := cp.newObj(kind)
		if _, err := o.read(bytes.NewReader(srcB)); err != nil {
			panic("c07 generator: composite source does not decode: " + kind + ": " + err.Error())
		}
		sink := &c07Sink{budgets: []int{1 << 40}}
		if _, err := o.write(sink, raw); err != nil {
			panic(err)
		}
		var bounds []int
		tot, headEnd := 0, 0
		for i, cl := range sink.calls {
			if head < 0 {
				bounds = append(bounds, tot, tot+1+rg.intn(cl[0]))
			} else if i < head {
				bounds = append(bounds, tot+rg.intn(cl[0]+1))
				headEnd = tot + cl[0]
			}
			tot += cl[0]
		}
		if head >= 0 && len(sink.calls) > head+3 {
			for j := 0; j < 2; j++ {
				i := head + rg.intn(len(sink.calls)-head)
				off := 0
				for _, cl := range sink.calls[:i] {
					off += cl[0]
				}
				bounds = append(bounds, off+rg.intn(sink.calls[i][0]+1))
			}
		}
		bounds = append(bounds, tot-1, tot)
		emit := func(b string) { x.g.emit("C07 cenc %s %s %s %s %s", x.c.name, kind, boolStr(raw), b, src) }
		emit("-")
		last := -1
		for _, k := range bounds {
			if k == last || k < 0 {
				continue
			}
			last = k
			if head >= 0 && k < tot-1 && k > headEnd && rg.coin() {
				continue // big objects: every Write of the points, half of the others
			}
			if k >= tot || (rg.coin() && head < 0) {
				emit(fmt.Sprintf("%x", k))
			}
			if k < tot {
				emit(fmt.Sprintf("%x,%x", k, 1<<30))
			}
		}
	}
}
