package main

// C04 — per-curve registration (types differ per package; the logic is the generic code of c04.go)

import (
	"math/big"

	bn254 "github.com/consensys/gnark-crypto/ecc/bn254"
	bn254fp "github.com/consensys/gnark-crypto/ecc/bn254/fp"
	bn254fr "github.com/consensys/gnark-crypto/ecc/bn254/fr"
	bls12377 "github.com/consensys/gnark-crypto/ecc/bls12-377"
	bls12377fp "github.com/consensys/gnark-crypto/ecc/bls12-377/fp"
	bls12377fr "github.com/consensys/gnark-crypto/ecc/bls12-377/fr"
	bls12381 "github.com/consensys/gnark-crypto/ecc/bls12-381"
	bls12381fp "github.com/consensys/gnark-crypto/ecc/bls12-381/fp"
	bls12381fr "github.com/consensys/gnark-crypto/ecc/bls12-381/fr"
	bls24315 "github.com/consensys/gnark-crypto/ecc/bls24-315"
	bls24315fp "github.com/consensys/gnark-crypto/ecc/bls24-315/fp"
	bls24315fr "github.com/consensys/gnark-crypto/ecc/bls24-315/fr"
	bls24317 "github.com/consensys/gnark-crypto/ecc/bls24-317"
	bls24317fp "github.com/consensys/gnark-crypto/ecc/bls24-317/fp"
	bls24317fr "github.com/consensys/gnark-crypto/ecc/bls24-317/fr"
	bw6633 "github.com/consensys/gnark-crypto/ecc/bw6-633"
	bw6633fp "github.com/consensys/gnark-crypto/ecc/bw6-633/fp"
	bw6633fr "github.com/consensys/gnark-crypto/ecc/bw6-633/fr"
	bw6761 "github.com/consensys/gnark-crypto/ecc/bw6-761"
	bw6761fp "github.com/consensys/gnark-crypto/ecc/bw6-761/fp"
	bw6761fr "github.com/consensys/gnark-crypto/ecc/bw6-761/fr"
	grumpkin "github.com/consensys/gnark-crypto/ecc/grumpkin"
	grumpkinfp "github.com/consensys/gnark-crypto/ecc/grumpkin/fp"
	grumpkinfr "github.com/consensys/gnark-crypto/ecc/grumpkin/fr"
	secp256k1 "github.com/consensys/gnark-crypto/ecc/secp256k1"
	secp256k1fp "github.com/consensys/gnark-crypto/ecc/secp256k1/fp"
	secp256k1fr "github.com/consensys/gnark-crypto/ecc/secp256k1/fr"
)

type c04big interface{ BigInt(*big.Int) *big.Int }

func c04h(e c04big) string { return hexBig(e.BigInt(new(big.Int))) }

func c04Range(a, b int) []int {
	var r []int
	for i := a; i <= b; i++ {
		r = append(r, i)
	}
	return r
}

type c04Ext[T any] interface {
	*T
	Square(*T) *T
	Mul(*T, *T) *T
	Sub(*T, *T) *T
}

// b = y² − x³ (all curves with a multiexp have a = 0)
func c04B[T any, PT c04Ext[T]](x, y T) T {
	var t, b T
	PT(&t).Square(&x)
	PT(&t).Mul(&t, &x)
	PT(&b).Square(&y)
	PT(&b).Sub(&b, &t)
	return b
}

func init() {
	{
		_, _, g1, g2 := bn254.Generators()
		p, r := bn254fp.Modulus(), bn254fr.Modulus()
		b1 := c04B(g1.X, g1.Y)
		c04Register[bn254.G1Affine, bn254.G1Jac, bn254fr.Element]("bn254", "g1", "1", p, r, c04Range(4,16), g1, c04h(&b1),
			bn254.BatchScalarMultiplicationG1, func(q *bn254.G1Affine) string { return c04h(&q.X) + ";" + c04h(&q.Y) })
		b2 := c04B(g2.X, g2.Y)
		u := g2.X
		u.A0.SetZero()
		u.A1.SetOne()
		u.Square(&u)
		c04Register[bn254.G2Affine, bn254.G2Jac, bn254fr.Element]("bn254", "g2", "2:"+c04h(&u.A0), p, r, c04Range(4,16), g2, c04h(&b2.A0)+","+c04h(&b2.A1),
			bn254.BatchScalarMultiplicationG2, func(q *bn254.G2Affine) string {
				return c04h(&q.X.A0) + "," + c04h(&q.X.A1) + ";" + c04h(&q.Y.A0) + "," + c04h(&q.Y.A1)
			})
	}
	{
		_, _, g1, g2 := bls12377.Generators()
		p, r := bls12377fp.Modulus(), bls12377fr.Modulus()
		b1 := c04B(g1.X, g1.Y)
		c04Register[bls12377.G1Affine, bls12377.G1Jac, bls12377fr.Element]("bls12-377", "g1", "1", p, r, c04Range(4,16), g1, c04h(&b1),
			bls12377.BatchScalarMultiplicationG1, func(q *bls12377.G1Affine) string { return c04h(&q.X) + ";" + c04h(&q.Y) })
		b2 := c04B(g2.X, g2.Y)
		u := g2.X
		u.A0.SetZero()
		u.A1.SetOne()
		u.Square(&u)
		c04Register[bls12377.G2Affine, bls12377.G2Jac, bls12377fr.Element]("bls12-377", "g2", "2:"+c04h(&u.A0), p, r, c04Range(4,16), g2, c04h(&b2.A0)+","+c04h(&b2.A1),
			bls12377.BatchScalarMultiplicationG2, func(q *bls12377.G2Affine) string {
				return c04h(&q.X.A0) + "," + c04h(&q.X.A1) + ";" + c04h(&q.Y.A0) + "," + c04h(&q.Y.A1)
			})
	}
	{
		_, _, g1, g2 := bls12381.Generators()
		p, r := bls12381fp.Modulus(), bls12381fr.Modulus()
		b1 := c04B(g1.X, g1.Y)
		c04Register[bls12381.G1Affine, bls12381.G1Jac, bls12381fr.Element]("bls12-381", "g1", "1", p, r, c04Range(4,16), g1, c04h(&b1),
			bls12381.BatchScalarMultiplicationG1, func(q *bls12381.G1Affine) string { return c04h(&q.X) + ";" + c04h(&q.Y) })
		b2 := c04B(g2.X, g2.Y)
		u := g2.X
		u.A0.SetZero()
		u.A1.SetOne()
		u.Square(&u)
		c04Register[bls12381.G2Affine, bls12381.G2Jac, bls12381fr.Element]("bls12-381", "g2", "2:"+c04h(&u.A0), p, r, c04Range(4,16), g2, c04h(&b2.A0)+","+c04h(&b2.A1),
			bls12381.BatchScalarMultiplicationG2, func(q *bls12381.G2Affine) string {
				return c04h(&q.X.A0) + "," + c04h(&q.X.A1) + ";" + c04h(&q.Y.A0) + "," + c04h(&q.Y.A1)
			})
	}
	{
		_, _, g1, g2 := bls24315.Generators()
		p, r := bls24315fp.Modulus(), bls24315fr.Modulus()
		b1 := c04B(g1.X, g1.Y)
		c04Register[bls24315.G1Affine, bls24315.G1Jac, bls24315fr.Element]("bls24-315", "g1", "1", p, r, c04Range(4,16), g1, c04h(&b1),
			bls24315.BatchScalarMultiplicationG1, func(q *bls24315.G1Affine) string { return c04h(&q.X) + ";" + c04h(&q.Y) })
		b2 := c04B(g2.X, g2.Y)
		u := g2.X.B0
		u.A0.SetZero()
		u.A1.SetOne()
		u.Square(&u)
		v := g2.X
		v.B0.SetZero()
		v.B1.SetOne()
		v.Square(&v)
		c04Register[bls24315.G2Affine, bls24315.G2Jac, bls24315fr.Element]("bls24-315", "g2", "4:"+c04h(&u.A0)+":"+c04h(&v.B0.A0)+","+c04h(&v.B0.A1), p, r, c04Range(4,16), g2,
			c04h(&b2.B0.A0)+","+c04h(&b2.B0.A1)+","+c04h(&b2.B1.A0)+","+c04h(&b2.B1.A1),
			bls24315.BatchScalarMultiplicationG2, func(q *bls24315.G2Affine) string {
				return c04h(&q.X.B0.A0) + "," + c04h(&q.X.B0.A1) + "," + c04h(&q.X.B1.A0) + "," + c04h(&q.X.B1.A1) + ";" +
					c04h(&q.Y.B0.A0) + "," + c04h(&q.Y.B0.A1) + "," + c04h(&q.Y.B1.A0) + "," + c04h(&q.Y.B1.A1)
			})
	}
	{
		_, _, g1, g2 := bls24317.Generators()
		p, r := bls24317fp.Modulus(), bls24317fr.Modulus()
		b1 := c04B(g1.X, g1.Y)
		c04Register[bls24317.G1Affine, bls24317.G1Jac, bls24317fr.Element]("bls24-317", "g1", "1", p, r, c04Range(4,16), g1, c04h(&b1),
			bls24317.BatchScalarMultiplicationG1, func(q *bls24317.G1Affine) string { return c04h(&q.X) + ";" + c04h(&q.Y) })
		b2 := c04B(g2.X, g2.Y)
		u := g2.X.B0
		u.A0.SetZero()
		u.A1.SetOne()
		u.Square(&u)
		v := g2.X
		v.B0.SetZero()
		v.B1.SetOne()
		v.Square(&v)
		c04Register[bls24317.G2Affine, bls24317.G2Jac, bls24317fr.Element]("bls24-317", "g2", "4:"+c04h(&u.A0)+":"+c04h(&v.B0.A0)+","+c04h(&v.B0.A1), p, r, c04Range(4,16), g2,
			c04h(&b2.B0.A0)+","+c04h(&b2.B0.A1)+","+c04h(&b2.B1.A0)+","+c04h(&b2.B1.A1),
			bls24317.BatchScalarMultiplicationG2, func(q *bls24317.G2Affine) string {
				return c04h(&q.X.B0.A0) + "," + c04h(&q.X.B0.A1) + "," + c04h(&q.X.B1.A0) + "," + c04h(&q.X.B1.A1) + ";" +
					c04h(&q.Y.B0.A0) + "," + c04h(&q.Y.B0.A1) + "," + c04h(&q.Y.B1.A0) + "," + c04h(&q.Y.B1.A1)
			})
	}
	{
		_, _, g1, g2 := bw6633.Generators()
		p, r := bw6633fp.Modulus(), bw6633fr.Modulus()
		b1 := c04B(g1.X, g1.Y)
		c04Register[bw6633.G1Affine, bw6633.G1Jac, bw6633fr.Element]("bw6-633", "g1", "1", p, r, []int{4, 5, 6, 8, 12, 16}, g1, c04h(&b1),
			bw6633.BatchScalarMultiplicationG1, func(q *bw6633.G1Affine) string { return c04h(&q.X) + ";" + c04h(&q.Y) })
		b2 := c04B(g2.X, g2.Y)
		c04Register[bw6633.G2Affine, bw6633.G2Jac, bw6633fr.Element]("bw6-633", "g2", "1", p, r, []int{4, 5, 6, 8, 12, 16}, g2, c04h(&b2),
			bw6633.BatchScalarMultiplicationG2, func(q *bw6633.G2Affine) string { return c04h(&q.X) + ";" + c04h(&q.Y) })
	}
	{
		_, _, g1, g2 := bw6761.Generators()
		p, r := bw6761fp.Modulus(), bw6761fr.Modulus()
		b1 := c04B(g1.X, g1.Y)
		c04Register[bw6761.G1Affine, bw6761.G1Jac, bw6761fr.Element]("bw6-761", "g1", "1", p, r, []int{4, 5, 8, 10, 16}, g1, c04h(&b1),
			bw6761.BatchScalarMultiplicationG1, func(q *bw6761.G1Affine) string { return c04h(&q.X) + ";" + c04h(&q.Y) })
		b2 := c04B(g2.X, g2.Y)
		c04Register[bw6761.G2Affine, bw6761.G2Jac, bw6761fr.Element]("bw6-761", "g2", "1", p, r, []int{4, 5, 8, 10, 16}, g2, c04h(&b2),
			bw6761.BatchScalarMultiplicationG2, func(q *bw6761.G2Affine) string { return c04h(&q.X) + ";" + c04h(&q.Y) })
	}
	{
		_, g1 := grumpkin.Generators()
		p, r := grumpkinfp.Modulus(), grumpkinfr.Modulus()
		b1 := c04B(g1.X, g1.Y)
		c04Register[grumpkin.G1Affine, grumpkin.G1Jac, grumpkinfr.Element]("grumpkin", "g1", "1", p, r, c04Range(4,16), g1, c04h(&b1),
			grumpkin.BatchScalarMultiplicationG1, func(q *grumpkin.G1Affine) string { return c04h(&q.X) + ";" + c04h(&q.Y) })
	}
	{
		_, g1 := secp256k1.Generators()
		p, r := secp256k1fp.Modulus(), secp256k1fr.Modulus()
		b1 := c04B(g1.X, g1.Y)
		c04Register[secp256k1.G1Affine, secp256k1.G1Jac, secp256k1fr.Element]("secp256k1", "g1", "1", p, r, c04Range(4,15), g1, c04h(&b1),
			secp256k1.BatchScalarMultiplicationG1, func(q *secp256k1.G1Affine) string { return c04h(&q.X) + ";" + c04h(&q.Y) })
	}
}
