package main

// C11 — KZG (ecc/<curve>/kzg on the 7 pairing curves) against the known-trapdoor exponent model.
// Group elements never travel: every commitment / quotient is given (or checked) as a scalar s, the point is [s]G₁.
//
//   C11 srs    <curve> <size> <tau>                         → 1 | err:srssize        (Pk.G1[i]=[τⁱ]G₁, Vk, Lines checked here)
//   C11 open   <curve> <size> <tau> <coeffs> <z>            → <c> <v> <h> <verdict>  (c,h: scalars of Commit(p), Open(p,z).H)
//   C11 verify <curve> <tau> <c> <h> <v> <z>                → 1 | 0 | err:…
//   C11 reuse  <curve> <tau> <c,h,v,z> …                    → verdicts with ONE vk, then 1 (second pass equal, vk bytes unchanged)
//   C11 batch1 <curve> <tau> <gamma> <z> <h> <cs> <vs>      → <gamma> <folded v> <folded c> <verdict>
//   C11 bopen  <curve> <size> <tau> <gamma> <z> <p0;p1;…> [<nbDigests>] → <gamma> <values> <h> <verdict>
//   C11 multi  <curve> <tau> <lambdas> <cs> <h:v,…> <zs>    → 1 | 0 | err:…   (λ used by the model only; Go draws its own)
//   C11 ser    <curve> <size> <tau> <kind> [<h> <vs>]       → 1 | 0:<reason>
//   C11 stream / reread / rereadp / mpcchain / seal / bopen0 : c11_stream.go
//
// tau is hex, or m1:<hex of fr.Generator(4)> for NewSRS(size, −1). Lists are comma separated hex, "-" = empty.

import (
	"bytes"
	"io"
	"math/big"
	"strings"
)

type kzgCurve interface {
	modulus() *big.Int
	gen4() *big.Int
	newSRS(size uint64, tau *big.Int) (any, error)
	srsOK(srs any, tau *big.Int) bool
	g1(s *big.Int) any
	g1eq(a, b any) bool
	commit(p []*big.Int, srs any) (any, error)
	open(p []*big.Int, z *big.Int, srs any) (any, *big.Int, error)
	verify(c, h any, v, z *big.Int, srs any) error
	gamma(z *big.Int, ds []any, vs []*big.Int) *big.Int
	batchOpen(ps [][]*big.Int, ds []any, z *big.Int, srs any) (any, []*big.Int, error)
	foldProof(ds []any, h any, vs []*big.Int, z *big.Int) (any, *big.Int, any, error)
	batchVerify1(ds []any, h any, vs []*big.Int, z *big.Int, srs any) error
	batchVerifyN(ds, hs []any, vs, zs []*big.Int, srs any) error
	vkBytes(srs any) []byte
	ser(kind string, srs any, h any, vs []*big.Int) string
	// objects on shared readers / re-used destinations (c11_stream.go)
	codec(kind string, srs any, h any, vs []*big.Int, dst any) (c11codec, any)
	asSRS(dst any, written any) (any, int)
	proofOf(dst any) (any, []*big.Int)
	mpcChain(mode string, n, rounds, drop, trailer int, mk func([]byte) (io.Reader, func() int)) string
	seal(n, rounds int, after string) string
}

var kzgCurves = map[string]kzgCurve{}
var kzgCurveNames = []string{"bn254", "bls12_377", "bls12_381", "bls24_315", "bls24_317", "bw6_633", "bw6_761"}

func init() {
	executors["C11"] = execC11
	generators["C11"] = genC11
}

func kzgErr(err error) string {
	s := err.Error()
	switch {
	case strings.Contains(s, "invalid polynomial size"):
		return "err:polysize"
	case strings.Contains(s, "minimum srs size"):
		return "err:srssize"
	case strings.Contains(s, "number of digests is not the same"):
		return "err:nbdigests"
	case strings.Contains(s, "number of digests is zero"):
		return "err:zerodigests"
	case strings.Contains(s, "can't verify"):
		return "0"
	}
	return "err:other"
}
func kzgVerdict(err error) string {
	if err == nil {
		return "1"
	}
	return kzgErr(err)
}

func bigList(s string) []*big.Int {
	if s == "-" {
		return nil
	}
	var out []*big.Int
	for _, t := range strings.Split(s, ",") {
		out = append(out, parseBig(t))
	}
	return out
}
func showBigList(xs []*big.Int) string {
	if len(xs) == 0 {
		return "-"
	}
	ss := make([]string, len(xs))
	for i := range xs {
		ss[i] = hexBig(xs[i])
	}
	return strings.Join(ss, ",")
}

// reference arithmetic of the harness (math/big only)
type zr struct{ r *big.Int }

func (f zr) norm(a *big.Int) *big.Int { return new(big.Int).Mod(a, f.r) }
func (f zr) add(a, b *big.Int) *big.Int { return f.norm(new(big.Int).Add(a, b)) }
func (f zr) sub(a, b *big.Int) *big.Int { return f.norm(new(big.Int).Sub(a, b)) }
func (f zr) mul(a, b *big.Int) *big.Int { return f.norm(new(big.Int).Mul(a, b)) }
func (f zr) inv(a *big.Int) *big.Int { return new(big.Int).ModInverse(f.norm(a), f.r) }
func (f zr) eval(p []*big.Int, x *big.Int) *big.Int {
	res := new(big.Int)
	for i := len(p) - 1; i >= 0; i-- {
		res = f.add(f.mul(res, x), p[i])
	}
	return res
}

// scalar of the quotient commitment: (p(τ) − p(z))/(τ − z), or p'(τ) when z = τ
func (f zr) quotAt(p []*big.Int, z, tau *big.Int) *big.Int {
	if f.norm(z).Cmp(f.norm(tau)) != 0 {
		return f.mul(f.sub(f.eval(p, tau), f.eval(p, z)), f.inv(f.sub(tau, z)))
	}
	res := new(big.Int)
	for i := len(p) - 1; i >= 1; i-- {
		res = f.add(f.mul(res, tau), f.mul(p[i], big.NewInt(int64(i))))
	}
	return res
}

// "scalar s if point == [s]G₁, else mismatch"
func inExponent(c kzgCurve, pt any, s *big.Int) string {
	if c.g1eq(pt, c.g1(s)) {
		return hexBig(s)
	}
	return "mismatch"
}

type srsKey struct {
	curve string
	size  uint64
	tau   string
}

var srsCache = map[srsKey]any{}

// returns srs, effective τ, "" | error string
func getSRS(name string, c kzgCurve, size uint64, tauTok string) (any, *big.Int, string) {
	var arg, eff *big.Int
	if strings.HasPrefix(tauTok, "m1:") {
		arg, eff = big.NewInt(-1), parseBig(tauTok[3:])
		if g := c.gen4(); g == nil || g.Cmp(eff) != 0 {
			return nil, nil, "bad-op"
		}
	} else {
		arg = parseBig(tauTok)
		eff = new(big.Int).Mod(arg, c.modulus())
	}
	k := srsKey{name, size, tauTok}
	if s, ok := srsCache[k]; ok {
		return s, eff, ""
	}
	s, err := c.newSRS(size, arg)
	if err != nil {
		return nil, nil, kzgErr(err)
	}
	if len(srsCache) > 64 {
		srsCache = map[srsKey]any{}
	}
	srsCache[k] = s
	return s, eff, ""
}

func execC11(a []string) string {
	if len(a) < 2 {
		return "bad-op"
	}
	op, name := a[0], a[1]
	c, ok := kzgCurves[name]
	if !ok {
		return "bad-op"
	}
	a = a[2:]
	f := zr{c.modulus()}
	pts := func(ss []*big.Int) []any {
		out := make([]any, len(ss))
		for i := range ss {
			out[i] = c.g1(ss[i])
		}
		return out
	}
	size := func(s string) uint64 { return parseBig(s).Uint64() }
	switch {
	case op == "srs" && len(a) == 2:
		srs, tau, e := getSRS(name, c, size(a[0]), a[1])
		if e != "" {
			return e
		}
		return boolStr(c.srsOK(srs, tau))
	case op == "open" && len(a) == 4:
		srs, tau, e := getSRS(name, c, size(a[0]), a[1])
		if e != "" {
			return e
		}
		p, z := bigList(a[2]), parseBig(a[3])
		cm, err := c.commit(p, srs)
		if err != nil {
			return kzgErr(err)
		}
		out := inExponent(c, cm, f.eval(p, tau))
		h, v, err := c.open(p, z, srs)
		if err != nil {
			return out + " " + kzgErr(err)
		}
		return out + " " + hexBig(v) + " " + inExponent(c, h, f.quotAt(p, z, tau)) + " " + kzgVerdict(c.verify(cm, h, v, z, srs))
	case op == "verify" && len(a) == 5:
		srs, _, e := getSRS(name, c, 2, a[0])
		if e != "" {
			return e
		}
		return kzgVerdict(c.verify(c.g1(parseBig(a[1])), c.g1(parseBig(a[2])), parseBig(a[3]), parseBig(a[4]), srs))
	case op == "reuse" && len(a) >= 1:
		srs, _, e := getSRS(name, c, 2, a[0])
		if e != "" {
			return e
		}
		before := c.vkBytes(srs)
		var first, second []string
		for pass := 0; pass < 2; pass++ {
			for _, t := range a[1:] {
				l := bigList(t)
				for len(l) < 4 {
					l = append(l, new(big.Int))
				}
				v := kzgVerdict(c.verify(c.g1(l[0]), c.g1(l[1]), l[2], l[3], srs))
				if pass == 0 {
					first = append(first, v)
				} else {
					second = append(second, v)
				}
			}
		}
		stable := join(first) == join(second) && bytes.Equal(before, c.vkBytes(srs))
		return join(append(first, boolStr(stable)))
	case op == "batch1" && len(a) == 6:
		srs, _, e := getSRS(name, c, 2, a[0])
		if e != "" {
			return e
		}
		z, h := parseBig(a[2]), c.g1(parseBig(a[3]))
		cs, vs := bigList(a[4]), bigList(a[5])
		ds := pts(cs)
		fh, fv, fd, err := c.foldProof(ds, h, vs, z)
		if err != nil {
			return kzgErr(err)
		}
		g := c.gamma(z, ds, vs)
		fc, gi := new(big.Int), big.NewInt(1)
		for i := range cs {
			fc = f.add(fc, f.mul(gi, cs[i]))
			gi = f.mul(gi, g)
		}
		fds := inExponent(c, fd, fc)
		if !c.g1eq(fh, h) {
			fds = "mismatch-h"
		}
		return hexBig(g) + " " + hexBig(fv) + " " + fds + " " + kzgVerdict(c.batchVerify1(ds, h, vs, z, srs))
	case op == "bopen" && (len(a) == 5 || len(a) == 6):
		srs, tau, e := getSRS(name, c, size(a[0]), a[1])
		if e != "" {
			return e
		}
		z := parseBig(a[3])
		// a lone "-" is ONE empty polynomial; an empty batch is not expressible on purpose:
		// BatchOpenSinglePoint with no polynomial panics inside a goroutine (kzg.go:291), which kills the process
		var polys [][]*big.Int
		for _, t := range strings.Split(a[4], ";") {
			polys = append(polys, bigList(t))
		}
		ds := make([]any, len(polys))
		for i := range polys {
			d, err := c.commit(polys[i], srs)
			if err != nil {
				return kzgErr(err)
			}
			ds[i] = d
		}
		vals := make([]*big.Int, len(polys))
		for i := range polys {
			vals[i] = f.eval(polys[i], z)
		}
		if len(a) == 6 && int(size(a[5])) != len(polys) { // wrong number of digests handed in
			nd := int(size(a[5]))
			for len(ds) < nd {
				ds = append(ds, c.g1(big.NewInt(1)))
			}
			_, _, err := c.batchOpen(polys, ds[:nd], z, srs)
			if err == nil {
				return "accepted"
			}
			return hexBig(parseBig(a[2])) + " " + kzgErr(err)
		}
		g := c.gamma(z, ds, vals)
		h, vs, err := c.batchOpen(polys, ds, z, srs)
		if err != nil {
			return hexBig(g) + " " + kzgErr(err)
		}
		// quotient scalar of the folded polynomial Σ γⁱ pᵢ
		q, gi := new(big.Int), big.NewInt(1)
		for i := range polys {
			q = f.add(q, f.mul(gi, f.quotAt(polys[i], z, tau)))
			gi = f.mul(gi, g)
		}
		return hexBig(g) + " " + showBigList(vs) + " " + inExponent(c, h, q) + " " + kzgVerdict(c.batchVerify1(ds, h, vs, z, srs))
	case op == "multi" && len(a) == 5:
		srs, _, e := getSRS(name, c, 2, a[0])
		if e != "" {
			return e
		}
		cs, zs := bigList(a[2]), bigList(a[4])
		var hs, vs []*big.Int
		if a[3] != "-" {
			for _, t := range strings.Split(a[3], ",") {
				hv := strings.Split(t, ":")
				if len(hv) != 2 {
					return "bad-op"
				}
				hs, vs = append(hs, parseBig(hv[0])), append(vs, parseBig(hv[1]))
			}
		}
		return kzgVerdict(c.batchVerifyN(pts(cs), pts(hs), vs, zs, srs))
	case op == "ser" && len(a) >= 3:
		srs, _, e := getSRS(name, c, size(a[0]), a[1])
		if e != "" {
			return e
		}
		var h any
		var vs []*big.Int
		if len(a) >= 5 {
			h, vs = c.g1(parseBig(a[3])), bigList(a[4])
		}
		if r := c.ser(a[2], srs, h, vs); r != "" {
			return "0:" + r
		}
		return "1"
	}
	return execC11Stream(op, name, c, a)
}

// ---------------------------------------------------------------------------------------------------------------

func genC11(g *gen) {
	g.emit("C11")
	g.emit("C11 open")
	g.emit("C11 open nocurve 2 5 1 1")
	g.emit("C11 frobnicate bn254 2 5")
	for _, name := range kzgCurveNames {
		genC11Curve(g, name, kzgCurves[name])
	}
}

func genC11Curve(g *gen, name string, c kzgCurve) {
	r := c.modulus()
	f := zr{r}
	rnd := func() *big.Int { return g.rng.bigBelow(r) }
	one := big.NewInt(1)
	rm1 := new(big.Int).Sub(r, one)
	// scalar lattice: boundary values and random ones
	sc := func() *big.Int {
		switch g.rng.intn(10) {
		case 0:
			return new(big.Int)
		case 1:
			return big.NewInt(1)
		case 2:
			return new(big.Int).Set(rm1)
		case 3:
			return big.NewInt(int64(2 + g.rng.intn(5)))
		}
		return rnd()
	}
	m1 := "m1:" + hexBig(c.gen4())
	tauTok := func() (string, *big.Int) { // token, effective τ
		switch g.rng.intn(12) {
		case 0:
			return m1, c.gen4()
		case 1:
			return "1", big.NewInt(1)
		case 2:
			if g.rng.coin() {
				return "0", new(big.Int)
			}
			return hexBig(rm1), rm1
		case 3: // not reduced: τ + r
			t := rnd()
			return hexBig(new(big.Int).Add(t, r)), t
		}
		t := rnd()
		return hexBig(t), t
	}
	N := g.budget(6, 12)

	// --- SRS construction
	for _, size := range []int{0, 1, 2, 3, N} {
		for _, t := range []string{"0", "1", "2", hexBig(rm1), hexBig(rnd()), hexBig(new(big.Int).Add(r, big.NewInt(3))), m1} {
			g.emit("C11 srs %s %x %s", name, size, t)
		}
	}

	// --- commit / open / verify of honest proofs: every length 1..size, z ∈ {0,1,root,τ,random}, special polynomials
	for size := 2; size <= N; size++ {
		tt, tau := tauTok()
		for n := 0; n <= size+1; n++ {
			kinds := []string{"rand", "zero", "sparse"}
			if n == 0 || n == size+1 {
				kinds = kinds[:1]
			}
			for _, kind := range kinds {
				for _, zk := range []string{"0", "1", "root", "tau", "rand"} {
					if (n == 0 || n == size+1) && zk != "rand" {
						continue
					}
					if g.tier != "thorough" && kind != "rand" && (zk == "0" || zk == "1") && n > 2 {
						continue
					}
					p := make([]*big.Int, n)
					for i := range p {
						switch kind {
						case "zero":
							p[i] = new(big.Int)
						case "sparse":
							p[i] = new(big.Int)
							if i == n-1 || g.rng.intn(3) == 0 {
								p[i] = sc()
							}
						default:
							p[i] = rnd()
						}
					}
					var z *big.Int
					switch zk {
					case "0":
						z = new(big.Int)
					case "1":
						z = big.NewInt(1)
					case "tau":
						z = tau
					case "root": // p := (X − z)·q  (length 1: the zero polynomial)
						z = rnd()
						if kind != "zero" && n >= 1 {
							q := p[1:]
							np := make([]*big.Int, n)
							for i := range np {
								np[i] = new(big.Int)
							}
							for i := range q {
								np[i+1] = f.add(np[i+1], q[i])
								np[i] = f.sub(np[i], f.mul(z, q[i]))
							}
							p = np
						}
					default:
						z = sc()
					}
					g.emit("C11 open %s %x %s %s %s", name, size, tt, showBigList(p), hexBig(z))
				}
			}
		}
	}

	// --- forged / true tuples (c,h,v,z) by scalars
	tuple := func(tau *big.Int, mode int) (cc, h, v, z *big.Int) {
		h, v, z = sc(), sc(), sc()
		switch mode % 8 {
		case 6:
			z = tau // quotient unconstrained
		case 7:
			h = new(big.Int)
		}
		cc = f.add(v, f.mul(f.sub(tau, z), h))
		bump := func(x *big.Int) *big.Int { return f.add(x, big.NewInt(int64(1+g.rng.intn(3)))) }
		switch mode % 8 {
		case 1:
			cc = bump(cc)
		case 2:
			h = bump(h)
		case 3:
			v = bump(v)
		case 4:
			z = bump(z)
		case 5:
			cc, h, v, z = sc(), sc(), sc(), sc()
		}
		return
	}
	for it := 0; it < g.budget(24, 200); it++ {
		tt, tau := tauTok()
		cc, h, v, z := tuple(tau, it)
		if it%11 == 10 { // unreduced scalars
			v = new(big.Int).Add(v, r)
			z = new(big.Int).Add(z, r)
		}
		g.emit("C11 verify %s %s %s %s %s %s", name, tt, hexBig(cc), hexBig(h), hexBig(v), hexBig(z))
	}
	// --- key reuse: one vk, a sequence of accepted / rejected claims
	for it := 0; it < g.budget(2, 12); it++ {
		tt, tau := tauTok()
		n := 2 + g.rng.intn(g.budget(5, 12))
		var toks []string
		for j := 0; j < n; j++ {
			mode := 0
			if g.rng.coin() {
				mode = 1 + g.rng.intn(7)
			}
			cc, h, v, z := tuple(tau, mode)
			toks = append(toks, showBigList([]*big.Int{cc, h, v, z}))
			if g.rng.intn(4) == 0 {
				toks = append(toks, toks[g.rng.intn(len(toks))])
			}
		}
		g.emit("C11 reuse %s %s %s", name, tt, join(toks))
	}

	// --- batch at a single point: γ is derived here (replica of deriveGamma) and travels on the line
	for it := 0; it < g.budget(21, 150); it++ {
		tt, tau := tauTok()
		n := it % 7 // 0 … 6
		z := sc()
		if it%5 == 4 {
			z = tau
		}
		cs, vs := make([]*big.Int, n), make([]*big.Int, n)
		onAtTau := g.rng.coin() // z = τ: the folded relation is Σγⁱ(cᵢ−vᵢ) = 0; cᵢ = vᵢ satisfies it for every γ
		for i := range cs {
			cs[i], vs[i] = sc(), sc()
			if it%5 == 4 && onAtTau {
				cs[i] = vs[i]
			}
		}
		nv := n
		if it%13 == 12 {
			nv = g.rng.intn(7)
			vs = make([]*big.Int, nv)
			for i := range vs {
				vs[i] = sc()
			}
		}
		ds := make([]any, n)
		for i := range ds {
			ds[i] = c.g1(cs[i])
		}
		gm := new(big.Int)
		if n == nv {
			gm = c.gamma(z, ds, vs)
		}
		// quotient on the folded relation (when τ ≠ z), then possibly broken
		h := sc()
		if f.norm(z).Cmp(f.norm(tau)) != 0 && n == nv {
			acc, gi := new(big.Int), big.NewInt(1)
			for i := range cs {
				acc = f.add(acc, f.mul(gi, f.sub(cs[i], vs[i])))
				gi = f.mul(gi, gm)
			}
			h = f.mul(acc, f.inv(f.sub(tau, z)))
			if g.rng.intn(3) == 0 {
				h = f.add(h, one)
			}
		}
		g.emit("C11 batch1 %s %s %s %s %s %s %s", name, tt, hexBig(gm), hexBig(z), hexBig(h), showBigList(cs), showBigList(vs))
	}
	// --- honest batch openings
	for it := 0; it < g.budget(10, 80); it++ {
		size := 2 + g.rng.intn(N-1)
		tt, tau := tauTok()
		n := 1 + it%4
		z := sc()
		if it%6 == 5 {
			z = tau
		}
		polys := make([][]*big.Int, n)
		same := g.rng.coin()
		l0 := 1 + g.rng.intn(size)
		if it%10 == 9 {
			l0, same = 1, true // all constants
		}
		bad := it%17 == 16
		for i := range polys {
			l := l0
			if !same {
				l = 1 + g.rng.intn(size)
			}
			if bad && i == n-1 {
				l = []int{0, size + 1}[g.rng.intn(2)]
			}
			polys[i] = make([]*big.Int, l)
			for j := range polys[i] {
				polys[i][j] = sc()
			}
		}
		gm := new(big.Int)
		if !bad {
			ds, vals := make([]any, n), make([]*big.Int, n)
			for i := range polys {
				ds[i] = c.g1(f.eval(polys[i], tau))
				vals[i] = f.eval(polys[i], z)
			}
			gm = c.gamma(z, ds, vals)
		}
		var ps []string
		for _, p := range polys {
			ps = append(ps, showBigList(p))
		}
		if it%8 == 7 && !bad {
			g.emit("C11 bopen %s %x %s 0 %s %s %x", name, size, tt, hexBig(z), strings.Join(ps, ";"), []int{n - 1, n + 1, n + 2}[g.rng.intn(3)])
		}
		g.emit("C11 bopen %s %x %s %s %s %s", name, size, tt, hexBig(gm), hexBig(z), strings.Join(ps, ";"))
	}

	// --- batch at several points
	// the model's λ (on the line): pairwise distinct, ∉ {0,1}; slot 0 is 1 (both sides force λ₀ = 1)
	distinctLams := func(n int) []*big.Int {
		l := make([]*big.Int, 0, n)
	draw:
		for len(l) < n {
			x := rnd()
			if len(l) == 0 {
				x = big.NewInt(1)
			} else if x.Sign() == 0 {
				continue
			}
			for _, y := range l {
				if x.Cmp(y) == 0 {
					continue draw
				}
			}
			l = append(l, x)
		}
		return l
	}
	for it := 0; it < g.budget(21, 150); it++ {
		tt, tau := tauTok()
		n := it % 7
		var cs, zs, lams []*big.Int
		var hv []string
		falseAt := -1
		if n > 0 && g.rng.coin() {
			falseAt = g.rng.intn(n)
		}
		for i := 0; i < n; i++ {
			mode := []int{0, 0, 0, 6, 7}[g.rng.intn(5)]
			if i == falseAt {
				mode = 1 + g.rng.intn(4)
			}
			cc, h, v, z := tuple(tau, mode)
			cs, zs = append(cs, cc), append(zs, z)
			hv = append(hv, hexBig(h)+":"+hexBig(v))
		}
		lams = distinctLams(n)
		switch it % 19 { // length mismatches
		case 17:
			cs = append(cs, sc())
			lams = distinctLams(n + 1)
		case 18:
			zs = append(zs, sc())
		}
		hvs := "-"
		if len(hv) > 0 {
			hvs = strings.Join(hv, ",")
		}
		g.emit("C11 multi %s %s %s %s %s %s", name, tt, showBigList(lams), showBigList(cs), hvs, showBigList(zs))
	}

	genC11Cancel(g, name, c, tuple, tauTok, distinctLams)
	genC11Vanish(g, name, c, tauTok, distinctLams)

	// --- serialisation round trips
	for _, size := range []int{2, 3, N} {
		tt, _ := tauTok()
		for _, kind := range []string{"srs", "srsraw", "srsunsafe", "srsunsafec", "pk", "pkraw", "pkunsafe", "vk", "vkraw", "dump"} {
			g.emit("C11 ser %s %x %s %s", name, size, tt, kind)
		}
	}
	for it := 0; it < g.budget(4, 20); it++ {
		n := g.rng.intn(5)
		vs := make([]*big.Int, n)
		for i := range vs {
			vs[i] = sc()
		}
		g.emit("C11 ser %s 2 1 proof %s %s", name, hexBig(sc()), hexBig(sc()))
		g.emit("C11 ser %s 2 1 bproof %s %s", name, hexBig(sc()), showBigList(vs))
	}
	for _, kind := range []string{"mpc0", "mpc1", "mpc2"} {
		g.emit("C11 ser %s %x 1 %s", name, 2+g.rng.intn(3), kind)
	}
	genC11Stream(g, name, c, sc, tauTok)
}
