package main

import (
	"crypto/sha256"
	"fmt"
	"strings"

	fiatshamir "github.com/consensys/gnark-crypto/fiat-shamir"
)

func init() {
	executors["SHA256"] = func(a []string) string {
		if len(a) != 1 {
			return "bad-op"
		}
		s := sha256.Sum256(parseBytes(a[0]))
		return hexBytes(s[:])
	}
	executors["C15"] = execC15
	generators["C15"] = genC15
}

func fsErr(err error) string {
	switch {
	case strings.Contains(err.Error(), "not recorded"):
		return "err:notfound"
	case strings.Contains(err.Error(), "already computed"):
		return "err:computed"
	case strings.Contains(err.Error(), "previous challenge"):
		return "err:prev"
	}
	return "err:other"
}

// C15 <hash> <names,> ops…   ops: B:<name>:<val> | C:<name> | M:<k> (mutate k-th slice handed in/out)
func execC15(a []string) string {
	if len(a) < 2 || a[0] != "sha256" {
		return "bad-op"
	}
	var names []string
	for _, n := range strings.Split(a[1], ",") {
		names = append(names, string(parseBytes(n)))
	}
	t := fiatshamir.NewTranscript(sha256.New(), names...)
	var bufs [][]byte // every slice handed in (Bind) or out (ComputeChallenge), in op order
	var outs []string
	for _, op := range a[2:] {
		f := strings.Split(op, ":")
		switch {
		case f[0] == "B" && len(f) == 3:
			v := parseBytes(f[2])
			bufs = append(bufs, v)
			if err := t.Bind(string(parseBytes(f[1])), v); err != nil {
				outs = append(outs, fsErr(err))
			} else {
				outs = append(outs, "ok")
			}
		case f[0] == "C" && len(f) == 2:
			v, err := t.ComputeChallenge(string(parseBytes(f[1])))
			if err != nil {
				outs = append(outs, fsErr(err))
			} else {
				outs = append(outs, hexBytes(v)) // rendered now, before any later mutation
				bufs = append(bufs, v)
			}
		case f[0] == "M" && len(f) == 2:
			var k int
			fmt.Sscanf(f[1], "%d", &k)
			if k < len(bufs) {
				for i := range bufs[k] {
					bufs[k][i] ^= 0xff
				}
			}
		default:
			return "bad-op"
		}
	}
	return join(outs)
}

func genC15(g *gen) {
	g.emit("SHA256 -")
	g.emit("SHA256 616263")
	for _, n := range []int{1, 55, 56, 63, 64, 65, 119, 120, 127, 128, 1000} {
		g.emit("SHA256 %s", hexBytes(g.rng.bytes(n)))
	}
	nameOf := func(i int) string { return hexBytes([]byte{byte('a' + i)}) }
	// bounded-exhaustive: k names, histories of length ≤ L over {B(name|unknown), C(name|unknown), M(k)}
	maxLen := g.budget(4, 5)
	for k := 1; k <= g.budget(3, 4); k++ {
		names := make([]string, k)
		for i := range names {
			names[i] = nameOf(i)
		}
		var alphabet []string
		for i := 0; i <= k; i++ { // i == k: unknown name
			alphabet = append(alphabet, "B:"+nameOf(i)+":01", "C:"+nameOf(i))
		}
		alphabet = append(alphabet, "M:0", "M:1", "M:2")
		var rec func(prefix []string)
		rec = func(prefix []string) {
			if len(prefix) > 0 {
				g.emit("C15 sha256 %s %s", strings.Join(names, ","), join(prefix))
			}
			if len(prefix) == maxLen || (k >= 3 && len(prefix) == maxLen-1) {
				return
			}
			for _, a := range alphabet {
				rec(append(append([]string{}, prefix...), a))
			}
		}
		rec(nil)
	}
	// seeded random long histories
	for it := 0; it < g.budget(2000, 40000); it++ {
		k := 1 + g.rng.intn(4)
		names := make([]string, k)
		for i := range names {
			names[i] = hexBytes(g.rng.bytes(1 + g.rng.intn(3)))
			for j := 0; j < i; j++ {
				if names[j] == names[i] {
					names[i] = names[i] + "ff" + nameOf(i)[0:2]
				}
			}
		}
		n := 1 + g.rng.intn(24)
		ops := make([]string, n)
		nb := 0
		for j := range ops {
			nm := hexBytes(g.rng.bytes(2))
			if g.rng.intn(8) != 0 {
				nm = names[g.rng.intn(k)]
			}
			switch g.rng.intn(5) {
			case 0, 1:
				ops[j] = "B:" + nm + ":" + hexBytes(g.rng.bytes(g.rng.intn(40)))
				nb++
			case 2, 3:
				ops[j] = "C:" + nm
				nb++
			default:
				ops[j] = fmt.Sprintf("M:%d", g.rng.intn(nb+1))
			}
		}
		g.emit("C15 sha256 %s %s", strings.Join(names, ","), join(ops))
	}
}
