package main

import (
	"crypto/sha256"
	"fmt"
	stdhash "hash"
	"math/big"
	"strings"

	fiatshamir "github.com/consensys/gnark-crypto/fiat-shamir"
)

func init() {
	executors["SHA256"] = func(a []string) string {
		if len(a) != 1 {
			return "bad-op"
		}
		s := sha256.Sum256(parseBytes(a[0]))
		return hexBytes(s[:])
	}
	executors["C15"] = execC15
	generators["C15"] = genC15
}

func fsErr(err error) string {
	switch {
	case strings.Contains(err.Error(), "not recorded"):
		return "err:notfound"
	case strings.Contains(err.Error(), "already computed"):
		return "err:computed"
	case strings.Contains(err.Error(), "previous challenge"):
		return "err:prev"
	// a Write refused by the hasher (mimc.digest.Write: ragged length / non-canonical element)
	case strings.Contains(err.Error(), "invalid input length"), strings.Contains(err.Error(), "invalid fr.Element encoding"):
		return "err:hash"
	}
	return "err:other"
}

var c15ConstCache = map[string]string{}

// hash token: sha256 | mimc:<curve>:<consts,> | mimcle:<curve>:<consts,>  (constants re-checked against GetConstants())
func c15Hasher(tok string) (stdhash.Hash, string) {
	if tok == "sha256" {
		return sha256.New(), ""
	}
	f := strings.Split(tok, ":")
	if len(f) != 3 || (f[0] != "mimc" && f[0] != "mimcle") {
		return nil, "bad-op"
	}
	m := mimcByName(f[1])
	if m == nil {
		return nil, "bad-op"
	}
	want, ok := c15ConstCache[m.name]
	if !ok {
		want = c14HexBigs(m.consts())
		c15ConstCache[m.name] = want
	}
	if f[2] != want {
		return nil, "bad-consts"
	}
	if f[0] == "mimcle" {
		return m.newLE(), ""
	}
	return m.newH(), ""
}

// C15 <hash> <names,> ops…   ops: B:<name>:<val> | C:<name> | M:<k> (mutate k-th slice handed in/out)
func execC15(a []string) string {
	if len(a) < 2 {
		return "bad-op"
	}
	h, bad := c15Hasher(a[0])
	if bad != "" {
		return bad
	}
	var names []string
	for _, n := range strings.Split(a[1], ",") {
		names = append(names, string(parseBytes(n)))
	}
	t := fiatshamir.NewTranscript(h, names...)
	var bufs [][]byte // every slice handed in (Bind) or out (ComputeChallenge), in op order
	var outs []string
	for _, op := range a[2:] {
		f := strings.Split(op, ":")
		switch {
		case f[0] == "B" && len(f) == 3:
			v := parseBytes(f[2])
			bufs = append(bufs, v)
			if err := t.Bind(string(parseBytes(f[1])), v); err != nil {
				outs = append(outs, fsErr(err))
			} else {
				outs = append(outs, "ok")
			}
		case f[0] == "C" && len(f) == 2:
			v, err := t.ComputeChallenge(string(parseBytes(f[1])))
			if err != nil {
				outs = append(outs, fsErr(err))
			} else {
				outs = append(outs, hexBytes(v)) // rendered now, before any later mutation
				bufs = append(bufs, v)
			}
		case f[0] == "M" && len(f) == 2:
			var k int
			fmt.Sscanf(f[1], "%d", &k)
			if k < len(bufs) {
				for i := range bufs[k] {
					bufs[k][i] ^= 0xff
				}
			}
		default:
			return "bad-op"
		}
	}
	return join(outs)
}

// ---------------------------------------------------------------- generation

// c15Hash describes one hasher for generation: what ONE Write accepts is what matters for the value lattice
type c15Hash struct {
	tok   string   // hash token of the op line
	block int      // 0: stream hash (any write accepted)
	q     *big.Int // modulus of one block (block > 0)
	le    bool
}

func (h *c15Hash) elem(v *big.Int) []byte {
	b := make([]byte, h.block)
	v.FillBytes(b)
	if h.le {
		for i, j := 0, len(b)-1; i < j; i, j = i+1, j-1 {
			b[i], b[j] = b[j], b[i]
		}
	}
	return b
}

// a canonical block (boundary values now and then)
func (h *c15Hash) canon(r *rng) []byte {
	switch r.intn(8) {
	case 0:
		return h.elem(new(big.Int).Sub(h.q, big.NewInt(1)))
	case 1:
		return h.elem(big.NewInt(0))
	case 2:
		return h.elem(big.NewInt(int64(1 + r.intn(255))))
	}
	return h.elem(r.bigBelow(h.q))
}

// a block whose value is ≥ q (refused by Write)
func (h *c15Hash) noncanon(r *rng) []byte {
	top := new(big.Int).Lsh(big.NewInt(1), uint(8*h.block))
	switch r.intn(3) {
	case 0:
		return h.elem(h.q)
	case 1:
		return h.elem(new(big.Int).Sub(top, big.NewInt(1)))
	}
	v := r.bigBelow(new(big.Int).Sub(top, h.q))
	return h.elem(v.Add(v, h.q))
}

func c15Cat(bs ...[]byte) []byte {
	var out []byte
	for _, b := range bs {
		out = append(out, b...)
	}
	return out
}

// value of write-class c relative to the block size:
// 0: empty  1: one byte  2: block-1 bytes  3: canonical block  4: non-canonical block  5: block+1 bytes
// 6: two canonical blocks  7: canonical‖non-canonical  8: non-canonical‖canonical  9: 2·block+1 bytes
// 10: a few bytes (< block)  11: three canonical blocks
// accepted by a MiMC Write: 0 1 2 3 6 10 11; refused: 4 5 7 8 9
const c15Classes = 12

func (h *c15Hash) value(r *rng, c int) []byte {
	if h.block == 0 { // stream hash: only the length matters
		return r.bytes([]int{0, 1, 31, 32, 32, 33, 64, 64, 64, 65, 5, 96}[c])
	}
	S := h.block
	switch c {
	case 0:
		return nil
	case 1:
		return r.bytes(1)
	case 2:
		return r.bytes(S - 1)
	case 3:
		return h.canon(r)
	case 4:
		return h.noncanon(r)
	case 5:
		return c15Cat(h.canon(r), r.bytes(1))
	case 6:
		return c15Cat(h.canon(r), h.canon(r))
	case 7:
		return c15Cat(h.canon(r), h.noncanon(r))
	case 8:
		return c15Cat(h.noncanon(r), h.canon(r))
	case 9:
		return c15Cat(h.canon(r), h.canon(r), r.bytes(1))
	case 10:
		return r.bytes(2 + r.intn(S-3))
	}
	return c15Cat(h.canon(r), h.canon(r), h.canon(r))
}

var c15Accepted = []int{0, 1, 2, 3, 6, 10, 11}
var c15Refused = []int{4, 5, 7, 8, 9}

// k distinct names; class as for values (short names are left-padded by MiMC, long ones must be canonical blocks)
func (h *c15Hash) names(r *rng, k int, classes []int) []string {
	names := make([]string, 0, k)
	for len(names) < k {
		i := len(names)
		var n []byte
		if classes[i] == 1 {
			n = []byte{byte('a' + i)}
		} else {
			n = h.value(r, classes[i])
		}
		s := hexBytes(n)
		dup := false
		for _, o := range names {
			dup = dup || o == s
		}
		if dup { // (empty name twice, or a random collision): fall back to a distinct short name
			s = hexBytes([]byte{byte('n'), byte('a' + i)})
		}
		names = append(names, s)
	}
	return names
}

func c15Hashes() (sha *c15Hash, mimc []*c15Hash, mimcLE []*c15Hash) {
	sha = &c15Hash{tok: "sha256"}
	for mi := range mimcs {
		m := &mimcs[mi]
		f := fields[m.field]
		consts := c14HexBigs(m.consts())
		mimc = append(mimc, &c15Hash{tok: "mimc:" + m.name + ":" + consts, block: f.Bytes(), q: f.Q()})
		mimcLE = append(mimcLE, &c15Hash{tok: "mimcle:" + m.name + ":" + consts, block: f.Bytes(), q: f.Q(), le: true})
	}
	return
}

func (h *c15Hash) emit(g *gen, names []string, ops []string) {
	g.emit("C15 %s %s %s", h.tok, strings.Join(names, ","), join(ops))
}

// all histories of length 1..maxLen over the alphabet
func c15Exhaustive(alphabet []string, maxLen int, f func([]string)) {
	var rec func(prefix []string)
	rec = func(prefix []string) {
		if len(prefix) > 0 {
			f(prefix)
		}
		if len(prefix) == maxLen {
			return
		}
		for _, a := range alphabet {
			rec(append(append([]string{}, prefix...), a))
		}
	}
	rec(nil)
}

// bounded-exhaustive histories for a block hash: two names (short / one canonical block), an unknown name,
// bound values short / canonical block / block+1 bytes (refused) / non-canonical block (refused), mutations
func (h *c15Hash) genExhaustive(g *gen, maxLen int) {
	na, nb, unk := hexBytes([]byte{'a'}), hexBytes(h.elem(big.NewInt(0x62))), hexBytes([]byte{'z'})
	alphabet := []string{
		"B:" + na + ":" + hexBytes(h.value(g.rng, 1)),
		"B:" + na + ":" + hexBytes(h.value(g.rng, 3)),
		"B:" + na + ":" + hexBytes(h.value(g.rng, 5)),
		"B:" + nb + ":" + hexBytes(h.value(g.rng, 10)),
		"B:" + nb + ":" + hexBytes(h.value(g.rng, 4)),
		"B:" + unk + ":01",
		"C:" + na, "C:" + nb, "C:" + unk,
		"M:0", "M:1",
	}
	c15Exhaustive(alphabet, maxLen, func(ops []string) { h.emit(g, []string{na, nb}, ops) })
}

// the classes a per-write hash distinguishes, for every hasher:
//   - several values bound to ONE challenge, every pair of write classes (accepted × accepted must chain as two
//     writes, anything × refused must make the compute fail and leave the transcript as it was);
//   - every name class (short = left-padded, one/two canonical blocks, refused ones) at position 0 and 1;
//   - after a failed compute: recompute (same error), bind more, compute the next challenge (refused: err:prev),
//     mutation of the slices handed in.
func (h *c15Hash) genClasses(g *gen, reps int) {
	r := g.rng
	hb := func(b []byte) string { return hexBytes(b) }
	for rep := 0; rep < reps; rep++ {
		// pairs (and a triple) of bound values on one challenge, first and second position
		for c1 := 0; c1 < c15Classes; c1++ {
			for c2 := 0; c2 < c15Classes; c2++ {
				names := h.names(r, 2, []int{1, 1})
				pos := r.intn(2)
				var ops []string
				if pos == 1 {
					ops = append(ops, "B:"+names[0]+":"+hb(h.value(r, c15Accepted[r.intn(len(c15Accepted))])), "C:"+names[0])
				}
				n := names[pos]
				ops = append(ops, "B:"+n+":"+hb(h.value(r, c1)), "B:"+n+":"+hb(h.value(r, c2)))
				if r.intn(3) == 0 {
					ops = append(ops, "B:"+n+":"+hb(h.value(r, r.intn(c15Classes))))
				}
				if r.coin() {
					ops = append(ops, fmt.Sprintf("M:%d", r.intn(len(ops))))
				}
				ops = append(ops, "C:"+n, "C:"+n)
				if pos == 0 {
					ops = append(ops, "B:"+names[1]+":"+hb(h.value(r, c15Accepted[r.intn(len(c15Accepted))])), "C:"+names[1], "C:"+names[0])
				} else {
					ops = append(ops, "C:"+names[0], "B:"+n+":01", "C:"+n)
				}
				h.emit(g, names, ops)
			}
		}
		// name classes
		for c1 := 0; c1 < c15Classes; c1++ {
			for c2 := 0; c2 < c15Classes; c2++ {
				names := h.names(r, 3, []int{c1, c2, 1})
				ops := []string{
					"C:" + names[1], // before its predecessor: a refused name is reported first (Go writes the name before the check)
					"B:" + names[0] + ":" + hb(h.value(r, c15Accepted[r.intn(len(c15Accepted))])),
					"C:" + names[0], "B:" + names[1] + ":" + hb(h.value(r, 2)), "B:" + names[1] + ":" + hb(h.value(r, 3)),
					"C:" + names[1], "C:" + names[2], "C:" + names[0], "C:" + names[1],
				}
				h.emit(g, names, ops)
			}
		}
	}
}

// seeded random long histories; values drawn from the write classes (mostly accepted ones for a block hash)
func (h *c15Hash) genRandom(g *gen, n int) {
	r := g.rng
	for it := 0; it < n; it++ {
		k := 1 + r.intn(4)
		cl := make([]int, k)
		for i := range cl {
			switch r.intn(6) {
			case 0:
				cl[i] = r.intn(c15Classes)
			case 1:
				cl[i] = c15Accepted[r.intn(len(c15Accepted))]
			default:
				cl[i] = 1
			}
		}
		names := h.names(r, k, cl)
		nops := 1 + r.intn(24)
		ops := make([]string, nops)
		nb := 0
		pRef := r.intn(3) // 0: no refused value in this history, else sometimes
		for j := range ops {
			nm := hexBytes(r.bytes(2))
			if r.intn(8) != 0 {
				nm = names[r.intn(k)]
			}
			switch r.intn(5) {
			case 0, 1:
				c := c15Accepted[r.intn(len(c15Accepted))]
				if pRef != 0 && r.intn(6) == 0 {
					c = c15Refused[r.intn(len(c15Refused))]
				}
				ops[j] = "B:" + nm + ":" + hexBytes(h.value(r, c))
				nb++
			case 2, 3:
				ops[j] = "C:" + nm
				nb++
			default:
				ops[j] = fmt.Sprintf("M:%d", r.intn(nb+1))
			}
		}
		h.emit(g, names, ops)
	}
}

func genC15(g *gen) {
	g.emit("SHA256 -")
	g.emit("SHA256 616263")
	for _, n := range []int{1, 55, 56, 63, 64, 65, 119, 120, 127, 128, 1000} {
		g.emit("SHA256 %s", hexBytes(g.rng.bytes(n)))
	}
	nameOf := func(i int) string { return hexBytes([]byte{byte('a' + i)}) }
	// ---- SHA-256 (stream hash)
	// bounded-exhaustive: k names, histories of length ≤ L over {B(name|unknown), C(name|unknown), M(k)}
	maxLen := g.budget(4, 5)
	for k := 1; k <= g.budget(3, 4); k++ {
		names := make([]string, k)
		for i := range names {
			names[i] = nameOf(i)
		}
		var alphabet []string
		for i := 0; i <= k; i++ { // i == k: unknown name
			alphabet = append(alphabet, "B:"+nameOf(i)+":01", "C:"+nameOf(i))
		}
		alphabet = append(alphabet, "M:0", "M:1", "M:2")
		var rec func(prefix []string)
		rec = func(prefix []string) {
			if len(prefix) > 0 {
				g.emit("C15 sha256 %s %s", strings.Join(names, ","), join(prefix))
			}
			if len(prefix) == maxLen || (k >= 3 && len(prefix) == maxLen-1) {
				return
			}
			for _, a := range alphabet {
				rec(append(append([]string{}, prefix...), a))
			}
		}
		rec(nil)
	}
	// seeded random long histories
	for it := 0; it < g.budget(2000, 40000); it++ {
		k := 1 + g.rng.intn(4)
		names := make([]string, k)
		for i := range names {
			names[i] = hexBytes(g.rng.bytes(1 + g.rng.intn(3)))
			for j := 0; j < i; j++ {
				if names[j] == names[i] {
					names[i] = names[i] + "ff" + nameOf(i)[0:2]
				}
			}
		}
		n := 1 + g.rng.intn(24)
		ops := make([]string, n)
		nb := 0
		for j := range ops {
			nm := hexBytes(g.rng.bytes(2))
			if g.rng.intn(8) != 0 {
				nm = names[g.rng.intn(k)]
			}
			switch g.rng.intn(5) {
			case 0, 1:
				ops[j] = "B:" + nm + ":" + hexBytes(g.rng.bytes(g.rng.intn(40)))
				nb++
			case 2, 3:
				ops[j] = "C:" + nm
				nb++
			default:
				ops[j] = fmt.Sprintf("M:%d", g.rng.intn(nb+1))
			}
		}
		g.emit("C15 sha256 %s %s", strings.Join(names, ","), join(ops))
	}
	sha, mimc, mimcLE := c15Hashes()
	sha.genClasses(g, 1)
	// ---- MiMC (a Write is a unit: left-padded if short, refused unless canonical blocks), 8 instances
	for i, h := range mimc {
		deep := h.block == 32 && i == 0 // bn254
		switch {
		case deep:
			h.genExhaustive(g, g.budget(3, 4))
		default:
			h.genExhaustive(g, g.budget(2, 3))
		}
		h.genClasses(g, g.budget(1, 2))
		if deep {
			h.genRandom(g, g.budget(600, 4000))
		} else {
			h.genRandom(g, g.budget(150, 1000))
		}
		// LittleEndian option: the digest is still written big-endian, so the chained previous value can itself be refused
		le := mimcLE[i]
		le.genExhaustive(g, 2)
		if deep || g.thorough() {
			le.genClasses(g, 1)
		}
		le.genRandom(g, g.budget(60, 300))
	}
}
