package main

// C18: entry points that are not per-curve boilerplate: registry hashers, RSis on the small fields, helpers.

import (
	"bytes"
	"encoding/hex"
	"fmt"
	"math/big"
	"reflect"
	"sync"
	"sync/atomic"

	"github.com/consensys/gnark-crypto/ecc/bls12-381/bandersnatch"
	bls12381fr "github.com/consensys/gnark-crypto/ecc/bls12-381/fr"
	grumpkinfr "github.com/consensys/gnark-crypto/ecc/grumpkin/fr"
	grumpkinmimc "github.com/consensys/gnark-crypto/ecc/grumpkin/fr/mimc"
	grumpkinpolynomial "github.com/consensys/gnark-crypto/ecc/grumpkin/fr/polynomial"
	grumpkinposeidon2 "github.com/consensys/gnark-crypto/ecc/grumpkin/fr/poseidon2"

	bls12377fr "github.com/consensys/gnark-crypto/ecc/bls12-377/fr"
	bls12377sis "github.com/consensys/gnark-crypto/ecc/bls12-377/fr/sis"
	"github.com/consensys/gnark-crypto/field/babybear"
	babybearfft "github.com/consensys/gnark-crypto/field/babybear/fft"
	babybearposeidon2 "github.com/consensys/gnark-crypto/field/babybear/poseidon2"
	babybearsis "github.com/consensys/gnark-crypto/field/babybear/sis"
	"github.com/consensys/gnark-crypto/field/goldilocks"
	goldilocksfft "github.com/consensys/gnark-crypto/field/goldilocks/fft"
	goldilocksposeidon2 "github.com/consensys/gnark-crypto/field/goldilocks/poseidon2"
	goldilockssis "github.com/consensys/gnark-crypto/field/goldilocks/sis"
	"github.com/consensys/gnark-crypto/field/koalabear"
	fext "github.com/consensys/gnark-crypto/field/koalabear/extensions"
	koalabearfft "github.com/consensys/gnark-crypto/field/koalabear/fft"
	koalabearposeidon2 "github.com/consensys/gnark-crypto/field/koalabear/poseidon2"
	koalabearsis "github.com/consensys/gnark-crypto/field/koalabear/sis"
	"github.com/consensys/gnark-crypto/field/koalabear/vortex"
	ghash "github.com/consensys/gnark-crypto/hash"
	"github.com/consensys/gnark-crypto/utils"
)

func c18SliceOf[T any](x T, n int) []T {
	s := make([]T, n)
	s[0] = x
	return s
}

func c18Clone[T any](s []T) []T { return append([]T(nil), s...) }

// one utils.WorkerPool for the whole process (it is meant to be shared by its users)
var c18WorkerPool = sync.OnceValue(utils.NewWorkerPool)

// c18Par: the shapes of the `C18 par` lines (sizes above the thresholds of the parallel implementations)
func c18Par(shape int) bool { return shape >= 16 }

// c18Perm: a permutation of 0..n-1 (Fisher-Yates)
func c18Perm(r *rng, n int) []int {
	p := make([]int, n)
	for i := range p {
		p[i] = i
	}
	for i := n - 1; i > 0; i-- {
		j := r.intn(i + 1)
		p[i], p[j] = p[j], p[i]
	}
	return p
}

// c18Pick: the value of a size parameter for the shape of the line: shapes 0 and 1 are the two smallest arities of the
// family, 2 a large one, every other shape draws at random
func c18Pick(shape, s0, s1, s2 int, random func() int) int {
	switch shape {
	case 0:
		return s0
	case 1:
		return s1
	case 2:
		return s2
	}
	return random()
}

// c18FillFp sets every (nested) field of type t below v with set
func c18FillFp(v reflect.Value, t reflect.Type, set func(v reflect.Value)) {
	if v.Type() == t {
		set(v)
		return
	}
	switch v.Kind() {
	case reflect.Struct:
		for i := 0; i < v.NumField(); i++ {
			c18FillFp(v.Field(i), t, set)
		}
	case reflect.Array:
		for i := 0; i < v.Len(); i++ {
			c18FillFp(v.Index(i), t, set)
		}
	}
}

// c18Scalar: the shared scalar object of a `scalarexp` line: shape 0 = zero, 1 = a small negative value, 2 = a huge negative
// value (longer than the group order), otherwise 1 .. bits+64 bits, negative two times out of three
func c18Scalar(r *rng, shape, bits int) *big.Int {
	var k *big.Int
	switch shape {
	case 0:
		return new(big.Int)
	case 1:
		k = big.NewInt(int64(1 + r.intn(1<<16)))
		return k.Neg(k)
	case 2:
		k = r.bigBits(bits + 64 + r.intn(bits))
		k.SetBit(k, bits+63, 1)
		return k.Neg(k)
	}
	switch r.intn(4) {
	case 0:
		k = r.bigBits(1 + r.intn(64))
	case 1:
		k = r.bigBits(bits + 1 + r.intn(64))
	default:
		k = r.bigBits(bits - r.intn(8))
	}
	if k.Sign() == 0 {
		k.SetInt64(3)
	}
	if r.intn(3) != 0 {
		k.Neg(k)
	}
	return k
}

// c18ScalarWatch: what the observer goroutine of a `scalarexp` line runs: the shared scalars still have their values
func c18ScalarWatch(k, k2 *big.Int) func() string {
	ck, ck2 := new(big.Int).Set(k), new(big.Int).Set(k2)
	return func() string {
		if k.Sign() != ck.Sign() || k.Cmp(ck) != 0 {
			return "k(observed-during-the-calls)"
		}
		if k2.Sign() != ck2.Sign() || k2.Cmp(ck2) != 0 {
			return "k2(observed-during-the-calls)"
		}
		return ""
	}
}

func c18Err(err error) string {
	if err == nil {
		return ":ok"
	}
	return ":err"
}

// hasher obtained from the registry. Sequential calls reuse ONE hasher (Reset, Write, Sum); concurrent callers each take
// their own hasher from the registry (hashers are stateful, the shared things are the message and the process-wide
// lazily initialised constants/parameters).
// elem draws the canonical big-endian encoding of one field element.
//
// misSized (MiMC): one line in four hashes a message of 1..2 blocks plus a partial block in ONE Write, once from a slice
// with cap == len and once from an equal slice whose backing array continues with other bytes; the outcome (n, err,
// digest) must be a function of the bytes of the argument only.
func c18HashMaker(id ghash.Hash, elemSize int, elem func(r *rng) []byte, misSized bool) c18Maker {
	return func(r *rng, shape int) *c18Sess {
		h := id.New()
		bs := h.BlockSize()
		if misSized && shape > 2 && r.intn(4) == 0 {
			var msg []byte
			for i := 1 + r.intn(2); i > 0; i-- {
				msg = append(msg, elem(r)...)
			}
			msg = append(msg, elem(r)[:1+r.intn(bs-1)]...)
			a := make([]byte, len(msg), len(msg))
			copy(a, msg)
			b := make([]byte, len(msg)+bs)
			copy(b, msg)
			for i := len(msg); i < len(b); i++ {
				b[i] = 1
			}
			b = b[:len(msg)]
			one := func(p []byte) string {
				return c18SafeCall(func() string {
					hh := id.New()
					n, err := hh.Write(p)
					return fmt.Sprintf("%d%s%x", n, c18Err(err), hh.Sum(nil))
				})
			}
			s := &c18Sess{args: []c18Arg{{"msg", &a}, {"msg'", &b}}, concFirst: true}
			s.call = func() string {
				ra, rb := one(a), one(b)
				if ra != rb {
					return fmt.Sprintf("depends-on-bytes-beyond-len#%d", c18AliasCounter.Add(1))
				}
				return ra
			}
			return s
		}
		nblocks := c18Pick(shape, 0, 1, 9, func() int { return r.intn(5) }) // the empty message and one block first
		var msg []byte
		for i := 0; i < nblocks*bs/elemSize; i++ {
			msg = append(msg, elem(r)...)
		}
		if elemSize == bs && nblocks == 0 && shape != 0 && r.coin() {
			// a single short value (left-padded by the hashers)
			msg = append(msg, elem(r)[bs-1-r.intn(bs-1):]...)
		}
		msg = c18Win(r, msg)
		s := &c18Sess{args: []c18Arg{{"msg", &msg}}, concFirst: true}
		s.call = func() string {
			h.Reset()
			h.Write(msg)
			d := h.Sum(nil) // the digest handed out is retained: later Reset / Write / Sum on the SAME hasher leave it alone
			s.out(&d)
			return hex.EncodeToString(d)
		}
		s.concCall = func() string {
			hh := id.New()
			hh.Write(msg)
			return hex.EncodeToString(hh.Sum(nil))
		}
		return s
	}
}

var c18AliasCounter atomic.Uint64

// c18Mark: "" when the check made inside a call holds, otherwise a marker that is different at every call (so that the
// line answers same=0 / conc=0 whatever the other calls return)
func c18Mark(ok bool, what string) string {
	if ok {
		return ""
	}
	return fmt.Sprintf("%s#%d", what, c18AliasCounter.Add(1))
}

// merkleDamgardHasher (hash/merkle-damgard.go) built on a caller-supplied initial state.
// variant 0: Sum(nil) right after Reset hands out the slice that is both the state and the iv (and the caller's initialState)
// variant 1: the slice returned by Sum is the live state: scribbling on it changes what the next Sum returns
// variant 2: same through State()
func c18MDMaker(newCompressor func() ghash.Compressor, elemSize int, elem func(r *rng) []byte) c18Maker {
	return func(r *rng, shape int) *c18Sess {
		variant := r.intn(3)
		f := newCompressor()
		iv := elem(r)
		var msg []byte
		for i := c18Pick(shape, 1, 0, 6, func() int { return 1 + r.intn(3) }); i > 0; i-- {
			msg = append(msg, elem(r)...)
		}
		iv, msg = c18Win(r, iv), c18Win(r, msg)
		h := ghash.NewMerkleDamgardHasher(f, iv)
		s := &c18Sess{args: []c18Arg{{"initialState", &iv}, {"msg", &msg}}}
		scribble := func(b []byte) {
			if len(b) > 0 {
				b[len(b)-1] ^= 1
			}
		}
		run := func(h ghash.StateStorer) string {
			switch variant {
			case 0:
				h.Reset()
				d0 := h.Sum(nil)
				c0 := c18Clone(d0)
				scribble(d0) // the caller reuses the buffer it was handed
				h.Write(msg)
				return hex.EncodeToString(c0) + hex.EncodeToString(h.Sum(nil))
			case 1:
				h.Reset()
				h.Write(msg)
				d := h.Sum(nil)
				c := c18Clone(d)
				scribble(d)
				d2 := h.Sum(nil) // no Write in between: must be the same digest
				if !bytes.Equal(c, d2) {
					return fmt.Sprintf("sum-aliases-state#%d", c18AliasCounter.Add(1))
				}
				return hex.EncodeToString(d2)
			default:
				h.Reset()
				h.Write(msg)
				st := h.State()
				c := c18Clone(st)
				scribble(st)
				d2 := h.Sum(nil)
				if !bytes.Equal(c, d2) {
					return fmt.Sprintf("state-aliases-state#%d", c18AliasCounter.Add(1))
				}
				return hex.EncodeToString(d2)
			}
		}
		s.call = func() string { return run(h) }
		// concurrent callers: own hasher each, sharing the compressor, the initial state slice and the message
		s.concCall = func() string { return run(ghash.NewMerkleDamgardHasher(f, iv)) }
		return s
	}
}

// RSis with a shared key: Hash(v, res) with a fresh res per call
func c18SisMaker[E any, R interface{ Hash(v, res []E) error }](
	newR func(seed int64, logTwoDegree, logTwoBound, maxNb int) (R, error),
	rnd func(r *rng) E, params [][2]int) c18Maker {
	return func(r *rng, shape int) *c18Sess {
		p := params[r.intn(len(params))]
		degree := 1 << p[0]
		maxNb := degree * (1 + r.intn(3))
		if c18Par(shape) { // NewRSis fills the key with parallel.Execute over its polynomials: several per worker
			maxNb = degree * (4 + r.intn(4)) * 32 / p[1]
		}
		keySeed := int64(r.intn(1000))
		key, err := newR(keySeed, p[0], p[1], maxNb)
		if err != nil {
			panic(err)
		}
		n := c18Pick(shape, 1, 2, maxNb, func() int {
			if r.intn(4) == 0 {
				return 1 + r.intn(maxNb)
			}
			return maxNb - r.intn(3)
		})
		v := c18Win(r, make([]E, n))
		for i := range v {
			v[i] = rnd(r)
		}
		s := &c18Sess{args: []c18Arg{{"key", key}, {"v", &v}}}
		s.call = func() string {
			res := make([]E, degree)
			err := key.Hash(v, res)
			out := s.out(&res) + c18Err(err)
			if c18Par(shape) { // the constructor: same arguments, same key
				key2, err2 := newR(keySeed, p[0], p[1], maxNb)
				out += s.out(key2) + c18Err(err2)
			}
			return out
		}
		return s
	}
}

// FFT packages of the small fields (same template as the per-curve fft entry; the packages differ by type only)
type c18FFTAPI[E any] struct {
	rnd         func(r *rng) E
	newDomain   func(n uint64, kind int, shift E) any // kind 0 plain, 1 without precomputation, 2 shifted
	transform   func(d any, a []E, inverse, dit, coset bool, nbTasks int)
	cosetTables func(d any) ([]E, error, []E, error)
	buildExp    func(w E, table []E)
}

func c18FFTMaker[E any](api c18FFTAPI[E]) c18Maker {
	return func(r *rng, shape int) *c18Sess {
		n := c18Pick(shape, 1, 2, 1024, func() int { return 4 << r.intn(9) })
		kind := r.intn(3)
		if shape >= 2 && shape <= 4 {
			n = 1024 << (r.intn(5) / 2 * r.intn(2))
			kind = []int{0, 2, 1}[shape-2]
		}
		if c18Par(shape) {
			n = 2048 << (shape & 3)
			kind = (shape >> 2) % 3
		}
		shift := api.rnd(r)
		d := api.newDomain(uint64(n), kind, shift)
		a := c18Win(r, make([]E, n))
		for i := range a {
			a[i] = api.rnd(r)
		}
		nbTasks := 1 + r.intn(8)
		if c18Par(shape) {
			nbTasks = []int{0, 16, 4, 0}[r.intn(4)]
		}
		one := func(j int) string {
			b := c18Clone(a)
			api.transform(d, b, j&4 != 0, j&1 == 1, j&2 != 0, nbTasks)
			return deepHash(&b)
		}
		var turn atomic.Uint64
		var s *c18Sess
		run := func(rot int) string {
			var res [8]string
			for j := 0; j < 8; j++ {
				k := (j*5 + rot) % 8
				res[k] = one(k)
			}
			out := ""
			for _, x := range res {
				out += x
			}
			b := c18Clone(a)
			api.transform(d, b, false, false, true, nbTasks)
			api.transform(d, b, true, true, true, nbTasks)
			ct, err, cti, err1 := api.cosetTables(d)
			out += boolStr(deepHash(&b) == deepHash(&a)) + s.out(&ct) + c18Err(err) + s.out(&cti) + c18Err(err1)
			if c18Par(shape) {
				d2 := api.newDomain(uint64(n), kind, shift)
				tbl := make([]E, n-n/8+3)
				api.buildExp(shift, tbl)
				out += s.out(d2) + s.out(&tbl)
			}
			return out
		}
		s = &c18Sess{args: []c18Arg{{"domain", d}, {"a", &a}, {"shift", &shift}}}
		s.call = func() string { return run(0) }
		s.concCall = func() string { return run(int(turn.Add(1) * 3)) }
		return s
	}
}

// ---- Vortex (koalabear only): commitment, Merkle tree, Reed-Solomon encoding ------------------------------------------
func c18KoalaElem(r *rng) (e koalabear.Element) { e.SetUint64(r.u64()); return }
func c18KoalaE4(r *rng) fext.E4 {
	return fext.E4{B0: fext.E2{A0: c18KoalaElem(r), A1: c18KoalaElem(r)}, B1: fext.E2{A0: c18KoalaElem(r), A1: c18KoalaElem(r)}}
}

// BuildMerkleTree / Open / Verify on a shared slice of leaves. The levels with >= 512 nodes are hashed by parallel.Execute.
func c18MerkleMaker(r *rng, shape int) *c18Sess {
	n := c18Pick(shape, 1, 2, 512, func() int {
		if r.coin() {
			return 1 << r.intn(10)
		}
		return 1 + r.intn(700)
	})
	if c18Par(shape) { // 2^11 .. 2^14 leaves, exactly a power of two or padded
		n = 2048 << (shape & 3)
		if shape&4 != 0 {
			n -= 1 + r.intn(n/2-1)
		}
	}
	hashes := make([]vortex.Hash, n)
	for i := range hashes {
		for j := range hashes[i] {
			hashes[i][j] = c18KoalaElem(r)
		}
	}
	hashes = c18Win(r, hashes)
	pos := []int{0, n - 1, r.intn(n)}
	s := &c18Sess{args: []c18Arg{{"hashes", &hashes}}}
	s.call = func() string {
		mt := vortex.BuildMerkleTree(hashes)
		root := mt.Root()
		out := s.out(&mt.Levels) + s.out(&root)
		// the SAME tree opens several positions: every proof handed out is retained and verified again after the others
		for _, i := range pos {
			proof, err := mt.Open(i)
			out += s.out(&proof) + c18Err(err) + s.again(func() string { return c18Err(proof.Verify(i, hashes[i], root)) })
		}
		return out
	}
	return s
}

// Commit / OpenLinComb / OpenColumns / Verify / EncodeReedSolomon with shared Params and a shared input matrix
func c18VortexMaker(r *rng, shape int) *c18Sess {
	rate := []int{2, 2, 4, 8}[r.intn(4)]
	numCol := c18Pick(shape, 1, 2, 256, func() int { return 1 << r.intn(8) })
	numRow := c18Pick(shape, 1, 2, 8, func() int { return 1 + r.intn(16) })
	if shape <= 2 {
		rate = 2
	}
	if c18Par(shape) { // code words of >= 1024 columns: Merkle levels of >= 512 nodes; rows, columns, blocks per worker
		rate = []int{2, 4, 2, 8}[shape&3]
		numCol = (2048 << ((shape >> 2) & 1)) / rate
		numRow = 6 + r.intn(10)
	}
	sp := [][2]int{{4, 8}, {6, 16}, {9, 16}, {5, 8}}[r.intn(4)]
	key, err := koalabearsis.NewRSis(int64(r.intn(1000)), sp[0], sp[1], numRow)
	if err != nil {
		panic(err)
	}
	nsel := 1 + r.intn(4)
	params, err := vortex.NewParams(numCol, numRow, key, rate, nsel)
	if err != nil {
		panic(err)
	}
	input := make([][]koalabear.Element, numRow)
	for i := range input {
		input[i] = c18Win(r, make([]koalabear.Element, numCol))
		for j := range input[i] {
			input[i][j] = c18KoalaElem(r)
		}
	}
	input = c18Win(r, input)
	x, alpha, alpha2 := c18KoalaE4(r), c18KoalaE4(r), c18KoalaE4(r)
	selected, selected2 := c18Win(r, make([]int, nsel)), c18Win(r, make([]int, nsel))
	for i := range selected {
		selected[i] = r.intn(numCol * rate)
		selected2[i] = r.intn(numCol * rate)
	}
	s := &c18Sess{args: []c18Arg{{"params", params}, {"input", &input}, {"x", &x}, {"alpha", &alpha}, {"selectedColumns", &selected},
		{"alpha2", &alpha2}, {"selectedColumns2", &selected2}}}
	s.call = func() string {
		ps, err := vortex.Commit(params, input)
		if err != nil {
			return "commit" + c18Err(err)
		}
		root := ps.GetCommitment()
		out := s.out(&ps.EncodedMatrix) + s.out(&ps.SisHashes) + s.out(&ps.MerkleTree.Levels) + s.out(&root)
		ps.OpenLinComb(alpha)
		proof, err1 := ps.OpenColumns(selected)
		ys := make([]fext.E4, numRow)
		nerr := 0
		for i := range ys {
			var e error
			if ys[i], e = vortex.EvalBasePolyLagrange(input[i], x); e != nil {
				nerr++
			}
		}
		verify := func(proof *vortex.Proof, alpha fext.E4, selected []int) func() string {
			return func() string {
				return c18Err(params.Verify(vortex.VerifierInput{Proof: proof, MerkleRoot: root, ClaimedValues: ys, EvaluationPoint: x,
					Alpha: alpha, SelectedColumns: selected}))
			}
		}
		hp := s.out(proof)
		ver := s.again(verify(proof, alpha, selected))
		out += hp + c18Err(err1) + s.out(&ys) + fmt.Sprint(nerr) + ver
		// the SAME committed state is opened again: for another coin and other columns, then for the first coin again.
		// The proofs handed out earlier must stay what they were (and keep verifying), the repetition must reproduce the first.
		ps.OpenLinComb(alpha2)
		proof2, err3 := ps.OpenColumns(selected2)
		out += s.out(proof2) + c18Err(err3) + s.again(verify(proof2, alpha2, selected2))
		ps.OpenLinComb(alpha)
		proof3, err4 := ps.OpenColumns(selected)
		out += c18Mark(deepHash(proof3) == hp, "reopening-differs") + c18Err(err4) + c18Mark(deepHash(proof) == hp, "reopening-changed-earlier-proof")
		cw := make([]koalabear.Element, numCol*rate)
		params.EncodeReedSolomon(input[numRow-1], cw)
		hx := vortex.EvalBasePolyHorner(input[0], x)
		return out + s.out(&cw) + s.out(&hx)
	}
	return s
}

func init() {
	c18Makers["merkle/koalabear"] = c18MerkleMaker
	c18Makers["vortex/koalabear"] = c18VortexMaker
	c18Makers["fft/koalabear"] = c18FFTMaker(c18FFTAPI[koalabear.Element]{
		rnd: func(r *rng) (e koalabear.Element) { e.SetUint64(r.u64()); return },
		newDomain: func(n uint64, kind int, shift koalabear.Element) any {
			switch kind {
			case 0:
				return koalabearfft.NewDomain(n)
			case 1:
				return koalabearfft.NewDomain(n, koalabearfft.WithoutPrecompute())
			}
			return koalabearfft.NewDomain(n, koalabearfft.WithShift(shift))
		},
		transform: func(d any, a []koalabear.Element, inverse, dit, coset bool, nbTasks int) {
			dec := koalabearfft.DIF
			if dit {
				dec = koalabearfft.DIT
			}
			var opts []koalabearfft.Option
			if nbTasks > 0 {
				opts = append(opts, koalabearfft.WithNbTasks(nbTasks))
			}
			if coset {
				opts = append(opts, koalabearfft.OnCoset())
			}
			if inverse {
				d.(*koalabearfft.Domain).FFTInverse(a, dec, opts...)
			} else {
				d.(*koalabearfft.Domain).FFT(a, dec, opts...)
			}
		},
		cosetTables: func(d any) ([]koalabear.Element, error, []koalabear.Element, error) {
			ct, err := d.(*koalabearfft.Domain).CosetTable()
			cti, err1 := d.(*koalabearfft.Domain).CosetTableInv()
			return ct, err, cti, err1
		},
		buildExp: koalabearfft.BuildExpTable,
	})
	c18Makers["fft/babybear"] = c18FFTMaker(c18FFTAPI[babybear.Element]{
		rnd: func(r *rng) (e babybear.Element) { e.SetUint64(r.u64()); return },
		newDomain: func(n uint64, kind int, shift babybear.Element) any {
			switch kind {
			case 0:
				return babybearfft.NewDomain(n)
			case 1:
				return babybearfft.NewDomain(n, babybearfft.WithoutPrecompute())
			}
			return babybearfft.NewDomain(n, babybearfft.WithShift(shift))
		},
		transform: func(d any, a []babybear.Element, inverse, dit, coset bool, nbTasks int) {
			dec := babybearfft.DIF
			if dit {
				dec = babybearfft.DIT
			}
			var opts []babybearfft.Option
			if nbTasks > 0 {
				opts = append(opts, babybearfft.WithNbTasks(nbTasks))
			}
			if coset {
				opts = append(opts, babybearfft.OnCoset())
			}
			if inverse {
				d.(*babybearfft.Domain).FFTInverse(a, dec, opts...)
			} else {
				d.(*babybearfft.Domain).FFT(a, dec, opts...)
			}
		},
		cosetTables: func(d any) ([]babybear.Element, error, []babybear.Element, error) {
			ct, err := d.(*babybearfft.Domain).CosetTable()
			cti, err1 := d.(*babybearfft.Domain).CosetTableInv()
			return ct, err, cti, err1
		},
		buildExp: babybearfft.BuildExpTable,
	})
	c18Makers["fft/goldilocks"] = c18FFTMaker(c18FFTAPI[goldilocks.Element]{
		rnd: func(r *rng) (e goldilocks.Element) { e.SetUint64(r.u64()); return },
		newDomain: func(n uint64, kind int, shift goldilocks.Element) any {
			switch kind {
			case 0:
				return goldilocksfft.NewDomain(n)
			case 1:
				return goldilocksfft.NewDomain(n, goldilocksfft.WithoutPrecompute())
			}
			return goldilocksfft.NewDomain(n, goldilocksfft.WithShift(shift))
		},
		transform: func(d any, a []goldilocks.Element, inverse, dit, coset bool, nbTasks int) {
			dec := goldilocksfft.DIF
			if dit {
				dec = goldilocksfft.DIT
			}
			var opts []goldilocksfft.Option
			if nbTasks > 0 {
				opts = append(opts, goldilocksfft.WithNbTasks(nbTasks))
			}
			if coset {
				opts = append(opts, goldilocksfft.OnCoset())
			}
			if inverse {
				d.(*goldilocksfft.Domain).FFTInverse(a, dec, opts...)
			} else {
				d.(*goldilocksfft.Domain).FFT(a, dec, opts...)
			}
		},
		cosetTables: func(d any) ([]goldilocks.Element, error, []goldilocks.Element, error) {
			ct, err := d.(*goldilocksfft.Domain).CosetTable()
			cti, err1 := d.(*goldilocksfft.Domain).CosetTableInv()
			return ct, err, cti, err1
		},
		buildExp: goldilocksfft.BuildExpTable,
	})

	// bls12-377 is the only curve with an RSis package
	c18Makers["sis/bls12-377"] = c18SisMaker[bls12377fr.Element](bls12377sis.NewRSis,
		func(r *rng) (e bls12377fr.Element) { e.SetBigInt(r.bigBits(300)); return },
		[][2]int{{2, 8}, {3, 16}, {4, 32}, {5, 64}, {6, 16}, {6, 8}})
	c18Makers["sis/koalabear"] = c18SisMaker[koalabear.Element](koalabearsis.NewRSis,
		func(r *rng) (e koalabear.Element) { e.SetUint64(r.u64()); return },
		[][2]int{{2, 8}, {3, 16}, {5, 8}, {6, 16}, {9, 16}, {9, 8}})
	c18Makers["sis/babybear"] = c18SisMaker[babybear.Element](babybearsis.NewRSis,
		func(r *rng) (e babybear.Element) { e.SetUint64(r.u64()); return },
		[][2]int{{2, 8}, {3, 16}, {5, 8}, {6, 16}, {9, 16}, {9, 8}})
	c18Makers["sis/goldilocks"] = c18SisMaker[goldilocks.Element](goldilockssis.NewRSis,
		func(r *rng) (e goldilocks.Element) { e.SetUint64(r.u64()); return },
		[][2]int{{2, 8}, {3, 16}, {4, 32}, {5, 64}, {6, 16}})

	_ = koalabearposeidon2.NewMerkleDamgardHasher // the imports register the hashers
	_ = babybearposeidon2.NewMerkleDamgardHasher
	_ = goldilocksposeidon2.NewMerkleDamgardHasher
	c18Makers["poseidon2/koalabear"] = c18HashMaker(ghash.POSEIDON2_KOALABEAR, koalabear.Bytes,
		func(r *rng) []byte { var e koalabear.Element; e.SetUint64(r.u64()); b := e.Bytes(); return b[:] }, false)
	c18Makers["poseidon2/babybear"] = c18HashMaker(ghash.POSEIDON2_BABYBEAR, babybear.Bytes,
		func(r *rng) []byte { var e babybear.Element; e.SetUint64(r.u64()); b := e.Bytes(); return b[:] }, false)
	c18Makers["poseidon2/goldilocks"] = c18HashMaker(ghash.POSEIDON2_GOLDILOCKS, goldilocks.Bytes,
		func(r *rng) []byte { var e goldilocks.Element; e.SetUint64(r.u64()); b := e.Bytes(); return b[:] }, false)
}

// the fresh-process sessions, by "<global>/<package>". These functions only build closures (no library call): they are
// used during the initialisation of the package-level variables, see c18FreshEarly.
var c18FreshTables = []func() map[string]c18FreshMaker{
	c18FreshTable_bn254, c18FreshTable_bls12_377, c18FreshTable_bls12_381, c18FreshTable_bls24_315, c18FreshTable_bls24_317,
	c18FreshTable_bw6_633, c18FreshTable_bw6_761, c18FreshTableExtra,
}

func c18FreshLookup(global, pkg string) c18FreshMaker {
	for _, f := range c18FreshTables {
		if mk := f()[global+"/"+pkg]; mk != nil {
			return mk
		}
	}
	return nil
}

func c18FreshTableExtra() map[string]c18FreshMaker {
	t := map[string]c18FreshMaker{}
	// ---- `C18 fresh`: lazily initialised globals of the packages outside the per-curve template --------------------
	smallP2 := func(id ghash.Hash, elem func(r *rng) []byte, params func() any, direct func() ghash.StateStorer) c18FreshMaker {
		return func(r *rng) []func() string {
			var msg []byte
			for i := 2 * (1 + r.intn(3)); i > 0; i-- {
				msg = append(msg, elem(r)...)
			}
			return []func() string{
				func() string { h := id.New(); h.Write(msg); return hex.EncodeToString(h.Sum(nil)) },
				func() string { return deepHash(params()) },
				func() string { h := direct(); h.Write(msg); return hex.EncodeToString(h.Sum(nil)) },
			}
		}
	}
	kb := func(r *rng) []byte { var e koalabear.Element; e.SetUint64(r.u64()); b := e.Bytes(); return b[:] }
	bb := func(r *rng) []byte { var e babybear.Element; e.SetUint64(r.u64()); b := e.Bytes(); return b[:] }
	gl := func(r *rng) []byte { var e goldilocks.Element; e.SetUint64(r.u64()); b := e.Bytes(); return b[:] }
	gk := func(r *rng) []byte {
		var e grumpkinfr.Element
		e.SetBigInt(r.bigBits(320))
		b := e.Bytes()
		return b[:]
	}
	t["poseidon2/koalabear"] = smallP2(ghash.POSEIDON2_KOALABEAR, kb, func() any { return koalabearposeidon2.GetDefaultParameters() }, koalabearposeidon2.NewMerkleDamgardHasher)
	t["poseidon2/babybear"] = smallP2(ghash.POSEIDON2_BABYBEAR, bb, func() any { return babybearposeidon2.GetDefaultParameters() }, babybearposeidon2.NewMerkleDamgardHasher)
	t["poseidon2/goldilocks"] = smallP2(ghash.POSEIDON2_GOLDILOCKS, gl, func() any { return goldilocksposeidon2.GetDefaultParameters() }, goldilocksposeidon2.NewMerkleDamgardHasher)
	t["poseidon2/grumpkin"] = smallP2(ghash.POSEIDON2_GRUMPKIN, gk, func() any { return grumpkinposeidon2.GetDefaultParameters() }, grumpkinposeidon2.NewMerkleDamgardHasher)
	t["mimc/grumpkin"] = func(r *rng) []func() string {
		var msg []byte
		for i := 1 + r.intn(3); i > 0; i-- {
			msg = append(msg, gk(r)...)
		}
		return []func() string{
			func() string { h := ghash.MIMC_GRUMPKIN.New(); h.Write(msg); return hex.EncodeToString(h.Sum(nil)) },
			func() string { d, err := grumpkinmimc.Sum(msg); return hex.EncodeToString(d) + c18Err(err) },
			func() string {
				h := grumpkinmimc.NewMiMC()
				h.Write(msg[:grumpkinfr.Bytes])
				return hex.EncodeToString(h.Sum(nil))
			},
			func() string { c := grumpkinmimc.GetConstants(); return deepHash(&c) },
		}
	}
	t["lagrange/grumpkin"] = func(r *rng) []func() string {
		mk := func(n int) func() string {
			v := make([]grumpkinfr.Element, n)
			for i := range v {
				v[i].SetBigInt(r.bigBits(320))
			}
			return func() string {
				p := grumpkinpolynomial.InterpolateOnRange(v)
				h := deepHash(&p)
				for i := range p {
					p[i].SetUint64(0xdead)
				}
				return h
			}
		}
		return []func() string{mk(5), mk(5), mk(2), mk(9), mk(1), mk(5)}
	}
	t["edwards/bandersnatch"] = func(r *rng) []func() string {
		re := func() (e bls12381fr.Element) { e.SetBigInt(r.bigBits(320)); return }
		p1 := bandersnatch.PointAffine{X: re(), Y: re()}
		p2 := bandersnatch.PointAffine{X: re(), Y: re()}
		k := r.bigBits(90)
		kbig := r.bigBits(250) // long enough for the GLV decomposition
		ye := re()
		yb := ye.Bytes()
		return []func() string{
			func() string { p := bandersnatch.GetEdwardsCurve(); return deepHash(&p) },
			func() string {
				var q bandersnatch.PointAffine
				q.Add(&p1, &p2)
				return deepHash(&q) + boolStr(p1.IsOnCurve())
			},
			func() string {
				var q bandersnatch.PointAffine
				q.ScalarMultiplication(&p1, kbig)
				return deepHash(&q)
			},
			func() string {
				var a, b bandersnatch.PointExtended
				a.FromAffine(&p1)
				b.FromAffine(&p2)
				a.Add(&a, &b)
				b.ScalarMultiplication(&b, k)
				return deepHash(&a) + deepHash(&b)
			},
			func() string {
				var a, b bandersnatch.PointProj
				a.FromAffine(&p1)
				b.FromAffine(&p2)
				a.Add(&a, &b)
				b.MixedAdd(&b, &p1)
				b.ScalarMultiplication(&b, kbig)
				return deepHash(&a) + deepHash(&b)
			},
			func() string {
				var q bandersnatch.PointAffine
				_, err := q.SetBytes(yb[:])
				return deepHash(&q) + c18Err(err) + boolStr(q.IsOnCurve())
			},
		}
	}
	return t
}
