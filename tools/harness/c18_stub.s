// empty: lets c18.go declare the body-less go:linkname function
