package main

// C03 — scalar multiplication = repeated addition for every integer scalar.
// Generic part of the harness: op-line format, scalar lattice, executors. The per-group adapters
// (closures over the concrete G1/G2/twisted-Edwards types of every curve package) live in
// c03_groups_gen.go, written once by c03_gen.py from one template (the curve packages share the API).
//
// Lines (every line repeats the curve parameters, the Lean driver is stateless):
//   C03 curve -                      <curve> <grp> <field> <a> <b> <r> <G>        parameters valid: G ∈ E, [r]G = O
//   C03 sm    <aff|jac|jacalias|base|basejac> <curve> <grp> <field> <a> <b> <r> <G> <w> <lam> <e> <P> <s>
//   C03 smx   … same as sm; the Lean side computes the specification value only (no hand model): the must-have scalar classes
//   C03 joint <gen|base>             <curve> <grp> <field> <a> <b> <r> <G> <e1> <P> <e2> <Q> <s1> <s2>
//   C03 jointbig … same as joint, |s| ≥ 2^(64·fr.Limbs) (reproduces the known index panic; kept under its own kind)
//   C03 jointx … same as joint; the Lean side computes the specification value only (scalars far outside [0, r), any size)
//   C03 batch -                      <curve> <grp> <field> <a> <b> <r> <G> <e> <P> <s,s,…|->
//   C03 batchpow -                   <curve> <grp> <field> <a> <b> <r> <G> <e> <P> <N> <α> <β> <i,i,…|->   batch of the N scalars
//                                    s_i = β·α^i mod r; only the entries i of the sample are printed (large batches: every window size)
//   C03 tecurve -                    <curve> <q> <a> <d> <order> <base>           parameters valid: B ∈ E, [order]B = O
//   C03 te    <aff|proj|ext>         <curve> <q> <a> <d> <order> <base> <e> <P> <s>
//   C03 tex   … same as te, specification value only
//   C03 split <r> <lam> <s>          PrecomputeLattice + SplitScalar
//   C03 alias <pat> <sm|smx|joint|jointx|te|tex line>   the same call with receiver / point operands / scalars SHARED as <pat> says
//                                    (c03AliasOK); also checks that operands which are not the receiver are unchanged after the call.
//                                    The model is by value: it answers <line> and ignores <pat> (Props/C03: C03_alias_by_value).
//                                    <pat> = d | dirty | rp | rq | pq | rpq, suffix +st = the two scalars are one *big.Int
// field = fp:<p> | fp2:<p>:<β> | fp4:<p>:<β>:<γ0>,<γ1>; elements = comma separated hex coordinates; points = inf | x;y;
// P = [e]G (e known so that the model computes the expected value in the exponent); scalars signed hex.

import (
	"math/big"
	"sort"
	"strings"

	"github.com/consensys/gnark-crypto/ecc"
)

type c03Group struct {
	curve, grp     string
	field, a, b, g string
	p, r           *big.Int
	limbs          int
	noBaseJac      bool                    // stark-curve: G1Jac has no ScalarMultiplicationBase
	w, lam         string                  // cube root of unity in Fp and matching eigenvalue (φ(G) = [λ]G), "-" when the group has no GLV
	naive          func(e *big.Int) string // [e]G by plain double-and-add on Add/Double only
	sm             func(variant, P string, s *big.Int) string
	joint          func(variant, P, Q string, s1, s2 *big.Int) string
	batch          func(P string, ss []*big.Int) string // nil when the package has none
	// the same entry points with the objects shared as the alias pattern says (op `alias`)
	smA    func(variant, al, P string, s *big.Int) string
	jointA func(variant, al string, st bool, P, Q string, s1, s2 *big.Int) string
}

type c03TE struct {
	curve             string
	q, a, d, order, b string
	n                 *big.Int
	naive             func(e *big.Int) string
	sm                func(variant, P string, s *big.Int) string
	smA               func(variant, al, P string, s *big.Int) string
}

var c03Groups = map[string]*c03Group{}
var c03TEs = map[string]*c03TE{}

func c03Register(g *c03Group) {
	g.w, g.lam = "-", "-"
	c03Groups[g.curve+"/"+g.grp] = g
}

func (g *c03Group) params() string {
	return join([]string{g.curve, g.grp, g.field, g.a, g.b, hexBig(g.r), g.g})
}
func (t *c03TE) params() string {
	return join([]string{t.curve, t.q, t.a, t.d, t.order, t.b})
}

// x-coordinate token times ω (coordinate-wise, ω ∈ Fp)
func c03MulTok(pt string, w, p *big.Int) string {
	xy := strings.Split(pt, ";")
	cs := strings.Split(xy[0], ",")
	for i := range cs {
		v := parseBig(cs[i])
		v.Mul(v, w).Mod(v, p)
		cs[i] = hexBig(v)
	}
	return strings.Join(cs, ",") + ";" + xy[1]
}

// a primitive cube root of unity mod m (m ≡ 1 mod 3), nil otherwise
func c03CubeRoot(m *big.Int) *big.Int {
	e := new(big.Int).Sub(m, big.NewInt(1))
	if new(big.Int).Mod(e, big.NewInt(3)).Sign() != 0 {
		return nil
	}
	e.Div(e, big.NewInt(3))
	for g := int64(2); g < 50; g++ {
		w := new(big.Int).Exp(big.NewInt(g), e, m)
		if w.Cmp(big.NewInt(1)) != 0 {
			return w
		}
	}
	return nil
}

// finds (ω, λ) with (ω·x, y) = [λ]G on the real curve code (Add/Double only); only j = 0 curves qualify
func (g *c03Group) detectGLV() {
	if g.a != "0" && g.a != "0,0" && g.a != "0,0,0,0" {
		return
	}
	w := c03CubeRoot(g.p)
	l := c03CubeRoot(g.r)
	if w == nil || l == nil {
		return
	}
	phiG := c03MulTok(g.g, w, g.p)
	l2 := new(big.Int).Mul(l, l)
	l2.Mod(l2, g.r)
	for _, c := range []*big.Int{l, l2} {
		if g.naive(c) == phiG {
			g.w, g.lam = hexBig(w), hexBig(c)
			return
		}
	}
}

func c03Init() {
	for _, g := range c03Groups {
		g.detectGLV()
	}
}

func c03Keys() (gs, ts []string) {
	for k := range c03Groups {
		gs = append(gs, k)
	}
	for k := range c03TEs {
		ts = append(ts, k)
	}
	sort.Strings(gs)
	sort.Strings(ts)
	return
}

var c03Once bool

func init() {
	executors["C03"] = execC03
	generators["C03"] = genC03
}

func execC03(a []string) string {
	if !c03Once {
		c03Init()
		c03Once = true
	}
	if len(a) == 0 {
		return "bad-op"
	}
	al, st := "", false
	if a[0] == "alias" {
		if len(a) < 2 || !c03AliasOK(a[1], a[2:]) {
			return "bad-op"
		}
		al, st = c03AliasSplit(a[1])
		a = a[2:]
	}
	switch a[0] {
	case "split":
		if len(a) != 4 {
			return "bad-op"
		}
		var l ecc.Lattice
		ecc.PrecomputeLattice(parseBig(a[1]), parseBig(a[2]), &l)
		k := ecc.SplitScalar(parseBig(a[3]), &l)
		return join([]string{hexBig(&l.V1[0]), hexBig(&l.V1[1]), hexBig(&l.V2[0]), hexBig(&l.V2[1]), hexBig(&l.Det), hexBig(&k[0]), hexBig(&k[1])})
	case "tecurve":
		if len(a) != 8 {
			return "bad-op"
		}
		t, ok := c03TEs[a[2]]
		if !ok || join(a[2:8]) != t.params() {
			return "bad-params"
		}
		return "ok"
	case "te", "tex":
		if len(a) != 11 {
			return "bad-op"
		}
		t, ok := c03TEs[a[2]]
		if !ok || join(a[2:8]) != t.params() {
			return "bad-params"
		}
		if t.naive(parseBig(a[8])) != a[9] {
			return "bad-point"
		}
		if al != "" {
			return t.smA(a[1], al, a[9], parseBig(a[10]))
		}
		return t.sm(a[1], a[9], parseBig(a[10]))
	}
	switch a[0] {
	case "curve", "sm", "smx", "joint", "jointbig", "jointx", "batch", "batchpow", "batchwin":
	default:
		return "bad-op"
	}
	if len(a) < 9 {
		return "bad-op"
	}
	g, ok := c03Groups[a[2]+"/"+a[3]]
	if !ok || join(a[2:9]) != g.params() {
		return "bad-params"
	}
	rest := a[9:]
	if a[0] == "curve" {
		if len(rest) != 0 {
			return "bad-op"
		}
		return "ok"
	}
	chk := func(e, P string) bool { return g.naive(parseBig(e)) == P }
	switch a[0] {
	case "sm", "smx":
		if len(rest) != 5 {
			return "bad-op"
		}
		if rest[0] != g.w || rest[1] != g.lam {
			return "bad-params"
		}
		if !chk(rest[2], rest[3]) {
			return "bad-point"
		}
		if strings.HasPrefix(a[1], "base") && rest[2] != "1" {
			return "bad-op"
		}
		if al != "" {
			return g.smA(a[1], al, rest[3], parseBig(rest[4]))
		}
		return g.sm(a[1], rest[3], parseBig(rest[4]))
	case "joint", "jointbig", "jointx":
		if len(rest) != 6 {
			return "bad-op"
		}
		if g.joint == nil {
			return "bad-op"
		}
		if !chk(rest[0], rest[1]) || !chk(rest[2], rest[3]) {
			return "bad-point"
		}
		if a[1] == "base" && rest[0] != "1" {
			return "bad-op"
		}
		if al != "" {
			return g.jointA(a[1], al, st, rest[1], rest[3], parseBig(rest[4]), parseBig(rest[5]))
		}
		return g.joint(a[1], rest[1], rest[3], parseBig(rest[4]), parseBig(rest[5]))
	case "batch":
		if len(rest) != 3 || g.batch == nil {
			return "bad-op"
		}
		if !chk(rest[0], rest[1]) {
			return "bad-point"
		}
		var ss []*big.Int
		if rest[2] != "-" {
			for _, t := range strings.Split(rest[2], ",") {
				v := parseBig(t)
				if v.Sign() < 0 || v.Cmp(g.r) >= 0 {
					return "bad-scalar"
				}
				ss = append(ss, v)
			}
		}
		return g.batch(rest[1], ss)
	case "batchpow":
		return g.batchPow(rest)
	case "batchwin":
		return g.batchWin(rest)
	}
	return "bad-op"
}

// ---- aliasing patterns (mirror of Model/ScalarMul.lean aliasSplit / aliasOK: purely syntactic) ----------------------------

func c03AliasSplit(pat string) (string, bool) {
	for _, p := range []string{"d", "dirty", "rp", "rq", "pq", "rpq"} {
		if pat == p+"+st" {
			return p, true
		}
	}
	return pat, false
}

func c03In(x string, l ...string) bool {
	for _, y := range l {
		if x == y {
			return true
		}
	}
	return false
}

func c03AliasOK(pat string, line []string) bool {
	pp, st := c03AliasSplit(pat)
	if len(line) < 2 {
		return false
	}
	op, v, rest := line[0], line[1], line[2:]
	switch op {
	case "sm", "smx":
		return !st && ((c03In(v, "aff", "jac") && c03In(pp, "d", "dirty", "rp")) || (c03In(v, "base", "basejac") && c03In(pp, "d", "dirty")))
	case "te", "tex":
		return !st && c03In(v, "aff", "proj", "ext") && c03In(pp, "d", "dirty", "rp")
	case "joint", "jointx":
		if len(rest) != 13 {
			return false
		}
		r := rest[7:]
		if st && r[4] != r[5] {
			return false
		}
		if v == "gen" {
			return c03In(pp, "d", "dirty", "rp", "rq") || (c03In(pp, "pq", "rpq") && r[0] == r[2] && r[1] == r[3])
		}
		return v == "base" && c03In(pp, "d", "dirty")
	}
	return false
}

// ---- generation ----------------------------------------------------------------------------------------------

func bigPow2(k int) *big.Int { return new(big.Int).Lsh(big.NewInt(1), uint(k)) }

// boundary lattice of integer scalars for a group of order r (n bits, fr has `limbs` 64-bit words)
func c03Scalars(rg *rng, r, lam *big.Int, limbs int, nrand int, huge bool) []*big.Int {
	n := r.BitLen()
	one := big.NewInt(1)
	var out []*big.Int
	add := func(v *big.Int) { out = append(out, new(big.Int).Set(v)) }
	pm := func(v *big.Int) { add(v); add(new(big.Int).Neg(v)) }
	for _, v := range []int64{0, 1, 2, 3, 4, 5, 15, 16, 255, 256} {
		pm(big.NewInt(v))
	}
	for _, m := range []int64{1, 2, 3} {
		mr := new(big.Int).Mul(r, big.NewInt(m))
		pm(new(big.Int).Sub(mr, one))
		pm(mr)
		pm(new(big.Int).Add(mr, one))
	}
	ks := []int{8, 31, 32, 63, 64, 65, 127, 128, 129, n / 2, n/2 + 1, n - 1, n, n + 1, 64*limbs - 1, 64 * limbs}
	if huge {
		ks = append(ks, 64*limbs+1, 64*limbs+63, 64*limbs+64, 2*n, 3*n+5, 1000, 3001)
	}
	for _, k := range ks {
		p := bigPow2(k)
		pm(p)
		pm(new(big.Int).Sub(p, one))
	}
	// scalars built from chosen half-length sub-scalars (negative / maximal-length halves), both eigenvalues
	if lam != nil {
		h := (n + 1) / 2
		halves := []*big.Int{new(big.Int).Sub(bigPow2(h), one), bigPow2(h), new(big.Int).Sub(bigPow2(h+1), one), bigPow2(h - 1), big.NewInt(1), big.NewInt(0)}
		l2 := new(big.Int).Mul(lam, lam)
		l2.Mod(l2, r)
		for i, k1 := range halves {
			for j, k2 := range halves {
				if (i+j)%2 == 1 && i > 1 && j > 1 {
					continue
				}
				for _, sg := range [][2]int64{{1, -1}, {-1, 1}, {-1, -1}} {
					for _, l := range []*big.Int{lam, l2} {
						a := new(big.Int).Mul(k1, big.NewInt(sg[0]))
						b := new(big.Int).Mul(k2, big.NewInt(sg[1]))
						s := new(big.Int).Mul(b, l)
						s.Add(s, a).Mod(s, r)
						if rg.intn(4) == 0 {
							add(s)
						}
					}
				}
			}
		}
	}
	bits := []int{n / 2, n - 1, n, n + 1, 64 * limbs}
	if huge {
		bits = append(bits, 64*limbs+7, 2*n, 4*n+3)
	}
	for i := 0; i < nrand; i++ {
		v := rg.bigBits(bits[i%len(bits)])
		if rg.coin() {
			v.Neg(v)
		}
		add(v)
	}
	return out
}

func genC03(g *gen) {
	c03Init()
	c03Once = true
	gs, ts := c03Keys()
	one := big.NewInt(1)
	// lattice precomputation + split on random (r, λ) of several sizes and on the real (r, λ)
	for i := 0; i < g.budget(24, 400); i++ {
		bits := []int{8, 16, 33, 64, 127, 254, 255, 377}[i%8]
		r := g.rng.bigBits(bits)
		r.SetBit(r, bits-1, 1).SetBit(r, 0, 1)
		lam := g.rng.bigBelow(r)
		if i%16 != 15 { // mostly the intended domain gcd(r, λ) = 1; the rest may hit the division by zero after the loop
			for lam.Sign() == 0 || new(big.Int).GCD(nil, nil, r, lam).Cmp(one) != 0 {
				lam = g.rng.bigBelow(r)
			}
		} else if lam.Sign() == 0 {
			lam.SetInt64(1)
		}
		s := g.rng.bigBits([]int{bits, bits - 1, 2 * bits, 5}[i%4])
		if g.rng.coin() {
			s.Neg(s)
		}
		g.emit("C03 split %s %s %s", hexBig(r), hexBig(lam), hexBig(s))
	}
	// groups that get a sampled formula batch in the quick tier (1: mid-size window, 2: large batch on a cheap G1)
	quickBP := map[string]int{}
	{
		var withBatch, cheap []string
		for _, k := range gs {
			if gr := c03Groups[k]; gr.batch != nil {
				withBatch = append(withBatch, k)
				if strings.HasPrefix(gr.field, "fp:") && gr.p.BitLen() <= 384 {
					cheap = append(cheap, k)
				}
			}
		}
		for _, k := range c03Shuffle(g.rng, withBatch)[:4] {
			quickBP[k] = 1
		}
		quickBP[cheap[g.rng.intn(len(cheap))]] = 2
	}
	for _, k := range gs {
		gr := c03Groups[k]
		var lam *big.Int
		if gr.lam != "-" {
			lam = parseBig(gr.lam)
			for _, s := range c03Scalars(g.rng, gr.r, lam, gr.limbs, 2, true)[:g.budget(4, 60)] {
				g.emit("C03 split %s %s %s", hexBig(gr.r), gr.lam, hexBig(s))
			}
		}
		// points: O, G, −G, random
		type pt struct{ e, tok string }
		mk := func(e *big.Int) pt { return pt{hexBig(e), gr.naive(e)} }
		pts := []pt{mk(big.NewInt(0)), mk(one), mk(new(big.Int).Sub(gr.r, one))}
		for i := 0; i < g.budget(1, 3); i++ {
			pts = append(pts, mk(g.rng.bigBelow(gr.r)))
		}
		g.emit("C03 curve - %s", gr.params())
		scal := c03Scalars(g.rng, gr.r, lam, gr.limbs, g.budget(4, 40), true)
		type smLine struct {
			v string
			P pt
			s *big.Int
		}
		var all []smLine
		for _, s := range scal {
			for pi, P := range pts {
				for _, v := range []string{"aff", "jac", "jacalias", "base", "basejac"} {
					if v == "basejac" && gr.noBaseJac {
						continue
					}
					if v[:2] == "ba" {
						if pi != 1 {
							continue
						}
					}
					all = append(all, smLine{v, P, s})
				}
			}
		}
		n := gr.r.BitLen()
		rp1 := new(big.Int).Add(gr.r, one)
		prand := pts[3]
		must := []smLine{
			{"aff", prand, new(big.Int).Neg(g.rng.bigBits(n))},
			{"jac", pts[1], bigPow2(64 * gr.limbs)},
			{"aff", prand, g.rng.bigBits(3001)},
			{"base", pts[1], new(big.Int).Neg(new(big.Int).Add(rp1, gr.r))},
			{"jacalias", pts[0], new(big.Int).Sub(gr.r, one)},
			{"jac", prand, new(big.Int)},
		}
		if !gr.noBaseJac {
			must = append(must, smLine{"basejac", pts[1], new(big.Int).Neg(g.rng.bigBits(n + 1))})
		}
		// relative cost of one model-side scalar multiplication in this group
		deg := map[string]float64{"fp": 1, "fp2": 2, "fp4": 4}[strings.Split(gr.field, ":")[0]]
		cost := float64(gr.p.BitLen()) / 256 * float64(gr.p.BitLen()) / 256 * deg * deg
		if !g.thorough() && cost > 4 {
			must = must[:4]
		}
		cls0 := len(must) // must[cls0:cls1] = the class lines: mostly `smx` (specification value only on the Lean side)
		variants := []string{"aff", "jac", "jacalias", "base", "basejac"}
		if gr.noBaseJac {
			variants = variants[:4]
		}
		ptFor := func(v string, i int) pt { // base variants need G; the others alternate G / random point (thorough)
			if v[:2] == "ba" || !g.thorough() || i%3 != 0 {
				return pts[1]
			}
			return prand
		}
		// class (a): word-sparse scalars, every entry point: one with zero low words and one with a zero interior word
		// (thorough: all of them), mixed signs
		low, inter := c03Sparse(g.rng, gr.limbs+1)
		low, inter = c03Shuffle(g.rng, low), c03Shuffle(g.rng, inter)
		for vi, v := range variants {
			if g.thorough() {
				for i, s := range append(append([]*big.Int(nil), low...), inter...) {
					if (i+vi)%len(variants) < 3 { // every scalar through three of the entry points
						must = append(must, smLine{v, ptFor(v, i+vi), g.rng.signed(s)})
					}
				}
				continue
			}
			a, b := low[vi%len(low)], inter[vi%len(inter)]
			if vi%2 == 0 {
				a = new(big.Int).Neg(a)
			} else {
				b = new(big.Int).Neg(b)
			}
			must = append(must, smLine{v, pts[1], a}, smLine{v, pts[1], b})
		}
		// class (b): GLV-unbalanced scalars for both eigenvalues (the package uses one of them), both directions,
		// presented as s, s − r or s + r; inverses of small integers
		if lam != nil {
			l2 := new(big.Int).Mul(lam, lam)
			l2.Mod(l2, gr.r)
			present := func(s *big.Int) *big.Int {
				switch g.rng.intn(3) {
				case 0:
					return new(big.Int).Sub(s, gr.r)
				case 1:
					return new(big.Int).Add(s, gr.r)
				}
				return s
			}
			vi := g.rng.intn(len(variants))
			for _, l := range []*big.Int{lam, l2} {
				lo, hi := c03Unbalanced(g.rng, gr.r, l)
				for _, cls := range [][]c03Unb{lo, hi} {
					nq := g.budget(2, 8)
					if !g.thorough() && cost > 4 {
						nq = 1
					}
					for i, u := range c03PickUnb(g.rng, cls, nq) {
						v := variants[vi%len(variants)]
						vi++
						must = append(must, smLine{v, ptFor(v, i), present(u.s)})
					}
				}
			}
			invs := c03SmallInverses(gr.r)
			if !g.thorough() {
				invs = append(invs[:1:1], c03Shuffle(g.rng, invs[1:])[:2]...)
			}
			for i, s := range invs {
				v := variants[vi%len(variants)]
				vi++
				must = append(must, smLine{v, ptFor(v, i), present(s)})
				if g.thorough() && i%2 == 0 {
					must = append(must, smLine{v, ptFor(v, i+1), new(big.Int).Sub(gr.r, s)})
				}
			}
		}
		cls1 := len(must)
		nr := int(float64(g.budget(2, 160)) / cost)
		if nr < g.budget(1, 24) {
			nr = g.budget(1, 24)
		}
		for i := 0; i < nr; i++ {
			must = append(must, all[g.rng.intn(len(all))])
		}
		for i, l := range must {
			op := "sm"
			if i >= cls0 && i < cls1 && (i-cls0)%g.budget(16, 12) != 0 {
				op = "smx"
			}
			g.emit("C03 %s %s %s %s %s %s %s %s", op, l.v, gr.params(), gr.w, gr.lam, l.P.e, l.P.tok, hexBig(l.s))
		}
		// class (d): scalars far outside [0, r) through every entry point: both signs, three zones of bit length (c03FarBits).
		// cheap shape ±(k·r + t) under `smx` (short specification value), one full-length shape per entry point
		zones := c03FarBits(n, gr.limbs)
		zl := [][]int{zones.A, zones.B, zones.C}
		psmall := mk(big.NewInt(int64(2 + g.rng.intn(254))))
		{
			emitFar := func(op, v string, P pt, s *big.Int) {
				g.emit("C03 %s %s %s %s %s %s %s %s", op, v, gr.params(), gr.w, gr.lam, P.e, P.tok, hexBig(s))
			}
			flip := g.rng.intn(2)
			cnt := 0
			for vi, v := range variants {
				base := v[:2] == "ba"
				for zi, z := range zl {
					type ts struct {
						T   int
						neg bool
					}
					var l []ts
					if g.thorough() {
						for _, T := range z {
							l = append(l, ts{T, true}, ts{T, false})
						}
					} else {
						l = []ts{{z[g.rng.intn(len(z))], true}, {z[g.rng.intn(len(z))], false}}
					}
					for _, x := range l {
						P := pts[1]
						if !base && zi == 1 {
							P = psmall
						}
						if !base && g.thorough() && cnt%19 == 3 {
							P = prand
						}
						op := "smx"
						if (!g.thorough() && vi == 0 && zi == 0 && x.neg) || (g.thorough() && cnt%24 == 5 && x.T <= 128*gr.limbs+1) {
							op = "sm" // the hand model of the entry point on a far scalar
						}
						emitFar(op, v, P, c03FarCheap(g.rng, gr.r, x.T, x.neg))
						cnt++
					}
				}
				// full-length residues
				if g.thorough() {
					for i, T := range append(append(append([]int(nil), zones.A...), zones.B...), zones.C...) {
						if (i+vi)%len(variants) == 0 { // every length once, the entry point rotates
							emitFar("smx", v, ptFor(v, i+vi), c03FarCostly(g.rng, T, g.rng.intn(4), g.rng.coin()))
						}
					}
				} else if cost <= 4 || vi == 0 || vi == 1 || vi == 3 { // expensive groups: aff, jac, base only
					z := zl[1+(vi+flip)%2]
					emitFar("smx", v, pts[1], c03FarCostly(g.rng, z[g.rng.intn(len(z))], g.rng.intn(4), (vi+flip)%2 == 0))
				}
			}
			// [s]O = O for a far negative scalar
			emitFar("smx", "jac", pts[0], c03FarCheap(g.rng, gr.r, zones.C[g.rng.intn(len(zones.C))], true))
		}
		// joint: pairs of lattice scalars; scalars ≥ 2^(64·limbs) go under `jointbig`
		lim := bigPow2(64 * gr.limbs)
		nj := g.budget(2, 60)
		if gr.joint == nil {
			nj = 0
		}
		// joint must-have lines: the two scalars occupy different numbers of 64-bit words (both directions, incl. 0),
		// word-sparse scalars; all below 2^(64·limbs)
		if gr.joint != nil {
			type jl struct {
				v      string
				s1, s2 *big.Int
			}
			var js []jl
			inLim := func(l []*big.Int) (o []*big.Int) {
				for _, s := range l {
					if s.Cmp(lim) < 0 {
						o = append(o, s)
					}
				}
				return
			}
			lowJ, interJ := inLim(low), inLim(inter)
			full := func() *big.Int { return g.rng.bigExact(n - g.rng.intn(2)) }
			if g.thorough() {
				for w1 := 0; w1 <= gr.limbs; w1++ {
					for w2 := 0; w2 <= gr.limbs; w2++ {
						if w1 == w2 && w1 != gr.limbs {
							continue
						}
						mk := func(w int) *big.Int {
							if w == 0 {
								return new(big.Int)
							}
							return g.rng.bigExact(64*(w-1) + 1 + g.rng.intn(64))
						}
						js = append(js, jl{[]string{"gen", "base"}[(w1+w2)%2], g.rng.signed(mk(w1)), g.rng.signed(mk(w2))})
					}
				}
				for i, s := range append(append([]*big.Int(nil), lowJ...), interJ...) {
					o := append(append([]*big.Int(nil), interJ...), lowJ...)[i]
					if i%2 == 0 {
						js = append(js, jl{"gen", g.rng.signed(s), g.rng.signed(full())})
					} else {
						js = append(js, jl{"base", g.rng.signed(o), g.rng.signed(s)})
					}
				}
			} else {
				js = []jl{
					{"gen", g.rng.signed(g.rng.word()), g.rng.signed(full())},
					{"base", g.rng.signed(full()), g.rng.signed(g.rng.word())},
					{"gen", g.rng.signed(lowJ[0]), g.rng.signed(interJ[0])},
					{"base", g.rng.signed(interJ[len(interJ)-1]), g.rng.signed(lowJ[len(lowJ)-1])},
				}
				if cost <= 4 {
					js = append(js, jl{"gen", new(big.Int), g.rng.signed(lowJ[1%len(lowJ)])}, jl{"base", g.rng.signed(g.rng.bigExact(65 + g.rng.intn(63))), new(big.Int)})
				}
			}
			for i, l := range js {
				// quick: P = Q = G except on the first line (the model side pays one scalar multiplication per random point)
				P, Q := pts[1], pts[1]
				if i%2 == 0 && (g.thorough() || i == 0) {
					Q = prand
				} else if l.v == "gen" && g.thorough() {
					P = prand
				}
				g.emit("C03 joint %s %s %s %s %s %s %s %s", l.v, gr.params(), P.e, P.tok, Q.e, Q.tok, hexBig(l.s1), hexBig(l.s2))
			}
		}
		// joint, class (d): the sign and the size of the two scalars vary independently: {far, far}, {far, in range}, {in range, far}
		// × four sign patterns, both entry points; in-range scalars with a short residue (t, r − t); far ones ±(k·r + t)
		if gr.joint != nil {
			inr := func(neg bool) *big.Int {
				t := big.NewInt(int64(g.rng.intn(1 << 16)))
				if g.rng.intn(3) == 0 {
					t.Sub(gr.r, t)
				}
				if neg {
					t.Neg(t)
				}
				return t
			}
			nJ := 0
			emitJ := func(v string, P, Q pt, s1, s2 *big.Int) {
				// mostly `jointx` (specification value only); one line in six also runs the hand model of the Straus-Shamir loop
				kind := "jointx"
				if nJ%6 == 2 {
					kind = "joint"
					if new(big.Int).Abs(s1).Cmp(lim) >= 0 || new(big.Int).Abs(s2).Cmp(lim) >= 0 {
						kind = "jointbig"
					}
				}
				nJ++
				g.emit("C03 %s %s %s %s %s %s %s %s %s", kind, v, gr.params(), P.e, P.tok, Q.e, Q.tok, hexBig(s1), hexBig(s2))
			}
			var allT []int
			for _, z := range zl {
				allT = append(allT, z...)
			}
			cnt := g.rng.intn(3)
			one := func(T1, T2 int, sg, shape int) {
				n1, n2 := sg&1 == 1, sg&2 == 2
				var s1, s2 *big.Int
				if shape != 2 {
					s1 = c03FarCheap(g.rng, gr.r, T1, n1)
				} else {
					s1 = inr(n1)
				}
				if shape != 1 {
					s2 = c03FarCheap(g.rng, gr.r, T2, n2)
				} else {
					s2 = inr(n2)
				}
				v, P, Q := "gen", pts[1], pts[1]
				if cnt%2 == 1 {
					v = "base"
				} else if cnt%4 == 2 {
					P = psmall
				}
				if cnt%3 == 0 {
					Q = psmall
				}
				cnt++
				emitJ(v, P, Q, s1, s2)
			}
			if g.thorough() {
				for i, T := range allT {
					for sg := 0; sg < 4; sg++ {
						one(T, allT[g.rng.intn(len(allT))], sg, (i+sg)%3)
					}
				}
			} else {
				for shape := 0; shape < 3; shape++ {
					for sg := 0; sg < 4; sg++ {
						z1, z2 := zl[(shape+sg)%3], zl[(shape+sg+1+g.rng.intn(2))%3]
						one(z1[g.rng.intn(len(z1))], z2[g.rng.intn(len(z2))], sg, shape)
					}
				}
			}
			// full-length residues, independent signs
			for i := 0; i < g.budget(2, 16); i++ {
				zf := zl[1+i%2]
				far := c03FarCostly(g.rng, zf[g.rng.intn(len(zf))], g.rng.intn(4), g.rng.coin())
				in := g.rng.signed(g.rng.bigExact(n - g.rng.intn(2)))
				if i%4 == 3 {
					in = c03FarCostly(g.rng, allT[g.rng.intn(len(allT))], g.rng.intn(4), g.rng.coin())
				}
				if i%2 == 0 {
					emitJ("gen", pts[1], pts[1], far, in)
				} else {
					emitJ("base", pts[1], pts[1], in, far)
				}
			}
		}
		// class (e): ALIASING. Every entry point again with every sharing pattern between receiver, point operands and scalars
		// that its signature permits (`alias <pat>`; the adapters degrade a pattern the types exclude to "receiver holds the
		// operand's value"), and with a receiver that holds another point before the call. Scalars: full-length in the eyes of
		// the Go code (±(r − t), t < 2^16: short specification value), on cheap groups also random of the order's length.
		{
			asc := func() *big.Int {
				if cost <= 4 && g.rng.intn(3) == 0 {
					return g.rng.signed(g.rng.bigExact(n - g.rng.intn(2)))
				}
				t := big.NewInt(int64(1 + g.rng.intn(1<<16)))
				if g.rng.intn(5) == 0 {
					return g.rng.signed(t)
				}
				return g.rng.signed(t.Sub(gr.r, t))
			}
			reps := g.budget(1, 4)
			for rep := 0; rep < reps; rep++ {
				for _, v := range variants {
					if v == "jacalias" { // = alias rp … jac
						continue
					}
					pats := []string{"dirty"}
					if v[:2] != "ba" {
						pats = append(pats, "rp")
					}
					if g.thorough() || g.rng.intn(4) == 0 {
						pats = append(pats, "d")
					}
					for _, pat := range pats {
						P := pts[1]
						if v[:2] != "ba" {
							switch g.rng.intn(6) {
							case 0:
								P = pts[0]
							case 1, 2, 3:
								P = psmall
							}
						}
						g.emit("C03 alias %s smx %s %s %s %s %s %s %s", pat, v, gr.params(), gr.w, gr.lam, P.e, P.tok, hexBig(asc()))
					}
				}
				if gr.joint == nil {
					continue
				}
				for _, jv := range []string{"gen", "base"} {
					pats := []string{"dirty", "rp", "rq", "pq", "rpq", "d"}
					if jv == "base" {
						pats = []string{"dirty", "d"}
					}
					stAt := g.rng.intn(2)
					for pi, pat := range pats {
						st := pat == "d" || (g.thorough() && rep%2 == 1) || pi%2 == stAt
						P, Q := psmall, pts[1]
						if g.rng.coin() {
							P, Q = Q, P
						}
						if jv == "base" {
							P = pts[1]
						}
						if pat == "pq" || pat == "rpq" {
							Q = P
						}
						s1, s2 := asc(), asc()
						if st {
							s2 = s1
							pat += "+st"
						}
						g.emit("C03 alias %s jointx %s %s %s %s %s %s %s %s", pat, jv, gr.params(), P.e, P.tok, Q.e, Q.tok, hexBig(s1), hexBig(s2))
					}
				}
			}
		}
		for i := 0; i < nj; i++ {
			s1 := scal[g.rng.intn(len(scal))]
			s2 := scal[g.rng.intn(len(scal))]
			P := pts[g.rng.intn(len(pts))]
			Q := pts[g.rng.intn(len(pts))]
			v := "gen"
			if i%3 == 2 {
				v = "base"
				P = pts[1]
			}
			kind := "joint"
			if new(big.Int).Abs(s1).Cmp(lim) >= 0 || new(big.Int).Abs(s2).Cmp(lim) >= 0 {
				kind = "jointbig"
			}
			g.emit("C03 %s %s %s %s %s %s %s %s %s", kind, v, gr.params(), P.e, P.tok, Q.e, Q.tok, hexBig(s1), hexBig(s2))
		}
		// batch: every length 0..L, reduced scalars from the lattice
		if gr.batch != nil {
			var red []*big.Int
			for _, s := range scal {
				red = append(red, new(big.Int).Mod(s, gr.r))
			}
			lens := []int{0, 2}
			if g.thorough() {
				lens = []int{0, 1, 2, 3, 7, 20, 100}
				if k == "bn254/g1" {
					lens = append(lens, 1000)
				}
			}
			// formula batches on both sides of every change of the window size (thorough), a sample of the entries checked
			if g.thorough() {
				bits := uint64(gr.r.BitLen())
				var sizes []int
				for i, N := range c03BatchSizes(bits, 1<<16) {
					// below / at each change; where both windows need a table of ≥ 2^12 entries only the upper side
					if i%2 == 0 && c03BestC(bits, uint64(N)) >= 13 {
						continue
					}
					sizes = append(sizes, N)
				}
				// beyond every change of the window size of the cost model extended to c = 17 (24577 for 253-bit orders)
				sizes = append(sizes, 3<<13+1+g.rng.intn(1<<13))
				for si, N := range sizes {
					if N < 8 {
						continue
					}
					P := pts[1]
					if si%4 == 3 {
						P = prand
					}
					idx := []string{"0", hexBig(big.NewInt(int64(N - 1)))}
					for i := 0; i < 3; i++ {
						idx = append(idx, hexBig(big.NewInt(int64(g.rng.intn(N)))))
					}
					alpha, beta := g.rng.bigBelow(gr.r), g.rng.bigBelow(gr.r)
					if si%5 == 4 {
						beta = new(big.Int).Sub(gr.r, one)
					}
					g.emit("C03 batchpow - %s %s %s %s %s %s %s", gr.params(), P.e, P.tok, hexBig(big.NewInt(int64(N))), hexBig(alpha), hexBig(beta), strings.Join(idx, ","))
				}
				g.emit("C03 batchpow - %s %s %s 9 1 %s 0,8", gr.params(), pts[1].e, pts[1].tok, hexBig(new(big.Int).Sub(gr.r, one)))
				g.emit("C03 batchpow - %s %s %s 9 0 5 0,1,8", gr.params(), pts[1].e, pts[1].tok)
				g.emit("C03 batchpow - %s %s %s 0 2 3 -", gr.params(), pts[1].e, pts[1].tok)
			}
			// quick: four groups per run get one formula batch at a window-size change with a table of ≤ 2^12 entries, and one
			// cheap G1 group gets a batch beyond the c = 17 threshold
			if !g.thorough() {
				bits := uint64(gr.r.BitLen())
				emitBP := func(N, ns int) {
					idx := []string{"0", hexBig(big.NewInt(int64(N - 1)))}
					for i := 0; i < ns; i++ {
						idx = append(idx, hexBig(big.NewInt(int64(g.rng.intn(N)))))
					}
					g.emit("C03 batchpow - %s %s %s %s %s %s %s", gr.params(), pts[1].e, pts[1].tok, hexBig(big.NewInt(int64(N))),
						hexBig(g.rng.bigBelow(gr.r)), hexBig(g.rng.bigBelow(gr.r)), strings.Join(idx, ","))
				}
				if quickBP[k] == 1 {
					var cand []int
					for _, N := range c03BatchSizes(bits, 1<<16) {
						if c := c03BestC(bits, uint64(N)); N >= 8 && c <= 13 {
							cand = append(cand, N)
						}
					}
					emitBP(cand[g.rng.intn(len(cand))], 1)
				}
				if quickBP[k] == 2 {
					emitBP(3<<13+1+g.rng.intn(1<<13), 2)
				}
			}
			// window-boundary batches: for EVERY window size the cost model can select for this scalar size (in particular the
			// sizes that divide it: no smaller last window), a batch of a length that selects it, scalars given by their windows of
			// that width (boundary values in every window, carry into the top window, top window up to that of r − 1); answers
			// for a run of consecutive entries (9: every top value, carry and no carry alternating; 18 where the window size divides
			// the scalar size: every top value × carry / no carry; thorough 54: × the six values of the window below) + first + last
			{
				bits := uint64(gr.r.BitLen())
				max, extra, nm := 1<<13, 0, 2
				if g.thorough() {
					max, extra, nm = 1<<16, 4, 8
				}
				for ri, rg := range c03WindowRanges(bits, max) {
					lo, hi, c := rg[0], rg[1], rg[2]
					run := 9
					if bits%uint64(c) == 0 {
						run = 18
					}
					if g.thorough() {
						run = 54
					}
					Ns := []int{lo + g.rng.intn(min(hi-lo, 255)+1)}
					if g.thorough() {
						Ns = []int{lo, lo + g.rng.intn(hi-lo+1)}
						if hi < max {
							Ns = append(Ns, hi)
						}
					}
					for ni, N := range Ns {
						P := pts[1]
						switch (ri + ni) % 4 {
						case 1:
							P = prand
						case 3:
							P = pts[2]
						}
						if ri == 2 && ni == 0 {
							P = pts[0]
						}
						var idx []string
						add := func(i int) { idx = append(idx, hexBig(big.NewInt(int64(i)))) }
						if N <= run+2 {
							for i := 0; i < N; i++ {
								add(i)
							}
						} else {
							b := g.rng.intn(N - run + 1)
							for i := 0; i < run; i++ {
								add(b + i)
							}
							add(0)
							add(N - 1)
							for i := 0; i < extra; i++ {
								add(g.rng.intn(N))
							}
						}
						is := "-"
						if len(idx) > 0 {
							is = strings.Join(idx, ",")
						}
						g.emit("C03 batchwin - %s %s %s %s %s %s %s %s", gr.params(), P.e, P.tok, hexBig(big.NewInt(int64(N))),
							hexBig(big.NewInt(int64(c))), hexBig(new(big.Int).SetUint64(g.rng.u64())), hexBig(big.NewInt(int64(nm))), is)
					}
				}
			}
			for li, L := range lens {
				P := pts[(li+1)%len(pts)]
				var toks []string
				for i := 0; i < L; i++ {
					toks = append(toks, hexBig(red[g.rng.intn(len(red))]))
				}
				ss := "-"
				if L > 0 {
					ss = strings.Join(toks, ",")
				}
				g.emit("C03 batch - %s %s %s %s", gr.params(), P.e, P.tok, ss)
			}
		}
	}
	for _, k := range ts {
		t := c03TEs[k]
		type pt struct{ e, tok string }
		mk := func(e *big.Int) pt { return pt{hexBig(e), t.naive(e)} }
		pts := []pt{mk(big.NewInt(0)), mk(one), mk(g.rng.bigBelow(t.n))}
		limbs := (t.n.BitLen() + 63) / 64
		scal := c03Scalars(g.rng, t.n, nil, limbs, g.budget(4, 40), true)
		type teLine struct {
			v string
			P pt
			s *big.Int
		}
		var all []teLine
		for _, s := range scal {
			for _, P := range pts {
				for _, v := range []string{"aff", "proj", "ext"} {
					all = append(all, teLine{v, P, s})
				}
			}
		}
		n := t.n.BitLen()
		must := []teLine{
			{"aff", pts[2], new(big.Int).Neg(g.rng.bigBits(n))},
			{"proj", pts[1], new(big.Int).Add(t.n, one)},
			{"ext", pts[2], g.rng.bigBits(g.budget(1100, 3001))},
			{"ext", pts[0], big.NewInt(5)},
		}
		for i := 0; i < g.budget(1, 100); i++ {
			must = append(must, all[g.rng.intn(len(all))])
		}
		cls0 := len(must)
		// class (a) for the three coordinate systems; scalars of up to limbs+1 words
		low, inter := c03Sparse(g.rng, limbs+2)
		low, inter = c03Shuffle(g.rng, low), c03Shuffle(g.rng, inter)
		for vi, v := range []string{"aff", "proj", "ext"} {
			if g.thorough() {
				for i, s := range append(append([]*big.Int(nil), low...), inter...) {
					must = append(must, teLine{v, pts[1+(i+vi)%2], g.rng.signed(s)})
				}
				continue
			}
			a, b := low[vi%len(low)], inter[vi%len(inter)]
			c := low[(vi+3)%len(low)]
			if vi%2 == 0 {
				a = new(big.Int).Neg(a)
			} else {
				b = new(big.Int).Neg(b)
			}
			must = append(must, teLine{v, pts[1], a}, teLine{v, pts[1], b}, teLine{v, pts[2], c})
		}
		// class (b) where the package has an endomorphism (bandersnatch: λ² = −2 mod order)
		if k == "bandersnatch" {
			m2 := new(big.Int).Sub(t.n, big.NewInt(2))
			if l := new(big.Int).ModSqrt(m2, t.n); l != nil {
				vs := []string{"aff", "proj", "ext"}
				vi := 0
				for _, l := range []*big.Int{l, new(big.Int).Sub(t.n, l)} {
					lo, hi := c03Unbalanced(g.rng, t.n, l)
					for _, cls := range [][]c03Unb{lo, hi} {
						for _, u := range c03PickUnb(g.rng, cls, g.budget(2, 12)) {
							must = append(must, teLine{vs[vi%3], pts[1+vi%2], u.s})
							vi++
						}
					}
				}
				for _, s := range c03SmallInverses(t.n)[:g.budget(2, 8)] {
					must = append(must, teLine{vs[vi%3], pts[1], s})
					vi++
				}
			}
		}
		g.emit("C03 tecurve - %s", t.params())
		for i, l := range must {
			op := "te"
			if i >= cls0 && (i-cls0)%g.budget(8, 3) != 0 {
				op = "tex"
			}
			g.emit("C03 %s %s %s %s %s %s", op, l.v, t.params(), l.P.e, l.P.tok, hexBig(l.s))
		}
		// class (d): scalars far outside [0, order), three coordinate systems, both signs
		{
			zones := c03FarBits(n, limbs)
			zl := [][]int{zones.A, zones.B, zones.C}
			psmall := mk(big.NewInt(int64(2 + g.rng.intn(254))))
			emitFar := func(op, v string, P pt, s *big.Int) {
				g.emit("C03 %s %s %s %s %s %s", op, v, t.params(), P.e, P.tok, hexBig(s))
			}
			flip := g.rng.intn(2)
			cnt := 0
			for vi, v := range []string{"aff", "proj", "ext"} {
				for zi, z := range zl {
					type ts struct {
						T   int
						neg bool
					}
					var l []ts
					if g.thorough() {
						for _, T := range z {
							l = append(l, ts{T, true}, ts{T, false})
						}
					} else {
						l = []ts{{z[g.rng.intn(len(z))], true}, {z[g.rng.intn(len(z))], false}}
					}
					for _, x := range l {
						P := pts[1]
						if zi == 1 {
							P = psmall
						}
						if g.thorough() && cnt%19 == 3 {
							P = pts[2]
						}
						op := "tex"
						if (!g.thorough() && vi == 0 && zi == 0 && x.neg) || (g.thorough() && cnt%24 == 5 && x.T <= 128*limbs+1) {
							op = "te"
						}
						emitFar(op, v, P, c03FarCheap(g.rng, t.n, x.T, x.neg))
						cnt++
					}
				}
				if g.thorough() {
					for i, T := range append(append(append([]int(nil), zones.A...), zones.B...), zones.C...) {
						if (i+vi)%3 == 0 { // every length once, the coordinate system rotates
							emitFar("tex", v, pts[1+(i/3)%2], c03FarCostly(g.rng, T, g.rng.intn(4), g.rng.coin()))
						}
					}
				} else {
					z := zl[1+(vi+flip)%2]
					emitFar("tex", v, pts[1], c03FarCostly(g.rng, z[g.rng.intn(len(z))], g.rng.intn(4), (vi+flip)%2 == 0))
				}
			}
			emitFar("tex", "ext", pts[0], c03FarCheap(g.rng, t.n, zones.C[g.rng.intn(len(zones.C))], true))
		}
		// class (e): aliasing (receiver = operand, receiver holding another point) for the three coordinate systems
		{
			psmall := mk(big.NewInt(int64(2 + g.rng.intn(254))))
			for rep := 0; rep < g.budget(1, 4); rep++ {
				for _, v := range []string{"aff", "proj", "ext"} {
					pats := []string{"dirty", "rp"}
					if g.thorough() || g.rng.intn(3) == 0 {
						pats = append(pats, "d")
					}
					for _, pat := range pats {
						P := []pt{pts[1], psmall, psmall, pts[0]}[g.rng.intn(4)]
						tt := big.NewInt(int64(1 + g.rng.intn(1<<16)))
						sc := g.rng.signed(new(big.Int).Sub(t.n, tt))
						switch g.rng.intn(4) {
						case 0:
							sc = g.rng.signed(tt)
						case 1:
							sc = g.rng.signed(g.rng.bigExact(n - g.rng.intn(2)))
						}
						g.emit("C03 alias %s tex %s %s %s %s %s", pat, v, t.params(), P.e, P.tok, hexBig(sc))
					}
				}
			}
		}
	}
	// malformed stream: both sides must classify alike
	if gr, ok := c03Groups["bn254/g1"]; ok {
		G := gr.naive(one)
		P5 := gr.naive(big.NewInt(5))
		g.emit("C03 sm aff %s %s %s 4 %s 7", gr.params(), gr.w, gr.lam, P5)          // P ≠ [e]G
		g.emit("C03 sm zzz %s %s %s 5 %s 7", gr.params(), gr.w, gr.lam, P5)          // unknown variant
		g.emit("C03 sm base %s %s %s 5 %s 7", gr.params(), gr.w, gr.lam, P5)         // base variant with P ≠ G
		g.emit("C03 sm aff %s %s %s 5 %s", gr.params(), gr.w, gr.lam, P5)            // arity
		g.emit("C03 frob aff %s %s %s 5 %s 7", gr.params(), gr.w, gr.lam, P5)        // unknown op
		g.emit("C03 joint base %s 5 %s 1 %s 2 3", gr.params(), P5, G)                // base variant with P ≠ G
		g.emit("C03 joint gen %s 5 %s 2 %s 2 3", gr.params(), P5, G)                 // Q ≠ [e2]G
		g.emit("C03 batch - %s 5 %s 1,%s", gr.params(), P5, hexBig(gr.r))            // scalar not reduced
		g.emit("C03 batch - %s 5 %s", gr.params(), P5)                               // arity
		if gr.batch != nil {
			g.emit("C03 batchwin - %s 5 %s 9 1 7 2 0", gr.params(), P5)   // window width out of 2..16
			g.emit("C03 batchwin - %s 5 %s 9 8 7 2 9", gr.params(), P5)   // sampled index beyond the batch
			g.emit("C03 batchwin - %s 4 %s 9 8 7 2 0", gr.params(), P5)   // P ≠ [e]G
			g.emit("C03 batchwin - %s 5 %s 9 8 7 2", gr.params(), P5)     // arity
			g.emit("C03 batchwin - %s 5 %s 9 8 7 9 0,8", gr.params(), P5) // more hand-model entries asked than sampled
		}
		g.emit("C03 sm aff %s %s %s 5 inf 7", gr.params(), gr.w, gr.lam)             // P = O but e = 5
		g.emit("C03 alias rq sm aff %s %s %s 5 %s 7", gr.params(), gr.w, gr.lam, P5) // pattern the op does not admit
		g.emit("C03 alias zz sm aff %s %s %s 5 %s 7", gr.params(), gr.w, gr.lam, P5) // unknown pattern
		g.emit("C03 alias rp sm base %s %s %s 1 %s 7", gr.params(), gr.w, gr.lam, G) // no point operand to share
		g.emit("C03 alias pq joint gen %s 5 %s 1 %s 2 3", gr.params(), P5, G)        // one object, two values
		g.emit("C03 alias d+st joint gen %s 5 %s 1 %s 2 3", gr.params(), P5, G)      // one scalar object, two values
		g.emit("C03 alias rp joint base %s 1 %s 5 %s 2 3", gr.params(), G, P5)       // base variant: receiver cannot be the fixed base
		g.emit("C03 alias rp jointbig gen %s 5 %s 1 %s 2 3", gr.params(), P5, G)     // op kind without alias form
		g.emit("C03 alias d batch - %s 5 %s 1,2", gr.params(), P5)                   // no result object to share
		g.emit("C03 alias rp sm aff %s %s %s 4 %s 7", gr.params(), gr.w, gr.lam, P5) // admissible pattern, P ≠ [e]G
		g.emit("C03 alias rp")
		g.emit("C03 alias")
	}
	if t, ok := c03TEs["bn254"]; ok {
		g.emit("C03 te aff %s 2 %s 3", t.params(), t.naive(big.NewInt(3)))
		g.emit("C03 te zzz %s 3 %s 3", t.params(), t.naive(big.NewInt(3)))
		g.emit("C03 te aff %s 3 %s", t.params(), t.naive(big.NewInt(3)))
	}
	g.emit("C03 split 7 2")
	g.emit("C03")
}
