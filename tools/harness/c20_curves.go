// Code written by c20_curves.sh from c20_curves.tmpl; DO NOT EDIT
package main

import (
	"bytes"
	"fmt"
	"io"
	"math/big"
	"math/bits"
	"reflect"
	"strconv"
	"strings"

	fr_bn254 "github.com/consensys/gnark-crypto/ecc/bn254/fr"
	fft_bn254 "github.com/consensys/gnark-crypto/ecc/bn254/fr/fft"
	iop_bn254 "github.com/consensys/gnark-crypto/ecc/bn254/fr/iop"
	poly_bn254 "github.com/consensys/gnark-crypto/ecc/bn254/fr/polynomial"
	fr_bls12377 "github.com/consensys/gnark-crypto/ecc/bls12-377/fr"
	fft_bls12377 "github.com/consensys/gnark-crypto/ecc/bls12-377/fr/fft"
	iop_bls12377 "github.com/consensys/gnark-crypto/ecc/bls12-377/fr/iop"
	poly_bls12377 "github.com/consensys/gnark-crypto/ecc/bls12-377/fr/polynomial"
	fr_bls12381 "github.com/consensys/gnark-crypto/ecc/bls12-381/fr"
	fft_bls12381 "github.com/consensys/gnark-crypto/ecc/bls12-381/fr/fft"
	iop_bls12381 "github.com/consensys/gnark-crypto/ecc/bls12-381/fr/iop"
	poly_bls12381 "github.com/consensys/gnark-crypto/ecc/bls12-381/fr/polynomial"
	fr_bls24315 "github.com/consensys/gnark-crypto/ecc/bls24-315/fr"
	fft_bls24315 "github.com/consensys/gnark-crypto/ecc/bls24-315/fr/fft"
	iop_bls24315 "github.com/consensys/gnark-crypto/ecc/bls24-315/fr/iop"
	poly_bls24315 "github.com/consensys/gnark-crypto/ecc/bls24-315/fr/polynomial"
	fr_bls24317 "github.com/consensys/gnark-crypto/ecc/bls24-317/fr"
	fft_bls24317 "github.com/consensys/gnark-crypto/ecc/bls24-317/fr/fft"
	iop_bls24317 "github.com/consensys/gnark-crypto/ecc/bls24-317/fr/iop"
	poly_bls24317 "github.com/consensys/gnark-crypto/ecc/bls24-317/fr/polynomial"
	fr_bw6633 "github.com/consensys/gnark-crypto/ecc/bw6-633/fr"
	fft_bw6633 "github.com/consensys/gnark-crypto/ecc/bw6-633/fr/fft"
	iop_bw6633 "github.com/consensys/gnark-crypto/ecc/bw6-633/fr/iop"
	poly_bw6633 "github.com/consensys/gnark-crypto/ecc/bw6-633/fr/polynomial"
	fr_bw6761 "github.com/consensys/gnark-crypto/ecc/bw6-761/fr"
	fft_bw6761 "github.com/consensys/gnark-crypto/ecc/bw6-761/fr/fft"
	iop_bw6761 "github.com/consensys/gnark-crypto/ecc/bw6-761/fr/iop"
	poly_bw6761 "github.com/consensys/gnark-crypto/ecc/bw6-761/fr/polynomial"
)

// ---------------------------------------------------------------- bn254

type c20_bn254 struct {
	doms map[int]*fft_bn254.Domain
	pool *poly_bn254.Pool // lives as long as the process (mleval mode 2)
}

func init() { c20register(&c20_bn254{doms: map[int]*fft_bn254.Domain{}}) }

func (c *c20_bn254) Name() string { return "bn254" }
func (c *c20_bn254) Q() *big.Int  { return fr_bn254.Modulus() }
func (c *c20_bn254) NBytes() int  { return fr_bn254.Bytes }
func (c *c20_bn254) Gen(m uint64) *big.Int {
	g, err := fft_bn254.Generator(m)
	if err != nil {
		panic(err)
	}
	return g.BigInt(new(big.Int))
}
func (c *c20_bn254) MulGen() *big.Int {
	g := fft_bn254.GeneratorFullMultiplicativeGroup()
	return g.BigInt(new(big.Int))
}
func (c *c20_bn254) dom(m int) *fft_bn254.Domain {
	c20mu.Lock()
	defer c20mu.Unlock()
	d, ok := c.doms[m]
	if !ok {
		d = fft_bn254.NewDomain(uint64(1) << m)
		c.doms[m] = d
	}
	return d
}
func (c *c20_bn254) el(s string) (e fr_bn254.Element) {
	e.SetBigInt(parseBig(s))
	return
}
func (c *c20_bn254) hex(e fr_bn254.Element) string { return hexBig(e.BigInt(new(big.Int))) }
func (c *c20_bn254) vec(s string) []fr_bn254.Element {
	if s == "-" {
		return []fr_bn254.Element{}
	}
	w := strings.Split(s, ",")
	v := make([]fr_bn254.Element, len(w))
	for i := range w {
		v[i] = c.el(w[i])
	}
	return v
}
func (c *c20_bn254) show(v []fr_bn254.Element) string {
	if len(v) == 0 {
		return "-"
	}
	w := make([]string, len(v))
	for i := range v {
		w[i] = c.hex(v[i])
	}
	return strings.Join(w, ",")
}
func (c *c20_bn254) form(s string) (iop_bn254.Form, bool) {
	var f iop_bn254.Form
	if len(s) != 2 {
		return f, false
	}
	switch s[0] {
	case 'c':
		f.Basis = iop_bn254.Canonical
	case 'l':
		f.Basis = iop_bn254.Lagrange
	case 'k':
		f.Basis = iop_bn254.LagrangeCoset
	default:
		return f, false
	}
	switch s[1] {
	case 'r':
		f.Layout = iop_bn254.Regular
	case 'b':
		f.Layout = iop_bn254.BitReverse
	default:
		return f, false
	}
	return f, true
}
func (c *c20_bn254) showForm(b iop_bn254.Basis, l iop_bn254.Layout) string {
	s := "?"
	switch b {
	case iop_bn254.Canonical:
		s = "c"
	case iop_bn254.Lagrange:
		s = "l"
	case iop_bn254.LagrangeCoset:
		s = "k"
	}
	switch l {
	case iop_bn254.Regular:
		return s + "r"
	case iop_bn254.BitReverse:
		return s + "b"
	}
	return s + "?"
}
func (c *c20_bn254) shiftOf(p *iop_bn254.Polynomial) int64 {
	return reflect.ValueOf(p).Elem().FieldByName("shift").Int()
}
func (c *c20_bn254) dump(p *iop_bn254.Polynomial) string {
	return c.showForm(p.Basis, p.Layout) + "/" + c20int(c.shiftOf(p)) + "/" + strconv.FormatInt(int64(p.Size()), 16) + "/" + c.show(p.Coefficients())
}
func (c *c20_bn254) newPoly(form, coeffs string) (*iop_bn254.Polynomial, bool) {
	return c.newPolyDirty(form, coeffs, 0)
}

// the polynomial is built over a prefix view of a buffer that holds `dirty` more, non-zero, entries behind the view
// (a chunk h[:n] of a larger vector, a truncated vector): spare capacity with old data
func (c *c20_bn254) newPolyDirty(form, coeffs string, dirty int) (*iop_bn254.Polynomial, bool) {
	f, ok := c.form(form)
	if !ok {
		return nil, false
	}
	v := c.vec(coeffs)
	if dirty > 0 {
		buf := make([]fr_bn254.Element, len(v)+dirty)
		copy(buf, v)
		for i := len(v); i < len(buf); i++ {
			buf[i].SetUint64(uint64(0xd1d100 + i))
		}
		v = buf[:len(v)]
	}
	return iop_bn254.NewPolynomial(&v, f), true
}

// runs a script on p; observations are appended to out
func (c *c20_bn254) script(p *iop_bn254.Polynomial, script string) (*iop_bn254.Polynomial, []string, bool) {
	return c.scriptD(p, script, c.dom)
}

// the same with the domains supplied by the caller (domains with a caller-chosen coset shift)
func (c *c20_bn254) scriptD(p *iop_bn254.Polynomial, script string, dom func(int) *fft_bn254.Domain) (*iop_bn254.Polynomial, []string, bool) {
	out := []string{}
	if script == "-" {
		return p, out, true
	}
	var alt *iop_bn254.Polynomial // second object of the script (N, H, x, r)
	shifted := map[string]*fft_bn254.Domain{}
	baseDom := dom
	guard := func(f func() string) (res string) {
		defer func() {
			if r := recover(); r != nil {
				res = "panic"
			}
		}()
		return f()
	}
	for _, tok := range strings.Split(script, ",") {
		if tok == "" {
			return p, out, false
		}
		rest := tok[1:]
		arg, tasks := rest, []int{}
		if i := strings.IndexByte(rest, '/'); i >= 0 {
			arg = rest[:i]
			t, _ := strconv.ParseInt(rest[i+1:], 16, 32)
			tasks = []int{int(t)}
		}
		switch tok[0] {
		case 'L', 'C', 'K':
			m, err := strconv.ParseInt(arg, 16, 32)
			if err != nil || m > 20 {
				return p, out, false
			}
			d := dom(int(m))
			switch tok[0] {
			case 'L':
				p = p.ToLagrange(d, tasks...)
			case 'C':
				p = p.ToCanonical(d, tasks...)
			case 'K':
				p = p.ToLagrangeCoset(d)
			}
		case 'R':
			p = p.ToRegular()
		case 'B':
			p = p.ToBitReverse()
		case 'S':
			p = p.Shift(int(c20parseInt(rest)))
		case 'Z':
			z, _ := strconv.ParseInt(rest, 16, 64)
			p.SetSize(int(z))
		case 'H':
			alt = p.ShallowClone()
		case 'N':
			// N<form>:<c0>.<c1>.…[+k]: a new object becomes current, the previous one becomes the second object
			w := strings.SplitN(rest, ":", 2)
			if len(w) != 2 {
				return p, out, false
			}
			dirty := int64(0)
			if i := strings.IndexByte(w[1], '+'); i >= 0 {
				dirty, _ = strconv.ParseInt(w[1][i+1:], 16, 32)
				w[1] = w[1][:i]
			}
			np, ok := c.newPolyDirty(w[0], strings.ReplaceAll(w[1], ".", ","), int(dirty))
			if !ok {
				return p, out, false
			}
			alt, p = p, np
		case 'x':
			if alt == nil {
				return p, out, false
			}
			alt, p = p, alt
		case 'd':
			// the following conversions use domains with this coset shift (fft.WithShift)
			s := parseBig(rest)
			if s.Sign() == 0 || s.Cmp(c.Q()) >= 0 {
				return p, out, false
			}
			if s.Cmp(c.MulGen()) == 0 {
				dom = baseDom
			} else {
				sh := c.el(rest)
				dom = func(m int) *fft_bn254.Domain {
					k := rest + "/" + strconv.Itoa(m)
					d, ok := shifted[k]
					if !ok {
						d = fft_bn254.NewDomain(uint64(1)<<m, fft_bn254.WithShift(sh))
						shifted[k] = d
					}
					return d
				}
			}
		case 'r':
			// p.ReadFrom(bytes of the second object): the receiver has a past
			if alt == nil {
				return p, out, false
			}
			var buf bytes.Buffer
			if _, err := alt.WriteTo(&buf); err != nil {
				return p, out, false
			}
			total := buf.Len()
			n, err := p.ReadFrom(&buf)
			if err != nil || int(n) != total {
				return p, out, false
			}
		case 'c':
			if rest == "" {
				p = p.Clone()
			} else {
				z, _ := strconv.ParseInt(rest, 16, 32)
				p = p.Clone(int(z))
			}
		case 'h':
			p = p.ShallowClone()
		case 'w':
			var buf bytes.Buffer
			n, err := p.WriteTo(&buf)
			if err != nil || int(n) != buf.Len() {
				return p, out, false
			}
			total := buf.Len()
			q := new(iop_bn254.Polynomial)
			n, err = q.ReadFrom(&buf)
			if err != nil || int(n) != total {
				return p, out, false
			}
			p = q
		case 'W':
			var buf bytes.Buffer
			if _, err := p.WriteTo(&buf); err != nil {
				return p, out, false
			}
			out = append(out, hexBytes(buf.Bytes()))
		case 'E':
			x := c.el(rest)
			out = append(out, guard(func() string { return c.hex(p.Evaluate(x)) }))
		case 'G':
			out = append(out, guard(func() string {
				n := len(p.Coefficients())
				v := make([]fr_bn254.Element, n)
				for i := 0; i < n; i++ {
					v[i] = p.GetCoeff(i)
				}
				return c.show(v)
			}))
		case 'g':
			i, _ := strconv.ParseInt(rest, 16, 64)
			out = append(out, guard(func() string { return c.hex(p.GetCoeff(int(i))) }))
		case 'F':
			out = append(out, c.dump(p))
		default:
			return p, out, false
		}
	}
	return p, out, true
}

func (c *c20_bn254) Script(form, coeffs, script string) string {
	dirty := int64(0)
	if strings.HasPrefix(script, "D") {
		// D<k> as the first token: the initial object lives in a buffer with k dirty entries behind it
		first := script
		if i := strings.IndexByte(script, ','); i >= 0 {
			first, script = script[:i], script[i+1:]
		} else {
			script = "-"
		}
		var err error
		dirty, err = strconv.ParseInt(first[1:], 16, 32)
		if err != nil || dirty < 0 || dirty > 1<<12 {
			return "bad-op"
		}
	}
	p, ok := c.newPolyDirty(form, coeffs, int(dirty))
	if !ok {
		return "bad-op"
	}
	_, out, ok := c.script(p, script)
	if !ok {
		return "bad-op"
	}
	if len(out) == 0 {
		return "-"
	}
	return strings.Join(out, " ")
}

func (c *c20_bn254) polys(k int, a []string) ([]*iop_bn254.Polynomial, []string, bool) {
	ps := make([]*iop_bn254.Polynomial, 0, k)
	for i := 0; i < k; i++ {
		if len(a) < 4 {
			return nil, nil, false
		}
		p, ok := c.newPoly(a[0], a[1])
		if !ok {
			return nil, nil, false
		}
		p.Shift(int(c20parseInt(a[2])))
		z, _ := strconv.ParseInt(a[3], 16, 64)
		p.SetSize(int(z))
		ps = append(ps, p)
		a = a[4:]
	}
	return ps, a, true
}

func (c *c20_bn254) Expr(resform, rmode string, eid, k int, rest []string) string {
	f, ok := c.form(resform)
	if !ok {
		return "bad-op"
	}
	ps, rest, ok := c.polys(k, rest)
	if !ok || len(rest) != 0 {
		return "bad-op"
	}
	var r []fr_bn254.Element
	if rmode != "nil" {
		n, _ := strconv.ParseInt(rmode, 16, 32)
		r = make([]fr_bn254.Element, n)
	}
	get := func(x []fr_bn254.Element, j int) (e fr_bn254.Element) {
		if j < len(x) {
			e = x[j]
		}
		return
	}
	expr := func(i int, x ...fr_bn254.Element) fr_bn254.Element {
		a, b, cc := get(x, 0), get(x, 1), get(x, 2)
		var res, t fr_bn254.Element
		switch eid {
		case 0:
			res.Mul(&a, &b).Add(&res, &cc)
		case 1:
			t.SetUint64(uint64(i))
			res.Add(&a, &t)
		case 2:
			res.Mul(&a, &a)
			t.Mul(&b, &cc)
			res.Sub(&res, &t)
			t.SetUint64(uint64(i * i))
			res.Add(&res, &t)
		default:
			for j := range x {
				res.Add(&res, &x[j])
			}
		}
		return res
	}
	// iop.Evaluate calls x[j].GetCoeff(i) inside parallel.Execute goroutines: a panic there cannot be recovered and
	// kills the process. Probe the same calls here first, so that such a line answers "panic" instead.
	if len(ps) > 0 {
		consistent := true
		for _, p := range ps {
			if len(p.Coefficients()) != len(ps[0].Coefficients()) {
				consistent = false
			}
		}
		if consistent && (r == nil || len(r) == len(ps[0].Coefficients())) {
			crashed := func() (c bool) {
				defer func() {
					if recover() != nil {
						c = true
					}
				}()
				for _, p := range ps {
					for i := range p.Coefficients() {
						p.GetCoeff(i)
					}
				}
				return false
			}()
			if crashed {
				return "panic"
			}
		}
	}
	res, err := iop_bn254.Evaluate(expr, r, f, ps...)
	if err != nil {
		if err == iop_bn254.ErrInconsistentSize {
			return "err:size"
		}
		return "err:noinput"
	}
	return c.dump(res)
}

func (c *c20_bn254) DivX(m0, m1 int, form, coeffs, script string) string {
	p, ok := c.newPoly(form, coeffs)
	if !ok {
		return "bad-op"
	}
	p, _, ok = c.script(p, script)
	if !ok {
		return "bad-op"
	}
	res, err := iop_bn254.DivideByXMinusOne(p, [2]*fft_bn254.Domain{c.dom(m0), c.dom(m1)})
	if err != nil {
		return "err:basis"
	}
	return c.dump(res)
}

// DivideByXMinusOne on domains whose coset shift is `shift` (fft.WithShift). shapeOnly: the line lies outside the domain
// where the division is defined (shift^|big| = 1): only "no panic, no error, shape of the result" is reported.
func (c *c20_bn254) DivXS(m0, m1 int, shift, form, coeffs, script string, shapeOnly bool) string {
	p, ok := c.newPoly(form, coeffs)
	if !ok {
		return "bad-op"
	}
	s := c.el(shift)
	doms := map[int]*fft_bn254.Domain{}
	dom := func(m int) *fft_bn254.Domain {
		d, ok := doms[m]
		if !ok {
			d = fft_bn254.NewDomain(uint64(1)<<m, fft_bn254.WithShift(s))
			doms[m] = d
		}
		return d
	}
	p, _, ok = c.scriptD(p, script, dom)
	if !ok {
		return "bad-op"
	}
	res, err := iop_bn254.DivideByXMinusOne(p, [2]*fft_bn254.Domain{dom(m0), dom(m1)})
	if err != nil {
		return "err:basis"
	}
	if shapeOnly {
		return "undef " + c.showForm(res.Basis, res.Layout) + "/" + c20int(c.shiftOf(res)) + "/" + strconv.FormatInt(int64(res.Size()), 16) +
			"/" + strconv.FormatInt(int64(len(res.Coefficients())), 16)
	}
	return c.dump(res)
}

func (c *c20_bn254) ratioErr(err error) string {
	switch err {
	case iop_bn254.ErrInconsistentSize:
		return "err:size"
	case iop_bn254.ErrSizeNotPowerOfTwo:
		return "err:pow2"
	case iop_bn254.ErrInconsistentSizeDomain:
		return "err:domain"
	case iop_bn254.ErrNumberPolynomials:
		return "err:number"
	}
	return "err:other"
}

func (c *c20_bn254) ratioOut(res *iop_bn254.Polynomial, xs string) string {
	s := c.dump(res)
	if xs != "-" {
		s += " " + c.hex(res.Evaluate(c.el(xs)))
	}
	return s
}

func (c *c20_bn254) RatioS(resform, beta, xs string, k int, rest []string) string {
	f, ok := c.form(resform)
	if !ok {
		return "bad-op"
	}
	ps, rest, ok := c.polys(2*k, rest)
	if !ok || len(rest) != 0 {
		return "bad-op"
	}
	var d *fft_bn254.Domain
	if n := len(ps[0].Coefficients()); n > 0 && n&(n-1) == 0 {
		d = c.dom(bits.TrailingZeros(uint(n)))
	}
	res, err := iop_bn254.BuildRatioShuffledVectors(ps[:k], ps[k:], c.el(beta), f, d)
	if err != nil {
		return c.ratioErr(err)
	}
	return c.ratioOut(res, xs)
}

func (c *c20_bn254) RatioC(resform, beta, gamma, perms, xs string, k int, rest []string) string {
	f, ok := c.form(resform)
	if !ok {
		return "bad-op"
	}
	ps, rest, ok := c.polys(k, rest)
	if !ok || len(rest) != 0 {
		return "bad-op"
	}
	w := strings.Split(perms, ",")
	perm := make([]int64, len(w))
	for i := range w {
		perm[i], _ = strconv.ParseInt(w[i], 16, 64)
	}
	var d *fft_bn254.Domain
	if n := len(ps[0].Coefficients()); n > 0 && n&(n-1) == 0 {
		d = c.dom(bits.TrailingZeros(uint(n)))
	}
	res, err := iop_bn254.BuildRatioCopyConstraint(ps, perm, c.el(beta), c.el(gamma), f, d)
	if err != nil {
		return c.ratioErr(err)
	}
	return c.ratioOut(res, xs)
}

func (c *c20_bn254) Read(data []byte) string {
	p := new(iop_bn254.Polynomial)
	_, err := p.ReadFrom(bytes.NewReader(data))
	if err != nil {
		if err == io.EOF || err == io.ErrUnexpectedEOF {
			return "err:eof"
		}
		return "err:range"
	}
	return fmt.Sprintf("ok %x %x %s %x %s", uint32(p.Basis), uint32(p.Layout), c20int(c.shiftOf(p)), p.Size(), c.show(p.Coefficients()))
}

// package polynomial
func (c *c20_bn254) Poly(op string, a []string) string {
	switch op {
	case "peval":
		p := poly_bn254.Polynomial(c.vec(a[0]))
		x := c.el(a[1])
		return c.hex(p.Eval(&x))
	case "interp":
		res := poly_bn254.InterpolateOnRange(c.vec(a[0]))
		s := c.show(res)
		// the returned polynomial belongs to the caller: overwriting it must not influence later calls
		for i := range res {
			res[i].SetUint64(uint64(0xdead00 + i))
		}
		return s
	case "padd", "psub":
		mode := a[0]
		p := poly_bn254.Polynomial(c.vec(a[1]))
		p1 := poly_bn254.Polynomial(c.vec(a[2]))
		p2 := poly_bn254.Polynomial(c.vec(a[3]))
		switch mode {
		case "a1":
			p = p1
		case "a2":
			p = p2
		case "a12":
			p2 = p1
			p = p1
		}
		if op == "padd" {
			r := p.Add(p1, p2)
			if r != &p {
				return "wrong-return"
			}
			return c.show(p)
		}
		if r := p.Sub(p1, p2); r == nil {
			return "nil"
		}
		return c.show(p)
	case "pscale":
		mode := a[0]
		cc := c.el(a[1])
		p0 := poly_bn254.Polynomial(c.vec(a[2]))
		var p poly_bn254.Polynomial
		switch mode {
		case "same":
			p = make(poly_bn254.Polynomial, len(p0))
			for i := range p {
				p[i].SetUint64(uint64(7 + i))
			}
		case "alias":
			p = p0
		}
		p.Scale(&cc, p0)
		return c.show(p)
	case "pconst":
		cc := c.el(a[1])
		p := poly_bn254.Polynomial(c.vec(a[2]))
		switch a[0] {
		case "add":
			p.AddConstantInPlace(&cc)
		case "sub":
			p.SubConstantInPlace(&cc)
		case "scale":
			p.ScaleInPlace(&cc)
		default:
			return "bad-op"
		}
		return c.show(p)
	case "mlfold":
		m := poly_bn254.MultiLin(c.vec(a[0]))
		m.Fold(c.el(a[1]))
		return c.show(m)
	case "mleval":
		m := poly_bn254.MultiLin(c.vec(a[1]))
		keep := append([]fr_bn254.Element{}, m...)
		var res fr_bn254.Element
		if a[0] == "1" {
			pool := poly_bn254.NewPool(8, 256)
			res = m.Evaluate(c.vec(a[2]), &pool)
		} else if a[0] == "2" {
			c20mu.Lock()
			if c.pool == nil {
				pool := poly_bn254.NewPool(8, 256)
				c.pool = &pool
			}
			pool := c.pool
			c20mu.Unlock()
			res = m.Evaluate(c.vec(a[2]), pool)
		} else {
			res = m.Evaluate(c.vec(a[2]), nil)
		}
		for i := range m {
			if !m[i].Equal(&keep[i]) {
				return "input-modified"
			}
		}
		return c.hex(res)
	case "mleq":
		m := poly_bn254.MultiLin(c.vec(a[0]))
		m.Eq(c.vec(a[1]))
		return c.show(m)
	case "evaleq":
		return c.hex(poly_bn254.EvalEq(c.vec(a[0]), c.vec(a[1])))
	case "mlsum":
		m := poly_bn254.MultiLin(c.vec(a[0]))
		return c.hex(m.Sum())
	}
	return "bad-op"
}

// ---------------------------------------------------------------- bls12-377

type c20_bls12377 struct {
	doms map[int]*fft_bls12377.Domain
	pool *poly_bls12377.Pool // lives as long as the process (mleval mode 2)
}

func init() { c20register(&c20_bls12377{doms: map[int]*fft_bls12377.Domain{}}) }

func (c *c20_bls12377) Name() string { return "bls12-377" }
func (c *c20_bls12377) Q() *big.Int  { return fr_bls12377.Modulus() }
func (c *c20_bls12377) NBytes() int  { return fr_bls12377.Bytes }
func (c *c20_bls12377) Gen(m uint64) *big.Int {
	g, err := fft_bls12377.Generator(m)
	if err != nil {
		panic(err)
	}
	return g.BigInt(new(big.Int))
}
func (c *c20_bls12377) MulGen() *big.Int {
	g := fft_bls12377.GeneratorFullMultiplicativeGroup()
	return g.BigInt(new(big.Int))
}
func (c *c20_bls12377) dom(m int) *fft_bls12377.Domain {
	c20mu.Lock()
	defer c20mu.Unlock()
	d, ok := c.doms[m]
	if !ok {
		d = fft_bls12377.NewDomain(uint64(1) << m)
		c.doms[m] = d
	}
	return d
}
func (c *c20_bls12377) el(s string) (e fr_bls12377.Element) {
	e.SetBigInt(parseBig(s))
	return
}
func (c *c20_bls12377) hex(e fr_bls12377.Element) string { return hexBig(e.BigInt(new(big.Int))) }
func (c *c20_bls12377) vec(s string) []fr_bls12377.Element {
	if s == "-" {
		return []fr_bls12377.Element{}
	}
	w := strings.Split(s, ",")
	v := make([]fr_bls12377.Element, len(w))
	for i := range w {
		v[i] = c.el(w[i])
	}
	return v
}
func (c *c20_bls12377) show(v []fr_bls12377.Element) string {
	if len(v) == 0 {
		return "-"
	}
	w := make([]string, len(v))
	for i := range v {
		w[i] = c.hex(v[i])
	}
	return strings.Join(w, ",")
}
func (c *c20_bls12377) form(s string) (iop_bls12377.Form, bool) {
	var f iop_bls12377.Form
	if len(s) != 2 {
		return f, false
	}
	switch s[0] {
	case 'c':
		f.Basis = iop_bls12377.Canonical
	case 'l':
		f.Basis = iop_bls12377.Lagrange
	case 'k':
		f.Basis = iop_bls12377.LagrangeCoset
	default:
		return f, false
	}
	switch s[1] {
	case 'r':
		f.Layout = iop_bls12377.Regular
	case 'b':
		f.Layout = iop_bls12377.BitReverse
	default:
		return f, false
	}
	return f, true
}
func (c *c20_bls12377) showForm(b iop_bls12377.Basis, l iop_bls12377.Layout) string {
	s := "?"
	switch b {
	case iop_bls12377.Canonical:
		s = "c"
	case iop_bls12377.Lagrange:
		s = "l"
	case iop_bls12377.LagrangeCoset:
		s = "k"
	}
	switch l {
	case iop_bls12377.Regular:
		return s + "r"
	case iop_bls12377.BitReverse:
		return s + "b"
	}
	return s + "?"
}
func (c *c20_bls12377) shiftOf(p *iop_bls12377.Polynomial) int64 {
	return reflect.ValueOf(p).Elem().FieldByName("shift").Int()
}
func (c *c20_bls12377) dump(p *iop_bls12377.Polynomial) string {
	return c.showForm(p.Basis, p.Layout) + "/" + c20int(c.shiftOf(p)) + "/" + strconv.FormatInt(int64(p.Size()), 16) + "/" + c.show(p.Coefficients())
}
func (c *c20_bls12377) newPoly(form, coeffs string) (*iop_bls12377.Polynomial, bool) {
	return c.newPolyDirty(form, coeffs, 0)
}

// the polynomial is built over a prefix view of a buffer that holds `dirty` more, non-zero, entries behind the view
// (a chunk h[:n] of a larger vector, a truncated vector): spare capacity with old data
func (c *c20_bls12377) newPolyDirty(form, coeffs string, dirty int) (*iop_bls12377.Polynomial, bool) {
	f, ok := c.form(form)
	if !ok {
		return nil, false
	}
	v := c.vec(coeffs)
	if dirty > 0 {
		buf := make([]fr_bls12377.Element, len(v)+dirty)
		copy(buf, v)
		for i := len(v); i < len(buf); i++ {
			buf[i].SetUint64(uint64(0xd1d100 + i))
		}
		v = buf[:len(v)]
	}
	return iop_bls12377.NewPolynomial(&v, f), true
}

// runs a script on p; observations are appended to out
func (c *c20_bls12377) script(p *iop_bls12377.Polynomial, script string) (*iop_bls12377.Polynomial, []string, bool) {
	return c.scriptD(p, script, c.dom)
}

// the same with the domains supplied by the caller (domains with a caller-chosen coset shift)
func (c *c20_bls12377) scriptD(p *iop_bls12377.Polynomial, script string, dom func(int) *fft_bls12377.Domain) (*iop_bls12377.Polynomial, []string, bool) {
	out := []string{}
	if script == "-" {
		return p, out, true
	}
	var alt *iop_bls12377.Polynomial // second object of the script (N, H, x, r)
	shifted := map[string]*fft_bls12377.Domain{}
	baseDom := dom
	guard := func(f func() string) (res string) {
		defer func() {
			if r := recover(); r != nil {
				res = "panic"
			}
		}()
		return f()
	}
	for _, tok := range strings.Split(script, ",") {
		if tok == "" {
			return p, out, false
		}
		rest := tok[1:]
		arg, tasks := rest, []int{}
		if i := strings.IndexByte(rest, '/'); i >= 0 {
			arg = rest[:i]
			t, _ := strconv.ParseInt(rest[i+1:], 16, 32)
			tasks = []int{int(t)}
		}
		switch tok[0] {
		case 'L', 'C', 'K':
			m, err := strconv.ParseInt(arg, 16, 32)
			if err != nil || m > 20 {
				return p, out, false
			}
			d := dom(int(m))
			switch tok[0] {
			case 'L':
				p = p.ToLagrange(d, tasks...)
			case 'C':
				p = p.ToCanonical(d, tasks...)
			case 'K':
				p = p.ToLagrangeCoset(d)
			}
		case 'R':
			p = p.ToRegular()
		case 'B':
			p = p.ToBitReverse()
		case 'S':
			p = p.Shift(int(c20parseInt(rest)))
		case 'Z':
			z, _ := strconv.ParseInt(rest, 16, 64)
			p.SetSize(int(z))
		case 'H':
			alt = p.ShallowClone()
		case 'N':
			// N<form>:<c0>.<c1>.…[+k]: a new object becomes current, the previous one becomes the second object
			w := strings.SplitN(rest, ":", 2)
			if len(w) != 2 {
				return p, out, false
			}
			dirty := int64(0)
			if i := strings.IndexByte(w[1], '+'); i >= 0 {
				dirty, _ = strconv.ParseInt(w[1][i+1:], 16, 32)
				w[1] = w[1][:i]
			}
			np, ok := c.newPolyDirty(w[0], strings.ReplaceAll(w[1], ".", ","), int(dirty))
			if !ok {
				return p, out, false
			}
			alt, p = p, np
		case 'x':
			if alt == nil {
				return p, out, false
			}
			alt, p = p, alt
		case 'd':
			// the following conversions use domains with this coset shift (fft.WithShift)
			s := parseBig(rest)
			if s.Sign() == 0 || s.Cmp(c.Q()) >= 0 {
				return p, out, false
			}
			if s.Cmp(c.MulGen()) == 0 {
				dom = baseDom
			} else {
				sh := c.el(rest)
				dom = func(m int) *fft_bls12377.Domain {
					k := rest + "/" + strconv.Itoa(m)
					d, ok := shifted[k]
					if !ok {
						d = fft_bls12377.NewDomain(uint64(1)<<m, fft_bls12377.WithShift(sh))
						shifted[k] = d
					}
					return d
				}
			}
		case 'r':
			// p.ReadFrom(bytes of the second object): the receiver has a past
			if alt == nil {
				return p, out, false
			}
			var buf bytes.Buffer
			if _, err := alt.WriteTo(&buf); err != nil {
				return p, out, false
			}
			total := buf.Len()
			n, err := p.ReadFrom(&buf)
			if err != nil || int(n) != total {
				return p, out, false
			}
		case 'c':
			if rest == "" {
				p = p.Clone()
			} else {
				z, _ := strconv.ParseInt(rest, 16, 32)
				p = p.Clone(int(z))
			}
		case 'h':
			p = p.ShallowClone()
		case 'w':
			var buf bytes.Buffer
			n, err := p.WriteTo(&buf)
			if err != nil || int(n) != buf.Len() {
				return p, out, false
			}
			total := buf.Len()
			q := new(iop_bls12377.Polynomial)
			n, err = q.ReadFrom(&buf)
			if err != nil || int(n) != total {
				return p, out, false
			}
			p = q
		case 'W':
			var buf bytes.Buffer
			if _, err := p.WriteTo(&buf); err != nil {
				return p, out, false
			}
			out = append(out, hexBytes(buf.Bytes()))
		case 'E':
			x := c.el(rest)
			out = append(out, guard(func() string { return c.hex(p.Evaluate(x)) }))
		case 'G':
			out = append(out, guard(func() string {
				n := len(p.Coefficients())
				v := make([]fr_bls12377.Element, n)
				for i := 0; i < n; i++ {
					v[i] = p.GetCoeff(i)
				}
				return c.show(v)
			}))
		case 'g':
			i, _ := strconv.ParseInt(rest, 16, 64)
			out = append(out, guard(func() string { return c.hex(p.GetCoeff(int(i))) }))
		case 'F':
			out = append(out, c.dump(p))
		default:
			return p, out, false
		}
	}
	return p, out, true
}

func (c *c20_bls12377) Script(form, coeffs, script string) string {
	dirty := int64(0)
	if strings.HasPrefix(script, "D") {
		// D<k> as the first token: the initial object lives in a buffer with k dirty entries behind it
		first := script
		if i := strings.IndexByte(script, ','); i >= 0 {
			first, script = script[:i], script[i+1:]
		} else {
			script = "-"
		}
		var err error
		dirty, err = strconv.ParseInt(first[1:], 16, 32)
		if err != nil || dirty < 0 || dirty > 1<<12 {
			return "bad-op"
		}
	}
	p, ok := c.newPolyDirty(form, coeffs, int(dirty))
	if !ok {
		return "bad-op"
	}
	_, out, ok := c.script(p, script)
	if !ok {
		return "bad-op"
	}
	if len(out) == 0 {
		return "-"
	}
	return strings.Join(out, " ")
}

func (c *c20_bls12377) polys(k int, a []string) ([]*iop_bls12377.Polynomial, []string, bool) {
	ps := make([]*iop_bls12377.Polynomial, 0, k)
	for i := 0; i < k; i++ {
		if len(a) < 4 {
			return nil, nil, false
		}
		p, ok := c.newPoly(a[0], a[1])
		if !ok {
			return nil, nil, false
		}
		p.Shift(int(c20parseInt(a[2])))
		z, _ := strconv.ParseInt(a[3], 16, 64)
		p.SetSize(int(z))
		ps = append(ps, p)
		a = a[4:]
	}
	return ps, a, true
}

func (c *c20_bls12377) Expr(resform, rmode string, eid, k int, rest []string) string {
	f, ok := c.form(resform)
	if !ok {
		return "bad-op"
	}
	ps, rest, ok := c.polys(k, rest)
	if !ok || len(rest) != 0 {
		return "bad-op"
	}
	var r []fr_bls12377.Element
	if rmode != "nil" {
		n, _ := strconv.ParseInt(rmode, 16, 32)
		r = make([]fr_bls12377.Element, n)
	}
	get := func(x []fr_bls12377.Element, j int) (e fr_bls12377.Element) {
		if j < len(x) {
			e = x[j]
		}
		return
	}
	expr := func(i int, x ...fr_bls12377.Element) fr_bls12377.Element {
		a, b, cc := get(x, 0), get(x, 1), get(x, 2)
		var res, t fr_bls12377.Element
		switch eid {
		case 0:
			res.Mul(&a, &b).Add(&res, &cc)
		case 1:
			t.SetUint64(uint64(i))
			res.Add(&a, &t)
		case 2:
			res.Mul(&a, &a)
			t.Mul(&b, &cc)
			res.Sub(&res, &t)
			t.SetUint64(uint64(i * i))
			res.Add(&res, &t)
		default:
			for j := range x {
				res.Add(&res, &x[j])
			}
		}
		return res
	}
	// iop.Evaluate calls x[j].GetCoeff(i) inside parallel.Execute goroutines: a panic there cannot be recovered and
	// kills the process. Probe the same calls here first, so that such a line answers "panic" instead.
	if len(ps) > 0 {
		consistent := true
		for _, p := range ps {
			if len(p.Coefficients()) != len(ps[0].Coefficients()) {
				consistent = false
			}
		}
		if consistent && (r == nil || len(r) == len(ps[0].Coefficients())) {
			crashed := func() (c bool) {
				defer func() {
					if recover() != nil {
						c = true
					}
				}()
				for _, p := range ps {
					for i := range p.Coefficients() {
						p.GetCoeff(i)
					}
				}
				return false
			}()
			if crashed {
				return "panic"
			}
		}
	}
	res, err := iop_bls12377.Evaluate(expr, r, f, ps...)
	if err != nil {
		if err == iop_bls12377.ErrInconsistentSize {
			return "err:size"
		}
		return "err:noinput"
	}
	return c.dump(res)
}

func (c *c20_bls12377) DivX(m0, m1 int, form, coeffs, script string) string {
	p, ok := c.newPoly(form, coeffs)
	if !ok {
		return "bad-op"
	}
	p, _, ok = c.script(p, script)
	if !ok {
		return "bad-op"
	}
	res, err := iop_bls12377.DivideByXMinusOne(p, [2]*fft_bls12377.Domain{c.dom(m0), c.dom(m1)})
	if err != nil {
		return "err:basis"
	}
	return c.dump(res)
}

// DivideByXMinusOne on domains whose coset shift is `shift` (fft.WithShift). shapeOnly: the line lies outside the domain
// where the division is defined (shift^|big| = 1): only "no panic, no error, shape of the result" is reported.
func (c *c20_bls12377) DivXS(m0, m1 int, shift, form, coeffs, script string, shapeOnly bool) string {
	p, ok := c.newPoly(form, coeffs)
	if !ok {
		return "bad-op"
	}
	s := c.el(shift)
	doms := map[int]*fft_bls12377.Domain{}
	dom := func(m int) *fft_bls12377.Domain {
		d, ok := doms[m]
		if !ok {
			d = fft_bls12377.NewDomain(uint64(1)<<m, fft_bls12377.WithShift(s))
			doms[m] = d
		}
		return d
	}
	p, _, ok = c.scriptD(p, script, dom)
	if !ok {
		return "bad-op"
	}
	res, err := iop_bls12377.DivideByXMinusOne(p, [2]*fft_bls12377.Domain{dom(m0), dom(m1)})
	if err != nil {
		return "err:basis"
	}
	if shapeOnly {
		return "undef " + c.showForm(res.Basis, res.Layout) + "/" + c20int(c.shiftOf(res)) + "/" + strconv.FormatInt(int64(res.Size()), 16) +
			"/" + strconv.FormatInt(int64(len(res.Coefficients())), 16)
	}
	return c.dump(res)
}

func (c *c20_bls12377) ratioErr(err error) string {
	switch err {
	case iop_bls12377.ErrInconsistentSize:
		return "err:size"
	case iop_bls12377.ErrSizeNotPowerOfTwo:
		return "err:pow2"
	case iop_bls12377.ErrInconsistentSizeDomain:
		return "err:domain"
	case iop_bls12377.ErrNumberPolynomials:
		return "err:number"
	}
	return "err:other"
}

func (c *c20_bls12377) ratioOut(res *iop_bls12377.Polynomial, xs string) string {
	s := c.dump(res)
	if xs != "-" {
		s += " " + c.hex(res.Evaluate(c.el(xs)))
	}
	return s
}

func (c *c20_bls12377) RatioS(resform, beta, xs string, k int, rest []string) string {
	f, ok := c.form(resform)
	if !ok {
		return "bad-op"
	}
	ps, rest, ok := c.polys(2*k, rest)
	if !ok || len(rest) != 0 {
		return "bad-op"
	}
	var d *fft_bls12377.Domain
	if n := len(ps[0].Coefficients()); n > 0 && n&(n-1) == 0 {
		d = c.dom(bits.TrailingZeros(uint(n)))
	}
	res, err := iop_bls12377.BuildRatioShuffledVectors(ps[:k], ps[k:], c.el(beta), f, d)
	if err != nil {
		return c.ratioErr(err)
	}
	return c.ratioOut(res, xs)
}

func (c *c20_bls12377) RatioC(resform, beta, gamma, perms, xs string, k int, rest []string) string {
	f, ok := c.form(resform)
	if !ok {
		return "bad-op"
	}
	ps, rest, ok := c.polys(k, rest)
	if !ok || len(rest) != 0 {
		return "bad-op"
	}
	w := strings.Split(perms, ",")
	perm := make([]int64, len(w))
	for i := range w {
		perm[i], _ = strconv.ParseInt(w[i], 16, 64)
	}
	var d *fft_bls12377.Domain
	if n := len(ps[0].Coefficients()); n > 0 && n&(n-1) == 0 {
		d = c.dom(bits.TrailingZeros(uint(n)))
	}
	res, err := iop_bls12377.BuildRatioCopyConstraint(ps, perm, c.el(beta), c.el(gamma), f, d)
	if err != nil {
		return c.ratioErr(err)
	}
	return c.ratioOut(res, xs)
}

func (c *c20_bls12377) Read(data []byte) string {
	p := new(iop_bls12377.Polynomial)
	_, err := p.ReadFrom(bytes.NewReader(data))
	if err != nil {
		if err == io.EOF || err == io.ErrUnexpectedEOF {
			return "err:eof"
		}
		return "err:range"
	}
	return fmt.Sprintf("ok %x %x %s %x %s", uint32(p.Basis), uint32(p.Layout), c20int(c.shiftOf(p)), p.Size(), c.show(p.Coefficients()))
}

// package polynomial
func (c *c20_bls12377) Poly(op string, a []string) string {
	switch op {
	case "peval":
		p := poly_bls12377.Polynomial(c.vec(a[0]))
		x := c.el(a[1])
		return c.hex(p.Eval(&x))
	case "interp":
		res := poly_bls12377.InterpolateOnRange(c.vec(a[0]))
		s := c.show(res)
		// the returned polynomial belongs to the caller: overwriting it must not influence later calls
		for i := range res {
			res[i].SetUint64(uint64(0xdead00 + i))
		}
		return s
	case "padd", "psub":
		mode := a[0]
		p := poly_bls12377.Polynomial(c.vec(a[1]))
		p1 := poly_bls12377.Polynomial(c.vec(a[2]))
		p2 := poly_bls12377.Polynomial(c.vec(a[3]))
		switch mode {
		case "a1":
			p = p1
		case "a2":
			p = p2
		case "a12":
			p2 = p1
			p = p1
		}
		if op == "padd" {
			r := p.Add(p1, p2)
			if r != &p {
				return "wrong-return"
			}
			return c.show(p)
		}
		if r := p.Sub(p1, p2); r == nil {
			return "nil"
		}
		return c.show(p)
	case "pscale":
		mode := a[0]
		cc := c.el(a[1])
		p0 := poly_bls12377.Polynomial(c.vec(a[2]))
		var p poly_bls12377.Polynomial
		switch mode {
		case "same":
			p = make(poly_bls12377.Polynomial, len(p0))
			for i := range p {
				p[i].SetUint64(uint64(7 + i))
			}
		case "alias":
			p = p0
		}
		p.Scale(&cc, p0)
		return c.show(p)
	case "pconst":
		cc := c.el(a[1])
		p := poly_bls12377.Polynomial(c.vec(a[2]))
		switch a[0] {
		case "add":
			p.AddConstantInPlace(&cc)
		case "sub":
			p.SubConstantInPlace(&cc)
		case "scale":
			p.ScaleInPlace(&cc)
		default:
			return "bad-op"
		}
		return c.show(p)
	case "mlfold":
		m := poly_bls12377.MultiLin(c.vec(a[0]))
		m.Fold(c.el(a[1]))
		return c.show(m)
	case "mleval":
		m := poly_bls12377.MultiLin(c.vec(a[1]))
		keep := append([]fr_bls12377.Element{}, m...)
		var res fr_bls12377.Element
		if a[0] == "1" {
			pool := poly_bls12377.NewPool(8, 256)
			res = m.Evaluate(c.vec(a[2]), &pool)
		} else if a[0] == "2" {
			c20mu.Lock()
			if c.pool == nil {
				pool := poly_bls12377.NewPool(8, 256)
				c.pool = &pool
			}
			pool := c.pool
			c20mu.Unlock()
			res = m.Evaluate(c.vec(a[2]), pool)
		} else {
			res = m.Evaluate(c.vec(a[2]), nil)
		}
		for i := range m {
			if !m[i].Equal(&keep[i]) {
				return "input-modified"
			}
		}
		return c.hex(res)
	case "mleq":
		m := poly_bls12377.MultiLin(c.vec(a[0]))
		m.Eq(c.vec(a[1]))
		return c.show(m)
	case "evaleq":
		return c.hex(poly_bls12377.EvalEq(c.vec(a[0]), c.vec(a[1])))
	case "mlsum":
		m := poly_bls12377.MultiLin(c.vec(a[0]))
		return c.hex(m.Sum())
	}
	return "bad-op"
}

// ---------------------------------------------------------------- bls12-381

type c20_bls12381 struct {
	doms map[int]*fft_bls12381.Domain
	pool *poly_bls12381.Pool // lives as long as the process (mleval mode 2)
}

func init() { c20register(&c20_bls12381{doms: map[int]*fft_bls12381.Domain{}}) }

func (c *c20_bls12381) Name() string { return "bls12-381" }
func (c *c20_bls12381) Q() *big.Int  { return fr_bls12381.Modulus() }
func (c *c20_bls12381) NBytes() int  { return fr_bls12381.Bytes }
func (c *c20_bls12381) Gen(m uint64) *big.Int {
	g, err := fft_bls12381.Generator(m)
	if err != nil {
		panic(err)
	}
	return g.BigInt(new(big.Int))
}
func (c *c20_bls12381) MulGen() *big.Int {
	g := fft_bls12381.GeneratorFullMultiplicativeGroup()
	return g.BigInt(new(big.Int))
}
func (c *c20_bls12381) dom(m int) *fft_bls12381.Domain {
	c20mu.Lock()
	defer c20mu.Unlock()
	d, ok := c.doms[m]
	if !ok {
		d = fft_bls12381.NewDomain(uint64(1) << m)
		c.doms[m] = d
	}
	return d
}
func (c *c20_bls12381) el(s string) (e fr_bls12381.Element) {
	e.SetBigInt(parseBig(s))
	return
}
func (c *c20_bls12381) hex(e fr_bls12381.Element) string { return hexBig(e.BigInt(new(big.Int))) }
func (c *c20_bls12381) vec(s string) []fr_bls12381.Element {
	if s == "-" {
		return []fr_bls12381.Element{}
	}
	w := strings.Split(s, ",")
	v := make([]fr_bls12381.Element, len(w))
	for i := range w {
		v[i] = c.el(w[i])
	}
	return v
}
func (c *c20_bls12381) show(v []fr_bls12381.Element) string {
	if len(v) == 0 {
		return "-"
	}
	w := make([]string, len(v))
	for i := range v {
		w[i] = c.hex(v[i])
	}
	return strings.Join(w, ",")
}
func (c *c20_bls12381) form(s string) (iop_bls12381.Form, bool) {
	var f iop_bls12381.Form
	if len(s) != 2 {
		return f, false
	}
	switch s[0] {
	case 'c':
		f.Basis = iop_bls12381.Canonical
	case 'l':
		f.Basis = iop_bls12381.Lagrange
	case 'k':
		f.Basis = iop_bls12381.LagrangeCoset
	default:
		return f, false
	}
	switch s[1] {
	case 'r':
		f.Layout = iop_bls12381.Regular
	case 'b':
		f.Layout = iop_bls12381.BitReverse
	default:
		return f, false
	}
	return f, true
}
func (c *c20_bls12381) showForm(b iop_bls12381.Basis, l iop_bls12381.Layout) string {
	s := "?"
	switch b {
	case iop_bls12381.Canonical:
		s = "c"
	case iop_bls12381.Lagrange:
		s = "l"
	case iop_bls12381.LagrangeCoset:
		s = "k"
	}
	switch l {
	case iop_bls12381.Regular:
		return s + "r"
	case iop_bls12381.BitReverse:
		return s + "b"
	}
	return s + "?"
}
func (c *c20_bls12381) shiftOf(p *iop_bls12381.Polynomial) int64 {
	return reflect.ValueOf(p).Elem().FieldByName("shift").Int()
}
func (c *c20_bls12381) dump(p *iop_bls12381.Polynomial) string {
	return c.showForm(p.Basis, p.Layout) + "/" + c20int(c.shiftOf(p)) + "/" + strconv.FormatInt(int64(p.Size()), 16) + "/" + c.show(p.Coefficients())
}
func (c *c20_bls12381) newPoly(form, coeffs string) (*iop_bls12381.Polynomial, bool) {
	return c.newPolyDirty(form, coeffs, 0)
}

// the polynomial is built over a prefix view of a buffer that holds `dirty` more, non-zero, entries behind the view
// (a chunk h[:n] of a larger vector, a truncated vector): spare capacity with old data
func (c *c20_bls12381) newPolyDirty(form, coeffs string, dirty int) (*iop_bls12381.Polynomial, bool) {
	f, ok := c.form(form)
	if !ok {
		return nil, false
	}
	v := c.vec(coeffs)
	if dirty > 0 {
		buf := make([]fr_bls12381.Element, len(v)+dirty)
		copy(buf, v)
		for i := len(v); i < len(buf); i++ {
			buf[i].SetUint64(uint64(0xd1d100 + i))
		}
		v = buf[:len(v)]
	}
	return iop_bls12381.NewPolynomial(&v, f), true
}

// runs a script on p; observations are appended to out
func (c *c20_bls12381) script(p *iop_bls12381.Polynomial, script string) (*iop_bls12381.Polynomial, []string, bool) {
	return c.scriptD(p, script, c.dom)
}

// the same with the domains supplied by the caller (domains with a caller-chosen coset shift)
func (c *c20_bls12381) scriptD(p *iop_bls12381.Polynomial, script string, dom func(int) *fft_bls12381.Domain) (*iop_bls12381.Polynomial, []string, bool) {
	out := []string{}
	if script == "-" {
		return p, out, true
	}
	var alt *iop_bls12381.Polynomial // second object of the script (N, H, x, r)
	shifted := map[string]*fft_bls12381.Domain{}
	baseDom := dom
	guard := func(f func() string) (res string) {
		defer func() {
			if r := recover(); r != nil {
				res = "panic"
			}
		}()
		return f()
	}
	for _, tok := range strings.Split(script, ",") {
		if tok == "" {
			return p, out, false
		}
		rest := tok[1:]
		arg, tasks := rest, []int{}
		if i := strings.IndexByte(rest, '/'); i >= 0 {
			arg = rest[:i]
			t, _ := strconv.ParseInt(rest[i+1:], 16, 32)
			tasks = []int{int(t)}
		}
		switch tok[0] {
		case 'L', 'C', 'K':
			m, err := strconv.ParseInt(arg, 16, 32)
			if err != nil || m > 20 {
				return p, out, false
			}
			d := dom(int(m))
			switch tok[0] {
			case 'L':
				p = p.ToLagrange(d, tasks...)
			case 'C':
				p = p.ToCanonical(d, tasks...)
			case 'K':
				p = p.ToLagrangeCoset(d)
			}
		case 'R':
			p = p.ToRegular()
		case 'B':
			p = p.ToBitReverse()
		case 'S':
			p = p.Shift(int(c20parseInt(rest)))
		case 'Z':
			z, _ := strconv.ParseInt(rest, 16, 64)
			p.SetSize(int(z))
		case 'H':
			alt = p.ShallowClone()
		case 'N':
			// N<form>:<c0>.<c1>.…[+k]: a new object becomes current, the previous one becomes the second object
			w := strings.SplitN(rest, ":", 2)
			if len(w) != 2 {
				return p, out, false
			}
			dirty := int64(0)
			if i := strings.IndexByte(w[1], '+'); i >= 0 {
				dirty, _ = strconv.ParseInt(w[1][i+1:], 16, 32)
				w[1] = w[1][:i]
			}
			np, ok := c.newPolyDirty(w[0], strings.ReplaceAll(w[1], ".", ","), int(dirty))
			if !ok {
				return p, out, false
			}
			alt, p = p, np
		case 'x':
			if alt == nil {
				return p, out, false
			}
			alt, p = p, alt
		case 'd':
			// the following conversions use domains with this coset shift (fft.WithShift)
			s := parseBig(rest)
			if s.Sign() == 0 || s.Cmp(c.Q()) >= 0 {
				return p, out, false
			}
			if s.Cmp(c.MulGen()) == 0 {
				dom = baseDom
			} else {
				sh := c.el(rest)
				dom = func(m int) *fft_bls12381.Domain {
					k := rest + "/" + strconv.Itoa(m)
					d, ok := shifted[k]
					if !ok {
						d = fft_bls12381.NewDomain(uint64(1)<<m, fft_bls12381.WithShift(sh))
						shifted[k] = d
					}
					return d
				}
			}
		case 'r':
			// p.ReadFrom(bytes of the second object): the receiver has a past
			if alt == nil {
				return p, out, false
			}
			var buf bytes.Buffer
			if _, err := alt.WriteTo(&buf); err != nil {
				return p, out, false
			}
			total := buf.Len()
			n, err := p.ReadFrom(&buf)
			if err != nil || int(n) != total {
				return p, out, false
			}
		case 'c':
			if rest == "" {
				p = p.Clone()
			} else {
				z, _ := strconv.ParseInt(rest, 16, 32)
				p = p.Clone(int(z))
			}
		case 'h':
			p = p.ShallowClone()
		case 'w':
			var buf bytes.Buffer
			n, err := p.WriteTo(&buf)
			if err != nil || int(n) != buf.Len() {
				return p, out, false
			}
			total := buf.Len()
			q := new(iop_bls12381.Polynomial)
			n, err = q.ReadFrom(&buf)
			if err != nil || int(n) != total {
				return p, out, false
			}
			p = q
		case 'W':
			var buf bytes.Buffer
			if _, err := p.WriteTo(&buf); err != nil {
				return p, out, false
			}
			out = append(out, hexBytes(buf.Bytes()))
		case 'E':
			x := c.el(rest)
			out = append(out, guard(func() string { return c.hex(p.Evaluate(x)) }))
		case 'G':
			out = append(out, guard(func() string {
				n := len(p.Coefficients())
				v := make([]fr_bls12381.Element, n)
				for i := 0; i < n; i++ {
					v[i] = p.GetCoeff(i)
				}
				return c.show(v)
			}))
		case 'g':
			i, _ := strconv.ParseInt(rest, 16, 64)
			out = append(out, guard(func() string { return c.hex(p.GetCoeff(int(i))) }))
		case 'F':
			out = append(out, c.dump(p))
		default:
			return p, out, false
		}
	}
	return p, out, true
}

func (c *c20_bls12381) Script(form, coeffs, script string) string {
	dirty := int64(0)
	if strings.HasPrefix(script, "D") {
		// D<k> as the first token: the initial object lives in a buffer with k dirty entries behind it
		first := script
		if i := strings.IndexByte(script, ','); i >= 0 {
			first, script = script[:i], script[i+1:]
		} else {
			script = "-"
		}
		var err error
		dirty, err = strconv.ParseInt(first[1:], 16, 32)
		if err != nil || dirty < 0 || dirty > 1<<12 {
			return "bad-op"
		}
	}
	p, ok := c.newPolyDirty(form, coeffs, int(dirty))
	if !ok {
		return "bad-op"
	}
	_, out, ok := c.script(p, script)
	if !ok {
		return "bad-op"
	}
	if len(out) == 0 {
		return "-"
	}
	return strings.Join(out, " ")
}

func (c *c20_bls12381) polys(k int, a []string) ([]*iop_bls12381.Polynomial, []string, bool) {
	ps := make([]*iop_bls12381.Polynomial, 0, k)
	for i := 0; i < k; i++ {
		if len(a) < 4 {
			return nil, nil, false
		}
		p, ok := c.newPoly(a[0], a[1])
		if !ok {
			return nil, nil, false
		}
		p.Shift(int(c20parseInt(a[2])))
		z, _ := strconv.ParseInt(a[3], 16, 64)
		p.SetSize(int(z))
		ps = append(ps, p)
		a = a[4:]
	}
	return ps, a, true
}

func (c *c20_bls12381) Expr(resform, rmode string, eid, k int, rest []string) string {
	f, ok := c.form(resform)
	if !ok {
		return "bad-op"
	}
	ps, rest, ok := c.polys(k, rest)
	if !ok || len(rest) != 0 {
		return "bad-op"
	}
	var r []fr_bls12381.Element
	if rmode != "nil" {
		n, _ := strconv.ParseInt(rmode, 16, 32)
		r = make([]fr_bls12381.Element, n)
	}
	get := func(x []fr_bls12381.Element, j int) (e fr_bls12381.Element) {
		if j < len(x) {
			e = x[j]
		}
		return
	}
	expr := func(i int, x ...fr_bls12381.Element) fr_bls12381.Element {
		a, b, cc := get(x, 0), get(x, 1), get(x, 2)
		var res, t fr_bls12381.Element
		switch eid {
		case 0:
			res.Mul(&a, &b).Add(&res, &cc)
		case 1:
			t.SetUint64(uint64(i))
			res.Add(&a, &t)
		case 2:
			res.Mul(&a, &a)
			t.Mul(&b, &cc)
			res.Sub(&res, &t)
			t.SetUint64(uint64(i * i))
			res.Add(&res, &t)
		default:
			for j := range x {
				res.Add(&res, &x[j])
			}
		}
		return res
	}
	// iop.Evaluate calls x[j].GetCoeff(i) inside parallel.Execute goroutines: a panic there cannot be recovered and
	// kills the process. Probe the same calls here first, so that such a line answers "panic" instead.
	if len(ps) > 0 {
		consistent := true
		for _, p := range ps {
			if len(p.Coefficients()) != len(ps[0].Coefficients()) {
				consistent = false
			}
		}
		if consistent && (r == nil || len(r) == len(ps[0].Coefficients())) {
			crashed := func() (c bool) {
				defer func() {
					if recover() != nil {
						c = true
					}
				}()
				for _, p := range ps {
					for i := range p.Coefficients() {
						p.GetCoeff(i)
					}
				}
				return false
			}()
			if crashed {
				return "panic"
			}
		}
	}
	res, err := iop_bls12381.Evaluate(expr, r, f, ps...)
	if err != nil {
		if err == iop_bls12381.ErrInconsistentSize {
			return "err:size"
		}
		return "err:noinput"
	}
	return c.dump(res)
}

func (c *c20_bls12381) DivX(m0, m1 int, form, coeffs, script string) string {
	p, ok := c.newPoly(form, coeffs)
	if !ok {
		return "bad-op"
	}
	p, _, ok = c.script(p, script)
	if !ok {
		return "bad-op"
	}
	res, err := iop_bls12381.DivideByXMinusOne(p, [2]*fft_bls12381.Domain{c.dom(m0), c.dom(m1)})
	if err != nil {
		return "err:basis"
	}
	return c.dump(res)
}

// DivideByXMinusOne on domains whose coset shift is `shift` (fft.WithShift). shapeOnly: the line lies outside the domain
// where the division is defined (shift^|big| = 1): only "no panic, no error, shape of the result" is reported.
func (c *c20_bls12381) DivXS(m0, m1 int, shift, form, coeffs, script string, shapeOnly bool) string {
	p, ok := c.newPoly(form, coeffs)
	if !ok {
		return "bad-op"
	}
	s := c.el(shift)
	doms := map[int]*fft_bls12381.Domain{}
	dom := func(m int) *fft_bls12381.Domain {
		d, ok := doms[m]
		if !ok {
			d = fft_bls12381.NewDomain(uint64(1)<<m, fft_bls12381.WithShift(s))
			doms[m] = d
		}
		return d
	}
	p, _, ok = c.scriptD(p, script, dom)
	if !ok {
		return "bad-op"
	}
	res, err := iop_bls12381.DivideByXMinusOne(p, [2]*fft_bls12381.Domain{dom(m0), dom(m1)})
	if err != nil {
		return "err:basis"
	}
	if shapeOnly {
		return "undef " + c.showForm(res.Basis, res.Layout) + "/" + c20int(c.shiftOf(res)) + "/" + strconv.FormatInt(int64(res.Size()), 16) +
			"/" + strconv.FormatInt(int64(len(res.Coefficients())), 16)
	}
	return c.dump(res)
}

func (c *c20_bls12381) ratioErr(err error) string {
	switch err {
	case iop_bls12381.ErrInconsistentSize:
		return "err:size"
	case iop_bls12381.ErrSizeNotPowerOfTwo:
		return "err:pow2"
	case iop_bls12381.ErrInconsistentSizeDomain:
		return "err:domain"
	case iop_bls12381.ErrNumberPolynomials:
		return "err:number"
	}
	return "err:other"
}

func (c *c20_bls12381) ratioOut(res *iop_bls12381.Polynomial, xs string) string {
	s := c.dump(res)
	if xs != "-" {
		s += " " + c.hex(res.Evaluate(c.el(xs)))
	}
	return s
}

func (c *c20_bls12381) RatioS(resform, beta, xs string, k int, rest []string) string {
	f, ok := c.form(resform)
	if !ok {
		return "bad-op"
	}
	ps, rest, ok := c.polys(2*k, rest)
	if !ok || len(rest) != 0 {
		return "bad-op"
	}
	var d *fft_bls12381.Domain
	if n := len(ps[0].Coefficients()); n > 0 && n&(n-1) == 0 {
		d = c.dom(bits.TrailingZeros(uint(n)))
	}
	res, err := iop_bls12381.BuildRatioShuffledVectors(ps[:k], ps[k:], c.el(beta), f, d)
	if err != nil {
		return c.ratioErr(err)
	}
	return c.ratioOut(res, xs)
}

func (c *c20_bls12381) RatioC(resform, beta, gamma, perms, xs string, k int, rest []string) string {
	f, ok := c.form(resform)
	if !ok {
		return "bad-op"
	}
	ps, rest, ok := c.polys(k, rest)
	if !ok || len(rest) != 0 {
		return "bad-op"
	}
	w := strings.Split(perms, ",")
	perm := make([]int64, len(w))
	for i := range w {
		perm[i], _ = strconv.ParseInt(w[i], 16, 64)
	}
	var d *fft_bls12381.Domain
	if n := len(ps[0].Coefficients()); n > 0 && n&(n-1) == 0 {
		d = c.dom(bits.TrailingZeros(uint(n)))
	}
	res, err := iop_bls12381.BuildRatioCopyConstraint(ps, perm, c.el(beta), c.el(gamma), f, d)
	if err != nil {
		return c.ratioErr(err)
	}
	return c.ratioOut(res, xs)
}

func (c *c20_bls12381) Read(data []byte) string {
	p := new(iop_bls12381.Polynomial)
	_, err := p.ReadFrom(bytes.NewReader(data))
	if err != nil {
		if err == io.EOF || err == io.ErrUnexpectedEOF {
			return "err:eof"
		}
		return "err:range"
	}
	return fmt.Sprintf("ok %x %x %s %x %s", uint32(p.Basis), uint32(p.Layout), c20int(c.shiftOf(p)), p.Size(), c.show(p.Coefficients()))
}

// package polynomial
func (c *c20_bls12381) Poly(op string, a []string) string {
	switch op {
	case "peval":
		p := poly_bls12381.Polynomial(c.vec(a[0]))
		x := c.el(a[1])
		return c.hex(p.Eval(&x))
	case "interp":
		res := poly_bls12381.InterpolateOnRange(c.vec(a[0]))
		s := c.show(res)
		// the returned polynomial belongs to the caller: overwriting it must not influence later calls
		for i := range res {
			res[i].SetUint64(uint64(0xdead00 + i))
		}
		return s
	case "padd", "psub":
		mode := a[0]
		p := poly_bls12381.Polynomial(c.vec(a[1]))
		p1 := poly_bls12381.Polynomial(c.vec(a[2]))
		p2 := poly_bls12381.Polynomial(c.vec(a[3]))
		switch mode {
		case "a1":
			p = p1
		case "a2":
			p = p2
		case "a12":
			p2 = p1
			p = p1
		}
		if op == "padd" {
			r := p.Add(p1, p2)
			if r != &p {
				return "wrong-return"
			}
			return c.show(p)
		}
		if r := p.Sub(p1, p2); r == nil {
			return "nil"
		}
		return c.show(p)
	case "pscale":
		mode := a[0]
		cc := c.el(a[1])
		p0 := poly_bls12381.Polynomial(c.vec(a[2]))
		var p poly_bls12381.Polynomial
		switch mode {
		case "same":
			p = make(poly_bls12381.Polynomial, len(p0))
			for i := range p {
				p[i].SetUint64(uint64(7 + i))
			}
		case "alias":
			p = p0
		}
		p.Scale(&cc, p0)
		return c.show(p)
	case "pconst":
		cc := c.el(a[1])
		p := poly_bls12381.Polynomial(c.vec(a[2]))
		switch a[0] {
		case "add":
			p.AddConstantInPlace(&cc)
		case "sub":
			p.SubConstantInPlace(&cc)
		case "scale":
			p.ScaleInPlace(&cc)
		default:
			return "bad-op"
		}
		return c.show(p)
	case "mlfold":
		m := poly_bls12381.MultiLin(c.vec(a[0]))
		m.Fold(c.el(a[1]))
		return c.show(m)
	case "mleval":
		m := poly_bls12381.MultiLin(c.vec(a[1]))
		keep := append([]fr_bls12381.Element{}, m...)
		var res fr_bls12381.Element
		if a[0] == "1" {
			pool := poly_bls12381.NewPool(8, 256)
			res = m.Evaluate(c.vec(a[2]), &pool)
		} else if a[0] == "2" {
			c20mu.Lock()
			if c.pool == nil {
				pool := poly_bls12381.NewPool(8, 256)
				c.pool = &pool
			}
			pool := c.pool
			c20mu.Unlock()
			res = m.Evaluate(c.vec(a[2]), pool)
		} else {
			res = m.Evaluate(c.vec(a[2]), nil)
		}
		for i := range m {
			if !m[i].Equal(&keep[i]) {
				return "input-modified"
			}
		}
		return c.hex(res)
	case "mleq":
		m := poly_bls12381.MultiLin(c.vec(a[0]))
		m.Eq(c.vec(a[1]))
		return c.show(m)
	case "evaleq":
		return c.hex(poly_bls12381.EvalEq(c.vec(a[0]), c.vec(a[1])))
	case "mlsum":
		m := poly_bls12381.MultiLin(c.vec(a[0]))
		return c.hex(m.Sum())
	}
	return "bad-op"
}

// ---------------------------------------------------------------- bls24-315

type c20_bls24315 struct {
	doms map[int]*fft_bls24315.Domain
	pool *poly_bls24315.Pool // lives as long as the process (mleval mode 2)
}

func init() { c20register(&c20_bls24315{doms: map[int]*fft_bls24315.Domain{}}) }

func (c *c20_bls24315) Name() string { return "bls24-315" }
func (c *c20_bls24315) Q() *big.Int  { return fr_bls24315.Modulus() }
func (c *c20_bls24315) NBytes() int  { return fr_bls24315.Bytes }
func (c *c20_bls24315) Gen(m uint64) *big.Int {
	g, err := fft_bls24315.Generator(m)
	if err != nil {
		panic(err)
	}
	return g.BigInt(new(big.Int))
}
func (c *c20_bls24315) MulGen() *big.Int {
	g := fft_bls24315.GeneratorFullMultiplicativeGroup()
	return g.BigInt(new(big.Int))
}
func (c *c20_bls24315) dom(m int) *fft_bls24315.Domain {
	c20mu.Lock()
	defer c20mu.Unlock()
	d, ok := c.doms[m]
	if !ok {
		d = fft_bls24315.NewDomain(uint64(1) << m)
		c.doms[m] = d
	}
	return d
}
func (c *c20_bls24315) el(s string) (e fr_bls24315.Element) {
	e.SetBigInt(parseBig(s))
	return
}
func (c *c20_bls24315) hex(e fr_bls24315.Element) string { return hexBig(e.BigInt(new(big.Int))) }
func (c *c20_bls24315) vec(s string) []fr_bls24315.Element {
	if s == "-" {
		return []fr_bls24315.Element{}
	}
	w := strings.Split(s, ",")
	v := make([]fr_bls24315.Element, len(w))
	for i := range w {
		v[i] = c.el(w[i])
	}
	return v
}
func (c *c20_bls24315) show(v []fr_bls24315.Element) string {
	if len(v) == 0 {
		return "-"
	}
	w := make([]string, len(v))
	for i := range v {
		w[i] = c.hex(v[i])
	}
	return strings.Join(w, ",")
}
func (c *c20_bls24315) form(s string) (iop_bls24315.Form, bool) {
	var f iop_bls24315.Form
	if len(s) != 2 {
		return f, false
	}
	switch s[0] {
	case 'c':
		f.Basis = iop_bls24315.Canonical
	case 'l':
		f.Basis = iop_bls24315.Lagrange
	case 'k':
		f.Basis = iop_bls24315.LagrangeCoset
	default:
		return f, false
	}
	switch s[1] {
	case 'r':
		f.Layout = iop_bls24315.Regular
	case 'b':
		f.Layout = iop_bls24315.BitReverse
	default:
		return f, false
	}
	return f, true
}
func (c *c20_bls24315) showForm(b iop_bls24315.Basis, l iop_bls24315.Layout) string {
	s := "?"
	switch b {
	case iop_bls24315.Canonical:
		s = "c"
	case iop_bls24315.Lagrange:
		s = "l"
	case iop_bls24315.LagrangeCoset:
		s = "k"
	}
	switch l {
	case iop_bls24315.Regular:
		return s + "r"
	case iop_bls24315.BitReverse:
		return s + "b"
	}
	return s + "?"
}
func (c *c20_bls24315) shiftOf(p *iop_bls24315.Polynomial) int64 {
	return reflect.ValueOf(p).Elem().FieldByName("shift").Int()
}
func (c *c20_bls24315) dump(p *iop_bls24315.Polynomial) string {
	return c.showForm(p.Basis, p.Layout) + "/" + c20int(c.shiftOf(p)) + "/" + strconv.FormatInt(int64(p.Size()), 16) + "/" + c.show(p.Coefficients())
}
func (c *c20_bls24315) newPoly(form, coeffs string) (*iop_bls24315.Polynomial, bool) {
	return c.newPolyDirty(form, coeffs, 0)
}

// the polynomial is built over a prefix view of a buffer that holds `dirty` more, non-zero, entries behind the view
// (a chunk h[:n] of a larger vector, a truncated vector): spare capacity with old data
func (c *c20_bls24315) newPolyDirty(form, coeffs string, dirty int) (*iop_bls24315.Polynomial, bool) {
	f, ok := c.form(form)
	if !ok {
		return nil, false
	}
	v := c.vec(coeffs)
	if dirty > 0 {
		buf := make([]fr_bls24315.Element, len(v)+dirty)
		copy(buf, v)
		for i := len(v); i < len(buf); i++ {
			buf[i].SetUint64(uint64(0xd1d100 + i))
		}
		v = buf[:len(v)]
	}
	return iop_bls24315.NewPolynomial(&v, f), true
}

// runs a script on p; observations are appended to out
func (c *c20_bls24315) script(p *iop_bls24315.Polynomial, script string) (*iop_bls24315.Polynomial, []string, bool) {
	return c.scriptD(p, script, c.dom)
}

// the same with the domains supplied by the caller (domains with a caller-chosen coset shift)
func (c *c20_bls24315) scriptD(p *iop_bls24315.Polynomial, script string, dom func(int) *fft_bls24315.Domain) (*iop_bls24315.Polynomial, []string, bool) {
	out := []string{}
	if script == "-" {
		return p, out, true
	}
	var alt *iop_bls24315.Polynomial // second object of the script (N, H, x, r)
	shifted := map[string]*fft_bls24315.Domain{}
	baseDom := dom
	guard := func(f func() string) (res string) {
		defer func() {
			if r := recover(); r != nil {
				res = "panic"
			}
		}()
		return f()
	}
	for _, tok := range strings.Split(script, ",") {
		if tok == "" {
			return p, out, false
		}
		rest := tok[1:]
		arg, tasks := rest, []int{}
		if i := strings.IndexByte(rest, '/'); i >= 0 {
			arg = rest[:i]
			t, _ := strconv.ParseInt(rest[i+1:], 16, 32)
			tasks = []int{int(t)}
		}
		switch tok[0] {
		case 'L', 'C', 'K':
			m, err := strconv.ParseInt(arg, 16, 32)
			if err != nil || m > 20 {
				return p, out, false
			}
			d := dom(int(m))
			switch tok[0] {
			case 'L':
				p = p.ToLagrange(d, tasks...)
			case 'C':
				p = p.ToCanonical(d, tasks...)
			case 'K':
				p = p.ToLagrangeCoset(d)
			}
		case 'R':
			p = p.ToRegular()
		case 'B':
			p = p.ToBitReverse()
		case 'S':
			p = p.Shift(int(c20parseInt(rest)))
		case 'Z':
			z, _ := strconv.ParseInt(rest, 16, 64)
			p.SetSize(int(z))
		case 'H':
			alt = p.ShallowClone()
		case 'N':
			// N<form>:<c0>.<c1>.…[+k]: a new object becomes current, the previous one becomes the second object
			w := strings.SplitN(rest, ":", 2)
			if len(w) != 2 {
				return p, out, false
			}
			dirty := int64(0)
			if i := strings.IndexByte(w[1], '+'); i >= 0 {
				dirty, _ = strconv.ParseInt(w[1][i+1:], 16, 32)
				w[1] = w[1][:i]
			}
			np, ok := c.newPolyDirty(w[0], strings.ReplaceAll(w[1], ".", ","), int(dirty))
			if !ok {
				return p, out, false
			}
			alt, p = p, np
		case 'x':
			if alt == nil {
				return p, out, false
			}
			alt, p = p, alt
		case 'd':
			// the following conversions use domains with this coset shift (fft.WithShift)
			s := parseBig(rest)
			if s.Sign() == 0 || s.Cmp(c.Q()) >= 0 {
				return p, out, false
			}
			if s.Cmp(c.MulGen()) == 0 {
				dom = baseDom
			} else {
				sh := c.el(rest)
				dom = func(m int) *fft_bls24315.Domain {
					k := rest + "/" + strconv.Itoa(m)
					d, ok := shifted[k]
					if !ok {
						d = fft_bls24315.NewDomain(uint64(1)<<m, fft_bls24315.WithShift(sh))
						shifted[k] = d
					}
					return d
				}
			}
		case 'r':
			// p.ReadFrom(bytes of the second object): the receiver has a past
			if alt == nil {
				return p, out, false
			}
			var buf bytes.Buffer
			if _, err := alt.WriteTo(&buf); err != nil {
				return p, out, false
			}
			total := buf.Len()
			n, err := p.ReadFrom(&buf)
			if err != nil || int(n) != total {
				return p, out, false
			}
		case 'c':
			if rest == "" {
				p = p.Clone()
			} else {
				z, _ := strconv.ParseInt(rest, 16, 32)
				p = p.Clone(int(z))
			}
		case 'h':
			p = p.ShallowClone()
		case 'w':
			var buf bytes.Buffer
			n, err := p.WriteTo(&buf)
			if err != nil || int(n) != buf.Len() {
				return p, out, false
			}
			total := buf.Len()
			q := new(iop_bls24315.Polynomial)
			n, err = q.ReadFrom(&buf)
			if err != nil || int(n) != total {
				return p, out, false
			}
			p = q
		case 'W':
			var buf bytes.Buffer
			if _, err := p.WriteTo(&buf); err != nil {
				return p, out, false
			}
			out = append(out, hexBytes(buf.Bytes()))
		case 'E':
			x := c.el(rest)
			out = append(out, guard(func() string { return c.hex(p.Evaluate(x)) }))
		case 'G':
			out = append(out, guard(func() string {
				n := len(p.Coefficients())
				v := make([]fr_bls24315.Element, n)
				for i := 0; i < n; i++ {
					v[i] = p.GetCoeff(i)
				}
				return c.show(v)
			}))
		case 'g':
			i, _ := strconv.ParseInt(rest, 16, 64)
			out = append(out, guard(func() string { return c.hex(p.GetCoeff(int(i))) }))
		case 'F':
			out = append(out, c.dump(p))
		default:
			return p, out, false
		}
	}
	return p, out, true
}

func (c *c20_bls24315) Script(form, coeffs, script string) string {
	dirty := int64(0)
	if strings.HasPrefix(script, "D") {
		// D<k> as the first token: the initial object lives in a buffer with k dirty entries behind it
		first := script
		if i := strings.IndexByte(script, ','); i >= 0 {
			first, script = script[:i], script[i+1:]
		} else {
			script = "-"
		}
		var err error
		dirty, err = strconv.ParseInt(first[1:], 16, 32)
		if err != nil || dirty < 0 || dirty > 1<<12 {
			return "bad-op"
		}
	}
	p, ok := c.newPolyDirty(form, coeffs, int(dirty))
	if !ok {
		return "bad-op"
	}
	_, out, ok := c.script(p, script)
	if !ok {
		return "bad-op"
	}
	if len(out) == 0 {
		return "-"
	}
	return strings.Join(out, " ")
}

func (c *c20_bls24315) polys(k int, a []string) ([]*iop_bls24315.Polynomial, []string, bool) {
	ps := make([]*iop_bls24315.Polynomial, 0, k)
	for i := 0; i < k; i++ {
		if len(a) < 4 {
			return nil, nil, false
		}
		p, ok := c.newPoly(a[0], a[1])
		if !ok {
			return nil, nil, false
		}
		p.Shift(int(c20parseInt(a[2])))
		z, _ := strconv.ParseInt(a[3], 16, 64)
		p.SetSize(int(z))
		ps = append(ps, p)
		a = a[4:]
	}
	return ps, a, true
}

func (c *c20_bls24315) Expr(resform, rmode string, eid, k int, rest []string) string {
	f, ok := c.form(resform)
	if !ok {
		return "bad-op"
	}
	ps, rest, ok := c.polys(k, rest)
	if !ok || len(rest) != 0 {
		return "bad-op"
	}
	var r []fr_bls24315.Element
	if rmode != "nil" {
		n, _ := strconv.ParseInt(rmode, 16, 32)
		r = make([]fr_bls24315.Element, n)
	}
	get := func(x []fr_bls24315.Element, j int) (e fr_bls24315.Element) {
		if j < len(x) {
			e = x[j]
		}
		return
	}
	expr := func(i int, x ...fr_bls24315.Element) fr_bls24315.Element {
		a, b, cc := get(x, 0), get(x, 1), get(x, 2)
		var res, t fr_bls24315.Element
		switch eid {
		case 0:
			res.Mul(&a, &b).Add(&res, &cc)
		case 1:
			t.SetUint64(uint64(i))
			res.Add(&a, &t)
		case 2:
			res.Mul(&a, &a)
			t.Mul(&b, &cc)
			res.Sub(&res, &t)
			t.SetUint64(uint64(i * i))
			res.Add(&res, &t)
		default:
			for j := range x {
				res.Add(&res, &x[j])
			}
		}
		return res
	}
	// iop.Evaluate calls x[j].GetCoeff(i) inside parallel.Execute goroutines: a panic there cannot be recovered and
	// kills the process. Probe the same calls here first, so that such a line answers "panic" instead.
	if len(ps) > 0 {
		consistent := true
		for _, p := range ps {
			if len(p.Coefficients()) != len(ps[0].Coefficients()) {
				consistent = false
			}
		}
		if consistent && (r == nil || len(r) == len(ps[0].Coefficients())) {
			crashed := func() (c bool) {
				defer func() {
					if recover() != nil {
						c = true
					}
				}()
				for _, p := range ps {
					for i := range p.Coefficients() {
						p.GetCoeff(i)
					}
				}
				return false
			}()
			if crashed {
				return "panic"
			}
		}
	}
	res, err := iop_bls24315.Evaluate(expr, r, f, ps...)
	if err != nil {
		if err == iop_bls24315.ErrInconsistentSize {
			return "err:size"
		}
		return "err:noinput"
	}
	return c.dump(res)
}

func (c *c20_bls24315) DivX(m0, m1 int, form, coeffs, script string) string {
	p, ok := c.newPoly(form, coeffs)
	if !ok {
		return "bad-op"
	}
	p, _, ok = c.script(p, script)
	if !ok {
		return "bad-op"
	}
	res, err := iop_bls24315.DivideByXMinusOne(p, [2]*fft_bls24315.Domain{c.dom(m0), c.dom(m1)})
	if err != nil {
		return "err:basis"
	}
	return c.dump(res)
}

// DivideByXMinusOne on domains whose coset shift is `shift` (fft.WithShift). shapeOnly: the line lies outside the domain
// where the division is defined (shift^|big| = 1): only "no panic, no error, shape of the result" is reported.
func (c *c20_bls24315) DivXS(m0, m1 int, shift, form, coeffs, script string, shapeOnly bool) string {
	p, ok := c.newPoly(form, coeffs)
	if !ok {
		return "bad-op"
	}
	s := c.el(shift)
	doms := map[int]*fft_bls24315.Domain{}
	dom := func(m int) *fft_bls24315.Domain {
		d, ok := doms[m]
		if !ok {
			d = fft_bls24315.NewDomain(uint64(1)<<m, fft_bls24315.WithShift(s))
			doms[m] = d
		}
		return d
	}
	p, _, ok = c.scriptD(p, script, dom)
	if !ok {
		return "bad-op"
	}
	res, err := iop_bls24315.DivideByXMinusOne(p, [2]*fft_bls24315.Domain{dom(m0), dom(m1)})
	if err != nil {
		return "err:basis"
	}
	if shapeOnly {
		return "undef " + c.showForm(res.Basis, res.Layout) + "/" + c20int(c.shiftOf(res)) + "/" + strconv.FormatInt(int64(res.Size()), 16) +
			"/" + strconv.FormatInt(int64(len(res.Coefficients())), 16)
	}
	return c.dump(res)
}

func (c *c20_bls24315) ratioErr(err error) string {
	switch err {
	case iop_bls24315.ErrInconsistentSize:
		return "err:size"
	case iop_bls24315.ErrSizeNotPowerOfTwo:
		return "err:pow2"
	case iop_bls24315.ErrInconsistentSizeDomain:
		return "err:domain"
	case iop_bls24315.ErrNumberPolynomials:
		return "err:number"
	}
	return "err:other"
}

func (c *c20_bls24315) ratioOut(res *iop_bls24315.Polynomial, xs string) string {
	s := c.dump(res)
	if xs != "-" {
		s += " " + c.hex(res.Evaluate(c.el(xs)))
	}
	return s
}

func (c *c20_bls24315) RatioS(resform, beta, xs string, k int, rest []string) string {
	f, ok := c.form(resform)
	if !ok {
		return "bad-op"
	}
	ps, rest, ok := c.polys(2*k, rest)
	if !ok || len(rest) != 0 {
		return "bad-op"
	}
	var d *fft_bls24315.Domain
	if n := len(ps[0].Coefficients()); n > 0 && n&(n-1) == 0 {
		d = c.dom(bits.TrailingZeros(uint(n)))
	}
	res, err := iop_bls24315.BuildRatioShuffledVectors(ps[:k], ps[k:], c.el(beta), f, d)
	if err != nil {
		return c.ratioErr(err)
	}
	return c.ratioOut(res, xs)
}

func (c *c20_bls24315) RatioC(resform, beta, gamma, perms, xs string, k int, rest []string) string {
	f, ok := c.form(resform)
	if !ok {
		return "bad-op"
	}
	ps, rest, ok := c.polys(k, rest)
	if !ok || len(rest) != 0 {
		return "bad-op"
	}
	w := strings.Split(perms, ",")
	perm := make([]int64, len(w))
	for i := range w {
		perm[i], _ = strconv.ParseInt(w[i], 16, 64)
	}
	var d *fft_bls24315.Domain
	if n := len(ps[0].Coefficients()); n > 0 && n&(n-1) == 0 {
		d = c.dom(bits.TrailingZeros(uint(n)))
	}
	res, err := iop_bls24315.BuildRatioCopyConstraint(ps, perm, c.el(beta), c.el(gamma), f, d)
	if err != nil {
		return c.ratioErr(err)
	}
	return c.ratioOut(res, xs)
}

func (c *c20_bls24315) Read(data []byte) string {
	p := new(iop_bls24315.Polynomial)
	_, err := p.ReadFrom(bytes.NewReader(data))
	if err != nil {
		if err == io.EOF || err == io.ErrUnexpectedEOF {
			return "err:eof"
		}
		return "err:range"
	}
	return fmt.Sprintf("ok %x %x %s %x %s", uint32(p.Basis), uint32(p.Layout), c20int(c.shiftOf(p)), p.Size(), c.show(p.Coefficients()))
}

// package polynomial
func (c *c20_bls24315) Poly(op string, a []string) string {
	switch op {
	case "peval":
		p := poly_bls24315.Polynomial(c.vec(a[0]))
		x := c.el(a[1])
		return c.hex(p.Eval(&x))
	case "interp":
		res := poly_bls24315.InterpolateOnRange(c.vec(a[0]))
		s := c.show(res)
		// the returned polynomial belongs to the caller: overwriting it must not influence later calls
		for i := range res {
			res[i].SetUint64(uint64(0xdead00 + i))
		}
		return s
	case "padd", "psub":
		mode := a[0]
		p := poly_bls24315.Polynomial(c.vec(a[1]))
		p1 := poly_bls24315.Polynomial(c.vec(a[2]))
		p2 := poly_bls24315.Polynomial(c.vec(a[3]))
		switch mode {
		case "a1":
			p = p1
		case "a2":
			p = p2
		case "a12":
			p2 = p1
			p = p1
		}
		if op == "padd" {
			r := p.Add(p1, p2)
			if r != &p {
				return "wrong-return"
			}
			return c.show(p)
		}
		if r := p.Sub(p1, p2); r == nil {
			return "nil"
		}
		return c.show(p)
	case "pscale":
		mode := a[0]
		cc := c.el(a[1])
		p0 := poly_bls24315.Polynomial(c.vec(a[2]))
		var p poly_bls24315.Polynomial
		switch mode {
		case "same":
			p = make(poly_bls24315.Polynomial, len(p0))
			for i := range p {
				p[i].SetUint64(uint64(7 + i))
			}
		case "alias":
			p = p0
		}
		p.Scale(&cc, p0)
		return c.show(p)
	case "pconst":
		cc := c.el(a[1])
		p := poly_bls24315.Polynomial(c.vec(a[2]))
		switch a[0] {
		case "add":
			p.AddConstantInPlace(&cc)
		case "sub":
			p.SubConstantInPlace(&cc)
		case "scale":
			p.ScaleInPlace(&cc)
		default:
			return "bad-op"
		}
		return c.show(p)
	case "mlfold":
		m := poly_bls24315.MultiLin(c.vec(a[0]))
		m.Fold(c.el(a[1]))
		return c.show(m)
	case "mleval":
		m := poly_bls24315.MultiLin(c.vec(a[1]))
		keep := append([]fr_bls24315.Element{}, m...)
		var res fr_bls24315.Element
		if a[0] == "1" {
			pool := poly_bls24315.NewPool(8, 256)
			res = m.Evaluate(c.vec(a[2]), &pool)
		} else if a[0] == "2" {
			c20mu.Lock()
			if c.pool == nil {
				pool := poly_bls24315.NewPool(8, 256)
				c.pool = &pool
			}
			pool := c.pool
			c20mu.Unlock()
			res = m.Evaluate(c.vec(a[2]), pool)
		} else {
			res = m.Evaluate(c.vec(a[2]), nil)
		}
		for i := range m {
			if !m[i].Equal(&keep[i]) {
				return "input-modified"
			}
		}
		return c.hex(res)
	case "mleq":
		m := poly_bls24315.MultiLin(c.vec(a[0]))
		m.Eq(c.vec(a[1]))
		return c.show(m)
	case "evaleq":
		return c.hex(poly_bls24315.EvalEq(c.vec(a[0]), c.vec(a[1])))
	case "mlsum":
		m := poly_bls24315.MultiLin(c.vec(a[0]))
		return c.hex(m.Sum())
	}
	return "bad-op"
}

// ---------------------------------------------------------------- bls24-317

type c20_bls24317 struct {
	doms map[int]*fft_bls24317.Domain
	pool *poly_bls24317.Pool // lives as long as the process (mleval mode 2)
}

func init() { c20register(&c20_bls24317{doms: map[int]*fft_bls24317.Domain{}}) }

func (c *c20_bls24317) Name() string { return "bls24-317" }
func (c *c20_bls24317) Q() *big.Int  { return fr_bls24317.Modulus() }
func (c *c20_bls24317) NBytes() int  { return fr_bls24317.Bytes }
func (c *c20_bls24317) Gen(m uint64) *big.Int {
	g, err := fft_bls24317.Generator(m)
	if err != nil {
		panic(err)
	}
	return g.BigInt(new(big.Int))
}
func (c *c20_bls24317) MulGen() *big.Int {
	g := fft_bls24317.GeneratorFullMultiplicativeGroup()
	return g.BigInt(new(big.Int))
}
func (c *c20_bls24317) dom(m int) *fft_bls24317.Domain {
	c20mu.Lock()
	defer c20mu.Unlock()
	d, ok := c.doms[m]
	if !ok {
		d = fft_bls24317.NewDomain(uint64(1) << m)
		c.doms[m] = d
	}
	return d
}
func (c *c20_bls24317) el(s string) (e fr_bls24317.Element) {
	e.SetBigInt(parseBig(s))
	return
}
func (c *c20_bls24317) hex(e fr_bls24317.Element) string { return hexBig(e.BigInt(new(big.Int))) }
func (c *c20_bls24317) vec(s string) []fr_bls24317.Element {
	if s == "-" {
		return []fr_bls24317.Element{}
	}
	w := strings.Split(s, ",")
	v := make([]fr_bls24317.Element, len(w))
	for i := range w {
		v[i] = c.el(w[i])
	}
	return v
}
func (c *c20_bls24317) show(v []fr_bls24317.Element) string {
	if len(v) == 0 {
		return "-"
	}
	w := make([]string, len(v))
	for i := range v {
		w[i] = c.hex(v[i])
	}
	return strings.Join(w, ",")
}
func (c *c20_bls24317) form(s string) (iop_bls24317.Form, bool) {
	var f iop_bls24317.Form
	if len(s) != 2 {
		return f, false
	}
	switch s[0] {
	case 'c':
		f.Basis = iop_bls24317.Canonical
	case 'l':
		f.Basis = iop_bls24317.Lagrange
	case 'k':
		f.Basis = iop_bls24317.LagrangeCoset
	default:
		return f, false
	}
	switch s[1] {
	case 'r':
		f.Layout = iop_bls24317.Regular
	case 'b':
		f.Layout = iop_bls24317.BitReverse
	default:
		return f, false
	}
	return f, true
}
func (c *c20_bls24317) showForm(b iop_bls24317.Basis, l iop_bls24317.Layout) string {
	s := "?"
	switch b {
	case iop_bls24317.Canonical:
		s = "c"
	case iop_bls24317.Lagrange:
		s = "l"
	case iop_bls24317.LagrangeCoset:
		s = "k"
	}
	switch l {
	case iop_bls24317.Regular:
		return s + "r"
	case iop_bls24317.BitReverse:
		return s + "b"
	}
	return s + "?"
}
func (c *c20_bls24317) shiftOf(p *iop_bls24317.Polynomial) int64 {
	return reflect.ValueOf(p).Elem().FieldByName("shift").Int()
}
func (c *c20_bls24317) dump(p *iop_bls24317.Polynomial) string {
	return c.showForm(p.Basis, p.Layout) + "/" + c20int(c.shiftOf(p)) + "/" + strconv.FormatInt(int64(p.Size()), 16) + "/" + c.show(p.Coefficients())
}
func (c *c20_bls24317) newPoly(form, coeffs string) (*iop_bls24317.Polynomial, bool) {
	return c.newPolyDirty(form, coeffs, 0)
}

// the polynomial is built over a prefix view of a buffer that holds `dirty` more, non-zero, entries behind the view
// (a chunk h[:n] of a larger vector, a truncated vector): spare capacity with old data
func (c *c20_bls24317) newPolyDirty(form, coeffs string, dirty int) (*iop_bls24317.Polynomial, bool) {
	f, ok := c.form(form)
	if !ok {
		return nil, false
	}
	v := c.vec(coeffs)
	if dirty > 0 {
		buf := make([]fr_bls24317.Element, len(v)+dirty)
		copy(buf, v)
		for i := len(v); i < len(buf); i++ {
			buf[i].SetUint64(uint64(0xd1d100 + i))
		}
		v = buf[:len(v)]
	}
	return iop_bls24317.NewPolynomial(&v, f), true
}

// runs a script on p; observations are appended to out
func (c *c20_bls24317) script(p *iop_bls24317.Polynomial, script string) (*iop_bls24317.Polynomial, []string, bool) {
	return c.scriptD(p, script, c.dom)
}

// the same with the domains supplied by the caller (domains with a caller-chosen coset shift)
func (c *c20_bls24317) scriptD(p *iop_bls24317.Polynomial, script string, dom func(int) *fft_bls24317.Domain) (*iop_bls24317.Polynomial, []string, bool) {
	out := []string{}
	if script == "-" {
		return p, out, true
	}
	var alt *iop_bls24317.Polynomial // second object of the script (N, H, x, r)
	shifted := map[string]*fft_bls24317.Domain{}
	baseDom := dom
	guard := func(f func() string) (res string) {
		defer func() {
			if r := recover(); r != nil {
				res = "panic"
			}
		}()
		return f()
	}
	for _, tok := range strings.Split(script, ",") {
		if tok == "" {
			return p, out, false
		}
		rest := tok[1:]
		arg, tasks := rest, []int{}
		if i := strings.IndexByte(rest, '/'); i >= 0 {
			arg = rest[:i]
			t, _ := strconv.ParseInt(rest[i+1:], 16, 32)
			tasks = []int{int(t)}
		}
		switch tok[0] {
		case 'L', 'C', 'K':
			m, err := strconv.ParseInt(arg, 16, 32)
			if err != nil || m > 20 {
				return p, out, false
			}
			d := dom(int(m))
			switch tok[0] {
			case 'L':
				p = p.ToLagrange(d, tasks...)
			case 'C':
				p = p.ToCanonical(d, tasks...)
			case 'K':
				p = p.ToLagrangeCoset(d)
			}
		case 'R':
			p = p.ToRegular()
		case 'B':
			p = p.ToBitReverse()
		case 'S':
			p = p.Shift(int(c20parseInt(rest)))
		case 'Z':
			z, _ := strconv.ParseInt(rest, 16, 64)
			p.SetSize(int(z))
		case 'H':
			alt = p.ShallowClone()
		case 'N':
			// N<form>:<c0>.<c1>.…[+k]: a new object becomes current, the previous one becomes the second object
			w := strings.SplitN(rest, ":", 2)
			if len(w) != 2 {
				return p, out, false
			}
			dirty := int64(0)
			if i := strings.IndexByte(w[1], '+'); i >= 0 {
				dirty, _ = strconv.ParseInt(w[1][i+1:], 16, 32)
				w[1] = w[1][:i]
			}
			np, ok := c.newPolyDirty(w[0], strings.ReplaceAll(w[1], ".", ","), int(dirty))
			if !ok {
				return p, out, false
			}
			alt, p = p, np
		case 'x':
			if alt == nil {
				return p, out, false
			}
			alt, p = p, alt
		case 'd':
			// the following conversions use domains with this coset shift (fft.WithShift)
			s := parseBig(rest)
			if s.Sign() == 0 || s.Cmp(c.Q()) >= 0 {
				return p, out, false
			}
			if s.Cmp(c.MulGen()) == 0 {
				dom = baseDom
			} else {
				sh := c.el(rest)
				dom = func(m int) *fft_bls24317.Domain {
					k := rest + "/" + strconv.Itoa(m)
					d, ok := shifted[k]
					if !ok {
						d = fft_bls24317.NewDomain(uint64(1)<<m, fft_bls24317.WithShift(sh))
						shifted[k] = d
					}
					return d
				}
			}
		case 'r':
			// p.ReadFrom(bytes of the second object): the receiver has a past
			if alt == nil {
				return p, out, false
			}
			var buf bytes.Buffer
			if _, err := alt.WriteTo(&buf); err != nil {
				return p, out, false
			}
			total := buf.Len()
			n, err := p.ReadFrom(&buf)
			if err != nil || int(n) != total {
				return p, out, false
			}
		case 'c':
			if rest == "" {
				p = p.Clone()
			} else {
				z, _ := strconv.ParseInt(rest, 16, 32)
				p = p.Clone(int(z))
			}
		case 'h':
			p = p.ShallowClone()
		case 'w':
			var buf bytes.Buffer
			n, err := p.WriteTo(&buf)
			if err != nil || int(n) != buf.Len() {
				return p, out, false
			}
			total := buf.Len()
			q := new(iop_bls24317.Polynomial)
			n, err = q.ReadFrom(&buf)
			if err != nil || int(n) != total {
				return p, out, false
			}
			p = q
		case 'W':
			var buf bytes.Buffer
			if _, err := p.WriteTo(&buf); err != nil {
				return p, out, false
			}
			out = append(out, hexBytes(buf.Bytes()))
		case 'E':
			x := c.el(rest)
			out = append(out, guard(func() string { return c.hex(p.Evaluate(x)) }))
		case 'G':
			out = append(out, guard(func() string {
				n := len(p.Coefficients())
				v := make([]fr_bls24317.Element, n)
				for i := 0; i < n; i++ {
					v[i] = p.GetCoeff(i)
				}
				return c.show(v)
			}))
		case 'g':
			i, _ := strconv.ParseInt(rest, 16, 64)
			out = append(out, guard(func() string { return c.hex(p.GetCoeff(int(i))) }))
		case 'F':
			out = append(out, c.dump(p))
		default:
			return p, out, false
		}
	}
	return p, out, true
}

func (c *c20_bls24317) Script(form, coeffs, script string) string {
	dirty := int64(0)
	if strings.HasPrefix(script, "D") {
		// D<k> as the first token: the initial object lives in a buffer with k dirty entries behind it
		first := script
		if i := strings.IndexByte(script, ','); i >= 0 {
			first, script = script[:i], script[i+1:]
		} else {
			script = "-"
		}
		var err error
		dirty, err = strconv.ParseInt(first[1:], 16, 32)
		if err != nil || dirty < 0 || dirty > 1<<12 {
			return "bad-op"
		}
	}
	p, ok := c.newPolyDirty(form, coeffs, int(dirty))
	if !ok {
		return "bad-op"
	}
	_, out, ok := c.script(p, script)
	if !ok {
		return "bad-op"
	}
	if len(out) == 0 {
		return "-"
	}
	return strings.Join(out, " ")
}

func (c *c20_bls24317) polys(k int, a []string) ([]*iop_bls24317.Polynomial, []string, bool) {
	ps := make([]*iop_bls24317.Polynomial, 0, k)
	for i := 0; i < k; i++ {
		if len(a) < 4 {
			return nil, nil, false
		}
		p, ok := c.newPoly(a[0], a[1])
		if !ok {
			return nil, nil, false
		}
		p.Shift(int(c20parseInt(a[2])))
		z, _ := strconv.ParseInt(a[3], 16, 64)
		p.SetSize(int(z))
		ps = append(ps, p)
		a = a[4:]
	}
	return ps, a, true
}

func (c *c20_bls24317) Expr(resform, rmode string, eid, k int, rest []string) string {
	f, ok := c.form(resform)
	if !ok {
		return "bad-op"
	}
	ps, rest, ok := c.polys(k, rest)
	if !ok || len(rest) != 0 {
		return "bad-op"
	}
	var r []fr_bls24317.Element
	if rmode != "nil" {
		n, _ := strconv.ParseInt(rmode, 16, 32)
		r = make([]fr_bls24317.Element, n)
	}
	get := func(x []fr_bls24317.Element, j int) (e fr_bls24317.Element) {
		if j < len(x) {
			e = x[j]
		}
		return
	}
	expr := func(i int, x ...fr_bls24317.Element) fr_bls24317.Element {
		a, b, cc := get(x, 0), get(x, 1), get(x, 2)
		var res, t fr_bls24317.Element
		switch eid {
		case 0:
			res.Mul(&a, &b).Add(&res, &cc)
		case 1:
			t.SetUint64(uint64(i))
			res.Add(&a, &t)
		case 2:
			res.Mul(&a, &a)
			t.Mul(&b, &cc)
			res.Sub(&res, &t)
			t.SetUint64(uint64(i * i))
			res.Add(&res, &t)
		default:
			for j := range x {
				res.Add(&res, &x[j])
			}
		}
		return res
	}
	// iop.Evaluate calls x[j].GetCoeff(i) inside parallel.Execute goroutines: a panic there cannot be recovered and
	// kills the process. Probe the same calls here first, so that such a line answers "panic" instead.
	if len(ps) > 0 {
		consistent := true
		for _, p := range ps {
			if len(p.Coefficients()) != len(ps[0].Coefficients()) {
				consistent = false
			}
		}
		if consistent && (r == nil || len(r) == len(ps[0].Coefficients())) {
			crashed := func() (c bool) {
				defer func() {
					if recover() != nil {
						c = true
					}
				}()
				for _, p := range ps {
					for i := range p.Coefficients() {
						p.GetCoeff(i)
					}
				}
				return false
			}()
			if crashed {
				return "panic"
			}
		}
	}
	res, err := iop_bls24317.Evaluate(expr, r, f, ps...)
	if err != nil {
		if err == iop_bls24317.ErrInconsistentSize {
			return "err:size"
		}
		return "err:noinput"
	}
	return c.dump(res)
}

func (c *c20_bls24317) DivX(m0, m1 int, form, coeffs, script string) string {
	p, ok := c.newPoly(form, coeffs)
	if !ok {
		return "bad-op"
	}
	p, _, ok = c.script(p, script)
	if !ok {
		return "bad-op"
	}
	res, err := iop_bls24317.DivideByXMinusOne(p, [2]*fft_bls24317.Domain{c.dom(m0), c.dom(m1)})
	if err != nil {
		return "err:basis"
	}
	return c.dump(res)
}

// DivideByXMinusOne on domains whose coset shift is `shift` (fft.WithShift). shapeOnly: the line lies outside the domain
// where the division is defined (shift^|big| = 1): only "no panic, no error, shape of the result" is reported.
func (c *c20_bls24317) DivXS(m0, m1 int, shift, form, coeffs, script string, shapeOnly bool) string {
	p, ok := c.newPoly(form, coeffs)
	if !ok {
		return "bad-op"
	}
	s := c.el(shift)
	doms := map[int]*fft_bls24317.Domain{}
	dom := func(m int) *fft_bls24317.Domain {
		d, ok := doms[m]
		if !ok {
			d = fft_bls24317.NewDomain(uint64(1)<<m, fft_bls24317.WithShift(s))
			doms[m] = d
		}
		return d
	}
	p, _, ok = c.scriptD(p, script, dom)
	if !ok {
		return "bad-op"
	}
	res, err := iop_bls24317.DivideByXMinusOne(p, [2]*fft_bls24317.Domain{dom(m0), dom(m1)})
	if err != nil {
		return "err:basis"
	}
	if shapeOnly {
		return "undef " + c.showForm(res.Basis, res.Layout) + "/" + c20int(c.shiftOf(res)) + "/" + strconv.FormatInt(int64(res.Size()), 16) +
			"/" + strconv.FormatInt(int64(len(res.Coefficients())), 16)
	}
	return c.dump(res)
}

func (c *c20_bls24317) ratioErr(err error) string {
	switch err {
	case iop_bls24317.ErrInconsistentSize:
		return "err:size"
	case iop_bls24317.ErrSizeNotPowerOfTwo:
		return "err:pow2"
	case iop_bls24317.ErrInconsistentSizeDomain:
		return "err:domain"
	case iop_bls24317.ErrNumberPolynomials:
		return "err:number"
	}
	return "err:other"
}

func (c *c20_bls24317) ratioOut(res *iop_bls24317.Polynomial, xs string) string {
	s := c.dump(res)
	if xs != "-" {
		s += " " + c.hex(res.Evaluate(c.el(xs)))
	}
	return s
}

func (c *c20_bls24317) RatioS(resform, beta, xs string, k int, rest []string) string {
	f, ok := c.form(resform)
	if !ok {
		return "bad-op"
	}
	ps, rest, ok := c.polys(2*k, rest)
	if !ok || len(rest) != 0 {
		return "bad-op"
	}
	var d *fft_bls24317.Domain
	if n := len(ps[0].Coefficients()); n > 0 && n&(n-1) == 0 {
		d = c.dom(bits.TrailingZeros(uint(n)))
	}
	res, err := iop_bls24317.BuildRatioShuffledVectors(ps[:k], ps[k:], c.el(beta), f, d)
	if err != nil {
		return c.ratioErr(err)
	}
	return c.ratioOut(res, xs)
}

func (c *c20_bls24317) RatioC(resform, beta, gamma, perms, xs string, k int, rest []string) string {
	f, ok := c.form(resform)
	if !ok {
		return "bad-op"
	}
	ps, rest, ok := c.polys(k, rest)
	if !ok || len(rest) != 0 {
		return "bad-op"
	}
	w := strings.Split(perms, ",")
	perm := make([]int64, len(w))
	for i := range w {
		perm[i], _ = strconv.ParseInt(w[i], 16, 64)
	}
	var d *fft_bls24317.Domain
	if n := len(ps[0].Coefficients()); n > 0 && n&(n-1) == 0 {
		d = c.dom(bits.TrailingZeros(uint(n)))
	}
	res, err := iop_bls24317.BuildRatioCopyConstraint(ps, perm, c.el(beta), c.el(gamma), f, d)
	if err != nil {
		return c.ratioErr(err)
	}
	return c.ratioOut(res, xs)
}

func (c *c20_bls24317) Read(data []byte) string {
	p := new(iop_bls24317.Polynomial)
	_, err := p.ReadFrom(bytes.NewReader(data))
	if err != nil {
		if err == io.EOF || err == io.ErrUnexpectedEOF {
			return "err:eof"
		}
		return "err:range"
	}
	return fmt.Sprintf("ok %x %x %s %x %s", uint32(p.Basis), uint32(p.Layout), c20int(c.shiftOf(p)), p.Size(), c.show(p.Coefficients()))
}

// package polynomial
func (c *c20_bls24317) Poly(op string, a []string) string {
	switch op {
	case "peval":
		p := poly_bls24317.Polynomial(c.vec(a[0]))
		x := c.el(a[1])
		return c.hex(p.Eval(&x))
	case "interp":
		res := poly_bls24317.InterpolateOnRange(c.vec(a[0]))
		s := c.show(res)
		// the returned polynomial belongs to the caller: overwriting it must not influence later calls
		for i := range res {
			res[i].SetUint64(uint64(0xdead00 + i))
		}
		return s
	case "padd", "psub":
		mode := a[0]
		p := poly_bls24317.Polynomial(c.vec(a[1]))
		p1 := poly_bls24317.Polynomial(c.vec(a[2]))
		p2 := poly_bls24317.Polynomial(c.vec(a[3]))
		switch mode {
		case "a1":
			p = p1
		case "a2":
			p = p2
		case "a12":
			p2 = p1
			p = p1
		}
		if op == "padd" {
			r := p.Add(p1, p2)
			if r != &p {
				return "wrong-return"
			}
			return c.show(p)
		}
		if r := p.Sub(p1, p2); r == nil {
			return "nil"
		}
		return c.show(p)
	case "pscale":
		mode := a[0]
		cc := c.el(a[1])
		p0 := poly_bls24317.Polynomial(c.vec(a[2]))
		var p poly_bls24317.Polynomial
		switch mode {
		case "same":
			p = make(poly_bls24317.Polynomial, len(p0))
			for i := range p {
				p[i].SetUint64(uint64(7 + i))
			}
		case "alias":
			p = p0
		}
		p.Scale(&cc, p0)
		return c.show(p)
	case "pconst":
		cc := c.el(a[1])
		p := poly_bls24317.Polynomial(c.vec(a[2]))
		switch a[0] {
		case "add":
			p.AddConstantInPlace(&cc)
		case "sub":
			p.SubConstantInPlace(&cc)
		case "scale":
			p.ScaleInPlace(&cc)
		default:
			return "bad-op"
		}
		return c.show(p)
	case "mlfold":
		m := poly_bls24317.MultiLin(c.vec(a[0]))
		m.Fold(c.el(a[1]))
		return c.show(m)
	case "mleval":
		m := poly_bls24317.MultiLin(c.vec(a[1]))
		keep := append([]fr_bls24317.Element{}, m...)
		var res fr_bls24317.Element
		if a[0] == "1" {
			pool := poly_bls24317.NewPool(8, 256)
			res = m.Evaluate(c.vec(a[2]), &pool)
		} else if a[0] == "2" {
			c20mu.Lock()
			if c.pool == nil {
				pool := poly_bls24317.NewPool(8, 256)
				c.pool = &pool
			}
			pool := c.pool
			c20mu.Unlock()
			res = m.Evaluate(c.vec(a[2]), pool)
		} else {
			res = m.Evaluate(c.vec(a[2]), nil)
		}
		for i := range m {
			if !m[i].Equal(&keep[i]) {
				return "input-modified"
			}
		}
		return c.hex(res)
	case "mleq":
		m := poly_bls24317.MultiLin(c.vec(a[0]))
		m.Eq(c.vec(a[1]))
		return c.show(m)
	case "evaleq":
		return c.hex(poly_bls24317.EvalEq(c.vec(a[0]), c.vec(a[1])))
	case "mlsum":
		m := poly_bls24317.MultiLin(c.vec(a[0]))
		return c.hex(m.Sum())
	}
	return "bad-op"
}

// ---------------------------------------------------------------- bw6-633

type c20_bw6633 struct {
	doms map[int]*fft_bw6633.Domain
	pool *poly_bw6633.Pool // lives as long as the process (mleval mode 2)
}

func init() { c20register(&c20_bw6633{doms: map[int]*fft_bw6633.Domain{}}) }

func (c *c20_bw6633) Name() string { return "bw6-633" }
func (c *c20_bw6633) Q() *big.Int  { return fr_bw6633.Modulus() }
func (c *c20_bw6633) NBytes() int  { return fr_bw6633.Bytes }
func (c *c20_bw6633) Gen(m uint64) *big.Int {
	g, err := fft_bw6633.Generator(m)
	if err != nil {
		panic(err)
	}
	return g.BigInt(new(big.Int))
}
func (c *c20_bw6633) MulGen() *big.Int {
	g := fft_bw6633.GeneratorFullMultiplicativeGroup()
	return g.BigInt(new(big.Int))
}
func (c *c20_bw6633) dom(m int) *fft_bw6633.Domain {
	c20mu.Lock()
	defer c20mu.Unlock()
	d, ok := c.doms[m]
	if !ok {
		d = fft_bw6633.NewDomain(uint64(1) << m)
		c.doms[m] = d
	}
	return d
}
func (c *c20_bw6633) el(s string) (e fr_bw6633.Element) {
	e.SetBigInt(parseBig(s))
	return
}
func (c *c20_bw6633) hex(e fr_bw6633.Element) string { return hexBig(e.BigInt(new(big.Int))) }
func (c *c20_bw6633) vec(s string) []fr_bw6633.Element {
	if s == "-" {
		return []fr_bw6633.Element{}
	}
	w := strings.Split(s, ",")
	v := make([]fr_bw6633.Element, len(w))
	for i := range w {
		v[i] = c.el(w[i])
	}
	return v
}
func (c *c20_bw6633) show(v []fr_bw6633.Element) string {
	if len(v) == 0 {
		return "-"
	}
	w := make([]string, len(v))
	for i := range v {
		w[i] = c.hex(v[i])
	}
	return strings.Join(w, ",")
}
func (c *c20_bw6633) form(s string) (iop_bw6633.Form, bool) {
	var f iop_bw6633.Form
	if len(s) != 2 {
		return f, false
	}
	switch s[0] {
	case 'c':
		f.Basis = iop_bw6633.Canonical
	case 'l':
		f.Basis = iop_bw6633.Lagrange
	case 'k':
		f.Basis = iop_bw6633.LagrangeCoset
	default:
		return f, false
	}
	switch s[1] {
	case 'r':
		f.Layout = iop_bw6633.Regular
	case 'b':
		f.Layout = iop_bw6633.BitReverse
	default:
		return f, false
	}
	return f, true
}
func (c *c20_bw6633) showForm(b iop_bw6633.Basis, l iop_bw6633.Layout) string {
	s := "?"
	switch b {
	case iop_bw6633.Canonical:
		s = "c"
	case iop_bw6633.Lagrange:
		s = "l"
	case iop_bw6633.LagrangeCoset:
		s = "k"
	}
	switch l {
	case iop_bw6633.Regular:
		return s + "r"
	case iop_bw6633.BitReverse:
		return s + "b"
	}
	return s + "?"
}
func (c *c20_bw6633) shiftOf(p *iop_bw6633.Polynomial) int64 {
	return reflect.ValueOf(p).Elem().FieldByName("shift").Int()
}
func (c *c20_bw6633) dump(p *iop_bw6633.Polynomial) string {
	return c.showForm(p.Basis, p.Layout) + "/" + c20int(c.shiftOf(p)) + "/" + strconv.FormatInt(int64(p.Size()), 16) + "/" + c.show(p.Coefficients())
}
func (c *c20_bw6633) newPoly(form, coeffs string) (*iop_bw6633.Polynomial, bool) {
	return c.newPolyDirty(form, coeffs, 0)
}

// the polynomial is built over a prefix view of a buffer that holds `dirty` more, non-zero, entries behind the view
// (a chunk h[:n] of a larger vector, a truncated vector): spare capacity with old data
func (c *c20_bw6633) newPolyDirty(form, coeffs string, dirty int) (*iop_bw6633.Polynomial, bool) {
	f, ok := c.form(form)
	if !ok {
		return nil, false
	}
	v := c.vec(coeffs)
	if dirty > 0 {
		buf := make([]fr_bw6633.Element, len(v)+dirty)
		copy(buf, v)
		for i := len(v); i < len(buf); i++ {
			buf[i].SetUint64(uint64(0xd1d100 + i))
		}
		v = buf[:len(v)]
	}
	return iop_bw6633.NewPolynomial(&v, f), true
}

// runs a script on p; observations are appended to out
func (c *c20_bw6633) script(p *iop_bw6633.Polynomial, script string) (*iop_bw6633.Polynomial, []string, bool) {
	return c.scriptD(p, script, c.dom)
}

// the same with the domains supplied by the caller (domains with a caller-chosen coset shift)
func (c *c20_bw6633) scriptD(p *iop_bw6633.Polynomial, script string, dom func(int) *fft_bw6633.Domain) (*iop_bw6633.Polynomial, []string, bool) {
	out := []string{}
	if script == "-" {
		return p, out, true
	}
	var alt *iop_bw6633.Polynomial // second object of the script (N, H, x, r)
	shifted := map[string]*fft_bw6633.Domain{}
	baseDom := dom
	guard := func(f func() string) (res string) {
		defer func() {
			if r := recover(); r != nil {
				res = "panic"
			}
		}()
		return f()
	}
	for _, tok := range strings.Split(script, ",") {
		if tok == "" {
			return p, out, false
		}
		rest := tok[1:]
		arg, tasks := rest, []int{}
		if i := strings.IndexByte(rest, '/'); i >= 0 {
			arg = rest[:i]
			t, _ := strconv.ParseInt(rest[i+1:], 16, 32)
			tasks = []int{int(t)}
		}
		switch tok[0] {
		case 'L', 'C', 'K':
			m, err := strconv.ParseInt(arg, 16, 32)
			if err != nil || m > 20 {
				return p, out, false
			}
			d := dom(int(m))
			switch tok[0] {
			case 'L':
				p = p.ToLagrange(d, tasks...)
			case 'C':
				p = p.ToCanonical(d, tasks...)
			case 'K':
				p = p.ToLagrangeCoset(d)
			}
		case 'R':
			p = p.ToRegular()
		case 'B':
			p = p.ToBitReverse()
		case 'S':
			p = p.Shift(int(c20parseInt(rest)))
		case 'Z':
			z, _ := strconv.ParseInt(rest, 16, 64)
			p.SetSize(int(z))
		case 'H':
			alt = p.ShallowClone()
		case 'N':
			// N<form>:<c0>.<c1>.…[+k]: a new object becomes current, the previous one becomes the second object
			w := strings.SplitN(rest, ":", 2)
			if len(w) != 2 {
				return p, out, false
			}
			dirty := int64(0)
			if i := strings.IndexByte(w[1], '+'); i >= 0 {
				dirty, _ = strconv.ParseInt(w[1][i+1:], 16, 32)
				w[1] = w[1][:i]
			}
			np, ok := c.newPolyDirty(w[0], strings.ReplaceAll(w[1], ".", ","), int(dirty))
			if !ok {
				return p, out, false
			}
			alt, p = p, np
		case 'x':
			if alt == nil {
				return p, out, false
			}
			alt, p = p, alt
		case 'd':
			// the following conversions use domains with this coset shift (fft.WithShift)
			s := parseBig(rest)
			if s.Sign() == 0 || s.Cmp(c.Q()) >= 0 {
				return p, out, false
			}
			if s.Cmp(c.MulGen()) == 0 {
				dom = baseDom
			} else {
				sh := c.el(rest)
				dom = func(m int) *fft_bw6633.Domain {
					k := rest + "/" + strconv.Itoa(m)
					d, ok := shifted[k]
					if !ok {
						d = fft_bw6633.NewDomain(uint64(1)<<m, fft_bw6633.WithShift(sh))
						shifted[k] = d
					}
					return d
				}
			}
		case 'r':
			// p.ReadFrom(bytes of the second object): the receiver has a past
			if alt == nil {
				return p, out, false
			}
			var buf bytes.Buffer
			if _, err := alt.WriteTo(&buf); err != nil {
				return p, out, false
			}
			total := buf.Len()
			n, err := p.ReadFrom(&buf)
			if err != nil || int(n) != total {
				return p, out, false
			}
		case 'c':
			if rest == "" {
				p = p.Clone()
			} else {
				z, _ := strconv.ParseInt(rest, 16, 32)
				p = p.Clone(int(z))
			}
		case 'h':
			p = p.ShallowClone()
		case 'w':
			var buf bytes.Buffer
			n, err := p.WriteTo(&buf)
			if err != nil || int(n) != buf.Len() {
				return p, out, false
			}
			total := buf.Len()
			q := new(iop_bw6633.Polynomial)
			n, err = q.ReadFrom(&buf)
			if err != nil || int(n) != total {
				return p, out, false
			}
			p = q
		case 'W':
			var buf bytes.Buffer
			if _, err := p.WriteTo(&buf); err != nil {
				return p, out, false
			}
			out = append(out, hexBytes(buf.Bytes()))
		case 'E':
			x := c.el(rest)
			out = append(out, guard(func() string { return c.hex(p.Evaluate(x)) }))
		case 'G':
			out = append(out, guard(func() string {
				n := len(p.Coefficients())
				v := make([]fr_bw6633.Element, n)
				for i := 0; i < n; i++ {
					v[i] = p.GetCoeff(i)
				}
				return c.show(v)
			}))
		case 'g':
			i, _ := strconv.ParseInt(rest, 16, 64)
			out = append(out, guard(func() string { return c.hex(p.GetCoeff(int(i))) }))
		case 'F':
			out = append(out, c.dump(p))
		default:
			return p, out, false
		}
	}
	return p, out, true
}

func (c *c20_bw6633) Script(form, coeffs, script string) string {
	dirty := int64(0)
	if strings.HasPrefix(script, "D") {
		// D<k> as the first token: the initial object lives in a buffer with k dirty entries behind it
		first := script
		if i := strings.IndexByte(script, ','); i >= 0 {
			first, script = script[:i], script[i+1:]
		} else {
			script = "-"
		}
		var err error
		dirty, err = strconv.ParseInt(first[1:], 16, 32)
		if err != nil || dirty < 0 || dirty > 1<<12 {
			return "bad-op"
		}
	}
	p, ok := c.newPolyDirty(form, coeffs, int(dirty))
	if !ok {
		return "bad-op"
	}
	_, out, ok := c.script(p, script)
	if !ok {
		return "bad-op"
	}
	if len(out) == 0 {
		return "-"
	}
	return strings.Join(out, " ")
}

func (c *c20_bw6633) polys(k int, a []string) ([]*iop_bw6633.Polynomial, []string, bool) {
	ps := make([]*iop_bw6633.Polynomial, 0, k)
	for i := 0; i < k; i++ {
		if len(a) < 4 {
			return nil, nil, false
		}
		p, ok := c.newPoly(a[0], a[1])
		if !ok {
			return nil, nil, false
		}
		p.Shift(int(c20parseInt(a[2])))
		z, _ := strconv.ParseInt(a[3], 16, 64)
		p.SetSize(int(z))
		ps = append(ps, p)
		a = a[4:]
	}
	return ps, a, true
}

func (c *c20_bw6633) Expr(resform, rmode string, eid, k int, rest []string) string {
	f, ok := c.form(resform)
	if !ok {
		return "bad-op"
	}
	ps, rest, ok := c.polys(k, rest)
	if !ok || len(rest) != 0 {
		return "bad-op"
	}
	var r []fr_bw6633.Element
	if rmode != "nil" {
		n, _ := strconv.ParseInt(rmode, 16, 32)
		r = make([]fr_bw6633.Element, n)
	}
	get := func(x []fr_bw6633.Element, j int) (e fr_bw6633.Element) {
		if j < len(x) {
			e = x[j]
		}
		return
	}
	expr := func(i int, x ...fr_bw6633.Element) fr_bw6633.Element {
		a, b, cc := get(x, 0), get(x, 1), get(x, 2)
		var res, t fr_bw6633.Element
		switch eid {
		case 0:
			res.Mul(&a, &b).Add(&res, &cc)
		case 1:
			t.SetUint64(uint64(i))
			res.Add(&a, &t)
		case 2:
			res.Mul(&a, &a)
			t.Mul(&b, &cc)
			res.Sub(&res, &t)
			t.SetUint64(uint64(i * i))
			res.Add(&res, &t)
		default:
			for j := range x {
				res.Add(&res, &x[j])
			}
		}
		return res
	}
	// iop.Evaluate calls x[j].GetCoeff(i) inside parallel.Execute goroutines: a panic there cannot be recovered and
	// kills the process. Probe the same calls here first, so that such a line answers "panic" instead.
	if len(ps) > 0 {
		consistent := true
		for _, p := range ps {
			if len(p.Coefficients()) != len(ps[0].Coefficients()) {
				consistent = false
			}
		}
		if consistent && (r == nil || len(r) == len(ps[0].Coefficients())) {
			crashed := func() (c bool) {
				defer func() {
					if recover() != nil {
						c = true
					}
				}()
				for _, p := range ps {
					for i := range p.Coefficients() {
						p.GetCoeff(i)
					}
				}
				return false
			}()
			if crashed {
				return "panic"
			}
		}
	}
	res, err := iop_bw6633.Evaluate(expr, r, f, ps...)
	if err != nil {
		if err == iop_bw6633.ErrInconsistentSize {
			return "err:size"
		}
		return "err:noinput"
	}
	return c.dump(res)
}

func (c *c20_bw6633) DivX(m0, m1 int, form, coeffs, script string) string {
	p, ok := c.newPoly(form, coeffs)
	if !ok {
		return "bad-op"
	}
	p, _, ok = c.script(p, script)
	if !ok {
		return "bad-op"
	}
	res, err := iop_bw6633.DivideByXMinusOne(p, [2]*fft_bw6633.Domain{c.dom(m0), c.dom(m1)})
	if err != nil {
		return "err:basis"
	}
	return c.dump(res)
}

// DivideByXMinusOne on domains whose coset shift is `shift` (fft.WithShift). shapeOnly: the line lies outside the domain
// where the division is defined (shift^|big| = 1): only "no panic, no error, shape of the result" is reported.
func (c *c20_bw6633) DivXS(m0, m1 int, shift, form, coeffs, script string, shapeOnly bool) string {
	p, ok := c.newPoly(form, coeffs)
	if !ok {
		return "bad-op"
	}
	s := c.el(shift)
	doms := map[int]*fft_bw6633.Domain{}
	dom := func(m int) *fft_bw6633.Domain {
		d, ok := doms[m]
		if !ok {
			d = fft_bw6633.NewDomain(uint64(1)<<m, fft_bw6633.WithShift(s))
			doms[m] = d
		}
		return d
	}
	p, _, ok = c.scriptD(p, script, dom)
	if !ok {
		return "bad-op"
	}
	res, err := iop_bw6633.DivideByXMinusOne(p, [2]*fft_bw6633.Domain{dom(m0), dom(m1)})
	if err != nil {
		return "err:basis"
	}
	if shapeOnly {
		return "undef " + c.showForm(res.Basis, res.Layout) + "/" + c20int(c.shiftOf(res)) + "/" + strconv.FormatInt(int64(res.Size()), 16) +
			"/" + strconv.FormatInt(int64(len(res.Coefficients())), 16)
	}
	return c.dump(res)
}

func (c *c20_bw6633) ratioErr(err error) string {
	switch err {
	case iop_bw6633.ErrInconsistentSize:
		return "err:size"
	case iop_bw6633.ErrSizeNotPowerOfTwo:
		return "err:pow2"
	case iop_bw6633.ErrInconsistentSizeDomain:
		return "err:domain"
	case iop_bw6633.ErrNumberPolynomials:
		return "err:number"
	}
	return "err:other"
}

func (c *c20_bw6633) ratioOut(res *iop_bw6633.Polynomial, xs string) string {
	s := c.dump(res)
	if xs != "-" {
		s += " " + c.hex(res.Evaluate(c.el(xs)))
	}
	return s
}

func (c *c20_bw6633) RatioS(resform, beta, xs string, k int, rest []string) string {
	f, ok := c.form(resform)
	if !ok {
		return "bad-op"
	}
	ps, rest, ok := c.polys(2*k, rest)
	if !ok || len(rest) != 0 {
		return "bad-op"
	}
	var d *fft_bw6633.Domain
	if n := len(ps[0].Coefficients()); n > 0 && n&(n-1) == 0 {
		d = c.dom(bits.TrailingZeros(uint(n)))
	}
	res, err := iop_bw6633.BuildRatioShuffledVectors(ps[:k], ps[k:], c.el(beta), f, d)
	if err != nil {
		return c.ratioErr(err)
	}
	return c.ratioOut(res, xs)
}

func (c *c20_bw6633) RatioC(resform, beta, gamma, perms, xs string, k int, rest []string) string {
	f, ok := c.form(resform)
	if !ok {
		return "bad-op"
	}
	ps, rest, ok := c.polys(k, rest)
	if !ok || len(rest) != 0 {
		return "bad-op"
	}
	w := strings.Split(perms, ",")
	perm := make([]int64, len(w))
	for i := range w {
		perm[i], _ = strconv.ParseInt(w[i], 16, 64)
	}
	var d *fft_bw6633.Domain
	if n := len(ps[0].Coefficients()); n > 0 && n&(n-1) == 0 {
		d = c.dom(bits.TrailingZeros(uint(n)))
	}
	res, err := iop_bw6633.BuildRatioCopyConstraint(ps, perm, c.el(beta), c.el(gamma), f, d)
	if err != nil {
		return c.ratioErr(err)
	}
	return c.ratioOut(res, xs)
}

func (c *c20_bw6633) Read(data []byte) string {
	p := new(iop_bw6633.Polynomial)
	_, err := p.ReadFrom(bytes.NewReader(data))
	if err != nil {
		if err == io.EOF || err == io.ErrUnexpectedEOF {
			return "err:eof"
		}
		return "err:range"
	}
	return fmt.Sprintf("ok %x %x %s %x %s", uint32(p.Basis), uint32(p.Layout), c20int(c.shiftOf(p)), p.Size(), c.show(p.Coefficients()))
}

// package polynomial
func (c *c20_bw6633) Poly(op string, a []string) string {
	switch op {
	case "peval":
		p := poly_bw6633.Polynomial(c.vec(a[0]))
		x := c.el(a[1])
		return c.hex(p.Eval(&x))
	case "interp":
		res := poly_bw6633.InterpolateOnRange(c.vec(a[0]))
		s := c.show(res)
		// the returned polynomial belongs to the caller: overwriting it must not influence later calls
		for i := range res {
			res[i].SetUint64(uint64(0xdead00 + i))
		}
		return s
	case "padd", "psub":
		mode := a[0]
		p := poly_bw6633.Polynomial(c.vec(a[1]))
		p1 := poly_bw6633.Polynomial(c.vec(a[2]))
		p2 := poly_bw6633.Polynomial(c.vec(a[3]))
		switch mode {
		case "a1":
			p = p1
		case "a2":
			p = p2
		case "a12":
			p2 = p1
			p = p1
		}
		if op == "padd" {
			r := p.Add(p1, p2)
			if r != &p {
				return "wrong-return"
			}
			return c.show(p)
		}
		if r := p.Sub(p1, p2); r == nil {
			return "nil"
		}
		return c.show(p)
	case "pscale":
		mode := a[0]
		cc := c.el(a[1])
		p0 := poly_bw6633.Polynomial(c.vec(a[2]))
		var p poly_bw6633.Polynomial
		switch mode {
		case "same":
			p = make(poly_bw6633.Polynomial, len(p0))
			for i := range p {
				p[i].SetUint64(uint64(7 + i))
			}
		case "alias":
			p = p0
		}
		p.Scale(&cc, p0)
		return c.show(p)
	case "pconst":
		cc := c.el(a[1])
		p := poly_bw6633.Polynomial(c.vec(a[2]))
		switch a[0] {
		case "add":
			p.AddConstantInPlace(&cc)
		case "sub":
			p.SubConstantInPlace(&cc)
		case "scale":
			p.ScaleInPlace(&cc)
		default:
			return "bad-op"
		}
		return c.show(p)
	case "mlfold":
		m := poly_bw6633.MultiLin(c.vec(a[0]))
		m.Fold(c.el(a[1]))
		return c.show(m)
	case "mleval":
		m := poly_bw6633.MultiLin(c.vec(a[1]))
		keep := append([]fr_bw6633.Element{}, m...)
		var res fr_bw6633.Element
		if a[0] == "1" {
			pool := poly_bw6633.NewPool(8, 256)
			res = m.Evaluate(c.vec(a[2]), &pool)
		} else if a[0] == "2" {
			c20mu.Lock()
			if c.pool == nil {
				pool := poly_bw6633.NewPool(8, 256)
				c.pool = &pool
			}
			pool := c.pool
			c20mu.Unlock()
			res = m.Evaluate(c.vec(a[2]), pool)
		} else {
			res = m.Evaluate(c.vec(a[2]), nil)
		}
		for i := range m {
			if !m[i].Equal(&keep[i]) {
				return "input-modified"
			}
		}
		return c.hex(res)
	case "mleq":
		m := poly_bw6633.MultiLin(c.vec(a[0]))
		m.Eq(c.vec(a[1]))
		return c.show(m)
	case "evaleq":
		return c.hex(poly_bw6633.EvalEq(c.vec(a[0]), c.vec(a[1])))
	case "mlsum":
		m := poly_bw6633.MultiLin(c.vec(a[0]))
		return c.hex(m.Sum())
	}
	return "bad-op"
}

// ---------------------------------------------------------------- bw6-761

type c20_bw6761 struct {
	doms map[int]*fft_bw6761.Domain
	pool *poly_bw6761.Pool // lives as long as the process (mleval mode 2)
}

func init() { c20register(&c20_bw6761{doms: map[int]*fft_bw6761.Domain{}}) }

func (c *c20_bw6761) Name() string { return "bw6-761" }
func (c *c20_bw6761) Q() *big.Int  { return fr_bw6761.Modulus() }
func (c *c20_bw6761) NBytes() int  { return fr_bw6761.Bytes }
func (c *c20_bw6761) Gen(m uint64) *big.Int {
	g, err := fft_bw6761.Generator(m)
	if err != nil {
		panic(err)
	}
	return g.BigInt(new(big.Int))
}
func (c *c20_bw6761) MulGen() *big.Int {
	g := fft_bw6761.GeneratorFullMultiplicativeGroup()
	return g.BigInt(new(big.Int))
}
func (c *c20_bw6761) dom(m int) *fft_bw6761.Domain {
	c20mu.Lock()
	defer c20mu.Unlock()
	d, ok := c.doms[m]
	if !ok {
		d = fft_bw6761.NewDomain(uint64(1) << m)
		c.doms[m] = d
	}
	return d
}
func (c *c20_bw6761) el(s string) (e fr_bw6761.Element) {
	e.SetBigInt(parseBig(s))
	return
}
func (c *c20_bw6761) hex(e fr_bw6761.Element) string { return hexBig(e.BigInt(new(big.Int))) }
func (c *c20_bw6761) vec(s string) []fr_bw6761.Element {
	if s == "-" {
		return []fr_bw6761.Element{}
	}
	w := strings.Split(s, ",")
	v := make([]fr_bw6761.Element, len(w))
	for i := range w {
		v[i] = c.el(w[i])
	}
	return v
}
func (c *c20_bw6761) show(v []fr_bw6761.Element) string {
	if len(v) == 0 {
		return "-"
	}
	w := make([]string, len(v))
	for i := range v {
		w[i] = c.hex(v[i])
	}
	return strings.Join(w, ",")
}
func (c *c20_bw6761) form(s string) (iop_bw6761.Form, bool) {
	var f iop_bw6761.Form
	if len(s) != 2 {
		return f, false
	}
	switch s[0] {
	case 'c':
		f.Basis = iop_bw6761.Canonical
	case 'l':
		f.Basis = iop_bw6761.Lagrange
	case 'k':
		f.Basis = iop_bw6761.LagrangeCoset
	default:
		return f, false
	}
	switch s[1] {
	case 'r':
		f.Layout = iop_bw6761.Regular
	case 'b':
		f.Layout = iop_bw6761.BitReverse
	default:
		return f, false
	}
	return f, true
}
func (c *c20_bw6761) showForm(b iop_bw6761.Basis, l iop_bw6761.Layout) string {
	s := "?"
	switch b {
	case iop_bw6761.Canonical:
		s = "c"
	case iop_bw6761.Lagrange:
		s = "l"
	case iop_bw6761.LagrangeCoset:
		s = "k"
	}
	switch l {
	case iop_bw6761.Regular:
		return s + "r"
	case iop_bw6761.BitReverse:
		return s + "b"
	}
	return s + "?"
}
func (c *c20_bw6761) shiftOf(p *iop_bw6761.Polynomial) int64 {
	return reflect.ValueOf(p).Elem().FieldByName("shift").Int()
}
func (c *c20_bw6761) dump(p *iop_bw6761.Polynomial) string {
	return c.showForm(p.Basis, p.Layout) + "/" + c20int(c.shiftOf(p)) + "/" + strconv.FormatInt(int64(p.Size()), 16) + "/" + c.show(p.Coefficients())
}
func (c *c20_bw6761) newPoly(form, coeffs string) (*iop_bw6761.Polynomial, bool) {
	return c.newPolyDirty(form, coeffs, 0)
}

// the polynomial is built over a prefix view of a buffer that holds `dirty` more, non-zero, entries behind the view
// (a chunk h[:n] of a larger vector, a truncated vector): spare capacity with old data
func (c *c20_bw6761) newPolyDirty(form, coeffs string, dirty int) (*iop_bw6761.Polynomial, bool) {
	f, ok := c.form(form)
	if !ok {
		return nil, false
	}
	v := c.vec(coeffs)
	if dirty > 0 {
		buf := make([]fr_bw6761.Element, len(v)+dirty)
		copy(buf, v)
		for i := len(v); i < len(buf); i++ {
			buf[i].SetUint64(uint64(0xd1d100 + i))
		}
		v = buf[:len(v)]
	}
	return iop_bw6761.NewPolynomial(&v, f), true
}

// runs a script on p; observations are appended to out
func (c *c20_bw6761) script(p *iop_bw6761.Polynomial, script string) (*iop_bw6761.Polynomial, []string, bool) {
	return c.scriptD(p, script, c.dom)
}

// the same with the domains supplied by the caller (domains with a caller-chosen coset shift)
func (c *c20_bw6761) scriptD(p *iop_bw6761.Polynomial, script string, dom func(int) *fft_bw6761.Domain) (*iop_bw6761.Polynomial, []string, bool) {
	out := []string{}
	if script == "-" {
		return p, out, true
	}
	var alt *iop_bw6761.Polynomial // second object of the script (N, H, x, r)
	shifted := map[string]*fft_bw6761.Domain{}
	baseDom := dom
	guard := func(f func() string) (res string) {
		defer func() {
			if r := recover(); r != nil {
				res = "panic"
			}
		}()
		return f()
	}
	for _, tok := range strings.Split(script, ",") {
		if tok == "" {
			return p, out, false
		}
		rest := tok[1:]
		arg, tasks := rest, []int{}
		if i := strings.IndexByte(rest, '/'); i >= 0 {
			arg = rest[:i]
			t, _ := strconv.ParseInt(rest[i+1:], 16, 32)
			tasks = []int{int(t)}
		}
		switch tok[0] {
		case 'L', 'C', 'K':
			m, err := strconv.ParseInt(arg, 16, 32)
			if err != nil || m > 20 {
				return p, out, false
			}
			d := dom(int(m))
			switch tok[0] {
			case 'L':
				p = p.ToLagrange(d, tasks...)
			case 'C':
				p = p.ToCanonical(d, tasks...)
			case 'K':
				p = p.ToLagrangeCoset(d)
			}
		case 'R':
			p = p.ToRegular()
		case 'B':
			p = p.ToBitReverse()
		case 'S':
			p = p.Shift(int(c20parseInt(rest)))
		case 'Z':
			z, _ := strconv.ParseInt(rest, 16, 64)
			p.SetSize(int(z))
		case 'H':
			alt = p.ShallowClone()
		case 'N':
			// N<form>:<c0>.<c1>.…[+k]: a new object becomes current, the previous one becomes the second object
			w := strings.SplitN(rest, ":", 2)
			if len(w) != 2 {
				return p, out, false
			}
			dirty := int64(0)
			if i := strings.IndexByte(w[1], '+'); i >= 0 {
				dirty, _ = strconv.ParseInt(w[1][i+1:], 16, 32)
				w[1] = w[1][:i]
			}
			np, ok := c.newPolyDirty(w[0], strings.ReplaceAll(w[1], ".", ","), int(dirty))
			if !ok {
				return p, out, false
			}
			alt, p = p, np
		case 'x':
			if alt == nil {
				return p, out, false
			}
			alt, p = p, alt
		case 'd':
			// the following conversions use domains with this coset shift (fft.WithShift)
			s := parseBig(rest)
			if s.Sign() == 0 || s.Cmp(c.Q()) >= 0 {
				return p, out, false
			}
			if s.Cmp(c.MulGen()) == 0 {
				dom = baseDom
			} else {
				sh := c.el(rest)
				dom = func(m int) *fft_bw6761.Domain {
					k := rest + "/" + strconv.Itoa(m)
					d, ok := shifted[k]
					if !ok {
						d = fft_bw6761.NewDomain(uint64(1)<<m, fft_bw6761.WithShift(sh))
						shifted[k] = d
					}
					return d
				}
			}
		case 'r':
			// p.ReadFrom(bytes of the second object): the receiver has a past
			if alt == nil {
				return p, out, false
			}
			var buf bytes.Buffer
			if _, err := alt.WriteTo(&buf); err != nil {
				return p, out, false
			}
			total := buf.Len()
			n, err := p.ReadFrom(&buf)
			if err != nil || int(n) != total {
				return p, out, false
			}
		case 'c':
			if rest == "" {
				p = p.Clone()
			} else {
				z, _ := strconv.ParseInt(rest, 16, 32)
				p = p.Clone(int(z))
			}
		case 'h':
			p = p.ShallowClone()
		case 'w':
			var buf bytes.Buffer
			n, err := p.WriteTo(&buf)
			if err != nil || int(n) != buf.Len() {
				return p, out, false
			}
			total := buf.Len()
			q := new(iop_bw6761.Polynomial)
			n, err = q.ReadFrom(&buf)
			if err != nil || int(n) != total {
				return p, out, false
			}
			p = q
		case 'W':
			var buf bytes.Buffer
			if _, err := p.WriteTo(&buf); err != nil {
				return p, out, false
			}
			out = append(out, hexBytes(buf.Bytes()))
		case 'E':
			x := c.el(rest)
			out = append(out, guard(func() string { return c.hex(p.Evaluate(x)) }))
		case 'G':
			out = append(out, guard(func() string {
				n := len(p.Coefficients())
				v := make([]fr_bw6761.Element, n)
				for i := 0; i < n; i++ {
					v[i] = p.GetCoeff(i)
				}
				return c.show(v)
			}))
		case 'g':
			i, _ := strconv.ParseInt(rest, 16, 64)
			out = append(out, guard(func() string { return c.hex(p.GetCoeff(int(i))) }))
		case 'F':
			out = append(out, c.dump(p))
		default:
			return p, out, false
		}
	}
	return p, out, true
}

func (c *c20_bw6761) Script(form, coeffs, script string) string {
	dirty := int64(0)
	if strings.HasPrefix(script, "D") {
		// D<k> as the first token: the initial object lives in a buffer with k dirty entries behind it
		first := script
		if i := strings.IndexByte(script, ','); i >= 0 {
			first, script = script[:i], script[i+1:]
		} else {
			script = "-"
		}
		var err error
		dirty, err = strconv.ParseInt(first[1:], 16, 32)
		if err != nil || dirty < 0 || dirty > 1<<12 {
			return "bad-op"
		}
	}
	p, ok := c.newPolyDirty(form, coeffs, int(dirty))
	if !ok {
		return "bad-op"
	}
	_, out, ok := c.script(p, script)
	if !ok {
		return "bad-op"
	}
	if len(out) == 0 {
		return "-"
	}
	return strings.Join(out, " ")
}

func (c *c20_bw6761) polys(k int, a []string) ([]*iop_bw6761.Polynomial, []string, bool) {
	ps := make([]*iop_bw6761.Polynomial, 0, k)
	for i := 0; i < k; i++ {
		if len(a) < 4 {
			return nil, nil, false
		}
		p, ok := c.newPoly(a[0], a[1])
		if !ok {
			return nil, nil, false
		}
		p.Shift(int(c20parseInt(a[2])))
		z, _ := strconv.ParseInt(a[3], 16, 64)
		p.SetSize(int(z))
		ps = append(ps, p)
		a = a[4:]
	}
	return ps, a, true
}

func (c *c20_bw6761) Expr(resform, rmode string, eid, k int, rest []string) string {
	f, ok := c.form(resform)
	if !ok {
		return "bad-op"
	}
	ps, rest, ok := c.polys(k, rest)
	if !ok || len(rest) != 0 {
		return "bad-op"
	}
	var r []fr_bw6761.Element
	if rmode != "nil" {
		n, _ := strconv.ParseInt(rmode, 16, 32)
		r = make([]fr_bw6761.Element, n)
	}
	get := func(x []fr_bw6761.Element, j int) (e fr_bw6761.Element) {
		if j < len(x) {
			e = x[j]
		}
		return
	}
	expr := func(i int, x ...fr_bw6761.Element) fr_bw6761.Element {
		a, b, cc := get(x, 0), get(x, 1), get(x, 2)
		var res, t fr_bw6761.Element
		switch eid {
		case 0:
			res.Mul(&a, &b).Add(&res, &cc)
		case 1:
			t.SetUint64(uint64(i))
			res.Add(&a, &t)
		case 2:
			res.Mul(&a, &a)
			t.Mul(&b, &cc)
			res.Sub(&res, &t)
			t.SetUint64(uint64(i * i))
			res.Add(&res, &t)
		default:
			for j := range x {
				res.Add(&res, &x[j])
			}
		}
		return res
	}
	// iop.Evaluate calls x[j].GetCoeff(i) inside parallel.Execute goroutines: a panic there cannot be recovered and
	// kills the process. Probe the same calls here first, so that such a line answers "panic" instead.
	if len(ps) > 0 {
		consistent := true
		for _, p := range ps {
			if len(p.Coefficients()) != len(ps[0].Coefficients()) {
				consistent = false
			}
		}
		if consistent && (r == nil || len(r) == len(ps[0].Coefficients())) {
			crashed := func() (c bool) {
				defer func() {
					if recover() != nil {
						c = true
					}
				}()
				for _, p := range ps {
					for i := range p.Coefficients() {
						p.GetCoeff(i)
					}
				}
				return false
			}()
			if crashed {
				return "panic"
			}
		}
	}
	res, err := iop_bw6761.Evaluate(expr, r, f, ps...)
	if err != nil {
		if err == iop_bw6761.ErrInconsistentSize {
			return "err:size"
		}
		return "err:noinput"
	}
	return c.dump(res)
}

func (c *c20_bw6761) DivX(m0, m1 int, form, coeffs, script string) string {
	p, ok := c.newPoly(form, coeffs)
	if !ok {
		return "bad-op"
	}
	p, _, ok = c.script(p, script)
	if !ok {
		return "bad-op"
	}
	res, err := iop_bw6761.DivideByXMinusOne(p, [2]*fft_bw6761.Domain{c.dom(m0), c.dom(m1)})
	if err != nil {
		return "err:basis"
	}
	return c.dump(res)
}

// DivideByXMinusOne on domains whose coset shift is `shift` (fft.WithShift). shapeOnly: the line lies outside the domain
// where the division is defined (shift^|big| = 1): only "no panic, no error, shape of the result" is reported.
func (c *c20_bw6761) DivXS(m0, m1 int, shift, form, coeffs, script string, shapeOnly bool) string {
	p, ok := c.newPoly(form, coeffs)
	if !ok {
		return "bad-op"
	}
	s := c.el(shift)
	doms := map[int]*fft_bw6761.Domain{}
	dom := func(m int) *fft_bw6761.Domain {
		d, ok := doms[m]
		if !ok {
			d = fft_bw6761.NewDomain(uint64(1)<<m, fft_bw6761.WithShift(s))
			doms[m] = d
		}
		return d
	}
	p, _, ok = c.scriptD(p, script, dom)
	if !ok {
		return "bad-op"
	}
	res, err := iop_bw6761.DivideByXMinusOne(p, [2]*fft_bw6761.Domain{dom(m0), dom(m1)})
	if err != nil {
		return "err:basis"
	}
	if shapeOnly {
		return "undef " + c.showForm(res.Basis, res.Layout) + "/" + c20int(c.shiftOf(res)) + "/" + strconv.FormatInt(int64(res.Size()), 16) +
			"/" + strconv.FormatInt(int64(len(res.Coefficients())), 16)
	}
	return c.dump(res)
}

func (c *c20_bw6761) ratioErr(err error) string {
	switch err {
	case iop_bw6761.ErrInconsistentSize:
		return "err:size"
	case iop_bw6761.ErrSizeNotPowerOfTwo:
		return "err:pow2"
	case iop_bw6761.ErrInconsistentSizeDomain:
		return "err:domain"
	case iop_bw6761.ErrNumberPolynomials:
		return "err:number"
	}
	return "err:other"
}

func (c *c20_bw6761) ratioOut(res *iop_bw6761.Polynomial, xs string) string {
	s := c.dump(res)
	if xs != "-" {
		s += " " + c.hex(res.Evaluate(c.el(xs)))
	}
	return s
}

func (c *c20_bw6761) RatioS(resform, beta, xs string, k int, rest []string) string {
	f, ok := c.form(resform)
	if !ok {
		return "bad-op"
	}
	ps, rest, ok := c.polys(2*k, rest)
	if !ok || len(rest) != 0 {
		return "bad-op"
	}
	var d *fft_bw6761.Domain
	if n := len(ps[0].Coefficients()); n > 0 && n&(n-1) == 0 {
		d = c.dom(bits.TrailingZeros(uint(n)))
	}
	res, err := iop_bw6761.BuildRatioShuffledVectors(ps[:k], ps[k:], c.el(beta), f, d)
	if err != nil {
		return c.ratioErr(err)
	}
	return c.ratioOut(res, xs)
}

func (c *c20_bw6761) RatioC(resform, beta, gamma, perms, xs string, k int, rest []string) string {
	f, ok := c.form(resform)
	if !ok {
		return "bad-op"
	}
	ps, rest, ok := c.polys(k, rest)
	if !ok || len(rest) != 0 {
		return "bad-op"
	}
	w := strings.Split(perms, ",")
	perm := make([]int64, len(w))
	for i := range w {
		perm[i], _ = strconv.ParseInt(w[i], 16, 64)
	}
	var d *fft_bw6761.Domain
	if n := len(ps[0].Coefficients()); n > 0 && n&(n-1) == 0 {
		d = c.dom(bits.TrailingZeros(uint(n)))
	}
	res, err := iop_bw6761.BuildRatioCopyConstraint(ps, perm, c.el(beta), c.el(gamma), f, d)
	if err != nil {
		return c.ratioErr(err)
	}
	return c.ratioOut(res, xs)
}

func (c *c20_bw6761) Read(data []byte) string {
	p := new(iop_bw6761.Polynomial)
	_, err := p.ReadFrom(bytes.NewReader(data))
	if err != nil {
		if err == io.EOF || err == io.ErrUnexpectedEOF {
			return "err:eof"
		}
		return "err:range"
	}
	return fmt.Sprintf("ok %x %x %s %x %s", uint32(p.Basis), uint32(p.Layout), c20int(c.shiftOf(p)), p.Size(), c.show(p.Coefficients()))
}

// package polynomial
func (c *c20_bw6761) Poly(op string, a []string) string {
	switch op {
	case "peval":
		p := poly_bw6761.Polynomial(c.vec(a[0]))
		x := c.el(a[1])
		return c.hex(p.Eval(&x))
	case "interp":
		res := poly_bw6761.InterpolateOnRange(c.vec(a[0]))
		s := c.show(res)
		// the returned polynomial belongs to the caller: overwriting it must not influence later calls
		for i := range res {
			res[i].SetUint64(uint64(0xdead00 + i))
		}
		return s
	case "padd", "psub":
		mode := a[0]
		p := poly_bw6761.Polynomial(c.vec(a[1]))
		p1 := poly_bw6761.Polynomial(c.vec(a[2]))
		p2 := poly_bw6761.Polynomial(c.vec(a[3]))
		switch mode {
		case "a1":
			p = p1
		case "a2":
			p = p2
		case "a12":
			p2 = p1
			p = p1
		}
		if op == "padd" {
			r := p.Add(p1, p2)
			if r != &p {
				return "wrong-return"
			}
			return c.show(p)
		}
		if r := p.Sub(p1, p2); r == nil {
			return "nil"
		}
		return c.show(p)
	case "pscale":
		mode := a[0]
		cc := c.el(a[1])
		p0 := poly_bw6761.Polynomial(c.vec(a[2]))
		var p poly_bw6761.Polynomial
		switch mode {
		case "same":
			p = make(poly_bw6761.Polynomial, len(p0))
			for i := range p {
				p[i].SetUint64(uint64(7 + i))
			}
		case "alias":
			p = p0
		}
		p.Scale(&cc, p0)
		return c.show(p)
	case "pconst":
		cc := c.el(a[1])
		p := poly_bw6761.Polynomial(c.vec(a[2]))
		switch a[0] {
		case "add":
			p.AddConstantInPlace(&cc)
		case "sub":
			p.SubConstantInPlace(&cc)
		case "scale":
			p.ScaleInPlace(&cc)
		default:
			return "bad-op"
		}
		return c.show(p)
	case "mlfold":
		m := poly_bw6761.MultiLin(c.vec(a[0]))
		m.Fold(c.el(a[1]))
		return c.show(m)
	case "mleval":
		m := poly_bw6761.MultiLin(c.vec(a[1]))
		keep := append([]fr_bw6761.Element{}, m...)
		var res fr_bw6761.Element
		if a[0] == "1" {
			pool := poly_bw6761.NewPool(8, 256)
			res = m.Evaluate(c.vec(a[2]), &pool)
		} else if a[0] == "2" {
			c20mu.Lock()
			if c.pool == nil {
				pool := poly_bw6761.NewPool(8, 256)
				c.pool = &pool
			}
			pool := c.pool
			c20mu.Unlock()
			res = m.Evaluate(c.vec(a[2]), pool)
		} else {
			res = m.Evaluate(c.vec(a[2]), nil)
		}
		for i := range m {
			if !m[i].Equal(&keep[i]) {
				return "input-modified"
			}
		}
		return c.hex(res)
	case "mleq":
		m := poly_bw6761.MultiLin(c.vec(a[0]))
		m.Eq(c.vec(a[1]))
		return c.show(m)
	case "evaleq":
		return c.hex(poly_bw6761.EvalEq(c.vec(a[0]), c.vec(a[1])))
	case "mlsum":
		m := poly_bw6761.MultiLin(c.vec(a[0]))
		return c.hex(m.Sum())
	}
	return "bad-op"
}
