module gvharness

go 1.23.0

require github.com/consensys/gnark-crypto v0.0.0

replace github.com/consensys/gnark-crypto => /repo
