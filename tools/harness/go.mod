module gvharness

go 1.23.0

require (
	github.com/consensys/gnark-crypto v0.0.0
	golang.org/x/crypto v0.35.0
)

require (
	github.com/bits-and-blooms/bitset v1.20.0 // indirect
	github.com/consensys/bavard v0.1.31-0.20250406004941-2db259e4b582 // indirect
	github.com/leanovate/gopter v0.2.11 // indirect
	github.com/mmcloughlin/addchain v0.4.0 // indirect
	golang.org/x/sys v0.30.0 // indirect
	rsc.io/tmplfunc v0.0.3 // indirect
)

replace github.com/consensys/gnark-crypto => /repo
