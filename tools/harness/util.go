package main

import (
	"encoding/hex"
	"math/big"
	"strings"
)

// splitmix64: every random choice of the harness derives from one state
type rng struct{ s uint64 }

// the state is a HASH of the seed: with `seed*increment + c` the streams of seeds 1, 2, 3 were one stream shifted by one draw
func newRng(seed uint64) *rng {
	h := &rng{s: seed ^ 0x6a09e667f3bcc908}
	a := h.u64()
	return &rng{s: a ^ (h.u64() << 1)}
}
func (r *rng) u64() uint64 {
	r.s += 0x9E3779B97F4A7C15
	z := r.s
	z = (z ^ (z >> 30)) * 0xBF58476D1CE4E5B9
	z = (z ^ (z >> 27)) * 0x94D049BB133111EB
	return z ^ (z >> 31)
}
func (r *rng) intn(n int) int {
	if n <= 0 {
		return 0
	}
	return int(r.u64() % uint64(n))
}
func (r *rng) bytes(n int) []byte {
	b := make([]byte, n)
	for i := range b {
		b[i] = byte(r.u64())
	}
	return b
}
func (r *rng) coin() bool { return r.u64()&1 == 1 }

// big integer below bound (uniform enough)
func (r *rng) bigBelow(bound *big.Int) *big.Int {
	n := (bound.BitLen() + 7) / 8
	v := new(big.Int).SetBytes(r.bytes(n + 8))
	return v.Mod(v, bound)
}
func (r *rng) bigBits(bits int) *big.Int {
	v := new(big.Int).SetBytes(r.bytes((bits + 7) / 8))
	return v.Rsh(v, uint((8-bits%8)%8))
}

func hexBytes(b []byte) string {
	if len(b) == 0 {
		return "-"
	}
	return hex.EncodeToString(b)
}
func parseBytes(s string) []byte {
	if s == "-" {
		return []byte{}
	}
	b, err := hex.DecodeString(s)
	if err != nil {
		return nil
	}
	return b
}
func hexBig(v *big.Int) string { return v.Text(16) }
func parseBig(s string) *big.Int {
	v, ok := new(big.Int).SetString(s, 16)
	if !ok {
		return new(big.Int)
	}
	return v
}
func boolStr(b bool) string {
	if b {
		return "1"
	}
	return "0"
}
func join(ss []string) string { return strings.Join(ss, " ") }
