package main

// C20, third generator family: the DERIVED constructions (iop/ratios.go, quotient.go, expressions.go) where they split
// their work — parallel.Execute with the default task count (NumCPU), with a size-dependent task count
// (BuildRatioCopyConstraint: min(NumCPU, n/58) chunks of a batch inversion; getSupportIdentityPermutation:
// NumCPU/(copies-1)+1) — and on the degenerate corners of their parameters.
//
//	(a) large sizes n = 128, 256, 512, 1024 (header with L = 10): on a machine with >= 2 CPUs every chunked loop runs on
//	    >= 2 chunks, on 16 CPUs the batch inversion of the copy-constraint builder runs on 2, 4, 8, 16 chunks. The answer
//	    is the FULL result vector (every Z(w^j), every quotient coefficient, every entry of the expression), compared with
//	    the model's definition, so a wrong entry at any chunk boundary is seen;
//	(b) corners: size 1 and 2 for every builder and every expected form, one .. 18 polynomials (task counts 17, 9, 6, 5,
//	    4, 3, 2, 1 of the support of the permutation);
//	(c) DivideByXMinusOne on the whole lattice (|small|, |big|), ratio |big|/|small| in {1, 2, 4, 8, 16, ...} incl. ratio 1
//	    and |small| = |big| = 1, dividend sizes / layouts / shifts; the same on domains with a caller-chosen coset shift s
//	    (fft.WithShift): `divxs` when s^|big| != 1 (x^|small| - 1 has no zero on the coset: the quotient is defined, full
//	    answer), `divxu` when s^|big| = 1 (a zero on the coset: only "no error, no panic, shape" is compared).

import (
	"fmt"
	"math/big"
	"strings"
)

const c20LBig = 10

func (g *c20g) hdrL(L int) string {
	return fmt.Sprintf("%s %s %x %s %s", g.c.Name(), hexBig(g.q), L, hexBig(g.c.Gen(uint64(1)<<L)), hexBig(g.c.MulGen()))
}

func (g *c20g) permStr(n int) string {
	p := make([]int, n)
	for i := range p {
		p[i] = i
	}
	for i := len(p) - 1; i > 0; i-- {
		j := g.rng.intn(i + 1)
		p[i], p[j] = p[j], p[i]
	}
	w := make([]string, n)
	for i := range p {
		w[i] = fmt.Sprintf("%x", p[i])
	}
	return strings.Join(w, ",")
}

// h·(X^N0 − 1) with deg h < N1 − N0 (N1 coefficients); for N0 = N1 the zero polynomial
func (g *c20g) multipleOfVanishing(N0, N1 int) []*big.Int {
	h := g.vecBig(N1 - N0)
	f := make([]*big.Int, N1)
	for i := range f {
		f[i] = new(big.Int)
	}
	for i, hv := range h {
		f[i+N0].Add(f[i+N0], hv)
		f[i].Sub(f[i], hv)
	}
	for i := range f {
		f[i].Mod(f[i], g.q)
	}
	return f
}

func (g *c20g) ratiocLine(hdr string, n, k int, resform string, inForms []string, xs string) {
	args := []string{}
	for j := 0; j < k; j++ {
		args = append(args, g.polyArgs(inForms[g.rng.intn(len(inForms))], n, 0, n))
	}
	g.emit("C20 ratioc %s %s %s %s %s %s %x %s", hdr, resform, hexBig(g.rnd()), hexBig(g.rnd()), g.permStr(k*n), xs, k, strings.Join(args, " "))
}

func (g *c20g) ratiosLine(hdr string, n, k int, resform string, inForms []string, xs string) {
	// denominators: the numerators' values shuffled (a genuine shuffle argument) or unrelated values
	nums := make([][]*big.Int, k)
	all := []*big.Int{}
	for j := range nums {
		nums[j] = g.vecBig(n)
		all = append(all, nums[j]...)
	}
	if g.rng.intn(3) > 0 {
		all = append([]*big.Int{}, all...)
		for i := len(all) - 1; i > 0; i-- {
			j := g.rng.intn(i + 1)
			all[i], all[j] = all[j], all[i]
		}
	} else {
		all = g.vecBig(k * n)
	}
	lag := []string{"lr", "lb"}
	args := []string{}
	for j := 0; j < k; j++ {
		if len(inForms) == 2 {
			args = append(args, fmt.Sprintf("%s %s 0 %x", lag[g.rng.intn(2)], c20showBig(nums[j]), n))
		} else {
			args = append(args, g.polyArgs(inForms[g.rng.intn(len(inForms))], n, 0, n))
		}
	}
	for j := 0; j < k; j++ {
		if len(inForms) == 2 {
			args = append(args, fmt.Sprintf("%s %s 0 %x", lag[g.rng.intn(2)], c20showBig(all[j*n:(j+1)*n]), n))
		} else {
			args = append(args, g.polyArgs(inForms[g.rng.intn(len(inForms))], n, 0, n))
		}
	}
	g.emit("C20 ratios %s %s %s %s %x %s", hdr, resform, hexBig(g.rnd()), xs, k, strings.Join(args, " "))
}

func (g *c20g) derived(ci int) {
	lagForms := []string{"lr", "lb"}
	anyForms := []string{"cr", "cb", "lr", "lb"}
	xsOf := func(resform string) string {
		if resform[0] != 'k' && g.rng.intn(2) == 0 {
			return hexBig(g.rnd())
		}
		return "-"
	}

	// ---------------------------------------------------------------- (a) sizes with >= 2, >= 3 chunks
	hdr := g.hdrL(c20LBig)
	for m := 7; m <= c20LBig; m++ {
		n := 1 << m
		rot := ci + m
		reps := g.budget(1, 2)
		for r := 0; r < reps; r++ {
			// copy constraint: Lagrange inputs and result (the chunked loops alone), then any form in and out
			ks := []int{1 + (rot+r)%3, 1 + (rot+r+1)%3}
			if g.thorough() {
				ks = []int{1, 2, 3}
			}
			for _, k := range ks {
				g.ratiocLine(hdr, n, k, lagForms[(rot+k)%2], lagForms, "-")
			}
			rf := c20forms[(rot+r)%6]
			g.ratiocLine(hdr, n, ks[0], rf, anyForms, xsOf(rf))
			// shuffled vectors
			g.ratiosLine(hdr, n, 1+(rot+r)%2, lagForms[rot%2], lagForms, "-")
			rf = c20forms[(rot+r+3)%6]
			g.ratiosLine(hdr, n, 1+(rot+r+1)%2, rf, anyForms, xsOf(rf))
			// iop.Evaluate: 1..3 operands of mixed forms, shifts and declared sizes, every result layout
			for k := 1; k <= 3; k++ {
				if !g.thorough() && k != 1+(rot+r)%3 && k != 1+(rot+r+1)%3 {
					continue
				}
				args := []string{}
				for j := 0; j < k; j++ {
					sz := n
					if g.rng.intn(3) == 0 {
						sz = n >> uint(1+g.rng.intn(3))
					}
					sh := int64(0)
					if g.rng.intn(2) == 0 {
						sh = []int64{1, 2, 3, int64(sz) - 1, int64(sz) + 1, 57, 58, 59}[g.rng.intn(8)]
					}
					args = append(args, g.polyArgs(c20forms[g.rng.intn(6)], n, sh, sz))
				}
				rmode := "nil"
				if g.rng.intn(3) == 0 {
					rmode = fmt.Sprintf("%x", n)
				}
				g.emit("C20 expr %s %s %s %x %x %s", hdr, c20forms[(rot+k)%6], rmode, (rot+k+r)%4, k, strings.Join(args, " "))
			}
			// division by X^N0 - 1: ratio 1, 2, 4, 8, 16
			for lr := 0; lr <= 4; lr++ {
				m0 := m - lr
				N0 := 1 << m0
				tail := [][]string{{}, {"R"}, {"B"}, {"S1"}, {"S" + c20int(int64(N0)-1), "B"}}[(rot+lr+r)%5]
				toks := append([]string{fmt.Sprintf("K%x", m), fmt.Sprintf("Z%x", N0)}, tail...)
				coeffs := c20showBig(g.multipleOfVanishing(N0, n))
				if (rot+lr)%3 == 0 || lr == 0 {
					coeffs = g.vec(n) // not a multiple: the pointwise quotient, interpolated
				}
				g.emit("C20 divx %s %x %x cr %s %s", hdr, m0, m, coeffs, strings.Join(toks, ","))
			}
		}
	}

	// ---------------------------------------------------------------- (b) corners of the builders
	hdr = g.hdr
	for m := 0; m <= 1; m++ {
		n := 1 << m
		for fi, resform := range c20forms {
			for k := 1; k <= 3; k++ {
				g.ratiocLine(hdr, n, k, resform, anyForms, xsOf(resform))
				g.ratiosLine(hdr, n, k, resform, [][]string{lagForms, anyForms}[(fi+k)%2], xsOf(resform))
			}
		}
		// LagrangeCoset inputs (converted by the builders)
		if m > 0 {
			g.ratiocLine(hdr, n, 2, "lr", []string{"kr", "kb"}, "-")
		}
	}
	// number of polynomials: the support of the permutation is filled by NumCPU/(k-1)+1 tasks per copy
	for _, k := range []int{4, 5, 6, 9, 16, 17, 18} {
		for _, m := range []int{0, 2, 5} {
			if (k > 6 && m == 5) || (!g.thorough() && (k+m+ci)%2 == 0) {
				continue
			}
			n := 1 << m
			g.ratiocLine(hdr, n, k, lagForms[k%2], lagForms, "-")
		}
	}
	// sizes 64 and 128 sit on both sides of the first size-dependent task count (n/58 = 1, 2)
	for _, m := range []int{5, 6} {
		n := 1 << m
		g.ratiocLine(hdr, n, 1+(ci+m)%3, "lr", lagForms, "-")
		g.ratiosLine(hdr, n, 1+(ci+m)%2, "lr", lagForms, "-")
	}

	// ---------------------------------------------------------------- (c) DivideByXMinusOne, the whole small lattice
	maxm := g.budget(5, 6)
	for m1 := 0; m1 <= maxm; m1++ {
		for m0 := 0; m0 <= m1; m0++ {
			N0, N1 := 1<<m0, 1<<m1
			tails := [][]string{{}, {"R"}, {"B"}, {"S1"}, {"S" + c20int(int64(N0)+1), "R"}, {"S-1", "B"}}
			for vi, tail := range tails {
				// m0 < m1 <= 4 with the first four tails is the older generator's class
				if m0 < m1 && m1 <= 4 && vi < 4 {
					continue
				}
				if !g.thorough() && m1 >= 3 && m0 < m1 && (vi+m0+m1+ci)%3 != 0 {
					continue
				}
				toks := append([]string{fmt.Sprintf("K%x", m1), fmt.Sprintf("Z%x", N0)}, tail...)
				coeffs := c20showBig(g.multipleOfVanishing(N0, N1))
				if vi%2 == 1 || m0 == m1 {
					coeffs = g.vec(N1)
				}
				g.emit("C20 divx %s %x %x cr %s %s", g.hdr, m0, m1, coeffs, strings.Join(toks, ","))
			}
		}
	}
	// caller-chosen coset shifts
	one := big.NewInt(1)
	for m1 := 0; m1 <= g.budget(4, 5); m1++ {
		for m0 := 0; m0 <= m1; m0++ {
			N0, N1 := 1<<m0, 1<<m1
			w1 := g.c.Gen(uint64(N1))
			w2 := g.c.Gen(uint64(2 * N1))
			mg := g.c.MulGen()
			mul := func(a, b *big.Int) *big.Int { return new(big.Int).Mod(new(big.Int).Mul(a, b), g.q) }
			pow := func(a *big.Int, e int) *big.Int { return new(big.Int).Exp(a, big.NewInt(int64(e)), g.q) }
			shifts := []*big.Int{
				g.rnd(), mul(mg, mg), new(big.Int).Set(mg), // defined
				w2, pow(w2, 1+2*g.rng.intn(N1)), mul(w2, pow(w1, g.rng.intn(N1))), // s^N1 = -1: defined, although s^(2 N1) = 1
				big.NewInt(1), new(big.Int).Sub(g.q, one), new(big.Int).Set(w1), pow(w1, g.rng.intn(N1)), // N1-th roots of unity: undefined
				pow(g.c.Gen(uint64(N0)), g.rng.intn(N0)),                                                         // an N0-th root of unity
				new(big.Int).Exp(mg, new(big.Int).Div(new(big.Int).Sub(g.q, one), big.NewInt(int64(2*N1))), g.q), // of order 2 N1
			}
			for si, s := range shifts {
				if s.Sign() == 0 {
					continue
				}
				if !g.thorough() && m1 >= 2 && (si+m0+m1+ci)%2 == 0 {
					continue
				}
				kind := "divxs"
				if new(big.Int).Exp(s, big.NewInt(int64(N1)), g.q).Cmp(one) == 0 {
					kind = "divxu"
				}
				tail := [][]string{{}, {"R"}, {"B"}, {"S1"}}[(si+m0)%4]
				toks := append([]string{fmt.Sprintf("K%x", m1), fmt.Sprintf("Z%x", N0)}, tail...)
				coeffs := c20showBig(g.multipleOfVanishing(N0, N1))
				if si%3 == 2 || m0 == m1 {
					coeffs = g.vec(N1)
				}
				g.emit("C20 %s %s %x %x %s cr %s %s", kind, g.hdr, m0, m1, hexBig(s), coeffs, strings.Join(toks, ","))
			}
		}
	}
}
