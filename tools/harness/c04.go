package main

// C04 — MultiExp / Fold of every curve package that has multiexp.go, expected value "in the exponent".
//
// op line:  C04 MSM <curve> <g1|g2> <aff|jac|fold> <tower> <p> <a> <b> <r> <Gx> <Gy> <seed> <n> <shape> <nbTasks> <gomaxprocs> <nScalars> <numCPU>
// The points are P_i = [a_i]G, the pairs (a_i, s_i) are derived from <seed>, <n>, <shape> by splitmix64
// (same derivation in Model/MSM.lean); the model answers [Σ a_i·s_i mod r]G computed with the textbook group law.
// result: "<x>;<y>" (coordinates hex, tower coefficients comma separated) | inf | err:len | err:nbtasks | panic | timeout

import (
	"fmt"
	"math/big"
	"os"
	"runtime"
	"strconv"
	"strings"
	"sync"
	"time"

	"github.com/consensys/gnark-crypto/ecc"
)

type c04Group struct {
	curve, grp string
	params     string // "<tower> <p> <a> <b> <r> <Gx> <Gy>"
	r          *big.Int
	cs         []int
	run        func(api string, in *c04Input, nbTasks, gmp int) string
	bsm        func(S, W []*big.Int) string
}

var c04Groups = map[string]*c04Group{}
var c04Order []string

type c04Aff[A, J, E any] interface {
	*A
	MultiExp([]A, []E, ecc.MultiExpConfig) (*A, error)
	Fold([]A, E, ecc.MultiExpConfig) (*A, error)
	ScalarMultiplication(*A, *big.Int) *A
	FromJacobian(*J) *A
	Neg(*A) *A
	IsInfinity() bool
}
type c04Jac[A, J, E any] interface {
	*J
	MultiExp([]A, []E, ecc.MultiExpConfig) (*J, error)
	Fold([]A, E, ecc.MultiExpConfig) (*J, error)
	FromAffine(*A) *J
	AddAssign(*J) *J
	AddMixed(*A) *J
}
type c04Fr[E any] interface {
	*E
	SetBigInt(*big.Int) *E
}

// run f(0..n-1) on all CPUs
func c04Par(n int, f func(i int)) {
	w := runtime.NumCPU()
	if n < 64 {
		w = 1
	}
	var wg sync.WaitGroup
	for k := 0; k < w; k++ {
		wg.Add(1)
		go func(k int) {
			defer wg.Done()
			for i := k; i < n; i += w {
				f(i)
			}
		}(k)
	}
	wg.Wait()
}

func c04Err(err error) string {
	s := err.Error()
	switch {
	case strings.Contains(s, "len(points)"):
		return "err:len"
	case strings.Contains(s, "NbTasks"):
		return "err:nbtasks"
	}
	return "err:other"
}

func c04Register[A, J, E any, PA c04Aff[A, J, E], PJ c04Jac[A, J, E], PE c04Fr[E]](
	curve, grp, tower string, p, r *big.Int, cs []int, gen A, bcoef string,
	batch func(*A, []E) []A, show func(*A) string) {

	g := &c04Group{curve: curve, grp: grp, r: r, cs: cs}
	zero := "0"
	if n := strings.Count(bcoef, ","); n > 0 {
		zero = "0" + strings.Repeat(",0", n)
	}
	gs := show(&gen)
	xy := strings.Split(gs, ";")
	g.params = join([]string{tower, hexBig(p), zero, bcoef, hexBig(r), xy[0], xy[1]})
	g.run = func(api string, in *c04Input, nbTasks, gmp int) string {
		av, sv := in.A, in.S
		n := len(av)
		points := make([]A, n)
		if in.prog {
			// base points a0 + i·d by repeated addition, then the shape as source index and sign
			var p0, d A
			PA(&p0).ScalarMultiplication(&gen, in.A0[0])
			PA(&d).ScalarMultiplication(&gen, in.D)
			nb := n
			if in.nbase > 0 && in.nbase < n {
				nb = in.nbase // only base[0 .. nbase) is referenced
			}
			jac := make([]J, nb)
			var cur J
			PJ(&cur).FromAffine(&p0)
			for i := 0; i < nb; i++ {
				jac[i] = cur
				PJ(&cur).AddMixed(&d)
			}
			base := make([]A, nb)
			c04Par(nb, func(i int) { PA(&base[i]).FromJacobian(&jac[i]) })
			direct := map[string]*A{} // src < 0: the point [A[i]]G by plain ScalarMultiplication (few distinct values)
			var lastA *big.Int
			var lastQ *A
			for i := 0; i < n; i++ {
				if in.src[i] < 0 {
					if av[i] != lastA { // runs of the same *big.Int (inactive entries) skip the lookup
						key := av[i].Text(16)
						q, ok := direct[key]
						if !ok {
							q = new(A)
							PA(q).ScalarMultiplication(&gen, av[i])
							direct[key] = q
						}
						lastA, lastQ = av[i], q
					}
					points[i] = *lastQ
					continue
				}
				switch in.sgn[i] {
				case 1:
					points[i] = base[in.src[i]]
				case -1:
					PA(&points[i]).Neg(&base[in.src[i]])
				}
			}
		} else {
			// reference points by plain ScalarMultiplication (independent of partitionScalars), in parallel
			c04Par(n, func(i int) { PA(&points[i]).ScalarMultiplication(&gen, av[i]) })
		}
		var inf A
		for i := range av {
			if av[i].Sign() == 0 {
				points[i] = inf
			}
		}
		scalars := make([]E, len(sv))
		for i := range sv {
			PE(&scalars[i]).SetBigInt(sv[i])
		}
		cfg := ecc.MultiExpConfig{NbTasks: nbTasks}
		if gmp > 0 { // only the call under test runs with the requested GOMAXPROCS
			old := runtime.GOMAXPROCS(gmp)
			defer runtime.GOMAXPROCS(old)
		}
		var res A
		var err error
		switch api {
		case "aff":
			res = gen // receiver content must not matter
			_, err = PA(&res).MultiExp(points, scalars, cfg)
		case "jac":
			var j J
			PJ(&j).FromAffine(&gen)
			_, err = PJ(&j).MultiExp(points, scalars, cfg)
			PA(&res).FromJacobian(&j)
		case "fold":
			var t E
			if len(sv) > 0 {
				t = scalars[0]
			}
			res = gen
			_, err = PA(&res).Fold(points, t, cfg)
		case "foldjac":
			var t E
			if len(sv) > 0 {
				t = scalars[0]
			}
			var j J
			PJ(&j).FromAffine(&gen)
			_, err = PJ(&j).Fold(points, t, cfg)
			PA(&res).FromJacobian(&j)
		default:
			// "inner:<c>": _innerMsm with the window c (verif-tagged overlay shim, c04_shim.go)
			f, ok := c04InnerFns[curve+"/"+grp]
			if !ok || !strings.HasPrefix(api, "inner:") || nbTasks < 1 {
				return "bad-op"
			}
			r, ok := f(points, scalars, uint64(c04ParseInt(api[6:])), nbTasks).(A)
			if !ok {
				return "bad-op"
			}
			res = r
		}
		if err != nil {
			return c04Err(err)
		}
		if PA(&res).IsInfinity() {
			return "inf"
		}
		return show(&res)
	}
	// BatchScalarMultiplication (shares partitionScalars with MultiExp): Σ w_i·([s_i]G) by plain add/mul
	g.bsm = func(sv, wv []*big.Int) string {
		ss := make([]E, len(sv))
		for i := range sv {
			PE(&ss[i]).SetBigInt(sv[i])
		}
		pts := batch(&gen, ss)
		if len(pts) != len(sv) {
			return "err:len"
		}
		var acc, t J
		var res A
		PJ(&acc).FromAffine(&res) // infinity
		for i := range pts {
			PA(&pts[i]).ScalarMultiplication(&pts[i], wv[i])
			PJ(&t).FromAffine(&pts[i])
			PJ(&acc).AddAssign(&t)
		}
		PA(&res).FromJacobian(&acc)
		if PA(&res).IsInfinity() {
			return "inf"
		}
		return show(&res)
	}
	key := curve + "/" + grp
	c04Groups[key] = g
	c04Order = append(c04Order, key)
}

// ---------------------------------------------------------------- deterministic vectors (mirrors Model/MSM.lean)

type c04sm struct{ s uint64 }

func (r *c04sm) u64() uint64 {
	r.s += 0x9E3779B97F4A7C15
	z := r.s
	z = (z ^ (z >> 30)) * 0xBF58476D1CE4E5B9
	z = (z ^ (z >> 27)) * 0x94D049BB133111EB
	return z ^ (z >> 31)
}

func (r *c04sm) nextFr(limbs int, mod *big.Int) *big.Int {
	v := new(big.Int)
	for l := 0; l < limbs; l++ {
		v.Lsh(v, 64)
		v.Or(v, new(big.Int).SetUint64(r.u64()))
	}
	return v.Mod(v, mod)
}

// inputs of one line: A[i] = sgn[i]·A0[src[i]] (exponents of the points), S[i] scalars
type c04Input struct {
	A, S, A0 []*big.Int
	D        *big.Int // step of the arithmetic progression (prog mode)
	src      []int    // index into the base progression; < 0: the point is computed directly from A[i]
	sgn      []int8
	prog     bool
	nbase    int // prog mode: number of base points referenced (0 = n)
}

// from this size on the base exponents are the progression A0[0] + i·A0[1] (cheap reference points)
const c04ProgN = 2048

func c04Vectors(r *big.Int, seed uint64, n, shape int) (A, S []*big.Int) {
	in := c04MkInput(r, seed, n, shape)
	return in.A, in.S
}

// shapes 0x5000 + b: shape b, then the scalar of the last finite point is replaced by the value that makes the exact
// sum the point at infinity (cancellation in the very last addition of the reduction, whatever n and c)
func c04MkInput(r *big.Int, seed uint64, n, shape int) *c04Input {
	if shape/4096 != 5 {
		return c04MkInputBase(r, seed, n, shape)
	}
	in := c04MkInputBase(r, seed, n, shape%4096)
	f := -1
	for i := range in.A {
		if in.A[i].Sign() != 0 {
			f = i
		}
	}
	if f < 0 {
		return in
	}
	e, t := new(big.Int), new(big.Int)
	for i := range in.A {
		if i != f {
			e.Add(e, t.Mul(in.A[i], in.S[i]))
		}
	}
	e.Neg(e).Mod(e, r)
	inv := new(big.Int).Exp(in.A[f], new(big.Int).Sub(r, big.NewInt(2)), r)
	in.S[f] = e.Mul(e, inv).Mod(e, r)
	return in
}

func c04MkInputBase(r *big.Int, seed uint64, n, shape int) *c04Input {
	bits := r.BitLen()
	limbs := (bits + 63) / 64
	sm := &c04sm{s: seed}
	A0 := make([]*big.Int, n)
	S0 := make([]*big.Int, n)
	for i := 0; i < n; i++ {
		A0[i] = sm.nextFr(limbs, r)
		S0[i] = sm.nextFr(limbs, r)
	}
	in := &c04Input{A0: A0, src: make([]int, n), sgn: make([]int8, n)}
	if n >= c04ProgN {
		in.prog = true
		in.D = A0[1]
		a0 := A0[0]
		for i := 1; i < n; i++ {
			v := new(big.Int).Mul(big.NewInt(int64(i)), in.D)
			v.Add(v, a0)
			A0[i] = v.Mod(v, r)
		}
	}
	A := make([]*big.Int, n)
	S := make([]*big.Int, n)
	var tinv *big.Int
	if shape == 17 && n > 0 {
		tinv = new(big.Int).Exp(S0[0], new(big.Int).Sub(r, big.NewInt(2)), r)
	}
	for i := 0; i < n; i++ {
		src, sgn, s := i, int8(1), S0[i]
		var adirect *big.Int
		switch shape {
		case 1:
			src = 0
		case 2:
			if i%2 == 1 {
				src, sgn = i-1, -1
			}
			if i%4 == 1 {
				s = S0[i-1]
			}
		case 3:
			if i%3 == 0 {
				sgn = 0
			}
		case 4:
			if i%2 == 0 {
				s = new(big.Int)
			}
		case 5:
			s = new(big.Int)
		case 6:
			s = new(big.Int).Sub(r, big.NewInt(1))
		case 7:
			v := new(big.Int).Lsh(big.NewInt(1), uint(64*(1+i%limbs)))
			v.Sub(v, big.NewInt(1))
			if v.Cmp(r) >= 0 {
				v.Sub(r, big.NewInt(1))
				v.Sub(v, new(big.Int).Mod(big.NewInt(int64(i)), r))
				v.Mod(v, r)
			}
			s = v
		case 8:
			s = new(big.Int).And(s, big.NewInt(65535))
		case 9:
			s = S0[0]
		case 10:
			s = S0[(i/4)%1024]
		case 11:
			src = i / 4 * 4
			if i%4 >= 2 {
				sgn = -1
			}
			s = S0[(i/4)%1024]
		case 12:
			v := new(big.Int).Rsh(s, uint(bits-14))
			s = v.Lsh(v, uint(bits-14))
		case 13:
			src = i % 2
			s = S0[i%3]
		case 14: // small negative scalars r-1 … r-7: the digits of r, top digit maximal
			s = new(big.Int).Sub(r, big.NewInt(int64(1+i%7)))
		case 15: // [P, P] with [s, -s]: the exact sum is infinity, no chunk sum is
			src = i / 2 * 2
			if i%2 == 1 {
				s = new(big.Int).Sub(r, S0[i-1])
				s.Mod(s, r)
			} else if i+1 == n {
				s = new(big.Int)
			}
		case 16: // second half = -(first half) with the same scalars
			h := n / 2
			switch {
			case i < h:
			case i < 2*h:
				src, sgn, s = i-h, -1, S0[i-h]
			default:
				s = new(big.Int)
			}
		case 17: // [P, -P/t], t = s_0: Fold sums to infinity
			if i%2 == 1 {
				v := new(big.Int).Mul(A0[i-1], tinv)
				v.Mod(v, r)
				adirect = v.Sub(r, v).Mod(v, r)
				src = -1
			} else if i+1 == n {
				sgn = 0
			}
		default:
			// parametrised scalar shapes <kind>·0x1000 + k (chunk statistics: which windows are hit)
			k := uint(shape % 4096)
			switch shape / 4096 {
			case 1: // k-bit scalars: only the windows below bit k (and the carry window) are hit
				s = new(big.Int).And(s, c04Mask(k))
			case 2: // r-1-(k-bit value): top digit maximal, windows above bit k are those of r
				v := new(big.Int).And(s, c04Mask(k))
				s = v.Sub(new(big.Int).Sub(r, big.NewInt(1)), v)
			case 3: // low k bits cleared: only the top windows (last chunk included) are hit, top digits spread over their full range
				v := new(big.Int).Rsh(s, k)
				s = v.Lsh(v, k)
			case 4: // a 16-bit band at bit k: one or two windows in the middle are hit
				v := new(big.Int).Rsh(s, k)
				v.And(v, big.NewInt(65535))
				s = v.Lsh(v, k)
			}
		}
		var a *big.Int
		switch {
		case adirect != nil:
			a = adirect
		case sgn == 0:
			a = new(big.Int)
		case sgn == 1:
			a = A0[src]
		default:
			a = new(big.Int).Sub(r, A0[src])
			a.Mod(a, r)
		}
		in.src[i], in.sgn[i] = src, sgn
		A[i], S[i] = a, s
	}
	in.A, in.S = A, S
	return in
}

// c04Timeout bounds one MSM op (a MultiExp of the quick tier takes < 3 s, the largest one of the thorough tier < 60 s
// on the 16-CPU host): 30 s + 0.2 ms per point, below the 180 s watchdog of main.go. After a first hang in this process
// the following ops get a quarter of it, so that a defect that blocks many lines does not stall the run for hours.
var c04Hangs int

func c04Timeout(n int) time.Duration {
	d := 30*time.Second + time.Duration(n)*200*time.Microsecond
	if d > 170*time.Second {
		d = 170 * time.Second
	}
	if c04Hangs > 0 {
		d /= 4
	}
	return d
}

func c04Mask(k uint) *big.Int {
	v := new(big.Int).Lsh(big.NewInt(1), k)
	return v.Sub(v, big.NewInt(1))
}

// ---------------------------------------------------------------- executor

func c04ParseInt(s string) int {
	neg := strings.HasPrefix(s, "-")
	v, _ := strconv.ParseInt(strings.TrimPrefix(s, "-"), 16, 64)
	if neg {
		return int(-v)
	}
	return int(v)
}
func c04HexInt(v int) string {
	if v < 0 {
		return "-" + strconv.FormatInt(int64(-v), 16)
	}
	return strconv.FormatInt(int64(v), 16)
}

func execC04(a []string) string {
	if len(a) == 0 {
		return "bad-op"
	}
	if !c04IsChild && !c04NoIso && (a[0] == "MSM" || a[0] == "MSMX" || a[0] == "BSM") {
		n := 0
		if len(a) > 12 {
			n = c04ParseInt(a[12]) // MSM, MSMX: number of points (sizes the deadline)
		}
		return c04Isolated(a, n)
	}
	switch a[0] {
	case "MSMX":
		return c04ExecX(a)
	case "MSM":
		if len(a) != 18 {
			return "bad-op"
		}
		g, ok := c04Groups[a[1]+"/"+a[2]]
		if !ok {
			return "bad-op"
		}
		api := a[3]
		seed, _ := strconv.ParseUint(a[11], 16, 64)
		n := c04ParseInt(a[12])
		shape := c04ParseInt(a[13])
		nbTasks := c04ParseInt(a[14])
		gmp := c04ParseInt(a[15])
		nScalars := c04ParseInt(a[16])
		in := c04MkInput(g.r, seed, n, shape)
		// mismatched lengths: cut or pad the scalar vector
		for len(in.S) < nScalars {
			in.S = append(in.S, big.NewInt(int64(len(in.S))+1))
		}
		if api != "fold" && api != "foldjac" {
			in.S = in.S[:nScalars]
		}
		t0 := time.Now()
		defer func() {
			if d := time.Since(t0); d > 2*time.Second && os.Getenv("GV_C04_TIME") != "" {
				fmt.Fprintln(os.Stderr, "slow:", d, a[1], a[2], a[3], a[12], a[13], a[14], a[15])
			}
		}()
		return c04Guarded(g, api, in, n, nbTasks, gmp)
	case "BSM":
		// C04 BSM <curve> <grp> <tower> <p> <a> <b> <r> <Gx> <Gy> <seed> <n> <shape>
		if len(a) != 13 {
			return "bad-op"
		}
		g, ok := c04Groups[a[1]+"/"+a[2]]
		if !ok {
			return "bad-op"
		}
		seed, _ := strconv.ParseUint(a[10], 16, 64)
		n := c04ParseInt(a[11])
		W, S := c04Vectors(g.r, seed, n, c04ParseInt(a[12]))
		for i := range W {
			W[i] = new(big.Int).And(W[i], big.NewInt(0xffff))
		}
		return g.bsm(S, W)
	}
	return c04ShimExec(a)
}

// ---------------------------------------------------------------- generator

// first minimiser of (bits+1)(n+2^c)/c – only used to choose interesting n (not part of the comparison)
func c04BestC(cs []int, n int) int {
	best, bc := 0.0, 0
	for i, c := range cs {
		cost := float64(n+(1<<c)) / float64(c)
		if i == 0 || cost < best {
			best, bc = cost, c
		}
	}
	return bc
}

// smallest n for which bestC(n) == c (0 if unreachable)
func c04FirstN(cs []int, c int) int {
	if c04BestC(cs, 0) == c {
		return 0
	}
	lo, hi := 0, 1<<21
	// bestC is monotone in n
	for lo+1 < hi {
		mid := (lo + hi) / 2
		if c04BestC(cs, mid) >= c {
			hi = mid
		} else {
			lo = mid
		}
	}
	if c04BestC(cs, hi) == c {
		return hi
	}
	return 0
}

func (g *gen) c04Line(grp *c04Group, api string, n, shape, nbTasks, gmp, nScalars int) {
	if nScalars < 0 {
		nScalars = n
	}
	if !g.thorough() && strings.HasPrefix(grp.curve, "bw6") && nbTasks <= 1024 && nScalars == n && g.rng.intn(2) == 0 {
		return // the reference scalar multiplication over a 633/761-bit field dominates the quick tier
	}
	g.c04Emit(grp, api, n, shape, nbTasks, gmp, nScalars)
}

func (g *gen) c04Emit(grp *c04Group, api string, n, shape, nbTasks, gmp, nScalars int) {
	g.emit("C04 MSM %s %s %s %s %x %x %x %s %s %s %x", grp.curve, grp.grp, api, grp.params, g.rng.u64(), n, shape,
		c04HexInt(nbTasks), c04HexInt(gmp), c04HexInt(nScalars), runtime.NumCPU())
}

var c04Shapes = 14

func genC04(g *gen) {
	ncpu := runtime.NumCPU()
	taskLattice := []int{-1, 0, 1, 2, 3, ncpu - 1, ncpu, ncpu + 1, 16, 1024}
	apis := []string{"aff", "jac", "fold"}
	pickTasks := func() int { return taskLattice[g.rng.intn(len(taskLattice))] }
	pickGmp := func() int { return []int{0, 0, 1, 2, 3, ncpu, 2 * ncpu}[g.rng.intn(7)] }

	for gi, key := range c04Order {
		grp := c04Groups[key]
		main := key == "bn254/g1"
		heavy := strings.HasPrefix(key, "bw6") || strings.HasPrefix(key, "bls24") || grp.grp == "g2"
		// (1) error classes and the empty / tiny inputs
		if main || g.thorough() {
			for _, api := range []string{"aff", "jac", "fold", "foldjac"} {
				g.c04Line(grp, api, 3, 0, 1025, 0, 3)
				g.c04Line(grp, api, 0, 0, 1, 0, 0)
			}
			g.c04Line(grp, "aff", 3, 0, 2, 0, 2)
			g.c04Line(grp, "jac", 2, 0, 2, 0, 3)
			g.c04Line(grp, "aff", 0, 0, 0, 0, 1)
			g.c04Line(grp, "jac", 2, 0, 4000, 0, 5) // both errors: the length is reported
		} else {
			g.c04Line(grp, apis[gi%3], 3, 0, 1025, 0, 3)
			g.c04Line(grp, apis[(gi+1)%3], 3, 0, 1, 0, 2)
			g.c04Line(grp, apis[(gi+2)%3], 0, 0, 0, 0, 0)
		}
		// (2) every shape on small inputs, tasks from the lattice
		nsmall := []int{1, 2, 3, 4, 5, 8, 13, 33, 64}
		reps := g.budget(1, 2)
		if main {
			reps = g.budget(2, 8)
		}
		for rep := 0; rep < reps; rep++ {
			for shape := 0; shape < c04Shapes; shape++ {
				if !main && !g.thorough() && (shape+gi+rep)%4 != 0 {
					continue
				}
				n := nsmall[g.rng.intn(len(nsmall))]
				g.c04Line(grp, apis[g.rng.intn(3)], n, shape, pickTasks(), pickGmp(), n)
			}
		}
		// (3) NbTasks lattice × GOMAXPROCS on one medium input
		if main || g.thorough() {
			for _, t := range append(taskLattice, 1024, 7, 64, 512, 513) {
				g.c04Line(grp, "jac", 50+g.rng.intn(200), 0, t, pickGmp(), -1)
			}
			for _, m := range []int{1, 2, 3, ncpu - 1, ncpu + 1, 4 * ncpu} {
				if m > 0 {
					g.c04Line(grp, "aff", 300+g.rng.intn(300), g.rng.intn(c04Shapes), pickTasks(), m, -1)
				}
			}
		}
		// (4) sizes that select every window c (NbTasks=1 never splits, so c = bestC(n)); other task counts too
		maxN := g.budget(6000, 1<<20)
		if heavy {
			maxN = g.budget(400, 1<<17)
		}
		if main {
			maxN = g.budget(21000, 1<<20)
		}
		for _, c := range grp.cs {
			n0 := c04FirstN(grp.cs, c)
			if c != grp.cs[0] && n0 == 0 {
				continue
			}
			for vi, n := range []int{n0 - 1, n0, n0 + 1 + g.rng.intn(n0/8+1)} {
				if n < 0 || n > maxN {
					continue
				}
				if g.thorough() {
					// the big sizes are expensive: all three n only for the main group, only the threshold elsewhere
					if !main && vi != 1 && (c >= 13 || heavy && c >= 11) {
						continue
					}
					g.c04Line(grp, "jac", n, 0, 1, 0, -1)
					if main || vi == 1 {
						g.c04Line(grp, apis[g.rng.intn(3)], n, 0, pickTasks(), pickGmp(), -1)
					}
				} else if main {
					if vi < 2 {
						g.c04Line(grp, "jac", n, 0, 1, 0, -1) // exactly at the threshold, one task: c = bestC(n)
					} else {
						g.c04Line(grp, apis[g.rng.intn(3)], n, 0, pickTasks(), pickGmp(), -1)
					}
				} else if vi == 1 {
					g.c04Line(grp, "jac", n, 0, 1, 0, -1)
				}
			}
		}
		// (5) skewed inputs on sizes with c ≥ 10: overweight chunk split (shapes 8, 12, 9) and batch-affine
		//     conflicts / doublings / cancellations (shapes 10, 11, 13, 1)
		if main || g.thorough() || !heavy {
			sizes := []int{4500, 9300}
			if g.thorough() && !heavy {
				sizes = append(sizes, 21000, 46000)
			}
			if g.thorough() && main {
				sizes = append(sizes, 99000, 214000, 460000)
			}
			for _, n := range sizes {
				if n > maxN {
					continue
				}
				for _, shape := range []int{8, 12, 9, 10, 11, 13, 1, 2, 7} {
					if !main && !g.thorough() && g.rng.intn(3) != 0 {
						continue
					}
					if !main && g.thorough() && g.rng.intn(2) != 0 {
						continue
					}
					t := 1
					if g.rng.coin() {
						t = pickTasks()
					}
					g.c04Line(grp, apis[g.rng.intn(2)], n+g.rng.intn(64), shape, t, pickGmp(), -1)
				}
			}
		}
	}
	// (6) BatchScalarMultiplication (same partitionScalars, window 2..16 chosen from n)
	//     secp256k1 is kept below 3585 scalars: from there on the function selects c=16, which the secp256k1
	//     instance does not support (known finding: index out of range in partitionScalars / wrong digits)
	for _, key := range c04Order {
		grp := c04Groups[key]
		sizes := []int{0, 1, 2, 5, 40, 300}
		if g.thorough() {
			sizes = append(sizes, 1024, 1025, 3584, 3585, 20000)
		} else if grp.curve == "secp256k1" {
			sizes = append(sizes, 3585) // regression: window 16 is not supported by this instance (fixed by 59511a2)
		}
		for _, n := range sizes {
			if !g.thorough() && key != "bn254/g1" && g.rng.intn(3) != 0 {
				continue
			}
			shape := []int{0, 4, 6, 7, 9, 12}[g.rng.intn(6)]
			g.emit("C04 BSM %s %s %s %x %x %x", grp.curve, grp.grp, grp.params, g.rng.u64(), n, shape)
		}
	}
	c04ShimGen(g)
	// (7) chunk-statistics lattice. Last: a panic in a worker goroutine of the library cannot be recovered and ends the
	// harness process, so the lines most likely to provoke one come after everything else
	for gi, key := range c04Order {
		g.c04Stats(c04Groups[key], gi)
	}
	// (8) cancellation classes, (9) batch-affine scheduler orderings (c04x.go)
	genC04X(g)
	// (10) every branch of the batch-affine processor, every group, every window c ≥ 10 (c04q.go)
	genC04Q(g)
}

// ---------------------------------------------------------------- (7) chunk statistics × window bands × semaphore
//
// For c ≥ 10 the code computes per-chunk statistics: a chunk whose load is ≥ 115 % of the mean is split in two workers
// (one more token in the semaphore when NbTasks < NumCPU), the last chunk uses the bucket array of lastC(c) ≠ c.
// Uniform scalars never produce an overweight chunk; the shapes below make one / the last / more than half / all
// non-empty chunks overweight, for n in every band of the window choice, for the task counts of the semaphore path
// and of the free path, on every group (each group has its own generated copy of the code).

func c04NbChunks(bits, c int) int { return (bits + c - 1) / c }
func c04LastC(bits, c int) int    { return c + 1 - (c04NbChunks(bits, c)*c - bits) }

// mirror of the split decision of MultiExp (only used to choose n / NbTasks; not part of the comparison):
// window used by the first leaf of the recursion for n points and k tasks
func c04LeafC(cs []int, bits, n, k int) int {
	cost := func(nbTasks, nbCpus, cpt int) int {
		tot := nbTasks
		for nbTasks >= nbCpus {
			nbTasks -= nbCpus
			tot += cpt
		}
		if nbTasks > 0 {
			tot += cpt
		}
		return tot
	}
	if k <= 0 {
		k = 2 * runtime.NumCPU()
	}
	for depth := 0; depth < 40; depth++ {
		c := c04BestC(cs, n)
		c2 := c04BestC(cs, n/2)
		pre := cost(c04NbChunks(bits, c), k, n+(1<<c))
		post := cost(2*c04NbChunks(bits, c2), k, n/2+(1<<c2))
		if post >= pre {
			return c
		}
		n, k = n/2, (k+1)/2
	}
	return 0
}

// the scalar shapes of one band: active window c, nb chunks
func c04StatShapes(bits, c int) (dense, over, highOver, neg, high, band []int) {
	nb := c04NbChunks(bits, c)
	clampK := func(k int) int {
		if k < 1 {
			k = 1
		}
		if k > bits-1 {
			k = bits - 1
		}
		return k
	}
	// m full windows + the carry window: every full window is overweight iff 100·nb ≥ 115·(m+1/2);
	// more than half of the chunks are overweight for nb/2 < m ≤ mHi
	mHi := (200*nb - 115) / 230
	mLo := nb/2 + 1
	for m := mLo; m <= mHi; m++ {
		over = append(over, 0x1000+clampK(m*c))
		// the m top windows: more than half of the chunks overweight, the last one included
		highOver = append(highOver, 0x3000+clampK((nb-m)*c))
	}
	for _, m := range []int{1, 2, nb / 8, nb / 4, 3 * nb / 8, nb/2 - 1, nb / 2, mHi + 1, mHi + 2, nb - 2, nb - 1} {
		if m >= 1 && m < nb {
			dense = append(dense, 0x1000+clampK(m*c), 0x1000+clampK(m*c+c/2))
		}
	}
	for _, k := range []int{1, 3, c - 1, c, c + 1, nb / 4 * c, nb / 2 * c, mLo * c, mHi * c} {
		neg = append(neg, 0x2000+clampK(k))
	}
	for _, j := range []int{1, 2, 3, nb / 4, nb / 2, 3 * nb / 4} { // the j top windows are hit
		if j < nb {
			high = append(high, 0x3000+clampK((nb-j)*c))
		}
	}
	high = append(high, 0x3000+clampK(bits-c04LastC(bits, c)+1), 0x3000+clampK(bits-2))
	for _, j := range []int{0, 1, nb / 2, nb - 3} {
		if k := j*c + c/2; j >= 0 && k+17 <= bits {
			band = append(band, 0x4000+k)
		}
	}
	return
}

func (g *gen) c04Stats(grp *c04Group, gi int) {
	ncpu := runtime.NumCPU()
	bits := grp.r.BitLen()
	heavy := strings.HasPrefix(grp.curve, "bw6") || strings.HasPrefix(grp.curve, "bls24") || grp.grp == "g2"
	// one curve per distinct fr.Bits gets the wider sweep in the quick tier
	wide := map[string]bool{"bls12-377": true, "bn254": true, "bls12-381": true, "secp256k1": true, "bw6-633": true, "bw6-761": true}[grp.curve]
	semTasks := []int{1, 2, 3, ncpu - 1}
	freeTasks := []int{ncpu, 0, -1, ncpu + 1, 16, 64, 1024}
	apis := []string{"aff", "jac"}
	scaleCap := 0
	line := func(n, c, shape, t, gmp int) {
		// the requested window must be the one the leaves of the call select: scale n by the number of halvings,
		// otherwise fall back to NumCPU tasks (free path) resp. one task (never splits)
		if c04LeafC(grp.cs, bits, n, t) != c {
			ok := false
			for d := 1; d <= 6 && n<<d <= scaleCap; d++ {
				if c04LeafC(grp.cs, bits, n<<d, t) == c {
					n, ok = n<<d, true
					break
				}
			}
			if !ok {
				alt := []int{ncpu - 1, 3, 2, 1} // same path, fewer workers
				if t <= 0 || t >= ncpu {
					alt = []int{ncpu, ncpu - 1, 3, 2, 1}
				}
				for _, t = range alt {
					if c04LeafC(grp.cs, bits, n, t) == c {
						break
					}
				}
			}
		}
		g.c04Emit(grp, apis[g.rng.intn(2)], n, shape, t, gmp, n)
	}
	pick := func(l []int) int { return l[g.rng.intn(len(l))] }
	// the small-negative shape and the parametrised shapes on small inputs (c < 10: no statistics, full model cross-check)
	if g.thorough() || wide {
		for _, shape := range []int{14, 0x1000 + bits/2, 0x2000 + 9, 0x3000 + bits - 9, 0x4000 + bits/3} {
			if !g.thorough() && g.rng.intn(3) != 0 {
				continue
			}
			g.c04Line(grp, []string{"aff", "jac", "fold"}[g.rng.intn(3)], pick([]int{1, 2, 7, 33, 100}), shape, pick(append(semTasks, freeTasks...)), 0, -1)
		}
	}
	nband := 0
	for ci, c := range grp.cs {
		if c < 10 {
			continue
		}
		lo := c04FirstN(grp.cs, c)
		if lo == 0 {
			continue
		}
		hi := 2 * lo
		if ci+1 < len(grp.cs) {
			if h := c04FirstN(grp.cs, grp.cs[ci+1]); h > 0 {
				hi = h - 1
			}
		}
		up := c04LastC(bits, c) > c // the last window is wider than c: bucket array of the next size
		maxN := g.budget(9300, 1<<20)
		if heavy {
			maxN = g.budget(9300, 1<<17)
		}
		if !g.thorough() && wide {
			maxN = 21000
			if up && grp.curve == "bls12-381" {
				maxN = 1 << 18 // 255 = 15·17: the only window ≥ 10 with lastC > c on 255-bit scalar fields
			}
			if c > 12 && !up {
				continue
			}
		}
		if lo > maxN {
			continue
		}
		scaleCap = g.budget(0, 100000) // free task counts split the input: scale n so that the halves select c
		nOf := func() int {            // near the lower edge of the band (cheapest), sometimes anywhere
			w := lo/16 + 1
			if g.thorough() && c <= 12 && g.rng.intn(4) == 0 {
				w = hi - lo
			}
			if lo+w > hi {
				w = hi - lo
			}
			return lo + 1 + g.rng.intn(w+1)
		}
		dense, over, highOver, neg, high, band := c04StatShapes(bits, c)
		if len(over) == 0 { // cannot happen for fr.Bits ≥ 64 (nb ≥ 4)
			continue
		}
		rot := gi + nband
		nband++
		semT := func(i int) int {
			t := semTasks[(rot+i)%len(semTasks)]
			if heavy && t == 1 && !g.thorough() {
				t = ncpu - 1 // same path, 15 workers
			}
			return t
		}
		if !g.thorough() {
			hiOver := highOver[rot%len(highOver)]
			switch {
			case c > 12 && lo > 21000: // the expensive band: one line, semaphore path, every non-empty chunk (also the last) overweight
				line(lo+1+g.rng.intn(64), c, hiOver, ncpu-1, 0)
			case c >= 12 && lo > 9300, !wide:
				line(nOf(), c, hiOver, semT(0), 0)
				line(nOf(), c, over[rot%len(over)], semT(1), 0)
			default:
				// more than half of the chunks overweight on the semaphore path
				line(nOf(), c, over[rot%len(over)], semT(0), 0)
				// overweight last chunk, top digits over their full range / maximal; free path and semaphore path alternate
				t := semT(1)
				if rot%2 == 0 {
					t = freeTasks[(rot/2)%2]
				}
				switch {
				case up || rot%3 == 0:
					line(nOf(), c, hiOver, t, 0)
				case rot%3 == 1:
					line(nOf(), c, high[rot%3], t, 0)
				default:
					line(nOf(), c, neg[rot%len(neg)], t, 0)
				}
				if up {
					line(nOf(), c, high[rot%3], semT(2), 0)
				}
			}
			continue
		}
		// thorough: up to four fixed lines per band, then a sample of the whole shape lattice (big windows are expensive:
		// n > 45000 costs 0.3 … 3 s per line on each side)
		line(nOf(), c, highOver[(rot+1)%len(highOver)], semT(1), 0)
		if c <= 14 || up {
			line(nOf(), c, over[rot%len(over)], semT(0), 0)
		}
		if c <= 13 || up {
			line(nOf(), c, high[0], pick(freeTasks), 0)
		}
		if c <= 12 {
			line(nOf(), c, 14, semT(2), 0)
		}
		all := append(append(append(append(append(append([]int{6}, dense...), over...), highOver...), neg...), high...), band...)
		want := 0
		switch {
		case c <= 11:
			want = 8
		case c == 12:
			want = 5
		case up || grp.curve == "bn254" && grp.grp == "g1":
			want = 2
		}
		for si, shape := range all {
			if g.rng.intn(len(all)) >= want {
				continue
			}
			t := semT(si)
			if si%2 == 1 {
				t = pick(freeTasks)
			}
			if c >= 13 && t == 1 {
				t = ncpu - 1
			}
			gmp := 0
			if g.rng.intn(4) == 0 {
				gmp = pick([]int{1, 2, ncpu, 2 * ncpu})
			}
			line(nOf(), c, shape, t, gmp)
		}
	}
}

// GV_C04_CRASH=1 also emits the lines that are known to crash the harness process (panic in a goroutine of the library)
var c04Crash = os.Getenv("GV_C04_CRASH") != ""

func init() {
	executors["C04"] = execC04
	generators["C04"] = genC04
}

var _ = fmt.Sprint
