package main

// C04 — MultiExp / Fold of every curve package that has multiexp.go, expected value "in the exponent".
//
// op line:  C04 MSM <curve> <g1|g2> <aff|jac|fold> <tower> <p> <a> <b> <r> <Gx> <Gy> <seed> <n> <shape> <nbTasks> <gomaxprocs> <nScalars> <numCPU>
// The points are P_i = [a_i]G, the pairs (a_i, s_i) are derived from <seed>, <n>, <shape> by splitmix64
// (same derivation in Model/MSM.lean); the model answers [Σ a_i·s_i mod r]G computed with the textbook group law.
// result: "<x>;<y>" (coordinates hex, tower coefficients comma separated) | inf | err:len | err:nbtasks | panic | hang

import (
	"fmt"
	"math/big"
	"os"
	"runtime"
	"strconv"
	"strings"
	"sync"
	"time"

	"github.com/consensys/gnark-crypto/ecc"
)

type c04Group struct {
	curve, grp string
	params     string // "<tower> <p> <a> <b> <r> <Gx> <Gy>"
	r          *big.Int
	cs         []int
	run        func(api string, in *c04Input, nbTasks, gmp int) string
	bsm        func(S, W []*big.Int) string
}

var c04Groups = map[string]*c04Group{}
var c04Order []string

type c04Aff[A, J, E any] interface {
	*A
	MultiExp([]A, []E, ecc.MultiExpConfig) (*A, error)
	Fold([]A, E, ecc.MultiExpConfig) (*A, error)
	ScalarMultiplication(*A, *big.Int) *A
	FromJacobian(*J) *A
	Neg(*A) *A
	IsInfinity() bool
}
type c04Jac[A, J, E any] interface {
	*J
	MultiExp([]A, []E, ecc.MultiExpConfig) (*J, error)
	Fold([]A, E, ecc.MultiExpConfig) (*J, error)
	FromAffine(*A) *J
	AddAssign(*J) *J
	AddMixed(*A) *J
}
type c04Fr[E any] interface {
	*E
	SetBigInt(*big.Int) *E
}

// run f(0..n-1) on all CPUs
func c04Par(n int, f func(i int)) {
	w := runtime.NumCPU()
	if n < 64 {
		w = 1
	}
	var wg sync.WaitGroup
	for k := 0; k < w; k++ {
		wg.Add(1)
		go func(k int) {
			defer wg.Done()
			for i := k; i < n; i += w {
				f(i)
			}
		}(k)
	}
	wg.Wait()
}

func c04Err(err error) string {
	s := err.Error()
	switch {
	case strings.Contains(s, "len(points)"):
		return "err:len"
	case strings.Contains(s, "NbTasks"):
		return "err:nbtasks"
	}
	return "err:other"
}

func c04Register[A, J, E any, PA c04Aff[A, J, E], PJ c04Jac[A, J, E], PE c04Fr[E]](
	curve, grp, tower string, p, r *big.Int, cs []int, gen A, bcoef string,
	batch func(*A, []E) []A, show func(*A) string) {

	g := &c04Group{curve: curve, grp: grp, r: r, cs: cs}
	zero := "0"
	if n := strings.Count(bcoef, ","); n > 0 {
		zero = "0" + strings.Repeat(",0", n)
	}
	gs := show(&gen)
	xy := strings.Split(gs, ";")
	g.params = join([]string{tower, hexBig(p), zero, bcoef, hexBig(r), xy[0], xy[1]})
	g.run = func(api string, in *c04Input, nbTasks, gmp int) string {
		av, sv := in.A, in.S
		n := len(av)
		points := make([]A, n)
		if in.prog {
			// base points a0 + i·d by repeated addition, then the shape as source index and sign
			var p0, d A
			PA(&p0).ScalarMultiplication(&gen, in.A0[0])
			PA(&d).ScalarMultiplication(&gen, in.D)
			jac := make([]J, n)
			var cur J
			PJ(&cur).FromAffine(&p0)
			for i := 0; i < n; i++ {
				jac[i] = cur
				PJ(&cur).AddMixed(&d)
			}
			base := make([]A, n)
			c04Par(n, func(i int) { PA(&base[i]).FromJacobian(&jac[i]) })
			for i := 0; i < n; i++ {
				switch in.sgn[i] {
				case 1:
					points[i] = base[in.src[i]]
				case -1:
					PA(&points[i]).Neg(&base[in.src[i]])
				}
			}
		} else {
			// reference points by plain ScalarMultiplication (independent of partitionScalars), in parallel
			c04Par(n, func(i int) { PA(&points[i]).ScalarMultiplication(&gen, av[i]) })
		}
		var inf A
		for i := range av {
			if av[i].Sign() == 0 {
				points[i] = inf
			}
		}
		scalars := make([]E, len(sv))
		for i := range sv {
			PE(&scalars[i]).SetBigInt(sv[i])
		}
		cfg := ecc.MultiExpConfig{NbTasks: nbTasks}
		if gmp > 0 { // only the call under test runs with the requested GOMAXPROCS
			old := runtime.GOMAXPROCS(gmp)
			defer runtime.GOMAXPROCS(old)
		}
		var res A
		var err error
		switch api {
		case "aff":
			res = gen // receiver content must not matter
			_, err = PA(&res).MultiExp(points, scalars, cfg)
		case "jac":
			var j J
			PJ(&j).FromAffine(&gen)
			_, err = PJ(&j).MultiExp(points, scalars, cfg)
			PA(&res).FromJacobian(&j)
		case "fold":
			var t E
			if len(sv) > 0 {
				t = scalars[0]
			}
			res = gen
			_, err = PA(&res).Fold(points, t, cfg)
		case "foldjac":
			var t E
			if len(sv) > 0 {
				t = scalars[0]
			}
			var j J
			PJ(&j).FromAffine(&gen)
			_, err = PJ(&j).Fold(points, t, cfg)
			PA(&res).FromJacobian(&j)
		default:
			return "bad-op"
		}
		if err != nil {
			return c04Err(err)
		}
		if PA(&res).IsInfinity() {
			return "inf"
		}
		return show(&res)
	}
	// BatchScalarMultiplication (shares partitionScalars with MultiExp): Σ w_i·([s_i]G) by plain add/mul
	g.bsm = func(sv, wv []*big.Int) string {
		ss := make([]E, len(sv))
		for i := range sv {
			PE(&ss[i]).SetBigInt(sv[i])
		}
		pts := batch(&gen, ss)
		if len(pts) != len(sv) {
			return "err:len"
		}
		var acc, t J
		var res A
		PJ(&acc).FromAffine(&res) // infinity
		for i := range pts {
			PA(&pts[i]).ScalarMultiplication(&pts[i], wv[i])
			PJ(&t).FromAffine(&pts[i])
			PJ(&acc).AddAssign(&t)
		}
		PA(&res).FromJacobian(&acc)
		if PA(&res).IsInfinity() {
			return "inf"
		}
		return show(&res)
	}
	key := curve + "/" + grp
	c04Groups[key] = g
	c04Order = append(c04Order, key)
}

// ---------------------------------------------------------------- deterministic vectors (mirrors Model/MSM.lean)

type c04sm struct{ s uint64 }

func (r *c04sm) u64() uint64 {
	r.s += 0x9E3779B97F4A7C15
	z := r.s
	z = (z ^ (z >> 30)) * 0xBF58476D1CE4E5B9
	z = (z ^ (z >> 27)) * 0x94D049BB133111EB
	return z ^ (z >> 31)
}

func (r *c04sm) nextFr(limbs int, mod *big.Int) *big.Int {
	v := new(big.Int)
	for l := 0; l < limbs; l++ {
		v.Lsh(v, 64)
		v.Or(v, new(big.Int).SetUint64(r.u64()))
	}
	return v.Mod(v, mod)
}

// inputs of one line: A[i] = sgn[i]·A0[src[i]] (exponents of the points), S[i] scalars
type c04Input struct {
	A, S, A0 []*big.Int
	D        *big.Int // step of the arithmetic progression (prog mode)
	src      []int
	sgn      []int8
	prog     bool
}

// from this size on the base exponents are the progression A0[0] + i·A0[1] (cheap reference points)
const c04ProgN = 2048

func c04Vectors(r *big.Int, seed uint64, n, shape int) (A, S []*big.Int) {
	in := c04MkInput(r, seed, n, shape)
	return in.A, in.S
}

func c04MkInput(r *big.Int, seed uint64, n, shape int) *c04Input {
	bits := r.BitLen()
	limbs := (bits + 63) / 64
	sm := &c04sm{s: seed}
	A0 := make([]*big.Int, n)
	S0 := make([]*big.Int, n)
	for i := 0; i < n; i++ {
		A0[i] = sm.nextFr(limbs, r)
		S0[i] = sm.nextFr(limbs, r)
	}
	in := &c04Input{A0: A0, src: make([]int, n), sgn: make([]int8, n)}
	if n >= c04ProgN {
		in.prog = true
		in.D = A0[1]
		a0 := A0[0]
		for i := 1; i < n; i++ {
			v := new(big.Int).Mul(big.NewInt(int64(i)), in.D)
			v.Add(v, a0)
			A0[i] = v.Mod(v, r)
		}
	}
	A := make([]*big.Int, n)
	S := make([]*big.Int, n)
	for i := 0; i < n; i++ {
		src, sgn, s := i, int8(1), S0[i]
		switch shape {
		case 1:
			src = 0
		case 2:
			if i%2 == 1 {
				src, sgn = i-1, -1
			}
			if i%4 == 1 {
				s = S0[i-1]
			}
		case 3:
			if i%3 == 0 {
				sgn = 0
			}
		case 4:
			if i%2 == 0 {
				s = new(big.Int)
			}
		case 5:
			s = new(big.Int)
		case 6:
			s = new(big.Int).Sub(r, big.NewInt(1))
		case 7:
			v := new(big.Int).Lsh(big.NewInt(1), uint(64*(1+i%limbs)))
			v.Sub(v, big.NewInt(1))
			if v.Cmp(r) >= 0 {
				v.Sub(r, big.NewInt(1))
				v.Sub(v, new(big.Int).Mod(big.NewInt(int64(i)), r))
				v.Mod(v, r)
			}
			s = v
		case 8:
			s = new(big.Int).And(s, big.NewInt(65535))
		case 9:
			s = S0[0]
		case 10:
			s = S0[(i/4)%1024]
		case 11:
			src = i / 4 * 4
			if i%4 >= 2 {
				sgn = -1
			}
			s = S0[(i/4)%1024]
		case 12:
			v := new(big.Int).Rsh(s, uint(bits-14))
			s = v.Lsh(v, uint(bits-14))
		case 13:
			src = i % 2
			s = S0[i%3]
		}
		var a *big.Int
		switch sgn {
		case 0:
			a = new(big.Int)
		case 1:
			a = A0[src]
		default:
			a = new(big.Int).Sub(r, A0[src])
			a.Mod(a, r)
		}
		in.src[i], in.sgn[i] = src, sgn
		A[i], S[i] = a, s
	}
	in.A, in.S = A, S
	return in
}

// ---------------------------------------------------------------- executor

func c04ParseInt(s string) int {
	neg := strings.HasPrefix(s, "-")
	v, _ := strconv.ParseInt(strings.TrimPrefix(s, "-"), 16, 64)
	if neg {
		return int(-v)
	}
	return int(v)
}
func c04HexInt(v int) string {
	if v < 0 {
		return "-" + strconv.FormatInt(int64(-v), 16)
	}
	return strconv.FormatInt(int64(v), 16)
}

func execC04(a []string) string {
	if len(a) == 0 {
		return "bad-op"
	}
	switch a[0] {
	case "MSM":
		if len(a) != 18 {
			return "bad-op"
		}
		g, ok := c04Groups[a[1]+"/"+a[2]]
		if !ok {
			return "bad-op"
		}
		api := a[3]
		seed, _ := strconv.ParseUint(a[11], 16, 64)
		n := c04ParseInt(a[12])
		shape := c04ParseInt(a[13])
		nbTasks := c04ParseInt(a[14])
		gmp := c04ParseInt(a[15])
		nScalars := c04ParseInt(a[16])
		in := c04MkInput(g.r, seed, n, shape)
		// mismatched lengths: cut or pad the scalar vector
		for len(in.S) < nScalars {
			in.S = append(in.S, big.NewInt(int64(len(in.S))+1))
		}
		if api != "fold" && api != "foldjac" {
			in.S = in.S[:nScalars]
		}
		t0 := time.Now()
		defer func() {
			if d := time.Since(t0); d > 2*time.Second && os.Getenv("GV_C04_TIME") != "" {
				fmt.Fprintln(os.Stderr, "slow:", d, a[1], a[2], a[3], a[12], a[13], a[14], a[15])
			}
		}()
		ch := make(chan string, 1)
		go func() {
			defer func() {
				if r := recover(); r != nil {
					ch <- "panic"
				}
			}()
			ch <- g.run(api, in, nbTasks, gmp)
		}()
		select {
		case res := <-ch:
			return res
		case <-time.After(10 * time.Minute):
			return "hang"
		}
	case "BSM":
		// C04 BSM <curve> <grp> <tower> <p> <a> <b> <r> <Gx> <Gy> <seed> <n> <shape>
		if len(a) != 13 {
			return "bad-op"
		}
		g, ok := c04Groups[a[1]+"/"+a[2]]
		if !ok {
			return "bad-op"
		}
		seed, _ := strconv.ParseUint(a[10], 16, 64)
		n := c04ParseInt(a[11])
		W, S := c04Vectors(g.r, seed, n, c04ParseInt(a[12]))
		for i := range W {
			W[i] = new(big.Int).And(W[i], big.NewInt(0xffff))
		}
		return g.bsm(S, W)
	}
	return c04ShimExec(a)
}

// ---------------------------------------------------------------- generator

// first minimiser of (bits+1)(n+2^c)/c – only used to choose interesting n (not part of the comparison)
func c04BestC(cs []int, n int) int {
	best, bc := 0.0, 0
	for i, c := range cs {
		cost := float64(n+(1<<c)) / float64(c)
		if i == 0 || cost < best {
			best, bc = cost, c
		}
	}
	return bc
}

// smallest n for which bestC(n) == c (0 if unreachable)
func c04FirstN(cs []int, c int) int {
	if c04BestC(cs, 0) == c {
		return 0
	}
	lo, hi := 0, 1<<21
	// bestC is monotone in n
	for lo+1 < hi {
		mid := (lo + hi) / 2
		if c04BestC(cs, mid) >= c {
			hi = mid
		} else {
			lo = mid
		}
	}
	if c04BestC(cs, hi) == c {
		return hi
	}
	return 0
}

func (g *gen) c04Line(grp *c04Group, api string, n, shape, nbTasks, gmp, nScalars int) {
	if nScalars < 0 {
		nScalars = n
	}
	if !g.thorough() && strings.HasPrefix(grp.curve, "bw6") && nbTasks <= 1024 && nScalars == n && g.rng.intn(2) == 0 {
		return // the reference scalar multiplication over a 633/761-bit field dominates the quick tier
	}
	g.emit("C04 MSM %s %s %s %s %x %x %x %s %s %s %x", grp.curve, grp.grp, api, grp.params, g.rng.u64(), n, shape,
		c04HexInt(nbTasks), c04HexInt(gmp), c04HexInt(nScalars), runtime.NumCPU())
}

var c04Shapes = 14

func genC04(g *gen) {
	ncpu := runtime.NumCPU()
	taskLattice := []int{-1, 0, 1, 2, 3, ncpu - 1, ncpu, ncpu + 1, 16, 1024}
	apis := []string{"aff", "jac", "fold"}
	pickTasks := func() int { return taskLattice[g.rng.intn(len(taskLattice))] }
	pickGmp := func() int { return []int{0, 0, 1, 2, 3, ncpu, 2 * ncpu}[g.rng.intn(7)] }

	for gi, key := range c04Order {
		grp := c04Groups[key]
		main := key == "bn254/g1"
		heavy := strings.HasPrefix(key, "bw6") || strings.HasPrefix(key, "bls24") || grp.grp == "g2"
		// (1) error classes and the empty / tiny inputs
		if main || g.thorough() {
			for _, api := range []string{"aff", "jac", "fold", "foldjac"} {
				g.c04Line(grp, api, 3, 0, 1025, 0, 3)
				g.c04Line(grp, api, 0, 0, 1, 0, 0)
			}
			g.c04Line(grp, "aff", 3, 0, 2, 0, 2)
			g.c04Line(grp, "jac", 2, 0, 2, 0, 3)
			g.c04Line(grp, "aff", 0, 0, 0, 0, 1)
			g.c04Line(grp, "jac", 2, 0, 4000, 0, 5) // both errors: the length is reported
		} else {
			g.c04Line(grp, apis[gi%3], 3, 0, 1025, 0, 3)
			g.c04Line(grp, apis[(gi+1)%3], 3, 0, 1, 0, 2)
			g.c04Line(grp, apis[(gi+2)%3], 0, 0, 0, 0, 0)
		}
		// (2) every shape on small inputs, tasks from the lattice
		nsmall := []int{1, 2, 3, 4, 5, 8, 13, 33, 64}
		reps := g.budget(1, 2)
		if main {
			reps = g.budget(2, 8)
		}
		for rep := 0; rep < reps; rep++ {
			for shape := 0; shape < c04Shapes; shape++ {
				if !main && !g.thorough() && (shape+gi+rep)%4 != 0 {
					continue
				}
				n := nsmall[g.rng.intn(len(nsmall))]
				g.c04Line(grp, apis[g.rng.intn(3)], n, shape, pickTasks(), pickGmp(), n)
			}
		}
		// (3) NbTasks lattice × GOMAXPROCS on one medium input
		if main || g.thorough() {
			for _, t := range append(taskLattice, 1024, 7, 64, 512, 513) {
				g.c04Line(grp, "jac", 50+g.rng.intn(200), 0, t, pickGmp(), -1)
			}
			for _, m := range []int{1, 2, 3, ncpu - 1, ncpu + 1, 4 * ncpu} {
				if m > 0 {
					g.c04Line(grp, "aff", 300+g.rng.intn(300), g.rng.intn(c04Shapes), pickTasks(), m, -1)
				}
			}
		}
		// (4) sizes that select every window c (NbTasks=1 never splits, so c = bestC(n)); other task counts too
		maxN := g.budget(6000, 1<<20)
		if heavy {
			maxN = g.budget(400, 1<<17)
		}
		if main {
			maxN = g.budget(21000, 1<<20)
		}
		for _, c := range grp.cs {
			n0 := c04FirstN(grp.cs, c)
			if c != grp.cs[0] && n0 == 0 {
				continue
			}
			for vi, n := range []int{n0 - 1, n0, n0 + 1 + g.rng.intn(n0/8+1)} {
				if n < 0 || n > maxN {
					continue
				}
				if g.thorough() {
					// the big sizes are expensive: all three n only for the main group, only the threshold elsewhere
					if !main && vi != 1 && (c >= 13 || heavy && c >= 11) {
						continue
					}
					g.c04Line(grp, "jac", n, 0, 1, 0, -1)
					if main || vi == 1 {
						g.c04Line(grp, apis[g.rng.intn(3)], n, 0, pickTasks(), pickGmp(), -1)
					}
				} else if main {
					if vi < 2 {
						g.c04Line(grp, "jac", n, 0, 1, 0, -1) // exactly at the threshold, one task: c = bestC(n)
					} else {
						g.c04Line(grp, apis[g.rng.intn(3)], n, 0, pickTasks(), pickGmp(), -1)
					}
				} else if vi == 1 {
					g.c04Line(grp, "jac", n, 0, 1, 0, -1)
				}
			}
		}
		// (5) skewed inputs on sizes with c ≥ 10: overweight chunk split (shapes 8, 12, 9) and batch-affine
		//     conflicts / doublings / cancellations (shapes 10, 11, 13, 1)
		if main || g.thorough() || !heavy {
			sizes := []int{4500, 9300}
			if g.thorough() && !heavy {
				sizes = append(sizes, 21000, 46000)
			}
			if g.thorough() && main {
				sizes = append(sizes, 99000, 214000, 460000)
			}
			for _, n := range sizes {
				if n > maxN {
					continue
				}
				for _, shape := range []int{8, 12, 9, 10, 11, 13, 1, 2, 7} {
					if !main && !g.thorough() && g.rng.intn(3) != 0 {
						continue
					}
					if !main && g.thorough() && g.rng.intn(2) != 0 {
						continue
					}
					t := 1
					if g.rng.coin() {
						t = pickTasks()
					}
					g.c04Line(grp, apis[g.rng.intn(2)], n+g.rng.intn(64), shape, t, pickGmp(), -1)
				}
			}
		}
	}
	// (6) BatchScalarMultiplication (same partitionScalars, window 2..16 chosen from n)
	//     secp256k1 is kept below 3585 scalars: from there on the function selects c=16, which the secp256k1
	//     instance does not support (known finding: index out of range in partitionScalars / wrong digits)
	for _, key := range c04Order {
		grp := c04Groups[key]
		sizes := []int{0, 1, 2, 5, 40, 300}
		if g.thorough() {
			sizes = append(sizes, 1024, 1025, 3584, 3585, 20000)
		} else if grp.curve == "secp256k1" {
			sizes = append(sizes, 3585) // regression: window 16 is not supported by this instance (fixed by 59511a2)
		}
		for _, n := range sizes {
			if !g.thorough() && key != "bn254/g1" && g.rng.intn(3) != 0 {
				continue
			}
			shape := []int{0, 4, 6, 7, 9, 12}[g.rng.intn(6)]
			g.emit("C04 BSM %s %s %s %x %x %x", grp.curve, grp.grp, grp.params, g.rng.u64(), n, shape)
		}
	}
	c04ShimGen(g)
}

// GV_C04_CRASH=1 also emits the lines that are known to crash the harness process (panic in a goroutine of the library)
var c04Crash = os.Getenv("GV_C04_CRASH") != ""

func init() {
	executors["C04"] = execC04
	generators["C04"] = genC04
}

var _ = fmt.Sprint
