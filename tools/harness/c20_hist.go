package main

// C20, second generator family:
//  (a) serx: WriteTo / ReadFrom of polynomials whose storage length differs from Size() ("extended" / blinded objects:
//      SetSize, conversion of a canonical polynomial to a larger domain, short canonical inputs), in every basis and layout,
//      with shifts, observed through the bytes, the full dump, Evaluate and GetCoeff after the round trip and after further
//      conversions; ReadFrom on streams whose size word differs from the vector length.
//  (b) histories: `rep` / `hist` lines (see c20exec): the same call repeated in one process, and calls of different sizes /
//      curves interleaved; the model is pure, so every repetition must give the first answer (caches, pools, domains and
//      aliasing of returned slices are what such lines observe).

import (
	"fmt"
	"math/big"
	"strings"
)

func (g *c20g) serx(ci int) {
	maxm := g.budget(3, 5)
	idx := 0
	for fi, form := range c20forms {
		for m := 0; m <= maxm; m++ {
			if form[0] == 'k' && m == 0 {
				continue // a LagrangeCoset object on a domain of size 1: class `cosetnew`
			}
			n := 1 << m
			pre := []string{}
			if form[0] == 'k' {
				pre = append(pre, fmt.Sprintf("K%x", m))
			}
			toCanon := []string{}
			if form[0] != 'c' {
				toCanon = []string{fmt.Sprintf("C%x", m)}
			}
			M1, M2 := m+1, m+2
			flip := func(i int) string { return []string{"R", "B"}[i%2] }
			tk := func(f string, v int) string { return fmt.Sprintf("%s%x", f, v) }
			cat := func(a []string, b ...string) []string { return append(append([]string{}, a...), b...) }
			type ext struct {
				toks []string
				ln   int // length of the input vector
				M    int // log2 of the storage length after toks
				id   int // class number (the same for every m)
				minM int // smallest m for which the class exists
			}
			exts := []ext{
				{[]string{}, n, m, 0, 0},
				{[]string{tk("Z", 2*n)}, n, m, 1, 0},
				{cat(toCanon, tk("L", M1)), n, M1, 2, 0},
				{cat(toCanon, tk("K", M2)), n, M2, 3, 0},
				{cat(toCanon, tk("L", M1), tk("C", M1)), n, M1, 4, 0},
				{cat(toCanon, tk("K", M1), flip(idx)), n, M1, 5, 0},
				{cat(toCanon, tk("L", M2), flip(idx+1)), n, M2, 6, 0},
				{cat(toCanon, tk("K", M1), tk("C", M1), flip(idx)), n, M1, 7, 0},
				{cat(toCanon, tk("L", M1), tk("Z", 2*n)), n, M1, 8, 0}, // extended, then declared size = storage length
			}
			if m >= 1 {
				exts = append(exts, ext{[]string{tk("Z", n/2)}, n, m, 9, 1}, ext{[]string{tk("Z", 1)}, n, m, 10, 1},
					ext{cat(toCanon, tk("L", M1), tk("Z", n/2)), n, M1, 11, 1})
			}
			if m >= 2 {
				exts = append(exts, ext{[]string{tk("Z", n/4)}, n, m, 12, 2}, ext{[]string{tk("Z", n-1)}, n, m, 13, 2})
			}
			if form == "cr" && m >= 1 {
				// short canonical input: Size() = len < domain, not a power of two when n > 2
				exts = append(exts, ext{[]string{tk("L", m)}, n - 1, m, 14, 1}, ext{[]string{tk("K", M1), "R"}, n/2 + 1, M1, 15, 1})
			}
			pos := []int64{1, 2, 3, 5, 6, 7, int64(n), int64(n) + 1, 3*int64(n) + 2, 1000}
			neg := []int64{-1, -2, -6, -int64(n), -int64(n) - 1}
			big31 := []int64{(1 << 31) - 1, -(1 << 31), 1 << 30}
			for _, e := range exts {
				idx++
				ei := e.id
				if !g.thorough() {
					// quick tier: every (form, extension class) at one size, the size rotating with form, class and curve
					lo := e.minM
					if form[0] == 'k' && lo == 0 {
						lo = 1
					}
					if m != lo+(ei+fi+ci)%(maxm-lo+1) {
						continue
					}
				}
				base := cat(pre, e.toks...)
				x := "E" + hexBig(g.rnd())
				y := "E" + hexBig(g.rnd())
				conv := tk([]string{"L", "C", "K"}[g.rng.intn(3)], e.M)
				// shift 0 and a positive shift: bytes, round trip, dump, values, entries, a second round trip after a flip,
				// a conversion of the deserialised object
				for si, s := range []int64{pos[(idx+ei)%len(pos)], 0} {
					if si == 1 && (ei+ci)%3 != 0 && !g.thorough() {
						continue
					}
					g.script("ser", form, g.vec(e.ln), cat(base, "S"+c20int(s), "W", x, "w", "F", x, "G", flip(idx), "w", "F", y, "W", conv, "F", y))
				}
				// clone / shallow clone of an extended object, then serialisation
				if (ei+ci)%3 == 1 || g.thorough() {
					g.script("ser", form, g.vec(e.ln), cat(base, "S"+c20int(pos[(idx+2*ei+1)%len(pos)]), []string{"c", "h"}[idx%2], "w", "F", x, "G"))
				}
				// negative shift (known finding on the shift word: the dump comes first), values and entries must survive
				g.script("ser", form, g.vec(e.ln), cat(base, "S"+c20int(neg[(idx+ei)%len(neg)]), "w", "F", x, "G", "W"))
				// shifts at the 32-bit boundary: dump, entries and bytes only (the model's power is linear in the shift)
				if (ei+ci)%3 == 2 || g.thorough() {
					g.script("ser", form, g.vec(e.ln), cat(base, "S"+c20int(big31[idx%len(big31)]), "w", "F", "G", "W"))
				}
			}
		}
	}
	// ReadFrom on streams whose size word differs from the vector length, every basis / layout code
	nb := g.c.NBytes()
	for _, n := range []int{1, 2, 4, 8} {
		for _, sz := range []int{n, n / 2, n / 4, 2 * n, 0, n + 1} {
			for bi, basis := range []uint32{1, 2, 4} {
				layout := uint32(8) << uint((bi+sz)%2)
				var b []byte
				u32 := func(v uint32) { b = append(b, byte(v>>24), byte(v>>16), byte(v>>8), byte(v)) }
				elt := func(v *big.Int) { b = append(b, v.FillBytes(make([]byte, nb))...) }
				u32(uint32(n))
				for _, c := range g.vecBig(n) {
					elt(c)
				}
				u32(basis)
				u32(layout)
				u32(uint32(g.rng.intn(9)))
				u32(uint32(sz))
				elt(g.el())
				g.emit("C20 read %s %s %x %s", g.c.Name(), hexBig(g.q), nb, hexBytes(b))
			}
		}
	}
}

// lines of the polynomial package: `<kind> <curve> <q> <args…>` without the property tag
func (g *c20g) pline(kind string, a ...string) string {
	return fmt.Sprintf("%s %s %s %s", kind, g.c.Name(), hexBig(g.q), strings.Join(a, " "))
}

func (g *c20g) histories() {
	// InterpolateOnRange (cached Lagrange basis per length): repeated and interleaved lengths
	maxlen := g.budget(12, 40)
	for n := 0; n <= maxlen; n++ {
		g.emit("C20 rep %x %s", 2+g.rng.intn(3), g.pline("interp", g.vec(n)))
		if n == 0 {
			continue
		}
		n2 := 1 + g.rng.intn(maxlen)
		v1, v2, u1, u2 := g.vec(n), g.vec(n), g.vec(n2), g.vec(n2)
		g.emit("C20 hist %s", strings.Join([]string{g.pline("interp", v1), g.pline("interp", u1), g.pline("interp", v2),
			g.pline("interp", v1), g.pline("interp", u2), g.pline("interp", u1)}, " / "))
	}
	for _, n := range []int{16, 33, 64} {
		if n > 33 && !g.thorough() {
			continue
		}
		g.emit("C20 hist %s", strings.Join([]string{g.pline("interp", g.vec(n)), g.pline("interp", g.vec(n)), g.pline("interp", g.vec(n))}, " / "))
	}
	// polynomial arithmetic with a receiver that is reused between calls (rep: fresh inputs are parsed on every call)
	for n := 0; n <= 6; n++ {
		a, b := g.vec(n), g.vec(1+g.rng.intn(6))
		for _, mode := range []string{"fresh", "a1", "a2"} {
			g.emit("C20 rep 2 %s", g.pline("padd", mode, a, a, b))
			g.emit("C20 rep 2 %s", g.pline("psub", mode, b, a, b))
		}
		g.emit("C20 rep 2 %s", g.pline("pscale", []string{"nil", "same", "alias"}[n%3], hexBig(g.el()), a))
		g.emit("C20 rep 2 %s", g.pline("peval", a, hexBig(g.el())))
	}
	// multilinear evaluation through one pool that lives as long as the process (mode 2), sizes interleaved
	for n := 0; n <= g.budget(5, 7); n++ {
		sz := 1 << n
		n2 := g.rng.intn(g.budget(5, 7) + 1)
		m1, c1 := g.vec(sz), g.vec(n)
		m2, c2 := g.vec(1<<n2), g.vec(n2)
		g.emit("C20 hist %s", strings.Join([]string{g.pline("mleval", "2", m1, c1), g.pline("mleval", "2", m2, c2),
			g.pline("mleval", "2", m1, c1), g.pline("mleval", "2", g.vec(sz), c1), g.pline("mleval", "1", m1, c1),
			g.pline("mleval", "2", m2, c2), g.pline("mlfold", m1, hexBig(g.el())), g.pline("mleval", "2", m1, c1)}, " / "))
		g.emit("C20 rep 3 %s", g.pline("mleval", "2", g.vec(sz), g.vec(n)))
		g.emit("C20 rep 2 %s", g.pline("mleq", g.vec(sz), g.vec(n)))
		g.emit("C20 rep 2 %s", g.pline("evaleq", g.vec(n), g.vec(n)))
	}
}

// wraps a sample of the lines already emitted for this curve into rep / hist lines; `prev` = sample of another curve
func (g *c20g) wrapSample(lines []string, prev []string) []string {
	ok := func(ln string) bool {
		if !strings.HasPrefix(ln, "C20 ") || len(ln) > 3000 {
			return false
		}
		w := strings.SplitN(ln, " ", 3)
		if len(w) < 3 {
			return false
		}
		switch w[1] {
		case "rep", "hist", "read":
			return false
		case "ser":
			// negative shifts through a round trip are a known finding, matched on the plain line only
			return !strings.Contains(ln, "S-")
		case "obj":
			// lines with a caller-chosen coset shift (`d<s>` tokens) stay plain: the finding on ToLagrangeCoset over an object
			// that already is in LagrangeCoset form is matched on the plain line only
			f := strings.Fields(ln)
			for _, t := range strings.Split(f[len(f)-1], ",") {
				if strings.HasPrefix(t, "d") {
					return false
				}
			}
		}
		return true
	}
	var pool []string
	every := g.budget(40, 12)
	for i, ln := range lines {
		if !ok(ln) {
			continue
		}
		pool = append(pool, ln[4:])
		if (i+g.rng.intn(3))%every == 0 {
			g.emit("C20 rep %x %s", 2+g.rng.intn(2), ln[4:])
		}
	}
	if len(pool) == 0 {
		return nil
	}
	other := append(append([]string{}, prev...), pool...)
	var keep []string
	for i := 0; i < g.budget(40, 400); i++ {
		a := pool[g.rng.intn(len(pool))]
		b := other[g.rng.intn(len(other))]
		if i%3 == 0 && len(prev) > 0 {
			b = prev[g.rng.intn(len(prev))]
		}
		g.emit("C20 hist %s / %s / %s", a, b, a)
		if i < 40 {
			keep = append(keep, a)
		}
	}
	return keep
}
